(* C02 property theorems: statements closed by `exact lemma`, Print Assumptions, and Examples (non-vacuity / concrete
   histories evaluated on the model).

   Main statement (closed, for ALL histories; proof in Refine.v):

     C02_read_is_lww : forall h, ops_allowed h = true -> forall s tmin tmax fs asc,
        read_layout (run false h) s tmin tmax fs asc = shape tmin tmax fs asc (sel s (lww_table (writes_of h)))

   h ranges over every list of ops  Write (any rows: partial fields, late, repeated keys) | Flush | BeginFlush | EndFlush
   (paused flush: reads with a live snapshot table) | Compact (level / full: adjacent groups) | MergeOOO | MergeSelf |
   Reopen, with the sequence numbers / groups / per-file bounds the store chose as op parameters. `ops_allowed` is the
   decidable planner/store predicate (op_ok: fresh sequences, adjacent runs, oldest-prefix; written rows carry >= 1 field
   with ascending ids; layout_ok after each op: ordered files time-increasing per series) - the SAME boolean the
   correspondence evaluates on every replayed history (codes 4 and 5). `run false` is the repaired model (log replayed in
   acknowledgement order, merge-self in sequence order); today's variants are refuted in Refuted.v.
   C02_read_sorted_no_duplicates is the "sorted by time, no duplicate timestamps per series" conclusion,
   C02_read_lookup_is_replay the (series,timestamp,field)-map form, C02_sort_dedup_code_shaped ties the code-shaped
   ColumnSortHelper.Sort model to the replay, C02_reorganisation_invisible is the corollary for flush / compaction /
   merges / reopen. *)
From Coq Require Import ZArith List Bool Sorted.
From OG Require Import C02.Model C02.Proofs C02.Corr C02.Refine C02.FileCursor C02.LayoutOk C02.CorrAgg C02.TagSet C02.Limit.
Import ListNotations.
Open Scope Z_scope.

(* reading a newer container over an older one is field-wise precedence *)
Theorem C02_over_is_precedence : forall a b k f, wf_table a -> wf_table b ->
  get2 (over a b) k f = orelse (get2 a k f) (get2 b k f).
Proof. exact get2_over. Qed.
Print Assumptions C02_over_is_precedence.

Theorem C02_over_sorted_no_duplicates : forall a b, wf_table a -> wf_table b -> wf_table (over a b).
Proof. exact wf_over. Qed.

(* sort_dedup_is_lww (insertion form): the table of a row sequence is sorted by (series,time), has one row per
   timestamp, no empty row, and its (series,time,field) lookups are the last-write-wins replay of the sequence *)
Theorem C02_sort_dedup_is_lww : forall raw, wf_raw raw ->
  wf_table (lww_table raw) /\ forall k f, get2 (lww_table raw) k f = lww_get raw k f.
Proof. exact lww_table_spec. Qed.
Print Assumptions C02_sort_dedup_is_lww.

(* rows sorted by time with no duplicate timestamps are determined by their lookups: equality of reads as lists *)
Theorem C02_rows_determined_by_lookups : forall a b, wf_table a -> wf_table b ->
  (forall k f, get2 a k f = get2 b k f) -> a = b.
Proof. exact table_ext. Qed.
Print Assumptions C02_rows_determined_by_lookups.

Theorem C02_replay_app : forall a b k f, lww_get (a ++ b) k f = orelse (lww_get b k f) (lww_get a k f).
Proof. exact lww_get_app. Qed.

(* Write step *)
Theorem C02_write_takes_precedence : forall raw b, wf_raw raw -> wf_raw b -> forall k f,
  get2 (lww_table (raw ++ b)) k f = orelse (get2 (lww_table b) k f) (get2 (lww_table raw) k f).
Proof. exact write_visible. Qed.

(* Flush step: the order / out-of-order split is invisible, provided no file holds a key of a row sent to the new
   ordered file (what  time > flushTime  gives) *)
Theorem C02_flush_invisible : forall (late : key -> bool) T U O,
  wf_table T -> wf_table U -> wf_table O ->
  (forall k, late k = false -> get kcmp T k <> None -> get kcmp U k = None /\ get kcmp O k = None) ->
  over (over (kfilter late T) U) (over (kfilter (fun k => negb (late k)) T) O) = over T (over U O).
Proof. exact flush_split_invisible. Qed.
Print Assumptions C02_flush_invisible.

(* Compact / MergeSelf / MergeOOO steps: folding an adjacent run of containers into one is invisible *)
Theorem C02_compact_merge_invisible : forall a b c, wf_table a -> wf_table b -> wf_table c ->
  over (over a b) c = over a (over b c).
Proof. exact over_assoc. Qed.
Print Assumptions C02_compact_merge_invisible.

(* ordered files are key-disjoint, so their relative precedence does not matter *)
Theorem C02_disjoint_commute : forall a b, wf_table a -> wf_table b -> disjoint a b -> over a b = over b a.
Proof. exact over_comm. Qed.

(* out-of-order merge lays the merged rows out over the ordered files again by a function of the key *)
Theorem C02_redistribute_invisible : forall (p : key -> bool) T, wf_table T ->
  over (kfilter p T) (kfilter (fun k => negb (p k)) T) = T.
Proof. exact split2_product. Qed.

(* the code-shaped stable sort + left-to-right replace (what ColumnSortHelper.Sort does and the evaluator runs) IS the
   last-write-wins table of the row sequence - for every row sequence, no side condition *)
Theorem C02_sort_dedup_code_shaped : forall raw, sort_dedup raw = lww_table raw.
Proof. exact sort_dedup_lww. Qed.
Print Assumptions C02_sort_dedup_code_shaped.

(* MAIN: for every allowed history, every series, time range, field subset and direction, the read of the layout equals
   the shaped last-write-wins replay of the acknowledged writes *)
Theorem C02_read_is_lww : forall h, ops_allowed h = true -> forall s tmin tmax fs asc,
  read_layout (run false h) s tmin tmax fs asc = shape tmin tmax fs asc (sel s (lww_table (writes_of h))).
Proof. exact read_layout_is_lww. Qed.
Print Assumptions C02_read_is_lww.

(* rows come back sorted by time (strictly: no duplicate timestamps), all of the series asked for, none empty;
   ascending or descending *)
Theorem C02_read_sorted_no_duplicates : forall h, ops_allowed h = true -> forall s tmin tmax fs asc,
  time_ordered asc s (read_layout (run false h) s tmin tmax fs asc).
Proof. exact read_sorted. Qed.
Print Assumptions C02_read_sorted_no_duplicates.

Theorem C02_descending_is_reverse : forall L s tmin tmax fs,
  read_layout L s tmin tmax fs false = rev (read_layout L s tmin tmax fs true).
Proof. exact descending_is_reverse. Qed.

(* map form: the value a read holds at (series, timestamp, field) is the one the replay of all acknowledged writes in
   acknowledgement order left there (a later write replaces the fields it carries, the others stay) *)
Theorem C02_read_lookup_is_replay : forall h, ops_allowed h = true -> forall s t f,
  get2 (read_series (run false h) s) (s, t) f = lww_get (writes_of h) (s, t) f.
Proof. exact read_lookup_is_replay. Qed.
Print Assumptions C02_read_lookup_is_replay.

(* flush (plain or paused), level / full compaction, out-of-order merge, merge-self and close/reopen change no read *)
Theorem C02_reorganisation_invisible : forall h o, ops_allowed (h ++ [o]) = true -> write_free o = true ->
  forall s, read_series (run false (h ++ [o])) s = read_series (run false h) s.
Proof. exact reorganisation_invisible. Qed.
Print Assumptions C02_reorganisation_invisible.

(* the evaluator's variant selector: (wal replay repaired, merge-self mode 0) is the model the theorems are about *)
Theorem C02_evaluator_variant_is_repaired : forall h, run2 false 0 h = run false h.
Proof. exact run2_repaired. Qed.

(* a history on which the correspondence evaluator reports no mismatch (repaired variant) satisfies the hypothesis of
   the theorems above: the runtime check and the theorem speak about the same predicate *)
Theorem C02_evaluator_accepts_only_allowed : forall c, check_case false 0 c = None -> ops_allowed (map fst (snd c)) = true.
Proof. exact check_case_allowed. Qed.
Print Assumptions C02_evaluator_accepts_only_allowed.

(* the FILE-CURSOR read path (aggregates computed file by file: fileLoopCursor / fileCursor.readData), ascending: the
   blocks handed to the aggregate operators are, concatenated, exactly the last-write-wins rows of the series in time
   order - for every allowed history (both variants of the walk agree when ascending) *)
Theorem C02_filecursor_asc_is_lww : forall h s current, ops_allowed h = true ->
  fc_rows current false (run false h) s = sel s (lww_table (writes_of h)).
Proof. exact fc_rows_asc_is_lww. Qed.
Print Assumptions C02_filecursor_asc_is_lww.

(* the REPAIRED descending walk (the file at visiting index len-1 is the last one; rows of memtable / out-of-order files
   are cut at each chunk's minimum time): the blocks, each delivered newest row first, are the last-write-wins rows of
   the series in descending time order - for every allowed history. Today's descending walk is refuted in Refuted.v
   (C02_desc_filecursor_current_refuted). *)
Theorem C02_filecursor_desc_repaired_is_lww : forall h s, ops_allowed h = true ->
  fc_stream_desc (run false h) s = rev (sel s (lww_table (writes_of h))).
Proof. exact fc_stream_desc_is_lww. Qed.
Print Assumptions C02_filecursor_desc_repaired_is_lww.

(* the aggregates the evaluator recomputes on the model of the file-cursor walk (CorrAgg.v: count / sum / min / max /
   first / last, ascending and descending) are the aggregates over the last-write-wins rows *)
Theorem C02_filecursor_aggregate_is_lww : forall h o, ops_allowed h = true ->
  fc_agg o (run false h) =
  agg_of (a_fn o) (field_vals (a_f o) (a_tmin o) (a_tmax o)
                     (if a_desc o then rev (sel (a_s o) (lww_table (writes_of h))) else sel (a_s o) (lww_table (writes_of h)))).
Proof. exact fc_agg_is_lww. Qed.
Print Assumptions C02_filecursor_aggregate_is_lww.

(* the merged stream of a tag set holding several series (tagSetCursor's heap: by time, equal times by series key;
   descending reversed): sorted by (time, series), and restricted to any one series it is exactly that series' read - hence
   (C02_read_is_lww) the shaped last-write-wins rows of the series *)
Theorem C02_tagset_stream_sorted : forall nser L tmin tmax fs, StronglySorted tle (flat_stream nser L tmin tmax fs true).
Proof. exact flat_stream_sorted. Qed.
Theorem C02_tagset_stream_per_series : forall h, ops_allowed h = true -> forall nser s tmin tmax fs asc, In s (zrange nser) ->
  filter (ser s) (flat_stream nser (run false h) tmin tmax fs asc) = read_layout (run false h) s tmin tmax fs asc.
Proof. exact flat_stream_series. Qed.
Print Assumptions C02_tagset_stream_per_series.

(* LIMIT / OFFSET pushed down to the store: an observation the evaluator accepts consists, series by series, of
   PREFIXES of the shaped last-write-wins rows *)
Theorem C02_limit_read_is_prefix_of_lww : forall h, ops_allowed h = true -> forall nser tmin tmax fs asc need per,
  limit_ok nser (run false h) (tmin, tmax, fs, asc, need, per) = true ->
  forall p s, In (p, s) (combine per (zrange nser)) ->
  exists rest, shape tmin tmax fs asc (sel s (lww_table (writes_of h))) = p ++ rest.
Proof. exact limit_ok_sound. Qed.
Print Assumptions C02_limit_read_is_prefix_of_lww.

(* THE LAYOUT PREDICATE IS AN INVARIANT, not an assumption: every op allowed by the planner / store predicate preserves
   it (sequences ascending; ordered files per-series time-increasing by position). The flush split at the flush time,
   the adjacency of compaction groups, and - for the out-of-order merge - the ascending sequences of the files it writes
   together with the monotone placement by bounds are exactly what keeps it. *)
Theorem C02_layout_ok_preserved : forall L o, layout_ok L = true -> op_ok L o = true -> layout_ok (step false L o) = true.
Proof. exact step_layout_ok. Qed.
Print Assumptions C02_layout_ok_preserved.

(* hence the planner predicate alone (op_ok + write_ok per op, nothing about the layout) is equivalent to the hypothesis
   of the theorems above *)
Theorem C02_planned_is_allowed : forall h, ops_planned h = true -> ops_allowed h = true.
Proof. exact planned_allowed. Qed.
Theorem C02_read_is_lww_planner_only : forall h, ops_planned h = true -> forall s tmin tmax fs asc,
  read_layout (run false h) s tmin tmax fs asc = shape tmin tmax fs asc (sel s (lww_table (writes_of h))).
Proof. exact read_is_lww_planned. Qed.
Print Assumptions C02_read_is_lww_planner_only.

(* ---- Examples: concrete histories on the executable model (closed by vm_compute) ---- *)
Definition r (s t : Z) (fs : list (Z * Z)) : row := ((s, t), fs).
Definition h1 : list op :=
  [ Write [r 0 5 [(0,1);(1,1);(2,1);(3,1)]; r 1 5 [(0,2)]]; Flush false 1 2;
    Write [r 0 5 [(1,9)]; r 0 3 [(0,3)]; r 1 7 [(0,4)]]; Flush false 3 4;
    Write [r 0 5 [(2,0)]; r 0 3 [(3,2)]]; BeginFlush; Write [r 0 5 [(3,5)]; r 0 3 [(0,8)]; r 0 3 [(0,9)]]; EndFlush false 5 6;
    MergeSelf [4;6] 4; Write [r 0 6 [(0,1)]]; Flush false 7 8; Compact [[1;3]];
    MergeOOO [4] [(1, [(0,5);(1,7)]); (7, [(0,6)])]; Reopen 1 true 9 10; Write [r 0 5 [(0,7)]]; Flush false 11 12 ].

(* hypotheses are satisfiable: every op of h1 is allowed in the state it is applied to, the layout invariant holds *)
Example C02_example_ops_allowed : ops_allowed h1 = true.
Proof. vm_compute. reflexivity. Qed.

(* the read of every series equals the last-write-wins replay of the writes, ascending and descending, with a range
   and a field subset *)
Example C02_example_read_is_lww :
  forallb (fun s => Corr_eq (read_series (run false h1) s) (sel s (lww_table (writes_of h1)))) [0; 1; 2] = true
  /\ read_layout (run false h1) 0 4 6 [0; 3] false = rev (read_layout (run false h1) 0 4 6 [0; 3] true)
  /\ read_layout (run false h1) 0 4 6 [0; 3] true = shape 4 6 [0; 3] true (sel 0 (lww_table (writes_of h1))).
Proof. vm_compute. repeat split. Qed.

(* the code-shaped sort_dedup (stable sort, then left-to-right replace) agrees with the insertion form *)
Example C02_example_sort_dedup :
  let raw := [r 3 5 [(1,34);(2,1);(3,5)]; r 1 4 [(0,30);(1,5)]; r 1 4 [(0,20);(1,-6);(2,1);(3,4)]; r 3 3 [(0,15)];
              r 3 0 [(0,38);(1,-1);(2,1);(3,1)]; r 0 3 [(2,0)]; r 0 3 [(1,31)]; r 2 4 [(0,36);(1,3);(2,0);(3,4)]; r 2 4 [(2,1);(3,1)]] in
  sort_dedup raw = lww_table raw.
Proof. vm_compute. reflexivity. Qed.

(* the repaired descending file-cursor walk on the witness history of Refuted.v (C02_desc_filecursor_current_refuted) *)
Example C02_example_filecursor_desc_repaired :
  let h := [ Write [r 0 2 [(0,1)]; r 0 3 [(0,1)]]; Flush false 1 1001; Write [r 0 6 [(0,1)]]; Flush false 2 1002; Write [r 0 2 [(0,7)]] ] in
  ops_allowed h = true /\
  fc_count false true (run false h) 0 0 9 0 = 3 /\
  Corr_eq (rev (fc_rows false true (run false h) 0)) (sel 0 (lww_table (writes_of h))) = false /\
  fc_rows false false (run false h) 0 = sel 0 (lww_table (writes_of h)).
Proof. vm_compute. repeat split. Qed.

Example C02_example_ops_planned : ops_planned h1 = true.
Proof. vm_compute. reflexivity. Qed.
