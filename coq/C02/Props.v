(* C02 property theorems: statements closed by `exact lemma`, Print Assumptions, and Examples (non-vacuity / concrete
   histories evaluated on the model).

   Status of the main refinement statement

     C02_read_is_lww : forall h s tmin tmax fs asc, ops_allowed h ->
        read_layout (run false h) s tmin tmax fs asc = shape tmin tmax fs asc (sel s (lww_table (writes_of h)))

   is NOT closed as one theorem over `run`. What is proved (for all tables / rows, no bound) are its induction steps at
   the level of the precedence algebra - the theorems below; they are collected in C02_read_is_lww_partial.
   Missing to close the full statement: (a) sort_dedup (stable sort + left-to-right replace, the code-shaped function
   the evaluator runs) = lww_table; (b) the induction over `run` that ties the list-of-files bookkeeping (insert_file
   with a fresh sequence = append, replace_run of an adjacent group, the bound-driven placement of merge_ooo, the
   flush-time scan) to these algebraic steps; (c) ord_cat s = sel s (ord_prod ..) under ord_ok_from. All three are
   exercised on every run by the correspondence (the evaluator executes exactly these functions against the real
   shard) and by the Examples at the end of this file. *)
From Coq Require Import ZArith List Bool.
From OG Require Import C02.Model C02.Proofs.
Import ListNotations.
Open Scope Z_scope.

(* reading a newer container over an older one is field-wise precedence *)
Theorem C02_over_is_precedence : forall a b k f, wf_table a -> wf_table b ->
  get2 (over a b) k f = orelse (get2 a k f) (get2 b k f).
Proof. exact get2_over. Qed.
Print Assumptions C02_over_is_precedence.

Theorem C02_over_sorted_no_duplicates : forall a b, wf_table a -> wf_table b -> wf_table (over a b).
Proof. exact wf_over. Qed.

(* sort_dedup_is_lww (insertion form): the table of a row sequence is sorted by (series,time), has one row per
   timestamp, no empty row, and its (series,time,field) lookups are the last-write-wins replay of the sequence *)
Theorem C02_sort_dedup_is_lww : forall raw, wf_raw raw ->
  wf_table (lww_table raw) /\ forall k f, get2 (lww_table raw) k f = lww_get raw k f.
Proof. exact lww_table_spec. Qed.
Print Assumptions C02_sort_dedup_is_lww.

(* rows sorted by time with no duplicate timestamps are determined by their lookups: equality of reads as lists *)
Theorem C02_rows_determined_by_lookups : forall a b, wf_table a -> wf_table b ->
  (forall k f, get2 a k f = get2 b k f) -> a = b.
Proof. exact table_ext. Qed.
Print Assumptions C02_rows_determined_by_lookups.

Theorem C02_replay_app : forall a b k f, lww_get (a ++ b) k f = orelse (lww_get b k f) (lww_get a k f).
Proof. exact lww_get_app. Qed.

(* Write step *)
Theorem C02_write_takes_precedence : forall raw b, wf_raw raw -> wf_raw b -> forall k f,
  get2 (lww_table (raw ++ b)) k f = orelse (get2 (lww_table b) k f) (get2 (lww_table raw) k f).
Proof. exact write_visible. Qed.

(* Flush step: the order / out-of-order split is invisible, provided no file holds a key of a row sent to the new
   ordered file (what  time > flushTime  gives) *)
Theorem C02_flush_invisible : forall (late : key -> bool) T U O,
  wf_table T -> wf_table U -> wf_table O ->
  (forall k, late k = false -> get kcmp T k <> None -> get kcmp U k = None /\ get kcmp O k = None) ->
  over (over (kfilter late T) U) (over (kfilter (fun k => negb (late k)) T) O) = over T (over U O).
Proof. exact flush_split_invisible. Qed.
Print Assumptions C02_flush_invisible.

(* Compact / MergeSelf / MergeOOO steps: folding an adjacent run of containers into one is invisible *)
Theorem C02_compact_merge_invisible : forall a b c, wf_table a -> wf_table b -> wf_table c ->
  over (over a b) c = over a (over b c).
Proof. exact over_assoc. Qed.
Print Assumptions C02_compact_merge_invisible.

(* ordered files are key-disjoint, so their relative precedence does not matter *)
Theorem C02_disjoint_commute : forall a b, wf_table a -> wf_table b -> disjoint a b -> over a b = over b a.
Proof. exact over_comm. Qed.

(* out-of-order merge lays the merged rows out over the ordered files again by a function of the key *)
Theorem C02_redistribute_invisible : forall (p : key -> bool) T, wf_table T ->
  over (kfilter p T) (kfilter (fun k => negb (p k)) T) = T.
Proof. exact split2_product. Qed.

Theorem C02_read_is_lww_partial :
  (forall raw, wf_raw raw -> wf_table (lww_table raw) /\ forall k f, get2 (lww_table raw) k f = lww_get raw k f) /\
  (forall a b k f, wf_table a -> wf_table b -> get2 (over a b) k f = orelse (get2 a k f) (get2 b k f)) /\
  (forall a b c, wf_table a -> wf_table b -> wf_table c -> over (over a b) c = over a (over b c)) /\
  (forall (late : key -> bool) T U O, wf_table T -> wf_table U -> wf_table O ->
     (forall k, late k = false -> get kcmp T k <> None -> get kcmp U k = None /\ get kcmp O k = None) ->
     over (over (kfilter late T) U) (over (kfilter (fun k => negb (late k)) T) O) = over T (over U O)) /\
  (forall a b, wf_table a -> wf_table b -> (forall k f, get2 a k f = get2 b k f) -> a = b).
Proof. exact (conj lww_table_spec (conj get2_over (conj over_assoc (conj flush_split_invisible table_ext)))). Qed.
Print Assumptions C02_read_is_lww_partial.

(* ---- Examples: concrete histories on the executable model (closed by vm_compute) ---- *)
Definition r (s t : Z) (fs : list (Z * Z)) : row := ((s, t), fs).
Definition h1 : list op :=
  [ Write [r 0 5 [(0,1);(1,1);(2,1);(3,1)]; r 1 5 [(0,2)]]; Flush false 1 2;
    Write [r 0 5 [(1,9)]; r 0 3 [(0,3)]; r 1 7 [(0,4)]]; Flush false 3 4;
    Write [r 0 5 [(2,0)]; r 0 3 [(3,2)]]; BeginFlush; Write [r 0 5 [(3,5)]; r 0 3 [(0,8)]; r 0 3 [(0,9)]]; EndFlush false 5 6;
    MergeSelf [4;6] 4; Write [r 0 6 [(0,1)]]; Flush false 7 8; Compact [[1;3]];
    MergeOOO [4] [(1, [(0,5);(1,7)]); (7, [(0,6)])]; Reopen 1 true 9 10; Write [r 0 5 [(0,7)]]; Flush false 11 12 ].

(* hypotheses are satisfiable: every op of h1 is allowed in the state it is applied to, the layout invariant holds *)
Example C02_example_ops_allowed :
  fst (fold_left (fun (st : bool * layout) o => (fst st && op_ok (snd st) o && layout_ok (step false (snd st) o), step false (snd st) o))
                 h1 (true, init)) = true.
Proof. vm_compute. reflexivity. Qed.

(* the read of every series equals the last-write-wins replay of the writes, ascending and descending, with a range
   and a field subset *)
Example C02_example_read_is_lww :
  forallb (fun s => Corr_eq (read_series (run false h1) s) (sel s (lww_table (writes_of h1)))) [0; 1; 2] = true
  /\ read_layout (run false h1) 0 4 6 [0; 3] false = rev (read_layout (run false h1) 0 4 6 [0; 3] true)
  /\ read_layout (run false h1) 0 4 6 [0; 3] true = shape 4 6 [0; 3] true (sel 0 (lww_table (writes_of h1))).
Proof. vm_compute. repeat split. Qed.

(* the code-shaped sort_dedup (stable sort, then left-to-right replace) agrees with the insertion form *)
Example C02_example_sort_dedup :
  let raw := [r 3 5 [(1,34);(2,1);(3,5)]; r 1 4 [(0,30);(1,5)]; r 1 4 [(0,20);(1,-6);(2,1);(3,4)]; r 3 3 [(0,15)];
              r 3 0 [(0,38);(1,-1);(2,1);(3,1)]; r 0 3 [(2,0)]; r 0 3 [(1,31)]; r 2 4 [(0,36);(1,3);(2,0);(3,4)]; r 2 4 [(2,1);(3,1)]] in
  sort_dedup raw = lww_table raw.
Proof. vm_compute. reflexivity. Qed.
