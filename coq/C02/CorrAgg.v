(* C02 correspondence evaluator for the FILE-CURSOR path: the aggregate results the real store returned after every op
   (exact-statistics hint: count / sum / min / max / first / last per series, ascending and descending) are recomputed
   on the model of the file-cursor walk (FileCursor.v: fc_rows ascending, fc_stream_desc descending, repaired variant) of
   the layout the model reached by replaying the history, and compared. *)
From Coq Require Import ZArith List Bool.
From OG Require Import C02.Model C02.FileCursor.
Import ListNotations.
Open Scope Z_scope.

Record aggobs := { a_desc : bool; a_s : Z; a_tmin : Z; a_tmax : Z; a_f : Z; a_fn : Z; a_has : bool; a_v : Z; a_t : Z }.

(* (time, value) of field f of the rows inside the range, in stream order *)
Definition field_vals (f tmin tmax : Z) (rows : list row) : list (Z * Z) :=
  flat_map (fun r : row =>
              if (tmin <=? snd (fst r)) && (snd (fst r) <=? tmax)
              then match get Z.compare (snd r) f with Some v => [(snd (fst r), v)] | None => [] end
              else []) rows.

(* fn: 0 count, 1 sum, 2 min, 3 max, 4 first, 5 last (by time). Result: (a result exists, value, time of the selected point
   for first / last, else 0). count of nothing is 0. *)
Definition agg_of (fn : Z) (l : list (Z * Z)) : bool * Z * Z :=
  if fn =? 0 then (true, Z.of_nat (length l), 0) else
  match l with
  | [] => (false, 0, 0)
  | (t0, v0) :: r =>
      if fn =? 1 then (true, fold_left (fun a (tv : Z * Z) => a + snd tv) r v0, 0)
      else if fn =? 2 then (true, fold_left (fun a (tv : Z * Z) => Z.min a (snd tv)) r v0, 0)
      else if fn =? 3 then (true, fold_left (fun a (tv : Z * Z) => Z.max a (snd tv)) r v0, 0)
      else if fn =? 4 then
        let tv := fold_left (fun (a tv : Z * Z) => if fst tv <? fst a then tv else a) r (t0, v0) in (true, snd tv, fst tv)
      else
        let tv := fold_left (fun (a tv : Z * Z) => if fst a <? fst tv then tv else a) r (t0, v0) in (true, snd tv, fst tv)
  end.

Definition fc_stream (desc : bool) (L : layout) (s : Z) : list row :=
  if desc then fc_stream_desc L s else fc_rows false false L s.
Definition fc_agg (o : aggobs) (L : layout) : bool * Z * Z :=
  agg_of (a_fn o) (field_vals (a_f o) (a_tmin o) (a_tmax o) (fc_stream (a_desc o) L (a_s o))).
Definition agg_ok (o : aggobs) (L : layout) : bool :=
  let '(h, v, t) := fc_agg o L in
  Bool.eqb h (a_has o) && (negb h || ((v =? a_v o) && (t =? a_t o))).

Fixpoint bad_obs (j : nat) (L : layout) (os : list aggobs) : list nat :=
  match os with
  | [] => []
  | o :: r => if agg_ok o L then bad_obs (S j) L r else j :: bad_obs (S j) L r
  end.
(* (op index, observation index) of every aggregate the model does not reproduce *)
Fixpoint agg_check_from (i : nat) (L : layout) (h : list (op * list aggobs)) : list (nat * nat) :=
  match h with
  | [] => []
  | (o, os) :: r => let L' := step false L o in
                    map (fun j => (i, j)) (bad_obs 0 L' os) ++ agg_check_from (S i) L' r
  end.
Fixpoint agg_mismatches_from (k : nat) (cs : list (list (op * list aggobs))) : list (nat * nat * nat) :=
  match cs with
  | [] => []
  | c :: r => map (fun ij : nat * nat => (k, fst ij, snd ij)) (agg_check_from 0 init c) ++ agg_mismatches_from (S k) r
  end.
Definition agg_mismatches := agg_mismatches_from 0.
Definition agg_total (cs : list (list (op * list aggobs))) : nat :=
  fold_left (fun n c => fold_left (fun m (x : op * list aggobs) => (m + length (snd x))%nat) c n) cs 0%nat.

(* what the evaluator computes on the model is the aggregate over the last-write-wins rows (descending: over the reversed
   stream), for every allowed history *)
Lemma fc_agg_is_lww : forall h o, ops_allowed h = true ->
  fc_agg o (run false h) =
  agg_of (a_fn o) (field_vals (a_f o) (a_tmin o) (a_tmax o)
                     (if a_desc o then rev (sel (a_s o) (lww_table (writes_of h))) else sel (a_s o) (lww_table (writes_of h)))).
Proof.
  intros h o A. unfold fc_agg, fc_stream. destruct (a_desc o).
  - rewrite fc_stream_desc_is_lww by exact A. reflexivity.
  - rewrite fc_rows_asc_is_lww by exact A. reflexivity.
Qed.
