(* C02 - the FILE-CURSOR read path (engine/agg_tagset_cursor.go fileLoopCursor, engine/file_cursor.go fileCursor.readData):
   aggregates that can be computed file by file do not go through seriesCursor / tsmMergeCursor. Per series:
     M  = memtable over snapshot table over the out-of-order files, newest first       (fileLoopCursor.initMergeIters)
     the ordered files are visited one by one (ascending: oldest first; descending: newest first); when a file holds the
     series, the rows of M up to the chunk's own time range are cut off M and merged into the chunk's rows, M winning on
     equal timestamps (getMemEndIndex + mergeData); the LAST file visited takes everything that is left of M.
   The aggregate operators then see the blocks one after the other.

   fc_walk_asc / fc_walk_desc are the walks as they should be; fc_blocks_desc_current is today's descending walk, which
   marks the FIRST file visited as the last one (finding C02-desc-filecursor-lastfile). Theorem (all layouts satisfying
   the invariant of Refine.v): the ascending walk hands out exactly the rows of read_series, in order. *)
From Coq Require Import ZArith List Bool Lia.
From OG Require Import C02.Model C02.Proofs C02.Refine.
Import ListNotations.
Open Scope Z_scope.

Definition fc_newer (L : layout) (s : Z) : table :=
  over (sel s (sort_dedup (mem L))) (over (sel s (sort_dedup (snap L))) (sel s (ooo_prod (ooo L)))).

Definition le_time (mx : Z) (r : row) : bool := snd (fst r) <=? mx.
Definition ge_time (mn : Z) (r : row) : bool := mn <=? snd (fst r).

Fixpoint fc_walk_asc (s : Z) (M : table) (files : list file) : list table :=
  match files with
  | [] => [M]                                   (* no ordered file at all: ReadAggDataOnlyInMemTable *)
  | f :: r =>
      match r with
      | [] => [over M (sel s (f_tab f))]        (* the last file takes what is left *)
      | _ => match max_time_in s (f_tab f) with
             | None => fc_walk_asc s M r        (* the file does not hold the series *)
             | Some mx => over (filter (le_time mx) M) (sel s (f_tab f))
                          :: fc_walk_asc s (filter (fun x => negb (le_time mx x)) M) r
             end
      end
  end.

(* rfiles: the ordered files newest first *)
Fixpoint fc_walk_desc (s : Z) (M : table) (rfiles : list file) : list table :=
  match rfiles with
  | [] => [M]
  | f :: r =>
      match r with
      | [] => [over M (sel s (f_tab f))]
      | _ => match min_time_in s (f_tab f) with
             | None => fc_walk_desc s M r
             | Some mn => over (filter (ge_time mn) M) (sel s (f_tab f))
                          :: fc_walk_desc s (filter (fun x => negb (ge_time mn x)) M) r
             end
      end
  end.

(* today's descending walk: the first file visited is flagged as the last one and takes ALL of M; the older files are
   handed out as they are *)
Definition fc_blocks_desc_current (s : Z) (M : table) (rfiles : list file) : list table :=
  match rfiles with
  | [] => [M]
  | f :: r => over M (sel s (f_tab f)) :: map (fun g => sel s (f_tab g)) r
  end.

(* the rows the aggregate operators see (as a list; for a descending query every block arrives reversed, which no
   aggregate of count / sum / min / max observes) *)
Definition fc_rows (current desc : bool) (L : layout) (s : Z) : list row :=
  concat (if desc then (if current then fc_blocks_desc_current s (fc_newer L s) (rev (ord L))
                        else fc_walk_desc s (fc_newer L s) (rev (ord L)))
          else fc_walk_asc s (fc_newer L s) (ord L)).

Definition fc_count (current desc : bool) (L : layout) (s tmin tmax f : Z) : Z :=
  Z.of_nat (length (shape tmin tmax [f] true (fc_rows current desc L s))).

(* ------------------------------------------------------------------------------------------------------------ *)
Definition in_series (s : Z) (t : table) : Prop := forall k v, In (k, v) t -> fst k = s.

Lemma in_over_key : forall (a b : table) k v, In (k, v) (over a b) ->
  (exists v', In (k, v') a) \/ (exists v', In (k, v') b).
Proof.
  induction a as [| [ka va] a' IHa]; intros b k v I.
  - rewrite over_nil_l in I. right; eauto.
  - induction b as [| [kb vb] b' IHb].
    + rewrite over_nil_r in I. left; eauto.
    + unfold over in I. pose proof (merge_cons kcmp fover ka va a' kb vb b') as M. unfold row, table, key, fields in *.
      rewrite M in I. clear M. destruct (Model.kcmp ka kb) eqn:E.
      * destruct I as [I | I].
        -- inversion I; subst. left. exists va. left; auto.
        -- destruct (IHa b' k v I) as [[v' H] | [v' H]]; [left | right]; exists v'; right; auto.
      * destruct I as [I | I].
        -- inversion I; subst. left. exists v. left; auto.
        -- destruct (IHa ((kb, vb) :: b') k v I) as [[v' H] | [v' H]]; [left; exists v'; right; auto | right; eauto].
      * destruct I as [I | I].
        -- inversion I; subst. right. exists v. left; auto.
        -- destruct (IHb I) as [[v' H] | [v' H]]; [left; eauto | right; exists v'; right; auto].
Qed.

Lemma in_series_over : forall s a b, in_series s a -> in_series s b -> in_series s (over a b).
Proof.
  intros s a b Ha Hb k v I. destruct (in_over_key a b k v I) as [[v' H] | [v' H]]; eauto.
Qed.
Lemma in_series_sel : forall s t, in_series s (sel s t).
Proof. intros s t k v I. apply in_sel in I. tauto. Qed.
Lemma in_series_filter : forall s p t, in_series s t -> in_series s (filter p t).
Proof. intros s p t H k v I. apply filter_In in I. destruct I; eauto. Qed.

Lemma get_none_not_in : forall (t : table) k, (forall v, ~ In (k, v) t) -> get kcmp t k = None.
Proof.
  intros t k H. destruct (get kcmp t k) as [v |] eqn:G; auto.
  apply (get_in kcmp kc_eq) in G. exfalso. eapply H; eauto.
Qed.

Lemma filter_le_kfilter : forall mx t, filter (le_time mx) t = kfilter (fun k => snd k <=? mx) t.
Proof. reflexivity. Qed.
Lemma filter_gt_kfilter : forall mx t, filter (fun x => negb (le_time mx x)) t = kfilter (fun k => negb (snd k <=? mx)) t.
Proof. reflexivity. Qed.

Lemma max_time_in_bound : forall s tab t fs mx, In ((s, t), fs) tab -> max_time_in s tab = Some mx -> t <= mx.
Proof.
  intros s tab t fs mx I E. destruct (max_time_in_ge s tab t fs I) as (m & Em & L). congruence.
Qed.

Lemma max_fold_none : forall s tab, fold_left (mxstep s) tab None = None -> sel s tab = [].
Proof.
  induction tab as [| x tab IH]; intros H; auto. cbn [fold_left] in H. unfold sel. cbn [filter].
  unfold mxstep at 2 in H. destruct (fst (fst x) =? s) eqn:E.
  - destruct (max_fold_some s tab (snd (fst x))) as (m & Em & _). congruence.
  - apply IH; auto.
Qed.
Lemma max_time_in_none : forall s tab, max_time_in s tab = None -> sel s tab = [].
Proof. intros. apply max_fold_none. rewrite <- max_time_in_fold. auto. Qed.

Lemma max_time_in_some_series : forall s tab mx, max_time_in s tab = Some mx -> In s (series_of tab).
Proof.
  intros s tab mx E. destruct (sel s tab) as [| [[s' t] fs] r] eqn:S.
  - assert (X : forall x, In x tab -> (fst (fst x) =? s) = false).
    { intros x I. destruct (fst (fst x) =? s) eqn:Q; auto.
      assert (I2 : In x (sel s tab)) by (unfold sel; apply filter_In; auto). rewrite S in I2. destruct I2. }
    exfalso. rewrite max_time_in_fold in E. clear S.
    assert (G : forall acc, (forall x, In x tab -> (fst (fst x) =? s) = false) -> fold_left (mxstep s) tab acc = acc).
    { clear. induction tab as [| x tab IH]; intros acc H; auto. cbn [fold_left]. unfold mxstep at 2.
      rewrite (H x (or_introl eq_refl)). apply IH. intros y I. apply H. right; auto. }
    rewrite (G None X) in E. discriminate.
  - assert (I : In ((s', t), fs) (sel s tab)) by (rewrite S; left; auto).
    apply in_sel in I. destruct I as [I Es]. cbn [fst] in Es. subst s'.
    unfold series_of. apply in_map_iff. exists ((s, t), fs). auto.
Qed.

(* splitting a read at a pivot time: M over (C ++ R) = (M up to the pivot over C) ++ (the rest of M over R) *)
Lemma over_pivot : forall s mx (M C R : table),
  wf_table M -> wf_table C -> wf_table R -> in_series s M -> in_series s C -> in_series s R ->
  (forall k v, In (k, v) C -> snd k <= mx) -> (forall k v, In (k, v) R -> mx < snd k) ->
  over M (C ++ R) = over (filter (le_time mx) M) C ++ over (filter (fun x => negb (le_time mx x)) M) R.
Proof.
  intros s mx M C R WM WC WR SM SC SR HC HR.
  rewrite filter_le_kfilter, filter_gt_kfilter.
  set (Mle := kfilter (fun k => snd k <=? mx) M). set (Mgt := kfilter (fun k => negb (snd k <=? mx)) M).
  assert (WMle : wf_table Mle) by (apply wf_kfilter; auto).
  assert (WMgt : wf_table Mgt) by (apply wf_kfilter; auto).
  assert (CR : C ++ R = over R C).
  { symmetry. apply over_app_lt. intros ka va kb vb Ia Ib.
    pose proof (SC _ _ Ia) as E1. pose proof (SR _ _ Ib) as E2. pose proof (HC _ _ Ia) as L1. pose proof (HR _ _ Ib) as L2.
    destruct ka as [a1 a2], kb as [b1 b2]. cbn [fst snd] in *. subst. unfold kcmp. cbn [fst snd].
    rewrite Z.compare_refl. apply Z.compare_lt_iff. lia. }
  assert (SMle : in_series s Mle) by (unfold Mle, kfilter; apply in_series_filter; auto).
  assert (SMgt : in_series s Mgt) by (unfold Mgt, kfilter; apply in_series_filter; auto).
  assert (RHS : over Mle C ++ over Mgt R = over (over Mgt R) (over Mle C)).
  { symmetry. apply over_app_lt. intros ka va kb vb Ia Ib.
    assert (La : snd ka <= mx).
    { destruct (in_over_key _ _ _ _ Ia) as [[v' H] | [v' H]].
      - unfold Mle, kfilter in H. apply filter_In in H. destruct H as [_ H]. cbn [fst] in H. lia.
      - eapply HC; eauto. }
    assert (Lb : mx < snd kb).
    { destruct (in_over_key _ _ _ _ Ib) as [[v' H] | [v' H]].
      - unfold Mgt, kfilter in H. apply filter_In in H. destruct H as [_ H]. cbn [fst] in H. lia.
      - eapply HR; eauto. }
    pose proof (in_series_over s _ _ SMle SC _ _ Ia) as E1. pose proof (in_series_over s _ _ SMgt SR _ _ Ib) as E2.
    destruct ka as [a1 a2], kb as [b1 b2]. cbn [fst snd] in *. subst. unfold kcmp. cbn [fst snd].
    rewrite Z.compare_refl. apply Z.compare_lt_iff. lia. }
  rewrite CR, RHS. apply table_ext; auto 6 using wf_over.
  intros k f. rewrite !get2_over; auto 6 using wf_over. unfold Mle, Mgt. rewrite !get2_kfilter by auto.
  destruct (snd k <=? mx) eqn:Q; cbn [negb].
  - assert (X : get2 R k f = None).
    { apply get2_none. apply get_none_not_in. intros v I. specialize (HR _ _ I). lia. }
    rewrite X. cbn [orelse]. reflexivity.
  - assert (X : get2 C k f = None).
    { apply get2_none. apply get_none_not_in. intros v I. specialize (HC _ _ I). lia. }
    rewrite X. cbn [orelse]. rewrite !orelse_none_r. reflexivity.
Qed.

Lemma ord_cat_wf : forall l s, wf_files l -> ord_ok_from l = true -> wf_table (ord_cat s l) /\ in_series s (ord_cat s l).
Proof.
  intros l s W H. rewrite <- (ord_cat_sel l s W H). split.
  - rewrite sel_kfilter. apply wf_kfilter. apply wf_prod; auto.
  - apply in_series_sel.
Qed.

Lemma walk_asc_is_over : forall s files M, wf_table M -> in_series s M -> wf_files files -> ord_ok_from files = true ->
  concat (fc_walk_asc s M files) = over M (ord_cat s files).
Proof.
  induction files as [| f r IH]; intros M WM SM W H.
  - cbn. rewrite app_nil_r, over_nil_r. reflexivity.
  - destruct r as [| g r'].
    + cbn. rewrite !app_nil_r. reflexivity.
    + inversion W as [| ? ? Wf Wr]; subst.
      pose proof H as H0. cbn [ord_ok_from] in H. apply andb_true_iff in H. destruct H as [H1 H2].
      change (fc_walk_asc s M (f :: g :: r')) with
        (match max_time_in s (f_tab f) with
         | None => fc_walk_asc s M (g :: r')
         | Some mx => over (filter (le_time mx) M) (sel s (f_tab f))
                      :: fc_walk_asc s (filter (fun x => negb (le_time mx x)) M) (g :: r')
         end).
      change (ord_cat s (f :: g :: r')) with (sel s (f_tab f) ++ ord_cat s (g :: r')).
      destruct (max_time_in s (f_tab f)) as [mx |] eqn:E.
      * cbn [concat]. rewrite IH; auto.
        -- destruct (ord_cat_wf (g :: r') s Wr H2) as [WR SR].
           symmetry. apply (over_pivot s mx); auto.
           ++ rewrite sel_kfilter. apply wf_kfilter; auto.
           ++ apply in_series_sel.
           ++ intros k v I. apply in_sel in I. destruct I as [I Es]. destruct k as [a b]. cbn [fst snd] in *. subst a.
              eapply max_time_in_bound; eauto.
           ++ intros k v I. unfold ord_cat in I. apply in_concat in I. destruct I as (t & It & I).
              apply in_map_iff in It. destruct It as (y & <- & Iy).
              apply in_sel in I. destruct I as [I Es]. destruct k as [a b]. cbn [fst snd] in *. subst a.
              destruct (min_time_in_le s (f_tab y) b v I) as (mn & Emn & Lmn).
              rewrite forallb_forall in H1. specialize (H1 y Iy). rewrite forallb_forall in H1.
              specialize (H1 s (max_time_in_some_series s _ mx E)). rewrite E, Emn in H1. lia.
        -- rewrite filter_gt_kfilter. apply wf_kfilter; auto.
        -- apply in_series_filter; auto.
      * rewrite (max_time_in_none s _ E). cbn [app]. apply IH; auto.
Qed.

(* the ascending file-cursor walk hands out exactly the rows of the read model, in time order *)
Lemma fc_rows_asc_is_read : forall L raw s current, Core L raw -> ord_ok_from (ord L) = true ->
  fc_rows current false L s = read_series L s.
Proof.
  intros L raw s current C H. destruct C as [Wm Ws Wu Wo Wr A]. unfold fc_rows, fc_newer, read_series.
  rewrite !sort_dedup_lww. change (ooo_prod (ooo L)) with (prod (ooo L)).
  assert (W1 : wf_table (sel s (lww_table (mem L)))) by (rewrite sel_kfilter; apply wf_kfilter; apply wf_lww; auto).
  assert (W2 : wf_table (sel s (lww_table (snap L)))) by (rewrite sel_kfilter; apply wf_kfilter; apply wf_lww; auto).
  assert (W3 : wf_table (sel s (prod (ooo L)))) by (rewrite sel_kfilter; apply wf_kfilter; apply wf_prod; auto).
  destruct (ord_cat_wf (ord L) s Wo H) as [W4 _].
  rewrite walk_asc_is_over; auto 6 using wf_over.
  - rewrite !over_assoc; auto using wf_over.
  - repeat apply in_series_over; apply in_series_sel.
Qed.

Lemma fc_rows_asc_is_lww : forall h s current, ops_allowed h = true ->
  fc_rows current false (run false h) s = sel s (lww_table (writes_of h)).
Proof.
  intros h s current A. destruct (run_inv h init [] inv_init eq_refl A) as [[C _] LO].
  assert (O : ord_ok_from (ord (run false h)) = true).
  { unfold layout_ok in LO. apply andb_true_iff in LO. tauto. }
  unfold run in *. rewrite (fc_rows_asc_is_read _ _ s current C O). apply (read_series_core _ _ s C O).
Qed.

(* ------------------------------------------------------------------------------------------------------------ *)
(* the repaired DESCENDING walk: the blocks, each delivered newest row first, are the read in descending order *)
Definition fc_stream_desc (L : layout) (s : Z) : list row :=
  concat (map (@rev row) (fc_walk_desc s (fc_newer L s) (rev (ord L)))).

Lemma min_fold_none : forall s tab, fold_left (mnstep s) tab None = None -> sel s tab = [].
Proof.
  induction tab as [| x tab IH]; intros H; auto. cbn [fold_left] in H. unfold sel. cbn [filter].
  unfold mnstep at 2 in H. destruct (fst (fst x) =? s) eqn:E.
  - destruct (min_fold_some s tab (snd (fst x))) as (m & Em & _). congruence.
  - apply IH; auto.
Qed.
Lemma min_time_in_none : forall s tab, min_time_in s tab = None -> sel s tab = [].
Proof. intros. apply min_fold_none. rewrite <- min_time_in_fold. auto. Qed.
Lemma min_time_in_bound : forall s tab t fs mn, In ((s, t), fs) tab -> min_time_in s tab = Some mn -> mn <= t.
Proof.
  intros s tab t fs mn I E. destruct (min_time_in_le s tab t fs I) as (m & Em & L). congruence.
Qed.

Definition before_ok (x f : file) : bool :=
  forallb (fun s => match max_time_in s (f_tab x), min_time_in s (f_tab f) with
                    | Some a, Some b => a <? b | _, _ => true end) (series_of (f_tab x)).
Lemma ord_ok_snoc : forall l f, ord_ok_from (l ++ [f]) = true ->
  ord_ok_from l = true /\ forall x, In x l -> before_ok x f = true.
Proof.
  induction l as [| x l IH]; intros f H.
  - split; [reflexivity | intros x []].
  - cbn [app ord_ok_from] in H. apply andb_true_iff in H. destruct H as [H1 H2].
    rewrite forallb_app in H1. apply andb_true_iff in H1. destruct H1 as [H1 H3].
    destruct (IH f H2) as [A B]. split.
    + cbn [ord_ok_from]. rewrite H1, A. reflexivity.
    + intros y [<- | I]; auto. cbn [forallb] in H3. apply andb_true_iff in H3. destruct H3 as [H3 _]. exact H3.
Qed.

Lemma ord_cat_app : forall s a b, ord_cat s (a ++ b) = ord_cat s a ++ ord_cat s b.
Proof. intros. unfold ord_cat. rewrite map_app, concat_app. reflexivity. Qed.

Lemma filter_lt_ge : forall mn (M : table),
  filter (le_time (mn - 1)) M = filter (fun x => negb (ge_time mn x)) M /\
  filter (fun x => negb (le_time (mn - 1) x)) M = filter (ge_time mn) M.
Proof.
  intros mn M. split; apply filter_ext; intro x; unfold le_time, ge_time; lia.
Qed.

Lemma walk_desc_is_over : forall s rfiles M, wf_table M -> in_series s M -> wf_files rfiles ->
  ord_ok_from (rev rfiles) = true ->
  concat (map (@rev row) (fc_walk_desc s M rfiles)) = rev (over M (ord_cat s (rev rfiles))).
Proof.
  induction rfiles as [| f r IH]; intros M WM SM W H.
  - cbn. rewrite app_nil_r, over_nil_r. reflexivity.
  - destruct r as [| g r'].
    + cbn. rewrite !app_nil_r. reflexivity.
    + inversion W as [| ? ? Wf Wr]; subst.
      change (rev (f :: g :: r')) with (rev (g :: r') ++ [f]) in *.
      destruct (ord_ok_snoc _ _ H) as [H2 HB].
      assert (Wold : wf_files (rev (g :: r'))).
      { unfold wf_files. apply Forall_rev. exact Wr. }
      change (fc_walk_desc s M (f :: g :: r')) with
        (match min_time_in s (f_tab f) with
         | None => fc_walk_desc s M (g :: r')
         | Some mn => over (filter (ge_time mn) M) (sel s (f_tab f))
                      :: fc_walk_desc s (filter (fun x => negb (ge_time mn x)) M) (g :: r')
         end).
      rewrite ord_cat_app. change (ord_cat s [f]) with (sel s (f_tab f) ++ []). rewrite app_nil_r.
      destruct (min_time_in s (f_tab f)) as [mn |] eqn:E.
      * cbn [map concat]. rewrite IH; auto.
        -- destruct (ord_cat_wf (rev (g :: r')) s Wold H2) as [WR SR].
           destruct (filter_lt_ge mn M) as [F1 F2].
           rewrite (over_pivot s (mn - 1) M (ord_cat s (rev (g :: r'))) (sel s (f_tab f))); auto.
           ++ rewrite rev_app_distr. rewrite F1, F2. reflexivity.
           ++ rewrite sel_kfilter. apply wf_kfilter; auto.
           ++ apply in_series_sel.
           ++ intros k v I. unfold ord_cat in I. apply in_concat in I. destruct I as (t & It & I).
              apply in_map_iff in It. destruct It as (y & <- & Iy).
              apply in_sel in I. destruct I as [I Es]. destruct k as [a b]. cbn [fst snd] in *. subst a.
              destruct (max_time_in_ge s (f_tab y) b v I) as (mx & Emx & Lmx).
              specialize (HB y Iy). unfold before_ok in HB. rewrite forallb_forall in HB.
              specialize (HB s (max_time_in_some_series s _ mx Emx)). rewrite Emx, E in HB. lia.
           ++ intros k v I. apply in_sel in I. destruct I as [I Es]. destruct k as [a b]. cbn [fst snd] in *. subst a.
              pose proof (min_time_in_bound s _ b v mn I E). lia.
        -- apply (wf_kfilter (fun k => negb (mn <=? snd k))); auto.
        -- apply in_series_filter; auto.
      * rewrite (min_time_in_none s _ E). rewrite app_nil_r. apply IH; auto.
Qed.

Lemma fc_stream_desc_is_read : forall L raw s, Core L raw -> ord_ok_from (ord L) = true ->
  fc_stream_desc L s = rev (read_series L s).
Proof.
  intros L raw s C H. destruct C as [Wm Ws Wu Wo Wr A]. unfold fc_stream_desc, fc_newer, read_series.
  rewrite !sort_dedup_lww. change (ooo_prod (ooo L)) with (prod (ooo L)).
  assert (W1 : wf_table (sel s (lww_table (mem L)))) by (rewrite sel_kfilter; apply wf_kfilter; apply wf_lww; auto).
  assert (W2 : wf_table (sel s (lww_table (snap L)))) by (rewrite sel_kfilter; apply wf_kfilter; apply wf_lww; auto).
  assert (W3 : wf_table (sel s (prod (ooo L)))) by (rewrite sel_kfilter; apply wf_kfilter; apply wf_prod; auto).
  destruct (ord_cat_wf (ord L) s Wo H) as [W4 _].
  rewrite walk_desc_is_over; auto 6 using wf_over.
  - rewrite rev_involutive. rewrite !over_assoc; auto using wf_over.
  - repeat apply in_series_over; apply in_series_sel.
  - unfold wf_files. apply Forall_rev. exact Wo.
  - rewrite rev_involutive. exact H.
Qed.

Lemma fc_stream_desc_is_lww : forall h s, ops_allowed h = true ->
  fc_stream_desc (run false h) s = rev (sel s (lww_table (writes_of h))).
Proof.
  intros h s A. destruct (run_inv h init [] inv_init eq_refl A) as [[C _] LO].
  assert (O : ord_ok_from (ord (run false h)) = true).
  { unfold layout_ok in LO. apply andb_true_iff in LO. tauto. }
  unfold run in *. rewrite (fc_stream_desc_is_read _ _ s C O). f_equal. apply (read_series_core _ _ s C O).
Qed.
