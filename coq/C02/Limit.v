(* C02 - reads with LIMIT / OFFSET pushed down to the store (lazily initialised series cursors, groupCursor.limitBound,
   itrsInitWithLimit). The store may hand out more rows than limit+offset (the executor cuts), so the model states a
   predicate, not a function: every series contributes a PREFIX of its read, and in total at least min(limit+offset,
   everything) rows arrive. Theorem: an accepted observation consists of prefixes of the shaped last-write-wins rows. *)
From Coq Require Import ZArith List Bool Lia.
From OG Require Import C02.Model C02.Proofs C02.Corr C02.Refine.
Import ListNotations.
Open Scope Z_scope.

Fixpoint rows_prefix (p full : list row) : bool :=
  match p, full with
  | [], _ => true
  | x :: p', y :: f' => row_eqb x y && rows_prefix p' f'
  | _ :: _, [] => false
  end.
Definition total (l : list (list row)) : Z := Z.of_nat (length (concat l)).
(* tmin, tmax, fields, ascending, limit+offset, the rows delivered per series (series ascending) *)
Definition lobs := (Z * Z * list Z * bool * Z * list (list row))%type.
Definition limit_ok (nser : nat) (L : layout) (o : lobs) : bool :=
  match o with
  | (tmin, tmax, fs, asc, need, per) =>
      let full := map (fun s => read_layout L s tmin tmax fs asc) (zrange nser) in
      (length per =? length full)%nat
      && forallb (fun pf : list row * list row => rows_prefix (fst pf) (snd pf)) (combine per full)
      && ((need <=? total per) || (total per =? total full))
  end.

Lemma pair_eqb_eq : forall a b, pair_eqb a b = true -> a = b.
Proof. intros [a1 a2] [b1 b2] H. unfold pair_eqb in H. cbn in H. apply andb_true_iff in H. destruct H. f_equal; lia. Qed.
Lemma list_eqb_eq : forall (a b : list (Z * Z)), list_eqb pair_eqb a b = true -> a = b.
Proof.
  induction a as [| x a IH]; destruct b as [| y b]; cbn; intro H; try discriminate; auto.
  apply andb_true_iff in H. destruct H as [H1 H2]. f_equal; [apply pair_eqb_eq | apply IH]; auto.
Qed.
Lemma row_eqb_eq : forall a b, row_eqb a b = true -> a = b.
Proof.
  intros [ka fa] [kb fb] H. unfold row_eqb in H. cbn [fst snd] in H. apply andb_true_iff in H. destruct H as [H1 H2].
  f_equal; [apply pair_eqb_eq | apply list_eqb_eq]; auto.
Qed.
Lemma rows_prefix_spec : forall p full, rows_prefix p full = true -> exists rest, full = p ++ rest.
Proof.
  induction p as [| x p IH]; intros full H.
  - exists full. reflexivity.
  - destruct full as [| y f]; [discriminate |]. cbn [rows_prefix] in H. apply andb_true_iff in H. destruct H as [H1 H2].
    apply row_eqb_eq in H1. subst y. destruct (IH f H2) as [rest E]. exists rest. cbn. f_equal. exact E.
Qed.

(* an accepted LIMIT observation: every series' rows are a prefix of its shaped last-write-wins rows *)
Lemma limit_ok_sound : forall h, ops_allowed h = true -> forall nser tmin tmax fs asc need per,
  limit_ok nser (run false h) (tmin, tmax, fs, asc, need, per) = true ->
  forall p s, In (p, s) (combine per (zrange nser)) ->
  exists rest, shape tmin tmax fs asc (sel s (lww_table (writes_of h))) = p ++ rest.
Proof.
  intros h A nser tmin tmax fs asc need per H p s I. unfold limit_ok in H.
  apply andb_true_iff in H. destruct H as [H _]. apply andb_true_iff in H. destruct H as [_ H].
  rewrite forallb_forall in H.
  assert (J : In (p, read_layout (run false h) s tmin tmax fs asc)
                 (combine per (map (fun s => read_layout (run false h) s tmin tmax fs asc) (zrange nser)))).
  { clear H. revert I. generalize (zrange nser). induction per as [| q per IH]; intros l I; [destruct I |].
    destruct l as [| z l]; [destruct I |]. cbn [combine map] in *. destruct I as [E | I].
    - inversion E; subst. left; reflexivity.
    - right. apply IH; auto. }
  specialize (H _ J). cbn [fst snd] in H. rewrite (read_layout_is_lww h A) in H. apply rows_prefix_spec; auto.
Qed.

(* ---- evaluator ---- *)
Fixpoint bad_lim (j : nat) (nser : nat) (L : layout) (os : list lobs) : list nat :=
  match os with
  | [] => []
  | o :: r => if limit_ok nser L o then bad_lim (S j) nser L r else j :: bad_lim (S j) nser L r
  end.
Fixpoint lim_check_from (i : nat) (nser : nat) (L : layout) (h : list (op * list lobs)) : list (nat * nat) :=
  match h with
  | [] => []
  | (o, os) :: r => let L' := step false L o in
                    map (fun j => (i, j)) (bad_lim 0 nser L' os) ++ lim_check_from (S i) nser L' r
  end.
Fixpoint lim_mismatches_from (k : nat) (cs : list (nat * list (op * list lobs))) : list (nat * nat * nat) :=
  match cs with
  | [] => []
  | c :: r => map (fun ij : nat * nat => (k, fst ij, snd ij)) (lim_check_from 0 (fst c) init (snd c)) ++ lim_mismatches_from (S k) r
  end.
Definition lim_mismatches := lim_mismatches_from 0.
Definition lim_total (cs : list (nat * list (op * list lobs))) : nat :=
  fold_left (fun n c => fold_left (fun m (x : op * list lobs) => (m + length (snd x))%nat) (snd c) n) cs 0%nat.
