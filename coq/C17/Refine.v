(* C17: refinement lemmas between the on-disk model (repaired zero-fill) and the specification. *)
From Coq Require Import NArith List Bool Lia ZifyBool ZifyN ZifyNat.
From OG Require Import C17.Model C17.Proofs.
Import ListNotations.
Open Scope N_scope.

Definition live_row (r : row) : bool := negb (s_index (r_slot r) =? 0).
Definition all_live (f : file) : Prop := forallb live_row (f_rows f) = true.
Definition rows_ok (f : file) : Prop := f_n f = N.of_nat (length (f_rows f)).
Definition log_of (d : disk) : list entry := concat (map file_entries (d_files d ++ [d_cur d])).

Lemma asc_rows_rev : forall f, asc_rows f = rev (f_rows f).
Proof. intro f. unfold asc_rows. rewrite rev_append_rev. apply app_nil_r. Qed.

Lemma live_rows_all : forall l, forallb live_row l = true -> live_rows l = l.
Proof.
  induction l as [|r t IH]; intro H; [reflexivity|]. cbn [forallb] in H. apply andb_true_iff in H as [Hr Ht].
  cbn [live_rows]. unfold live_row in Hr. destruct (s_index (r_slot r) =? 0); [discriminate|]. now rewrite IH.
Qed.

Lemma forallb_rev : forall (l : list row) p, forallb p (rev l) = forallb p l.
Proof.
  induction l as [|x t IH]; intro p; [reflexivity|]. cbn [rev forallb]. rewrite forallb_app, IH. cbn [forallb].
  rewrite andb_true_r. apply andb_comm.
Qed.

Lemma file_entries_live : forall f, all_live f -> file_entries f = map row_entry (rev (f_rows f)).
Proof.
  intros f H. unfold file_entries. rewrite asc_rows_rev. rewrite live_rows_all; [reflexivity|].
  now rewrite forallb_rev.
Qed.

Lemma read_cell_intact : forall p, read_cell (p_len p) (mkcell (p_len p) p) = p.
Proof. intro p. unfold read_cell. cbn [c_pay]. now rewrite N.eqb_refl. Qed.

(* ---- writing one entry at the first free slot ---- *)

Lemma write_row_next : forall f off e,
  rows_ok f -> all_live f -> e_index e <> 0 ->
  let f' := write_row (f_n f) off e f in
  rows_ok f' /\ all_live f' /\ f_n f' = f_n f + 1 /\ file_entries f' = file_entries f ++ [e].
Proof.
  intros f off e Hn Hl He f'. unfold f', write_row, nrows.
  rewrite N.ltb_irrefl. rewrite N.sub_diag. cbn [N.to_nat repeat app].
  unfold rows_ok, all_live. cbn [f_n f_rows length forallb].
  repeat split.
  - rewrite Hn. lia.
  - rewrite Hl. unfold live_row. cbn [r_slot s_index]. destruct (e_index e =? 0) eqn:E; [lia|reflexivity].
  - rewrite !file_entries_live.
    + cbn [f_rows rev]. rewrite map_app. cbn [map]. f_equal. f_equal.
      unfold row_entry. cbn [r_slot r_cell s_index s_term_ s_type c_lenw]. rewrite read_cell_intact. now destruct e.
    + exact Hl.
    + unfold all_live. cbn [f_rows forallb]. rewrite Hl. unfold live_row. cbn [r_slot s_index].
      destruct (e_index e =? 0) eqn:E; [lia|reflexivity].
Qed.

(* ---- the append loop, rotation included: the log grows by exactly the batch ---- *)

Lemma log_of_snoc : forall fs c, concat (map file_entries (fs ++ [c])) = concat (map file_entries fs) ++ file_entries c.
Proof. intros. rewrite map_app, concat_app. cbn [map concat]. now rewrite app_nil_r. Qed.

Lemma append_loop_refines : forall P es off d,
  rows_ok (d_cur d) -> all_live (d_cur d) -> d_next d = f_n (d_cur d) ->
  Forall (fun e => e_index e <> 0) es ->
  let d' := append_loop P es off d in
  log_of d' = log_of d ++ es /\ d_meta d' = d_meta d
  /\ rows_ok (d_cur d') /\ all_live (d_cur d') /\ d_next d' = f_n (d_cur d').
Proof.
  intros P es. induction es as [|e r IH]; intros off d Hn Hl Hx Hes; cbn [append_loop].
  - rewrite app_nil_r. auto.
  - inversion Hes as [|? ? He Hr]; subst.
    destruct ((max_entries P <=? d_next d) || (max_size P <? off + 4 + p_len (e_data e))) eqn:Erot.
    + (* rotate first *)
      cbn [rotate d_files d_cur d_next d_meta].
      set (c' := mkfile (f_id (d_cur d)) (f_n (d_cur d)) (f_rows (d_cur d)) off (f_c0 (d_cur d)) (f_fresh (d_cur d))).
      set (nf := new_file P (max_fid d + 1) true).
      assert (Hnf : rows_ok nf /\ all_live nf /\ f_n nf = 0) by (unfold nf, new_file, rows_ok, all_live; cbn; auto).
      destruct Hnf as (Hnf1 & Hnf2 & Hnf3).
      pose proof (write_row_next nf (data_off P) e Hnf1 Hnf2 He) as (W1 & W2 & W3 & W4). rewrite Hnf3 in *.
      specialize (IH (data_off P + 4 + p_len (e_data e))
                     (mkdisk (d_files d ++ [c']) (write_row 0 (data_off P) e nf) (0 + 1) (d_meta d))).
      cbn [d_cur d_next d_files d_meta] in IH. specialize (IH W1 W2 (eq_sym W3) Hr).
      destruct IH as (I1 & I2 & I3 & I4 & I5). repeat split; auto.
      rewrite I1. unfold log_of. cbn [d_files d_cur]. rewrite !log_of_snoc. rewrite W4.
      assert (Hfe : file_entries c' = file_entries (d_cur d)) by reflexivity. rewrite Hfe.
      assert (Hnil : file_entries nf = []) by reflexivity. rewrite Hnil. cbn [app].
      rewrite <- !app_assoc. reflexivity.
    + rewrite Hx.
      pose proof (write_row_next (d_cur d) off e Hn Hl He) as (W1 & W2 & W3 & W4).
      specialize (IH (off + 4 + p_len (e_data e))
                     (mkdisk (d_files d) (write_row (f_n (d_cur d)) off e (d_cur d)) (f_n (d_cur d) + 1) (d_meta d))).
      cbn [d_cur d_next d_files d_meta] in IH. specialize (IH W1 W2 (eq_sym W3) Hr).
      destruct IH as (I1 & I2 & I3 & I4 & I5). repeat split; auto.
      rewrite I1. unfold log_of. cbn [d_files d_cur]. rewrite !log_of_snoc. rewrite W4.
      rewrite <- !app_assoc. reflexivity.
Qed.

(* ---- the zero-fill ---- *)

Fixpoint map_with_pos (g : N -> row -> row) (rows : list row) : list row :=
  match rows with [] => [] | r :: t => g (N.of_nat (length t)) r :: map_with_pos g t end.

Lemma map_pos_spec : forall g f, map_pos g f = map_with_pos g (f_rows f).
Proof.
  intros g f. unfold map_pos.
  set (F := fun (r : row) (acc : N * list row) => let p := fst acc in (p + 1, g p r :: snd acc)).
  assert (H : forall rows, fold_right F (0, []) rows = (N.of_nat (length rows), map_with_pos g rows)).
  { induction rows as [|r t IH]; [reflexivity|].
    change (fold_right F (0, []) (r :: t)) with (F r (fold_right F (0, []) t)). rewrite IH. unfold F.
    cbn [fst snd length map_with_pos]. f_equal. lia. }
  now rewrite H.
Qed.

Lemma map_with_pos_id : forall g rows, (forall p r, p < N.of_nat (length rows) -> g p r = r) -> map_with_pos g rows = rows.
Proof.
  induction rows as [|r t IH]; intro H; [reflexivity|]. cbn [map_with_pos]. rewrite H by (cbn [length]; lia).
  f_equal. apply IH. intros p x Hp. apply H. cbn [length]. lia.
Qed.

Lemma map_with_pos_top : forall g z top rest,
  (forall p r, N.of_nat (length rest) <= p < N.of_nat (length (top ++ rest)) -> g p r = z) ->
  map_with_pos g (top ++ rest) = repeat z (length top) ++ map_with_pos g rest.
Proof.
  induction top as [|x t IH]; intros rest H; [reflexivity|]. cbn [app map_with_pos length repeat].
  rewrite H by (cbn [app length]; rewrite app_length; lia). f_equal. apply IH.
  intros p r Hp. apply H. cbn [app length]. lia.
Qed.

Lemma trim_zero_repeat : forall k g rest, is_zero_slot (r_slot g) = false ->
  trim_zero (repeat zero_row k ++ g :: rest) = g :: rest.
Proof.
  induction k as [|k IH]; intros g rest Hg; cbn [repeat app trim_zero].
  - now rewrite Hg.
  - cbn. now apply IH.
Qed.

Definition garbage_row (L : N) : row := mkrow (mkslot (L * 4294967296) 0 0 0) (mkcell 0 empty_pay).

(* The repaired zero-fill clears exactly the slots [lo, n): the rows below lo - slot records AND payload cells - are
   untouched, slot lo holds only the length prefix (index 0, i.e. an empty slot), nothing above survives. *)
Lemma zero_fill_repaired_rows : forall P endb lo f top r bottom,
  f_rows f = top ++ r :: bottom -> N.of_nat (length bottom) = lo -> rows_ok f ->
  entry_sz * f_n f <= endb -> endb <= data_off P ->
  f_rows (zero_fill VRepaired P endb lo f) = garbage_row (endb - entry_sz * lo - 4) :: bottom
  /\ rows_ok (zero_fill VRepaired P endb lo f).
Proof.
  intros P endb lo f top r bottom Hrows Hlo Hn Hend Hoff.
  assert (Hlen : f_n f = N.of_nat (length top) + 1 + lo).
  { rewrite Hn, Hrows, app_length. cbn [length]. lia. }
  unfold entry_sz in *.
  set (L := endb - 32 * lo - 4).
  assert (HL : 28 <= L) by (unfold L; lia).
  assert (He : 32 * lo + 4 + L = endb) by (unfold L; lia).
  assert (Hf : fill_len VRepaired (endb - 32 * lo) = L) by (unfold fill_len, L; lia).
  unfold zero_fill, entry_sz, rows_ok. cbn [f_rows f_n].
  rewrite Hf, He.
  destruct (data_off P + 4 <=? endb) eqn:E1; [lia|].
  unfold nrows. destruct (f_n f <=? lo) eqn:E2; [lia|].
  rewrite map_pos_spec, Hrows.
  rewrite (map_with_pos_top _ zero_row).
  - cbn [map_with_pos]. rewrite Hlo, N.ltb_irrefl, N.eqb_refl.
    rewrite map_with_pos_id.
    + fold (garbage_row L). rewrite trim_zero_repeat; [split; reflexivity|].
      unfold garbage_row, is_zero_slot. cbn [r_slot s_term_].
      destruct (L * 4294967296 =? 0) eqn:E3; [lia|reflexivity].
    + intros p x Hp. destruct (p <? lo) eqn:E3; [reflexivity|lia].
  - intros p x Hp. rewrite app_length in Hp. cbn [length] in Hp.
    destruct (p <? lo) eqn:E3; [lia|]. destruct (p =? lo) eqn:E4; [lia|].
    destruct (32 * p + 32 <=? endb) eqn:E5; [reflexivity|lia].
Qed.

(* ---- a Save as a whole: zero-fill, then the append loop ---- *)

Lemma live_rows_stop : forall a g x, forallb live_row a = true -> s_index (r_slot g) = 0 -> live_rows (a ++ g :: x) = a.
Proof.
  induction a as [|r t IH]; intros g x Ha Hg; cbn [app live_rows].
  - now rewrite Hg.
  - cbn [forallb] in Ha. apply andb_true_iff in Ha as [Hr Ht]. unfold live_row in Hr.
    destruct (s_index (r_slot r) =? 0); [discriminate|]. now rewrite IH.
Qed.

Lemma file_entries_garbage_top : forall f g bottom,
  f_rows f = g :: bottom -> s_index (r_slot g) = 0 -> forallb live_row bottom = true ->
  file_entries f = map row_entry (rev bottom).
Proof.
  intros f g bottom Hr Hg Hb. unfold file_entries. rewrite asc_rows_rev, Hr. cbn [rev].
  rewrite live_rows_stop; auto. now rewrite forallb_rev.
Qed.

Lemma write_row_over_garbage : forall f g bottom off e,
  f_rows f = g :: bottom -> f_n f = N.of_nat (length bottom) + 1 -> forallb live_row bottom = true -> e_index e <> 0 ->
  let f' := write_row (N.of_nat (length bottom)) off e f in
  rows_ok f' /\ all_live f' /\ f_n f' = N.of_nat (length bottom) + 1
  /\ file_entries f' = map row_entry (rev bottom) ++ [e].
Proof.
  intros f g bottom off e Hr Hn Hb He f'. unfold f', write_row, nrows. rewrite Hn, Hr.
  destruct (N.of_nat (length bottom) <? N.of_nat (length bottom) + 1) eqn:E; [|lia].
  replace (N.to_nat (N.of_nat (length bottom) + 1 - 1 - N.of_nat (length bottom))) with 0%nat by lia.
  replace (N.to_nat (N.of_nat (length bottom) + 1 - N.of_nat (length bottom))) with 1%nat by lia.
  cbn [firstn skipn app]. unfold rows_ok, all_live. cbn [f_n f_rows length forallb].
  assert (Hlive : live_row (mkrow (mkslot (e_term e) (e_index e) (e_type e) off) (mkcell (p_len (e_data e)) (e_data e))) = true).
  { unfold live_row. cbn [r_slot s_index]. destruct (e_index e =? 0) eqn:E2; [lia|reflexivity]. }
  repeat split.
  - lia.
  - now rewrite Hlive, Hb.
  - rewrite file_entries_live.
    + cbn [f_rows rev]. rewrite map_app. cbn [map]. f_equal. f_equal.
      unfold row_entry. cbn [r_slot r_cell s_index s_term_ s_type c_lenw]. rewrite read_cell_intact. now destruct e.
    + unfold all_live. cbn [f_rows forallb]. now rewrite Hlive, Hb.
Qed.

Lemma append_after_fill : forall P e r off d g bottom,
  f_rows (d_cur d) = g :: bottom -> s_index (r_slot g) = 0 -> forallb live_row bottom = true ->
  f_n (d_cur d) = N.of_nat (length bottom) + 1 -> d_next d = N.of_nat (length bottom) ->
  Forall (fun e => e_index e <> 0) (e :: r) ->
  log_of (append_loop P (e :: r) off d) = concat (map file_entries (d_files d)) ++ map row_entry (rev bottom) ++ e :: r.
Proof.
  intros P e r off d g bottom Hr Hg Hb Hn Hx Hes. inversion Hes as [|? ? He Hrr]; subst. cbn [append_loop].
  destruct ((max_entries P <=? d_next d) || (max_size P <? off + 4 + p_len (e_data e))) eqn:Erot.
  - cbn [rotate d_files d_cur d_next d_meta].
    set (c' := mkfile (f_id (d_cur d)) (f_n (d_cur d)) (f_rows (d_cur d)) off (f_c0 (d_cur d)) (f_fresh (d_cur d))).
    set (nf := new_file P (max_fid d + 1) true).
    assert (Hnf : rows_ok nf /\ all_live nf /\ f_n nf = 0) by (unfold nf, new_file, rows_ok, all_live; cbn; auto).
    destruct Hnf as (Hnf1 & Hnf2 & Hnf3).
    pose proof (write_row_next nf (data_off P) e Hnf1 Hnf2 He) as (W1 & W2 & W3 & W4). rewrite Hnf3 in *.
    pose proof (append_loop_refines P r (data_off P + 4 + p_len (e_data e))
                  (mkdisk (d_files d ++ [c']) (write_row 0 (data_off P) e nf) (0 + 1) (d_meta d))) as IH.
    cbn [d_cur d_next d_files d_meta] in IH. specialize (IH W1 W2 (eq_sym W3) Hrr). destruct IH as (I1 & _).
    rewrite I1. unfold log_of. cbn [d_files d_cur]. rewrite !log_of_snoc, W4.
    assert (Hfe : file_entries c' = map row_entry (rev bottom)).
    { apply (file_entries_garbage_top c' g bottom); auto. }
    rewrite Hfe. assert (Hnil : file_entries nf = []) by reflexivity. rewrite Hnil. cbn [app].
    rewrite <- !app_assoc. reflexivity.
  - rewrite Hx.
    pose proof (write_row_over_garbage (d_cur d) g bottom off e Hr Hn Hb He) as (W1 & W2 & W3 & W4).
    pose proof (append_loop_refines P r (off + 4 + p_len (e_data e))
                  (mkdisk (d_files d) (write_row (N.of_nat (length bottom)) off e (d_cur d)) (N.of_nat (length bottom) + 1) (d_meta d))) as IH.
    cbn [d_cur d_next d_files d_meta] in IH. specialize (IH W1 W2 (eq_sym W3) Hrr). destruct IH as (I1 & _).
    rewrite I1. unfold log_of. cbn [d_files d_cur]. rewrite !log_of_snoc, W4.
    rewrite <- !app_assoc. reflexivity.
Qed.

Lemma cell_len_same : forall f p, f_rows (snd (cell_len f p)) = f_rows f /\ f_n (snd (cell_len f p)) = f_n f.
Proof.
  intros f p. unfold cell_len. destruct (p =? 0); [|split; reflexivity].
  destruct (f_c0 f); split; reflexivity.
Qed.

(* [after_conflict] (Model.v) is the part of add_entries after the conflict handling *)

Lemma after_conflict_fill : forall P e r d1 g bottom,
  f_rows (d_cur d1) = g :: bottom -> s_index (r_slot g) = 0 -> forallb live_row bottom = true ->
  f_n (d_cur d1) = N.of_nat (length bottom) + 1 -> d_next d1 = N.of_nat (length bottom) ->
  Forall (fun e => e_index e <> 0) (e :: r) ->
  log_of (after_conflict P (e :: r) d1) = concat (map file_entries (d_files d1)) ++ map row_entry (rev bottom) ++ e :: r.
Proof.
  intros P e r d1 g bottom Hr Hg Hb Hn Hx Hes. unfold after_conflict.
  destruct (d_next d1 =? 0).
  - now apply (append_after_fill P e r _ (mkdisk (d_files d1) (d_cur d1) (d_next d1) (d_meta d1)) g bottom).
  - destruct (cell_len (d_cur d1) (d_next d1 - 1)) as [n c] eqn:Ec.
    pose proof (cell_len_same (d_cur d1) (d_next d1 - 1)) as [S1 S2]. rewrite Ec in S1, S2. cbn [snd] in S1, S2.
    apply (append_after_fill P e r _ (mkdisk (d_files d1) c (d_next d1) (d_meta d1)) g bottom); cbn [d_cur d_next]; auto; congruence.
Qed.

Lemma after_conflict_plain : forall P es d1,
  rows_ok (d_cur d1) -> all_live (d_cur d1) -> d_next d1 = f_n (d_cur d1) -> Forall (fun e => e_index e <> 0) es ->
  log_of (after_conflict P es d1) = log_of d1 ++ es.
Proof.
  intros P es d1 Hn Hl Hx Hes. unfold after_conflict.
  destruct (d_next d1 =? 0).
  - now apply (append_loop_refines P es _ (mkdisk (d_files d1) (d_cur d1) (d_next d1) (d_meta d1))).
  - destruct (cell_len (d_cur d1) (d_next d1 - 1)) as [n c] eqn:Ec.
    pose proof (cell_len_same (d_cur d1) (d_next d1 - 1)) as [S1 S2]. rewrite Ec in S1, S2. cbn [snd] in S1, S2.
    pose proof (append_loop_refines P es (s_off (slot_at (d_cur d1) (d_next d1 - 1)) + 4 + n)
                  (mkdisk (d_files d1) c (d_next d1) (d_meta d1))) as H.
    cbn [d_cur d_next d_files d_meta] in H.
    assert (R1 : rows_ok c) by (unfold rows_ok in *; congruence).
    assert (R2 : all_live c) by (unfold all_live in *; congruence).
    specialize (H R1 R2 ltac:(congruence) Hes). destruct H as (H1 & _). rewrite H1.
    unfold log_of. cbn [d_files d_cur]. rewrite !log_of_snoc. unfold file_entries, asc_rows. now rewrite S1.
Qed.

(* Save, the three shapes of AddEntries, for the repaired zero-fill. [lo] is what slotGe answered for the first new
   index; [bottom] are the rows of the slots below [lo] (highest first). *)
Lemma add_entries_repaired : forall P e0 r d,
  wf_params P = true -> Forall (fun e => e_index e <> 0) (e0 :: r) ->
  let es := e0 :: r in
  let d' := add_entries VRepaired P es d in
  (* (a) nothing to discard: the first new index is at the first free slot of the current file, or the log is empty *)
  ((slot_ge P d (e_index e0) = (InCur, Some (d_next d)) \/ snd (slot_ge P d (e_index e0)) = None) ->
   rows_ok (d_cur d) -> all_live (d_cur d) -> d_next d = f_n (d_cur d) ->
   log_of d' = log_of d ++ es)
  /\
  (* (b) conflict in the current file at slot lo *)
  (forall lo top x bottom,
   slot_ge P d (e_index e0) = (InCur, Some lo) -> lo < d_next d -> d_next d = f_n (d_cur d) -> rows_ok (d_cur d) ->
   f_n (d_cur d) <= max_entries P ->
   f_rows (d_cur d) = top ++ x :: bottom -> N.of_nat (length bottom) = lo -> forallb live_row bottom = true ->
   log_of d' = concat (map file_entries (d_files d)) ++ map row_entry (rev bottom) ++ es)
  /\
  (* (c) conflict in the rotated file number k at slot lo: later files disappear, that file becomes current *)
  (forall k lo top x bottom,
   slot_ge P d (e_index e0) = (InOld k, Some lo) ->
   let f := nth k (d_files d) (d_cur d) in
   rows_ok f -> f_n f <= max_entries P ->
   f_rows f = top ++ x :: bottom -> N.of_nat (length bottom) = lo -> forallb live_row bottom = true ->
   log_of d' = concat (map file_entries (firstn k (d_files d))) ++ map row_entry (rev bottom) ++ es).
Proof.
  intros P e0 r d HP Hes es d'.
  assert (HP' : entry_sz * max_entries P + 4 <= data_off P).
  { unfold wf_params in HP. repeat (apply andb_true_iff in HP as [HP ?]). lia. }
  unfold entry_sz in HP'.
  assert (Hadd : d' = after_conflict P es
            (match slot_ge P d (e_index e0) with
             | (_, None) => d
             | (InCur, Some lo) =>
                 if lo <? d_next d
                 then mkdisk (d_files d) (zero_fill VRepaired P (entry_sz * d_next d) lo (d_cur d)) lo (d_meta d)
                 else mkdisk (d_files d) (d_cur d) lo (d_meta d)
             | (InOld k, Some lo) =>
                 mkdisk (firstn k (d_files d)) (zero_fill VRepaired P (data_off P) lo (nth k (d_files d) (d_cur d))) lo (d_meta d)
             end)) by reflexivity.
  split; [|split].
  - intros Hs Hn Hl Hx. rewrite Hadd.
    destruct Hs as [Hs|Hs].
    + rewrite Hs, N.ltb_irrefl.
      rewrite (after_conflict_plain P es (mkdisk (d_files d) (d_cur d) (d_next d) (d_meta d))); auto.
    + destruct (slot_ge P d (e_index e0)) as [sel o]. cbn [snd] in Hs. subst o. destruct sel; cbv iota.
      * rewrite after_conflict_plain; auto.
      * rewrite after_conflict_plain; auto.
  - intros lo top x bottom Hs Hlo Hx Hn Hmax Hrows Hlen Hb. rewrite Hadd, Hs.
    destruct (lo <? d_next d) eqn:E; [|lia].
    destruct (zero_fill_repaired_rows P (entry_sz * d_next d) lo (d_cur d) top x bottom Hrows Hlen Hn) as [Z1 Z2].
    { rewrite Hx. lia. } { unfold entry_sz. rewrite Hx. lia. }
    unfold es. rewrite (after_conflict_fill P e0 r _ (garbage_row (entry_sz * d_next d - entry_sz * lo - 4)) bottom);
      cbn [d_cur d_next d_files]; auto; try (symmetry; exact Hlen).
    unfold rows_ok in Z2. rewrite Z2, Z1. cbn [length]. lia.
  - intros k lo top x bottom Hs f Hn Hmax Hrows Hlen Hb. rewrite Hadd, Hs. fold f.
    destruct (zero_fill_repaired_rows P (data_off P) lo f top x bottom Hrows Hlen Hn) as [Z1 Z2].
    { unfold entry_sz. lia. } { lia. }
    unfold es. rewrite (after_conflict_fill P e0 r _ (garbage_row (data_off P - entry_sz * lo - 4)) bottom);
      cbn [d_cur d_next d_files]; auto; try (symmetry; exact Hlen).
    unfold rows_ok in Z2. rewrite Z2, Z1. cbn [length]. lia.
Qed.
