(* C17: crash points inside Save, on the granularity of the store's own write operations (discard from the first new
   index, one step per entry - its slot is written last, so an entry is either there or not -, hard state, snapshot).
   A process killed after k steps leaves the state reached by the first k steps. The Raft storage contract
   ("entries first, then hard state and snapshot") is: whatever k, the log below the first new index is untouched,
   hard state and snapshot are the old or the new ones, and a NEW hard state or snapshot is visible only together with
   the complete batch. [save_steps] is the order of RaftDiskStorage.Save; [save_steps_meta_first] is the reversed
   order (meta file first), which breaks the contract. Tears inside one write operation (two write calls of
   WriteSlice) are below this granularity; they are exercised by the harness only (findings C17-meta-torn-update,
   C17-zerofill-torn). *)
From Coq Require Import NArith PeanoNat List Bool Lia.
From OG Require Import C17.Model.
Import ListNotations.
Open Scope N_scope.

Inductive wstep := WDiscard (b : N) | WEntry (e : entry) | WHs (h : hardstate) | WSnap (s : snapshot).
Record pstate := mkp { p_log : list entry; p_hs : hardstate; p_snap : snapshot }.

Definition below (b : N) (l : list entry) : list entry := filter (fun e => e_index e <? b) l.

Definition apply_step (st : pstate) (w : wstep) : pstate :=
  match w with
  | WDiscard b => mkp (below b (p_log st)) (p_hs st) (p_snap st)
  | WEntry e => mkp (p_log st ++ [e]) (p_hs st) (p_snap st)
  | WHs h => mkp (p_log st) h (p_snap st)
  | WSnap s => mkp (p_log st) (p_hs st) s
  end.

Definition entry_steps (es : list entry) : list wstep :=
  match es with [] => [] | e :: _ => WDiscard (e_index e) :: map WEntry es end.
(* StoreHardState ignores an empty hard state, StoreSnapshot an invalid snapshot *)
Definition meta_steps (h : option hardstate) (s : option snapshot) : list wstep :=
  (match h with Some h => if hs_is_empty h then [] else [WHs h] | None => [] end)
  ++ (match s with Some s => if snap_valid s then [WSnap (canon_snap s)] else [] | None => [] end).

Definition save_steps (es : list entry) h s := entry_steps es ++ meta_steps h s.
Definition save_steps_meta_first (es : list entry) h s := meta_steps h s ++ entry_steps es.

Definition crash_state (k : nat) (steps : list wstep) (st : pstate) : pstate := fold_left apply_step (firstn k steps) st.

(* the log once the batch is complete: Append of the specification (C17_spec_append: = s_append es l) *)
Definition complete_log (es : list entry) (l : list entry) : list entry :=
  match es with [] => l | e :: _ => below (e_index e) l ++ es end.
Definition new_hs (h : option hardstate) (old : hardstate) :=
  match h with Some h => if hs_is_empty h then old else h | None => old end.
Definition new_snap (s : option snapshot) (old : snapshot) :=
  match s with Some s => if snap_valid s then canon_snap s else old | None => old end.

Definition inside_ok (st0 : pstate) (es : list entry) h s (st : pstate) : Prop :=
  (* below the first new index nothing changes *)
  (match es with [] => p_log st = p_log st0 | e :: _ => below (e_index e) (p_log st) = below (e_index e) (p_log st0) end)
  (* hard state and snapshot are the old or the new ones *)
  /\ (p_hs st = p_hs st0 \/ p_hs st = new_hs h (p_hs st0))
  /\ (p_snap st = p_snap st0 \/ p_snap st = new_snap s (p_snap st0))
  (* something new in the meta file is visible only together with the complete batch *)
  /\ ((p_hs st = p_hs st0 /\ p_snap st = p_snap st0) \/ p_log st = complete_log es (p_log st0)).

Lemma run_entries : forall es l h s, fold_left apply_step (map WEntry es) (mkp l h s) = mkp (l ++ es) h s.
Proof.
  induction es as [|e r IH]; intros l h s; cbn [map fold_left apply_step p_log p_hs p_snap].
  - now rewrite app_nil_r.
  - rewrite IH. now rewrite <- app_assoc.
Qed.

Lemma firstn_map_entries : forall k es, firstn k (map WEntry es) = map WEntry (firstn k es).
Proof. intros. apply firstn_map. Qed.

Lemma below_app : forall b l1 l2, below b (l1 ++ l2) = below b l1 ++ below b l2.
Proof. intros. unfold below. apply filter_app. Qed.

Lemma below_idem : forall b l, below b (below b l) = below b l.
Proof.
  intros b l. unfold below. induction l as [|e r IH]; [reflexivity|]. cbn [filter].
  destruct (e_index e <? b) eqn:E; cbn [filter]; [rewrite E; now rewrite IH|exact IH].
Qed.

Lemma below_none : forall b l, Forall (fun e => b <= e_index e) l -> below b l = [].
Proof.
  intros b l H. induction H as [|e r He Hr IH]; [reflexivity|]. unfold below in *. cbn [filter].
  destruct (e_index e <? b) eqn:E; [apply N.ltb_lt in E; lia|exact IH].
Qed.

(* every prefix of the meta steps shows old or new values *)
Lemma meta_prefix : forall h s j l oh os,
  let st := fold_left apply_step (firstn j (meta_steps h s)) (mkp l oh os) in
  p_log st = l /\ (p_hs st = oh \/ p_hs st = new_hs h oh) /\ (p_snap st = os \/ p_snap st = new_snap s os).
Proof.
  intros h s j l oh os. unfold meta_steps, new_hs, new_snap.
  destruct h as [x|]; [destruct (hs_is_empty x)|]; (destruct s as [y|]; [destruct (snap_valid y)|]);
    cbn [app]; destruct j as [|[|[|j]]]; cbn; auto.
Qed.

Lemma Forall_firstn_ : forall (P : entry -> Prop) k l, Forall P l -> Forall P (firstn k l).
Proof.
  intros P k l H. revert k. induction H as [|x r Hx Hr IH]; intro k; destruct k; cbn [firstn]; auto.
Qed.

Theorem crash_entries_first : forall st0 es h s k,
  Forall (fun e => match es with [] => True | e0 :: _ => e_index e0 <= e_index e end) es ->
  inside_ok st0 es h s (crash_state k (save_steps es h s) st0).
Proof.
  intros [l oh os] es h s k Hge. unfold crash_state, save_steps. rewrite firstn_app, fold_left_app.
  destruct es as [|e0 r].
  - (* no entries: only the meta file is written *)
    cbn [entry_steps firstn length]. rewrite firstn_nil. cbn [fold_left]. rewrite Nat.sub_0_r.
    destruct (meta_prefix h s k l oh os) as (L & H1 & H2). unfold inside_ok. cbn [p_log p_hs p_snap complete_log].
    repeat split; auto.
  - set (b := e_index e0) in *.
    destruct k as [|k].
    + cbn [firstn fold_left Nat.sub]. unfold inside_ok. cbn [p_log p_hs p_snap]. repeat split; auto.
    + cbn [entry_steps firstn fold_left apply_step p_log p_hs p_snap length]. fold b.
      rewrite firstn_map_entries, run_entries.
      replace (S k - S (length (map WEntry (e0 :: r))))%nat with (k - length (e0 :: r))%nat by (rewrite map_length; reflexivity).
      destruct (meta_prefix h s (k - length (e0 :: r)) (below b l ++ firstn k (e0 :: r)) oh os) as (L & H1 & H2).
      assert (Hpre : below b (firstn k (e0 :: r)) = []) by (apply below_none, Forall_firstn_, Hge).
      unfold inside_ok. cbn [p_log p_hs p_snap complete_log]. fold b. rewrite L.
      split; [now rewrite below_app, below_idem, Hpre, app_nil_r|].
      split; [exact H1|]. split; [exact H2|].
      destruct (Nat.leb k (length (e0 :: r))) eqn:E.
      * apply Nat.leb_le in E. left.
        replace (k - length (e0 :: r))%nat with 0%nat by lia. cbn [firstn fold_left p_hs p_snap]. auto.
      * apply Nat.leb_gt in E. right. rewrite firstn_all2 by lia. reflexivity.
Qed.

(* the reversed order (meta file first, then the entries) breaks the contract: a kill after the meta write shows a
   hard state that commits index 5 while the log still ends at 3 *)
Definition demo_st0 := mkp [mkent 1 1 0 empty_pay; mkent 2 1 0 empty_pay; mkent 3 1 0 empty_pay] (mkhs 1 1 3) empty_snap.
Definition demo_es := [mkent 4 2 0 empty_pay; mkent 5 2 0 empty_pay].
Definition demo_hs := Some (mkhs 2 2 5).

Lemma crash_meta_first_breaks :
  exists k, let st := crash_state k (save_steps_meta_first demo_es demo_hs None) demo_st0 in
            ~ inside_ok demo_st0 demo_es demo_hs None st
            /\ hs_commit (p_hs st) = 5 /\ last_of (p_log st) = 3.
Proof.
  exists 1%nat. cbv zeta. split; [|split; reflexivity].
  unfold inside_ok. intros (_ & _ & _ & [[H _]|H]); vm_compute in H; discriminate H.
Qed.
