(* C17 - replication log store vs. the Raft storage contract. Executable definitions only.

   Part 1: the abstract specification [alog] = the semantics of etcd's MemoryStorage as far as the store exposes it
           (entry list with first/last index, Append truncating at the first conflicting index, Entries with
           Compacted / Unavailable and the "at least one entry" size limit, Term, CreateSnapshot, prefix compaction).
   Part 2: a concrete model of lib/raftlog's on-disk entry log: files made of a slot table of
           (term, index, type, offset) records and a data area of [len:4][payload] cells, AddEntries with slotGe,
           conflict handling (zero the slots of the current file / delete later files and reuse an earlier one),
           rotation on the slot-count or size limit, reopen (re-derive everything from the files), prefix deletion.
           Granularity: slot records and length-prefixed payload cells; the effect of the zero-fill being written with
           WriteSlice (a 4-byte length prefix, hence 4 bytes more than intended) is expressed on that granularity:
           the prefix lands in the first cleared slot, the overrun lands either in the next slot's first 4 bytes or on
           the length word of the cell at [data_off].
   Two variants of the zero-fill: [VCurrent] mirrors today's code, [VRepaired] is the minimal repair (the buffer is
   4 bytes shorter, so prefix + zeros cover exactly the intended range). *)
From Coq Require Import NArith List Bool.
Import ListNotations.
Open Scope N_scope.

(* ------------------------------------------------------------------------------------------------------------ *)
(* entries *)

Record payload := mkpay { p_len : N; p_tag : N }.       (* p_tag identifies the bytes; length 0 <-> tag 0 *)
Definition empty_pay := mkpay 0 0.
Record entry := mkent { e_index : N; e_term : N; e_type : N; e_data : payload }.

(* protobuf size of raftpb.Entry (gogo): 1+sov(type) + 1+sov(term) + 1+sov(index) + (data <> nil ? 1+len+sov(len)) *)
Definition sov (x : N) : N := (N.size (N.lor x 1) + 6) / 7.
Definition entry_size (e : entry) : N :=
  3 + sov (e_type e) + sov (e_term e) + sov (e_index e)
  + (if p_len (e_data e) =? 0 then 0 else 1 + p_len (e_data e) + sov (p_len (e_data e))).

(* ------------------------------------------------------------------------------------------------------------ *)
(* meta file: hard state and snapshot, stored and returned as they are *)

Record hardstate := mkhs { hs_term : N; hs_vote : N; hs_commit : N }.
Record snapshot := mksnap { sn_index : N; sn_term : N; sn_voters : option (list N); sn_data : N }.
Record meta := mkmeta { m_hs : hardstate; m_snap : snapshot }.
Definition empty_hs := mkhs 0 0 0.
Definition empty_snap := mksnap 0 0 None 0.
Definition empty_meta := mkmeta empty_hs empty_snap.

Definition hs_is_empty (h : hardstate) := (hs_term h =? 0) && (hs_vote h =? 0) && (hs_commit h =? 0).
(* raftlog.IsValidSnapshot: index <> 0, or the voters field is present *)
Definition snap_valid (s : snapshot) := negb (sn_index s =? 0) || match sn_voters s with Some _ => true | None => false end.
(* what comes back after marshal/unmarshal: an empty voter list and an absent one are the same *)
Definition canon_snap (s : snapshot) :=
  mksnap (sn_index s) (sn_term s) (match sn_voters s with Some [] => None | v => v end) (sn_data s).

Definition store_hs (h : option hardstate) (m : meta) : meta :=
  match h with
  | Some h => if hs_is_empty h then m else mkmeta h (m_snap m)
  | None => m
  end.
Definition store_snap (s : option snapshot) (m : meta) : meta :=
  match s with
  | Some s => if snap_valid s then mkmeta (m_hs m) (canon_snap s) else m
  | None => m
  end.
Definition snap_i (m : meta) := sn_index (m_snap m).
Definition snap_t (m : meta) := sn_term (m_snap m).

(* ------------------------------------------------------------------------------------------------------------ *)
(* operations and results, shared by specification and disk model *)

Inductive err := Ok | Compacted | Unavailable | SnapOutOfDate | OtherErr.

Inductive sop :=
| Save (es : list entry) (h : option hardstate) (s : option snapshot)
| Entries (lo hi max : N)
| Term (i : N)
| CreateSnap (i : N) (voters : option (list N)) (data : N)
| DeleteBefore (i : N)
| Reopen
| GetMeta
| Sum.

(* what an operation answers; [r_first]/[r_last] are FirstIndex()/LastIndex() right after it *)
Record result := mkres { r_err : err; r_first : N; r_last : N; r_ents : list entry; r_term : N; r_meta : option meta }.

(* ------------------------------------------------------------------------------------------------------------ *)
(* Part 1: specification *)

Record alog := mkalog { a_ents : list entry; a_meta : meta }.
Definition empty_alog := mkalog [] empty_meta.

Definition first_of (l : list entry) : N := match l with [] => 1 | e :: _ => e_index e end.
Definition last_of (l : list entry) : N := match l with [] => 0 | _ => e_index (List.last l (mkent 0 0 0 empty_pay)) end.
Definition a_first (a : alog) := first_of (a_ents a).
(* LastIndex(): the last entry, but never below the snapshot index *)
Definition a_last (a : alog) := N.max (last_of (a_ents a)) (snap_i (a_meta a)).

(* Append: everything from the first new index on is discarded, then the batch is appended *)
Definition s_append (es : list entry) (l : list entry) : list entry :=
  match es with
  | [] => l
  | e :: _ => firstn (N.to_nat (e_index e - first_of l)) l ++ es
  end.

(* limitSize: at least one entry, then as long as the running protobuf size stays <= max *)
Fixpoint limit_from (max size : N) (l : list entry) : list entry :=
  match l with
  | [] => []
  | e :: r => let size' := size + entry_size e in
              if max <? size' then [] else e :: limit_from max size' r
  end.
Definition limit_size (max : N) (l : list entry) : list entry :=
  match l with
  | [] => []
  | e :: r => e :: limit_from max (entry_size e) r
  end.

Definition slice (lo hi : N) (l : list entry) : list entry :=
  firstn (N.to_nat (hi - lo)) (skipn (N.to_nat (lo - first_of l)) l).

Definition lookup (i : N) (l : list entry) : option entry :=
  if (i <? first_of l) then None else nth_error l (N.to_nat (i - first_of l)).

Definition s_entries (lo hi max : N) (l : list entry) : err * list entry :=
  if lo <? first_of l then (Compacted, [])
  else if last_of l + 1 <? hi then (Unavailable, [])
  else (Ok, limit_size max (slice lo hi l)).

(* Term: index 0 answers 0; an index inside the log answers its term; otherwise the store falls back on the
   snapshot index/term it keeps in the meta file. A store that holds no entry at all answers 'compacted' for every
   index >= 1 (etcd's MemoryStorage says 'unavailable' there; raft never asks beyond the last index). *)
Definition s_term (i : N) (a : alog) : err * N :=
  if i =? 0 then (Ok, 0)
  else match lookup i (a_ents a) with
       | Some e => (Ok, e_term e)
       | None =>
           if i <? snap_i (a_meta a) then (Compacted, 0)
           else if i =? snap_i (a_meta a) then (Ok, snap_t (a_meta a))
           else if (i <? a_first a) || (match a_ents a with [] => true | _ => false end) then (Compacted, 0)
           else (Unavailable, 0)
       end.

Definition s_csnap (i : N) (v : option (list N)) (d : N) (a : alog) : err * alog :=
  if i <? a_first a then (SnapOutOfDate, a)
  else match lookup i (a_ents a) with
       | None => (match a_ents a with [] => Compacted | _ => Unavailable end, a)   (* an empty store says 'compacted' *)
       | Some e => (Ok, mkalog (a_ents a) (store_snap (Some (mksnap i (e_term e) v d)) (a_meta a)))
       end.

(* prefix compaction up to a new first index [c]; the store decides how far it goes (whole files only), the
   contract only bounds it: nothing at or above the requested index may disappear *)
Definition drop_below (c : N) (l : list entry) : list entry := skipn (N.to_nat (c - first_of l)) l.

Definition poly_step (h x : N) : N := N.land (h * 31 + x) 18446744073709551615.   (* uint64 wrap-around *)
Definition checksum (l : list entry) : N :=
  fold_left (fun h e => poly_step (poly_step (poly_step (poly_step (poly_step h (e_index e)) (e_term e)) (e_type e))
                                      (p_len (e_data e))) (p_tag (e_data e))) l 0.

Definition sum_of (l : list entry) : N := poly_step (checksum l) (N.of_nat (length l)).

Definition res_of (a : alog) (e : err) (es : list entry) (t : N) (m : option meta) : result :=
  mkres e (a_first a) (a_last a) es t m.

(* [choice]: the new first index the store picked for DeleteBefore / Reopen (ignored by the other operations) *)
Definition step_spec (o : sop) (choice : N) (a : alog) : alog * result :=
  match o with
  | Save es h s =>
      let a' := mkalog (s_append es (a_ents a)) (store_snap s (store_hs h (a_meta a))) in
      (a', res_of a' Ok [] 0 None)
  | Entries lo hi max =>
      let '(e, es) := s_entries lo hi max (a_ents a) in (a, res_of a e es 0 None)
  | Term i => let '(e, t) := s_term i a in (a, res_of a e [] t None)
  | CreateSnap i v d => let '(e, a') := s_csnap i v d a in (a', res_of a' e [] 0 None)
  | DeleteBefore i =>
      if (i <? a_first a) || (match a_ents a with [] => true | _ => false end) then (a, res_of a OtherErr [] 0 None)
      else let a' := mkalog (drop_below choice (a_ents a)) (a_meta a) in (a', res_of a' Ok [] 0 None)
  | Reopen => let a' := mkalog (drop_below choice (a_ents a)) (a_meta a) in (a', res_of a' Ok [] 0 None)
  | GetMeta => (a, res_of a Ok [] 0 (Some (a_meta a)))
  | Sum => (a, res_of a Ok [] (sum_of (a_ents a)) None)
  end.

(* ------------------------------------------------------------------------------------------------------------ *)
(* Part 2: the on-disk entry log *)

Record params := mkparams { max_entries : N; data_off : N; max_size : N }.
Definition entry_sz : N := 32.     (* bytes per slot; four big-endian uint64 *)

(* VCurrent: the zero-fill written with WriteSlice over the whole range (4 bytes too long; /repo before 6bd4b1a).
   VRepaired: the same with a buffer 4 bytes shorter (6bd4b1a; still the fallback of zeroSlots for a file wrapper
   without ZeroSlots). VZeroSlots: one plain positioned write of zeros without a prefix, and a failed clear fails the
   Save (fe68fb6: what the tree implements today). *)
Inductive variant := VCurrent | VRepaired | VZeroSlots.

Record slotrec := mkslot { s_term_ : N; s_index : N; s_type : N; s_off : N }.
(* a cell of the data area: the 4-byte length word and the payload bytes written after it *)
Record cell := mkcell { c_lenw : N; c_pay : payload }.
(* one row = slot record + the cell found at the offset the slot names *)
Record row := mkrow { r_slot : slotrec; r_cell : cell }.
Definition zero_slot := mkslot 0 0 0 0.
Definition zero_row := mkrow zero_slot (mkcell 0 empty_pay).
Definition is_zero_slot (s : slotrec) := (s_term_ s =? 0) && (s_index s =? 0) && (s_type s =? 0) && (s_off s =? 0).

Record file := mkfile {
  f_id : N;
  f_n : N;                (* number of rows below (kept beside the list so that appending costs O(1)) *)
  f_rows : list row;      (* slot table, HIGHEST written slot first; slot number of the head = f_n-1; all slots
                             above are zero bytes *)
  f_size : N;             (* file size in bytes *)
  f_c0 : option N;        (* volatile: cached payload length of slot 0 (fileSlotCache.sz) *)
  f_fresh : bool          (* volatile: the slot cache of this file object is still empty (just created by rotate) *)
}.

Record disk := mkdisk {
  d_files : list file;    (* rotated files, oldest first *)
  d_cur : file;           (* file being written *)
  d_next : N;             (* nextEntryIdx *)
  d_meta : meta
}.

Definition new_file (P : params) (fid : N) (fresh : bool) := mkfile fid 0 [] (data_off P) None fresh.
Definition empty_disk (P : params) := mkdisk [] (new_file P 1 false) 0 empty_meta.

Definition nrows (f : file) : N := f_n f.
(* the slot table in slot order (List.rev is quadratic under vm_compute, rev_append is linear) *)
Definition asc_rows (f : file) : list row := rev_append (f_rows f) [].
(* slot at position p (zero beyond the written part) *)
Definition row_at (f : file) (p : N) : row :=
  if p <? nrows f then nth (N.to_nat (nrows f - 1 - p)) (f_rows f) zero_row else zero_row.
Definition slot_at (f : file) (p : N) := r_slot (row_at f p).
Definition file_first (f : file) : N := s_index (slot_at f 0).

(* sort.Search(n, pred) on a table whose predicate is monotone = position of the first slot satisfying it *)
Fixpoint find_pos (pred : slotrec -> bool) (asc : list row) (p : N) : option N :=
  match asc with
  | [] => None
  | r :: t => if pred (r_slot r) then Some p else find_pos pred t (p + 1)
  end.
(* over the whole table of [max_entries] slots: the rows, then zero slots *)
Definition search_slots (P : params) (f : file) (pred : slotrec -> bool) : N :=
  match find_pos pred (asc_rows f) 0 with
  | Some p => p
  | None => if (nrows f <? max_entries P) && pred zero_slot then nrows f else max_entries P
  end.

Definition first_empty_slot (P : params) (f : file) : N := search_slots P f (fun s => s_index s =? 0).

(* logFile.slotGe: None = -1 *)
Definition file_slot_ge (P : params) (f : file) (i : N) : option N :=
  let fi := file_first f in
  if (fi =? 0) || (i <? fi) then None
  else if (i - fi <? max_entries P) && (s_index (slot_at f (i - fi)) =? i) then Some (i - fi)
  else Some (search_slots P f (fun s => (s_index s =? 0) || (i <=? s_index s))).

Inductive fsel := InCur | InOld (k : nat).

Fixpoint find_file (i : N) (fs : list file) (k : nat) : nat :=
  match fs with
  | [] => k
  | f :: t => if i <=? file_first f then k else find_file i t (S k)
  end.

(* entryLog.slotGe *)
Definition slot_ge (P : params) (d : disk) (i : N) : fsel * option N :=
  match file_slot_ge P (d_cur d) i with
  | Some p => (InCur, Some p)
  | None =>
      match d_files d with
      | [] => (InCur, None)
      | _ =>
          let k := find_file i (d_files d) 0 in
          if (Nat.ltb k (length (d_files d))) && (file_first (nth k (d_files d) (d_cur d)) =? i) then (InOld k, Some 0)
          else let k' := Nat.pred k in
               (InOld k', file_slot_ge P (nth k' (d_files d) (d_cur d)) i)
      end
  end.

(* --- writing --- *)

Definition map_pos (g : N -> row -> row) (f : file) : list row :=
  snd (fold_right (fun r acc => let p := fst acc in (p + 1, g p r :: snd acc)) (0, []) (f_rows f)).

Fixpoint trim_zero (rows : list row) : list row :=
  match rows with
  | r :: t => if is_zero_slot (r_slot r) then trim_zero t else rows
  | [] => []
  end.

Definition fill_len (v : variant) (bytes : N) : N := match v with VRepaired => bytes - 4 | _ => bytes end.

(* WriteSlice(lo, .., entrySize*lo, make([]byte, L)) with L = fill_len v (endb - 32*lo): bytes [32lo, 32lo+4) receive the
   big-endian L, bytes [32lo+4, 32lo+4+L) receive zero. *)
Definition zero_fill (v : variant) (P : params) (endb lo : N) (f : file) : file :=
  let L := fill_len v (endb - entry_sz * lo) in
  let e := entry_sz * lo + 4 + L in
  let g p r :=
    if p <? lo then r
    else if p =? lo then mkrow (mkslot (L * 4294967296) 0 0 0) (mkcell 0 empty_pay)
    else if entry_sz * p + entry_sz <=? e then zero_row
    else if entry_sz * p + 4 <=? e then
      mkrow (mkslot (s_term_ (r_slot r) mod 4294967296) (s_index (r_slot r)) (s_type (r_slot r)) (s_off (r_slot r))) (r_cell r)
    else r in
  let rows1 :=
    (* the first cleared slot always receives the prefix, also when it lies above the written part *)
    if nrows f <=? lo then
      mkrow (mkslot (L * 4294967296) 0 0 0) (mkcell 0 empty_pay) :: repeat zero_row (N.to_nat (lo - nrows f)) ++ f_rows f
    else map_pos g f in
  (* the overrun reaches the length word of the cell stored at data_off *)
  let clob r := if (data_off P + 4 <=? e) && (s_off (r_slot r) =? data_off P) && negb (s_index (r_slot r) =? 0)
                then mkrow (r_slot r) (mkcell 0 (c_pay (r_cell r))) else r in
  let rows2 := if data_off P + 4 <=? e then map clob rows1 else rows1 in
  let rows3 := trim_zero rows2 in
  mkfile (f_id f) (N.of_nat (length rows3)) rows3 (f_size f) (if lo =? 0 then None else f_c0 f) false.

(* ZeroSlots(lo, hi): one positioned write of 32*(hi-lo) zero bytes at 32*lo; everything cached for these slots is
   dropped. Nothing outside the slot records [lo, hi) is touched. *)
Definition zero_slots (hi lo : N) (f : file) : file :=
  let g p r := if (lo <=? p) && (p <? hi) then zero_row else r in
  let rows := trim_zero (map_pos g f) in
  mkfile (f_id f) (N.of_nat (length rows)) rows (f_size f) (if lo =? 0 then None else f_c0 f) false.

(* clearing the slot records [lo, hi) (= the bytes [32*lo, endb)) the way variant v does it *)
Definition clear_slots (v : variant) (P : params) (endb hi lo : N) (f : file) : file :=
  match v with
  | VZeroSlots => zero_slots hi lo f
  | _ => zero_fill v P endb lo f
  end.

(* write the cell and the slot of one entry at position p, offset off *)
Definition write_row (p off : N) (e : entry) (f : file) : file :=
  let r := mkrow (mkslot (e_term e) (e_index e) (e_type e) off) (mkcell (p_len (e_data e)) (e_data e)) in
  let n := nrows f in
  let rows :=
    if p <? n then firstn (N.to_nat (n - 1 - p)) (f_rows f) ++ r :: skipn (N.to_nat (n - p)) (f_rows f)
    else r :: repeat zero_row (N.to_nat (p - n)) ++ f_rows f in
  mkfile (f_id f) (if p <? n then n else p + 1) rows (N.max (f_size f) (off + 4 + p_len (e_data e)))
         (if p =? 0 then (if f_fresh f then Some (p_len (e_data e)) else f_c0 f) else f_c0 f) false.

(* SliceSize(p, off) - 4: the payload length of slot p, from the cache or from the length word; caches it *)
Definition cell_len (f : file) (p : N) : N * file :=
  if p =? 0 then
    match f_c0 f with
    | Some n => (n, f)
    | None => let n := c_lenw (r_cell (row_at f 0)) in
              (n, mkfile (f_id f) (f_n f) (f_rows f) (f_size f) (Some n) false)
    end
  else (c_lenw (r_cell (row_at f p)), f).

Definition max_fid (d : disk) : N := fold_right (fun f m => N.max (f_id f) m) (f_id (d_cur d)) (d_files d).

(* rotate: truncate the current file to the end of its data, start the next file *)
Definition rotate (P : params) (off : N) (d : disk) : disk :=
  let c := d_cur d in
  let c' := mkfile (f_id c) (f_n c) (f_rows c) off (f_c0 c) (f_fresh c) in
  mkdisk (d_files d ++ [c']) (new_file P (max_fid d + 1) true) 0 (d_meta d).

Fixpoint append_loop (P : params) (es : list entry) (off : N) (d : disk) : disk :=
  match es with
  | [] => d
  | e :: r =>
      let '(d1, off1) :=
        if (max_entries P <=? d_next d) || (max_size P <? off + 4 + p_len (e_data e))
        then (rotate P off d, data_off P) else (d, off) in
      let c := write_row (d_next d1) off1 e (d_cur d1) in
      append_loop P r (off1 + 4 + p_len (e_data e)) (mkdisk (d_files d1) c (d_next d1 + 1) (d_meta d1))
  end.

(* entryLog.AddEntries, first part: the conflict handling for a batch whose first index is b *)
Definition conflict_step (v : variant) (P : params) (b : N) (d : disk) : disk :=
  match slot_ge P d b with
  | (_, None) => d
  | (InCur, Some lo) =>
      if lo <? d_next d
      then mkdisk (d_files d) (clear_slots v P (entry_sz * d_next d) (d_next d) lo (d_cur d)) lo (d_meta d)
      else mkdisk (d_files d) (d_cur d) lo (d_meta d)
  | (InOld k, Some lo) =>
      let f := nth k (d_files d) (d_cur d) in
      mkdisk (firstn k (d_files d)) (clear_slots v P (data_off P) (max_entries P) lo f) lo (d_meta d)
  end.

(* second part: the offset after the previous entry of the current file, then the loop *)
Definition after_conflict (P : params) (es : list entry) (d1 : disk) : disk :=
  let '(off, c) :=
    if d_next d1 =? 0 then (data_off P, d_cur d1)
    else let p := d_next d1 - 1 in
         let '(n, c) := cell_len (d_cur d1) p in
         (s_off (slot_at (d_cur d1) p) + 4 + n, c) in
  append_loop P es off (mkdisk (d_files d1) c (d_next d1) (d_meta d1)).

Definition add_entries (v : variant) (P : params) (es : list entry) (d : disk) : disk :=
  match es with
  | [] => d
  | e0 :: _ => after_conflict P es (conflict_step v P (e_index e0) d)
  end.

(* --- a Save in which one file-system step fails (granularity: the store's own write operations) ---
   FClear c:    a write that clears slots of the discarded tail fails. The range is cleared in pieces from the top down
                (/repo 9ca27cd); c = number of slots already cleared by completed pieces (0: the first piece fails).
   FEntry j r:  entry number j of the batch (from 0) does not become visible: its payload or slot write fails (r = true
                when a rotation that had to precede it was completed), or that rotation itself fails (r = false).
   FHs / FSnap: all entries are written; the write of the hard state / of the snapshot fails.
   The result is (error reported to the caller?, state left behind). Today's code (VZeroSlots) reports every one of
   them; before fe68fb6 the result of the clearing write was dropped: the Save went on over the stale slots and
   reported success. A fault that does not apply to the Save at hand (nothing to clear, j beyond the batch, nothing to
   store) is no fault: an ordinary Save. *)
Inductive fault := FClear (c : N) | FEntry (j : nat) (rotated : bool) | FHs | FSnap.

Definition store_meta (h : option hardstate) (s : option snapshot) (d : disk) : disk :=
  mkdisk (d_files d) (d_cur d) (d_next d) (store_snap s (store_hs h (d_meta d))).

(* the state in which a clearing write of VZeroSlots fails after c slots have been cleared from the top: for a conflict in
   the current file the log ends at the first empty slot; for a conflict in a rotated file the later files are gone and
   that file is the current one, up to its first empty slot. None: nothing is cleared at all, or c does not leave the
   slot of the conflicting index for the failing piece *)
Definition clear_part (hi c : N) (f : file) : file := if c =? 0 then f else zero_slots hi (hi - c) f.
Definition clear_failed (P : params) (b c : N) (d : disk) : option disk :=
  match slot_ge P d b with
  | (InCur, Some lo) =>
      if (lo <? d_next d) && (lo + c <? d_next d)
      then Some (mkdisk (d_files d) (clear_part (d_next d) c (d_cur d)) (d_next d - c) (d_meta d))
      else None
  | (InOld k, Some lo) =>
      let f := nth k (d_files d) (d_cur d) in
      if (lo <? max_entries P) && (lo + c <? max_entries P)
      then let f' := clear_part (max_entries P) c f in
           Some (mkdisk (firstn k (d_files d)) f' (first_empty_slot P f') (d_meta d))
      else None
  | _ => None
  end.

(* the conflict handling when the clearing write fails and the error is dropped (before fe68fb6): nothing is cleared *)
Definition conflict_noclear (P : params) (b : N) (d : disk) : disk :=
  match slot_ge P d b with
  | (_, None) => d
  | (InCur, Some lo) => mkdisk (d_files d) (d_cur d) lo (d_meta d)
  | (InOld k, Some lo) => mkdisk (firstn k (d_files d)) (nth k (d_files d) (d_cur d)) lo (d_meta d)
  end.

Definition needs_rotate (P : params) (d : disk) (off : N) (e : entry) : bool :=
  (max_entries P <=? d_next d) || (max_size P <? off + 4 + p_len (e_data e)).
(* where the next payload of the current file goes *)
Definition end_off (P : params) (d : disk) : N :=
  if d_next d =? 0 then data_off P
  else s_off (slot_at (d_cur d) (d_next d - 1)) + 4 + fst (cell_len (d_cur d) (d_next d - 1)).

Definition save_fail (v : variant) (P : params) (es : list entry) (h : option hardstate) (s : option snapshot)
           (ft : fault) (d : disk) : bool * disk :=
  let whole := store_meta h s (add_entries v P es d) in
  match es, ft with
  | e0 :: _, FClear c =>
      match clear_failed P (e_index e0) c d with
      | None => (false, whole)
      | Some d1 =>
          match v with
          | VZeroSlots => (true, d1)
          | _ => (false, store_meta h s (after_conflict P es (conflict_noclear P (e_index e0) d)))
          end
      end
  | e0 :: _, FEntry j rotated =>
      if Nat.ltb j (length es) then
        let d1 := after_conflict P (firstn j es) (conflict_step v P (e_index e0) d) in
        let e := nth j es e0 in
        (true, if rotated && needs_rotate P d1 (end_off P d1) e then rotate P (end_off P d1) d1 else d1)
      else (false, whole)
  | _, FHs =>
      match h with
      | Some x => if hs_is_empty x then (false, whole) else (true, add_entries v P es d)
      | None => (false, whole)
      end
  | _, FSnap =>
      match s with
      | Some x => if snap_valid x then (true, store_meta h None (add_entries v P es d)) else (false, whole)
      | None => (false, whole)
      end
  | [], _ => (false, whole)
  end.

(* --- reading --- *)

(* firstIndex(): slot 0 of the oldest file, 1 when that is zero *)
Definition disk_first (d : disk) : N :=
  let fi := match d_files d with f :: _ => file_first f | [] => file_first (d_cur d) end in
  if fi =? 0 then 1 else fi.

Definition last_entry_index (P : params) (f : file) : N :=
  let p := first_empty_slot P f in s_index (slot_at f (if 0 <? p then p - 1 else p)).

Definition log_last (P : params) (d : disk) : N :=
  if 0 <? d_next d then s_index (slot_at (d_cur d) (d_next d - 1))
  else match find (fun x => 0 <? x) (map (last_entry_index P) (rev (d_files d))) with Some x => x | None => 0 end.
Definition disk_last (P : params) (d : disk) : N := N.max (log_last P d) (snap_i (d_meta d)).

(* getRaftEntry at position p: the payload is what [ReadSlice] finds: for slot 0 the cached length wins *)
Definition read_cell (lenw : N) (c : cell) : payload :=
  if lenw =? p_len (c_pay c) then c_pay c
  else if lenw =? 0 then empty_pay
  else mkpay lenw 1048576.   (* foreign bytes; never produced by the repaired model *)

Inductive scan_status := Stop | NextFile.

(* allEntries inside one file, positions ascending from [p]; [asc] are the rows from position p on.
   Returns the status, the running size, the entries collected (reversed), and the cached length of slot 0. *)
Fixpoint scan_rows (P : params) (fsize hi max : N) (asc : list row) (p : N) (size : N) (acc : list entry) (c0 : option N)
  : scan_status * N * list entry * option N :=
  match asc with
  | [] => (NextFile, size, acc, c0)     (* a zero slot, or the end of the table *)
  | r :: t =>
      let s := r_slot r in
      if (0 <? s_off s) && (fsize <=? s_off s) then (Stop, size, acc, c0)      (* "valid offset error" *)
      else
        let lenw := if p =? 0 then match c0 with Some n => n | None => c_lenw (r_cell r) end else c_lenw (r_cell r) in
        let c0' := if (p =? 0) && (0 <? s_off s) then Some lenw else c0 in
        let e := mkent (s_index s) (s_term_ s) (s_type s) (if 0 <? s_off s then read_cell lenw (r_cell r) else empty_pay) in
        if hi <=? s_index s then (Stop, size, acc, c0')
        else if s_index s =? 0 then (NextFile, size, acc, c0')
        else
          let size' := size + entry_size e in
          if (match acc with [] => false | _ => true end) && (max <? size') then (Stop, size', acc, c0')
          else scan_rows P fsize hi max t (p + 1) size' (e :: acc) c0'
  end.

Definition set_c0 (f : file) (c0 : option N) : file := mkfile (f_id f) (f_n f) (f_rows f) (f_size f) c0 false.

Definition scan_file (P : params) (hi max : N) (f : file) (p : N) (size : N) (acc : list entry)
  : scan_status * N * list entry * file :=
  let asc := skipn (N.to_nat p) (asc_rows f) in
  let '(st, size', acc', c0) := scan_rows P (f_size f) hi max asc p size acc (f_c0 f) in
  (st, size', acc', set_c0 f c0).

(* continue through the remaining rotated files, then the current file *)
Fixpoint scan_files (P : params) (hi max : N) (fs : list file) (size : N) (acc : list entry)
  : scan_status * N * list entry * list file :=
  match fs with
  | [] => (NextFile, size, acc, [])
  | f :: t =>
      let '(st, size', acc', f') := scan_file P hi max f 0 size acc in
      match st with
      | Stop => (Stop, size', acc', f' :: t)
      | NextFile => let '(st2, size2, acc2, t') := scan_files P hi max t size' acc' in (st2, size2, acc2, f' :: t')
      end
  end.

(* entryLog.allEntries(lo, hi, max) *)
Definition all_entries (P : params) (lo hi max : N) (d : disk) : list entry * disk :=
  let '(sel, off) := slot_ge P d lo in
  let p := match off with Some p => p | None => 0 end in
  match sel with
  | InCur =>
      let '(_, _, acc, c) := scan_file P hi max (d_cur d) p 0 [] in
      (rev_append acc [], mkdisk (d_files d) c (d_next d) (d_meta d))
  | InOld k =>
      let before := firstn k (d_files d) in
      match skipn k (d_files d) with
      | [] => ([], d)
      | f :: rest =>
          let '(st, size, acc, f') := scan_file P hi max f p 0 [] in
          match st with
          | Stop => (rev_append acc [], mkdisk (before ++ f' :: rest) (d_cur d) (d_next d) (d_meta d))
          | NextFile =>
              let '(st2, size2, acc2, rest') := scan_files P hi max rest size acc in
              match st2 with
              | Stop => (rev_append acc2 [], mkdisk (before ++ f' :: rest') (d_cur d) (d_next d) (d_meta d))
              | NextFile =>
                  let '(_, _, acc3, c) := scan_file P hi max (d_cur d) 0 size2 acc2 in
                  (rev_append acc3 [], mkdisk (before ++ f' :: rest') c (d_next d) (d_meta d))
              end
          end
      end
  end.

Definition disk_entries (P : params) (lo hi max : N) (d : disk) : err * list entry * disk :=
  if lo <? disk_first d then (Compacted, [], d)
  else if log_last P d + 1 <? hi then (Unavailable, [], d)
  else let '(es, d') := all_entries P lo hi max d in (Ok, es, d').

Definition sel_file (d : disk) (sel : fsel) : file :=
  match sel with InCur => d_cur d | InOld k => nth k (d_files d) (d_cur d) end.

(* seekEntry *)
Definition seek_entry (P : params) (d : disk) (i : N) : err * slotrec :=
  if i =? 0 then (Ok, zero_slot)
  else match slot_ge P d i with
       | (_, None) => (Compacted, zero_slot)
       | (sel, Some p) =>
           if max_entries P <=? p then (Unavailable, zero_slot)
           else let s := slot_at (sel_file d sel) p in
                if s_index s =? 0 then (Unavailable, zero_slot)
                else if s_index s =? i then (Ok, s) else (OtherErr, zero_slot)
       end.

Definition disk_term (P : params) (d : disk) (i : N) : err * N :=
  match seek_entry P d i with
  | (Ok, s) => (Ok, s_term_ s)
  | (e, _) =>
      let si := snap_i (d_meta d) in
      if i <? si then (Compacted, 0)
      else if i =? si then (Ok, snap_t (d_meta d))
      else (e, 0)
  end.

Definition disk_csnap (P : params) (i : N) (v : option (list N)) (dt : N) (d : disk) : err * disk :=
  if i <? disk_first d then (SnapOutOfDate, d)
  else match seek_entry P d i with
       | (Ok, s) => (Ok, mkdisk (d_files d) (d_cur d) (d_next d) (store_snap (Some (mksnap i (s_term_ s) v dt)) (d_meta d)))
       | (e, _) => (e, d)
       end.

(* deleteBefore *)
Definition delete_before (P : params) (i : N) (d : disk) : err * disk :=
  match slot_ge P d i with
  | (_, None) => (OtherErr, d)
  | (InCur, Some _) => (Ok, mkdisk [] (d_cur d) (d_next d) (d_meta d))
  | (InOld k, Some _) => (Ok, mkdisk (skipn k (d_files d)) (d_cur d) (d_next d) (d_meta d))
  end.

(* DeleteBefore in which the removal of the (i+1)-th of the files to delete fails (/repo 9bfc733: the files are removed
   oldest first, the first failure stops the loop and is reported, the files still on disk stay part of the log).
   None: no such removal in this call. *)
Definition delete_fail (P : params) (j : N) (i : nat) (d : disk) : option disk :=
  let keep := mkdisk (skipn i (d_files d)) (d_cur d) (d_next d) (d_meta d) in
  match slot_ge P d j with
  | (_, None) => None
  | (InCur, Some _) => if Nat.ltb i (length (d_files d)) then Some keep else None
  | (InOld k, Some _) => if Nat.ltb i k then Some keep else None
  end.

(* --- reopen: everything volatile is forgotten and re-derived from the files --- *)

Definition forget (f : file) : file := mkfile (f_id f) (f_n f) (f_rows f) (f_size f) None false.

Fixpoint insert_file (f : file) (l : list file) : list file :=
  match l with
  | [] => [f]
  | g :: t => if file_first g <=? file_first f then g :: insert_file f t else f :: l
  end.
Definition sort_files (l : list file) : list file := fold_left (fun acc f => insert_file f acc) l [].

Definition open_logs (P : params) (d : disk) : disk :=
  let all := map forget (d_files d ++ [d_cur d]) in
  let mfid := fold_right (fun f m => N.max (f_id f) m) 0 all in
  let live := filter (fun f => negb (file_first f =? 0)) (sort_files all) in
  match rev live with
  | [] => mkdisk [] (new_file P (mfid + 1) false) 0 (d_meta d)
  | c :: older => mkdisk (rev older) c (first_empty_slot P c) (d_meta d)
  end.

(* Init: open, then re-apply the prefix deletion up to the snapshot index *)
Definition reopen (P : params) (d : disk) : disk :=
  let d1 := open_logs P d in
  let si := snap_i (d_meta d1) in
  let first := if 0 <? si then si + 1 else disk_first d1 in
  snd (delete_before P (first - 1) d1).

(* every entry of the log, read like NumEntries / a full scan does *)
Definition disk_all (P : params) (d : disk) : list entry * disk :=
  all_entries P (disk_first d) (log_last P d + 1) 18446744073709551615 d.

Definition dres (P : params) (d : disk) (e : err) (es : list entry) (t : N) (m : option meta) : result :=
  mkres e (disk_first d) (disk_last P d) es t m.

Definition step_disk (v : variant) (P : params) (o : sop) (d : disk) : disk * result :=
  match o with
  | Save es h s =>
      let d1 := add_entries v P es d in
      let d2 := mkdisk (d_files d1) (d_cur d1) (d_next d1) (store_snap s (store_hs h (d_meta d1))) in
      (d2, dres P d2 Ok [] 0 None)
  | Entries lo hi max =>
      let '(e, es, d') := disk_entries P lo hi max d in (d', dres P d' e es 0 None)
  | Term i => let '(e, t) := disk_term P d i in (d, dres P d e [] t None)
  | CreateSnap i vo dt => let '(e, d') := disk_csnap P i vo dt d in (d', dres P d' e [] 0 None)
  | DeleteBefore i => let '(e, d') := delete_before P i d in (d', dres P d' e [] 0 None)
  | Reopen => let d' := reopen P d in (d', dres P d' Ok [] 0 None)
  | GetMeta => (d, dres P d Ok [] 0 (Some (d_meta d)))
  | Sum => let '(es, d') := disk_all P d in (d', dres P d' Ok [] (sum_of es) None)
  end.

(* abstraction: the entries a reader finds, file by file, up to the first empty slot of each *)
Fixpoint live_rows (asc : list row) : list row :=
  match asc with
  | [] => []
  | r :: t => if s_index (r_slot r) =? 0 then [] else r :: live_rows t
  end.
Definition row_entry (r : row) : entry :=
  mkent (s_index (r_slot r)) (s_term_ (r_slot r)) (s_type (r_slot r)) (read_cell (c_lenw (r_cell r)) (r_cell r)).
Definition file_entries (f : file) : list entry := map row_entry (live_rows (asc_rows f)).
Definition abs (d : disk) : alog :=
  mkalog (concat (map file_entries (d_files d ++ [d_cur d]))) (d_meta d).

(* ------------------------------------------------------------------------------------------------------------ *)
(* histories *)

Fixpoint outputs_disk (v : variant) (P : params) (ops : list sop) (d : disk) : list result :=
  match ops with
  | [] => []
  | o :: r => let '(d', x) := step_disk v P o d in x :: outputs_disk v P r d'
  end.
Fixpoint run_disk (v : variant) (P : params) (ops : list sop) (d : disk) : disk :=
  match ops with
  | [] => d
  | o :: r => run_disk v P r (fst (step_disk v P o d))
  end.
(* the specification replays the same operations; for DeleteBefore/Reopen it is told how far the store compacted
   (the first index the store reported after that operation) *)
Fixpoint outputs_spec (ops : list sop) (choices : list N) (a : alog) : list result :=
  match ops, choices with
  | o :: r, c :: cs => let '(a', x) := step_spec o c a in x :: outputs_spec r cs a'
  | _, _ => []
  end.
Fixpoint run_spec (ops : list sop) (choices : list N) (a : alog) : alog :=
  match ops, choices with
  | o :: r, c :: cs => run_spec r cs (fst (step_spec o c a))
  | _, _ => a
  end.

(* layout inequalities the code relies on *)
Definition wf_params (P : params) : bool :=
  (1 <=? max_entries P) && (entry_sz * max_entries P + 4 <=? data_off P) && (data_off P mod entry_sz =? 0)
  && (data_off P + 4 <=? max_size P).
