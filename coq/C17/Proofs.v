(* C17: lemmas about the specification (part 1). The refinement lemmas are in Refine.v. *)
From Coq Require Import NArith List Bool Lia ZifyBool ZifyN.
From OG Require Import C17.Model.
Import ListNotations.
Open Scope N_scope.

(* ---- limitSize ---- *)

Lemma limit_from_prefix : forall l max size, exists k, limit_from max size l = firstn k l.
Proof.
  induction l as [|e r IH]; intros max size; cbn [limit_from].
  - exists 0%nat. reflexivity.
  - destruct (max <? size + entry_size e).
    + exists 0%nat. reflexivity.
    + destruct (IH max (size + entry_size e)) as [k Hk]. exists (S k). cbn [firstn]. now rewrite Hk.
Qed.

Lemma limit_size_prefix : forall max l, exists k, limit_size max l = firstn k l.
Proof.
  intros max [|e r]; cbn [limit_size].
  - exists 0%nat. reflexivity.
  - destruct (limit_from_prefix r max (entry_size e)) as [k Hk]. exists (S k). cbn [firstn]. now rewrite Hk.
Qed.

Lemma limit_size_at_least_one : forall max e r, exists t, limit_size max (e :: r) = e :: t.
Proof. intros. cbn [limit_size]. eexists. reflexivity. Qed.

Fixpoint total_size (l : list entry) : N := match l with [] => 0 | e :: r => entry_size e + total_size r end.

Lemma limit_from_all : forall l max size, size + total_size l <= max -> limit_from max size l = l.
Proof.
  induction l as [|e r IH]; intros max size H; cbn [limit_from total_size] in *; [reflexivity|].
  destruct (max <? size + entry_size e) eqn:E; [lia|]. rewrite IH; [reflexivity|lia].
Qed.

Lemma limit_size_all : forall max l, total_size l <= max -> limit_size max l = l.
Proof.
  intros max [|e r] H; cbn [limit_size total_size] in *; [reflexivity|]. now rewrite limit_from_all.
Qed.

(* the cut is exactly where the running size first exceeds max *)
Lemma limit_from_cut : forall l max size k,
  limit_from max size l = firstn k l -> (k < length l)%nat ->
  max < size + total_size (firstn (S k) l).
Proof.
  induction l as [|e r IH]; intros max size k H Hk; cbn [length] in Hk; [lia|].
  cbn [limit_from] in H. destruct (max <? size + entry_size e) eqn:E.
  - destruct k; [|cbn in H; discriminate]. cbn [firstn total_size]. lia.
  - destruct k; [cbn in H; discriminate|]. cbn [firstn] in H. injection H as H.
    specialize (IH max (size + entry_size e) k H ltac:(lia)).
    cbn [firstn total_size] in *. lia.
Qed.

(* ---- error classes of Entries ---- *)

Lemma s_entries_compacted : forall lo hi max l, lo < first_of l -> s_entries lo hi max l = (Compacted, []).
Proof. intros. unfold s_entries. destruct (lo <? first_of l) eqn:E; [reflexivity|lia]. Qed.

Lemma s_entries_unavailable : forall lo hi max l, first_of l <= lo -> last_of l + 1 < hi -> s_entries lo hi max l = (Unavailable, []).
Proof.
  intros. unfold s_entries. destruct (lo <? first_of l) eqn:E; [lia|].
  destruct (last_of l + 1 <? hi) eqn:E2; [reflexivity|lia].
Qed.

Lemma s_entries_ok : forall lo hi max l, first_of l <= lo -> hi <= last_of l + 1 ->
  s_entries lo hi max l = (Ok, limit_size max (slice lo hi l)).
Proof.
  intros. unfold s_entries. destruct (lo <? first_of l) eqn:E; [lia|].
  destruct (last_of l + 1 <? hi) eqn:E2; [lia|reflexivity].
Qed.

(* ---- Append ---- *)

(* indexes are consecutive *)
Fixpoint consec (i : N) (l : list entry) : Prop :=
  match l with [] => True | e :: r => e_index e = i /\ consec (i + 1) r end.
Definition wf_log (l : list entry) : Prop := consec (first_of l) l /\ 1 <= first_of l.

Lemma consec_app : forall a b i, consec i a -> consec (i + N.of_nat (length a)) b -> consec i (a ++ b).
Proof.
  induction a as [|e r IH]; intros b i Ha Hb; cbn [app length] in *.
  - now replace (i + N.of_nat 0) with i in Hb by lia.
  - destruct Ha as [He Hr]. split; [exact He|]. apply IH; [exact Hr|].
    now replace (i + 1 + N.of_nat (length r)) with (i + N.of_nat (S (length r))) by lia.
Qed.

Lemma consec_firstn : forall l i k, consec i l -> consec i (firstn k l).
Proof.
  induction l as [|e r IH]; intros i k H; destruct k; cbn [firstn consec] in *; auto.
  destruct H. split; auto.
Qed.

Lemma consec_nth : forall l i k e, consec i l -> nth_error l k = Some e -> e_index e = i + N.of_nat k.
Proof.
  induction l as [|x r IH]; intros i k e H Hn; destruct k; cbn in Hn; try discriminate.
  - injection Hn as <-. destruct H. lia.
  - destruct H as [_ H]. rewrite (IH _ _ _ H Hn). lia.
Qed.

Lemma consec_last : forall l i, consec i l -> l <> [] -> last_of l = i + N.of_nat (length l) - 1.
Proof.
  intros l i H Hne. unfold last_of. destruct l as [|x r]; [congruence|].
  assert (Hl : nth_error (x :: r) (length r) = Some (last (x :: r) (mkent 0 0 0 empty_pay))).
  { clear. revert x. induction r as [|y r IH]; intro x; [reflexivity|]. cbn [length nth_error]. rewrite (IH y). reflexivity. }
  rewrite (consec_nth _ _ _ _ H Hl). cbn [length]. lia.
Qed.

Lemma last_app_ne : forall (a b : list entry) d, b <> [] -> last (a ++ b) d = last b d.
Proof.
  induction a as [|x a IH]; intros b d Hb; [reflexivity|]. cbn [app]. 
  destruct (a ++ b) eqn:E; [destruct a; cbn in E; congruence|]. rewrite <- E. cbn [last]. 
  rewrite E. rewrite <- E. now apply IH.
Qed.

Lemma first_of_app : forall a b, a <> [] -> first_of (a ++ b) = first_of a.
Proof. intros [|x a] b H; [congruence|reflexivity]. Qed.

(* appending a batch that starts inside [first, last+1] keeps the log well formed, discards exactly the entries
   from the first new index on, and ends with the batch *)
Lemma s_append_wf : forall es l e0 r,
  es = e0 :: r -> wf_log l -> consec (e_index e0) es -> 1 <= e_index e0 ->
  (l = [] \/ (first_of l <= e_index e0 /\ e_index e0 <= last_of l + 1)) ->
  wf_log (s_append es l)
  /\ s_append es l = filter (fun e => e_index e <? e_index e0) l ++ es
  /\ last_of (s_append es l) = e_index e0 + N.of_nat (length es) - 1.
Proof.
  intros es l e0 r -> [Hc Hf] Hes H1 Hrange. cbn [s_append].
  assert (Hfil : firstn (N.to_nat (e_index e0 - first_of l)) l = filter (fun e => e_index e <? e_index e0) l).
  { destruct Hrange as [->|[Hlo Hhi]]; [now destruct (N.to_nat _)|].
    remember (first_of l) as f eqn:Ef. clear Ef Hf Hhi. revert f Hc Hlo.
    induction l as [|x t IH]; intros f Hc Hlo; [now destruct (N.to_nat _)|].
    destruct Hc as [Hx Ht]. cbn [filter].
    destruct (e_index x <? e_index e0) eqn:E.
    - replace (N.to_nat (e_index e0 - f)) with (S (N.to_nat (e_index e0 - (f + 1)))) by lia.
      cbn [firstn]. f_equal. apply IH; [exact Ht|lia].
    - replace (N.to_nat (e_index e0 - f)) with 0%nat by lia. cbn [firstn].
      (* every later entry has a larger index *)
      clear IH. assert (forall j, f + 1 <= j -> consec j t -> filter (fun e => e_index e <? e_index e0) t = []) as Hn.
      { clear -E Hx. induction t as [|y t IH]; intros j Hj Hc; [reflexivity|]. destruct Hc as [Hy Hc]. cbn [filter].
        destruct (e_index y <? e_index e0) eqn:E2; [lia|]. apply (IH (j + 1)); [lia|exact Hc]. }
      symmetry. apply (Hn (f + 1)); [lia|exact Ht]. }
  split; [|split].
  - (* well formed *)
    destruct (firstn (N.to_nat (e_index e0 - first_of l)) l) as [|y k] eqn:Ek.
    + cbn [app]. split; cbn [first_of]; [exact Hes|exact H1].
    + unfold wf_log. assert (Hfk : first_of (y :: k) = first_of l).
      { destruct l as [|x t]; [now destruct (N.to_nat _)|]. destruct (N.to_nat _); cbn in Ek; [discriminate|]. now injection Ek as -> _. }
      rewrite first_of_app by discriminate. rewrite Hfk. split; [|exact Hf].
      apply consec_app; [rewrite <- Ek; now apply consec_firstn|].
      destruct Hrange as [->|[Hlo Hhi]]; [now destruct (N.to_nat _)|].
      assert (Hlen : length (y :: k) = N.to_nat (e_index e0 - first_of l)).
      { rewrite <- Ek. apply firstn_length_le.
        destruct l as [|x t]; [now destruct (N.to_nat _)|].
        rewrite (consec_last _ _ Hc) in Hhi by discriminate. lia. }
      rewrite Hlen. now replace (first_of l + N.of_nat (N.to_nat (e_index e0 - first_of l))) with (e_index e0) by lia.
  - now rewrite Hfil.
  - assert (Hne : firstn (N.to_nat (e_index e0 - first_of l)) l ++ e0 :: r <> []) by (now destruct (firstn _ _)).
    unfold last_of at 1. destruct (firstn (N.to_nat (e_index e0 - first_of l)) l ++ e0 :: r) eqn:E; [congruence|].
    rewrite <- E. rewrite last_app_ne by discriminate.
    change (e_index (last (e0 :: r) (mkent 0 0 0 empty_pay))) with (last_of (e0 :: r)). rewrite (consec_last _ _ Hes) by discriminate. reflexivity.
Qed.
