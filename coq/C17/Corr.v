(* C17 correspondence evaluator: runs the disk model (both zero-fill variants) and the specification on a harness
   case and reports the first operation whose answer differs from what the implementation answered. *)
From Coq Require Import NArith List Bool.
From OG Require Import C17.Model C17.Bytes.
Import ListNotations.
Open Scope N_scope.

Definition tag_of (x l : N) : N := if l =? 0 then 0 else if l =? 1 then x mod 256 else x mod 65536.

Fixpoint seg_entries (n : nat) (f t y l g : N) : list entry :=
  match n with
  | O => []
  | S n' => mkent f t y (mkpay l (tag_of g l)) :: seg_entries n' (f + 1) t y l (g + 1)
  end.
Definition seg (f n t y l g : N) : list entry := seg_entries (N.to_nat n) f t y l g.

Definition err_of (c : N) : err :=
  match c with 0 => Ok | 1 => Compacted | 2 => Unavailable | 3 => SnapOutOfDate | _ => OtherErr end.
Definition err_eqb (a b : err) : bool :=
  match a, b with
  | Ok, Ok | Compacted, Compacted | Unavailable, Unavailable | SnapOutOfDate, SnapOutOfDate | OtherErr, OtherErr => true
  | _, _ => false
  end.

Fixpoint list_eqb {A} (eqb : A -> A -> bool) (a b : list A) : bool :=
  match a, b with
  | [], [] => true
  | x :: a', y :: b' => eqb x y && list_eqb eqb a' b'
  | _, _ => false
  end.
Definition pay_eqb (a b : payload) := (p_len a =? p_len b) && (p_tag a =? p_tag b).
Definition entry_eqb (a b : entry) :=
  (e_index a =? e_index b) && (e_term a =? e_term b) && (e_type a =? e_type b) && pay_eqb (e_data a) (e_data b).
Definition opt_eqb {A} (eqb : A -> A -> bool) (a b : option A) : bool :=
  match a, b with None, None => true | Some x, Some y => eqb x y | _, _ => false end.
Definition hs_eqb (a b : hardstate) := (hs_term a =? hs_term b) && (hs_vote a =? hs_vote b) && (hs_commit a =? hs_commit b).
Definition snap_eqb (a b : snapshot) :=
  (sn_index a =? sn_index b) && (sn_term a =? sn_term b) && opt_eqb (list_eqb N.eqb) (sn_voters a) (sn_voters b)
  && (sn_data a =? sn_data b).
Definition meta_eqb (a b : meta) := hs_eqb (m_hs a) (m_hs b) && snap_eqb (m_snap a) (m_snap b).

Definition result_eqb (a b : result) : bool :=
  err_eqb (r_err a) (r_err b) && (r_first a =? r_first b) && (r_last a =? r_last b)
  && list_eqb entry_eqb (r_ents a) (r_ents b) && (r_term a =? r_term b) && opt_eqb meta_eqb (r_meta a) (r_meta b).

(* observed answer of the implementation: (code, first, last, entries, term-or-checksum, meta) *)
Definition obs (code f l : N) (es : list entry) (t : N) (m : option meta) : result := mkres (err_of code) f l es t m.
Definition ent (i t y l g : N) : entry := mkent i t y (mkpay l g).

(* one operation of a case: an ordinary operation with the observed answer, or a Save in which the harness made one
   file-system step fail: [rep] = the Save reported an error; then the first index, last index and full-scan checksum
   of the live store right after the failure, and [want] = the answer of the retry (or of the Save itself when no
   error was reported) *)
Inductive cop :=
| Plain (o : sop) (want : result)
| Faulty (es : list entry) (h : option hardstate) (s : option snapshot) (ft : fault) (rep : bool) (ff fl fsum : N)
         (want : result)
(* raw bytes read from the directory: for entry file number [fi] (ordered by first index, empty files last) the slot records
   [st, st+n) as they lie in the file (eight bytes at a time as big-endian words), and the length words of the cells of the live ones among them; the hard state record
   at offset 512 and the two words at offset 1024 of raft.meta *)
| RawBytes (wins : list (nat * nat * nat * list N * list N)) (hsrec : list N) (snaphdr : list N)
(* DeleteBefore j in which the harness made one removal fail: i removals had been done, [rep] = the error was reported,
   [ff] = the first index of the live store right after it, [want] = the answer of the second call *)
| FaultyDel (j : N) (i : nat) (rep : bool) (ff : N) (want : result).

Definition window_bytes (f : file) (st n : nat) : list N :=
  concat (map (fun p => slot_bytes (slot_at f (N.of_nat p))) (seq st n)).
(* the same bytes taken eight at a time as big-endian words (what the harness prints): the four fields of each slot *)
Definition slot_words (s : slotrec) : list N := [s_term_ s; s_index s; s_type s; s_off s].
Definition window_words (f : file) (st n : nat) : list N :=
  concat (map (fun p => slot_words (slot_at f (N.of_nat p))) (seq st n)).
Definition window_lens (f : file) (st n : nat) : list N :=
  flat_map (fun p => let r := row_at f (N.of_nat p) in if s_index (r_slot r) =? 0 then [] else [c_lenw (r_cell r)]) (seq st n).

Definition check_bytes (d : disk) (wins : list (nat * nat * nat * list N * list N)) (hsrec snaphdr : list N) : bool :=
  let files := d_files d ++ [d_cur d] in
  forallb (fun w => let '(fi, st, n, bytes, lens) := w in
                    match nth_error files fi with
                    | Some f => list_eqb N.eqb (window_words f st n) bytes && list_eqb N.eqb (window_lens f st n) lens
                    | None => false
                    end) wins
  && list_eqb N.eqb (hs_record (m_hs (d_meta d))) hsrec
  && list_eqb N.eqb (snap_header (m_snap (d_meta d))) snaphdr.

Fixpoint check_disk (v : variant) (P : params) (i : nat) (d : disk) (ops : list cop) : option nat :=
  match ops with
  | [] => None
  | Plain o want :: r =>
      let '(d', got) := step_disk v P o d in
      if result_eqb got want then check_disk v P (S i) d' r else Some i
  | Faulty es h s ft rep ff fl fsum want :: r =>
      let '(rep', d1) := save_fail v P es h s ft d in
      if rep' then
        if negb rep then Some i else
        let '(es1, d1') := disk_all P d1 in
        if (disk_first d1' =? ff) && (disk_last P d1' =? fl) && (sum_of es1 =? fsum) then
          let '(d2, got) := step_disk v P (Save es h s) d1' in
          if result_eqb got want then check_disk v P (S i) d2 r else Some i
        else Some i
      else
        if rep then Some i else
        if result_eqb (dres P d1 Ok [] 0 None) want then check_disk v P (S i) d1 r else Some i
  | RawBytes wins hsrec snaphdr :: r =>
      if check_bytes d wins hsrec snaphdr then check_disk v P (S i) d r else Some i
  | FaultyDel j k rep ff want :: r =>
      match delete_fail P j k d with
      | Some d1 =>
          if rep && (disk_first d1 =? ff) then
            let '(d2, got) := step_disk v P (DeleteBefore j) d1 in
            if result_eqb got want then check_disk v P (S i) d2 r else Some i
          else Some i
      | None => Some i
      end
  end.

(* the specification is told the first index the implementation reported after the operation (its compaction choice);
   a failed and retried Save is one Save *)
Fixpoint check_spec (i : nat) (a : alog) (ops : list cop) : option nat :=
  match ops with
  | [] => None
  | RawBytes _ _ _ :: r => check_spec (S i) a r
  | c :: r =>
      let '(o, want) := match c with Plain o w => (o, w) | Faulty es h s _ _ _ _ _ w => (Save es h s, w)
                                     | FaultyDel j _ _ _ w => (DeleteBefore j, w)
                                     | RawBytes _ _ _ => (GetMeta, mkres Ok 0 0 [] 0 None) end in
      let '(a', got) := step_spec o (r_first want) a in
      if result_eqb got want then check_spec (S i) a' r else Some i
  end.

Definition code (x : option nat) : N := match x with None => 0 | Some i => N.of_nat (S i) end.

(* verdicts (zero-fill before 6bd4b1a, zero-fill of 6bd4b1a, ZeroSlots of fe68fb6, specification):
   0 = agrees, k+1 = first differing op k *)
Definition run_case (P : params) (ops : list cop) : N * N * N * N :=
  (code (check_disk VCurrent P 0 (empty_disk P) ops),
   code (check_disk VRepaired P 0 (empty_disk P) ops),
   code (check_disk VZeroSlots P 0 (empty_disk P) ops),
   code (check_spec 0 empty_alog ops)).

Definition run_cases (P : params) (cs : list (list cop)) : list (N * N * N * N) := map (run_case P) cs.

(* the words compared by check_bytes are the file bytes: the bytes of a window are the big-endian encodings of its words *)
Lemma window_bytes_words : forall f st n, window_bytes f st n = flat_map (be_enc 8) (window_words f st n).
Proof.
  intros f st n. unfold window_bytes, window_words. generalize st. induction n as [|n IH]; intro s0; [reflexivity|].
  cbn [seq map concat]. rewrite flat_map_app, <- IH.
  assert (E : slot_bytes (slot_at f (N.of_nat s0)) = flat_map (be_enc 8) (slot_words (slot_at f (N.of_nat s0)))).
  { unfold slot_bytes, slot_words. cbn [flat_map]. now rewrite app_nil_r. }
  now rewrite E.
Qed.
