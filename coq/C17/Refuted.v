(* C17: today's zero-fill (written with WriteSlice, i.e. 4 bytes longer than the range it is meant to clear) breaks
   the contract. The witness is the confirmed one scaled down through the parameters: with 4 slots per file instead
   of 30000, saving 6 small entries rotates file 1 after 4 entries; a conflicting save at index 3 truncates into
   file 1 at slot 2 > 0; the zero-fill's overrun lands on the length word of the first payload at [data_off], and
   entry 1 is read back with an EMPTY payload - before and after reopen. With the real constants
   (30000, 1 MiB, 32 MiB; Gen_Consts.real_params) the same run is: save 30005 entries, conflicting save at 29990,
   Entries(1,3); it is evaluated against the implementation on every run of the check (witness case W0 of the
   harness; too large to be a pleasant kernel computation here, although [vm_compute] does it in seconds). *)
From Coq Require Import NArith List Bool.
From OG Require Import C17.Model C17.Corr C17.Refine C17.Inv C17.Clobber C17.Tear.
Import ListNotations.
Open Scope N_scope.

Definition small_params := mkparams 4 160 4096.

Definition witness_ops : list sop :=
  [ Save (seg 1 6 1 0 5 7) None None;        (* entries 1..6, payloads of 5 bytes: file 1 = 1..4, file 2 = 5..6 *)
    Save (seg 3 1 2 0 5 900) None None;      (* conflicting entry at index 3, term 2 *)
    Entries 1 3 1000;
    Reopen;
    Entries 1 3 1000 ].

Definition ents_of (rs : list result) : list (list (N * N * N)) :=
  map (fun r => map (fun e => (e_index e, p_len (e_data e), p_tag (e_data e))) (r_ents r)) rs.

(* the repaired model and the specification answer entry 1 with its 5 bytes; today's model answers it empty *)
Theorem C17_zerofill_refuted :
  exists (P : params) (ops : list sop),
    wf_params P = true /\
    let out := outputs_disk VCurrent P ops (empty_disk P) in
    let spec := outputs_spec ops (map r_first out) empty_alog in
    out <> spec /\
    ents_of out = [ []; []; [(1, 0, 0); (2, 5, 8)]; []; [(1, 0, 0); (2, 5, 8)] ] /\
    ents_of spec = [ []; []; [(1, 5, 7); (2, 5, 8)]; []; [(1, 5, 7); (2, 5, 8)] ].
Proof.
  exists small_params, witness_ops. split; [reflexivity|].
  split; [|split; vm_compute; reflexivity].
  intro H. apply (f_equal ents_of) in H. vm_compute in H. discriminate H.
Qed.
Print Assumptions C17_zerofill_refuted.

(* the same run with the repaired zero-fill agrees with the specification *)
Example C17_witness_repaired_ok :
  let out := outputs_disk VRepaired small_params witness_ops (empty_disk small_params) in
  out = outputs_spec witness_ops (map r_first out) empty_alog.
Proof. vm_compute. reflexivity. Qed.

(* the full-size witness, evaluated by the virtual machine with the constants of the Go code: the three answers to
   Entries(1,3) of today's model start with an empty payload for entry 1 *)
From OG Require Import C17.Gen_Consts.
Definition real_witness : list sop :=
  [ Save (seg 1 30005 1 0 5 7) None None; Save (seg 29990 1 2 0 5 900) None None; Entries 1 3 1000; Reopen; Entries 1 3 1000 ].
Theorem C17_zerofill_refuted_real_constants :
  ents_of (outputs_disk VCurrent real_params real_witness (empty_disk real_params))
  = [ []; []; [(1, 0, 0); (2, 5, 8)]; []; [(1, 0, 0); (2, 5, 8)] ]
  /\ ents_of (outputs_disk VRepaired real_params real_witness (empty_disk real_params))
  = [ []; []; [(1, 5, 7); (2, 5, 8)]; []; [(1, 5, 7); (2, 5, 8)] ].
Proof. split; vm_compute; reflexivity. Qed.
Print Assumptions C17_zerofill_refuted_real_constants.

(* Not only a witness: for ALL layout parameters and every well-formed file whose first payload sits at data_off
   and is not empty, today's zero-fill of a conflict truncation at any slot lo > 0 of that (rotated) file returns the
   entry of slot 0 with an EMPTY payload. *)
Theorem C17_zerofill_current_clobbers : forall P f A D lo a t,
  fview P f A D -> A = a :: t -> (0 < lo)%nat -> (lo < length A)%nat ->
  entry_sz * f_n f <= data_off P ->
  s_off (r_slot a) = data_off P -> p_len (c_pay (r_cell a)) <> 0 ->
  exists rest,
    file_entries (zero_fill VCurrent P (data_off P) (N.of_nat lo) f)
    = mkent (s_index (r_slot a)) (s_term_ (r_slot a)) (s_type (r_slot a)) empty_pay :: rest
    /\ hd_error (file_entries f)
       = Some (mkent (s_index (r_slot a)) (s_term_ (r_slot a)) (s_type (r_slot a)) (c_pay (r_cell a))).
Proof. exact zero_fill_current_clobbers. Qed.
Print Assumptions C17_zerofill_current_clobbers.

(* The clearing write of the WriteSlice variants (before /repo fe68fb6) had its result dropped: when it fails, the
   Save goes on over the stale slots and reports success. Witness (4 slots per file): entries 1..3, then a Save of
   a single conflicting entry at index 2 whose clearing write fails: the Save is not reported as failed, the live
   store answers correctly (nextEntryIdx hides the stale slot), but after reopen the discarded entry 3 is back. The
   variant of today's tree reports the failure and keeps the log unchanged. *)
Definition swallow_d := run_disk VRepaired small_params [Save (seg 1 3 1 0 5 7) None None] (empty_disk small_params).
Definition swallow_es := seg 2 1 2 0 5 900.
Theorem C17_clear_error_swallowed_refuted :
  let '(rep, d1) := save_fail VRepaired small_params swallow_es None None (FClear 0) swallow_d in
  rep = false
  /\ map e_index (a_ents (abs d1)) = [1; 2; 3]
  /\ map e_index (s_append swallow_es (a_ents (abs swallow_d))) = [1; 2]
  /\ map e_index (fst (disk_all small_params (reopen small_params d1))) = [1; 2; 3]
  /\ (let '(rep', d1') := save_fail VZeroSlots small_params swallow_es None None (FClear 0) swallow_d in
      rep' = true /\ abs d1' = abs swallow_d).
Proof. vm_compute. repeat split. Qed.
Print Assumptions C17_clear_error_swallowed_refuted.

(* Open findings of the tree, as far as the models express them (Tear.v). *)

(* C17-clear-torn-pages: the clearing write, bottom-up in one call, cut after two of seven slots: empty slots followed by
   stale ones; the binary search answers 8 (LastIndex = the stale entry 8), a reader finds entry 1 and the hole *)
Theorem C17_clear_cut_refuted :
  let f := clear_cut 1 3 tear_file in
  first_empty_bin tear_params tear_file = 8 /\ first_empty_bin tear_params f = 8 /\ first_empty_slot tear_params f = 1
  /\ map e_index (file_entries f) = [1] /\ s_index (slot_at f 7) = 8.
Proof. exact clear_cut_refuted. Qed.

(* C17-delete-order-hole: removing the later files oldest first, killed after the first of two removals *)
Theorem C17_remove_oldest_first_refuted :
  concat ([[1; 2]] ++ removed_oldest_first 1 [[3; 4]; [5; 6]]) = [1; 2; 5; 6]
  /\ forall n, firstn n (concat [[1; 2]; [3; 4]; [5; 6]]) <> [1; 2; 5; 6].
Proof. exact remove_oldest_first_hole. Qed.

(* C17-meta-torn-update: the snapshot record written with four calls: every crash point strictly inside is a mixture *)
Theorem C17_meta_several_writes_refuted :
  let old := mkmrec 10 100 5 1 in let new := mkmrec 12 200 9 2 in
  forall k, (0 < k < 4)%nat -> mcrash k (snap_writes_current new) old <> old /\ mcrash k (snap_writes_current new) old <> new.
Proof. exact meta_several_writes_refuted. Qed.

(* not a finding (a 32-byte record inside one page is not torn by the death of a process), but the reason why the
   claim "any byte prefix" cannot be made: 15 bytes of a slot record decode as a live slot with a foreign index *)
Theorem C17_slot_byte_tear_refuted :
  let s := mkslot 7 4660 0 1048576 in
  let t := slot_dec (torn_bytes 15 (slot_enc zero_slot) (slot_enc s)) in
  s_index t = 4608 /\ s_index t <> 0 /\ s_index t <> s_index s /\ s_off t = 0.
Proof. exact slot_byte_tear_refuted. Qed.
Print Assumptions C17_clear_cut_refuted.
