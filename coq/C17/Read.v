(* C17: the read path. allEntries over the files = limit_size of the slice of the abstract log. *)
From Coq Require Import NArith PeanoNat List Bool Lia ZifyBool ZifyN ZifyNat.
From OG Require Import C17.Model C17.Proofs C17.Refine C17.Inv C17.Search.
Import ListNotations.
Open Scope N_scope.

Definition nonempty (l : list entry) : bool := match l with [] => false | _ => true end.

(* the loop of allEntries on plain entries *)
Fixpoint take_scan (hi max size : N) (acc : list entry) (es : list entry) : scan_status * N * list entry :=
  match es with
  | [] => (NextFile, size, acc)
  | e :: t =>
      if hi <=? e_index e then (Stop, size, acc)
      else let size' := size + entry_size e in
           if nonempty acc && (max <? size') then (Stop, size', acc) else take_scan hi max size' (e :: acc) t
  end.

Lemma take_scan_app : forall hi max a b size acc,
  take_scan hi max size acc (a ++ b) =
  match take_scan hi max size acc a with
  | (Stop, s, c) => (Stop, s, c)
  | (NextFile, s, c) => take_scan hi max s c b
  end.
Proof.
  induction a as [|e t IH]; intros b size acc; cbn [app take_scan]; [reflexivity|].
  destruct (hi <=? e_index e); [reflexivity|].
  destruct (nonempty acc && (max <? size + entry_size e)); [reflexivity|]. apply IH.
Qed.

(* ---- take_scan = limit_size of the slice ---- *)

Lemma take_scan_limit_from : forall hi max S size acc i,
  consec i S -> acc <> [] ->
  rev (snd (take_scan hi max size acc S)) = rev acc ++ limit_from max size (firstn (N.to_nat (hi - i)) S).
Proof.
  induction S as [|e t IH]; intros size acc i C Hacc; cbn [take_scan].
  - destruct (N.to_nat (hi - i)); cbn [firstn limit_from snd]; now rewrite app_nil_r.
  - destruct C as [He Ct]. rewrite He.
    destruct (hi <=? i) eqn:E.
    + replace (N.to_nat (hi - i)) with 0%nat by lia. cbn [firstn limit_from snd]. now rewrite app_nil_r.
    + replace (N.to_nat (hi - i)) with (S (N.to_nat (hi - (i + 1)))) by lia. cbn [firstn limit_from].
      assert (Hne : nonempty acc = true) by (destruct acc; [congruence|reflexivity]). rewrite Hne. cbn [andb].
      destruct (max <? size + entry_size e) eqn:E2; cbn [snd]; [now rewrite app_nil_r|].
      rewrite (IH (size + entry_size e) (e :: acc) (i + 1) Ct) by discriminate.
      cbn [rev]. now rewrite <- app_assoc.
Qed.

Lemma take_scan_limit : forall hi max S i,
  consec i S -> rev (snd (take_scan hi max 0 [] S)) = limit_size max (firstn (N.to_nat (hi - i)) S).
Proof.
  intros hi max [|e t] i C; cbn [take_scan].
  - destruct (N.to_nat (hi - i)); reflexivity.
  - destruct C as [He Ct]. rewrite He. destruct (hi <=? i) eqn:E.
    + replace (N.to_nat (hi - i)) with 0%nat by lia. reflexivity.
    + replace (N.to_nat (hi - i)) with (S (N.to_nat (hi - (i + 1)))) by lia. cbn [firstn limit_size nonempty andb].
      rewrite (take_scan_limit_from hi max t (0 + entry_size e) [e] (i + 1) Ct) by discriminate.
      cbn [rev app]. now rewrite N.add_0_l.
Qed.

(* ---- one file ---- *)

Definition c0ok (c0 : option N) (As : list row) : Prop :=
  match c0 with Some n => exists r t, As = r :: t /\ n = c_lenw (r_cell r) | None => True end.

Lemma scan_rows_spec : forall P fsize hi max As D p size acc c0,
  1 <= hi -> Forall (good fsize) As -> Forall dead D -> (p = 0 -> c0ok c0 As) ->
  exists c0',
    scan_rows P fsize hi max (As ++ D) p size acc c0
    = (fst (fst (take_scan hi max size acc (map row_entry As))), snd (fst (take_scan hi max size acc (map row_entry As))),
       snd (take_scan hi max size acc (map row_entry As)), c0')
    /\ (c0' = c0 \/ (p = 0 /\ exists r t, As = r :: t /\ c0' = Some (c_lenw (r_cell r)))).
Proof.
  intros P fsize hi max As. induction As as [|a t IH]; intros D p size acc c0 Hhi HG HD Hc0.
  - cbn [app map take_scan fst snd]. destruct D as [|d D']; cbn [scan_rows]; [eauto|].
    inversion HD as [|? ? [Hi Ho] _]; subst. rewrite Ho, Hi. cbn [N.ltb N.compare andb].
    replace (0 <? 0) with false by reflexivity. cbn [andb].
    destruct (hi <=? 0) eqn:E; [lia|]. cbn [N.eqb]. rewrite andb_false_r. eauto.
  - inversion HG as [|? ? Ga Gt]; subst. destruct Ga as (G1 & G2 & G3 & G4).
    cbn [app map take_scan scan_rows].
    destruct (0 <? s_off (r_slot a)) eqn:E1; [|lia]. destruct (fsize <=? s_off (r_slot a)) eqn:E2; [lia|]. cbn [andb].
    set (lenw := if p =? 0 then match c0 with Some n => n | None => c_lenw (r_cell a) end else c_lenw (r_cell a)).
    assert (Hlenw : lenw = c_lenw (r_cell a)).
    { unfold lenw. destruct (p =? 0) eqn:Ep; [|reflexivity]. destruct c0 as [n|]; [|reflexivity].
      destruct (Hc0 ltac:(lia)) as (r & t' & Hr & Hn). injection Hr as <- <-. exact Hn. }
    rewrite Hlenw. fold (row_entry a).
    assert (Hidx : e_index (row_entry a) = s_index (r_slot a)) by reflexivity. rewrite Hidx.
    set (c0' := if (p =? 0) && true then Some (c_lenw (r_cell a)) else c0).
    assert (Hc0' : c0' = c0 \/ (p = 0 /\ exists r t', a :: t = r :: t' /\ c0' = Some (c_lenw (r_cell r)))).
    { unfold c0'. destruct (p =? 0) eqn:Ep; cbn [andb]; [right; split; [lia|eauto]|left; reflexivity]. }
    destruct (hi <=? s_index (r_slot a)) eqn:E3; cbn [fst snd]; [eauto|].
    destruct (s_index (r_slot a) =? 0) eqn:E4; [lia|].
    change (match acc with [] => false | _ :: _ => true end) with (nonempty acc).
    destruct (nonempty acc && (max <? size + entry_size (row_entry a))) eqn:E5; cbn [fst snd]; [eauto|].
    destruct (IH D (p + 1) (size + entry_size (row_entry a)) (row_entry a :: acc) c0' Hhi Gt HD ltac:(lia)) as (c0'' & Hs & Hc).
    exists c0''. split; [exact Hs|]. destruct Hc as [->|[Hp _]]; [exact Hc0'|lia].
Qed.

Lemma set_c0_view : forall P f A D c0',
  fview P f A D -> (c0' = f_c0 f \/ exists r t, A = r :: t /\ c0' = Some (c_lenw (r_cell r))) ->
  fview P (set_c0 f c0') A D.
Proof.
  intros P f A D c0' V H. destruct V as [V1 V2 V3 V4 V5 V6 V7]. constructor; auto.
  cbn [set_c0 f_c0]. destruct H as [->|(r & t & -> & ->)]; [exact V7|eauto].
Qed.

Lemma set_c0_entries : forall f c, file_entries (set_c0 f c) = file_entries f.
Proof. reflexivity. Qed.

Lemma skipn_app_le : forall {T} k (a b : list T), (k <= length a)%nat -> skipn k (a ++ b) = skipn k a ++ b.
Proof. intros T k a b H. rewrite skipn_app. replace (k - length a)%nat with 0%nat by lia. reflexivity. Qed.

Lemma scan_file_spec : forall P hi max f A D p size acc,
  fview P f A D -> (p <= length A)%nat -> 1 <= hi ->
  exists f',
    scan_file P hi max f (N.of_nat p) size acc
    = (fst (fst (take_scan hi max size acc (map row_entry (skipn p A)))),
       snd (fst (take_scan hi max size acc (map row_entry (skipn p A)))),
       snd (take_scan hi max size acc (map row_entry (skipn p A))), f')
    /\ fview P f' A D /\ f_rows f' = f_rows f.
Proof.
  intros P hi max f A D p size acc V Hp Hhi. unfold scan_file.
  rewrite (fv_asc _ _ _ _ V), Nat2N.id, skipn_app_le by exact Hp.
  assert (HG : Forall (good (f_size f)) (skipn p A)).
  { pose proof (fv_good _ _ _ _ V) as G. rewrite Forall_forall in *. intros x Hx. apply G.
    rewrite <- (firstn_skipn p A). apply in_or_app. now right. }
  assert (Hc : N.of_nat p = 0 -> c0ok (f_c0 f) (skipn p A)).
  { intro E. assert (p = 0)%nat by lia. subst p. cbn [skipn]. exact (fv_c0 _ _ _ _ V). }
  destruct (scan_rows_spec P (f_size f) hi max (skipn p A) D (N.of_nat p) size acc (f_c0 f) Hhi HG (fv_dead _ _ _ _ V) Hc)
    as (c0' & Hs & Hc0').
  rewrite Hs. eexists. split; [reflexivity|]. split; [|reflexivity].
  apply set_c0_view; [exact V|]. destruct Hc0' as [->|[E (r & t & Hr & ->)]]; [now left|right].
  assert (p = 0)%nat by lia. subst p. cbn [skipn] in Hr. eauto.
Qed.

(* ---- a run of rotated files ---- *)

Definition ts3 (x : scan_status * N * list entry) := (fst (fst x), snd (fst x), snd x).
Lemma ts3_id : forall x, ts3 x = x. Proof. intros [[a b] c]. reflexivity. Qed.

Lemma scan_files_spec : forall P hi max fs i size acc,
  chain P i fs -> 1 <= hi ->
  exists fs',
    scan_files P hi max fs size acc
    = (fst (fst (take_scan hi max size acc (concat (map file_entries fs)))),
       snd (fst (take_scan hi max size acc (concat (map file_entries fs)))),
       snd (take_scan hi max size acc (concat (map file_entries fs))), fs')
    /\ chain P i fs' /\ map file_entries fs' = map file_entries fs /\ map f_rows fs' = map f_rows fs.
Proof.
  intros P hi max fs. induction fs as [|f t IH]; intros i size acc Hc Hhi.
  - exists []. cbn. repeat split.
  - cbn [chain] in Hc. destruct Hc as (A & D & V & HA & C & R).
    destruct (scan_file_spec P hi max f A D 0%nat size acc V (Nat.le_0_l _) Hhi) as (f' & Hs & V' & R').
    cbn [skipn N.of_nat] in Hs. cbn [scan_files map concat]. rewrite Hs.
    rewrite (fv_entries P f A D V). rewrite take_scan_app.
    destruct (take_scan hi max size acc (map row_entry A)) as [[st sz] ac] eqn:ET. cbn [fst snd].
    assert (Hfe : file_entries f' = file_entries f) by (rewrite (fv_entries P f' A D V'), (fv_entries P f A D V); reflexivity).
    destruct st.
    + exists (f' :: t). cbn [fst snd]. split; [reflexivity|]. split; [|split].
      * cbn [chain]. exists A, D. auto.
      * cbn [map]. rewrite (fv_entries P f' A D V'). try rewrite (fv_entries P f A D V). reflexivity.
      * cbn [map]. now rewrite R'.
    + destruct (IH (i + N.of_nat (length A)) sz ac R Hhi) as (t' & Ht & Rt & Mt & Rw).
      rewrite Ht. exists (f' :: t'). split; [reflexivity|]. split; [|split].
      * cbn [chain]. exists A, D. auto.
      * cbn [map]. rewrite (fv_entries P f' A D V'), Mt. try rewrite (fv_entries P f A D V). reflexivity.
      * cbn [map]. now rewrite R', Rw.
Qed.

Lemma chain_locate : forall P fs i0 lo,
  chain P i0 fs -> i0 <= lo -> lo < i0 + flen fs ->
  exists pre f post A D, fs = pre ++ f :: post /\ fview P f A D
                         /\ i0 + flen pre <= lo /\ lo < i0 + flen pre + N.of_nat (length A).
Proof.
  intros P fs. induction fs as [|f t IH]; intros i0 lo Hc Hlo Hhi.
  - rewrite flen_nil in Hhi. lia.
  - cbn [chain] in Hc. destruct Hc as (A & D & V & HA & C & R).
    rewrite (flen_cons P f A D t V) in Hhi.
    destruct (lo <? i0 + N.of_nat (length A)) eqn:E.
    + exists [], f, t, A, D. rewrite flen_nil. cbn [app]. split; [reflexivity|]. split; [exact V|]. split; lia.
    + destruct (IH (i0 + N.of_nat (length A)) lo R ltac:(lia) ltac:(lia)) as (pre & g & post & A' & D' & -> & V' & H1 & H2).
      exists (f :: pre), g, post, A', D'. rewrite (flen_cons P f A D pre V). cbn [app]. split; [reflexivity|]. split; [exact V'|]. split; lia.
Qed.

Lemma log_of_eq : forall d, log_of d = concat (map file_entries (d_files d)) ++ file_entries (d_cur d).
Proof. intro d. unfold log_of. apply log_of_snoc. Qed.

Lemma flen_length : forall fs, flen fs = N.of_nat (length (concat (map file_entries fs))).
Proof. reflexivity. Qed.

(* ---- the whole disk ---- *)

Lemma flen_map : forall a b, map file_entries a = map file_entries b -> flen a = flen b.
Proof. intros a b H. unfold flen. now rewrite H. Qed.

Lemma all_live_rows : forall f g, f_rows g = f_rows f -> all_live f -> all_live g.
Proof. intros f g H. unfold all_live. now rewrite H. Qed.

Lemma Forall_all_live_rows : forall a b, map f_rows a = map f_rows b -> Forall all_live b -> Forall all_live a.
Proof.
  induction a as [|x a IH]; intros [|y b] H Hb; try discriminate; [constructor|].
  cbn [map] in H. injection H as H1 H2. inversion Hb; subst. constructor; [now apply (all_live_rows y)|now apply (IH b)].
Qed.

Lemma dinv_replace : forall P i0 d Ac fs' c',
  dinv P i0 d Ac -> chain P i0 fs' -> map file_entries fs' = map file_entries (d_files d) ->
  map f_rows fs' = map f_rows (d_files d) -> fview P c' Ac [] ->
  dinv P i0 (mkdisk fs' c' (d_next d) (d_meta d)) Ac
  /\ log_of (mkdisk fs' c' (d_next d) (d_meta d)) = log_of d.
Proof.
  intros P i0 d Ac fs' c' (H1 & Hch & V & C & Hn & HKl) Hch' Hm Hr V'. split.
  - unfold dinv. cbn [d_files d_cur d_next]. rewrite (flen_map _ _ Hm). repeat (split; [assumption|]).
    intro E. apply (Forall_all_live_rows _ _ Hr). now apply HKl.
  - rewrite !log_of_eq. cbn [d_files d_cur]. rewrite Hm, (fv_entries P c' Ac [] V'), (fv_entries P (d_cur d) Ac [] V). reflexivity.
Qed.

Lemma rev_append_nil : forall (l : list entry), rev_append l [] = rev l.
Proof. intro l. rewrite rev_append_rev. apply app_nil_r. Qed.

Lemma skipn_map_row : forall k (A : list row), skipn k (map row_entry A) = map row_entry (skipn k A).
Proof. intros. apply skipn_map. Qed.

Lemma all_entries_spec : forall P lo hi max d i0 Ac,
  dinv P i0 d Ac -> 1 <= hi -> i0 <= lo ->
  exists d',
    all_entries P lo hi max d = (rev (snd (take_scan hi max 0 [] (skipn (N.to_nat (lo - i0)) (log_of d)))), d')
    /\ dinv P i0 d' Ac /\ log_of d' = log_of d /\ d_meta d' = d_meta d /\ d_next d' = d_next d.
Proof.
  intros P lo hi max d i0 Ac I Hhi Hlo.
  pose proof I as (H1 & Hch & V & C & Hn & HKl).
  set (c0 := i0 + flen (d_files d)) in *.
  assert (Hlog : log_of d = concat (map file_entries (d_files d)) ++ map row_entry Ac)
    by (rewrite log_of_eq, (fv_entries P (d_cur d) Ac [] V); reflexivity).
  destruct (lo <? c0) eqn:Ecur.
  - (* the range starts in a rotated file *)
    destruct (chain_locate P (d_files d) i0 lo Hch Hlo ltac:(unfold c0 in Ecur; lia))
      as (pre & f & post & A & D & Hf & Vf & Hfi1 & Hfi2).
    set (fi := i0 + flen pre) in *.
    rewrite Hf in Hch. apply chain_app in Hch as [Hpre Hrest]. cbn [chain] in Hrest.
    destruct Hrest as (A' & D' & V' & HA' & C' & Hpost). fold fi in C', Hpost.
    assert (EA : length A' = length A).
    { pose proof (fv_entries P f A D Vf) as E1. pose proof (fv_entries P f A' D' V') as E2.
      rewrite E1 in E2. apply (f_equal (@length _)) in E2. now rewrite !map_length in E2. }
    unfold all_entries. rewrite (slot_ge_old P d i0 Ac I pre f post A D lo Hf Vf Hfi1 Hfi2). fold fi.
    rewrite Hf. rewrite firstn_app, firstn_all, Nat.sub_diag. cbn [firstn]. rewrite app_nil_r.
    rewrite skipn_app, skipn_all, Nat.sub_diag. cbn [skipn app].
    set (p := N.to_nat (lo - fi)).
    assert (Hp : lo - fi = N.of_nat p) by (unfold p; lia). rewrite Hp.
    destruct (scan_file_spec P hi max f A' D' p 0 [] V' ltac:(unfold p; lia) Hhi) as (f' & Hs & Vf' & Rf').
    rewrite Hs.
    (* the stream of entries from lo on *)
    assert (Hstream : skipn (N.to_nat (lo - i0)) (log_of d)
                      = map row_entry (skipn p A') ++ concat (map file_entries post) ++ map row_entry Ac).
    { rewrite Hlog, Hf, map_app, concat_app. cbn [map concat]. rewrite (fv_entries P f A' D' V'), <- !app_assoc.
      rewrite skipn_app.
      assert (Hlp : length (concat (map file_entries pre)) = N.to_nat (flen pre)) by (unfold flen; lia).
      rewrite skipn_all2 by (rewrite Hlp; unfold fi in *; lia). cbn [app].
      replace (N.to_nat (lo - i0) - length (concat (map file_entries pre)))%nat with p by (rewrite Hlp; unfold p, fi; lia).
      rewrite skipn_app_le by (rewrite map_length; unfold p; lia). now rewrite skipn_map_row. }
    rewrite Hstream, take_scan_app.
    destruct (take_scan hi max 0 [] (map row_entry (skipn p A'))) as [[st1 sz1] ac1] eqn:ET1. cbn [fst snd].
    assert (Hm1 : forall post', map file_entries post' = map file_entries post ->
                   map file_entries (pre ++ f' :: post') = map file_entries (d_files d)).
    { intros post' Hm. rewrite Hf, !map_app. cbn [map]. rewrite Hm, (fv_entries P f' A' D' Vf'), (fv_entries P f A' D' V'). reflexivity. }
    assert (Hr1 : forall post', map f_rows post' = map f_rows post ->
                   map f_rows (pre ++ f' :: post') = map f_rows (d_files d)).
    { intros post' Hm. rewrite Hf, !map_app. cbn [map]. now rewrite Hm, Rf'. }
    assert (Hc1 : forall post', chain P (fi + N.of_nat (length A')) post' -> chain P i0 (pre ++ f' :: post')).
    { intros post' Hc. apply chain_app. split; [exact Hpre|]. cbn [chain]. fold fi. exists A', D'. auto. }
    destruct st1.
    + destruct (dinv_replace P i0 d Ac (pre ++ f' :: post) (d_cur d) I (Hc1 post Hpost) (Hm1 post eq_refl) (Hr1 post eq_refl) V) as [I' L'].
      eexists. split; [rewrite rev_append_nil; reflexivity|]. auto.
    + destruct (scan_files_spec P hi max post (fi + N.of_nat (length A')) sz1 ac1 Hpost Hhi) as (post' & Hs2 & Hpost' & Hm2 & Hr2).
      rewrite Hs2. rewrite take_scan_app.
      destruct (take_scan hi max sz1 ac1 (concat (map file_entries post))) as [[st2 sz2] ac2] eqn:ET2. cbn [fst snd].
      destruct st2.
      * destruct (dinv_replace P i0 d Ac (pre ++ f' :: post') (d_cur d) I (Hc1 post' Hpost') (Hm1 post' Hm2) (Hr1 post' Hr2) V) as [I' L'].
        eexists. split; [rewrite rev_append_nil; reflexivity|]. auto.
      * destruct (scan_file_spec P hi max (d_cur d) Ac [] 0%nat sz2 ac2 V (Nat.le_0_l _) Hhi) as (c' & Hs3 & Vc' & _).
        cbn [skipn N.of_nat] in Hs3. rewrite Hs3.
        destruct (dinv_replace P i0 d Ac (pre ++ f' :: post') c' I (Hc1 post' Hpost') (Hm1 post' Hm2) (Hr1 post' Hr2) Vc') as [I' L'].
        eexists. split; [rewrite rev_append_nil; reflexivity|]. auto.
  - (* the range starts in the current file (or beyond the end) *)
    assert (Hstream : skipn (N.to_nat (lo - i0)) (log_of d) = map row_entry (skipn (N.to_nat (lo - c0)) Ac)).
    { rewrite Hlog, skipn_app.
      assert (Hlp : length (concat (map file_entries (d_files d))) = N.to_nat (flen (d_files d))) by (unfold flen; lia).
      rewrite skipn_all2 by (rewrite Hlp; unfold c0 in *; lia). cbn [app].
      replace (N.to_nat (lo - i0) - length (concat (map file_entries (d_files d))))%nat with (N.to_nat (lo - c0))
        by (rewrite Hlp; unfold c0; lia).
      apply skipn_map_row. }
    rewrite Hstream.
    assert (Hcase : (Ac = [] /\ d_files d <> []) \/ (Ac = [] -> d_files d = [])).
    { destruct (nil_or_not Ac) as [E1|E1]; [|right; congruence].
      destruct (nil_or_not (d_files d)) as [E2|E2]; [right; auto|left; auto]. }
    destruct Hcase as [[EA0 Ef0]|He].
    { (* the current file is empty but older files exist: the search ends in the newest rotated file, behind its last
         entry; nothing is read *)
      destruct (exists_last Ef0) as (pre & f & Hf).
      destruct (slot_ge_files_beyond P d i0 Ac I EA0 pre f lo Hf ltac:(fold c0; lia)) as (A & D & Vf & HAf & Cf & Hsg).
      unfold all_entries. rewrite Hsg, Hf, firstn_app, firstn_all, Nat.sub_diag. cbn [firstn]. rewrite app_nil_r.
      rewrite skipn_app, skipn_all, Nat.sub_diag. cbn [skipn app].
      destruct (scan_file_spec P hi max f A D (length A) 0 [] Vf (le_n _) Hhi) as (f' & Hs & Vf' & Rf').
      rewrite Hs, skipn_all. cbn [map take_scan fst snd scan_files].
      destruct (scan_file_spec P hi max (d_cur d) Ac [] 0%nat 0 [] V (Nat.le_0_l _) Hhi) as (c' & Hs3 & Vc' & _).
      cbn [skipn N.of_nat] in Hs3. rewrite Hs3. rewrite EA0. rewrite !skipn_nil. cbn [map take_scan fst snd rev_append rev].
      assert (Hch' : chain P i0 (pre ++ [f'])).
      { rewrite Hf in Hch. apply chain_app in Hch as [Hpre _]. apply chain_app. split; [exact Hpre|]. cbn [chain]. exists A, D. auto. }
      assert (Hm : map file_entries (pre ++ [f']) = map file_entries (d_files d)).
      { rewrite Hf, !map_app. cbn [map]. now rewrite (fv_entries P f' A D Vf'), (fv_entries P f A D Vf). }
      assert (Hr : map f_rows (pre ++ [f']) = map f_rows (d_files d)) by (rewrite Hf, !map_app; cbn [map]; now rewrite Rf').
      destruct (dinv_replace P i0 d Ac (pre ++ [f']) c' I Hch' Hm Hr Vc') as [I' L'].
      rewrite EA0 in I'. eexists. split; [reflexivity|]. auto. }
    assert (Hsel : exists p, (p <= length Ac)%nat /\ skipn p Ac = skipn (N.to_nat (lo - c0)) Ac
                             /\ (slot_ge P d lo = (InCur, Some (N.of_nat p)) \/ (p = 0%nat /\ slot_ge P d lo = (InCur, None)))).
    { destruct (nil_or_not Ac) as [EA|EA].
      - exists 0%nat. rewrite EA. split; [cbn; lia|]. split; [now rewrite !skipn_nil|]. right. split; [reflexivity|].
        exact (slot_ge_empty P d i0 Ac I EA (He EA) lo).
      - destruct (lo <? c0 + N.of_nat (length Ac)) eqn:E2.
        + exists (N.to_nat (lo - c0)). split; [lia|]. split; [reflexivity|]. left.
          rewrite (slot_ge_cur_inside P d i0 Ac I lo) by (fold c0; lia). fold c0. f_equal. f_equal. lia.
        + exists (length Ac). split; [lia|]. split; [rewrite !skipn_all2 by lia; reflexivity|]. left.
          now rewrite (slot_ge_cur_beyond P d i0 Ac I lo EA) by (fold c0; lia). }
    destruct Hsel as (p & Hp & Hsk & Hsel).
    destruct (scan_file_spec P hi max (d_cur d) Ac [] p 0 [] V Hp Hhi) as (c' & Hs & Vc' & _).
    assert (Hres : all_entries P lo hi max d
                   = (rev_append (snd (take_scan hi max 0 [] (map row_entry (skipn p Ac)))) [],
                      mkdisk (d_files d) c' (d_next d) (d_meta d))).
    { unfold all_entries. destruct Hsel as [->|[E0 ->]]; [rewrite Hs; reflexivity|]. subst p. cbn [N.of_nat] in Hs. rewrite Hs. reflexivity. }
    rewrite Hres, rev_append_nil, Hsk.
    destruct (dinv_replace P i0 d Ac (d_files d) c' I Hch eq_refl eq_refl Vc') as [I' L'].
    eexists. split; [reflexivity|]. auto.
Qed.
