(* C17, thorough tier only: the exhaustive small-scope check of Props.v one level deeper (338117 histories). *)
From Coq Require Import NArith List Bool.
From OG Require Import C17.Model C17.Corr C17.Scope.
Open Scope N_scope.
Example C17_refines_small_scope_5 : explore VRepaired tiny_params 5 (empty_disk tiny_params) empty_alog = true.
Proof. vm_compute. reflexivity. Qed.
