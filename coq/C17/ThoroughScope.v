(* C17: the deeper exhaustive checks, compiled by the thorough tier only. *)
From Coq Require Import NArith List Bool.
From OG Require Import C17.Model C17.Corr C17.Scope.
Open Scope N_scope.
Example C17_refines_small_scope_5 : explore VZeroSlots tiny_params 5 (empty_disk tiny_params) empty_alog = true.
Proof. vm_compute. reflexivity. Qed.
Example C17_faults_small_scope_3 : explore_f VZeroSlots tiny_params 3 (empty_disk tiny_params) empty_alog = true.
Proof. vm_compute. reflexivity. Qed.
