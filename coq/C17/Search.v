(* C17: correctness of the slot search (logFile.slotGe, entryLog.slotGe) under the invariant: every file is a run of
   strictly consecutive indexes, files are ordered without gaps. *)
From Coq Require Import NArith PeanoNat List Bool Lia ZifyBool ZifyN ZifyNat.
From OG Require Import C17.Model C17.Proofs C17.Refine C17.Inv.
Import ListNotations.
Open Scope N_scope.

Lemma consec_idx : forall A i k, consec i (map row_entry A) -> (k < length A)%nat ->
  s_index (r_slot (nth k A zero_row)) = i + N.of_nat k.
Proof.
  intros A i k H Hk.
  assert (Hn : nth_error (map row_entry A) k = Some (row_entry (nth k A zero_row))).
  { rewrite nth_error_map. rewrite (nth_error_nth' A zero_row Hk). reflexivity. }
  pose proof (consec_nth _ _ _ _ H Hn) as E. exact E.
Qed.

Lemma find_pos_fail_app : forall pred A D p,
  Forall (fun r => pred (r_slot r) = false) A -> find_pos pred (A ++ D) p = find_pos pred D (p + N.of_nat (length A)).
Proof.
  induction A as [|a t IH]; intros D p H; cbn [app length find_pos].
  - f_equal. lia.
  - inversion H as [|? ? Ha Ht]; subst. rewrite Ha, IH by exact Ht. f_equal. lia.
Qed.

Lemma nil_or_not : forall {T} (l : list T), l = [] \/ l <> [].
Proof. intros T [|x l]; [left; reflexivity|right; discriminate]. Qed.

Lemma length_pos_ne : forall {T} (l : list T), l <> [] -> (0 < length l)%nat.
Proof. intros T [|x l] H; [congruence|cbn; lia]. Qed.

Section OneFile.
  Variable P : params.
  Variables (f : file) (A D : list row) (i0 : N).
  Hypothesis V : fview P f A D.
  Hypothesis C : consec i0 (map row_entry A).
  Hypothesis Hi0 : 1 <= i0.

  Lemma view_first_empty : A = [] -> file_first f = 0.
  Proof.
    intros ->. unfold file_first. change 0 with (N.of_nat 0) at 1. apply (fv_row_at_beyond P f [] D 0 V). cbn. lia.
  Qed.

  Lemma view_first : A <> [] -> file_first f = i0.
  Proof.
    intros HA. unfold file_first, slot_at. change 0 with (N.of_nat 0) at 1.
    pose proof (length_pos_ne A HA).
    rewrite (fv_row_at_live P f A D 0 V) by lia.
    rewrite (consec_idx A i0 0 C) by lia. lia.
  Qed.

  Lemma view_index : forall k, (k < length A)%nat -> s_index (slot_at f (N.of_nat k)) = i0 + N.of_nat k.
  Proof.
    intros k Hk. unfold slot_at. rewrite (fv_row_at_live P f A D k V Hk). now apply consec_idx.
  Qed.

  Lemma view_len_max : N.of_nat (length A) <= max_entries P.
  Proof. pose proof (fv_max _ _ _ _ V). pose proof (fv_n _ _ _ _ V) as Hn. rewrite app_length in Hn. lia. Qed.

  Lemma file_slot_ge_empty : A = [] -> forall i, file_slot_ge P f i = None.
  Proof. intros HA i. unfold file_slot_ge. rewrite (view_first_empty HA). reflexivity. Qed.

  Lemma file_slot_ge_below : forall i, i < i0 -> file_slot_ge P f i = None.
  Proof.
    intros i Hi. destruct (nil_or_not A) as [EA|EA]; [now apply file_slot_ge_empty|].
    unfold file_slot_ge. rewrite (view_first EA).
    destruct (i0 =? 0) eqn:E0; [reflexivity|]. destruct (i <? i0) eqn:E1; [reflexivity|lia].
  Qed.

  Lemma file_slot_ge_inside : forall i, A <> [] -> i0 <= i -> i < i0 + N.of_nat (length A) ->
    file_slot_ge P f i = Some (i - i0).
  Proof.
    intros i HA Hlo Hhi. unfold file_slot_ge. rewrite (view_first HA).
    destruct (i0 =? 0) eqn:E0; [lia|]. destruct (i <? i0) eqn:E1; [lia|]. cbn [orb].
    pose proof view_len_max.
    assert (Hk : i - i0 = N.of_nat (N.to_nat (i - i0))) by lia.
    rewrite Hk. rewrite view_index by lia.
    destruct (N.of_nat (N.to_nat (i - i0)) <? max_entries P) eqn:E2; [|lia].
    destruct (i0 + N.of_nat (N.to_nat (i - i0)) =? i) eqn:E3; [reflexivity|lia].
  Qed.

  Lemma search_beyond : forall i, i0 + N.of_nat (length A) <= i ->
    search_slots P f (fun s => (s_index s =? 0) || (i <=? s_index s)) = N.of_nat (length A).
  Proof.
    intros i Hi. unfold search_slots. rewrite (fv_asc _ _ _ _ V).
    pose proof view_len_max as HM. pose proof (fv_n _ _ _ _ V) as Hn. pose proof (fv_dead _ _ _ _ V) as HD.
    rewrite find_pos_fail_app.
    - destruct D as [|d D'].
      + cbn [find_pos]. unfold nrows. rewrite Hn, app_nil_r.
        cbn [zero_slot s_index]. cbn [N.eqb orb].
        destruct (N.of_nat (length A) <? max_entries P) eqn:E; cbn [andb]; lia.
      + cbn [find_pos]. inversion HD as [|? ? [Hd _] _]; subst.
        rewrite Hd. cbn [N.eqb orb]. lia.
    - apply Forall_forall. intros r Hr. destruct (In_nth _ _ zero_row Hr) as (k & Hk & <-).
      rewrite (consec_idx A i0 k C Hk).
      destruct (i0 + N.of_nat k =? 0) eqn:E1; [lia|]. destruct (i <=? i0 + N.of_nat k) eqn:E2; [lia|reflexivity].
  Qed.

  Lemma file_slot_ge_beyond : forall i, A <> [] -> i0 + N.of_nat (length A) <= i ->
    file_slot_ge P f i = Some (N.of_nat (length A)).
  Proof.
    intros i HA Hi. unfold file_slot_ge. rewrite (view_first HA).
    destruct (i0 =? 0) eqn:E0; [lia|]. destruct (i <? i0) eqn:E1; [lia|]. cbn [orb].
    rewrite search_beyond by exact Hi.
    assert (Hk : i - i0 = N.of_nat (N.to_nat (i - i0))) by lia.
    rewrite Hk. rewrite (fv_row_at_beyond P f A D _ V) by lia.
    destruct (0 =? i) eqn:E3; [lia|]. now rewrite andb_false_r.
  Qed.

  (* firstEmptySlot = number of live rows *)
  Lemma first_empty_view : first_empty_slot P f = N.of_nat (length A).
  Proof.
    unfold first_empty_slot, search_slots. rewrite (fv_asc _ _ _ _ V).
    pose proof view_len_max as HM. pose proof (fv_n _ _ _ _ V) as Hn. pose proof (fv_dead _ _ _ _ V) as HD.
    rewrite find_pos_fail_app.
    - destruct D as [|d D'].
      + cbn [find_pos]. unfold nrows. rewrite Hn, app_nil_r.
        cbn [zero_slot s_index N.eqb]. destruct (N.of_nat (length A) <? max_entries P) eqn:E; cbn [andb]; lia.
      + cbn [find_pos]. inversion HD as [|? ? [Hd _] _]; subst.
        rewrite Hd. cbn [N.eqb]. lia.
    - apply Forall_forall. intros r Hr. pose proof (fv_good _ _ _ _ V) as G. rewrite Forall_forall in G.
      destruct (G r Hr) as (G1 & _). destruct (s_index (r_slot r) =? 0) eqn:E; [lia|reflexivity].
  Qed.
End OneFile.

(* ---- all files ---- *)

Fixpoint chain (P : params) (i : N) (fs : list file) : Prop :=
  match fs with
  | [] => True
  | f :: t => exists A D, fview P f A D /\ A <> [] /\ consec i (map row_entry A)
                          /\ chain P (i + N.of_nat (length A)) t
  end.

Definition flen (fs : list file) : N := N.of_nat (length (concat (map file_entries fs))).

Lemma flen_cons : forall P f A D t, fview P f A D -> flen (f :: t) = N.of_nat (length A) + flen t.
Proof.
  intros P f A D t V. unfold flen. cbn [map concat]. rewrite app_length, (fv_entries P f A D V), map_length. lia.
Qed.

Lemma flen_nil : flen [] = 0.
Proof. reflexivity. Qed.

Lemma chain_app : forall P a b i, chain P i (a ++ b) <-> chain P i a /\ chain P (i + flen a) b.
Proof.
  induction a as [|f t IH]; intros b i; cbn [app chain].
  - rewrite flen_nil, N.add_0_r. tauto.
  - split.
    + intros (A & D & V & HA & C & R). apply IH in R as [R1 R2]. split; [exists A, D; auto|].
      rewrite (flen_cons P f A D t V). now rewrite N.add_assoc.
    + intros [(A & D & V & HA & C & R1) R2]. exists A, D. split; [exact V|]. split; [exact HA|]. split; [exact C|].
      apply IH. split; [exact R1|].
      rewrite (flen_cons P f A D t V) in R2. now rewrite N.add_assoc in R2.
Qed.

(* the disk invariant between operations; [Ac] are the rows of the current file, [i0] the first index of the log *)
Definition dinv (P : params) (i0 : N) (d : disk) (Ac : list row) : Prop :=
  1 <= i0 /\ chain P i0 (d_files d) /\ fview P (d_cur d) Ac []
  /\ consec (i0 + flen (d_files d)) (map row_entry Ac)
  /\ d_next d = N.of_nat (length Ac)
  (* an empty current file beside older files (left behind by a failed Save): those files hold no dead slot *)
  /\ (Ac = [] -> Forall all_live (d_files d)).

Lemma find_file_skip : forall P pre rest i0 i k, chain P i0 pre -> 1 <= i0 -> i0 + flen pre <= i ->
  find_file i (pre ++ rest) k = find_file i rest (k + length pre)%nat.
Proof.
  induction pre as [|f t IH]; intros rest i0 i k Hc H1 Hi; cbn [app length find_file].
  - f_equal. lia.
  - destruct Hc as (A & D & V & HA & C & R).
    rewrite (view_first P f A D i0 V C H1 HA).
    rewrite (flen_cons P f A D t V) in Hi. pose proof (length_pos_ne A HA).
    destruct (i <=? i0) eqn:E; [lia|].
    rewrite (IH rest (i0 + N.of_nat (length A)) i (S k) R) by lia. f_equal. lia.
Qed.

Section SlotGe.
  Variable P : params.
  Variables (d : disk) (i0 : N) (Ac : list row).
  Hypothesis I : dinv P i0 d Ac.

  Let c0 := i0 + flen (d_files d).

  Lemma slot_ge_cur_inside : forall i, c0 <= i -> i < c0 + N.of_nat (length Ac) ->
    slot_ge P d i = (InCur, Some (i - c0)).
  Proof.
    intros i Hlo Hhi. destruct I as (H1 & Hch & V & C & Hn & HKl).
    unfold slot_ge. assert (HA : Ac <> []) by (intro E; rewrite E in Hhi; cbn in Hhi; lia).
    rewrite (file_slot_ge_inside P (d_cur d) Ac [] c0 V C ltac:(unfold c0; lia) i HA Hlo Hhi). reflexivity.
  Qed.

  Lemma slot_ge_cur_beyond : forall i, Ac <> [] -> c0 + N.of_nat (length Ac) <= i ->
    slot_ge P d i = (InCur, Some (N.of_nat (length Ac))).
  Proof.
    intros i HA Hi. destruct I as (H1 & Hch & V & C & Hn & HKl).
    unfold slot_ge. rewrite (file_slot_ge_beyond P (d_cur d) Ac [] c0 V C ltac:(unfold c0; lia) i HA Hi). reflexivity.
  Qed.

  Lemma slot_ge_empty : Ac = [] -> d_files d = [] -> forall i, slot_ge P d i = (InCur, None).
  Proof.
    intros HA Hf i. destruct I as (H1 & Hch & V & C & Hn & HKl).
    unfold slot_ge. rewrite (file_slot_ge_empty P (d_cur d) Ac [] c0 V C ltac:(unfold c0; lia) HA i). now rewrite Hf.
  Qed.

  (* the current file is empty but older files exist (the state a failed first write into a fresh file, or a failed
     Save that had cleared the current file from slot 0, leaves behind): an index beyond the log is looked up in the
     newest rotated file and answered with its first empty slot *)
  Lemma slot_ge_files_beyond : Ac = [] -> forall pre f i, d_files d = pre ++ [f] -> c0 <= i ->
    exists A D, fview P f A D /\ A <> [] /\ consec (i0 + flen pre) (map row_entry A)
                /\ slot_ge P d i = (InOld (length pre), Some (N.of_nat (length A))).
  Proof.
    intros HA pre f i Hf Hi. destruct I as (H1 & Hch & V & C & Hn & HKl).
    pose proof Hch as Hch0.
    rewrite Hf in Hch. apply chain_app in Hch as [Hpre Hrest]. cbn [chain] in Hrest.
    destruct Hrest as (A & D & Vf & HAf & Cf & _). exists A, D. repeat (split; [assumption|]).
    set (fi := i0 + flen pre) in *.
    assert (Hc0 : c0 = fi + N.of_nat (length A)).
    { unfold c0, fi. rewrite Hf. unfold flen. rewrite map_app, concat_app, app_length. cbn [map concat].
      rewrite app_nil_r, (fv_entries P f A D Vf), map_length. lia. }
    unfold slot_ge. rewrite (file_slot_ge_empty P (d_cur d) Ac [] c0 V C ltac:(unfold c0; lia) HA i).
    assert (Hfind : find_file i (pre ++ [f]) 0 = length (pre ++ [f])).
    { rewrite <- (app_nil_r (pre ++ [f])) at 1. rewrite <- Hf.
      rewrite (find_file_skip P (d_files d) [] i0 i 0 Hch0 H1) by (fold c0; lia). reflexivity. }
    rewrite Hf. destruct (pre ++ [f]) eqn:Enil; [destruct pre; discriminate|]. rewrite <- Enil in *. clear Enil.
    rewrite Hfind, Nat.ltb_irrefl. cbn [andb].
    rewrite app_length. cbn [length]. replace (Nat.pred (length pre + 1)) with (length pre) by lia.
    rewrite app_nth2 by lia. rewrite Nat.sub_diag. cbn [nth].
    rewrite (file_slot_ge_beyond P f A D fi Vf Cf ltac:(unfold fi; lia) i HAf) by lia. reflexivity.
  Qed.

  Lemma slot_ge_below_nofiles : d_files d = [] -> forall i, i < i0 -> slot_ge P d i = (InCur, None).
  Proof.
    intros Hf i Hi. destruct I as (H1 & Hch & V & C & Hn & HKl).
    unfold slot_ge. rewrite (file_slot_ge_below P (d_cur d) Ac [] c0 V C ltac:(unfold c0; lia) i) by (unfold c0; lia). now rewrite Hf.
  Qed.

  Lemma slot_ge_old : forall pre f post A D i,
    d_files d = pre ++ f :: post -> fview P f A D ->
    i0 + flen pre <= i -> i < i0 + flen pre + N.of_nat (length A) ->
    slot_ge P d i = (InOld (length pre), Some (i - (i0 + flen pre))).
  Proof.
    intros pre f post A D i Hf Vf Hlo Hhi. destruct I as (H1 & Hch & V & C & Hn & HKl).
    rewrite Hf in Hch. apply chain_app in Hch as [Hpre Hrest]. cbn [chain] in Hrest.
    destruct Hrest as (A' & D' & V' & HA' & C' & Hpost).
    assert (EA : length A' = length A).
    { pose proof (fv_entries P f A D Vf) as E1. pose proof (fv_entries P f A' D' V') as E2.
      rewrite E1 in E2. apply (f_equal (@length _)) in E2. now rewrite !map_length in E2. }
    rewrite EA in *.
    set (fi := i0 + flen pre) in *.
    assert (Hc0 : fi + N.of_nat (length A) <= c0).
    { unfold c0, fi. rewrite Hf. unfold flen. rewrite map_app, concat_app, app_length. cbn [map concat].
      rewrite app_length, (fv_entries P f A D Vf), map_length. lia. }
    unfold slot_ge.
    rewrite (file_slot_ge_below P (d_cur d) Ac [] c0 V C ltac:(unfold c0; lia) i) by lia.
    rewrite Hf. destruct (pre ++ f :: post) eqn:Enil; [destruct pre; discriminate|]. rewrite <- Enil. clear Enil.
    rewrite (find_file_skip P pre (f :: post) i0 i 0 Hpre H1) by (fold fi; lia).
    cbn [find_file Nat.add]. rewrite (view_first P f A' D' fi V' C' ltac:(unfold fi; lia) HA').
    assert (Hnth : nth (length pre) (pre ++ f :: post) (d_cur d) = f).
    { rewrite app_nth2 by lia. rewrite Nat.sub_diag. reflexivity. }
    destruct (i <=? fi) eqn:E.
    - (* exactly the first index of this file *)
      assert (i = fi) by lia. subst i.
      assert (Hlt : Nat.ltb (length pre) (length (pre ++ f :: post)) = true)
        by (apply Nat.ltb_lt; rewrite app_length; cbn; lia).
      rewrite Hlt, Hnth, (view_first P f A' D' fi V' C' ltac:(unfold fi; lia) HA'), N.eqb_refl. cbn [andb]. now rewrite N.sub_diag.
    - assert (Hk : find_file i post (S (length pre)) = S (length pre)).
      { destruct post as [|h post']; [reflexivity|]. cbn [find_file chain] in *.
        destruct Hpost as (Ah & Dh & Vh & HAh & Ch & _).
        rewrite (view_first P h Ah Dh (fi + N.of_nat (length A)) Vh Ch ltac:(unfold fi; lia) HAh).
        destruct (i <=? fi + N.of_nat (length A)) eqn:E2; [reflexivity|lia]. }
      rewrite Hk.
      assert (Hcond : Nat.ltb (S (length pre)) (length (pre ++ f :: post))
                      && (file_first (nth (S (length pre)) (pre ++ f :: post) (d_cur d)) =? i) = false).
      { destruct post as [|h post'].
        - replace (Nat.ltb (S (length pre)) (length (pre ++ [f]))) with false; [reflexivity|].
          symmetry. apply Nat.ltb_ge. rewrite app_length. cbn. lia.
        - cbn [chain] in Hpost. destruct Hpost as (Ah & Dh & Vh & HAh & Ch & _).
          rewrite app_nth2 by lia. replace (S (length pre) - length pre)%nat with 1%nat by lia. cbn [nth].
          rewrite (view_first P h Ah Dh (fi + N.of_nat (length A)) Vh Ch ltac:(unfold fi; lia) HAh).
          destruct (fi + N.of_nat (length A) =? i) eqn:E3; [lia|]. now rewrite andb_false_r. }
      rewrite Hcond. cbn [Nat.pred]. rewrite Hnth.
      rewrite (file_slot_ge_inside P f A' D' fi V' C' ltac:(unfold fi; lia) i HA') by lia. reflexivity.
  Qed.

  Lemma slot_ge_below_files : d_files d <> [] -> forall i, i < i0 -> exists k, slot_ge P d i = (InOld k, None).
  Proof.
    intros Hf i Hi. destruct I as (H1 & Hch & V & C & Hn & HKl).
    unfold slot_ge. rewrite (file_slot_ge_below P (d_cur d) Ac [] c0 V C ltac:(unfold c0; lia) i) by (unfold c0; lia).
    destruct (d_files d) as [|f t] eqn:Ef; [congruence|]. cbn [chain] in Hch.
    destruct Hch as (A & D & Vf & HA & Cf & _).
    cbn [find_file]. rewrite (view_first P f A D i0 Vf Cf H1 HA).
    destruct (i <=? i0) eqn:E; [|lia]. cbn [length nth].
    rewrite (view_first P f A D i0 Vf Cf H1 HA). destruct (i0 =? i) eqn:E2; [lia|]. rewrite andb_false_r.
    cbn [Nat.pred nth].
    rewrite (file_slot_ge_below P f A D i0 Vf Cf H1 i Hi). eauto.
  Qed.
End SlotGe.
