(* C17: what a process that dies INSIDE one write call can leave behind, and what the next start makes of it.
   Granularity of a tear: a write that spans several pages of the file is copied page by page by the kernel and is cut
   at a page boundary by a fatal signal; a write inside one page arrives or does not.
   1. sort.Search, the binary search of firstEmptySlot / slotGe, modelled exactly ([bsearch]); on a monotone table it is
      the "first position" search the model uses ([bsearch_first]) - and every table of the invariant is monotone
      ([first_empty_bin_view]).
   2. The slot record of an entry (32 bytes at a multiple of 32) never crosses a page boundary: it is never torn. With
      arbitrary byte tears it could be: a prefix of the big-endian index is a different, non-zero index.
   3. The clearing write of a conflicting Save (ZeroSlots) can span up to 235 pages. Bottom-up in one write (today), a cut
      leaves live slots, EMPTY slots, then STALE slots: not monotone, the binary search lands behind the stale slots
      (refuted). In page-sized pieces from the top down (fix5.patch) every prefix of the operation leaves live slots
      followed by empty ones: a prefix of the old log.
   4. Removing the later files of a conflict newest first (fix4.patch) leaves a prefix of the file list at every crash
      point; oldest first (today) leaves a hole.
   5. The meta records written with one write call (fix3.patch) are old or new at every crash point; with two (hard
      state) or four (snapshot) calls there are crash points with a mixture. *)
From Coq Require Import NArith PeanoNat List Bool Lia ZifyBool ZifyN ZifyNat.
From OG Require Import C17.Model C17.Proofs C17.Refine C17.Inv C17.Search C17.ZeroSlots.
Import ListNotations.
Open Scope N_scope.

(* ---- 1. sort.Search ---- *)

(* func Search(n int, f func(int) bool) int { i, j := 0, n; for i < j { h := int(uint(i+j) >> 1); if !f(h) { i = h + 1 } else { j = h } }; return i } *)
Fixpoint bsearch_go (fuel : nat) (f : N -> bool) (i j : N) : N :=
  match fuel with
  | O => i
  | S k => if i <? j then let h := (i + j) / 2 in if f h then bsearch_go k f i h else bsearch_go k f (h + 1) j else i
  end.
Definition bsearch (n : N) (f : N -> bool) : N := bsearch_go (S (N.to_nat n)) f 0 n.

(* monotone on [0, n): false up to position k, true from there on *)
Definition mono_at (n k : N) (f : N -> bool) : Prop :=
  k <= n /\ (forall p, p < k -> f p = false) /\ (forall p, k <= p -> p < n -> f p = true).

Lemma bsearch_go_first : forall fuel f n k i j,
  mono_at n k f -> i <= k -> k <= j -> j <= n -> (N.to_nat (j - i) < fuel)%nat ->
  bsearch_go fuel f i j = k.
Proof.
  induction fuel as [|fuel IH]; intros f n k i j M Hi Hj Hn Hf; [lia|].
  cbn [bsearch_go]. destruct (i <? j) eqn:E.
  - set (h := (i + j) / 2).
    assert (Hh : i <= h /\ h < j).
    { unfold h. split; [apply N.div_le_lower_bound; lia|apply N.div_lt_upper_bound; lia]. }
    destruct M as (Mk & Mf & Mt).
    destruct (f h) eqn:Eh.
    + assert (k <= h). { destruct (N.lt_ge_cases h k) as [L|L]; [rewrite (Mf h L) in Eh; discriminate|exact L]. }
      apply (IH f n k i h); [repeat split; assumption|lia..].
    + assert (h < k). { destruct (N.lt_ge_cases h k) as [L|L]; [exact L|rewrite (Mt h L) in Eh; [discriminate|lia]]. }
      apply (IH f n k (h + 1) j); [repeat split; assumption|lia..].
  - lia.
Qed.

(* on a monotone table the binary search is the first position whose predicate holds (n if none) *)
Theorem bsearch_first : forall n k f, mono_at n k f -> bsearch n f = k.
Proof.
  intros n k f M. unfold bsearch. pose proof M as (Mk & _).
  apply (bsearch_go_first _ f n k 0 n M); lia.
Qed.

(* firstEmptySlot with the real search *)
Definition first_empty_bin (P : params) (f : file) : N :=
  bsearch (max_entries P) (fun p => s_index (slot_at f p) =? 0).

(* every file of the invariant (live rows, then dead rows, then never written slots) is a monotone table: the real
   binary search and the model's first-position search agree *)
Theorem first_empty_bin_view : forall P f A D i0,
  fview P f A D -> 1 <= i0 -> first_empty_bin P f = first_empty_slot P f.
Proof.
  intros P f A D i0 V Hi. rewrite (first_empty_view P f A D i0 V Hi). unfold first_empty_bin.
  apply bsearch_first. pose proof (view_len_max P f A D i0 V Hi) as HM.
  split; [exact HM|]. split.
  - intros p Hp. replace p with (N.of_nat (N.to_nat p)) by lia. unfold slot_at.
    rewrite (fv_row_at_live P f A D (N.to_nat p) V) by lia.
    pose proof (fv_good _ _ _ _ V) as G. rewrite Forall_forall in G.
    destruct (G (nth (N.to_nat p) A zero_row)) as (G1 & _); [apply nth_In; lia|].
    destruct (s_index (r_slot (nth (N.to_nat p) A zero_row)) =? 0) eqn:E; [lia|reflexivity].
  - intros p Hp _. replace p with (N.of_nat (N.to_nat p)) by lia.
    rewrite (fv_row_at_beyond P f A D (N.to_nat p) V) by lia. reflexivity.
Qed.

(* ---- 2. the slot record ---- *)

Definition page : N := 4096.

(* a 32-byte record at a multiple of 32 lies inside one page *)
Theorem slot_in_one_page : forall p, (entry_sz * p) / page = (entry_sz * p + entry_sz - 1) / page.
Proof.
  intro p. unfold entry_sz, page.
  replace (32 * p) with (p * 32) by lia.
  assert (H : p = 128 * (p / 128) + p mod 128) by (apply N.div_mod; lia).
  pose proof (N.mod_lt p 128 ltac:(lia)) as Hm.
  set (q := p / 128) in *. set (r := p mod 128) in *.
  rewrite H.
  replace ((128 * q + r) * 32) with (r * 32 + q * 4096) by lia.
  replace (r * 32 + q * 4096 + 32 - 1) with ((r * 32 + 31) + q * 4096) by lia.
  rewrite !N.div_add by lia. f_equal. rewrite !N.div_small by lia. reflexivity.
Qed.

(* big-endian bytes of a uint64, and back *)
Fixpoint be_bytes (k : nat) (x : N) : list N :=
  match k with O => [] | S k' => (x / 256 ^ N.of_nat k') mod 256 :: be_bytes k' x end.
Definition be_val (l : list N) : N := fold_left (fun a b => a * 256 + b) l 0.

Definition slot_enc (s : slotrec) : list N := be_bytes 8 (s_term_ s) ++ be_bytes 8 (s_index s) ++ be_bytes 8 (s_type s) ++ be_bytes 8 (s_off s).
Definition slot_dec (l : list N) : slotrec :=
  mkslot (be_val (firstn 8 l)) (be_val (firstn 8 (skipn 8 l))) (be_val (firstn 8 (skipn 16 l))) (be_val (firstn 8 (skipn 24 l))).
(* the first k bytes of the new record over the old one *)
Definition torn_bytes (k : nat) (old new : list N) : list N := firstn k new ++ skipn k old.

(* with arbitrary byte tears a slot write over an empty slot could leave a live slot with a foreign index: 15 bytes of
   the record of entry 4660 = 0x1234 decode as index 0x1200 = 4608, offset 0 *)
Example slot_byte_tear_refuted :
  let s := mkslot 7 4660 0 1048576 in
  let t := slot_dec (torn_bytes 15 (slot_enc zero_slot) (slot_enc s)) in
  s_index t = 4608 /\ s_index t <> 0 /\ s_index t <> s_index s /\ s_off t = 0.
Proof. vm_compute. repeat split; discriminate. Qed.

(* ---- 3. the clearing write ---- *)

(* bottom-up in one write, cut after the slots [lo, m): today *)
Definition clear_cut (lo m : N) (f : file) : file := zero_slots m lo f.

(* eight live slots, conflict at slot 1, the write is cut after slot 2: slots 1-2 are empty, 3-7 stale. The binary search
   answers 8 (the log "ends" at the stale entry of slot 7) while a reader finds one entry and then the hole *)
Definition tear_params := mkparams 8 512 4096.
Definition tear_file : file :=
  fold_left (fun f k => write_row k (512 + 10 * k) (mkent (k + 1) 1 0 (mkpay 6 (k + 1))) f) [0; 1; 2; 3; 4; 5; 6; 7]
            (new_file tear_params 1 false).
Example clear_cut_refuted :
  let f := clear_cut 1 3 tear_file in
  first_empty_bin tear_params tear_file = 8
  /\ first_empty_bin tear_params f = 8
  /\ first_empty_slot tear_params f = 1
  /\ map e_index (file_entries f) = [1]
  /\ s_index (slot_at f 7) = 8.
Proof. vm_compute. repeat split. Qed.

(* top-down in pieces: [cuts] are the starts of the pieces done so far, highest first; each piece clears from its start
   up to everything still written *)
Fixpoint clear_down (cuts : list N) (f : file) : file :=
  match cuts with
  | [] => f
  | m :: r => clear_down r (zero_slots (f_n f) m f)
  end.

Fixpoint descending (hi : nat) (cuts : list nat) : Prop :=
  match cuts with [] => True | m :: r => (m < hi)%nat /\ descending m r end.

Lemma last_default_irrel : forall (l : list nat) a b, l <> [] -> last l a = last l b.
Proof.
  induction l as [|x l IH]; intros a b H; [congruence|]. destruct l as [|y l']; [reflexivity|].
  change (last (x :: y :: l') a) with (last (y :: l') a). change (last (x :: y :: l') b) with (last (y :: l') b).
  apply IH. discriminate.
Qed.

Lemma last_descending_le : forall r m, descending m r -> (last r m <= m)%nat.
Proof.
  induction r as [|x r IH]; intros m H; [cbn; lia|]. destruct H as [Hx Hr]. specialize (IH x Hr).
  destruct r as [|y r']; [cbn; lia|].
  change (last (x :: y :: r') m) with (last (y :: r') m).
  rewrite (last_default_irrel (y :: r') m x) by discriminate. lia.
Qed.

(* whatever number of pieces has been done: the file is the live rows below the lowest cleared slot, nothing else *)
Theorem clear_down_view : forall P cuts f A D,
  fview P f A D -> descending (length A) cuts ->
  fview P (clear_down (map N.of_nat cuts) f) (firstn (last cuts (length A)) A) (match cuts with [] => D | _ => [] end).
Proof.
  intros P cuts. induction cuts as [|m r IH]; intros f A D V Hd.
  - cbn [map clear_down last]. now rewrite firstn_all.
  - cbn [map clear_down]. destruct Hd as [Hm Hr].
    pose proof (zero_slots_view P (f_n f) m f A D V Hm (N.le_refl _)) as V1.
    assert (Hl : length (firstn m A) = m) by (apply firstn_length_le; lia).
    specialize (IH _ (firstn m A) [] V1 ltac:(now rewrite Hl)).
    rewrite Hl in IH.
    assert (E : firstn (last r m) (firstn m A) = firstn (last (m :: r) (length A)) A).
    { rewrite firstn_firstn. f_equal. pose proof (last_descending_le r m Hr) as Hle. rewrite (Nat.min_l _ _ Hle).
      destruct r as [|x r']; [reflexivity|].
      change (last (m :: x :: r') (length A)) with (last (x :: r') (length A)).
      apply last_default_irrel. discriminate. }
    rewrite <- E. destruct r; exact IH.
Qed.

(* ---- 4. removing the later files of a conflict ---- *)

(* the files of the log, oldest first, as their entry lists; [kept] stay, [later] are to be removed. After j removals: *)
Definition removed_oldest_first {T} (j : nat) (later : list T) : list T := skipn j later.
Definition removed_newest_first {T} (j : nat) (later : list T) : list T := firstn (length later - j) later.

(* newest first: at every crash point the directory holds a prefix of the old file list *)
Theorem remove_newest_first_prefix : forall {T} (kept later : list T) j,
  exists n, kept ++ removed_newest_first j later = firstn n (kept ++ later) /\ (length kept <= n)%nat.
Proof.
  intros T kept later j. exists (length kept + (length later - j))%nat. split; [|lia].
  unfold removed_newest_first. now rewrite firstn_app_2.
Qed.

(* oldest first: after one of two removals the middle file is missing *)
Example remove_oldest_first_hole :
  let files := [[1; 2]; [3; 4]; [5; 6]] in
  concat ([[1; 2]] ++ removed_oldest_first 1 [[3; 4]; [5; 6]]) = [1; 2; 5; 6]
  /\ forall n, firstn n (concat files) <> [1; 2; 5; 6].
Proof.
  split; [reflexivity|]. intros [|[|[|[|[|[|[|n]]]]]]]; cbn; discriminate.
Qed.

(* ---- 5. the meta records ---- *)

(* a length-prefixed record of the meta file; the two words beside the snapshot record *)
Record mrec := mkmrec { mr_len : N; mr_data : N; mr_idx : N; mr_term : N }.
(* what a reader accepts: the length belongs to the bytes (mr_data identifies them together with their length), and the
   index word is the index of the stored snapshot *)
Definition mrec_of (len data idx term : N) := mkmrec len data idx term.
Inductive mwrite := WLen (n : N) | WData (d : N) | WIdx (i : N) | WTerm (t : N) | WAll (r : mrec).
Definition mapply (r : mrec) (w : mwrite) : mrec :=
  match w with
  | WLen n => mkmrec n (mr_data r) (mr_idx r) (mr_term r)
  | WData d => mkmrec (mr_len r) d (mr_idx r) (mr_term r)
  | WIdx i => mkmrec (mr_len r) (mr_data r) i (mr_term r)
  | WTerm t => mkmrec (mr_len r) (mr_data r) (mr_idx r) t
  | WAll x => x
  end.
Definition mcrash (k : nat) (ws : list mwrite) (r : mrec) : mrec := fold_left mapply (firstn k ws) r.

(* StoreSnapshot today: SetUint(index), SetUint(term), WriteSlice = length, bytes; with fix3.patch: one write *)
Definition snap_writes_current (new : mrec) := [WIdx (mr_idx new); WTerm (mr_term new); WLen (mr_len new); WData (mr_data new)].
Definition snap_writes_repaired (new : mrec) := [WAll new].

Theorem meta_one_write_atomic : forall old new k, mcrash k (snap_writes_repaired new) old = old \/ mcrash k (snap_writes_repaired new) old = new.
Proof. intros old new [|k]; [left; reflexivity|right]. cbn. now destruct k. Qed.

Example meta_several_writes_refuted :
  let old := mkmrec 10 100 5 1 in let new := mkmrec 12 200 9 2 in
  forall k, (0 < k < 4)%nat -> mcrash k (snap_writes_current new) old <> old /\ mcrash k (snap_writes_current new) old <> new.
Proof. intros old new [|[|[|[|k]]]] Hk; try lia; split; vm_compute; discriminate. Qed.
