(* C17: the invariant of the on-disk model and the "view" lemmas: every file is a run of good live rows [A] (in slot
   order) followed by dead rows [D] (index 0: the prefix slot a zero-fill leaves behind); reads and writes are
   re-expressed on (A, D). *)
From Coq Require Import NArith PeanoNat List Bool Lia ZifyBool ZifyN ZifyNat.
From OG Require Import C17.Model C17.Proofs C17.Refine.
Import ListNotations.
Open Scope N_scope.

Definition dead (r : row) : Prop := s_index (r_slot r) = 0 /\ s_off (r_slot r) = 0.
Definition good (size : N) (r : row) : Prop :=
  s_index (r_slot r) <> 0 /\ 0 < s_off (r_slot r) /\ s_off (r_slot r) < size
  /\ c_lenw (r_cell r) = p_len (c_pay (r_cell r)).
Fixpoint incr_offs (a : list row) : Prop :=
  match a with
  | r :: t => match t with r' :: _ => s_off (r_slot r) < s_off (r_slot r') | [] => True end /\ incr_offs t
  | [] => True
  end.

Record fview (P : params) (f : file) (A D : list row) : Prop := mkfview {
  fv_asc : asc_rows f = A ++ D;
  fv_n : f_n f = N.of_nat (length (A ++ D));
  fv_max : f_n f <= max_entries P;
  fv_good : Forall (good (f_size f)) A;
  fv_dead : Forall dead D;
  fv_offs : incr_offs A;
  fv_c0 : match f_c0 f with Some n => exists r t, A = r :: t /\ n = c_lenw (r_cell r) | None => True end
}.

Lemma good_live : forall s r, good s r -> live_row r = true.
Proof. intros s r (H & _). unfold live_row. destruct (s_index (r_slot r) =? 0) eqn:E; [lia|reflexivity]. Qed.

Lemma Forall_good_live : forall s A, Forall (good s) A -> forallb live_row A = true.
Proof. intros s A H. apply forallb_forall. intros r Hr. rewrite Forall_forall in H. eapply good_live; eauto. Qed.

Lemma live_rows_app_dead : forall A D, forallb live_row A = true -> Forall dead D -> live_rows (A ++ D) = A.
Proof.
  intros A D HA HD. destruct D as [|g x]; [rewrite app_nil_r; now apply live_rows_all|].
  apply live_rows_stop; [exact HA|]. inversion HD as [|? ? [Hg _] _]; subst. exact Hg.
Qed.

Lemma row_entry_good : forall s r, good s r ->
  row_entry r = mkent (s_index (r_slot r)) (s_term_ (r_slot r)) (s_type (r_slot r)) (c_pay (r_cell r)).
Proof.
  intros s r (_ & _ & _ & H). unfold row_entry, read_cell. rewrite H, N.eqb_refl. reflexivity.
Qed.

Lemma fv_entries : forall P f A D, fview P f A D -> file_entries f = map row_entry A.
Proof.
  intros P f A D V. unfold file_entries. rewrite (fv_asc _ _ _ _ V).
  rewrite live_rows_app_dead; [reflexivity| |exact (fv_dead _ _ _ _ V)].
  eapply Forall_good_live. exact (fv_good _ _ _ _ V).
Qed.

Lemma fv_rows : forall P f A D, fview P f A D -> f_rows f = rev (A ++ D).
Proof.
  intros P f A D V. pose proof (fv_asc _ _ _ _ V) as H. rewrite asc_rows_rev in H.
  rewrite <- H. now rewrite rev_involutive.
Qed.

(* the slot at position p *)
Lemma fv_row_at : forall P f A D p, fview P f A D -> (p < length (A ++ D))%nat ->
  row_at f (N.of_nat p) = nth p (A ++ D) zero_row.
Proof.
  intros P f A D p V Hp. unfold row_at, nrows. rewrite (fv_n _ _ _ _ V).
  destruct (N.of_nat p <? N.of_nat (length (A ++ D))) eqn:E; [|lia].
  rewrite (fv_rows _ _ _ _ V).
  replace (N.to_nat (N.of_nat (length (A ++ D)) - 1 - N.of_nat p)) with (length (A ++ D) - S p)%nat by lia.
  rewrite rev_nth by lia.
  replace (length (A ++ D) - S (length (A ++ D) - S p))%nat with p by lia. reflexivity.
Qed.

Lemma fv_row_at_live : forall P f A D p, fview P f A D -> (p < length A)%nat ->
  row_at f (N.of_nat p) = nth p A zero_row.
Proof.
  intros P f A D p V Hp. rewrite (fv_row_at P f A D p V) by (rewrite app_length; lia).
  now rewrite app_nth1.
Qed.

Lemma fv_row_at_beyond : forall P f A D p, fview P f A D -> (length A <= p)%nat ->
  s_index (slot_at f (N.of_nat p)) = 0.
Proof.
  intros P f A D p V Hp. unfold slot_at.
  destruct (Nat.ltb p (length (A ++ D))) eqn:E.
  - apply Nat.ltb_lt in E. rewrite (fv_row_at P f A D p V E). rewrite app_nth2 by lia.
    pose proof (fv_dead _ _ _ _ V) as HD. rewrite Forall_forall in HD.
    rewrite app_length in E.
    destruct (HD (nth (p - length A) D zero_row)) as [H _]; [apply nth_In; lia|exact H].
  - apply Nat.ltb_ge in E. unfold row_at, nrows. rewrite (fv_n _ _ _ _ V).
    destruct (N.of_nat p <? N.of_nat (length (A ++ D))) eqn:E2; [lia|reflexivity].
Qed.

(* ---- writing one entry at the first non-live slot ---- *)

Definition new_row (off : N) (e : entry) : row :=
  mkrow (mkslot (e_term e) (e_index e) (e_type e) off) (mkcell (p_len (e_data e)) (e_data e)).

Lemma incr_offs_snoc : forall A r, incr_offs A ->
  (forall x, In x A -> s_off (r_slot x) < s_off (r_slot r)) -> incr_offs (A ++ [r]).
Proof.
  induction A as [|a t IH]; intros r HA Hlt; cbn [app incr_offs]; [auto|].
  destruct HA as [Ha Ht]. split.
  - destruct t as [|b t']; cbn [app]; [apply Hlt; now left|exact Ha].
  - apply IH; [exact Ht|]. intros x Hx. apply Hlt. now right.
Qed.

Lemma incr_offs_lt_last : forall A r x, incr_offs (A ++ [r]) -> In x A -> s_off (r_slot x) < s_off (r_slot r).
Proof.
  induction A as [|a t IH]; intros r x H Hx; [contradiction|].
  cbn [app incr_offs] in H. destruct H as [Ha Ht]. destruct Hx as [<-|Hx].
  - destruct t as [|b t']; cbn [app] in *; [exact Ha|].
    specialize (IH r b Ht (or_introl eq_refl)). lia.
  - now apply IH.
Qed.

Lemma write_row_view : forall P f A D off e,
  fview P f A D -> e_index e <> 0 -> 0 < off ->
  (forall x, In x A -> s_off (r_slot x) < off) ->
  (D = [] -> f_n f < max_entries P) ->
  let f' := write_row (N.of_nat (length A)) off e f in
  fview P f' (A ++ [new_row off e]) (tl D)
  /\ f_size f' = N.max (f_size f) (off + 4 + p_len (e_data e)) /\ f_id f' = f_id f.
Proof.
  intros P f A D off e V He Hoff Hlt Hroom f'.
  assert (Hrows := fv_rows _ _ _ _ V). assert (Hn := fv_n _ _ _ _ V).
  assert (Hsz : f_size f' = N.max (f_size f) (off + 4 + p_len (e_data e))) by reflexivity.
  assert (Hgood' : Forall (good (f_size f')) (A ++ [new_row off e])).
  { apply Forall_app. split.
    - eapply Forall_impl; [|exact (fv_good _ _ _ _ V)]. intros r (G1 & G2 & G3 & G4). repeat split; auto. rewrite Hsz. lia.
    - constructor; [|constructor]. unfold good, new_row. cbn [r_slot r_cell s_index s_off c_lenw c_pay].
      repeat split; auto. rewrite Hsz. lia. }
  assert (Hoffs' : incr_offs (A ++ [new_row off e])).
  { apply incr_offs_snoc; [exact (fv_offs _ _ _ _ V)|]. intros x Hx. cbn. now apply Hlt. }
  assert (Hc0' : match f_c0 f' with Some n => exists r t, A ++ [new_row off e] = r :: t /\ n = c_lenw (r_cell r) | None => True end).
  { unfold f', write_row. cbn [f_c0]. pose proof (fv_c0 _ _ _ _ V) as C.
    destruct A as [|a t].
    - cbn [length N.of_nat]. rewrite N.eqb_refl. destruct (f_fresh f).
      + exists (new_row off e), []. split; reflexivity.
      + destruct (f_c0 f) as [n|]; [|exact I]. destruct C as (r & t & Hnil & _). discriminate.
    - destruct (N.of_nat (length (a :: t)) =? 0) eqn:E; [cbn [length] in E; lia|].
      destruct (f_c0 f) as [n|]; [|exact I]. destruct C as (r & t' & Hc & Hn'). injection Hc as <- <-.
      exists a, (t ++ [new_row off e]). split; [reflexivity|exact Hn']. }
  destruct D as [|d D'].
  - (* append above the written part *)
    rewrite app_nil_r in *. specialize (Hroom eq_refl).
    assert (Hasc' : asc_rows f' = A ++ [new_row off e]).
    { unfold f', write_row, nrows. rewrite Hn, N.ltb_irrefl, N.sub_diag. cbn [N.to_nat repeat app].
      rewrite asc_rows_rev. cbn [f_rows rev]. rewrite Hrows, rev_involutive. reflexivity. }
    split; [|split; reflexivity]. constructor; cbn [tl]; try rewrite app_nil_r; auto.
    + unfold f', write_row, nrows. rewrite Hn, N.ltb_irrefl. cbn [f_n]. rewrite app_length. cbn [length]. lia.
    + unfold f', write_row, nrows. rewrite Hn, N.ltb_irrefl. cbn [f_n]. lia.
  - (* over the dead row at that position *)
    assert (Hlen : N.of_nat (length A) < f_n f) by (rewrite Hn, app_length; cbn [length]; lia).
    assert (Hasc' : asc_rows f' = (A ++ [new_row off e]) ++ D').
    { unfold f', write_row, nrows. destruct (N.of_nat (length A) <? f_n f) eqn:E; [|lia].
      rewrite asc_rows_rev. cbn [f_rows]. rewrite Hrows.
      assert (HR : rev (A ++ d :: D') = (rev D' ++ [d]) ++ rev A) by (rewrite rev_app_distr; reflexivity).
      rewrite Hn, app_length. cbn [length].
      replace (N.to_nat (N.of_nat (length A + S (length D')) - 1 - N.of_nat (length A))) with (length (rev D')) by (rewrite rev_length; lia).
      replace (N.to_nat (N.of_nat (length A + S (length D')) - N.of_nat (length A))) with (length (rev D' ++ [d])) by (rewrite app_length, rev_length; cbn; lia).
      rewrite HR.
      rewrite skipn_app, skipn_all, Nat.sub_diag. cbn [skipn app].
      rewrite <- app_assoc. rewrite firstn_app, firstn_all, Nat.sub_diag. cbn [firstn]. rewrite app_nil_r.
      rewrite rev_app_distr. cbn [rev]. rewrite !rev_involutive. rewrite <- !app_assoc. reflexivity. }
    split; [|split; reflexivity]. constructor; cbn [tl]; auto.
    + unfold f', write_row, nrows. destruct (N.of_nat (length A) <? f_n f) eqn:E; [|lia]. cbn [f_n].
      rewrite Hn, !app_length. cbn [length]. lia.
    + unfold f', write_row, nrows. destruct (N.of_nat (length A) <? f_n f) eqn:E; [|lia]. cbn [f_n].
      exact (fv_max _ _ _ _ V).
    + pose proof (fv_dead _ _ _ _ V) as HD. now inversion HD.
Qed.

(* ---- the repaired zero-fill on a view ---- *)

Lemma incr_offs_firstn : forall k A, incr_offs A -> incr_offs (firstn k A).
Proof.
  induction k as [|k IH]; intros A H; [exact I|]. destruct A as [|a t]; [exact I|].
  cbn [firstn incr_offs] in *. destruct H as [Ha Ht]. split; [|now apply IH].
  destruct t as [|b t']; destruct k; cbn [firstn]; auto.
Qed.

Lemma Forall_firstn_row : forall (Q : row -> Prop) k l, Forall Q l -> Forall Q (firstn k l).
Proof.
  intros Q k l H. revert k. induction H as [|x r Hx Hr IH]; intro k; destruct k; cbn [firstn]; auto.
Qed.

Lemma fv_rows_ok : forall P f A D, fview P f A D -> rows_ok f.
Proof. intros P f A D V. unfold rows_ok. rewrite (fv_n _ _ _ _ V), (fv_rows _ _ _ _ V), rev_length. reflexivity. Qed.

Lemma zero_fill_view : forall P endb lo f A D,
  fview P f A D -> (lo < length A)%nat -> entry_sz * f_n f <= endb -> endb <= data_off P ->
  let f' := zero_fill VRepaired P endb (N.of_nat lo) f in
  fview P f' (firstn lo A) [garbage_row (endb - entry_sz * N.of_nat lo - 4)]
  /\ f_size f' = f_size f /\ f_id f' = f_id f.
Proof.
  intros P endb lo f A D V Hlo Hend Hoff f'.
  assert (HloX : (lo < length (A ++ D))%nat) by (rewrite app_length; lia).
  destruct (nth_split (A ++ D) zero_row HloX) as (l1 & l2 & HX & Hl1).
  assert (Hl1A : l1 = firstn lo A).
  { assert (H : firstn lo (A ++ D) = l1) by (rewrite HX, <- Hl1, firstn_app, firstn_all, Nat.sub_diag; cbn; now rewrite app_nil_r).
    rewrite firstn_app in H. replace (lo - length A)%nat with 0%nat in H by lia. cbn [firstn] in H. now rewrite app_nil_r in H. }
  assert (Hrows : f_rows f = rev l2 ++ nth lo (A ++ D) zero_row :: rev l1).
  { rewrite (fv_rows _ _ _ _ V). rewrite HX at 1. rewrite rev_app_distr. cbn [rev]. now rewrite <- app_assoc. }
  destruct (zero_fill_repaired_rows P endb (N.of_nat lo) f (rev l2) (nth lo (A ++ D) zero_row) (rev l1) Hrows
              ltac:(rewrite rev_length; lia) (fv_rows_ok _ _ _ _ V) Hend Hoff) as [Z1 Z2].
  fold f' in Z1, Z2.
  split; [|split; reflexivity].
  constructor.
  - rewrite asc_rows_rev, Z1. cbn [rev]. rewrite rev_involutive, Hl1A. reflexivity.
  - unfold rows_ok in Z2. rewrite Z2, Z1. cbn [length]. rewrite rev_length, app_length, Hl1A. cbn [length]. lia.
  - unfold rows_ok in Z2. rewrite Z2, Z1. cbn [length]. rewrite rev_length, Hl1.
    pose proof (fv_max _ _ _ _ V). pose proof (fv_n _ _ _ _ V) as Hn. rewrite app_length in Hn. lia.
  - apply Forall_firstn_row. exact (fv_good _ _ _ _ V).
  - constructor; [|constructor]. split; reflexivity.
  - apply incr_offs_firstn. exact (fv_offs _ _ _ _ V).
  - unfold f', zero_fill. cbn [f_c0]. destruct (N.of_nat lo =? 0) eqn:E; [exact I|].
    pose proof (fv_c0 _ _ _ _ V) as C. destruct (f_c0 f) as [n|]; [|exact I].
    destruct C as (r & t & -> & Hn). destruct lo; [lia|]. cbn [firstn]. eauto.
Qed.

(* a file whose written slots are all live has no dead rows in any view *)
Lemma all_live_no_dead : forall P f A D, fview P f A D -> all_live f -> D = [].
Proof.
  intros P f A D V H. unfold all_live in H. rewrite (fv_rows _ _ _ _ V), forallb_rev, forallb_app in H.
  apply andb_true_iff in H as [_ H]. destruct D as [|g t]; [reflexivity|].
  cbn [forallb] in H. apply andb_true_iff in H as [H _].
  pose proof (fv_dead _ _ _ _ V) as HD. inversion HD as [|? ? [Hg _] _]; subst.
  unfold live_row in H. rewrite Hg in H. discriminate.
Qed.
