(* C17: today's zero-fill (VCurrent), for ALL layout parameters and files: a conflict truncation into a rotated file
   at a slot > 0 zeroes the length word of the cell stored at data_off, so the entry of slot 0 is read back with an
   empty payload. (Refuted.v has the concrete witnesses.) *)
From Coq Require Import NArith PeanoNat List Bool Lia ZifyBool ZifyN ZifyNat.
From OG Require Import C17.Model C17.Proofs C17.Refine C17.Inv.
Import ListNotations.
Open Scope N_scope.

Definition clobber (P : params) (r : row) : row :=
  if (s_off (r_slot r) =? data_off P) && negb (s_index (r_slot r) =? 0)
  then mkrow (r_slot r) (mkcell 0 (c_pay (r_cell r))) else r.

Lemma zero_fill_current_rows : forall P lo f top r bottom,
  f_rows f = top ++ r :: bottom -> N.of_nat (length bottom) = lo -> rows_ok f ->
  entry_sz * f_n f <= data_off P ->
  f_rows (zero_fill VCurrent P (data_off P) lo f) = garbage_row (data_off P - entry_sz * lo) :: map (clobber P) bottom.
Proof.
  intros P lo f top r bottom Hrows Hlo Hn Hend.
  assert (Hlen : f_n f = N.of_nat (length top) + 1 + lo).
  { rewrite Hn, Hrows, app_length. cbn [length]. lia. }
  unfold entry_sz in *.
  set (L := data_off P - 32 * lo).
  assert (HL : 32 <= L) by (unfold L; lia).
  assert (He : 32 * lo + 4 + L = data_off P + 4) by (unfold L; lia).
  unfold zero_fill, entry_sz. cbn [f_rows fill_len]. fold L. rewrite He.
  destruct (data_off P + 4 <=? data_off P + 4) eqn:E1; [|lia].
  unfold nrows. destruct (f_n f <=? lo) eqn:E2; [lia|].
  rewrite map_pos_spec, Hrows.
  rewrite (map_with_pos_top _ zero_row).
  - cbn [map_with_pos]. rewrite Hlo, N.ltb_irrefl, N.eqb_refl.
    rewrite map_with_pos_id; [|intros p x Hp; destruct (p <? lo) eqn:E3; [reflexivity|lia]].
    fold (garbage_row L).
    rewrite map_app. cbn [map].
    assert (Hz : forall k, map (fun r0 => if true && (s_off (r_slot r0) =? data_off P) && negb (s_index (r_slot r0) =? 0)
                                then mkrow (r_slot r0) (mkcell 0 (c_pay (r_cell r0))) else r0)
                     (repeat zero_row k) = repeat zero_row k).
    { clear. induction k as [|k IH]; [reflexivity|]. cbn [repeat map]. rewrite IH. f_equal.
      unfold zero_row, zero_slot. cbn [r_slot s_index s_off N.eqb negb]. rewrite andb_false_r. reflexivity. }
    rewrite Hz. cbn [garbage_row r_slot s_index N.eqb negb]. rewrite andb_false_r.
    fold (garbage_row L).
    rewrite trim_zero_repeat.
    + first [reflexivity | f_equal; apply map_ext; intro x; reflexivity].
    + unfold garbage_row, is_zero_slot. cbn [r_slot s_term_]. destruct (L * 4294967296 =? 0) eqn:E3; [lia|reflexivity].
  - intros p x Hp. rewrite app_length in Hp. cbn [length] in Hp.
    destruct (p <? lo) eqn:E3; [lia|]. destruct (p =? lo) eqn:E4; [lia|].
    destruct (32 * p + 32 <=? data_off P + 4) eqn:E5; [reflexivity|lia].
Qed.

Lemma clobber_live : forall P r, live_row (clobber P r) = live_row r.
Proof. intros P r. unfold clobber. destruct (_ && _); reflexivity. Qed.

(* the entry of slot 0 comes back empty, whatever the parameters *)
Theorem zero_fill_current_clobbers : forall P f A D lo a t,
  fview P f A D -> A = a :: t -> (0 < lo)%nat -> (lo < length A)%nat ->
  entry_sz * f_n f <= data_off P ->
  s_off (r_slot a) = data_off P -> p_len (c_pay (r_cell a)) <> 0 ->
  exists rest,
    file_entries (zero_fill VCurrent P (data_off P) (N.of_nat lo) f)
    = mkent (s_index (r_slot a)) (s_term_ (r_slot a)) (s_type (r_slot a)) empty_pay :: rest
    /\ hd_error (file_entries f)
       = Some (mkent (s_index (r_slot a)) (s_term_ (r_slot a)) (s_type (r_slot a)) (c_pay (r_cell a))).
Proof.
  intros P f A D lo a t V HA Hlo0 Hlo Hend Hoff Hlen.
  assert (HloX : (lo < length (A ++ D))%nat) by (rewrite app_length; lia).
  destruct (nth_split (A ++ D) zero_row HloX) as (l1 & l2 & HX & Hl1).
  assert (Hl1A : l1 = firstn lo A).
  { assert (H : firstn lo (A ++ D) = l1) by (rewrite HX, <- Hl1, firstn_app, firstn_all, Nat.sub_diag; cbn; now rewrite app_nil_r).
    rewrite firstn_app in H. replace (lo - length A)%nat with 0%nat in H by lia. cbn [firstn] in H. now rewrite app_nil_r in H. }
  assert (Hrows : f_rows f = rev l2 ++ nth lo (A ++ D) zero_row :: rev l1).
  { rewrite (fv_rows _ _ _ _ V). rewrite HX at 1. rewrite rev_app_distr. cbn [rev]. now rewrite <- app_assoc. }
  pose proof (zero_fill_current_rows P (N.of_nat lo) f (rev l2) (nth lo (A ++ D) zero_row) (rev l1) Hrows
                ltac:(rewrite rev_length; lia) (fv_rows_ok _ _ _ _ V) Hend) as Z.
  pose proof (fv_good _ _ _ _ V) as G.
  assert (Ga : good (f_size f) a) by (rewrite HA in G; now inversion G).
  exists (map row_entry (map (clobber P) (firstn (lo - 1) t))). split.
  - unfold file_entries. rewrite asc_rows_rev, Z. cbn [rev]. rewrite <- map_rev, rev_involutive, Hl1A.
    rewrite live_rows_stop; [| |reflexivity].
    + rewrite HA. destruct lo as [|lo']; [lia|]. cbn [firstn map]. replace (S lo' - 1)%nat with lo' by lia.
      f_equal. unfold clobber. rewrite Hoff, N.eqb_refl. destruct Ga as (G1 & _).
      destruct (s_index (r_slot a) =? 0) eqn:E; [lia|]. cbn [andb negb].
      unfold row_entry, read_cell. cbn [r_slot r_cell c_lenw c_pay].
      destruct (0 =? p_len (c_pay (r_cell a))) eqn:E2; [lia|]. reflexivity.
    + rewrite forallb_forall. intros x Hx. apply in_map_iff in Hx as (y & <- & Hy). rewrite clobber_live.
      eapply good_live. rewrite Forall_forall in G. apply G. rewrite <- (firstn_skipn lo A). apply in_or_app. now left.
  - rewrite (fv_entries P f A D V), HA. cbn [map hd_error]. now rewrite (row_entry_good _ _ Ga).
Qed.
