(* C17: the byte layer under the model. The model works on slot records and length-prefixed cells; here is how they
   are laid out in the files - big-endian fixed-width words (lib/raftlog/log.go marshalEntry, meta.go) and the protobuf
   bytes of the hard state (raftpb.HardState.Marshal: three varint fields, always written) - with round-trip theorems,
   so that what the model says about a slot table or a meta record is a statement about file bytes. The harness dumps
   the real bytes of every entry file's slot table, the length words of the cells and the meta records at the end of
   cases; Corr.check_bytes compares them with [table_bytes] / [hs_record] / [snap_header] of the model state. *)
From Coq Require Import NArith PeanoNat List Bool Lia ZifyBool ZifyN ZifyNat.
From OG Require Import C17.Model.
Import ListNotations.
Open Scope N_scope.

(* ---- big-endian words ---- *)

Fixpoint be_enc (k : nat) (x : N) : list N :=
  match k with O => [] | S k' => (x / 256 ^ N.of_nat k') mod 256 :: be_enc k' x end.
Definition be_dec (l : list N) : N := fold_left (fun a b => a * 256 + b) l 0.

Lemma be_enc_length : forall k x, length (be_enc k x) = k.
Proof. induction k as [|k IH]; intro x; cbn [be_enc length]; [reflexivity|now rewrite IH]. Qed.

Lemma be_enc_bytes : forall k x, Forall (fun b => b < 256) (be_enc k x).
Proof. induction k as [|k IH]; intro x; cbn [be_enc]; constructor; [apply N.mod_lt; lia|apply IH]. Qed.

Lemma be_dec_acc : forall l a, fold_left (fun a b => a * 256 + b) l a = a * 256 ^ N.of_nat (length l) + be_dec l.
Proof.
  induction l as [|b l IH]; intro a; cbn [fold_left length]; [unfold be_dec; cbn; lia|].
  unfold be_dec. cbn [fold_left]. rewrite (IH (a * 256 + b)), (IH (0 * 256 + b)).
  replace (N.of_nat (S (length l))) with (N.succ (N.of_nat (length l))) by lia. rewrite N.pow_succ_r'. lia.
Qed.

Lemma pow256_pos : forall k, 0 < 256 ^ k.
Proof. intro k. pose proof (N.pow_nonzero 256 k ltac:(lia)). lia. Qed.

Lemma be_dec_enc : forall k x, be_dec (be_enc k x) = x mod 256 ^ N.of_nat k.
Proof.
  induction k as [|k IH]; intro x.
  - cbn. now rewrite N.mod_1_r.
  - cbn [be_enc]. unfold be_dec. cbn [fold_left]. rewrite be_dec_acc, be_enc_length, IH.
    replace (N.of_nat (S k)) with (N.succ (N.of_nat k)) by lia. rewrite N.pow_succ_r'.
    set (q := 256 ^ N.of_nat k). pose proof (pow256_pos (N.of_nat k)) as Hq. fold q in Hq.
    rewrite (N.mul_comm 256 q), N.mod_mul_r by lia. cbn. lia.
Qed.

Lemma be_round : forall k x, x < 256 ^ N.of_nat k -> be_dec (be_enc k x) = x.
Proof. intros k x H. rewrite be_dec_enc. now apply N.mod_small. Qed.

(* ---- a slot record: term, index, type, offset; 4 x 8 bytes ---- *)

Definition slot_bytes (s : slotrec) : list N :=
  be_enc 8 (s_term_ s) ++ be_enc 8 (s_index s) ++ be_enc 8 (s_type s) ++ be_enc 8 (s_off s).
Definition slot_of_bytes (l : list N) : slotrec :=
  mkslot (be_dec (firstn 8 l)) (be_dec (firstn 8 (skipn 8 l))) (be_dec (firstn 8 (skipn 8 (skipn 8 l))))
         (be_dec (firstn 8 (skipn 8 (skipn 8 (skipn 8 l))))).
Definition u64 (x : N) : Prop := x < 256 ^ 8.
Definition slot_u64 (s : slotrec) : Prop := u64 (s_term_ s) /\ u64 (s_index s) /\ u64 (s_type s) /\ u64 (s_off s).

Lemma skipn_add : forall {T} a b (l : list T), skipn (a + b) l = skipn b (skipn a l).
Proof. induction a as [|a IH]; intros b l; [reflexivity|]. destruct l; cbn [Nat.add skipn]; [now rewrite skipn_nil|apply IH]. Qed.

Lemma slot_bytes_length : forall s, length (slot_bytes s) = 32%nat.
Proof. intro s. unfold slot_bytes. rewrite !app_length, !be_enc_length. reflexivity. Qed.

Lemma take8 : forall a b : list N, length a = 8%nat -> firstn 8 (a ++ b) = a.
Proof. intros a b L. rewrite firstn_app, L, Nat.sub_diag, <- L, firstn_all. cbn. apply app_nil_r. Qed.
Lemma drop8 : forall a b : list N, length a = 8%nat -> skipn 8 (a ++ b) = b.
Proof. intros a b L. rewrite skipn_app, L, Nat.sub_diag, <- L, skipn_all. reflexivity. Qed.

Theorem slot_round : forall s rest, slot_u64 s -> slot_of_bytes (slot_bytes s ++ rest) = s.
Proof.
  intros [t i y o] rest (H1 & H2 & H3 & H4). unfold slot_of_bytes, slot_bytes. cbn [s_term_ s_index s_type s_off] in *.
  rewrite <- !app_assoc.
  repeat (rewrite ?take8, ?drop8 by apply be_enc_length).
  unfold u64 in *. change (256 ^ 8) with (256 ^ N.of_nat 8) in *.
  now rewrite !be_round.
Qed.

(* the first n slot records of a file, as they lie at offset 0 *)
Definition table_bytes (f : file) (n : nat) : list N :=
  concat (map (fun p => slot_bytes (slot_at f (N.of_nat p))) (seq 0 n)).

Fixpoint chunks32 (n : nat) (l : list N) : list (list N) :=
  match n with O => [] | S n' => firstn 32 l :: chunks32 n' (skipn 32 l) end.

Lemma take_n : forall n (a b : list N), length a = n -> firstn n (a ++ b) = a.
Proof. intros n a b L. rewrite firstn_app, L, Nat.sub_diag, <- L, firstn_all. cbn. apply app_nil_r. Qed.
Lemma drop_n : forall n (a b : list N), length a = n -> skipn n (a ++ b) = b.
Proof. intros n a b L. rewrite skipn_app, L, Nat.sub_diag, <- L, skipn_all. reflexivity. Qed.

(* reading the table back slot by slot gives the slot records of the model *)
Theorem table_round : forall f n, (forall p, slot_u64 (slot_at f p)) ->
  map slot_of_bytes (chunks32 n (table_bytes f n)) = map (fun p => slot_at f (N.of_nat p)) (seq 0 n).
Proof.
  intros f n H. unfold table_bytes. generalize 0%nat as st. induction n as [|n IH]; intro st; [reflexivity|].
  cbn [seq map concat chunks32].
  rewrite (take_n 32 _ _ (slot_bytes_length _)), (drop_n 32 _ _ (slot_bytes_length _)).
  f_equal; [|apply IH].
  rewrite <- (app_nil_r (slot_bytes _)). now apply slot_round.
Qed.

(* ---- varints and the hard state record ---- *)

(* protobuf base-128 varint, least significant group first; fuel 10 covers uint64 *)
Fixpoint varint_enc (fuel : nat) (x : N) : list N :=
  match fuel with
  | O => []
  | S k => if x <? 128 then [x] else (x mod 128 + 128) :: varint_enc k (x / 128)
  end.
Fixpoint varint_dec (l : list N) : option (N * list N) :=
  match l with
  | [] => None
  | b :: t => if b <? 128 then Some (b, t)
              else match varint_dec t with Some (v, r) => Some (b - 128 + 128 * v, r) | None => None end
  end.

Theorem varint_round : forall fuel x rest, x < 128 ^ N.of_nat (S fuel) ->
  varint_dec (varint_enc (S fuel) x ++ rest) = Some (x, rest).
Proof.
  induction fuel as [|k IH]; intros x rest Hx.
  - change (128 ^ N.of_nat 1) with 128 in Hx. cbn [varint_enc]. destruct (x <? 128) eqn:E; [|lia].
    cbn [app varint_dec]. now rewrite E.
  - remember (S k) as k1. cbn [varint_enc]. destruct (x <? 128) eqn:E.
    + cbn [app varint_dec]. now rewrite E.
    + cbn [app varint_dec]. assert (Hm : x mod 128 < 128) by (apply N.mod_lt; lia).
      destruct (x mod 128 + 128 <? 128) eqn:E2; [lia|].
      replace (N.of_nat (S k1)) with (N.succ (N.of_nat k1)) in Hx by lia. rewrite N.pow_succ_r' in Hx.
      subst k1. rewrite (IH (x / 128) rest) by (apply N.div_lt_upper_bound; lia).
      f_equal. f_equal. pose proof (N.div_mod x 128 ltac:(lia)). lia.
Qed.

(* raftpb.HardState.Marshal: tag 0x08 term, 0x10 vote, 0x18 commit - all three always present *)
Definition hs_pb (h : hardstate) : list N :=
  [8] ++ varint_enc 10 (hs_term h) ++ [16] ++ varint_enc 10 (hs_vote h) ++ [24] ++ varint_enc 10 (hs_commit h).
Definition hs_of_pb (l : list N) : option hardstate :=
  match l with
  | 8 :: l1 =>
      match varint_dec l1 with
      | Some (t, 16 :: l2) =>
          match varint_dec l2 with
          | Some (v, 24 :: l3) => match varint_dec l3 with Some (c, []) => Some (mkhs t v c) | _ => None end
          | _ => None
          end
      | _ => None
      end
  | _ => None
  end.

Lemma u64_varint : forall x, u64 x -> x < 128 ^ N.of_nat (S 9).
Proof. intros x H. unfold u64 in H. assert (256 ^ 8 < 128 ^ N.of_nat (S 9)) by (vm_compute; reflexivity). lia. Qed.

Theorem hs_pb_round : forall h, u64 (hs_term h) -> u64 (hs_vote h) -> u64 (hs_commit h) -> hs_of_pb (hs_pb h) = Some h.
Proof.
  intros [t v c] Ht Hv Hc. unfold hs_pb, hs_of_pb. cbn [hs_term hs_vote hs_commit app] in *.
  rewrite (varint_round 9 t _ (u64_varint t Ht)). rewrite (varint_round 9 v _ (u64_varint v Hv)).
  rewrite <- (app_nil_r (varint_enc 10 c)). rewrite (varint_round 9 c [] (u64_varint c Hc)). reflexivity.
Qed.

(* a length-prefixed record of raft.meta: [len:4][bytes] *)
Definition lp_record (payload : list N) : list N := be_enc 4 (N.of_nat (length payload)) ++ payload.
Definition lp_read (l : list N) : list N := firstn (N.to_nat (be_dec (firstn 4 l))) (skipn 4 l).

Theorem lp_round : forall payload rest, N.of_nat (length payload) < 256 ^ 4 -> lp_read (lp_record payload ++ rest) = payload.
Proof.
  intros p rest H. unfold lp_read, lp_record. rewrite <- app_assoc.
  rewrite (take_n 4 _ _ (be_enc_length 4 _)), (drop_n 4 _ _ (be_enc_length 4 _)).
  change (256 ^ 4) with (256 ^ N.of_nat 4) in H. rewrite (be_round 4 _ H), Nat2N.id.
  now apply take_n.
Qed.

(* the hard state record at offset 512 of raft.meta; an empty hard state (never stored) reads as length 0 *)
Definition hs_record (h : hardstate) : list N := if hs_is_empty h then be_enc 4 0 else lp_record (hs_pb h).
(* the two words in front of the snapshot record at offset 1024: index and term of the stored snapshot *)
Definition snap_header (s : snapshot) : list N := be_enc 8 (sn_index s) ++ be_enc 8 (sn_term s).

Theorem hs_record_round : forall h rest, u64 (hs_term h) -> u64 (hs_vote h) -> u64 (hs_commit h) -> hs_is_empty h = false ->
  hs_of_pb (lp_read (hs_record h ++ rest)) = Some h.
Proof.
  intros h rest Ht Hv Hc He. unfold hs_record. rewrite He. rewrite lp_round; [now apply hs_pb_round|].
  unfold hs_pb. rewrite !app_length. cbn [length].
  assert (L : forall x, (length (varint_enc 10 x) <= 10)%nat).
  { intro x. generalize 10%nat as k. intro k. revert x. induction k as [|k IH]; intro x; cbn [varint_enc length]; [lia|].
    destruct (x <? 128); cbn [length]; [lia|]. specialize (IH (x / 128)). lia. }
  pose proof (L (hs_term h)). pose proof (L (hs_vote h)). pose proof (L (hs_commit h)).
  assert (256 ^ 4 = 4294967296) by reflexivity. lia.
Qed.
