(* C17: a Save in which one write fails (Model.save_fail), for the variant the tree implements (VZeroSlots: every
   failed write is reported). What the abstract log and the meta record are afterwards, that the store is back in
   its invariant, and that the retry of the caller (RaftNode.SaveToStorage loops until Save succeeds) ends in exactly
   the state a Save without fault would have produced. *)
From Coq Require Import NArith PeanoNat List Bool Lia ZifyBool ZifyN ZifyNat.
From OG Require Import C17.Model C17.Proofs C17.Refine C17.Inv C17.Search C17.Read C17.Step C17.SaveStep C17.ZeroSlots.
Import ListNotations.
Open Scope N_scope.

(* the entries below index b: what Append keeps *)
Definition below_idx (b : N) (l : list entry) : list entry := firstn (N.to_nat (b - first_of l)) l.

Lemma s_append_below : forall e0 r l, s_append (e0 :: r) l = below_idx (e_index e0) l ++ e0 :: r.
Proof. reflexivity. Qed.

(* ---- the state after the conflict handling alone ---- *)

Definition cstate (P : params) (nd : bool) (b : N) (d d1 : disk) (i0' : N) (A' D' : list row) : Prop :=
  1 <= i0' /\ chain P i0' (d_files d1) /\ fview P (d_cur d1) A' D'
  /\ consec (i0' + flen (d_files d1)) (map row_entry A') /\ d_next d1 = N.of_nat (length A') /\ (length D' <= 1)%nat
  /\ (nd = true -> D' = [])
  /\ b = i0' + flen (d_files d1) + N.of_nat (length A')
  /\ concat (map file_entries (d_files d1)) ++ map row_entry A' = below_idx b (log_of d)
  /\ d_meta d1 = d_meta d
  /\ (Forall all_live (d_files d) -> Forall all_live (d_files d1)).

Lemma conflict_step_state : forall v P nd, wf_params P = true -> clears v P nd -> clears_end v P -> forall d i0 Ac b,
  dinv P i0 d Ac -> 1 <= b ->
  (log_of d = [] \/ (first_of (log_of d) <= b /\ b <= last_of (log_of d) + 1)) ->
  exists i0' A' D', cstate P nd b d (conflict_step v P b d) i0' A' D'.
Proof.
  intros v P nd HP Hclr Hend d i0 Ac b I Hb Hrange.
  destruct (wf_params_facts P HP) as (Hmax & Hoffp & Hsz). unfold entry_sz in Hoffp.
  pose proof I as (H1 & Hch & V & C & Hn & HKl).
  unfold conflict_step, cstate, below_idx.
  destruct (inv_cases P d i0 Ac I) as [(EA & Ef & Hl)|Hne].
  - (* empty log *)
    rewrite (slot_ge_empty P d i0 Ac I EA Ef b), Hl.
    subst Ac. pose proof (dinv_empty_any P i0 d I Ef b Hb) as (_ & Hch' & V' & _ & Hn' & _).
    exists b, [], []. rewrite Ef in *. rewrite flen_nil. cbn [length N.of_nat map concat app firstn].
    split; [exact Hb|]. split; [exact Logic.I|]. split; [exact V'|]. split; [exact Logic.I|]. split; [exact Hn'|].
    split; [lia|]. split; [reflexivity|]. split; [lia|]. split; [now rewrite firstn_nil|]. split; [reflexivity|auto].
  - assert (Hf : first_of (log_of d) = i0) by (apply (inv_first P d i0 Ac I Hne)).
    assert (Hlast : last_of (log_of d) + 1 = i0 + flen (d_files d) + N.of_nat (length Ac)).
    { rewrite (consec_last _ _ (inv_consec P d i0 Ac I) Hne). pose proof (inv_len P d i0 Ac I).
      destruct (log_of d); [congruence|]. cbn [length] in *. lia. }
    destruct Hrange as [E|[Hlo Hhi]]; [congruence|]. rewrite Hf in *. rewrite Hlast in Hhi.
    set (c0 := i0 + flen (d_files d)) in *.
    assert (Hlp : length (concat (map file_entries (d_files d))) = N.to_nat (flen (d_files d))) by (unfold flen; lia).
    destruct (b <? c0) eqn:E1.
    + (* conflict in a rotated file *)
      destruct (chain_locate P (d_files d) i0 b Hch Hlo ltac:(unfold c0 in E1; lia))
        as (pre & f & post & A0 & D0 & Hfs & Vf0 & Hfi1 & Hfi2).
      set (fi := i0 + flen pre) in *.
      pose proof Hch as Hch2. rewrite Hfs in Hch2. apply chain_app in Hch2 as [Hpre Hrest]. cbn [chain] in Hrest.
      destruct Hrest as (A & D & Vf & HA & Cf & _). fold fi in Cf.
      assert (EAA : length A = length A0).
      { pose proof (fv_entries P f A0 D0 Vf0) as E1'. pose proof (fv_entries P f A D Vf) as E2'.
        rewrite E1' in E2'. apply (f_equal (@length _)) in E2'. now rewrite !map_length in E2'. }
      rewrite <- EAA in Hfi2.
      rewrite (slot_ge_old P d i0 Ac I pre f post A D b Hfs Vf Hfi1 ltac:(fold fi; lia)). fold fi.
      rewrite Hfs, firstn_app, firstn_all, Nat.sub_diag. cbn [firstn]. rewrite app_nil_r.
      rewrite app_nth2 by lia. rewrite Nat.sub_diag. cbn [nth].
      set (lo := N.to_nat (b - fi)). assert (Hlo' : b - fi = N.of_nat lo) by (unfold lo; lia). rewrite Hlo'.
      pose proof (fv_max _ _ _ _ Vf) as Hfm.
      destruct (Hclr (data_off P) (max_entries P) lo f A D Vf ltac:(unfold lo; lia) ltac:(unfold entry_sz; lia) ltac:(lia) Hfm)
        as (Dz & HDz & HDn & Vz).
      assert (Hlen : length (firstn lo A) = lo) by (apply firstn_length_le; unfold lo; lia).
      exists i0, (firstn lo A), Dz. cbn [d_files d_cur d_next d_meta]. fold fi. rewrite Hlen.
      split; [exact H1|]. split; [exact Hpre|]. split; [exact Vz|]. split; [now apply consec_firstn_rows|].
      split; [reflexivity|]. split; [exact HDz|]. split; [exact HDn|]. split; [lia|]. split; [|split; [reflexivity|]].
      * rewrite (inv_log P d i0 Ac I), Hfs, map_app, concat_app. cbn [map concat].
        rewrite (fv_entries P f A D Vf), <- !app_assoc.
        replace (N.to_nat (b - i0)) with (length (concat (map file_entries pre)) + lo)%nat
          by (unfold flen in fi; unfold lo, fi; lia).
        rewrite firstn_app_2, firstn_app. rewrite map_length.
        replace (lo - length A)%nat with 0%nat by (unfold lo; lia). cbn [firstn]. rewrite app_nil_r, firstn_map.
        reflexivity.
      * intro Hal. try rewrite Hfs in Hal. apply Forall_app in Hal. tauto.
    + destruct (b <? c0 + N.of_nat (length Ac)) eqn:E2.
      * (* conflict in the current file *)
        rewrite (slot_ge_cur_inside P d i0 Ac I b) by (fold c0; lia). fold c0.
        set (lo := N.to_nat (b - c0)). assert (Hlo' : b - c0 = N.of_nat lo) by (unfold lo; lia). rewrite Hlo'.
        rewrite Hn. destruct (N.of_nat lo <? N.of_nat (length Ac)) eqn:E3; [|lia].
        pose proof (fv_n _ _ _ _ V) as Hfn. rewrite app_nil_r in Hfn. pose proof (fv_max _ _ _ _ V) as Hfm.
        destruct (Hclr (entry_sz * N.of_nat (length Ac)) (N.of_nat (length Ac)) lo (d_cur d) Ac [] V ltac:(unfold lo; lia)
                    ltac:(rewrite Hfn; lia) ltac:(unfold entry_sz; lia) ltac:(rewrite Hfn; lia)) as (Dz & HDz & HDn & Vz).
        assert (Hlen : length (firstn lo Ac) = lo) by (apply firstn_length_le; unfold lo; lia).
        exists i0, (firstn lo Ac), Dz. cbn [d_files d_cur d_next d_meta]. fold c0. rewrite Hlen.
        split; [exact H1|]. split; [exact Hch|]. split; [exact Vz|]. split; [now apply consec_firstn_rows|].
        split; [reflexivity|]. split; [exact HDz|]. split; [exact HDn|]. split; [lia|]. split; [|split; [reflexivity|auto]].
        rewrite (inv_log P d i0 Ac I).
        replace (N.to_nat (b - i0)) with (length (concat (map file_entries (d_files d))) + lo)%nat
          by (rewrite Hlp; unfold lo, c0; lia).
        rewrite firstn_app_2, firstn_map. reflexivity.
      * destruct (nil_or_not Ac) as [EA|EA].
        { (* empty current file beside older files: the newest rotated file is found behind its last entry and becomes
             the current file again; nothing has to be cleared *)
          assert (Ef : d_files d <> []).
          { intro Ef. apply Hne. rewrite (inv_log P d i0 Ac I), Ef, EA. reflexivity. }
          destruct (exists_last Ef) as (pre & f & Hfs).
          destruct (slot_ge_files_beyond P d i0 Ac I EA pre f b Hfs ltac:(fold c0; lia)) as (A & D & Vf & HAf & Cf & ->).
          assert (ED : D = []).
          { apply (all_live_no_dead P f A D Vf). pose proof (HKl EA) as K. rewrite Hfs in K. apply Forall_app in K as [_ K]. now inversion K. }
          subst D.
          rewrite Hfs, firstn_app, firstn_all, Nat.sub_diag. cbn [firstn]. rewrite app_nil_r.
          rewrite app_nth2 by lia. rewrite Nat.sub_diag. cbn [nth].
          pose proof Hch as Hch2. rewrite Hfs in Hch2. apply chain_app in Hch2 as [Hpre _].
          pose proof (Hend (data_off P) (max_entries P) f A Vf HAf (fv_max _ _ _ _ Vf)) as Vz.
          assert (Hc0 : c0 = i0 + flen pre + N.of_nat (length A)).
          { unfold c0. rewrite Hfs, flen_app, (flen_cons P f A [] [] Vf), flen_nil. lia. }
          assert (Hb0 : b = c0) by (clear -E1 E2 Hhi EA; subst Ac; cbn [length N.of_nat] in *; lia).
          exists i0, A, []. cbn [d_files d_cur d_next d_meta].
          split; [exact H1|]. split; [exact Hpre|]. split; [exact Vz|]. split; [exact Cf|].
          split; [reflexivity|]. split; [cbn; lia|]. split; [reflexivity|]. split; [lia|]. split; [|split; [reflexivity|]].
          - rewrite firstn_all2.
            + rewrite (inv_log P d i0 Ac I), Hfs, EA, map_app, concat_app. cbn [map concat].
              now rewrite (fv_entries P f A [] Vf), !app_nil_r.
            + pose proof (inv_len P d i0 Ac I) as L. rewrite EA in L. cbn [length] in L. unfold c0 in *. lia.
          - intro Hal. try rewrite Hfs in Hal. apply Forall_app in Hal. tauto. }
        (* pure append *)
        rewrite (slot_ge_cur_beyond P d i0 Ac I b EA) by (fold c0; lia).
        rewrite Hn, N.ltb_irrefl.
        exists i0, Ac, []. cbn [d_files d_cur d_next d_meta]. fold c0.
        split; [exact H1|]. split; [exact Hch|]. split; [exact V|]. split; [exact C|].
        split; [reflexivity|]. split; [cbn; lia|]. split; [reflexivity|]. split; [lia|]. split; [|split; [reflexivity|auto]].
        rewrite firstn_all2; [now rewrite (inv_log P d i0 Ac I)|].
        pose proof (inv_len P d i0 Ac I). unfold c0 in *. lia.
Qed.

(* ---- small facts ---- *)

Lemma rotate_log : forall P off d, log_of (rotate P off d) = log_of d.
Proof.
  intros P off d. unfold log_of, rotate. cbn [d_files d_cur]. rewrite !log_of_snoc.
  change (file_entries (new_file P (max_fid d + 1) true)) with (@nil entry). rewrite app_nil_r. reflexivity.
Qed.

Lemma consec_firstn_es : forall j es b, consec b es -> consec b (firstn j es).
Proof. intros. now apply consec_firstn. Qed.

Lemma Forall_firstn_fits : forall P j es, Forall (fits P) es -> Forall (fits P) (firstn j es).
Proof. intros P j es H. now apply Forall_firstn_any. Qed.

Lemma after_conflict_nil : forall P d1,
  log_of (after_conflict P [] d1) = log_of d1 /\ d_meta (after_conflict P [] d1) = d_meta d1.
Proof.
  intros P d1. unfold after_conflict. destruct (d_next d1 =? 0); [split; reflexivity|].
  destruct (cell_len (d_cur d1) (d_next d1 - 1)) as [n c] eqn:Ec. cbn [append_loop].
  pose proof (cell_len_same (d_cur d1) (d_next d1 - 1)) as [S1 S2]. rewrite Ec in S1, S2. cbn [snd] in S1, S2.
  split; [|reflexivity]. unfold log_of. cbn [d_files d_cur]. rewrite !log_of_snoc. unfold file_entries, asc_rows. now rewrite S1.
Qed.

(* ---- THE LOG AFTER A FAILED SAVE (all faults, all states of the invariant) ---- *)

Definition valid_batch (P : params) (e0 : entry) (r : list entry) (l : list entry) : Prop :=
  consec (e_index e0) (e0 :: r) /\ 1 <= e_index e0 /\ Forall (fits P) (e0 :: r)
  /\ (l = [] \/ (first_of l <= e_index e0 /\ e_index e0 <= last_of l + 1)).

(* what a reported failure leaves behind, as a function of the fault *)
Definition failed_log (ft : fault) (e0 : entry) (r : list entry) (h : option hardstate) (old : alog) (new : alog) : Prop :=
  let es := e0 :: r in
  let b := e_index e0 in
  match ft with
  | FClear _ =>
      (* a prefix of the old log that still holds the conflicting index: nothing of the batch, nothing discarded
         below or at b; meta untouched *)
      (exists n, a_ents new = firstn n (a_ents old) /\ (N.to_nat (b - first_of (a_ents old)) < n)%nat)
      /\ a_meta new = a_meta old
  | FEntry j _ =>
      (* the truncation prefix of the specification, followed by the first j entries of the batch *)
      a_ents new = below_idx b (a_ents old) ++ firstn j es /\ a_meta new = a_meta old
  | FHs => a_ents new = s_append es (a_ents old) /\ a_meta new = a_meta old
  | FSnap => a_ents new = s_append es (a_ents old) /\ a_meta new = store_hs h (a_meta old)
  end.

Lemma save_whole : forall v P es h s d,
  store_meta h s (add_entries v P es d) = fst (step_disk v P (Save es h s) d).
Proof. reflexivity. Qed.

Lemma clear_failed_state : forall P, wf_params P = true -> forall d i0 Ac b c d1,
  dinvz P i0 d Ac -> 1 <= b ->
  (log_of d = [] \/ (first_of (log_of d) <= b /\ b <= last_of (log_of d) + 1)) ->
  clear_failed P b c d = Some d1 ->
  (exists Ac1, dinvz P i0 d1 Ac1) /\ d_meta d1 = d_meta d
  /\ exists n, log_of d1 = firstn n (log_of d) /\ (N.to_nat (b - first_of (log_of d)) < n)%nat.
Proof.
  intros P HP d i0 Ac b c d1 [I Hal] Hb Hrange Hcf.
  pose proof I as (H1 & Hch & V & C & Hn & HKl).
  unfold clear_failed in Hcf.
  destruct (inv_cases P d i0 Ac I) as [(EA & Ef & Hl)|Hne].
  - rewrite (slot_ge_empty P d i0 Ac I EA Ef b) in Hcf. discriminate.
  - assert (Hf : first_of (log_of d) = i0) by (apply (inv_first P d i0 Ac I Hne)).
    assert (Hlast : last_of (log_of d) + 1 = i0 + flen (d_files d) + N.of_nat (length Ac)).
    { rewrite (consec_last _ _ (inv_consec P d i0 Ac I) Hne). pose proof (inv_len P d i0 Ac I).
      destruct (log_of d); [congruence|]. cbn [length] in *. lia. }
    destruct Hrange as [E|[Hlo Hhi]]; [congruence|]. rewrite Hf in *. rewrite Hlast in Hhi.
    set (c0 := i0 + flen (d_files d)) in *.
    (* the shape shared by the two cases in which a rotated file is taken back as the current one *)
    assert (Hold : forall pre f post A lo, d_files d = pre ++ f :: post -> fview P f A [] -> A <> [] ->
               consec (i0 + flen pre) (map row_entry A) -> chain P i0 pre ->
               lo < max_entries P -> lo + c < max_entries P ->
               ((N.to_nat lo < length A)%nat \/ (N.to_nat lo = length A /\ post = [] /\ Ac = [])) ->
               b = i0 + flen pre + lo ->
               let f' := clear_part (max_entries P) c f in
               (exists Ac1, dinvz P i0 (mkdisk pre f' (first_empty_slot P f') (d_meta d)) Ac1)
               /\ exists n, log_of (mkdisk pre f' (first_empty_slot P f') (d_meta d)) = firstn n (log_of d)
                            /\ (N.to_nat (b - i0) < n)%nat).
    { intros pre f post A lo Hfs Vf HA Cf Hpre Hl1 Hl2 Hl3 Hbb f'.
      pose proof (fv_max _ _ _ _ Vf) as Hfm. pose proof (fv_n _ _ _ _ Vf) as Hfn. rewrite app_nil_r in Hfn.
      pose proof (clear_part_view_all P (max_entries P) c f A Vf Hfm) as Vf'. fold f' in Vf'.
      set (m := N.to_nat (max_entries P - c)) in *.
      assert (Hm : (N.to_nat lo < m)%nat) by (unfold m; lia).
      set (A1 := firstn m A) in *.
      assert (HA1 : A1 <> []).
      { unfold A1. destruct A as [|a t]; [congruence|]. destruct m; [lia|discriminate]. }
      assert (Hlen1 : length A1 = Nat.min m (length A)) by (unfold A1; apply firstn_length).
      rewrite (first_empty_view P f' A1 [] (i0 + flen pre) Vf' ltac:(lia)).
      split.
      - exists A1. split.
        + unfold dinv. cbn [d_files d_cur d_next]. split; [exact H1|]. split; [exact Hpre|]. split; [exact Vf'|].
          split; [unfold A1; now apply consec_firstn_rows|]. split; [reflexivity|]. congruence.
        + unfold alivef in *. cbn [d_files]. rewrite Hfs in Hal. apply Forall_app in Hal. tauto.
      - assert (Hlog1 : log_of (mkdisk pre f' (N.of_nat (length A1)) (d_meta d))
                        = firstn (length (concat (map file_entries pre)) + length A1) (log_of d)).
        { rewrite log_of_eq. cbn [d_files d_cur]. rewrite (fv_entries P f' A1 [] Vf').
          rewrite (inv_log P d i0 Ac I), Hfs, map_app, concat_app. cbn [map concat].
          rewrite (fv_entries P f A [] Vf), <- !app_assoc.
          rewrite firstn_app_2, firstn_app, map_length.
          replace (length A1 - length A)%nat with 0%nat by lia. cbn [firstn]. rewrite app_nil_r.
          rewrite firstn_map. do 2 f_equal. rewrite Hlen1. unfold A1.
          destruct (Nat.le_ge_cases m (length A)); [rewrite Nat.min_l by lia; reflexivity|].
          rewrite Nat.min_r by lia. rewrite !firstn_all2 by lia. reflexivity. }
        destruct Hl3 as [Hl3|(Hl3 & -> & ->)].
        + exists (length (concat (map file_entries pre)) + length A1)%nat. split; [exact Hlog1|].
          unfold flen in Hbb. lia.
        + (* the batch starts right behind the file: the whole log is kept *)
          exists (S (length (log_of d))). rewrite Hlog1. split.
          * rewrite (firstn_all2 (n := S _)) by lia. apply firstn_all2.
            rewrite (inv_log P d i0 [] I), Hfs, map_app, concat_app, !app_length. cbn [map concat length].
            rewrite app_nil_r, (fv_entries P f A [] Vf), map_length. lia.
          * rewrite (inv_log P d i0 [] I), Hfs, map_app, concat_app, !app_length. cbn [map concat length].
            rewrite app_nil_r, (fv_entries P f A [] Vf), map_length. unfold flen in Hbb. lia. }
    destruct (b <? c0) eqn:E1.
    + destruct (chain_locate P (d_files d) i0 b Hch Hlo ltac:(unfold c0 in E1; lia))
        as (pre & f & post & A0 & D0 & Hfs & Vf0 & Hfi1 & Hfi2).
      set (fi := i0 + flen pre) in *.
      pose proof Hch as Hch2. rewrite Hfs in Hch2. apply chain_app in Hch2 as [Hpre Hrest]. cbn [chain] in Hrest.
      destruct Hrest as (A & D & Vf & HA & Cf & _). fold fi in Cf.
      assert (EAA : length A = length A0).
      { pose proof (fv_entries P f A0 D0 Vf0) as E1'. pose proof (fv_entries P f A D Vf) as E2'.
        rewrite E1' in E2'. apply (f_equal (@length _)) in E2'. now rewrite !map_length in E2'. }
      rewrite <- EAA in Hfi2.
      rewrite (slot_ge_old P d i0 Ac I pre f post A D b Hfs Vf Hfi1 ltac:(fold fi; lia)) in Hcf. fold fi in Hcf.
      rewrite Hfs, firstn_app, firstn_all, Nat.sub_diag in Hcf. cbn [firstn] in Hcf. rewrite app_nil_r in Hcf.
      rewrite app_nth2 in Hcf by lia. rewrite Nat.sub_diag in Hcf. cbn [nth] in Hcf.
      destruct ((b - fi <? max_entries P) && (b - fi + c <? max_entries P)) eqn:E3; [|discriminate]. injection Hcf as <-.
      apply andb_true_iff in E3 as [E3 E4].
      assert (Hlf : all_live f).
      { unfold alivef in Hal. rewrite Hfs in Hal. apply Forall_app in Hal as [_ Hal]. now inversion Hal. }
      assert (ED : D = []) by (apply (all_live_no_dead P f A D Vf Hlf)). subst D.
      destruct (Hold pre f post A (b - fi) Hfs Vf HA Cf Hpre ltac:(lia) ltac:(lia) ltac:(left; lia) ltac:(unfold fi; lia)) as [X1 X2].
      split; [exact X1|]. split; [reflexivity|exact X2].
    + destruct (b <? c0 + N.of_nat (length Ac)) eqn:E2.
      * rewrite (slot_ge_cur_inside P d i0 Ac I b) in Hcf by (fold c0; lia). fold c0 in Hcf.
        rewrite Hn in Hcf.
        destruct ((b - c0 <? N.of_nat (length Ac)) && (b - c0 + c <? N.of_nat (length Ac))) eqn:E3; [|discriminate]. injection Hcf as <-.
        apply andb_true_iff in E3 as [E3 E4].
        pose proof (fv_n _ _ _ _ V) as Hfn. rewrite app_nil_r in Hfn.
        pose proof (clear_part_view_all P (N.of_nat (length Ac)) c (d_cur d) Ac V ltac:(lia)) as V'.
        set (m := N.to_nat (N.of_nat (length Ac) - c)) in *.
        assert (Hm : (N.to_nat (b - c0) < m)%nat /\ (m <= length Ac)%nat) by (unfold m; lia).
        assert (Hlen1 : length (firstn m Ac) = m) by (apply firstn_length_le; lia).
        split; [|split; [reflexivity|]].
        -- exists (firstn m Ac). split; [|exact Hal].
           unfold dinv. cbn [d_files d_cur d_next]. split; [exact H1|]. split; [exact Hch|]. split; [exact V'|].
           split; [now apply consec_firstn_rows|]. split; [rewrite Hlen1; unfold m; lia|].
           intro E. apply (f_equal (@length _)) in E. rewrite Hlen1 in E. cbn in E. lia.
        -- exists (length (concat (map file_entries (d_files d))) + m)%nat. split.
           ++ rewrite log_of_eq. cbn [d_files d_cur]. rewrite (fv_entries P _ (firstn m Ac) [] V').
              rewrite (inv_log P d i0 Ac I), firstn_app_2, firstn_map. reflexivity.
           ++ unfold c0, flen in *. lia.
      * destruct (nil_or_not Ac) as [EA|EA].
        { (* empty current file beside older files, the batch starts right behind them *)
          assert (Ef : d_files d <> []).
          { intro Ef. apply Hne. rewrite (inv_log P d i0 Ac I), Ef, EA. reflexivity. }
          destruct (exists_last Ef) as (pre & f & Hfs).
          destruct (slot_ge_files_beyond P d i0 Ac I EA pre f b Hfs ltac:(fold c0; lia)) as (A & D & Vf & HAf & Cf & Hsg).
          rewrite Hsg in Hcf.
          assert (ED : D = []).
          { apply (all_live_no_dead P f A D Vf). pose proof (HKl EA) as K. rewrite Hfs in K. apply Forall_app in K as [_ K]. now inversion K. }
          subst D.
          rewrite Hfs, firstn_app, firstn_all, Nat.sub_diag in Hcf. cbn [firstn] in Hcf. rewrite app_nil_r in Hcf.
          rewrite app_nth2 in Hcf by lia. rewrite Nat.sub_diag in Hcf. cbn [nth] in Hcf.
          destruct ((N.of_nat (length A) <? max_entries P) && (N.of_nat (length A) + c <? max_entries P)) eqn:E3; [|discriminate].
          injection Hcf as <-. apply andb_true_iff in E3 as [E3 E4].
          pose proof Hch as Hch2. rewrite Hfs in Hch2. apply chain_app in Hch2 as [Hpre _].
          assert (Hc0 : c0 = i0 + flen pre + N.of_nat (length A)).
          { unfold c0. rewrite Hfs, flen_app, (flen_cons P f A [] [] Vf), flen_nil. lia. }
          assert (Hb0 : b = c0) by (clear -E1 E2 Hhi EA; subst Ac; cbn [length N.of_nat] in *; lia).
          destruct (Hold pre f [] A (N.of_nat (length A)) Hfs Vf HAf Cf Hpre ltac:(lia) ltac:(lia) ltac:(right; split; [lia|split; [reflexivity|exact EA]]) ltac:(lia)) as [X1 X2].
          split; [exact X1|]. split; [reflexivity|exact X2]. }
        rewrite (slot_ge_cur_beyond P d i0 Ac I b EA) in Hcf by (fold c0; lia).
        rewrite Hn, N.ltb_irrefl in Hcf. cbn [andb] in Hcf. discriminate.
Qed.

Theorem failed_save_log : forall P, wf_params P = true -> forall d i0 Ac e0 r h s ft,
  dinvz P i0 d Ac -> valid_batch P e0 r (log_of d) ->
  let es := e0 :: r in
  let res := save_fail VZeroSlots P es h s ft d in
  (fst res = false -> snd res = fst (step_disk VZeroSlots P (Save es h s) d))
  /\ (fst res = true -> failed_log ft e0 r h (abs d) (abs (snd res))).
Proof.
  intros P HP d i0 Ac e0 r h s ft Iz (Ces & Hb & Hfit & Hrange) es res. pose proof Iz as [I Hal].
  subst res es. unfold save_fail. cbv zeta.
  destruct ft as [c|j rot| |].
  - (* FClear *)
    destruct (clear_failed P (e_index e0) c d) as [d1|] eqn:Ecf; cbn [fst snd].
    + split; [discriminate|]. intros _.
      destruct (clear_failed_state P HP d i0 Ac (e_index e0) c d1 Iz Hb Hrange Ecf) as (_ & M & n & L & Hn).
      unfold failed_log. rewrite !abs_log. cbn [a_ents a_meta]. split; [exists n; split; assumption|exact M].
    + split; [intros _; apply save_whole|discriminate].
  - (* FEntry *)
    destruct (Nat.ltb j (length (e0 :: r))) eqn:Ej; cbn [fst snd]; [|split; [intros _; apply save_whole|discriminate]].
    split; [discriminate|]. intros _. unfold failed_log. rewrite !abs_log. cbn [a_ents a_meta].
    set (d1 := after_conflict P (firstn j (e0 :: r)) (conflict_step VZeroSlots P (e_index e0) d)).
    assert (H : log_of d1 = below_idx (e_index e0) (log_of d) ++ firstn j (e0 :: r) /\ d_meta d1 = d_meta d).
    { destruct j as [|j].
      - (* nothing of the batch is visible: the truncation prefix *)
        destruct (conflict_step_state VZeroSlots P true HP (clears_zeroslots P) (clears_end_zeroslots P) d i0 Ac (e_index e0) I Hb Hrange)
          as (i0' & A' & D' & _ & _ & V' & _ & _ & _ & _ & _ & L' & M' & _).
        unfold d1. cbn [firstn]. destruct (after_conflict_nil P (conflict_step VZeroSlots P (e_index e0) d)) as [L1 M1].
        rewrite L1, M1, app_nil_r. split; [|exact M'].
        rewrite log_of_eq, (fv_entries P _ A' D' V'). exact L'.
      - (* = a Save of the first j+1 entries *)
        cbn [firstn] in *.
        assert (Eadd : d1 = add_entries VZeroSlots P (e0 :: firstn j r) d) by reflexivity.
        destruct (add_entries_inv VZeroSlots P true HP (clears_zeroslots P) d i0 Ac e0 (firstn j r) I (or_introl (clears_end_zeroslots P))) as (a & b & _ & X2 & X3 & _ & _).
        + change (e0 :: firstn j r) with (firstn (S j) (e0 :: r)). now apply consec_firstn_es.
        + exact Hb.
        + change (e0 :: firstn j r) with (firstn (S j) (e0 :: r)). now apply Forall_firstn_fits.
        + exact Hrange.
        + rewrite Eadd, X2, X3. split; reflexivity. }
    destruct H as [L M].
    destruct (rot && needs_rotate P d1 (end_off P d1) (nth j (e0 :: r) e0)); [rewrite rotate_log|]; split; auto.
  - (* FHs *)
    destruct h as [x|]; [destruct (hs_is_empty x) eqn:Eh|]; cbn [fst snd];
      try (split; [intros _; apply save_whole|discriminate]).
    split; [discriminate|]. intros _. unfold failed_log. rewrite !abs_log. cbn [a_ents a_meta].
    destruct (add_entries_inv VZeroSlots P true HP (clears_zeroslots P) d i0 Ac e0 r I (or_introl (clears_end_zeroslots P)) Ces Hb Hfit Hrange) as (a & b & _ & X2 & X3 & _ & _).
    split; assumption.
  - (* FSnap *)
    destruct s as [x|]; [destruct (snap_valid x) eqn:Es|]; cbn [fst snd];
      try (split; [intros _; apply save_whole|discriminate]).
    split; [discriminate|]. intros _. unfold failed_log. rewrite !abs_log. cbn [a_ents a_meta].
    destruct (add_entries_inv VZeroSlots P true HP (clears_zeroslots P) d i0 Ac e0 r I (or_introl (clears_end_zeroslots P)) Ces Hb Hfit Hrange) as (a & b & _ & X2 & X3 & _ & _).
    unfold store_meta. cbn [d_meta log_of d_files d_cur store_snap]. fold (log_of (add_entries VZeroSlots P (e0 :: r) d)).
    split; [exact X2|]. now rewrite X3.
Qed.

(* ---- the retry of the caller ---- *)

Lemma first_of_firstn : forall n (l : list entry), (0 < n)%nat -> first_of (firstn n l) = first_of l.
Proof. intros [|n] [|x t] H; try reflexivity; lia. Qed.

Lemma consec_length_last : forall l i, consec i l -> l <> [] -> last_of l + 1 = i + N.of_nat (length l).
Proof. intros l i C H. rewrite (consec_last l i C H). destruct l; [congruence|cbn [length]; lia]. Qed.

Lemma consec_first : forall l i, consec i l -> l <> [] -> first_of l = i.
Proof. intros [|e t] i C H; [congruence|]. destruct C as [He _]. exact He. Qed.

Definition in_range (b : N) (l : list entry) : Prop := l = [] \/ (first_of l <= b /\ b <= last_of l + 1).

(* (A) a prefix of the old log that still reaches the conflicting index *)
Lemma retry_prefix : forall l b n, consec (first_of l) l -> in_range b l ->
  (N.to_nat (b - first_of l) < n)%nat ->
  in_range b (firstn n l) /\ below_idx b (firstn n l) = below_idx b l.
Proof.
  intros l b n C R Hn. destruct l as [|x t]; [rewrite firstn_nil; split; [now left|reflexivity]|].
  destruct R as [R|[R1 R2]]; [discriminate|].
  assert (Hne : x :: t <> []) by discriminate.
  rewrite (consec_length_last _ _ C Hne) in R2.
  assert (Hf : first_of (firstn n (x :: t)) = first_of (x :: t)) by (apply first_of_firstn; lia).
  assert (Hne1 : firstn n (x :: t) <> []) by (destruct n; [lia|discriminate]).
  split.
  - right. rewrite Hf. split; [exact R1|].
    pose proof (consec_firstn _ _ n C) as C1. rewrite <- Hf in C1.
    rewrite (consec_length_last _ _ C1 Hne1), Hf, firstn_length. lia.
  - unfold below_idx. rewrite Hf, firstn_firstn. f_equal. lia.
Qed.

(* (B) the truncation prefix followed by the first j entries of the batch *)
Lemma retry_partial : forall l e0 r j, consec (first_of l) l -> in_range (e_index e0) l -> consec (e_index e0) (e0 :: r) ->
  let b := e_index e0 in
  let l1 := below_idx b l ++ firstn j (e0 :: r) in
  in_range b l1 /\ below_idx b l1 = below_idx b l.
Proof.
  intros l e0 r j C R Ces b l1.
  assert (Hk : below_idx b l = [] \/ (below_idx b l <> [] /\ first_of (below_idx b l) = first_of l
                                      /\ N.of_nat (length (below_idx b l)) = b - first_of l /\ l <> [])).
  { unfold below_idx. destruct l as [|x t]; [left; now rewrite firstn_nil|].
    destruct R as [R|[R1 R2]]; [discriminate|].
    rewrite (consec_length_last _ _ C ltac:(discriminate)) in R2.
    destruct (N.to_nat (b - first_of (x :: t))) as [|m] eqn:Em; [now left|right].
    split; [discriminate|]. split; [reflexivity|]. split; [|discriminate].
    rewrite firstn_length. cbn [length] in *. lia. }
  destruct Hk as [Hk|(Hk1 & Hk2 & Hk3 & Hl)].
  - unfold l1. rewrite Hk. cbn [app]. destruct j as [|j]; [cbn [firstn]; split; [now left|unfold below_idx; now rewrite firstn_nil]|].
    cbn [firstn]. split.
    + right. cbn [first_of]. fold b. split; [lia|].
      pose proof (consec_firstn _ _ (S j) Ces) as C1. cbn [firstn] in C1.
      rewrite (consec_length_last _ _ C1 ltac:(discriminate)). lia.
    + unfold below_idx. cbn [first_of]. fold b. rewrite N.sub_diag. reflexivity.
  - assert (Hf : first_of l1 = first_of l) by (unfold l1; rewrite first_of_app; assumption).
    destruct R as [R|[R1 R2]]; [congruence|].
    assert (C1 : consec (first_of l) l1).
    { unfold l1. apply consec_app; [unfold below_idx; now apply consec_firstn|].
      rewrite Hk3. replace (first_of l + (b - first_of l)) with b by lia. now apply consec_firstn. }
    assert (Hne1 : l1 <> []) by (unfold l1; intro X; apply app_eq_nil in X as [X _]; congruence).
    split.
    + right. rewrite Hf. split; [exact R1|]. rewrite <- Hf in C1.
      rewrite (consec_length_last _ _ C1 Hne1), Hf. unfold l1. rewrite app_length. lia.
    + unfold below_idx at 1. rewrite Hf. unfold l1.
      replace (N.to_nat (b - first_of l)) with (length (below_idx b l) + 0)%nat by lia.
      rewrite firstn_app_2. cbn [firstn]. now rewrite app_nil_r.
Qed.

Lemma store_hs_idem : forall h m, store_hs h (store_hs h m) = store_hs h m.
Proof. intros [x|] m; [|reflexivity]. cbn [store_hs]. destruct (hs_is_empty x) eqn:E; cbn [store_hs]; now rewrite ?E. Qed.

Lemma in_range_log : forall l b, in_range b l <-> (l = [] \/ (first_of l <= b /\ b <= last_of l + 1)).
Proof. reflexivity. Qed.

(* the failure state is back in the invariant - unless its current file is empty while older files exist (the write
   that failed was the first one into a file just created by a rotation, or the conflicting index is the first index
   of a file that is not the oldest and nothing of the batch is visible yet) *)
Definition settled (d : disk) : Prop := file_entries (d_cur d) <> [] \/ d_files d = [].


Lemma log_consec_first : forall P d i0 Ac, dinv P i0 d Ac -> consec (first_of (log_of d)) (log_of d).
Proof.
  intros P d i0 Ac I. destruct (nil_or_not (log_of d)) as [E|E]; [rewrite E; exact Logic.I|].
  rewrite (inv_first P d i0 Ac I E). exact (inv_consec P d i0 Ac I).
Qed.

Lemma needs_rotate_next : forall P d e, wf_params P = true -> fits P e ->
  needs_rotate P d (end_off P d) e = true -> d_next d <> 0.
Proof.
  intros P d e HP Hf H E. destruct (wf_params_facts P HP) as (Hmax & _ & _).
  unfold needs_rotate, end_off, fits in *. rewrite E in H. cbn [N.eqb] in H.
  destruct (max_entries P <=? 0) eqn:E1; [lia|]. destruct (max_size P <? data_off P + 4 + p_len (e_data e)) eqn:E2; [lia|].
  discriminate.
Qed.

(* a completed rotation keeps the invariant: the old current file joins the rotated ones, the new one is empty *)
Lemma rotate_inv : forall P d i0 Ac, dinvz P i0 d Ac -> Ac <> [] -> dinvz P i0 (rotate P (end_off P d) d) [].
Proof.
  intros P d i0 Ac [I Hal] HA. pose proof I as (H1 & Hch & V & C & Hn & HKl).
  pose proof (length_pos_ne Ac HA) as Hpos.
  set (p := (length Ac - 1)%nat). assert (Hp : (p < length Ac)%nat) by (unfold p; lia).
  assert (Hoff : forall x, In x Ac -> s_off (r_slot x) < end_off P d).
  { intros x Hx. unfold end_off. rewrite Hn. destruct (N.of_nat (length Ac) =? 0) eqn:E0; [lia|].
    replace (N.of_nat (length Ac) - 1) with (N.of_nat p) by (unfold p; lia).
    unfold slot_at. rewrite (fv_row_at_live P (d_cur d) Ac [] p V Hp).
    pose proof (incr_offs_le_last Ac x (fv_offs _ _ _ _ V) Hx) as L. fold p in L. lia. }
  set (c' := mkfile (f_id (d_cur d)) (f_n (d_cur d)) (f_rows (d_cur d)) (end_off P d) (f_c0 (d_cur d)) (f_fresh (d_cur d))).
  assert (Vc' : fview P c' Ac []) by (apply resize_view; assumption).
  assert (Hall : Forall all_live (d_files d ++ [c'])).
  { apply Forall_app. split; [exact Hal|]. constructor; [exact (view_all_live P c' Ac Vc')|constructor]. }
  split; [|exact Hall].
  unfold dinv, rotate. cbn [d_files d_cur d_next]. fold c'.
  split; [exact H1|]. split.
  { apply chain_app. split; [exact Hch|]. cbn [chain]. exists Ac, []. auto. }
  split; [apply new_file_view|]. split; [exact Logic.I|]. split; [reflexivity|]. intros _. exact Hall.
Qed.

Lemma fail_state_inv : forall P, wf_params P = true -> forall d i0 Ac e0 r h s ft,
  dinvz P i0 d Ac -> valid_batch P e0 r (log_of d) ->
  let res := save_fail VZeroSlots P (e0 :: r) h s ft d in
  fst res = true -> exists i1 Ac1, dinvz P i1 (snd res) Ac1.
Proof.
  intros P HP d i0 Ac e0 r h s ft Iz (Ces & Hb & Hfit & Hrange) res. pose proof Iz as [I Hal].
  subst res. unfold save_fail. cbv zeta.
  destruct ft as [c|j rot| |].
  - destruct (clear_failed P (e_index e0) c d) as [d1|] eqn:Ecf; cbn [fst snd]; [|discriminate].
    intros _. destruct (clear_failed_state P HP d i0 Ac (e_index e0) c d1 Iz Hb Hrange Ecf) as ((Ac1 & J) & _). eauto.
  - destruct (Nat.ltb j (length (e0 :: r))) eqn:Ej; cbn [fst snd]; [|discriminate]. intros _.
    set (d1 := after_conflict P (firstn j (e0 :: r)) (conflict_step VZeroSlots P (e_index e0) d)).
    assert (J1 : exists i1 Ac1, dinvz P i1 d1 Ac1).
    { destruct j as [|j].
      + destruct (conflict_step_state VZeroSlots P true HP (clears_zeroslots P) (clears_end_zeroslots P) d i0 Ac (e_index e0) I Hb Hrange)
          as (i0' & A' & D' & K1 & Kch & V' & KC & Kn & _ & KD & _ & _ & _ & Kal).
        rewrite (KD eq_refl) in V'. clear KD.
        set (dc := conflict_step VZeroSlots P (e_index e0) d) in *.
        pose proof (Kal Hal) as Hal'.
        exists i0', A'. unfold d1, after_conflict. cbn [firstn]. rewrite Kn.
        destruct (N.of_nat (length A') =? 0) eqn:E0.
        * cbn [append_loop]. split; [|exact Hal'].
          unfold dinv. cbn [d_files d_cur d_next].
          split; [exact K1|]. split; [exact Kch|]. split; [exact V'|]. split; [exact KC|]. split; [reflexivity|]. intros _. exact Hal'.
        * set (p := (length A' - 1)%nat). assert (Hp : (p < length A')%nat) by (unfold p; lia).
          replace (N.of_nat (length A') - 1) with (N.of_nat p) by (unfold p; lia).
          destruct (cell_len_view P (d_cur dc) A' [] p V' Hp) as [_ Vc].
          destruct (cell_len (d_cur dc) (N.of_nat p)) as [n c]. cbn [snd] in Vc. cbn [append_loop].
          split; [|exact Hal'].
          unfold dinv. cbn [d_files d_cur d_next].
          split; [exact K1|]. split; [exact Kch|]. split; [exact Vc|]. split; [exact KC|]. split; [reflexivity|]. intros _. exact Hal'.
      + assert (Eadd : d1 = add_entries VZeroSlots P (e0 :: firstn j r) d) by reflexivity.
        destruct (add_entries_inv VZeroSlots P true HP (clears_zeroslots P) d i0 Ac e0 (firstn j r) I (or_introl (clears_end_zeroslots P))) as (a & b & X1 & _ & _ & X4 & _).
        * change (e0 :: firstn j r) with (firstn (S j) (e0 :: r)). now apply consec_firstn_es.
        * exact Hb.
        * change (e0 :: firstn j r) with (firstn (S j) (e0 :: r)). now apply Forall_firstn_fits.
        * exact Hrange.
        * exists a, b. rewrite Eadd. split; [exact X1|now apply X4]. }
    destruct J1 as (i1 & Ac1 & J1).
    destruct (rot && needs_rotate P d1 (end_off P d1) (nth j (e0 :: r) e0)) eqn:ER; [|eauto].
    apply andb_true_iff in ER as [_ ER].
    assert (Hfj : fits P (nth j (e0 :: r) e0)).
    { rewrite Forall_forall in Hfit. apply Hfit. apply nth_In. now apply Nat.ltb_lt. }
    pose proof (needs_rotate_next P d1 _ HP Hfj ER) as Hnx.
    assert (HA1 : Ac1 <> []).
    { destruct J1 as [(_ & _ & _ & _ & Hn1 & _) _]. intro E. rewrite E in Hn1. cbn in Hn1. congruence. }
    exists i1, []. exact (rotate_inv P d1 i1 Ac1 J1 HA1).
  - destruct h as [x|]; [destruct (hs_is_empty x) eqn:Eh|]; cbn [fst snd]; try discriminate. intros _.
    destruct (add_entries_inv VZeroSlots P true HP (clears_zeroslots P) d i0 Ac e0 r I (or_introl (clears_end_zeroslots P)) Ces Hb Hfit Hrange) as (a & b & X1 & _ & _ & X4 & _).
    exists a, b. split; [exact X1|now apply X4].
  - destruct s as [x|]; [destruct (snap_valid x) eqn:Es|]; cbn [fst snd]; try discriminate. intros _.
    destruct (add_entries_inv VZeroSlots P true HP (clears_zeroslots P) d i0 Ac e0 r I (or_introl (clears_end_zeroslots P)) Ces Hb Hfit Hrange) as (a & b & X1 & _ & _ & X4 & _).
    exists a, b. split; [apply dinv_meta; exact X1|]. unfold alivef, store_meta. cbn [d_files]. now apply X4.
Qed.

(* THE RETRY: from a settled failure state, saving the same batch again ends in the state - and gives the answer - of a
   Save that never failed, which is the specification's Append *)
Theorem failed_save_retry : forall P, wf_params P = true -> forall d i0 Ac e0 r h s ft,
  dinvz P i0 d Ac -> valid_batch P e0 r (log_of d) ->
  let es := e0 :: r in
  let res := save_fail VZeroSlots P es h s ft d in
  fst res = true ->
  (exists i1 Ac1, dinvz P i1 (snd res) Ac1)
  /\ valid_op P (Save es h s) (abs (snd res))
  /\ step_spec (Save es h s) 0 (abs (snd res)) = step_spec (Save es h s) 0 (abs d)
  /\ let '(d2, x2) := step_disk VZeroSlots P (Save es h s) (snd res) in
     (abs d2, x2) = step_spec (Save es h s) 0 (abs d).
Proof.
  intros P HP d i0 Ac e0 r h s ft Iz Hvb es res Hrep. pose proof Iz as [I Hal]. pose proof Hvb as (Ces & Hb & Hfit & Hrange).
  destruct (fail_state_inv P HP d i0 Ac e0 r h s ft Iz Hvb Hrep) as (i1 & Ac1 & J).
  destruct (failed_save_log P HP d i0 Ac e0 r h s ft Iz Hvb) as [_ FL]. specialize (FL Hrep).
  fold es res in FL, J. set (d1 := snd res) in *.
  pose proof (log_consec_first P d i0 Ac I) as Ccl.
  assert (Hrange' : in_range (e_index e0) (log_of d)) by exact Hrange.
  assert (K : in_range (e_index e0) (log_of d1) /\ below_idx (e_index e0) (log_of d1) = below_idx (e_index e0) (log_of d)
              /\ store_snap s (store_hs h (d_meta d1)) = store_snap s (store_hs h (d_meta d))).
  { unfold failed_log in FL. rewrite !abs_log in FL. cbn [a_ents a_meta] in FL.
    destruct ft as [c|j rot| |].
    - destruct FL as ((n & L & Hn) & M). rewrite L, M. destruct (retry_prefix _ _ n Ccl Hrange' Hn) as [R1 R2]. auto.
    - destruct FL as (L & M). rewrite L, M. destruct (retry_partial (log_of d) e0 r j Ccl Hrange' Ces) as [R1 R2]. auto.
    - destruct FL as (L & M). rewrite L, M. rewrite s_append_below.
      replace (e0 :: r) with (firstn (length (e0 :: r)) (e0 :: r)) at 1 2 by apply firstn_all.
      destruct (retry_partial (log_of d) e0 r (length (e0 :: r)) Ccl Hrange' Ces) as [R1 R2]. auto.
    - destruct FL as (L & M). rewrite L, M, store_hs_idem. rewrite s_append_below.
      replace (e0 :: r) with (firstn (length (e0 :: r)) (e0 :: r)) at 1 2 by apply firstn_all.
      destruct (retry_partial (log_of d) e0 r (length (e0 :: r)) Ccl Hrange' Ces) as [R1 R2]. auto. }
  destruct K as (K1 & K2 & K3).
  assert (Hv : valid_op P (Save es h s) (abs d1)).
  { unfold es. cbn [valid_op]. rewrite abs_log. cbn [a_ents]. auto. }
  assert (Hsp : step_spec (Save es h s) 0 (abs d1) = step_spec (Save es h s) 0 (abs d)).
  { unfold es. cbn [step_spec]. rewrite !abs_log. cbn [a_ents a_meta]. rewrite !s_append_below, K2, K3. reflexivity. }
  split; [eauto|]. split; [exact Hv|]. split; [exact Hsp|].
  pose proof (step_save_z P HP d1 i1 Ac1 es h s J Hv) as S. unfold step_ok_z in S.
  destruct (step_disk VZeroSlots P (Save es h s) d1) as [d2 x2].
  assert (Hch : forall c, step_spec (Save es h s) c (abs d1) = step_spec (Save es h s) 0 (abs d1)) by reflexivity.
  rewrite Hch, Hsp in S. destruct (step_spec (Save es h s) 0 (abs d)) as [a' r'].
  destruct S as (_ & Ha & Hx). now subst.
Qed.
(* PROCESS DEATH INSIDE THE ENTRY LOOP OF A SAVE, THEN RESTART. The directory a process leaves behind when it is killed
   before the slot record of entry number j is written - whether or not the payload of that entry (any part of it) has
   arrived: a payload without its slot record is not part of any row - is the state of [save_fail .. (FEntry j _)].
   Opening it again (Init) answers with: everything below the first new index, then the first j entries of the batch,
   minus the prefix Init compacts (never beyond the snapshot index); hard state and snapshot are the old ones. In
   particular every entry of an earlier, acknowledged Save that the batch does not overwrite is there. *)
Theorem crash_in_loop_then_reopen : forall P, wf_params P = true -> forall d i0 Ac e0 r h s j rot,
  dinvz P i0 d Ac -> valid_batch P e0 r (log_of d) -> (j < length (e0 :: r))%nat ->
  let d1 := snd (save_fail VZeroSlots P (e0 :: r) h s (FEntry j rot) d) in
  let d2 := reopen P d1 in
  abs d2 = mkalog (drop_below (disk_first d2) (below_idx (e_index e0) (log_of d) ++ firstn j (e0 :: r))) (d_meta d)
  /\ exists i2 Ac2, dinvz P i2 d2 Ac2.
Proof.
  intros P HP d i0 Ac e0 r h s j rot Iz Hvb Hj d1 d2.
  assert (Hrep : fst (save_fail VZeroSlots P (e0 :: r) h s (FEntry j rot) d) = true).
  { unfold save_fail. apply Nat.ltb_lt in Hj. now rewrite Hj. }
  destruct (fail_state_inv P HP d i0 Ac e0 r h s (FEntry j rot) Iz Hvb Hrep) as (i1 & Ac1 & J).
  destruct (failed_save_log P HP d i0 Ac e0 r h s (FEntry j rot) Iz Hvb) as [_ FL]. specialize (FL Hrep).
  fold d1 in FL, J. unfold failed_log in FL. rewrite !abs_log in FL. cbn [a_ents a_meta] in FL. destruct FL as [L M].
  pose proof (step_all_z P HP Reopen d1 i1 Ac1 J Logic.I) as S. unfold step_ok_z in S. cbn [step_disk step_spec] in S.
  fold d2 in S. destruct S as (Inv & Ha & _). split; [|exact Inv].
  rewrite Ha. change (r_first (dres P d2 Ok [] 0 None)) with (disk_first d2).
  rewrite abs_log. cbn [a_ents a_meta]. now rewrite L, M.
Qed.
