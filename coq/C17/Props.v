(* C17 property theorems. Nothing but statements closed by `exact lemma` and Print Assumptions. *)
From Coq Require Import NArith List Bool.
From OG Require Import C17.Model C17.Proofs C17.Refine C17.Corr C17.Scope C17.Gen_Consts C17.Crash.
From OG Require Import C17.Inv C17.Search C17.Read C17.Step C17.SaveStep C17.ZeroSlots C17.Fault C17.Tear C17.Bytes C17.DelFault.
Import ListNotations.
Open Scope N_scope.

(* Specification level (alog = etcd MemoryStorage as the store exposes it). *)

(* appending at an index that already exists discards that entry and everything after it; the log stays a run of
   consecutive indexes; the last index is the end of the batch *)
Theorem C17_spec_append : forall es l e0 r,
  es = e0 :: r -> wf_log l -> consec (e_index e0) es -> 1 <= e_index e0 ->
  (l = [] \/ (first_of l <= e_index e0 /\ e_index e0 <= last_of l + 1)) ->
  wf_log (s_append es l)
  /\ s_append es l = filter (fun e => e_index e <? e_index e0) l ++ es
  /\ last_of (s_append es l) = e_index e0 + N.of_nat (length es) - 1.
Proof. exact s_append_wf. Qed.
Print Assumptions C17_spec_append.

(* compacted prefixes report 'compacted', ranges beyond the end report 'unavailable', everything else is answered *)
Theorem C17_spec_entries_compacted : forall lo hi max l, lo < first_of l -> s_entries lo hi max l = (Compacted, []).
Proof. exact s_entries_compacted. Qed.
Theorem C17_spec_entries_unavailable : forall lo hi max l,
  first_of l <= lo -> last_of l + 1 < hi -> s_entries lo hi max l = (Unavailable, []).
Proof. exact s_entries_unavailable. Qed.
Theorem C17_spec_entries_ok : forall lo hi max l, first_of l <= lo -> hi <= last_of l + 1 ->
  s_entries lo hi max l = (Ok, limit_size max (slice lo hi l)).
Proof. exact s_entries_ok. Qed.
Print Assumptions C17_spec_entries_ok.

(* the size limit returns a prefix, never less than one entry, everything when it fits, and cuts exactly where the
   running size first exceeds the limit *)
Theorem C17_spec_limit_prefix : forall max l, exists k, limit_size max l = firstn k l.
Proof. exact limit_size_prefix. Qed.
Theorem C17_spec_limit_at_least_one : forall max e r, exists t, limit_size max (e :: r) = e :: t.
Proof. exact limit_size_at_least_one. Qed.
Theorem C17_spec_limit_all : forall max l, total_size l <= max -> limit_size max l = l.
Proof. exact limit_size_all. Qed.
Print Assumptions C17_spec_limit_all.

(* On-disk model, repaired zero-fill. *)

(* The repaired zero-fill clears exactly the slots [lo, n) of a file: rows below lo keep slot record AND payload cell
   (in particular the length word at data_off), slot lo holds only the 4-byte length prefix (index 0 = empty slot),
   nothing above survives. Holds for the current file (endb = 32*next) and for a rotated one (endb = data_off). *)
Theorem C17_zero_fill_repaired_exact : forall P endb lo f top r bottom,
  f_rows f = top ++ r :: bottom -> N.of_nat (length bottom) = lo -> rows_ok f ->
  entry_sz * f_n f <= endb -> endb <= data_off P ->
  f_rows (zero_fill VRepaired P endb lo f) = garbage_row (endb - entry_sz * lo - 4) :: bottom
  /\ rows_ok (zero_fill VRepaired P endb lo f).
Proof. exact zero_fill_repaired_rows. Qed.
Print Assumptions C17_zero_fill_repaired_exact.

(* The append loop - rotation on the slot-count or size limit included, for every batch and every starting offset -
   extends the log read back from the files by exactly the batch, and leaves hard state and snapshot alone. *)
Theorem C17_append_loop_refines : forall P es off d,
  rows_ok (d_cur d) -> all_live (d_cur d) -> d_next d = f_n (d_cur d) ->
  Forall (fun e => e_index e <> 0) es ->
  let d' := append_loop P es off d in
  log_of d' = log_of d ++ es /\ d_meta d' = d_meta d
  /\ rows_ok (d_cur d') /\ all_live (d_cur d') /\ d_next d' = f_n (d_cur d').
Proof. exact append_loop_refines. Qed.
Print Assumptions C17_append_loop_refines.

(* A whole Save (AddEntries) with the repaired zero-fill, in its three shapes: pure append; conflict in the current
   file; conflict in a rotated file (later files deleted, that file reused). The log read back from the files is the
   kept prefix (the rows below the slot slotGe answered) followed by the batch - which is Append of the specification
   (C17_spec_append) once slotGe's answer is the position of the first new index.
   PARTIAL: what is not proved in general is (1) that slot_ge's search returns that position (consecutive-index
   invariant + search correctness), (2) the read path (all_entries = limit_size of the slice), (3) reopen and prefix
   deletion as steps of the refinement. These are covered by the exhaustive small-scope check below (all histories up
   to depth 4 with 3 slots per file; depth 5 in the thorough tier) and by the correspondence runs on the real code. *)
Theorem C17_save_refines_partial : forall P e0 r d,
  wf_params P = true -> Forall (fun e => e_index e <> 0) (e0 :: r) ->
  let es := e0 :: r in
  let d' := add_entries VRepaired P es d in
  ((slot_ge P d (e_index e0) = (InCur, Some (d_next d)) \/ snd (slot_ge P d (e_index e0)) = None) ->
   rows_ok (d_cur d) -> all_live (d_cur d) -> d_next d = f_n (d_cur d) ->
   log_of d' = log_of d ++ es)
  /\
  (forall lo top x bottom,
   slot_ge P d (e_index e0) = (InCur, Some lo) -> lo < d_next d -> d_next d = f_n (d_cur d) -> rows_ok (d_cur d) ->
   f_n (d_cur d) <= max_entries P ->
   f_rows (d_cur d) = top ++ x :: bottom -> N.of_nat (length bottom) = lo -> forallb live_row bottom = true ->
   log_of d' = concat (map file_entries (d_files d)) ++ map row_entry (rev bottom) ++ es)
  /\
  (forall k lo top x bottom,
   slot_ge P d (e_index e0) = (InOld k, Some lo) ->
   let f := nth k (d_files d) (d_cur d) in
   rows_ok f -> f_n f <= max_entries P ->
   f_rows f = top ++ x :: bottom -> N.of_nat (length bottom) = lo -> forallb live_row bottom = true ->
   log_of d' = concat (map file_entries (firstn k (d_files d))) ++ map row_entry (rev bottom) ++ es).
Proof. exact add_entries_repaired. Qed.
Print Assumptions C17_save_refines_partial.

(* the layout hypotheses hold for the constants the Go code is compiled with (Gen_Consts is regenerated every run) *)
Example C17_real_params_wf : wf_params real_params = true.
Proof. vm_compute. reflexivity. Qed.

(* Exhaustive small scope (finite check by vm_compute, not a general theorem): every history of up to 4 operations
   over the alphabet of Scope.ops_for (saves appending / conflicting at the first, last and next index with batches
   of 1, 2 and 4 entries, snapshots, prefix deletions, reopen) with 3 slots and 42 data bytes per file: the repaired
   disk model and the specification give the same answer at every step, a full read of the disk equals the
   specification's log, Term and Entries agree at the boundaries. Today's zero-fill fails the same check. *)
Example C17_refines_small_scope : explore VRepaired tiny_params 4 (empty_disk tiny_params) empty_alog = true.
Proof. vm_compute. reflexivity. Qed.
Example C17_small_scope_size : count_hist VRepaired tiny_params 4 (empty_disk tiny_params) empty_alog = 20197.
Proof. vm_compute. reflexivity. Qed.
Example C17_small_scope_rejects_current : explore VCurrent tiny_params 4 (empty_disk tiny_params) empty_alog = false.
Proof. vm_compute. reflexivity. Qed.

(* Crash points inside Save (granularity: the store's write operations; order of RaftDiskStorage.Save = entries, hard
   state, snapshot). Whatever the number k of steps completed when the process dies: below the first new index the
   log is untouched; hard state and snapshot are the old or the new ones; a new hard state or snapshot is visible only
   together with the complete batch (so a commit index that refers to entries of the batch never outruns the log). *)
Theorem C17_crash_inside_save : forall st0 es h s k,
  Forall (fun e => match es with [] => True | e0 :: _ => e_index e0 <= e_index e end) es ->
  inside_ok st0 es h s (crash_state k (save_steps es h s) st0).
Proof. exact crash_entries_first. Qed.
Print Assumptions C17_crash_inside_save.

(* the contract is not vacuous: writing the meta file first breaks it (hard state commits 5, log ends at 3) *)
Example C17_crash_meta_first_breaks :
  exists k, let st := crash_state k (save_steps_meta_first demo_es demo_hs None) demo_st0 in
            ~ inside_ok demo_st0 demo_es demo_hs None st
            /\ hs_commit (p_hs st) = 5 /\ last_of (p_log st) = 3.
Proof. exact crash_meta_first_breaks. Qed.

(* ================================================================================================================ *)
(* THE REFINEMENT, for every history. For all layout parameters satisfying the layout inequalities and every list of
   operations (Save, Entries, Term, CreateSnapshot, DeleteBefore, Reopen, GetMeta, full scan) whose arguments respect
   [valid_op] in the state where they are issued:
     - every answer of the repaired on-disk model equals the answer of the specification (error class, entries, term,
       first and last index after the operation, hard state, snapshot);
     - the log read back from the files (abstraction [abs]) equals the specification's state at the end.
   The specification is told how far the store compacted at DeleteBefore / Reopen (the first index it reported).
   [valid_op] asks (and nothing else):
     Save     - Raft's contract for a non-empty batch: consecutive indexes, first index >= 1 and inside
                [first index, last index + 1] of the log (any start on an empty log), every payload fits in a fresh
                file (data_off + 4 + len <= max_size);
     Entries  - hi >= 1 (hi = 0 is not proved; raft never asks it);
     full scan- the total protobuf size of the log is below 2^64 (the scan of the model uses a uint64 size limit);
     all other operations - nothing (all arguments).
   Proof: invariant [dinv] (every file = good live rows + dead rows; files ordered by first index, strictly
   consecutive indexes without gaps; offsets increasing and inside the file; cached length of slot 0 agrees with the
   file) preserved by every operation (Step.v, SaveStep.v); slot search correctness (Search.v); read path
   allEntries = limit_size of the slice (Read.v). *)
Theorem C17_refines : forall (P : params) (ops : list sop),
  wf_params P = true ->
  let out := outputs_disk VZeroSlots P ops (empty_disk P) in
  valid_spec P ops (map r_first out) empty_alog ->
  out = outputs_spec ops (map r_first out) empty_alog
  /\ abs (run_disk VZeroSlots P ops (empty_disk P)) = run_spec ops (map r_first out) empty_alog.
Proof.
  intros P ops HP out Hv.
  destruct (refines_from_z P HP ops (empty_disk P) 1 [] (empty_disk_invz P) Hv) as (O & R & _). split; assumption.
Qed.
Print Assumptions C17_refines.

(* The same statement for the fallback of zeroSlots (a file wrapper without ZeroSlots: WriteSlice with a buffer 4
   bytes shorter than the range, the zero-fill of /repo 6bd4b1a), which leaves the 4-byte prefix in the first cleared
   slot. *)
Theorem C17_refines_prefix_fill : forall (P : params) (ops : list sop),
  wf_params P = true ->
  let out := outputs_disk VRepaired P ops (empty_disk P) in
  valid_spec P ops (map r_first out) empty_alog ->
  out = outputs_spec ops (map r_first out) empty_alog
  /\ abs (run_disk VRepaired P ops (empty_disk P)) = run_spec ops (map r_first out) empty_alog.
Proof. intros P ops HP. exact (refines_from P HP ops (empty_disk P) 1 [] (empty_disk_inv P) (empty_disk_sd P)). Qed.
Print Assumptions C17_refines_prefix_fill.

(* the hypotheses are satisfiable: a history with rotation (4 slots per file), a conflict into the rotated file, a
   snapshot, a prefix deletion, reopen, size-limited reads, full scan *)
Definition demo_params := mkparams 4 160 4096.
Definition demo_ops : list sop :=
  [ Save (seg 1 6 1 0 5 7) (Some (mkhs 1 1 6)) None; Save (seg 3 1 2 0 5 900) None (Some (mksnap 2 1 (Some [1;2]) 9));
    Entries 1 3 1000; Term 2; CreateSnap 3 None 4; DeleteBefore 3; Reopen; Entries 2 4 20; Sum; GetMeta ].
Example C17_refines_hyp_satisfiable :
  wf_params demo_params = true /\
  let out := outputs_disk VZeroSlots demo_params demo_ops (empty_disk demo_params) in
  valid_spec demo_params demo_ops (map r_first out) empty_alog.
Proof.
  split; [reflexivity|]. vm_compute.
  repeat match goal with
         | |- _ /\ _ => split
         | |- Forall _ _ => constructor
         | |- _ \/ _ => first [left; reflexivity | right]
         | |- True => exact I
         | |- _ = _ => reflexivity
         | |- _ -> False => let H := fresh in intro H; discriminate H
         end.
Qed.

(* one step, from any state satisfying the invariant: invariant kept, same abstract state, same answer. For the
   variant of the tree the invariant also says that no rotated file holds a dead (cleared but not rewritten) slot. *)
Theorem C17_step_refines : forall P, wf_params P = true -> forall o d i0 Ac,
  dinvz P i0 d Ac -> valid_op P o (abs d) -> step_ok_z P o d.
Proof. exact step_all_z. Qed.
Print Assumptions C17_step_refines.
Theorem C17_step_refines_prefix_fill : forall P, wf_params P = true -> forall o d i0 Ac,
  dinv P i0 d Ac -> Sd d -> valid_op P o (abs d) -> step_ok P o d /\ Sd (fst (step_disk VRepaired P o d)).
Proof. exact step_all. Qed.

(* ZeroSlots(lo, hi) with hi at or beyond the written part of a file keeps exactly the live rows below lo - slot
   records AND payload cells - and leaves no dead slot behind (nothing outside the slot records [lo, hi) is touched:
   no prefix in slot lo, no overrun into the data area). *)
Theorem C17_zero_slots_exact : forall P hi lo f A D,
  fview P f A D -> (lo < length A)%nat -> f_n f <= hi ->
  fview P (zero_slots hi (N.of_nat lo) f) (firstn lo A) [].
Proof. exact zero_slots_view. Qed.
Print Assumptions C17_zero_slots_exact.

(* ================================================================================================================ *)
(* A SAVE THAT FAILS (Model.save_fail: the write that clears the discarded slots, the payload or slot write of entry
   number j or the rotation before it, the hard state write, the snapshot write). For every state of the invariant,
   every batch that respects Raft's contract and every fault:
   - a fault that does not apply is no fault (the result is the ordinary Save);
   - otherwise the error is reported and the abstract log is, depending on the fault (Fault.failed_log):
       clearing write  : a PREFIX OF THE OLD LOG THAT STILL HOLDS THE CONFLICTING INDEX - the old log unchanged when
                         the conflict lies in the current file, the old log cut at the end of the file that holds the
                         conflicting index when it lies in a rotated file (the later files are already deleted) -
                         never the truncation prefix, never anything of the batch; meta untouched;
       entry j         : the specification's truncation prefix (everything below the first new index) followed by the
                         first j entries of the batch; meta untouched;
       hard state      : the specification's Append result; meta untouched;
       snapshot        : the specification's Append result; the new hard state is stored, the snapshot is the old one. *)
Theorem C17_failed_save_log : forall P, wf_params P = true -> forall d i0 Ac e0 r h s ft,
  dinvz P i0 d Ac -> valid_batch P e0 r (log_of d) ->
  let es := e0 :: r in
  let res := save_fail VZeroSlots P es h s ft d in
  (fst res = false -> snd res = fst (step_disk VZeroSlots P (Save es h s) d))
  /\ (fst res = true -> failed_log ft e0 r h (abs d) (abs (snd res))).
Proof. exact failed_save_log. Qed.
Print Assumptions C17_failed_save_log.

(* ... and the caller's retry (RaftNode.SaveToStorage repeats the Save until it succeeds): EVERY failure state satisfies
   the invariant again (so every theorem above - reads, snapshots, prefix deletion, reopen - applies to operations issued
   before the retry, or to a restart instead of it), the same batch is a valid Save in it, and saving it again yields
   exactly the answer and the abstract state of the specification's Save on the state before the failure. The invariant
   covers the two shapes a failure can leave that no successful operation produces: an empty current file beside older
   files (the first write into a file just created by a rotation failed; or nothing of the batch is visible and the
   first new index is the first index of a file that is not the oldest). *)
Theorem C17_failed_save_retry : forall P, wf_params P = true -> forall d i0 Ac e0 r h s ft,
  dinvz P i0 d Ac -> valid_batch P e0 r (log_of d) ->
  let es := e0 :: r in
  let res := save_fail VZeroSlots P es h s ft d in
  fst res = true ->
  (exists i1 Ac1, dinvz P i1 (snd res) Ac1)
  /\ valid_op P (Save es h s) (abs (snd res))
  /\ step_spec (Save es h s) 0 (abs (snd res)) = step_spec (Save es h s) 0 (abs d)
  /\ let '(d2, x2) := step_disk VZeroSlots P (Save es h s) (snd res) in
     (abs d2, x2) = step_spec (Save es h s) 0 (abs d).
Proof. exact failed_save_retry. Qed.
Print Assumptions C17_failed_save_retry.

(* Process death inside the entry loop of a Save, then restart: killed before the slot record of entry j is written (with
   or without any part of its payload - a payload without slot record belongs to no row), the directory is the state of
   save_fail (FEntry j _); Init answers with everything below the first new index followed by the first j entries of the
   batch, minus what Init compacts; hard state and snapshot are the old ones; the invariant holds again. *)
Theorem C17_crash_in_loop_then_reopen : forall P, wf_params P = true -> forall d i0 Ac e0 r h s j rot,
  dinvz P i0 d Ac -> valid_batch P e0 r (log_of d) -> (j < length (e0 :: r))%nat ->
  let d1 := snd (save_fail VZeroSlots P (e0 :: r) h s (FEntry j rot) d) in
  let d2 := reopen P d1 in
  abs d2 = mkalog (drop_below (disk_first d2) (below_idx (e_index e0) (log_of d) ++ firstn j (e0 :: r))) (d_meta d)
  /\ exists i2 Ac2, dinvz P i2 d2 Ac2.
Proof. exact crash_in_loop_then_reopen. Qed.
Print Assumptions C17_crash_in_loop_then_reopen.

(* hypotheses satisfiable, every fault kind reported at least once: three files of 4 slots, a conflicting Save into
   the first one with hard state and snapshot *)
Definition fault_ops : list sop := [ Save (seg 1 10 1 0 5 7) (Some (mkhs 1 1 9)) None ].
Definition fault_d := run_disk VZeroSlots demo_params fault_ops (empty_disk demo_params).
Definition fault_es := seg 3 2 2 0 6 50.
Example C17_failed_save_hyp_satisfiable :
  length (d_files fault_d) = 2%nat
  /\ map (fun ft => fst (save_fail VZeroSlots demo_params fault_es (Some (mkhs 2 2 4)) (Some (mksnap 2 1 (Some [1]) 9)) ft fault_d))
         [FClear 0; FEntry 0 false; FEntry 1 true; FHs; FSnap; FEntry 2 false]
     = [true; true; true; true; true; false]
  /\ map (fun ft => map e_index (a_ents (abs (snd (save_fail VZeroSlots demo_params fault_es (Some (mkhs 2 2 4)) None ft fault_d)))))
         [FClear 0; FEntry 0 false; FEntry 1 true; FHs]
     = [[1; 2; 3; 4]; [1; 2]; [1; 2; 3]; [1; 2; 3; 4]].
Proof. vm_compute. repeat split. Qed.

(* finite exploration with faults (vm_compute, not a general theorem): in every state reached by up to 2 operations of
   Scope.ops_for (3 slots and 42 data bytes per file), every Save of the alphabet with every fault: a reported failure
   leaves a state that reads like Fault.failed_log says (first/last index, full scan, Term and Entries at the
   boundaries - settled or not) and the retry gives the specification's answer and state; an unreported one must be
   indistinguishable from a Save, also after reopen. The WriteSlice variants drop the error of the clearing write and
   fail this check. Depth 3 (74 060 reported faults) runs in the thorough tier. *)
Example C17_faults_small_scope : explore_f VZeroSlots tiny_params 2 (empty_disk tiny_params) empty_alog = true.
Proof. vm_compute. reflexivity. Qed.
Example C17_faults_small_scope_size : count_faults VZeroSlots tiny_params 2 (empty_disk tiny_params) empty_alog = 4805.
Proof. vm_compute. reflexivity. Qed.
Example C17_faults_small_scope_rejects_prefix_fill : explore_f VRepaired tiny_params 2 (empty_disk tiny_params) empty_alog = false.
Proof. vm_compute. reflexivity. Qed.
Example C17_refines_small_scope_zeroslots : explore VZeroSlots tiny_params 4 (empty_disk tiny_params) empty_alog = true.
Proof. vm_compute. reflexivity. Qed.

(* pieces worth naming *)

Theorem C17_slot_search_old : forall P d i0 Ac, dinv P i0 d Ac -> forall pre f post A D i,
  d_files d = pre ++ f :: post -> fview P f A D ->
  i0 + flen pre <= i -> i < i0 + flen pre + N.of_nat (length A) ->
  slot_ge P d i = (InOld (length pre), Some (i - (i0 + flen pre))).
Proof. exact slot_ge_old. Qed.
Theorem C17_read_path : forall P lo hi max d i0 Ac,
  dinv P i0 d Ac -> 1 <= hi -> i0 <= lo ->
  exists d',
    all_entries P lo hi max d = (rev (snd (take_scan hi max 0 [] (skipn (N.to_nat (lo - i0)) (log_of d)))), d')
    /\ dinv P i0 d' Ac /\ log_of d' = log_of d /\ d_meta d' = d_meta d /\ d_next d' = d_next d.
Proof. exact all_entries_spec. Qed.
Theorem C17_read_limit : forall hi max S i,
  consec i S -> rev (snd (take_scan hi max 0 [] S)) = limit_size max (firstn (N.to_nat (hi - i)) S).
Proof. exact take_scan_limit. Qed.
Print Assumptions C17_read_path.

(* ================================================================================================================ *)
(* TEARS INSIDE ONE WRITE CALL (Tear.v). A write that spans several pages is cut at a page boundary when the process is
   killed; a write inside one page arrives or does not. *)

(* sort.Search as the Go library implements it, on a table that is false up to position k and true from there on,
   answers k: the "first position" search of the model IS the binary search of firstEmptySlot / slotGe on every file of
   the invariant (live rows, then dead rows, then never written slots) *)
Theorem C17_binsearch_first : forall n k f, mono_at n k f -> bsearch n f = k.
Proof. exact bsearch_first. Qed.
Theorem C17_first_empty_is_binsearch : forall P f A D i0,
  fview P f A D -> 1 <= i0 -> first_empty_bin P f = first_empty_slot P f.
Proof. exact first_empty_bin_view. Qed.
Print Assumptions C17_first_empty_is_binsearch.

(* the slot record of an entry lies inside one page: its write is never torn (so an entry is there or not - the
   granularity of Crash.v) *)
Theorem C17_slot_in_one_page : forall p, (entry_sz * p) / page = (entry_sz * p + entry_sz - 1) / page.
Proof. exact slot_in_one_page. Qed.

(* clearing the discarded slots in pieces from the top down (fix5.patch; each piece inside one page): after any number of
   pieces the file is exactly the live rows below the lowest cleared slot - a prefix of the old entries, no hole, no
   dead slot - whatever the piece boundaries *)
Theorem C17_clear_topdown_crash : forall P cuts f A D,
  fview P f A D -> descending (length A) cuts ->
  fview P (clear_down (map N.of_nat cuts) f) (firstn (last cuts (length A)) A) (match cuts with [] => D | _ => [] end).
Proof. exact clear_down_view. Qed.
Print Assumptions C17_clear_topdown_crash.

(* removing the later files of a conflict newest first (fix4.patch): every crash point leaves a prefix of the file list *)
Theorem C17_remove_newest_first_prefix : forall (kept later : list (list entry)) j,
  exists n, kept ++ removed_newest_first j later = firstn n (kept ++ later) /\ (length kept <= n)%nat.
Proof. exact remove_newest_first_prefix. Qed.

(* a meta record written with one write call (fix3.patch) is the old or the new one at every crash point *)
Theorem C17_meta_one_write_atomic : forall old new k,
  mcrash k (snap_writes_repaired new) old = old \/ mcrash k (snap_writes_repaired new) old = new.
Proof. exact meta_one_write_atomic. Qed.
Print Assumptions C17_meta_one_write_atomic.

(* ================================================================================================================ *)
(* THE BYTE LAYER (Bytes.v). The model speaks of slot records and length-prefixed records; these are their bytes in the
   files, and reading the bytes back gives the records. The correspondence compares [window_bytes] / [hs_record] /
   [snap_header] of the model state with the bytes of the real files on every run (Corr.check_bytes), so the refinement
   statements above are statements about file contents. *)

(* a slot record: 4 big-endian uint64 (term, index, type, offset) *)
Theorem C17_slot_bytes_round : forall s rest, slot_u64 s -> slot_of_bytes (slot_bytes s ++ rest) = s.
Proof. exact slot_round. Qed.
(* the slot table of a file, read back 32 bytes at a time, is the model's slot table *)
Theorem C17_table_bytes_round : forall f n, (forall p, slot_u64 (slot_at f p)) ->
  map slot_of_bytes (chunks32 n (table_bytes f n)) = map (fun p => slot_at f (N.of_nat p)) (seq 0 n).
Proof. exact table_round. Qed.
(* protobuf varints (up to 70 bits, uint64 included) and length-prefixed records *)
Theorem C17_varint_round : forall fuel x rest, x < 128 ^ N.of_nat (S fuel) ->
  varint_dec (varint_enc (S fuel) x ++ rest) = Some (x, rest).
Proof. exact varint_round. Qed.
Theorem C17_lp_record_round : forall payload rest, N.of_nat (length payload) < 256 ^ 4 -> lp_read (lp_record payload ++ rest) = payload.
Proof. exact lp_round. Qed.
(* the hard state record at offset 512 of raft.meta: [len:4] + raftpb.HardState.Marshal; whatever follows it in the file,
   reading the record and parsing it gives the hard state back *)
Theorem C17_hs_record_round : forall h rest, u64 (hs_term h) -> u64 (hs_vote h) -> u64 (hs_commit h) -> hs_is_empty h = false ->
  hs_of_pb (lp_read (hs_record h ++ rest)) = Some h.
Proof. exact hs_record_round. Qed.
Print Assumptions C17_hs_record_round.
Print Assumptions C17_table_bytes_round.

(* A DeleteBefore in which a removal fails (Model.delete_fail; /repo 9bfc733 removes oldest first, stops at the first failed
   removal and reports it): the invariant holds, the log is the old log without some of its first entries - all below the
   requested index -, meta is untouched, and every file the undisturbed call keeps is still there. *)
Theorem C17_delete_fault : forall P d i0 Ac j i d1,
  dinv P i0 d Ac -> delete_fail P j i d = Some d1 ->
  (exists i1, dinv P i1 d1 Ac /\ i1 <= j)
  /\ (exists n, log_of d1 = skipn n (log_of d) /\ (N.of_nat n + first_of (log_of d) <= j \/ n = 0%nat))
  /\ d_meta d1 = d_meta d
  /\ exists k, (i < k)%nat /\ d_files (snd (delete_before P j d)) = skipn k (d_files d) /\ d_files d1 = skipn i (d_files d).
Proof. exact delete_fail_state. Qed.
Print Assumptions C17_delete_fault.
