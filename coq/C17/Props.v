(* C17 property theorems. Nothing but statements closed by `exact lemma` and Print Assumptions. *)
From Coq Require Import NArith List Bool.
From OG Require Import C17.Model C17.Proofs.
Import ListNotations.
Open Scope N_scope.

(* Specification level (alog = etcd MemoryStorage as the store exposes it). *)

(* appending at an index that already exists discards that entry and everything after it; the log stays a run of
   consecutive indexes; the last index is the end of the batch *)
Theorem C17_spec_append : forall es l e0 r,
  es = e0 :: r -> wf_log l -> consec (e_index e0) es -> 1 <= e_index e0 ->
  (l = [] \/ (first_of l <= e_index e0 /\ e_index e0 <= last_of l + 1)) ->
  wf_log (s_append es l)
  /\ s_append es l = filter (fun e => e_index e <? e_index e0) l ++ es
  /\ last_of (s_append es l) = e_index e0 + N.of_nat (length es) - 1.
Proof. exact s_append_wf. Qed.
Print Assumptions C17_spec_append.

(* compacted prefixes report 'compacted', ranges beyond the end report 'unavailable', everything else is answered *)
Theorem C17_spec_entries_compacted : forall lo hi max l, lo < first_of l -> s_entries lo hi max l = (Compacted, []).
Proof. exact s_entries_compacted. Qed.
Theorem C17_spec_entries_unavailable : forall lo hi max l,
  first_of l <= lo -> last_of l + 1 < hi -> s_entries lo hi max l = (Unavailable, []).
Proof. exact s_entries_unavailable. Qed.
Theorem C17_spec_entries_ok : forall lo hi max l, first_of l <= lo -> hi <= last_of l + 1 ->
  s_entries lo hi max l = (Ok, limit_size max (slice lo hi l)).
Proof. exact s_entries_ok. Qed.
Print Assumptions C17_spec_entries_ok.

(* the size limit returns a prefix, never less than one entry, everything when it fits, and cuts exactly where the
   running size first exceeds the limit *)
Theorem C17_spec_limit_prefix : forall max l, exists k, limit_size max l = firstn k l.
Proof. exact limit_size_prefix. Qed.
Theorem C17_spec_limit_at_least_one : forall max e r, exists t, limit_size max (e :: r) = e :: t.
Proof. exact limit_size_at_least_one. Qed.
Theorem C17_spec_limit_all : forall max l, total_size l <= max -> limit_size max l = l.
Proof. exact limit_size_all. Qed.
Print Assumptions C17_spec_limit_all.
