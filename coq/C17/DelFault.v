(* C17: DeleteBefore in which a removal fails (Model.delete_fail): the error is reported, the state left behind is the
   state of a DeleteBefore that stopped earlier - the invariant holds, the log is a suffix of the old log that still
   holds everything from the requested index on - and asking again ends exactly where the undisturbed call ends. *)
From Coq Require Import NArith PeanoNat List Bool Lia ZifyBool ZifyN ZifyNat.
From OG Require Import C17.Model C17.Proofs C17.Refine C17.Inv C17.Search C17.Read C17.Step.
Import ListNotations.
Open Scope N_scope.

Lemma skipn_skipn_ : forall {T} a b (l : list T), skipn a (skipn b l) = skipn (b + a) l.
Proof. intros T a b. induction b as [|b IH]; intro l; [reflexivity|]. destruct l; [now rewrite !skipn_nil|]. cbn [Nat.add skipn]. apply IH. Qed.

(* dropping the i oldest files of a chain *)
Lemma dinv_skip_files : forall P i0 d Ac i, dinv P i0 d Ac -> (i <= length (d_files d))%nat ->
  let d1 := mkdisk (skipn i (d_files d)) (d_cur d) (d_next d) (d_meta d) in
  dinv P (i0 + flen (firstn i (d_files d))) d1 Ac
  /\ log_of d1 = skipn (N.to_nat (flen (firstn i (d_files d)))) (log_of d).
Proof.
  intros P i0 d Ac i I Hi d1. pose proof I as (H1 & Hch & V & C & Hn & HKl).
  assert (Hsplit : d_files d = firstn i (d_files d) ++ skipn i (d_files d)) by (symmetry; apply firstn_skipn).
  set (pre := firstn i (d_files d)) in *. set (post := skipn i (d_files d)) in *.
  assert (Hch2 : chain P i0 pre /\ chain P (i0 + flen pre) post) by (apply chain_app; rewrite <- Hsplit; exact Hch).
  assert (Hfl : flen (d_files d) = flen pre + flen post) by (rewrite Hsplit at 1; apply flen_app).
  assert (I1 : dinv P (i0 + flen pre) d1 Ac).
  { unfold dinv, d1. cbn [d_files d_cur d_next]. split; [lia|]. split; [tauto|]. split; [exact V|].
    split; [replace (i0 + flen pre + flen post) with (i0 + flen (d_files d)) by lia; exact C|].
    split; [exact Hn|]. intro E. specialize (HKl E). rewrite Hsplit in HKl. apply Forall_app in HKl. tauto. }
  split; [exact I1|].
  rewrite (inv_log P d1 _ Ac I1), (inv_log P d i0 Ac I). unfold d1. cbn [d_files]. fold post.
  replace (concat (map file_entries (d_files d))) with (concat (map file_entries pre) ++ concat (map file_entries post))
    by (rewrite Hsplit, map_app, concat_app; reflexivity).
  rewrite <- app_assoc.
  replace (N.to_nat (flen pre)) with (length (concat (map file_entries pre))) by (unfold flen; lia).
  now rewrite skipn_exact.
Qed.

Theorem delete_fail_state : forall P d i0 Ac j i d1,
  dinv P i0 d Ac -> delete_fail P j i d = Some d1 ->
  (* the invariant holds; the log is the old log without its first n entries, all of them below j; meta untouched *)
  (exists i1, dinv P i1 d1 Ac /\ i1 <= j)
  /\ (exists n, log_of d1 = skipn n (log_of d) /\ (N.of_nat n + first_of (log_of d) <= j \/ n = 0%nat))
  /\ d_meta d1 = d_meta d
  (* fewer files are gone than the undisturbed call removes: what it keeps is still there *)
  /\ exists k, (i < k)%nat /\ d_files (snd (delete_before P j d)) = skipn k (d_files d) /\ d_files d1 = skipn i (d_files d).
Proof.
  intros P d i0 Ac j i d1 I Hdf. pose proof I as (H1 & Hch & V & C & Hn & HKl).
  unfold delete_fail in Hdf.
  destruct (inv_cases P d i0 Ac I) as [(EA & Ef & Hl)|Hne].
  { rewrite (slot_ge_empty P d i0 Ac I EA Ef j) in Hdf. discriminate. }
  assert (Hf : first_of (log_of d) = i0) by (apply (inv_first P d i0 Ac I Hne)).
  set (c0 := i0 + flen (d_files d)) in *.
  (* k = number of files DeleteBefore j removes; in both shapes the kept files are skipn k *)
  assert (Hk : exists k, (i < k)%nat /\ (k <= length (d_files d))%nat /\ i0 + flen (firstn k (d_files d)) <= j
                         /\ snd (delete_before P j d) = mkdisk (skipn k (d_files d)) (d_cur d) (d_next d) (d_meta d)
                         /\ d1 = mkdisk (skipn i (d_files d)) (d_cur d) (d_next d) (d_meta d)).
  { destruct (j <? i0) eqn:E1.
    { destruct (d_files d) as [|f0 t0] eqn:Ef.
      - rewrite (slot_ge_below_nofiles P d i0 Ac I Ef j) in Hdf by lia. discriminate.
      - destruct (slot_ge_below_files P d i0 Ac I ltac:(rewrite Ef; discriminate) j ltac:(lia)) as (k & Hs).
        rewrite Hs in Hdf. discriminate. }
    destruct (j <? c0) eqn:E2.
    - destruct (chain_locate P (d_files d) i0 j Hch ltac:(lia) ltac:(unfold c0 in E2; lia))
        as (pre & f & post & A & D & Hfs & Vf & Hfi1 & Hfi2).
      pose proof (slot_ge_old P d i0 Ac I pre f post A D j Hfs Vf Hfi1 Hfi2) as Hs.
      rewrite Hs in Hdf. destruct (Nat.ltb i (length pre)) eqn:Ei; [|discriminate]. apply Nat.ltb_lt in Ei. injection Hdf as <-.
      exists (length pre). split; [exact Ei|]. split; [rewrite Hfs, app_length; lia|].
      split; [rewrite Hfs, firstn_app, firstn_all, Nat.sub_diag; cbn [firstn]; rewrite app_nil_r; exact Hfi1|].
      split; [unfold delete_before; rewrite Hs; reflexivity|reflexivity].
    - assert (Hsel : exists p, slot_ge P d j = (InCur, Some p) \/ exists k, slot_ge P d j = (InOld k, Some p) /\ S k = length (d_files d)).
      { destruct (nil_or_not Ac) as [EA|EA].
        - assert (Ef : d_files d <> []) by (intro Ef; apply Hne; rewrite (inv_log P d i0 Ac I), Ef, EA; reflexivity).
          destruct (exists_last Ef) as (pre & f & Hfs).
          destruct (slot_ge_files_beyond P d i0 Ac I EA pre f j Hfs ltac:(fold c0; lia)) as (A & D & Vf & HAf & Cf & Hs).
          eexists. right. exists (length pre). split; [exact Hs|]. rewrite Hfs, app_length. cbn. lia.
        - destruct (j <? c0 + N.of_nat (length Ac)) eqn:E3.
          + eexists. left. apply (slot_ge_cur_inside P d i0 Ac I j); fold c0; lia.
          + eexists. left. apply (slot_ge_cur_beyond P d i0 Ac I j EA). fold c0. lia. }
      destruct Hsel as (p & [Hs|(k & Hs & Hkl)]); rewrite Hs in Hdf.
      + destruct (Nat.ltb i (length (d_files d))) eqn:Ei; [|discriminate]. apply Nat.ltb_lt in Ei. injection Hdf as <-.
        exists (length (d_files d)). split; [exact Ei|]. split; [lia|]. split; [rewrite firstn_all; fold c0; lia|].
        split; [unfold delete_before; rewrite Hs; cbn [snd]; now rewrite skipn_all|reflexivity].
      + destruct (Nat.ltb i k) eqn:Ei; [|discriminate]. apply Nat.ltb_lt in Ei. injection Hdf as <-.
        exists k. split; [exact Ei|]. split; [lia|]. split.
        { pose proof (flen_app (firstn k (d_files d)) (skipn k (d_files d))) as F. rewrite firstn_skipn in F. fold c0. unfold c0 in *. lia. }
        split; [unfold delete_before; rewrite Hs; reflexivity|reflexivity]. }
  destruct Hk as (k & Hik & Hkl & Hkj & Hdone & ->).
  destruct (dinv_skip_files P i0 d Ac i I ltac:(lia)) as [I1 L1]. cbv zeta in I1, L1.
  assert (Hmono : flen (firstn i (d_files d)) <= flen (firstn k (d_files d))).
  { replace (firstn i (d_files d)) with (firstn i (firstn k (d_files d))) by (rewrite firstn_firstn; f_equal; lia).
    pose proof (flen_app (firstn i (firstn k (d_files d))) (skipn i (firstn k (d_files d)))) as F. rewrite firstn_skipn in F. lia. }
  split; [eexists; split; [exact I1|lia]|]. split.
  { eexists. split; [exact L1|]. rewrite Hf. left. lia. }
  split; [reflexivity|].
  exists k. rewrite Hdone. cbn [d_files]. auto.
Qed.
