(* C17: Save (AddEntries with the repaired zero-fill) refines Append and keeps the invariant. *)
From Coq Require Import NArith PeanoNat List Bool Lia ZifyBool ZifyN ZifyNat.
From OG Require Import C17.Model C17.Proofs C17.Refine C17.Inv C17.Search C17.Read C17.Step.
Import ListNotations.
Open Scope N_scope.

Lemma wf_params_facts : forall P, wf_params P = true ->
  1 <= max_entries P /\ entry_sz * max_entries P + 4 <= data_off P /\ data_off P + 4 <= max_size P.
Proof.
  intros P H. unfold wf_params in H. apply andb_true_iff in H as [H H4]. apply andb_true_iff in H as [H H3].
  apply andb_true_iff in H as [H1 H2]. clear H3. apply N.leb_le in H1, H2, H4. auto.
Qed.

Lemma row_entry_new : forall off e, row_entry (new_row off e) = e.
Proof.
  intros off e. unfold row_entry, new_row. cbn [r_slot r_cell s_index s_term_ s_type c_lenw].
  rewrite read_cell_intact. now destruct e.
Qed.

Lemma resize_view : forall P f A D sz,
  fview P f A D -> (forall x, In x A -> s_off (r_slot x) < sz) ->
  fview P (mkfile (f_id f) (f_n f) (f_rows f) sz (f_c0 f) (f_fresh f)) A D.
Proof.
  intros P f A D sz [V1 V2 V3 V4 V5 V6 V7] H. constructor; auto.
  cbn [f_size]. apply Forall_forall. intros x Hx. rewrite Forall_forall in V4.
  destruct (V4 x Hx) as (G1 & G2 & G3 & G4). repeat split; auto.
Qed.

Lemma new_file_view : forall P x b, fview P (new_file P x b) [] [].
Proof. intros. constructor; cbn; try reflexivity; try constructor. lia. Qed.

(* a file without dead rows: every written slot is live *)
Lemma view_all_live : forall P f A, fview P f A [] -> all_live f.
Proof.
  intros P f A V. unfold all_live. rewrite (fv_rows P f A [] V), forallb_rev, app_nil_r.
  eapply Forall_good_live. exact (fv_good _ _ _ _ V).
Qed.

(* the state inside the append loop: the current file is (A, D), [off] is where the next payload goes *)
Definition linv (P : params) (i0 : N) (d : disk) (A D : list row) (off : N) : Prop :=
  1 <= i0 /\ chain P i0 (d_files d) /\ fview P (d_cur d) A D
  /\ consec (i0 + flen (d_files d)) (map row_entry A)
  /\ d_next d = N.of_nat (length A) /\ 0 < off
  /\ (forall x, In x A -> s_off (r_slot x) < off) /\ (A = [] -> off = data_off P) /\ (length D <= 1)%nat.

Lemma append_loop_inv : forall P, wf_params P = true -> forall es off d i0 A D,
  linv P i0 d A D off ->
  consec (i0 + flen (d_files d) + N.of_nat (length A)) es ->
  Forall (fun e => e_index e <> 0) es -> Forall (fits P) es ->
  (es = [] -> D = [] /\ (A = [] -> d_files d = [])) ->
  exists Ac', dinv P i0 (append_loop P es off d) Ac'
              /\ log_of (append_loop P es off d) = concat (map file_entries (d_files d)) ++ map row_entry A ++ es
              /\ d_meta (append_loop P es off d) = d_meta d
              /\ (D = [] -> Forall all_live (d_files d) -> Forall all_live (d_files (append_loop P es off d)))
              /\ (A <> [] \/ es <> [] -> Ac' <> []).
Proof.
  intros P HP. destruct (wf_params_facts P HP) as (Hmax & Hoffp & Hsz).
  induction es as [|e r IH]; intros off d i0 A D L C Hnz Hfit Hend.
  - destruct L as (H1 & Hch & V & Cc & Hn & Hoff & Hlt & Hnil & HD). destruct (Hend eq_refl) as [-> HA].
    cbn [append_loop]. exists A. split; [|split; [|split; [reflexivity|split; [auto|intros [X|X]; congruence]]]].
    + unfold dinv. repeat (split; [assumption|]). intro E. rewrite (HA E). constructor.
    + rewrite log_of_eq, (fv_entries P (d_cur d) A [] V), app_nil_r. reflexivity.
  - destruct L as (H1 & Hch & V & Cc & Hn & Hoff & Hlt & Hnil & HD).
    inversion Hnz as [|? ? He Hnz']; subst. inversion Hfit as [|? ? Hfe Hfit']; subst.
    destruct C as [Hei Cr].
    cbn [append_loop].
    destruct ((max_entries P <=? d_next d) || (max_size P <? off + 4 + p_len (e_data e))) eqn:Erot.
    + (* rotate, then write into the new file *)
      assert (HA : A <> []).
      { intro E. subst A. rewrite (Hnil eq_refl) in Erot. cbn [length N.of_nat] in Hn. rewrite Hn in Erot.
        unfold fits in Hfe. destruct (max_entries P <=? 0) eqn:E1; [lia|]. destruct (max_size P <? data_off P + 4 + p_len (e_data e)) eqn:E2; [lia|].
        discriminate. }
      cbn [rotate d_files d_cur d_next d_meta].
      set (c' := mkfile (f_id (d_cur d)) (f_n (d_cur d)) (f_rows (d_cur d)) off (f_c0 (d_cur d)) (f_fresh (d_cur d))).
      set (nf := new_file P (max_fid d + 1) true).
      assert (Vc' : fview P c' A D) by (apply resize_view; assumption).
      destruct (write_row_view P nf [] [] (data_off P) e (new_file_view P _ _) He ltac:(lia)
                  ltac:(intros x []) ltac:(intros _; cbn; lia)) as (Vw & _ & _).
      cbn [length N.of_nat app tl] in Vw.
      assert (Hflen : flen (d_files d ++ [c']) = flen (d_files d) + N.of_nat (length A)).
      { rewrite flen_app, (flen_cons P c' A D [] Vc'), flen_nil. lia. }
      assert (Hch' : chain P i0 (d_files d ++ [c'])).
      { apply chain_app. split; [exact Hch|]. cbn [chain]. exists A, D. auto. }
      set (d2 := mkdisk (d_files d ++ [c']) (write_row 0 (data_off P) e nf) (0 + 1) (d_meta d)).
      assert (L2 : linv P i0 d2 [new_row (data_off P) e] [] (data_off P + 4 + p_len (e_data e))).
      { unfold linv, d2. cbn [d_files d_cur d_next]. rewrite Hflen.
        split; [exact H1|]. split; [exact Hch'|]. split; [exact Vw|].
        split; [cbn [map consec]; rewrite row_entry_new; split; [lia|exact Logic.I]|].
        split; [reflexivity|]. split; [lia|].
        split; [intros x [<-|[]]; cbn; lia|]. split; [discriminate|]. cbn. lia. }
      destruct (IH (data_off P + 4 + p_len (e_data e)) d2 i0 [new_row (data_off P) e] [] L2) as (Ac' & I' & Lg & Mt & Al & Ne); auto.
      * unfold d2. cbn [d_files length]. rewrite Hflen. replace (i0 + (flen (d_files d) + N.of_nat (length A)) + N.of_nat 1) with (i0 + flen (d_files d) + N.of_nat (length A) + 1) by lia. exact Cr.
      * intros _. split; [reflexivity|discriminate].
      * exists Ac'. split; [exact I'|]. split; [|split; [exact Mt|split; [|intros _; apply Ne; left; discriminate]]].
        -- rewrite Lg. unfold d2. cbn [d_files map]. rewrite row_entry_new, map_app, concat_app. cbn [map concat].
           rewrite (fv_entries P c' A D Vc'), app_nil_r, <- !app_assoc. reflexivity.
        -- intros ED Hal. apply Al; [reflexivity|]. unfold d2. cbn [d_files]. apply Forall_app. split; [exact Hal|].
           constructor; [|constructor]. subst D. exact (view_all_live P c' A Vc').
    + (* write into the current file *)
      apply orb_false_iff in Erot as [E1 E2].
      destruct (write_row_view P (d_cur d) A D off e V He Hoff Hlt) as (Vw & _ & _).
      { intros ->. rewrite (fv_n _ _ _ _ V), app_nil_r. rewrite Hn in E1. lia. }
      rewrite Hn.
      set (d2 := mkdisk (d_files d) (write_row (N.of_nat (length A)) off e (d_cur d)) (N.of_nat (length A) + 1) (d_meta d)).
      assert (L2 : linv P i0 d2 (A ++ [new_row off e]) (tl D) (off + 4 + p_len (e_data e))).
      { unfold linv, d2. cbn [d_files d_cur d_next].
        split; [exact H1|]. split; [exact Hch|]. split; [exact Vw|].
        split; [rewrite map_app; apply consec_app; [exact Cc|]; rewrite map_length; cbn [map consec]; rewrite row_entry_new; split; [lia|exact Logic.I]|].
        split; [rewrite app_length; cbn [length]; lia|]. split; [lia|].
        split; [intros x Hx; apply in_app_or in Hx as [Hx|[<-|[]]]; [specialize (Hlt x Hx); lia|cbn; lia]|].
        split; [intro E; destruct A; discriminate|]. destruct D as [|? [|? ?]]; cbn in *; lia. }
      destruct (IH (off + 4 + p_len (e_data e)) d2 i0 (A ++ [new_row off e]) (tl D) L2) as (Ac' & I' & Lg & Mt & Al & Ne); auto.
      * unfold d2. cbn [d_files]. rewrite app_length. cbn [length].
        replace (i0 + flen (d_files d) + N.of_nat (length A + 1)) with (i0 + flen (d_files d) + N.of_nat (length A) + 1) by lia. exact Cr.
      * intros _. split; [destruct D as [|? [|? ?]]; cbn in *; [reflexivity|reflexivity|lia]|intro E; destruct A; discriminate].
      * exists Ac'. split; [exact I'|]. split; [|split; [exact Mt|split; [|intros _; apply Ne; left; intro X; destruct A; discriminate]]].
        -- rewrite Lg. unfold d2. cbn [d_files]. rewrite map_app. cbn [map]. rewrite row_entry_new, <- !app_assoc. reflexivity.
        -- intros ED Hal. apply Al; [subst D; reflexivity|exact Hal].
Qed.

Lemma append_loop_inv_ne : forall P, wf_params P = true -> forall e r off d i0 A D,
  linv P i0 d A D off ->
  consec (i0 + flen (d_files d) + N.of_nat (length A)) (e :: r) ->
  Forall (fun e => e_index e <> 0) (e :: r) -> Forall (fits P) (e :: r) ->
  (e :: r = [] -> D = [] /\ (A = [] -> d_files d = [])) ->
  exists Ac', dinv P i0 (append_loop P (e :: r) off d) Ac'
              /\ log_of (append_loop P (e :: r) off d) = concat (map file_entries (d_files d)) ++ map row_entry A ++ e :: r
              /\ d_meta (append_loop P (e :: r) off d) = d_meta d
              /\ (D = [] -> Forall all_live (d_files d) -> Forall all_live (d_files (append_loop P (e :: r) off d)))
              /\ Ac' <> [].
Proof.
  intros P HP e r off d i0 A D L C Hnz Hfit Hend.
  destruct (append_loop_inv P HP (e :: r) off d i0 A D L C Hnz Hfit Hend) as (Ac' & X1 & X2 & X3 & X4 & X5).
  exists Ac'. repeat (split; [assumption|]). apply X5. right. discriminate.
Qed.

(* ---- from the conflict handling to the loop ---- *)

Lemma incr_offs_le_last : forall A x, incr_offs A -> In x A ->
  s_off (r_slot x) <= s_off (r_slot (nth (length A - 1) A zero_row)).
Proof.
  intros A x H Hx. destruct (nil_or_not A) as [->|HA]; [contradiction|].
  rewrite (app_removelast_last zero_row HA) in H, Hx |- *.
  set (R := removelast A) in *. set (l := last A zero_row) in *.
  rewrite app_length. cbn [length]. rewrite app_nth2 by lia.
  replace (length R + 1 - 1 - length R)%nat with 0%nat by lia. cbn [nth].
  apply in_app_or in Hx as [Hx|[<-|[]]]; [|lia].
  pose proof (incr_offs_lt_last R l x H Hx). lia.
Qed.

Lemma cell_len_view : forall P f A D p,
  fview P f A D -> (p < length A)%nat ->
  fst (cell_len f (N.of_nat p)) = c_lenw (r_cell (nth p A zero_row))
  /\ fview P (snd (cell_len f (N.of_nat p))) A D.
Proof.
  intros P f A D p V Hp. unfold cell_len.
  destruct (N.of_nat p =? 0) eqn:E.
  - assert (p = 0)%nat by lia. subst p. pose proof (fv_c0 _ _ _ _ V) as C0.
    destruct (f_c0 f) as [n|] eqn:Ec.
    + cbn [fst snd]. destruct C0 as (r & t & -> & ->). split; [reflexivity|exact V].
    + cbn [fst snd]. change 0 with (N.of_nat 0). rewrite (fv_row_at_live P f A D 0 V Hp). split; [reflexivity|].
      change (mkfile (f_id f) (f_n f) (f_rows f) (f_size f) (Some (c_lenw (r_cell (nth 0 A zero_row)))) false)
        with (set_c0 f (Some (c_lenw (r_cell (nth 0 A zero_row))))).
      apply set_c0_view; [exact V|]. right. destruct A as [|a t]; [cbn in Hp; lia|]. exists a, t. split; reflexivity.
  - cbn [fst snd]. rewrite (fv_row_at_live P f A D p V Hp). split; [reflexivity|exact V].
Qed.

Lemma after_conflict_inv : forall P, wf_params P = true -> forall e r d1 i0 A D,
  1 <= i0 -> chain P i0 (d_files d1) -> fview P (d_cur d1) A D ->
  consec (i0 + flen (d_files d1)) (map row_entry A) -> d_next d1 = N.of_nat (length A) -> (length D <= 1)%nat ->
  consec (i0 + flen (d_files d1) + N.of_nat (length A)) (e :: r) ->
  Forall (fun x => e_index x <> 0) (e :: r) -> Forall (fits P) (e :: r) ->
  exists Ac', dinv P i0 (after_conflict P (e :: r) d1) Ac'
              /\ log_of (after_conflict P (e :: r) d1)
                 = concat (map file_entries (d_files d1)) ++ map row_entry A ++ e :: r
              /\ d_meta (after_conflict P (e :: r) d1) = d_meta d1
              /\ (D = [] -> Forall all_live (d_files d1) -> Forall all_live (d_files (after_conflict P (e :: r) d1)))
              /\ Ac' <> [].
Proof.
  intros P HP e r d1 i0 A D H1 Hch V C Hn HD Ces Hnz Hfit.
  destruct (wf_params_facts P HP) as (Hmax & Hoffp & Hsz).
  unfold after_conflict. rewrite Hn.
  destruct (N.of_nat (length A) =? 0) eqn:E0.
  - assert (EA : A = []) by (destruct A; [reflexivity|cbn in E0; lia]).
    apply (append_loop_inv_ne P HP e r (data_off P) (mkdisk (d_files d1) (d_cur d1) (N.of_nat (length A)) (d_meta d1)) i0 A D); auto.
    + unfold linv. cbn [d_files d_cur d_next]. subst A.
      split; [exact H1|]. split; [exact Hch|]. split; [exact V|]. split; [exact C|]. split; [reflexivity|].
      split; [unfold entry_sz in Hoffp; lia|]. split; [intros x []|]. split; [reflexivity|exact HD].
    + discriminate.
  - set (p := (length A - 1)%nat). assert (Hp : (p < length A)%nat) by (unfold p; lia).
    replace (N.of_nat (length A) - 1) with (N.of_nat p) by (unfold p; lia).
    destruct (cell_len_view P (d_cur d1) A D p V Hp) as [Hn1 Vc].
    destruct (cell_len (d_cur d1) (N.of_nat p)) as [n c] eqn:Ecl. cbn [fst snd] in Hn1, Vc.
    unfold slot_at. rewrite (fv_row_at_live P (d_cur d1) A D p V Hp).
    pose proof (fv_good _ _ _ _ V) as G. rewrite Forall_forall in G.
    destruct (G (nth p A zero_row) (nth_In _ _ Hp)) as (_ & G2 & _).
    apply (append_loop_inv_ne P HP e r _ (mkdisk (d_files d1) c (N.of_nat (length A)) (d_meta d1)) i0 A D); auto.
    + unfold linv. cbn [d_files d_cur d_next].
      split; [exact H1|]. split; [exact Hch|]. split; [exact Vc|]. split; [exact C|]. split; [reflexivity|].
      split; [lia|]. split.
      * intros x Hx. pose proof (incr_offs_le_last A x (fv_offs _ _ _ _ V) Hx). fold p in H. lia.
      * split; [intro EA; subst A; cbn in E0; lia|exact HD].
    + discriminate.
Qed.

(* ---- AddEntries as a whole ---- *)

Lemma consec_nz : forall es b, consec b es -> 1 <= b -> Forall (fun e => e_index e <> 0) es.
Proof.
  induction es as [|e r IH]; intros b C Hb; [constructor|]. destruct C as [He Cr]. constructor; [lia|].
  apply (IH (b + 1)); [exact Cr|lia].
Qed.

Lemma consec_firstn_rows : forall A i k, consec i (map row_entry A) -> consec i (map row_entry (firstn k A)).
Proof. intros A i k H. rewrite <- firstn_map. now apply consec_firstn. Qed.

Lemma add_entries_eq : forall v P e0 r d,
  add_entries v P (e0 :: r) d = after_conflict P (e0 :: r) (conflict_step v P (e_index e0) d).
Proof. reflexivity. Qed.

(* what the refinement needs of the way a variant clears the slot records [lo, hi) of a file: the live rows below lo
   stay, nothing above them is live, at most one dead slot (the prefix slot of the WriteSlice variants) remains *)
Definition clears (v : variant) (P : params) (nodead : bool) : Prop :=
  forall endb hi lo f A D, fview P f A D -> (lo < length A)%nat ->
    entry_sz * f_n f <= endb -> endb <= data_off P -> f_n f <= hi ->
    exists D', (length D' <= 1)%nat /\ (nodead = true -> D' = [])
               /\ fview P (clear_slots v P endb hi (N.of_nat lo) f) (firstn lo A) D'.

Lemma clears_repaired : forall P, clears VRepaired P false.
Proof.
  intros P endb hi lo f A D V Hlo He1 He2 _. cbn [clear_slots].
  destruct (zero_fill_view P endb lo f A D V Hlo He1 He2) as (Vz & _ & _). eexists. split; [|split; [discriminate|exact Vz]]. cbn. lia.
Qed.

Lemma Forall_firstn_any : forall {T} (Q : T -> Prop) k l, Forall Q l -> Forall Q (firstn k l).
Proof. intros T Q k l H. revert k. induction H as [|x r Hx Hr IH]; intro k; destruct k; cbn [firstn]; auto. Qed.

(* clearing from the first empty slot of a file without dead rows changes nothing (the conflict handling of a Save that
   starts right behind the newest rotated file while the current file is empty) *)
Definition clears_end (v : variant) (P : params) : Prop :=
  forall endb hi f A, fview P f A [] -> A <> [] -> f_n f <= hi ->
    fview P (clear_slots v P endb hi (N.of_nat (length A)) f) A [].

(* the current file holds an entry, or nothing is stored at all: true in every state reached without a failed Save *)
Definition Sd (d : disk) : Prop := file_entries (d_cur d) = [] -> log_of d = [].

Lemma Sd_char : forall P d i0 Ac, dinv P i0 d Ac -> (Sd d <-> (Ac = [] -> log_of d = [])).
Proof.
  intros P d i0 Ac I. pose proof I as (_ & _ & V & _). unfold Sd. rewrite (fv_entries P (d_cur d) Ac [] V).
  split; intros H E; apply H; [now rewrite E|destruct Ac; [reflexivity|discriminate]].
Qed.

Lemma add_entries_inv : forall v P nd, wf_params P = true -> clears v P nd -> forall d i0 Ac e0 r,
  dinv P i0 d Ac -> (clears_end v P \/ Sd d) ->
  consec (e_index e0) (e0 :: r) -> 1 <= e_index e0 -> Forall (fits P) (e0 :: r) ->
  (log_of d = [] \/ (first_of (log_of d) <= e_index e0 /\ e_index e0 <= last_of (log_of d) + 1)) ->
  exists i0' Ac', dinv P i0' (add_entries v P (e0 :: r) d) Ac'
                  /\ log_of (add_entries v P (e0 :: r) d) = s_append (e0 :: r) (log_of d)
                  /\ d_meta (add_entries v P (e0 :: r) d) = d_meta d
                  /\ (nd = true -> Forall all_live (d_files d) -> Forall all_live (d_files (add_entries v P (e0 :: r) d)))
                  /\ Ac' <> [].
Proof.
  intros v P nd HP Hclr d i0 Ac e0 r I HE Ces Hb Hfit Hrange.
  destruct (wf_params_facts P HP) as (Hmax & Hoffp & Hsz). unfold entry_sz in Hoffp.
  pose proof I as (H1 & Hch & V & C & Hn & HKl).
  pose proof (consec_nz _ _ Ces Hb) as Hnz.
  set (b := e_index e0) in *.
  rewrite add_entries_eq. fold b. unfold conflict_step. cbn [s_append]. fold b.
  destruct (inv_cases P d i0 Ac I) as [(EA & Ef & Hl)|Hne].
  - (* empty log *)
    rewrite (slot_ge_empty P d i0 Ac I EA Ef b), Hl.
    subst Ac. pose proof (dinv_empty_any P i0 d I Ef b Hb) as (_ & Hch' & V' & _ & Hn' & _).
    destruct (after_conflict_inv P HP e0 r d b [] [] Hb Hch' V' Logic.I Hn' ltac:(cbn; lia)) as (Ac' & I' & L' & M' & N' & Ne'); auto.
    { rewrite Ef, flen_nil. cbn [length N.of_nat]. now rewrite !N.add_0_r. }
    exists b, Ac'. split; [exact I'|]. split; [|split; [exact M'|split; [intros _ Hal; now apply N'|exact Ne']]].
    rewrite L', Ef. cbn. now destruct (N.to_nat _).
  - assert (Hf : first_of (log_of d) = i0) by (apply (inv_first P d i0 Ac I Hne)).
    assert (Hlast : last_of (log_of d) + 1 = i0 + flen (d_files d) + N.of_nat (length Ac)).
    { rewrite (consec_last _ _ (inv_consec P d i0 Ac I) Hne). pose proof (inv_len P d i0 Ac I).
      destruct (log_of d); [congruence|]. cbn [length] in *. lia. }
    destruct Hrange as [E|[Hlo Hhi]]; [congruence|]. rewrite Hf in *. rewrite Hlast in Hhi.
    set (c0 := i0 + flen (d_files d)) in *.
    assert (Hlp : length (concat (map file_entries (d_files d))) = N.to_nat (flen (d_files d))) by (unfold flen; lia).
    destruct (b <? c0) eqn:E1.
    + (* conflict in a rotated file *)
      destruct (chain_locate P (d_files d) i0 b Hch Hlo ltac:(unfold c0 in E1; lia))
        as (pre & f & post & A0 & D0 & Hfs & Vf0 & Hfi1 & Hfi2).
      set (fi := i0 + flen pre) in *.
      pose proof Hch as Hch2. rewrite Hfs in Hch2. apply chain_app in Hch2 as [Hpre Hrest]. cbn [chain] in Hrest.
      destruct Hrest as (A & D & Vf & HA & Cf & _). fold fi in Cf.
      assert (EAA : length A = length A0).
      { pose proof (fv_entries P f A0 D0 Vf0) as E1'. pose proof (fv_entries P f A D Vf) as E2'.
        rewrite E1' in E2'. apply (f_equal (@length _)) in E2'. now rewrite !map_length in E2'. }
      rewrite <- EAA in Hfi2.
      rewrite (slot_ge_old P d i0 Ac I pre f post A D b Hfs Vf Hfi1 ltac:(fold fi; lia)). fold fi.
      rewrite Hfs, firstn_app, firstn_all, Nat.sub_diag. cbn [firstn]. rewrite app_nil_r.
      rewrite app_nth2 by lia. rewrite Nat.sub_diag. cbn [nth].
      set (lo := N.to_nat (b - fi)). assert (Hlo' : b - fi = N.of_nat lo) by (unfold lo; lia). rewrite Hlo'.
      pose proof (fv_max _ _ _ _ Vf) as Hfm.
      destruct (Hclr (data_off P) (max_entries P) lo f A D Vf ltac:(unfold lo; lia) ltac:(unfold entry_sz; lia) ltac:(lia) Hfm)
        as (Dz & HDz & HDn & Vz).
      set (d1 := mkdisk pre (clear_slots v P (data_off P) (max_entries P) (N.of_nat lo) f) (N.of_nat lo) (d_meta d)).
      assert (Hlen : length (firstn lo A) = lo) by (apply firstn_length_le; unfold lo; lia).
      destruct (after_conflict_inv P HP e0 r d1 i0 (firstn lo A) _ H1 Hpre Vz) as (Ac' & I' & L' & M' & N' & Ne'); auto.
      * cbn [d_files d1]. fold fi. now apply consec_firstn_rows.
      * cbn [d_next d1]. now rewrite Hlen.
      * cbn [d_files d1]. rewrite Hlen. fold fi. replace (fi + N.of_nat lo) with b by lia. exact Ces.
      * exists i0, Ac'. split; [exact I'|]. split; [|split; [exact M'|split; [|exact Ne']]].
        2:{ intros End Hal. apply N'; [now apply HDn|]. cbn [d_files d1]. try rewrite Hfs in Hal. apply Forall_app in Hal. tauto. }
        rewrite L'. cbn [d_files d1]. rewrite (inv_log P d i0 Ac I), Hfs, map_app, concat_app. cbn [map concat].
        rewrite (fv_entries P f A D Vf), <- !app_assoc.
        replace (N.to_nat (b - i0)) with (length (concat (map file_entries pre)) + lo)%nat
          by (unfold flen in fi; unfold lo, fi; lia).
        rewrite firstn_app_2, firstn_app. rewrite map_length.
        replace (lo - length A)%nat with 0%nat by (unfold lo; lia). cbn [firstn]. rewrite app_nil_r, firstn_map, <- app_assoc.
        reflexivity.
    + destruct (b <? c0 + N.of_nat (length Ac)) eqn:E2.
      * (* conflict in the current file *)
        rewrite (slot_ge_cur_inside P d i0 Ac I b) by (fold c0; lia). fold c0.
        set (lo := N.to_nat (b - c0)). assert (Hlo' : b - c0 = N.of_nat lo) by (unfold lo; lia). rewrite Hlo'.
        rewrite Hn. destruct (N.of_nat lo <? N.of_nat (length Ac)) eqn:E3; [|lia].
        pose proof (fv_n _ _ _ _ V) as Hfn. rewrite app_nil_r in Hfn. pose proof (fv_max _ _ _ _ V) as Hfm.
        destruct (Hclr (entry_sz * N.of_nat (length Ac)) (N.of_nat (length Ac)) lo (d_cur d) Ac [] V ltac:(unfold lo; lia)
                    ltac:(rewrite Hfn; lia) ltac:(unfold entry_sz; lia) ltac:(rewrite Hfn; lia)) as (Dz & HDz & HDn & Vz).
        set (d1 := mkdisk (d_files d) (clear_slots v P (entry_sz * N.of_nat (length Ac)) (N.of_nat (length Ac)) (N.of_nat lo) (d_cur d)) (N.of_nat lo) (d_meta d)).
        assert (Hlen : length (firstn lo Ac) = lo) by (apply firstn_length_le; unfold lo; lia).
        destruct (after_conflict_inv P HP e0 r d1 i0 (firstn lo Ac) _ H1 Hch Vz) as (Ac' & I' & L' & M' & N' & Ne'); auto.
        -- cbn [d_files d1]. now apply consec_firstn_rows.
        -- cbn [d_next d1]. now rewrite Hlen.
        -- cbn [d_files d1]. rewrite Hlen. fold c0. replace (c0 + N.of_nat lo) with b by lia. exact Ces.
        -- exists i0, Ac'. split; [exact I'|]. split; [|split; [exact M'|split; [|exact Ne']]].
           2:{ intros End Hal. apply N'; [now apply HDn|exact Hal]. }
           rewrite L'. cbn [d_files d1]. rewrite (inv_log P d i0 Ac I).
           replace (N.to_nat (b - i0)) with (length (concat (map file_entries (d_files d))) + lo)%nat
             by (rewrite Hlp; unfold lo, c0; lia).
           rewrite firstn_app_2, firstn_map, <- app_assoc. reflexivity.
      * destruct (nil_or_not Ac) as [EA|EA].
        { (* the current file is empty beside older files (a failed Save left it so): the batch starts right behind the
             newest rotated file; that file is found, nothing has to be cleared, it becomes the current file again *)
          destruct HE as [Hend|HS].
          2:{ exfalso. apply Hne. apply (proj1 (Sd_char P d i0 Ac I) HS EA). }
          assert (Ef : d_files d <> []).
          { intro Ef. apply Hne. rewrite (inv_log P d i0 Ac I), Ef, EA. reflexivity. }
          destruct (exists_last Ef) as (pre & f & Hfs).
          destruct (slot_ge_files_beyond P d i0 Ac I EA pre f b Hfs ltac:(fold c0; lia)) as (A & D & Vf & HAf & Cf & ->).
          assert (ED : D = []).
          { apply (all_live_no_dead P f A D Vf). specialize (HKl EA). rewrite Hfs in HKl. apply Forall_app in HKl as [_ HKl]. now inversion HKl. }
          subst D.
          rewrite Hfs, firstn_app, firstn_all, Nat.sub_diag. cbn [firstn]. rewrite app_nil_r.
          rewrite app_nth2 by lia. rewrite Nat.sub_diag. cbn [nth].
          pose proof Hch as Hch2. rewrite Hfs in Hch2. apply chain_app in Hch2 as [Hpre _].
          pose proof (Hend (data_off P) (max_entries P) f A Vf HAf (fv_max _ _ _ _ Vf)) as Vz.
          set (d1 := mkdisk pre (clear_slots v P (data_off P) (max_entries P) (N.of_nat (length A)) f) (N.of_nat (length A)) (d_meta d)).
          assert (Hc0 : c0 = i0 + flen pre + N.of_nat (length A)).
          { unfold c0. rewrite Hfs, flen_app, (flen_cons P f A [] [] Vf), flen_nil. lia. }
          assert (Hb0 : b = c0).
          { clear -E1 E2 Hhi EA. subst Ac. cbn [length N.of_nat] in *. lia. }
          assert (Hces : consec (i0 + flen pre + N.of_nat (length A)) (e0 :: r)) by (rewrite <- Hc0, <- Hb0; exact Ces).
          destruct (after_conflict_inv P HP e0 r d1 i0 A [] H1 Hpre Vz Cf eq_refl ltac:(cbn; lia) Hces Hnz Hfit)
            as (Ac' & I' & L' & M' & N' & Ne').
          - exists i0, Ac'. split; [exact I'|]. split; [|split; [exact M'|split; [|exact Ne']]].
            2:{ intros _ Hal. apply N'; [reflexivity|]. cbn [d_files d1]. try rewrite Hfs in Hal. apply Forall_app in Hal. tauto. }
            rewrite L'. cbn [d_files d1]. rewrite firstn_all2.
            + rewrite (inv_log P d i0 Ac I), Hfs, EA, map_app, concat_app. cbn [map concat].
              rewrite (fv_entries P f A [] Vf), !app_nil_r, <- app_assoc. reflexivity.
            + pose proof (inv_len P d i0 Ac I) as L. rewrite EA in L. cbn [length] in L. unfold c0 in *. lia. }
        (* pure append *)
        rewrite (slot_ge_cur_beyond P d i0 Ac I b EA) by (fold c0; lia).
        rewrite Hn, N.ltb_irrefl.
        set (d1 := mkdisk (d_files d) (d_cur d) (N.of_nat (length Ac)) (d_meta d)).
        destruct (after_conflict_inv P HP e0 r d1 i0 Ac [] H1 Hch V C eq_refl ltac:(cbn; lia)) as (Ac' & I' & L' & M' & N' & Ne'); auto.
        -- cbn [d_files d1]. fold c0. replace (c0 + N.of_nat (length Ac)) with b by lia. exact Ces.
        -- exists i0, Ac'. split; [exact I'|]. split; [|split; [exact M'|split; [|exact Ne']]].
           2:{ intros _ Hal. now apply N'. }
           rewrite L'. cbn [d_files d1]. rewrite firstn_all2.
           ++ rewrite (inv_log P d i0 Ac I), <- app_assoc. reflexivity.
           ++ pose proof (inv_len P d i0 Ac I). unfold c0 in *. lia.
Qed.

Lemma Sd_meta : forall d m, Sd d -> Sd (mkdisk (d_files d) (d_cur d) (d_next d) m).
Proof. intros d m H. exact H. Qed.

Lemma step_save : forall P, wf_params P = true -> forall d i0 Ac es h s,
  dinv P i0 d Ac -> Sd d -> valid_op P (Save es h s) (abs d) ->
  step_ok P (Save es h s) d /\ Sd (fst (step_disk VRepaired P (Save es h s) d)).
Proof.
  intros P HP d i0 Ac es h s I HS Hv. unfold step_ok. cbn [step_disk step_spec fst].
  assert (H : exists i0' Ac', dinv P i0' (add_entries VRepaired P es d) Ac'
                              /\ log_of (add_entries VRepaired P es d) = s_append es (log_of d)
                              /\ d_meta (add_entries VRepaired P es d) = d_meta d
                              /\ Sd (add_entries VRepaired P es d)).
  { destruct es as [|e0 r].
    - exists i0, Ac. cbn [add_entries s_append]. auto.
    - cbn [valid_op] in Hv. destruct Hv as (Ces & Hb & Hfit & Hrange). change (a_ents (abs d)) with (log_of d) in Hrange.
      destruct (add_entries_inv VRepaired P false HP (clears_repaired P) d i0 Ac e0 r I (or_intror HS) Ces Hb Hfit Hrange)
        as (a & b & X1 & X2 & X3 & _ & X5).
      exists a, b. repeat (split; [assumption|]). apply (proj2 (Sd_char P _ a b X1)). congruence. }
  destruct H as (i0' & Ac' & I' & L' & M' & S').
  set (d1 := add_entries VRepaired P es d) in *.
  set (d2 := mkdisk (d_files d1) (d_cur d1) (d_next d1) (store_snap s (store_hs h (d_meta d1)))).
  assert (I2 : dinv P i0' d2 Ac') by exact I'.
  assert (Habs : abs d2 = mkalog (s_append es (a_ents (abs d))) (store_snap s (store_hs h (a_meta (abs d))))).
  { rewrite abs_log. change (log_of d2) with (log_of d1). rewrite L'. unfold d2. cbn [d_meta]. rewrite M'. reflexivity. }
  split; [|exact S'].
  split; [eauto|]. split; [exact Habs|].
  rewrite (dres_res P d2 i0' Ac' _ _ _ _ I2), Habs. reflexivity.
Qed.

(* the stronger state property is kept by every other operation as well *)
Lemma sd_other : forall P o d i0 Ac, dinv P i0 d Ac -> Sd d ->
  match o with Save _ _ _ => True | Entries _ hi _ => 1 <= hi | _ => True end ->
  match o with Save _ _ _ => True | _ => Sd (fst (step_disk VRepaired P o d)) end.
Proof.
  intros P o d i0 Ac I0 HS Hv. destruct o as [es h s|lo hi max|i|i vo dt|j| | |]; try exact Logic.I; cbn [step_disk].
  - (* Entries *)
    pose proof (dinv_at_first P i0 d Ac I0) as I.
    unfold disk_entries. rewrite (inv_disk_first P d _ Ac I).
    destruct (lo <? first_of (log_of d)) eqn:E1; [exact HS|].
    destruct (log_last P d + 1 <? hi); [exact HS|].
    destruct (all_entries_spec P lo hi max d (first_of (log_of d)) Ac I Hv ltac:(lia)) as (d' & Hall & I' & L' & _).
    rewrite Hall. cbn [fst]. apply (proj2 (Sd_char P d' _ Ac I')). rewrite L'. exact (proj1 (Sd_char P d _ Ac I) HS).
  - destruct (disk_term P d i). exact HS.
  - unfold disk_csnap. destruct (i <? disk_first d); [exact HS|]. destruct (seek_entry P d i) as [[] sl]; exact HS.
  - destruct (delete_before_state P d i0 Ac j I0) as ((i0' & I') & L' & _).
    destruct (delete_before P j d) as [e d']. cbn [fst snd] in *.
    apply (proj2 (Sd_char P d' i0' Ac I')). intro EA. rewrite L', (proj1 (Sd_char P d i0 Ac I0) HS EA).
    unfold drop_below. apply skipn_nil.
  - (* Reopen *)
    cbn [fst]. unfold reopen.
    destruct (open_logs_inv P d i0 Ac I0) as ((Ac1 & I1) & L1 & M1 & Isame).
    set (d1 := open_logs P d) in *.
    set (j := (if 0 <? snap_i (d_meta d1) then snap_i (d_meta d1) + 1 else disk_first d1) - 1).
    destruct (nil_or_not Ac) as [EA|EA].
    + pose proof (proj1 (Sd_char P d i0 Ac I0) HS EA) as Hl.
      destruct (delete_before_state P d1 i0 Ac1 j I1) as ((i0' & I') & L' & _).
      apply (proj2 (Sd_char P _ i0' Ac1 I')). intros _. rewrite L', L1, Hl. unfold drop_below. apply skipn_nil.
    + specialize (Isame EA).
      destruct (delete_before_state P d1 i0 Ac j Isame) as ((i0' & I') & L' & _).
      apply (proj2 (Sd_char P _ i0' Ac I')). congruence.
  - exact HS.
  - (* Sum *)
    pose proof (dinv_at_first P i0 d Ac I0) as I. unfold disk_all.
    rewrite (inv_disk_first P d _ Ac I), (inv_log_last P d _ Ac I).
    destruct (all_entries_spec P (first_of (log_of d)) (last_of (log_of d) + 1) 18446744073709551615 d
                (first_of (log_of d)) Ac I ltac:(lia) ltac:(lia)) as (d' & Hall & I' & L' & _).
    rewrite Hall. cbn [fst]. apply (proj2 (Sd_char P d' _ Ac I')). rewrite L'. exact (proj1 (Sd_char P d _ Ac I) HS).
Qed.

(* ---- every operation ---- *)

Lemma step_all : forall P, wf_params P = true -> forall o d i0 Ac,
  dinv P i0 d Ac -> Sd d -> valid_op P o (abs d) -> step_ok P o d /\ Sd (fst (step_disk VRepaired P o d)).
Proof.
  intros P HP o d i0 Ac I HS Hv.
  assert (Hv' : match o with Save _ _ _ => True | Entries _ hi _ => 1 <= hi | _ => True end) by (destruct o; try exact Logic.I; exact Hv).
  pose proof (sd_other P o d i0 Ac I HS Hv') as SO.
  destruct o.
  - now apply (step_save P HP d i0 Ac).
  - split; [now apply (step_entries P d i0 Ac)|exact SO].
  - split; [now apply (step_term P d i0 Ac)|exact SO].
  - split; [now apply (step_csnap P d i0 Ac)|exact SO].
  - split; [now apply (step_delete P d i0 Ac)|exact SO].
  - split; [now apply (step_reopen P d i0 Ac)|exact SO].
  - split; [now apply (step_getmeta P d i0 Ac)|exact SO].
  - split; [now apply (step_sum P d i0 Ac)|exact SO].
Qed.

Fixpoint valid_spec (P : params) (ops : list sop) (choices : list N) (a : alog) : Prop :=
  match ops, choices with
  | o :: r, c :: cs => valid_op P o a /\ valid_spec P r cs (fst (step_spec o c a))
  | _, _ => True
  end.

Lemma empty_disk_inv : forall P, dinv P 1 (empty_disk P) [].
Proof.
  intro P. unfold dinv, empty_disk. cbn [d_files d_cur d_next chain].
  split; [lia|]. split; [exact Logic.I|]. split; [apply new_file_view|]. split; [exact Logic.I|]. split; [reflexivity|]. intros _. constructor.
Qed.

Lemma empty_disk_sd : forall P, Sd (empty_disk P).
Proof. intros P _. reflexivity. Qed.

Lemma refines_from : forall P, wf_params P = true -> forall ops d i0 Ac,
  dinv P i0 d Ac -> Sd d ->
  valid_spec P ops (map r_first (outputs_disk VRepaired P ops d)) (abs d) ->
  outputs_disk VRepaired P ops d = outputs_spec ops (map r_first (outputs_disk VRepaired P ops d)) (abs d)
  /\ abs (run_disk VRepaired P ops d) = run_spec ops (map r_first (outputs_disk VRepaired P ops d)) (abs d).
Proof.
  intros P HP. induction ops as [|o r IH]; intros d i0 Ac I HS Hv; [split; reflexivity|].
  cbn [outputs_disk run_disk] in *.
  destruct (step_all P HP o d i0 Ac I HS) as [S S2].
  { destruct (step_disk VRepaired P o d) as [d' x]. cbn [map] in Hv. cbn [valid_spec] in Hv. tauto. }
  destruct (step_disk VRepaired P o d) as [d' x] eqn:Es. cbn [map fst] in *.
  cbn [valid_spec outputs_spec run_spec] in *. destruct Hv as [Hv1 Hv2].
  unfold step_ok in S. rewrite Es in S.
  destruct (step_spec o (r_first x) (abs d)) as [a' y] eqn:Ea. cbn [fst] in *.
  destruct S as ((i0' & Ac' & I') & Ha & Hx). subst a' y.
  destruct (IH d' i0' Ac' I' S2 Hv2) as [O R]. split; [now rewrite <- O|exact R].
Qed.
