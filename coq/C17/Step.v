(* C17: every operation of the repaired disk model refines the specification and keeps the invariant. *)
From Coq Require Import NArith PeanoNat List Bool Lia ZifyBool ZifyN ZifyNat.
From OG Require Import C17.Model C17.Proofs C17.Refine C17.Inv C17.Search C17.Read.
Import ListNotations.
Open Scope N_scope.

Lemma abs_log : forall d, abs d = mkalog (log_of d) (d_meta d).
Proof. reflexivity. Qed.

Lemma chain_consec : forall P fs i, chain P i fs -> consec i (concat (map file_entries fs)).
Proof.
  intros P fs. induction fs as [|f t IH]; intros i H; [exact I|].
  cbn [chain] in H. destruct H as (A & D & V & HA & C & R). cbn [map concat].
  rewrite (fv_entries P f A D V). apply consec_app; [exact C|]. rewrite map_length. now apply IH.
Qed.

Lemma flen_app_ : forall a b, flen (a ++ b) = flen a + flen b.
Proof. intros. unfold flen. rewrite map_app, concat_app, app_length. lia. Qed.

Section Facts.
  Variable P : params.
  Variables (d : disk) (i0 : N) (Ac : list row).
  Hypothesis I : dinv P i0 d Ac.

  Lemma inv_log : log_of d = concat (map file_entries (d_files d)) ++ map row_entry Ac.
  Proof. destruct I as (H1 & Hch & V & C & Hn & HKl). rewrite log_of_eq, (fv_entries P (d_cur d) Ac [] V). reflexivity. Qed.

  Lemma inv_len : N.of_nat (length (log_of d)) = flen (d_files d) + N.of_nat (length Ac).
  Proof. rewrite inv_log, app_length, map_length. unfold flen. lia. Qed.

  Lemma inv_consec : consec i0 (log_of d).
  Proof.
    destruct I as (H1 & Hch & V & C & Hn & HKl). rewrite inv_log. apply consec_app; [now apply (chain_consec P)|].
    unfold flen in C. exact C.
  Qed.

  Lemma inv_first : log_of d <> [] -> first_of (log_of d) = i0.
  Proof.
    intro Hne. pose proof inv_consec as C. destruct (log_of d) as [|e r]; [congruence|]. destruct C as [He _]. exact He.
  Qed.

  Lemma inv_disk_first : disk_first d = first_of (log_of d).
  Proof.
    pose proof I as (H1 & Hch & V & C & Hn & HKl). unfold disk_first.
    destruct (d_files d) as [|f t] eqn:Ef.
    - rewrite flen_nil, N.add_0_r in C.
      destruct (nil_or_not Ac) as [EA|EA].
      + rewrite (view_first_empty P (d_cur d) Ac [] i0 V C H1 EA). cbn [N.eqb].
        rewrite inv_log, Ef, EA. reflexivity.
      + rewrite (view_first P (d_cur d) Ac [] i0 V C H1 EA). destruct (i0 =? 0) eqn:E; [lia|].
        symmetry. apply inv_first. rewrite inv_log, Ef. cbn [map concat app]. destruct Ac; [congruence|discriminate].
    - cbn [chain] in Hch. destruct Hch as (A & D & Vf & HA & Cf & _).
      rewrite (view_first P f A D i0 Vf Cf H1 HA). destruct (i0 =? 0) eqn:E; [lia|].
      symmetry. apply inv_first. rewrite inv_log, Ef. cbn [map concat]. rewrite (fv_entries P f A D Vf).
      destruct A; [congruence|discriminate].
  Qed.

  Lemma inv_log_nil : log_of d = [] -> Ac = [] /\ d_files d = [].
  Proof.
    intro E. rewrite inv_log in E. apply app_eq_nil in E as [E1 E2]. split; [destruct Ac; [reflexivity|discriminate]|].
    destruct I as (_ & Hch & _). destruct (d_files d) as [|f t]; [reflexivity|]. cbn [chain] in Hch.
    destruct Hch as (A & D & V & HA & _). cbn [map concat] in E1. rewrite (fv_entries P f A D V) in E1.
    apply app_eq_nil in E1 as [E1 _]. destruct A; [congruence|discriminate].
  Qed.

  (* either nothing at all is stored, or the log is not empty (the current file may still be empty beside older files) *)
  Lemma inv_cases : (Ac = [] /\ d_files d = [] /\ log_of d = []) \/ log_of d <> [].
  Proof.
    destruct (nil_or_not (log_of d)) as [E|E]; [left|right; exact E]. destruct (inv_log_nil E) as [E1 E2]. auto.
  Qed.

  Lemma inv_ne_cur : Ac <> [] -> log_of d <> [].
  Proof. intros EA. rewrite inv_log. destruct Ac; [congruence|]. intro X. apply app_eq_nil in X as [_ X]. discriminate. Qed.

  Lemma inv_ne_files : d_files d <> [] -> log_of d <> [].
  Proof. intros Hf E. destruct (inv_log_nil E) as [_ X]. congruence. Qed.

  Lemma inv_log_last : log_last P d = last_of (log_of d).
  Proof.
    pose proof I as (H1 & Hch & V & C & Hn & HKl). unfold log_last. rewrite Hn.
    destruct (nil_or_not Ac) as [EA|EA].
    - rewrite EA. cbn [length N.of_nat]. replace (0 <? 0) with false by reflexivity.
      destruct (nil_or_not (d_files d)) as [Ef|Ef].
      + rewrite Ef. cbn. rewrite inv_log, Ef, EA. reflexivity.
      + (* empty current file beside older files: the last entry of the newest rotated file *)
        destruct (exists_last Ef) as (pre & f & Hf). rewrite Hf, rev_app_distr. cbn [rev app map find].
        rewrite Hf in Hch. apply chain_app in Hch as [Hpre Hrest]. cbn [chain] in Hrest.
        destruct Hrest as (A & D & Vf & HA & Cf & _). pose proof (length_pos_ne A HA) as Hpos.
        unfold last_entry_index. rewrite (first_empty_view P f A D 1 Vf ltac:(lia)).
        destruct (0 <? N.of_nat (length A)) eqn:E0; [|lia].
        replace (N.of_nat (length A) - 1) with (N.of_nat (length A - 1)) by lia.
        rewrite (view_index P f A D (i0 + flen pre) Vf Cf) by lia.
        destruct (0 <? i0 + flen pre + N.of_nat (length A - 1)) eqn:E1; [|lia].
        assert (Hne : log_of d <> []).
        { rewrite inv_log, Hf, map_app, concat_app. cbn [map concat]. rewrite (fv_entries P f A D Vf).
          destruct A; [congruence|]. intro X. apply app_eq_nil in X as [X _]. apply app_eq_nil in X as [_ X].
          cbn in X. discriminate. }
        rewrite (consec_last _ _ inv_consec Hne). pose proof inv_len as L. rewrite EA, Hf in L. cbn [length] in L.
        rewrite flen_app_ in L. rewrite (flen_cons P f A D [] Vf), flen_nil in L. lia.
    - pose proof (length_pos_ne Ac EA) as Hpos.
      destruct (0 <? N.of_nat (length Ac)) eqn:E; [|lia].
      replace (N.of_nat (length Ac) - 1) with (N.of_nat (length Ac - 1)) by lia.
      rewrite (view_index P (d_cur d) Ac [] (i0 + flen (d_files d)) V C) by lia.
      pose proof (inv_ne_cur EA) as Hne.
      rewrite (consec_last _ _ inv_consec Hne). pose proof inv_len. lia.
  Qed.

  Lemma inv_disk_last : disk_last P d = a_last (abs d).
  Proof. unfold disk_last, a_last. rewrite inv_log_last. reflexivity. Qed.

End Facts.

Lemma dinv_empty_any : forall P i0 d, dinv P i0 d [] -> d_files d = [] -> forall j, 1 <= j -> dinv P j d [].
Proof.
  intros P i0 d (H1 & Hch & V & C & Hn & HKl) He j Hj.
  unfold dinv. rewrite He in *. cbn [chain map]. repeat (split; auto).
Qed.

(* ---- seekEntry ---- *)

Lemma row_entry_term : forall r, e_term (row_entry r) = s_term_ (r_slot r).
Proof. reflexivity. Qed.

Lemma nth_error_map_row : forall A p, (p < length A)%nat ->
  nth_error (map row_entry A) p = Some (row_entry (nth p A zero_row)).
Proof. intros A p Hp. rewrite nth_error_map, (nth_error_nth' A zero_row Hp). reflexivity. Qed.

Lemma seek_entry_spec : forall P d i0 Ac i,
  dinv P i0 d Ac -> 1 <= i ->
  match lookup i (log_of d) with
  | Some e => exists s, seek_entry P d i = (Ok, s) /\ s_term_ s = e_term e
  | None => seek_entry P d i =
            ((if (i <? first_of (log_of d)) || (match log_of d with [] => true | _ => false end)
              then Compacted else Unavailable), zero_slot)
  end.
Proof.
  intros P d i0 Ac i I Hi. pose proof I as (H1 & Hch & V & C & Hn & HKl).
  unfold seek_entry. destruct (i =? 0) eqn:Ei0; [lia|].
  destruct (inv_cases P d i0 Ac I) as [(EA & Ef & Hl)|Hne].
  - (* empty log *)
    rewrite Hl. unfold lookup. cbn [first_of]. destruct (i <? 1); [|destruct (N.to_nat (i - 1)); cbn [nth_error]];
      rewrite (slot_ge_empty P d i0 Ac I EA Ef i); cbn; rewrite ?orb_true_r; reflexivity.
  - assert (Hf : first_of (log_of d) = i0) by (apply (inv_first P d i0 Ac I Hne)).
    assert (Hnel : (match log_of d with [] => true | _ => false end) = false) by (destruct (log_of d); [congruence|reflexivity]).
    rewrite Hnel, orb_false_r. unfold lookup. rewrite Hf.
    set (c0 := i0 + flen (d_files d)).
    destruct (i <? i0) eqn:E1.
    + (* below the first index *)
      destruct (d_files d) as [|f0 t0] eqn:Ef.
      * rewrite (slot_ge_below_nofiles P d i0 Ac I Ef i) by lia. reflexivity.
      * destruct (slot_ge_below_files P d i0 Ac I ltac:(rewrite Ef; discriminate) i ltac:(lia)) as (k & ->). reflexivity.
    + destruct (i <? c0) eqn:E2.
      * (* in a rotated file *)
        destruct (chain_locate P (d_files d) i0 i Hch ltac:(lia) ltac:(unfold c0 in E2; lia))
          as (pre & f & post & A & D & Hfs & Vf & Hfi1 & Hfi2).
        rewrite (slot_ge_old P d i0 Ac I pre f post A D i Hfs Vf Hfi1 Hfi2).
        set (fi := i0 + flen pre) in *. set (p := N.to_nat (i - fi)).
        assert (Hp : i - fi = N.of_nat p) by (unfold p; lia). rewrite Hp.
        pose proof (view_len_max P f A D 1 Vf ltac:(lia)) as HM.
        destruct (max_entries P <=? N.of_nat p) eqn:E3; [lia|].
        assert (Hsel : sel_file d (InOld (length pre)) = f).
        { cbn [sel_file]. rewrite Hfs, app_nth2 by lia. now rewrite Nat.sub_diag. }
        rewrite Hsel.
        (* consecutive indexes of this file *)
        rewrite Hfs in Hch. apply chain_app in Hch as [_ Hrest]. cbn [chain] in Hrest.
        destruct Hrest as (A' & D' & V' & HA' & C' & _). fold fi in C'.
        assert (EAA : A' = A).
        { pose proof (fv_asc _ _ _ _ Vf) as E1'. pose proof (fv_asc _ _ _ _ V') as E2'.
          pose proof (fv_entries P f A D Vf) as F1. pose proof (fv_entries P f A' D' V') as F2.
          unfold file_entries in F1, F2. rewrite E1' in F1. rewrite E2' in F2.
          assert (L1 : live_rows (A ++ D) = A) by (apply live_rows_app_dead; [eapply Forall_good_live; exact (fv_good _ _ _ _ Vf)|exact (fv_dead _ _ _ _ Vf)]).
          assert (L2 : live_rows (A' ++ D') = A') by (apply live_rows_app_dead; [eapply Forall_good_live; exact (fv_good _ _ _ _ V')|exact (fv_dead _ _ _ _ V')]).
          rewrite <- E1', E2', L2 in L1. exact L1. }
        subst A'.
        rewrite (view_index P f A D fi Vf C' p) by (unfold p; lia).
        destruct (fi + N.of_nat p =? 0) eqn:E4; [lia|]. destruct (fi + N.of_nat p =? i) eqn:E5; [|lia].
        assert (Hnth : nth_error (log_of d) (N.to_nat (i - i0)) = Some (row_entry (nth p A zero_row))).
        { rewrite (inv_log P d i0 Ac I), Hfs, map_app, concat_app. cbn [map concat]. rewrite (fv_entries P f A D Vf), <- !app_assoc.
          assert (Hlp : length (concat (map file_entries pre)) = N.to_nat (flen pre)) by (unfold flen; lia).
          rewrite nth_error_app2 by (rewrite Hlp; unfold fi in *; lia).
          replace (N.to_nat (i - i0) - length (concat (map file_entries pre)))%nat with p by (rewrite Hlp; unfold p, fi; lia).
          rewrite nth_error_app1 by (rewrite map_length; unfold p; lia).
          apply nth_error_map_row. unfold p. lia. }
        rewrite Hnth. eexists. split; [reflexivity|]. unfold slot_at.
        rewrite (fv_row_at_live P f A D p Vf) by (unfold p; lia). reflexivity.
      * destruct (i <? c0 + N.of_nat (length Ac)) eqn:E3.
        -- (* in the current file *)
           rewrite (slot_ge_cur_inside P d i0 Ac I i) by (fold c0; lia). fold c0.
           set (p := N.to_nat (i - c0)). assert (Hp : i - c0 = N.of_nat p) by (unfold p; lia). rewrite Hp.
           pose proof (view_len_max P (d_cur d) Ac [] 1 V ltac:(lia)) as HM.
           destruct (max_entries P <=? N.of_nat p) eqn:E4; [lia|]. cbn [sel_file].
           rewrite (view_index P (d_cur d) Ac [] c0 V C p) by (unfold p; lia).
           destruct (c0 + N.of_nat p =? 0) eqn:E5; [lia|]. destruct (c0 + N.of_nat p =? i) eqn:E6; [|lia].
           assert (Hnth : nth_error (log_of d) (N.to_nat (i - i0)) = Some (row_entry (nth p Ac zero_row))).
           { rewrite (inv_log P d i0 Ac I).
             assert (Hlp : length (concat (map file_entries (d_files d))) = N.to_nat (flen (d_files d))) by (unfold flen; lia).
             rewrite nth_error_app2 by (rewrite Hlp; unfold c0 in *; lia).
             replace (N.to_nat (i - i0) - length (concat (map file_entries (d_files d))))%nat with p by (rewrite Hlp; unfold p, c0; lia).
             apply nth_error_map_row. unfold p. lia. }
           rewrite Hnth. eexists. split; [reflexivity|]. unfold slot_at.
           rewrite (fv_row_at_live P (d_cur d) Ac [] p V) by (unfold p; lia). reflexivity.
        -- (* beyond the last index *)
           assert (Hnone : nth_error (log_of d) (N.to_nat (i - i0)) = None).
           { apply nth_error_None. pose proof (inv_len P d i0 Ac I). unfold c0 in *. lia. }
           destruct (nil_or_not Ac) as [EA|EA].
           { (* the current file is empty: the newest rotated file answers with its first empty slot *)
             assert (Ef : d_files d <> []).
             { intro Ef. apply Hne. rewrite (inv_log P d i0 Ac I), Ef, EA. reflexivity. }
             destruct (exists_last Ef) as (pre & f & Hfs).
             destruct (slot_ge_files_beyond P d i0 Ac I EA pre f i Hfs ltac:(fold c0; rewrite EA in E3; cbn in E3; lia))
               as (A & D & Vf & HAf & Cf & ->).
             rewrite Hnone. destruct (max_entries P <=? N.of_nat (length A)) eqn:E4; [reflexivity|].
             cbn [sel_file]. rewrite Hfs, app_nth2 by lia. rewrite Nat.sub_diag. cbn [nth].
             rewrite (fv_row_at_beyond P f A D (length A) Vf) by lia. reflexivity. }
           rewrite (slot_ge_cur_beyond P d i0 Ac I i EA) by (fold c0; lia).
           rewrite Hnone. destruct (max_entries P <=? N.of_nat (length Ac)) eqn:E4; [reflexivity|].
           cbn [sel_file]. rewrite (fv_row_at_beyond P (d_cur d) Ac [] (length Ac) V) by lia. reflexivity.
Qed.

(* ---- the refinement statement for one operation ---- *)

Definition fits (P : params) (e : entry) : Prop := data_off P + 4 + p_len (e_data e) <= max_size P.

(* what the Raft contract (and the model's arithmetic) asks of an operation in abstract state [a] *)
Definition valid_op (P : params) (o : sop) (a : alog) : Prop :=
  match o with
  | Save es _ _ =>
      match es with
      | [] => True
      | e0 :: _ => consec (e_index e0) es /\ 1 <= e_index e0 /\ Forall (fits P) es
                   /\ (a_ents a = [] \/ (first_of (a_ents a) <= e_index e0 /\ e_index e0 <= last_of (a_ents a) + 1))
      end
  | Entries _ hi _ => 1 <= hi
  | Sum => total_size (a_ents a) <= 18446744073709551615
  | _ => True
  end.

Definition step_ok (P : params) (o : sop) (d : disk) : Prop :=
  let '(d', r) := step_disk VRepaired P o d in
  let '(a', r') := step_spec o (r_first r) (abs d) in
  (exists i0' Ac', dinv P i0' d' Ac') /\ abs d' = a' /\ r = r'.

Lemma dres_res : forall P d i0 Ac e es t m, dinv P i0 d Ac -> dres P d e es t m = res_of (abs d) e es t m.
Proof.
  intros. unfold dres, res_of. rewrite (inv_disk_first P d i0 Ac H), (inv_disk_last P d i0 Ac H). reflexivity.
Qed.

Lemma step_term : forall P d i0 Ac i, dinv P i0 d Ac -> step_ok P (Term i) d.
Proof.
  intros P d i0 Ac i I. unfold step_ok. cbn [step_disk step_spec].
  assert (Ht : disk_term P d i = s_term i (abs d)).
  { unfold disk_term, s_term. destruct (i =? 0) eqn:E0.
    - assert (i = 0) by lia. subst i. reflexivity.
    - pose proof (seek_entry_spec P d i0 Ac i I ltac:(lia)) as S. rewrite abs_log. unfold a_first. cbn [a_ents a_meta].
      destruct (lookup i (log_of d)) as [e|].
      + destruct S as (s & -> & Hs). now rewrite Hs.
      + rewrite S.
        destruct ((i <? first_of (log_of d)) || match log_of d with [] => true | _ => false end); reflexivity. }
  rewrite Ht. destruct (s_term i (abs d)) as [e t].
  split; [eauto|]. split; [reflexivity|]. apply (dres_res P d i0 Ac); exact I.
Qed.

Lemma step_getmeta : forall P d i0 Ac, dinv P i0 d Ac -> step_ok P GetMeta d.
Proof.
  intros P d i0 Ac I. unfold step_ok. cbn [step_disk step_spec].
  split; [eauto|]. split; [reflexivity|]. apply (dres_res P d i0 Ac); exact I.
Qed.

Lemma dinv_meta : forall P i0 d Ac m, dinv P i0 d Ac -> dinv P i0 (mkdisk (d_files d) (d_cur d) (d_next d) m) Ac.
Proof. intros P i0 d Ac m H. exact H. Qed.

Lemma step_csnap : forall P d i0 Ac i v dt, dinv P i0 d Ac -> step_ok P (CreateSnap i v dt) d.
Proof.
  intros P d i0 Ac i v dt I. unfold step_ok. cbn [step_disk step_spec].
  unfold disk_csnap, s_csnap. rewrite (inv_disk_first P d i0 Ac I). rewrite abs_log. unfold a_first. cbn [a_ents a_meta].
  destruct (i <? first_of (log_of d)) eqn:E1.
  - split; [eauto|]. split; [reflexivity|]. apply (dres_res P d i0 Ac); exact I.
  - assert (Hi : 1 <= i).
    { destruct (log_of d) eqn:El; cbn [first_of] in E1; [lia|].
      pose proof (inv_first P d i0 Ac I ltac:(rewrite El; discriminate)) as F. rewrite El in F. cbn [first_of] in F.
      destruct I as (H1 & _). lia. }
    pose proof (seek_entry_spec P d i0 Ac i I Hi) as S.
    destruct (lookup i (log_of d)) as [e|].
    + destruct S as (s & -> & Hs). rewrite Hs.
      set (d' := mkdisk (d_files d) (d_cur d) (d_next d) (store_snap (Some (mksnap i (e_term e) v dt)) (d_meta d))).
      assert (I' : dinv P i0 d' Ac) by exact I.
      split; [eauto|]. split; [reflexivity|]. apply (dres_res P d' i0 Ac); exact I'.
    + rewrite S. rewrite E1. cbn [orb].
      destruct (log_of d) eqn:El; (split; [eauto|]; split; [rewrite <- El; reflexivity|]; rewrite <- El;
        change (mkalog (log_of d) (d_meta d)) with (abs d); apply (dres_res P d i0 Ac); exact I).
Qed.

(* ---- reads ---- *)

Lemma consec_skipn : forall l i k, consec i l -> consec (i + N.of_nat k) (skipn k l).
Proof.
  induction l as [|e r IH]; intros i k H; [now rewrite skipn_nil|].
  destruct k; cbn [skipn]; [now rewrite N.add_0_r|]. destruct H as [_ H].
  replace (i + N.of_nat (S k)) with (i + 1 + N.of_nat k) by lia. now apply IH.
Qed.

Lemma dinv_at_first : forall P i0 d Ac, dinv P i0 d Ac -> dinv P (first_of (log_of d)) d Ac.
Proof.
  intros P i0 d Ac I. destruct (nil_or_not (log_of d)) as [E|E].
  - destruct (inv_log_nil P d i0 Ac I E) as [EA Ef].
    subst Ac. rewrite E. apply (dinv_empty_any P i0 d I Ef). cbn. lia.
  - now rewrite (inv_first P d i0 Ac I E).
Qed.

Lemma abs_same : forall d d', log_of d' = log_of d -> d_meta d' = d_meta d -> abs d' = abs d.
Proof. intros d d' H1 H2. rewrite !abs_log. now rewrite H1, H2. Qed.

Lemma step_entries : forall P d i0 Ac lo hi max, dinv P i0 d Ac -> 1 <= hi -> step_ok P (Entries lo hi max) d.
Proof.
  intros P d i0 Ac lo hi max I0 Hhi. pose proof (dinv_at_first P i0 d Ac I0) as I. clear I0.
  unfold step_ok. cbn [step_disk step_spec]. unfold disk_entries, s_entries.
  rewrite (inv_disk_first P d (first_of (log_of d)) Ac I), (inv_log_last P d (first_of (log_of d)) Ac I).
  change (a_ents (abs d)) with (log_of d).
  destruct (lo <? first_of (log_of d)) eqn:E1.
  - split; [eauto|]. split; [reflexivity|]. apply (dres_res P d (first_of (log_of d)) Ac); exact I.
  - destruct (last_of (log_of d) + 1 <? hi) eqn:E2.
    + split; [eauto|]. split; [reflexivity|]. apply (dres_res P d (first_of (log_of d)) Ac); exact I.
    + destruct (all_entries_spec P lo hi max d (first_of (log_of d)) Ac I Hhi ltac:(lia)) as (d' & Hall & I' & L' & M' & N').
      rewrite Hall.
      assert (Hes : rev (snd (take_scan hi max 0 [] (skipn (N.to_nat (lo - first_of (log_of d))) (log_of d))))
                    = limit_size max (slice lo hi (log_of d))).
      { unfold slice. apply take_scan_limit.
        replace lo with (first_of (log_of d) + N.of_nat (N.to_nat (lo - first_of (log_of d)))) at 1 by lia.
        apply consec_skipn. exact (inv_consec P d (first_of (log_of d)) Ac I). }
      rewrite Hes. split; [eauto|]. split; [now apply abs_same|].
      rewrite (dres_res P d' (first_of (log_of d)) Ac _ _ _ _ I'). now rewrite (abs_same d d' L' M').
Qed.

Lemma firstn_whole_log : forall l i, consec i l -> l <> [] -> first_of l = i ->
  firstn (N.to_nat (last_of l + 1 - i)) l = l.
Proof.
  intros l i C Hne Hf. rewrite (consec_last l i C Hne). apply firstn_all2.
  destruct l; [congruence|]. cbn [length] in *. lia.
Qed.

Lemma step_sum : forall P d i0 Ac, dinv P i0 d Ac -> total_size (log_of d) <= 18446744073709551615 -> step_ok P Sum d.
Proof.
  intros P d i0 Ac I0 Hsz. pose proof (dinv_at_first P i0 d Ac I0) as I. clear I0.
  unfold step_ok. cbn [step_disk step_spec]. unfold disk_all.
  rewrite (inv_disk_first P d (first_of (log_of d)) Ac I), (inv_log_last P d (first_of (log_of d)) Ac I).
  destruct (all_entries_spec P (first_of (log_of d)) (last_of (log_of d) + 1) 18446744073709551615 d
              (first_of (log_of d)) Ac I ltac:(lia) ltac:(lia)) as (d' & Hall & I' & L' & M' & N').
  rewrite Hall, N.sub_diag. cbn [N.to_nat skipn].
  assert (Hes : rev (snd (take_scan (last_of (log_of d) + 1) 18446744073709551615 0 [] (log_of d))) = log_of d).
  { rewrite (take_scan_limit _ _ (log_of d) (first_of (log_of d)) (inv_consec P d _ Ac I)).
    destruct (nil_or_not (log_of d)) as [E|E].
    - rewrite E. now destruct (N.to_nat _).
    - rewrite (firstn_whole_log _ _ (inv_consec P d _ Ac I) E eq_refl). now apply limit_size_all. }
  rewrite Hes. split; [eauto|]. split; [now apply abs_same|].
  rewrite (dres_res P d' (first_of (log_of d)) Ac _ _ _ _ I'). now rewrite (abs_same d d' L' M').
Qed.

(* ---- prefix deletion ---- *)

Lemma flen_app : forall a b, flen (a ++ b) = flen a + flen b.
Proof. intros. unfold flen. rewrite map_app, concat_app, app_length. lia. Qed.

Lemma skipn_exact : forall {T} (a b : list T), skipn (length a) (a ++ b) = b.
Proof. intros. rewrite skipn_app, skipn_all, Nat.sub_diag. reflexivity. Qed.

Lemma delete_before_state : forall P d i0 Ac j,
  dinv P i0 d Ac ->
  (exists i0', dinv P i0' (snd (delete_before P j d)) Ac)
  /\ log_of (snd (delete_before P j d)) = drop_below (disk_first (snd (delete_before P j d))) (log_of d)
  /\ d_meta (snd (delete_before P j d)) = d_meta d
  /\ fst (delete_before P j d)
     = (if (j <? first_of (log_of d)) || (match log_of d with [] => true | _ => false end) then OtherErr else Ok).
Proof.
  intros P d i0 Ac j I. pose proof I as (H1 & Hch & V & C & Hn & HKl).
  assert (Hsame : log_of d = drop_below (disk_first d) (log_of d)).
  { unfold drop_below. rewrite (inv_disk_first P d i0 Ac I), N.sub_diag. reflexivity. }
  unfold delete_before.
  destruct (inv_cases P d i0 Ac I) as [(EA & Ef & Hl)|Hne].
  - rewrite (slot_ge_empty P d i0 Ac I EA Ef j). cbn [fst snd].
    split; [eauto|]. split; [exact Hsame|]. split; [reflexivity|]. rewrite Hl, orb_true_r. reflexivity.
  - assert (Hf : first_of (log_of d) = i0) by (apply (inv_first P d i0 Ac I Hne)).
    assert (Hnel : (match log_of d with [] => true | _ => false end) = false) by (destruct (log_of d); [congruence|reflexivity]).
    rewrite Hnel, orb_false_r, Hf.
    set (c0 := i0 + flen (d_files d)).
    destruct (j <? i0) eqn:E1.
    + assert (Hnone : exists sel, slot_ge P d j = (sel, None)).
      { destruct (d_files d) as [|f0 t0] eqn:Ef.
        - exists InCur. apply (slot_ge_below_nofiles P d i0 Ac I Ef j). lia.
        - destruct (slot_ge_below_files P d i0 Ac I ltac:(rewrite Ef; discriminate) j ltac:(lia)) as (k & ->). eauto. }
      destruct Hnone as (sel & Hs). rewrite Hs. destruct sel; cbn [fst snd]; (split; [exists i0; exact I|]; split; [exact Hsame|]; split; reflexivity).
    + destruct (j <? c0) eqn:E2.
      * destruct (chain_locate P (d_files d) i0 j Hch ltac:(lia) ltac:(unfold c0 in E2; lia))
          as (pre & f & post & A & D & Hfs & Vf & Hfi1 & Hfi2).
        rewrite (slot_ge_old P d i0 Ac I pre f post A D j Hfs Vf Hfi1 Hfi2). cbn [fst snd].
        set (fi := i0 + flen pre) in *.
        rewrite Hfs, skipn_exact.
        set (d' := mkdisk (f :: post) (d_cur d) (d_next d) (d_meta d)).
        assert (Hch' : chain P fi (f :: post)) by (rewrite Hfs in Hch; apply chain_app in Hch as [_ R]; exact R).
        assert (Hfl : flen (d_files d) = flen pre + flen (f :: post)) by (rewrite Hfs; apply flen_app).
        assert (I' : dinv P fi d' Ac).
        { unfold dinv, d'. cbn [d_files d_cur d_next]. split; [unfold fi; lia|]. split; [exact Hch'|]. split; [exact V|].
          split; [replace (fi + flen (f :: post)) with (i0 + flen (d_files d)) by (unfold fi; lia); exact C|].
          split; [exact Hn|]. intro E. specialize (HKl E). rewrite Hfs in HKl. apply Forall_app in HKl. tauto. }
        split; [eauto|]. split; [|split; reflexivity].
        assert (Hne' : log_of d' <> []) by (apply (inv_ne_files P d' fi Ac I'); discriminate).
        rewrite (inv_disk_first P d' fi Ac I'), (inv_first P d' fi Ac I' Hne'). unfold drop_below. rewrite Hf.
        rewrite (inv_log P d' fi Ac I'), (inv_log P d i0 Ac I). unfold d'. cbn [d_files]. rewrite Hfs, map_app, concat_app, <- app_assoc.
        replace (N.to_nat (fi - i0)) with (length (concat (map file_entries pre))) by (unfold fi, flen; lia).
        now rewrite skipn_exact.
      * destruct (nil_or_not Ac) as [EA|EA].
        { (* empty current file beside older files: everything but the newest rotated file goes *)
          assert (Ef : d_files d <> []).
          { intro Ef. apply Hne. rewrite (inv_log P d i0 Ac I), Ef, EA. reflexivity. }
          destruct (exists_last Ef) as (pre & f & Hfs).
          destruct (slot_ge_files_beyond P d i0 Ac I EA pre f j Hfs ltac:(fold c0; lia)) as (A & D & Vf & HAf & Cf & ->).
          cbn [fst snd]. set (fi := i0 + flen pre) in *.
          rewrite Hfs, skipn_exact.
          set (d' := mkdisk [f] (d_cur d) (d_next d) (d_meta d)).
          assert (Hch' : chain P fi [f]) by (rewrite Hfs in Hch; apply chain_app in Hch as [_ R]; exact R).
          assert (Hfl : flen (d_files d) = flen pre + flen [f]) by (rewrite Hfs; apply flen_app).
          assert (I' : dinv P fi d' Ac).
          { unfold dinv, d'. cbn [d_files d_cur d_next]. split; [unfold fi; lia|]. split; [exact Hch'|]. split; [exact V|].
            split; [replace (fi + flen [f]) with (i0 + flen (d_files d)) by (unfold fi; lia); exact C|].
            split; [exact Hn|]. intro E. specialize (HKl E). rewrite Hfs in HKl. apply Forall_app in HKl. tauto. }
          split; [eauto|]. split; [|split; reflexivity].
          assert (Hne' : log_of d' <> []) by (apply (inv_ne_files P d' fi Ac I'); discriminate).
          rewrite (inv_disk_first P d' fi Ac I'), (inv_first P d' fi Ac I' Hne'). unfold drop_below. rewrite Hf.
          rewrite (inv_log P d' fi Ac I'), (inv_log P d i0 Ac I). unfold d'. cbn [d_files]. rewrite Hfs, map_app, concat_app, <- app_assoc.
          replace (N.to_nat (fi - i0)) with (length (concat (map file_entries pre))) by (unfold fi, flen; lia).
          now rewrite skipn_exact. }
        assert (Hsel : exists p, slot_ge P d j = (InCur, Some p)).
        { destruct (j <? c0 + N.of_nat (length Ac)) eqn:E3.
          - rewrite (slot_ge_cur_inside P d i0 Ac I j) by (fold c0; lia). eauto.
          - rewrite (slot_ge_cur_beyond P d i0 Ac I j EA) by (fold c0; lia). eauto. }
        destruct Hsel as (p & ->). cbn [fst snd].
        set (d' := mkdisk [] (d_cur d) (d_next d) (d_meta d)).
        assert (I' : dinv P c0 d' Ac).
        { unfold dinv, d'. cbn [d_files d_cur d_next chain]. rewrite flen_nil, N.add_0_r.
          split; [unfold c0; lia|]. split; [exact Logic.I|]. split; [exact V|]. split; [exact C|]. split; [exact Hn|]. intros _. constructor. }
        split; [eauto|]. split; [|split; reflexivity].
        assert (Hne' : log_of d' <> []) by (apply (inv_ne_cur P d' c0 Ac I' EA)).
        rewrite (inv_disk_first P d' c0 Ac I'), (inv_first P d' c0 Ac I' Hne'). unfold drop_below. rewrite Hf.
        rewrite (inv_log P d' c0 Ac I'), (inv_log P d i0 Ac I). unfold d'. cbn [d_files map concat app].
        replace (N.to_nat (c0 - i0)) with (length (concat (map file_entries (d_files d)))) by (unfold c0, flen; lia).
        now rewrite skipn_exact.
Qed.

Lemma step_delete : forall P d i0 Ac j, dinv P i0 d Ac -> step_ok P (DeleteBefore j) d.
Proof.
  intros P d i0 Ac j I. unfold step_ok. cbn [step_disk step_spec].
  destruct (delete_before_state P d i0 Ac j I) as ((i0' & I') & L' & M' & E').
  destruct (delete_before P j d) as [e d'] eqn:Ed. cbn [fst snd] in *.
  unfold a_first. change (a_ents (abs d)) with (log_of d). change (r_first (dres P d' e [] 0 None)) with (disk_first d').
  rewrite E'.
  destruct ((j <? first_of (log_of d)) || match log_of d with [] => true | _ => false end) eqn:Ec.
  - (* nothing happens *)
    assert (Hd : d' = d).
    { unfold delete_before in Ed. destruct (slot_ge P d j) as [sel [p|]] eqn:Es.
      - destruct sel; injection Ed as <- <-; discriminate E'.
      - destruct sel; now injection Ed. }
    subst d'. split; [eauto|]. split; [reflexivity|]. apply (dres_res P d i0' Ac); exact I'.
  - split; [eauto|]. split.
    + rewrite abs_log, L', M'. reflexivity.
    + rewrite (dres_res P d' i0' Ac _ _ _ _ I'). rewrite abs_log, L', M'. reflexivity.
Qed.

(* ---- reopen ---- *)

Lemma filter_all : forall {T} (p : T -> bool) l, Forall (fun x => p x = true) l -> filter p l = l.
Proof. intros T p l H. induction H as [|x t Hx Ht IH]; [reflexivity|]. cbn [filter]. now rewrite Hx, IH. Qed.

Lemma forget_view : forall P f A D, fview P f A D -> fview P (forget f) A D.
Proof. intros P f A D [V1 V2 V3 V4 V5 V6 V7]. constructor; auto. exact Logic.I. Qed.

Lemma forget_entries : forall f, file_entries (forget f) = file_entries f.
Proof. reflexivity. Qed.

Lemma forget_first : forall f, file_first (forget f) = file_first f.
Proof. reflexivity. Qed.

Lemma chain_forget : forall P fs i, chain P i fs -> chain P i (map forget fs).
Proof.
  intros P fs. induction fs as [|f t IH]; intros i H; [exact Logic.I|]. cbn [chain map] in *.
  destruct H as (A & D & V & HA & C & R). exists A, D. split; [now apply forget_view|]. auto.
Qed.

Lemma map_forget_entries : forall fs, map file_entries (map forget fs) = map file_entries fs.
Proof. intros. rewrite map_map. apply map_ext. intro. reflexivity. Qed.

Lemma insert_file_last : forall f l, Forall (fun g => file_first g <= file_first f) l -> insert_file f l = l ++ [f].
Proof.
  intros f l H. induction H as [|g t Hg Ht IH]; [reflexivity|]. cbn [insert_file app].
  destruct (file_first g <=? file_first f) eqn:E; [now rewrite IH|lia].
Qed.

Lemma sort_files_sorted : forall l acc,
  (forall a f b, acc ++ l = a ++ f :: b -> Forall (fun g => file_first g <= file_first f) a) ->
  fold_left (fun acc f => insert_file f acc) l acc = acc ++ l.
Proof.
  induction l as [|f t IH]; intros acc H; cbn [fold_left]; [now rewrite app_nil_r|].
  rewrite insert_file_last by (apply (H acc f t); reflexivity).
  rewrite IH; [now rewrite <- app_assoc|]. intros a g b E. apply (H a g b). rewrite <- E, <- app_assoc. reflexivity.
Qed.

(* first indexes along a chain are increasing and not zero *)
Lemma chain_firsts : forall P fs i, chain P i fs -> 1 <= i ->
  Forall (fun g => i <= file_first g /\ file_first g < i + flen fs) fs.
Proof.
  intros P fs. induction fs as [|f t IH]; intros i H Hi; [constructor|].
  cbn [chain] in H. destruct H as (A & D & V & HA & C & R). rewrite (flen_cons P f A D t V).
  pose proof (length_pos_ne A HA). constructor.
  - rewrite (view_first P f A D i V C Hi HA). lia.
  - eapply Forall_impl; [|apply (IH _ R); lia]. cbn. intros g [G1 G2]. lia.
Qed.

Lemma chain_sorted : forall P fs i a f b, chain P i fs -> 1 <= i -> fs = a ++ f :: b ->
  Forall (fun g => file_first g <= file_first f) a.
Proof.
  intros P fs i a f b H Hi ->. apply chain_app in H as [Ha Hb].
  pose proof (chain_firsts P a i Ha Hi) as Fa.
  cbn [chain] in Hb. destruct Hb as (A & D & V & HA & C & _).
  rewrite (view_first P f A D (i + flen a) V C ltac:(lia) HA).
  eapply Forall_impl; [|exact Fa]. cbn. intros g [_ G]. lia.
Qed.

Lemma insert_file_first : forall f l, Forall (fun g => file_first f < file_first g) l -> insert_file f l = f :: l.
Proof.
  intros f l H. destruct H as [|g t Hg Ht]; [reflexivity|]. cbn [insert_file].
  destruct (file_first g <=? file_first f) eqn:E; [lia|reflexivity].
Qed.

Lemma open_logs_inv : forall P d i0 Ac,
  dinv P i0 d Ac ->
  (exists Ac', dinv P i0 (open_logs P d) Ac') /\ log_of (open_logs P d) = log_of d /\ d_meta (open_logs P d) = d_meta d
  /\ (Ac <> [] -> dinv P i0 (open_logs P d) Ac).
Proof.
  intros P d i0 Ac I. pose proof I as (H1 & Hch & V & C & Hn & HKl). unfold open_logs.
  destruct (nil_or_not Ac) as [EA|EA]; [destruct (nil_or_not (d_files d)) as [Ef|Ef]|].
  - (* nothing on disk but an empty file: it is removed and a new one created *)
    rewrite Ef. cbn [app map]. unfold sort_files. cbn [fold_left insert_file filter].
    rewrite forget_first, (view_first_empty P (d_cur d) Ac [] (i0 + flen (d_files d)) V C ltac:(lia) EA).
    cbn [N.eqb negb rev].
    split; [|split; [|split; [reflexivity|congruence]]].
    + assert (Vn : forall x, fview P (new_file P x false) [] []).
      { intro x. constructor; cbn; try reflexivity; try constructor. lia. }
      exists []. unfold dinv. cbn [d_files d_cur d_next chain].
      split; [exact H1|]. split; [exact Logic.I|]. split; [apply Vn|]. split; [exact Logic.I|]. split; [reflexivity|]. intros _. constructor.
    + rewrite !log_of_eq. cbn [d_files d_cur map concat app]. rewrite Ef. cbn [map concat app].
      rewrite (fv_entries P (d_cur d) Ac [] V), EA. reflexivity.
  - (* the empty current file beside older files is dropped; the newest rotated file becomes the current one *)
    destruct (exists_last Ef) as (pre & f & Hf).
    pose proof (HKl EA) as Hal.
    pose proof Hch as Hch0. rewrite Hf in Hch. apply chain_app in Hch as [Hpre Hrest]. cbn [chain] in Hrest.
    destruct Hrest as (A & D & Vf & HA & Cf & _).
    assert (ED : D = []).
    { rewrite Hf in Hal. apply Forall_app in Hal as [_ Hal]. inversion Hal as [|? ? Hlf _]; subst.
      unfold all_live in Hlf. rewrite (fv_rows _ _ _ _ Vf), forallb_rev, forallb_app in Hlf.
      apply andb_true_iff in Hlf as [_ Hlf]. destruct D as [|g t]; [reflexivity|].
      cbn [forallb] in Hlf. apply andb_true_iff in Hlf as [Hg _].
      pose proof (fv_dead _ _ _ _ Vf) as HD. inversion HD as [|? ? [Hg0 _] _]; subst.
      unfold live_row in Hg. rewrite Hg0 in Hg. discriminate. }
    subst D.
    set (files' := map forget (d_files d)).
    assert (Hall : map forget (d_files d ++ [d_cur d]) = files' ++ [forget (d_cur d)]) by (rewrite map_app; reflexivity).
    assert (Hchf : chain P i0 files') by (now apply chain_forget).
    assert (Hc0 : file_first (forget (d_cur d)) = 0).
    { rewrite forget_first. apply (view_first_empty P (d_cur d) Ac [] (i0 + flen (d_files d)) V C ltac:(lia) EA). }
    assert (Hsort : sort_files (files' ++ [forget (d_cur d)]) = forget (d_cur d) :: files').
    { unfold sort_files. rewrite fold_left_app. cbn [fold_left].
      rewrite (sort_files_sorted files' []); [cbn [app]|].
      - apply insert_file_first. pose proof (chain_firsts P files' i0 Hchf H1) as F.
        eapply Forall_impl; [|exact F]. cbn. intros g [G1 _]. rewrite Hc0. lia.
      - cbn [app]. intros a g b E. exact (chain_sorted P files' i0 a g b Hchf H1 E). }
    assert (Hfilter : filter (fun g => negb (file_first g =? 0)) (forget (d_cur d) :: files') = files').
    { cbn [filter]. rewrite Hc0. cbn [N.eqb negb]. apply filter_all. pose proof (chain_firsts P files' i0 Hchf H1) as F.
      eapply Forall_impl; [|exact F]. cbn. intros g [G1 G2]. destruct (file_first g =? 0) eqn:E; [lia|reflexivity]. }
    rewrite Hall, Hsort, Hfilter. unfold files'. rewrite Hf, map_app, rev_app_distr. cbn [map rev app]. rewrite rev_involutive.
    rewrite (first_empty_view P (forget f) A [] 1 (forget_view P _ _ _ Vf) ltac:(lia)).
    split; [|split; [|split; [reflexivity|congruence]]].
    + exists A. unfold dinv. cbn [d_files d_cur d_next].
      rewrite (flen_map _ pre (map_forget_entries _)).
      split; [exact H1|]. split; [now apply chain_forget|]. split; [now apply forget_view|]. split; [exact Cf|].
      split; [reflexivity|]. intro E. congruence.
    + rewrite !log_of_eq. cbn [d_files d_cur]. rewrite map_forget_entries, Hf, map_app, concat_app. cbn [map concat].
      rewrite app_nil_r, (fv_entries P (d_cur d) Ac [] V), EA. cbn [map]. rewrite app_nil_r. reflexivity.
  - set (all := map forget (d_files d ++ [d_cur d])).
    assert (Hall : all = map forget (d_files d) ++ [forget (d_cur d)]) by (unfold all; rewrite map_app; reflexivity).
    assert (Hchain_all : chain P i0 all).
    { rewrite Hall. apply chain_app. split; [now apply chain_forget|]. cbn [chain].
      exists Ac, []. split; [now apply forget_view|]. split; [exact EA|]. split; [|exact Logic.I].
      rewrite (flen_map _ (d_files d) (map_forget_entries _)). exact C. }
    assert (Hsort : sort_files all = all).
    { unfold sort_files. rewrite sort_files_sorted; [reflexivity|]. cbn [app]. intros a f b E.
      exact (chain_sorted P all i0 a f b Hchain_all H1 E). }
    assert (Hfilter : filter (fun f => negb (file_first f =? 0)) all = all).
    { apply filter_all. pose proof (chain_firsts P all i0 Hchain_all H1) as F.
      eapply Forall_impl; [|exact F]. cbn. intros g [G1 G2]. destruct (file_first g =? 0) eqn:E; [lia|reflexivity]. }
    rewrite Hsort, Hfilter, Hall, rev_app_distr. cbn [rev app]. rewrite rev_involutive.
    rewrite (first_empty_view P (forget (d_cur d)) Ac [] 1 (forget_view P _ _ _ V) ltac:(lia)).
    assert (Inew : dinv P i0 (mkdisk (map forget (d_files d)) (forget (d_cur d)) (N.of_nat (length Ac)) (d_meta d)) Ac).
    { unfold dinv. cbn [d_files d_cur d_next]. rewrite (flen_map _ (d_files d) (map_forget_entries _)).
      split; [exact H1|]. split; [now apply chain_forget|]. split; [now apply forget_view|]. split; [exact C|].
      split; [reflexivity|]. intro E. congruence. }
    split; [|split; [|split; [reflexivity|intros _; exact Inew]]].
    + exists Ac. unfold dinv. cbn [d_files d_cur d_next]. rewrite (flen_map _ (d_files d) (map_forget_entries _)).
      split; [exact H1|]. split; [now apply chain_forget|]. split; [now apply forget_view|]. split; [exact C|].
      split; [reflexivity|]. intro E. congruence.
    + rewrite !log_of_eq. cbn [d_files d_cur]. rewrite map_forget_entries. reflexivity.
Qed.

Lemma step_reopen : forall P d i0 Ac, dinv P i0 d Ac -> step_ok P Reopen d.
Proof.
  intros P d i0 Ac I. unfold step_ok. cbn [step_disk step_spec]. unfold reopen.
  destruct (open_logs_inv P d i0 Ac I) as ((Ac1 & I1) & L1 & M1 & _).
  set (d1 := open_logs P d) in *.
  set (j := (if 0 <? snap_i (d_meta d1) then snap_i (d_meta d1) + 1 else disk_first d1) - 1).
  destruct (delete_before_state P d1 i0 Ac1 j I1) as ((i0' & I') & L' & M' & _).
  set (d' := snd (delete_before P j d1)) in *.
  change (r_first (dres P d' Ok [] 0 None)) with (disk_first d').
  split; [eauto|]. split.
  - rewrite abs_log, L', M', L1, M1. reflexivity.
  - rewrite (dres_res P d' i0' Ac1 _ _ _ _ I'). rewrite abs_log, L', M', L1, M1. reflexivity.
Qed.
