(* C17: the variant the tree implements since fe68fb6 - the slots of a discarded tail are cleared by ONE plain
   positioned write of zeros (ZeroSlots), without the length prefix of WriteSlice. No dead slot is ever left behind,
   so besides the invariant [dinv] every rotated file consists of live rows only ([alivef]). The refinement of every
   operation is re-established for this variant. *)
From Coq Require Import NArith PeanoNat List Bool Lia ZifyBool ZifyN ZifyNat.
From OG Require Import C17.Model C17.Proofs C17.Refine C17.Inv C17.Search C17.Read C17.Step C17.SaveStep.
Import ListNotations.
Open Scope N_scope.

(* ---- what ZeroSlots does to a file ---- *)

Lemma trim_zero_zeros : forall k, trim_zero (repeat zero_row k) = [].
Proof. induction k as [|k IH]; [reflexivity|]. cbn [repeat trim_zero]. cbn. exact IH. Qed.

Lemma live_not_zero : forall r, live_row r = true -> is_zero_slot (r_slot r) = false.
Proof.
  intros r H. unfold live_row in H. unfold is_zero_slot. destruct (s_index (r_slot r) =? 0); [discriminate|].
  now rewrite andb_false_r.
Qed.

Lemma trim_zero_repeat_any : forall k rest,
  match rest with [] => True | g :: _ => is_zero_slot (r_slot g) = false end ->
  trim_zero (repeat zero_row k ++ rest) = rest.
Proof.
  intros k [|g rest] H; [rewrite app_nil_r; apply trim_zero_zeros|now apply trim_zero_repeat].
Qed.

(* ZeroSlots(lo, hi) with hi at or beyond the written part keeps exactly the rows below lo *)
Lemma zero_slots_rows : forall hi lo f top bottom,
  f_rows f = top ++ bottom -> N.of_nat (length bottom) = lo -> rows_ok f -> f_n f <= hi ->
  match bottom with [] => True | g :: _ => live_row g = true end ->
  f_rows (zero_slots hi lo f) = bottom /\ f_n (zero_slots hi lo f) = lo.
Proof.
  intros hi lo f top bottom Hrows Hlo Hn Hhi Hb. unfold rows_ok in Hn.
  assert (Hlen : f_n f = N.of_nat (length top) + lo) by (rewrite Hn, Hrows, app_length; lia).
  unfold zero_slots. cbn [f_rows f_n]. rewrite map_pos_spec, Hrows.
  rewrite (map_with_pos_top _ zero_row).
  - rewrite map_with_pos_id.
    + rewrite trim_zero_repeat_any; [split; [reflexivity|exact Hlo]|].
      destruct bottom as [|g t]; [exact I|now apply live_not_zero].
    + intros p x Hp. destruct (lo <=? p) eqn:E; [lia|reflexivity].
  - intros p x Hp. rewrite app_length in Hp.
    destruct (lo <=? p) eqn:E1; [|lia]. destruct (p <? hi) eqn:E2; [reflexivity|lia].
Qed.

Lemma zero_slots_view : forall P hi lo f A D,
  fview P f A D -> (lo < length A)%nat -> f_n f <= hi ->
  fview P (zero_slots hi (N.of_nat lo) f) (firstn lo A) [].
Proof.
  intros P hi lo f A D V Hlo Hhi.
  assert (HX : A ++ D = firstn lo A ++ skipn lo (A ++ D)).
  { rewrite <- (firstn_skipn lo (A ++ D)) at 1. f_equal. rewrite firstn_app.
    replace (lo - length A)%nat with 0%nat by lia. cbn [firstn]. now rewrite app_nil_r. }
  assert (Hrows : f_rows f = rev (skipn lo (A ++ D)) ++ rev (firstn lo A)).
  { rewrite (fv_rows _ _ _ _ V). rewrite HX at 1. now rewrite rev_app_distr. }
  assert (Hlen : length (firstn lo A) = lo) by (apply firstn_length_le; lia).
  pose proof (fv_good _ _ _ _ V) as G.
  destruct (zero_slots_rows hi (N.of_nat lo) f _ _ Hrows ltac:(rewrite rev_length; lia) (fv_rows_ok _ _ _ _ V) Hhi) as [Z1 Z2].
  { destruct (rev (firstn lo A)) as [|g t] eqn:E; [exact I|].
    assert (Hin : In g (firstn lo A)) by (apply in_rev; rewrite E; now left).
    assert (Hg : In g A) by (rewrite <- (firstn_skipn lo A); apply in_or_app; now left).
    rewrite Forall_forall in G. eapply good_live. exact (G g Hg). }
  constructor.
  - rewrite asc_rows_rev, Z1, rev_involutive, app_nil_r. reflexivity.
  - rewrite Z2, app_nil_r, Hlen. reflexivity.
  - rewrite Z2. pose proof (fv_max _ _ _ _ V). pose proof (fv_n _ _ _ _ V) as Hn. rewrite app_length in Hn. lia.
  - apply Forall_firstn_row. exact G.
  - constructor.
  - apply incr_offs_firstn. exact (fv_offs _ _ _ _ V).
  - unfold zero_slots. cbn [f_c0]. destruct (N.of_nat lo =? 0) eqn:E; [exact I|].
    pose proof (fv_c0 _ _ _ _ V) as C. destruct (f_c0 f) as [n|]; [|exact I].
    destruct C as (r & t & -> & Hn). destruct lo; [lia|]. cbn [firstn]. eauto.
Qed.

Lemma zero_slots_end_view : forall P hi f A,
  fview P f A [] -> A <> [] -> f_n f <= hi -> fview P (zero_slots hi (N.of_nat (length A)) f) A [].
Proof.
  intros P hi f A V HA Hhi.
  assert (Hrows : f_rows f = [] ++ rev A) by (rewrite (fv_rows _ _ _ _ V), app_nil_r; reflexivity).
  pose proof (fv_good _ _ _ _ V) as G.
  destruct (zero_slots_rows hi (N.of_nat (length A)) f [] (rev A) Hrows ltac:(now rewrite rev_length) (fv_rows_ok _ _ _ _ V) Hhi) as [Z1 Z2].
  { destruct (rev A) as [|g t] eqn:E; [exact I|].
    assert (Hin : In g A) by (apply in_rev; rewrite E; now left).
    rewrite Forall_forall in G. eapply good_live. exact (G g Hin). }
  constructor.
  - rewrite asc_rows_rev, Z1, rev_involutive, app_nil_r. reflexivity.
  - rewrite Z2, app_nil_r. reflexivity.
  - rewrite Z2. pose proof (fv_max _ _ _ _ V). pose proof (fv_n _ _ _ _ V) as Hn. rewrite app_nil_r in Hn. lia.
  - exact G.
  - constructor.
  - exact (fv_offs _ _ _ _ V).
  - unfold zero_slots. cbn [f_c0]. destruct (N.of_nat (length A) =? 0) eqn:E; [exact I|]. exact (fv_c0 _ _ _ _ V).
Qed.

(* clearing [m, hi) of a file without dead rows, for ANY m: the live rows below m stay, nothing else *)
Lemma zero_slots_view_any : forall P hi f A m,
  fview P f A [] -> f_n f <= hi -> fview P (zero_slots hi m f) (firstn (N.to_nat m) A) [].
Proof.
  intros P hi f A m V Hhi.
  destruct (Nat.ltb (N.to_nat m) (length A)) eqn:E.
  - apply Nat.ltb_lt in E. replace m with (N.of_nat (N.to_nat m)) at 1 by lia. now apply (zero_slots_view P hi (N.to_nat m) f A []).
  - apply Nat.ltb_ge in E. rewrite firstn_all2 by lia.
    pose proof (fv_n _ _ _ _ V) as Hn. rewrite app_nil_r in Hn.
    pose proof (fv_good _ _ _ _ V) as G.
    assert (Hrows : f_rows (zero_slots hi m f) = f_rows f /\ f_n (zero_slots hi m f) = f_n f).
    { unfold zero_slots. cbn [f_rows f_n]. rewrite map_pos_spec.
      rewrite map_with_pos_id.
      - assert (T : trim_zero (f_rows f) = f_rows f).
        { rewrite (fv_rows _ _ _ _ V), app_nil_r. destruct (rev A) as [|g t] eqn:Er; [reflexivity|].
          cbn [trim_zero]. assert (Hin : In g A) by (apply in_rev; rewrite Er; now left).
          rewrite Forall_forall in G. rewrite (live_not_zero g (good_live _ _ (G g Hin))). reflexivity. }
        rewrite T. split; [reflexivity|]. symmetry. exact (fv_rows_ok _ _ _ _ V).
      - intros p x Hp. rewrite (fv_rows _ _ _ _ V), rev_length, app_nil_r in Hp.
        destruct (m <=? p) eqn:E1; [lia|reflexivity]. }
    destruct Hrows as [R1 R2].
    constructor.
    + rewrite asc_rows_rev, R1, <- asc_rows_rev. exact (fv_asc _ _ _ _ V).
    + rewrite R2. exact (fv_n _ _ _ _ V).
    + rewrite R2. exact (fv_max _ _ _ _ V).
    + exact G.
    + constructor.
    + exact (fv_offs _ _ _ _ V).
    + unfold zero_slots. cbn [f_c0]. destruct (m =? 0) eqn:E0; [exact I|]. exact (fv_c0 _ _ _ _ V).
Qed.

Lemma clear_part_view : forall P hi c f A,
  fview P f A [] -> f_n f <= hi -> fview P (clear_part hi c f) (firstn (N.to_nat (hi - c)) A) [] \/
                                    (c = 0 /\ clear_part hi c f = f).
Proof.
  intros P hi c f A V Hhi. unfold clear_part. destruct (c =? 0) eqn:E; [right; split; [lia|reflexivity]|left].
  now apply zero_slots_view_any.
Qed.

Lemma clear_part_view_all : forall P hi c f A,
  fview P f A [] -> f_n f <= hi -> fview P (clear_part hi c f) (firstn (N.to_nat (hi - c)) A) [].
Proof.
  intros P hi c f A V Hhi. destruct (clear_part_view P hi c f A V Hhi) as [H|[-> ->]]; [exact H|].
  pose proof (fv_n _ _ _ _ V) as Hn. rewrite app_nil_r in Hn. rewrite firstn_all2 by lia. exact V.
Qed.

Lemma clears_end_zeroslots : forall P, clears_end VZeroSlots P.
Proof. intros P endb hi f A V HA Hhi. cbn [clear_slots]. now apply zero_slots_end_view. Qed.

Lemma clears_zeroslots : forall P, clears VZeroSlots P true.
Proof.
  intros P endb hi lo f A D V Hlo _ _ Hhi. cbn [clear_slots]. exists []. split; [cbn; lia|]. split; [reflexivity|].
  now apply (zero_slots_view P hi lo f A D).
Qed.

(* ---- rotated files hold live rows only ---- *)

Definition alivef (d : disk) : Prop := Forall all_live (d_files d).
Definition dinvz (P : params) (i0 : N) (d : disk) (Ac : list row) : Prop := dinv P i0 d Ac /\ alivef d.




(* reads only touch the cached length of slot 0 *)
Lemma scan_file_rows : forall P hi max f p size acc, f_rows (snd (scan_file P hi max f p size acc)) = f_rows f.
Proof.
  intros. unfold scan_file. destruct (scan_rows P (f_size f) hi max _ p size acc (f_c0 f)) as [[[? ?] ?] ?]. reflexivity.
Qed.

Lemma scan_files_rows : forall P hi max fs size acc,
  map f_rows (snd (scan_files P hi max fs size acc)) = map f_rows fs.
Proof.
  intros P hi max. induction fs as [|f t IH]; intros size acc; cbn [scan_files]; [reflexivity|].
  pose proof (scan_file_rows P hi max f 0 size acc) as H.
  destruct (scan_file P hi max f 0 size acc) as [[[st sz] ac] f'] eqn:E. cbn [snd] in H.
  destruct st.
  - cbn [snd map]. now rewrite H.
  - specialize (IH sz ac). destruct (scan_files P hi max t sz ac) as [[[st2 sz2] ac2] t']. cbn [snd] in *. cbn [map].
    now rewrite H, IH.
Qed.

Lemma all_entries_files : forall P lo hi max d,
  map f_rows (d_files (snd (all_entries P lo hi max d))) = map f_rows (d_files d).
Proof.
  intros P lo hi max d. unfold all_entries. destruct (slot_ge P d lo) as [sel off]. destruct sel as [|k].
  - destruct (scan_file P hi max (d_cur d) _ 0 []) as [[[? ?] ?] ?]. reflexivity.
  - destruct (skipn k (d_files d)) as [|f rest] eqn:Es; [reflexivity|].
    assert (Hfs : d_files d = firstn k (d_files d) ++ f :: rest) by (rewrite <- Es; symmetry; apply firstn_skipn).
    pose proof (scan_file_rows P hi max f (match off with Some p => p | None => 0 end) 0 []) as H.
    destruct (scan_file P hi max f _ 0 []) as [[[st sz] ac] f'] eqn:E. cbn [snd] in H.
    destruct st.
    + cbn [snd d_files]. rewrite Hfs at 2. rewrite !map_app. cbn [map]. now rewrite H.
    + pose proof (scan_files_rows P hi max rest sz ac) as H2.
      destruct (scan_files P hi max rest sz ac) as [[[st2 sz2] ac2] rest'] eqn:E2. cbn [snd] in H2.
      destruct st2.
      * cbn [snd d_files]. rewrite Hfs at 2. rewrite !map_app. cbn [map]. now rewrite H, H2.
      * destruct (scan_file P hi max (d_cur d) 0 sz2 ac2) as [[[? ?] ?] ?].
        cbn [snd d_files]. rewrite Hfs at 2. rewrite !map_app. cbn [map]. now rewrite H, H2.
Qed.

Lemma insert_file_Forall : forall (Q : file -> Prop) f l, Q f -> Forall Q l -> Forall Q (insert_file f l).
Proof.
  intros Q f l Hf H. induction H as [|g t Hg Ht IH]; cbn [insert_file]; [auto|].
  destruct (file_first g <=? file_first f); auto.
Qed.

Lemma sort_files_Forall : forall (Q : file -> Prop) l, Forall Q l -> Forall Q (sort_files l).
Proof.
  intros Q l H. unfold sort_files.
  assert (G : forall acc, Forall Q acc -> Forall Q (fold_left (fun acc f => insert_file f acc) l acc)).
  { induction H as [|f t Hf Ht IH]; intros acc Ha; cbn [fold_left]; [exact Ha|]. apply IH. now apply insert_file_Forall. }
  apply G. constructor.
Qed.

Lemma Forall_filter_ : forall {T} (Q : T -> Prop) p l, Forall Q l -> Forall Q (filter p l).
Proof.
  intros T Q p l H. rewrite Forall_forall in *. intros x Hx. apply filter_In in Hx as [Hx _]. now apply H.
Qed.

Lemma Forall_skipn_ : forall {T} (Q : T -> Prop) k l, Forall Q l -> Forall Q (skipn k l).
Proof.
  intros T Q k l H. rewrite Forall_forall in *. intros x Hx. apply H.
  rewrite <- (firstn_skipn k l). apply in_or_app. now right.
Qed.

Lemma delete_before_alive : forall P j d, alivef d -> alivef (snd (delete_before P j d)).
Proof.
  intros P j d H. unfold delete_before. destruct (slot_ge P d j) as [sel [p|]]; [|destruct sel; exact H].
  destruct sel as [|k]; cbn [snd]; unfold alivef; cbn [d_files]; [constructor|now apply Forall_skipn_].
Qed.

Lemma forget_all_live : forall f, all_live f -> all_live (forget f).
Proof. intros f H. exact H. Qed.

Lemma open_logs_alive : forall P d, alivef d -> all_live (d_cur d) -> alivef (open_logs P d).
Proof.
  intros P d H Hc. unfold open_logs.
  set (all := map forget (d_files d ++ [d_cur d])).
  assert (Hall : Forall all_live all).
  { unfold all. rewrite Forall_forall. intros x Hx. apply in_map_iff in Hx as (y & <- & Hy).
    apply forget_all_live. apply in_app_or in Hy as [Hy|[<-|[]]]; [|exact Hc].
    unfold alivef in H. rewrite Forall_forall in H. now apply H. }
  pose proof (Forall_filter_ all_live (fun f => negb (file_first f =? 0)) _ (sort_files_Forall all_live all Hall)) as HL.
  apply Forall_rev in HL.
  destruct (rev (filter (fun f => negb (file_first f =? 0)) (sort_files all))) as [|c older].
  - unfold alivef. cbn [d_files]. constructor.
  - unfold alivef. cbn [d_files]. inversion HL; subst. now apply Forall_rev.
Qed.

(* ---- one step of the variant: the refinement of every operation, with the stronger invariant ---- *)

Definition step_ok_z (P : params) (o : sop) (d : disk) : Prop :=
  let '(d', r) := step_disk VZeroSlots P o d in
  let '(a', r') := step_spec o (r_first r) (abs d) in
  (exists i0' Ac', dinvz P i0' d' Ac') /\ abs d' = a' /\ r = r'.

Lemma cur_all_live : forall P i0 d Ac, dinv P i0 d Ac -> all_live (d_cur d).
Proof. intros P i0 d Ac (_ & _ & V & _). exact (view_all_live P (d_cur d) Ac V). Qed.

(* operations other than Save do not depend on the variant *)
Lemma step_other : forall P o d i0 Ac,
  (match o with Save _ _ _ => False | _ => True end) ->
  dinvz P i0 d Ac -> step_ok P o d -> alivef (fst (step_disk VZeroSlots P o d)) -> step_ok_z P o d.
Proof.
  intros P o d i0 Ac Ho I S Hal. unfold step_ok_z, step_ok in *.
  assert (E : step_disk VZeroSlots P o d = step_disk VRepaired P o d) by (destruct o; [contradiction|reflexivity..]).
  rewrite E in *. destruct (step_disk VRepaired P o d) as [d' r]. cbn [fst] in Hal.
  destruct (step_spec o (r_first r) (abs d)) as [a' r']. destruct S as ((i0' & Ac' & I') & Ha & Hr).
  split; [exists i0', Ac'; split; assumption|]. split; assumption.
Qed.

Lemma alive_entries : forall P lo hi max d, alivef d -> alivef (snd (disk_entries P lo hi max d)).
Proof.
  intros P lo hi max d H. unfold disk_entries.
  destruct (lo <? disk_first d); [exact H|]. destruct (log_last P d + 1 <? hi); [exact H|].
  pose proof (all_entries_files P lo hi max d) as F. destruct (all_entries P lo hi max d) as [es d']. cbn [snd] in *.
  unfold alivef in *. now apply (Forall_all_live_rows _ (d_files d)).
Qed.

Lemma step_save_z : forall P, wf_params P = true -> forall d i0 Ac es h s,
  dinvz P i0 d Ac -> valid_op P (Save es h s) (abs d) -> step_ok_z P (Save es h s) d.
Proof.
  intros P HP d i0 Ac es h s [I Hal] Hv. unfold step_ok_z. cbn [step_disk step_spec].
  assert (H : exists i0' Ac', dinv P i0' (add_entries VZeroSlots P es d) Ac'
                              /\ log_of (add_entries VZeroSlots P es d) = s_append es (log_of d)
                              /\ d_meta (add_entries VZeroSlots P es d) = d_meta d
                              /\ alivef (add_entries VZeroSlots P es d)).
  { destruct es as [|e0 r].
    - exists i0, Ac. cbn [add_entries s_append]. auto.
    - cbn [valid_op] in Hv. destruct Hv as (Ces & Hb & Hfit & Hrange). change (a_ents (abs d)) with (log_of d) in Hrange.
      destruct (add_entries_inv VZeroSlots P true HP (clears_zeroslots P) d i0 Ac e0 r I (or_introl (clears_end_zeroslots P)) Ces Hb Hfit Hrange)
        as (a & b & X1 & X2 & X3 & X4 & _).
      exists a, b. split; [exact X1|]. split; [exact X2|]. split; [exact X3|]. now apply X4. }
  destruct H as (i0' & Ac' & I' & L' & M' & A').
  set (d1 := add_entries VZeroSlots P es d) in *.
  set (d2 := mkdisk (d_files d1) (d_cur d1) (d_next d1) (store_snap s (store_hs h (d_meta d1)))).
  assert (I2 : dinv P i0' d2 Ac') by exact I'.
  assert (Habs : abs d2 = mkalog (s_append es (a_ents (abs d))) (store_snap s (store_hs h (a_meta (abs d))))).
  { rewrite abs_log. change (log_of d2) with (log_of d1). rewrite L'. unfold d2. cbn [d_meta]. rewrite M'. reflexivity. }
  split; [exists i0', Ac'; split; [exact I2|exact A']|]. split; [exact Habs|].
  rewrite (dres_res P d2 i0' Ac' _ _ _ _ I2), Habs. reflexivity.
Qed.

Lemma step_all_z : forall P, wf_params P = true -> forall o d i0 Ac,
  dinvz P i0 d Ac -> valid_op P o (abs d) -> step_ok_z P o d.
Proof.
  intros P HP o d i0 Ac I Hv. pose proof I as [I0 Hal].
  destruct o as [es h s|lo hi max|i|i vo dt|i| | |].
  - now apply (step_save_z P HP d i0 Ac).
  - apply (step_other P _ d i0 Ac); [exact Logic.I|exact I|now apply (step_entries P d i0 Ac)|].
    cbn [step_disk]. pose proof (alive_entries P lo hi max d Hal) as A.
    destruct (disk_entries P lo hi max d) as [[e es] d']. exact A.
  - apply (step_other P _ d i0 Ac); [exact Logic.I|exact I|now apply (step_term P d i0 Ac)|].
    cbn [step_disk]. destruct (disk_term P d i). exact Hal.
  - apply (step_other P _ d i0 Ac); [exact Logic.I|exact I|now apply (step_csnap P d i0 Ac)|].
    cbn [step_disk]. unfold disk_csnap. destruct (i <? disk_first d); [exact Hal|].
    destruct (seek_entry P d i) as [[] sl]; exact Hal.
  - apply (step_other P _ d i0 Ac); [exact Logic.I|exact I|now apply (step_delete P d i0 Ac)|].
    cbn [step_disk]. pose proof (delete_before_alive P i d Hal) as A. destruct (delete_before P i d). exact A.
  - apply (step_other P _ d i0 Ac); [exact Logic.I|exact I|now apply (step_reopen P d i0 Ac)|].
    cbn [step_disk fst]. unfold reopen. apply delete_before_alive. apply open_logs_alive; [exact Hal|].
    exact (cur_all_live P i0 d Ac I0).
  - apply (step_other P _ d i0 Ac); [exact Logic.I|exact I|now apply (step_getmeta P d i0 Ac)|]. exact Hal.
  - apply (step_other P _ d i0 Ac); [exact Logic.I|exact I|now apply (step_sum P d i0 Ac)|].
    cbn [step_disk]. unfold disk_all.
    pose proof (all_entries_files P (disk_first d) (log_last P d + 1) 18446744073709551615 d) as F.
    destruct (all_entries P (disk_first d) (log_last P d + 1) 18446744073709551615 d) as [es d']. cbn [snd fst] in *.
    unfold alivef in *. now apply (Forall_all_live_rows _ (d_files d)).
Qed.

Lemma empty_disk_invz : forall P, dinvz P 1 (empty_disk P) [].
Proof. intro P. split; [apply empty_disk_inv|constructor]. Qed.

Lemma refines_from_z : forall P, wf_params P = true -> forall ops d i0 Ac,
  dinvz P i0 d Ac ->
  valid_spec P ops (map r_first (outputs_disk VZeroSlots P ops d)) (abs d) ->
  outputs_disk VZeroSlots P ops d = outputs_spec ops (map r_first (outputs_disk VZeroSlots P ops d)) (abs d)
  /\ abs (run_disk VZeroSlots P ops d) = run_spec ops (map r_first (outputs_disk VZeroSlots P ops d)) (abs d)
  /\ exists i0' Ac', dinvz P i0' (run_disk VZeroSlots P ops d) Ac'.
Proof.
  intros P HP. induction ops as [|o r IH]; intros d i0 Ac I Hv; [split; [reflexivity|split; [reflexivity|eauto]]|].
  cbn [outputs_disk run_disk] in *.
  destruct (step_disk VZeroSlots P o d) as [d' x] eqn:Es. cbn [map fst] in *.
  cbn [valid_spec outputs_spec run_spec] in *. destruct Hv as [Hv1 Hv2].
  pose proof (step_all_z P HP o d i0 Ac I Hv1) as S. unfold step_ok_z in S. rewrite Es in S.
  destruct (step_spec o (r_first x) (abs d)) as [a' y] eqn:Ea. cbn [fst] in *.
  destruct S as ((i0' & Ac' & I') & Ha & Hx). subst a' y.
  destruct (IH d' i0' Ac' I' Hv2) as (O & R & J). split; [now rewrite <- O|]. split; [exact R|exact J].
Qed.
