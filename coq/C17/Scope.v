(* C17: bounded exploration of ALL histories up to a depth over a small alphabet and tiny layout parameters, used for
   a finite (vm_compute) check that the repaired disk model and the specification answer alike - rotation by count
   and by size, conflicts into the current and into rotated files, snapshots, prefix deletion and reopen all occur
   within three or four steps when a file holds 3 slots. A finite check, not a substitute for the general lemmas. *)
From Coq Require Import NArith List Bool.
From OG Require Import C17.Model C17.Corr.
Import ListNotations.
Open Scope N_scope.

Definition tiny_params := mkparams 3 128 170.   (* 3 slots per file; data area of 42 bytes: two 10-byte payloads *)

Definition dedup (l : list N) : list N := fold_right (fun x acc => if existsb (N.eqb x) acc then acc else x :: acc) [] l.

(* operations that respect the Raft contract in state [a] *)
Definition ops_for (a : alog) : list sop :=
  let f := a_first a in
  let l := last_of (a_ents a) in
  let si := snap_i (a_meta a) in
  let lowest := N.max f (si + 1) in
  let starts := dedup (filter (fun b => (lowest <=? b) && (b <=? l + 1)) [lowest; l; l + 1]) in
  let t := match lookup l (a_ents a) with Some e => e_term e | None => 1 end in
  flat_map (fun b => [ Save (seg b 1 (t + 1) 0 10 b) None None;
                       Save (seg b 2 t 0 0 b) None None;
                       Save (seg b 2 (t + 1) 1 10 (b + 7)) (Some (mkhs t 1 b)) None;
                       Save (seg b 4 t 0 3 (b + 3)) None None ]) starts
  ++ (if l <? f then [] else
        [ CreateSnap l (Some [1; 2]) 5; CreateSnap f None 6;
          DeleteBefore l; DeleteBefore (l + 1); DeleteBefore (N.max f si) ])
  ++ [ Reopen ].

Definition ents_eqb := list_eqb entry_eqb.

(* after every step: same answer, same first/last, and a full read of the disk gives exactly the specification's log;
   Term agrees at the boundaries *)
Definition agree (v : variant) (P : params) (d : disk) (a : alog) : bool :=
  let '(es, d') := disk_all P d in
  ents_eqb es (a_ents a) && meta_eqb (d_meta d) (a_meta a)
  && forallb (fun i => let '(e1, t1) := disk_term P d' i in let '(e2, t2) := s_term i a in err_eqb e1 e2 && (t1 =? t2))
             [a_first a - 1; a_first a; a_last a; a_last a + 1]
  && (let '(e1, es1, _) := disk_entries P (a_first a) (a_last a + 1) 30 d' in
      let '(e2, es2) := s_entries (a_first a) (a_last a + 1) 30 (a_ents a) in err_eqb e1 e2 && ents_eqb es1 es2).

Fixpoint explore (v : variant) (P : params) (fuel : nat) (d : disk) (a : alog) : bool :=
  match fuel with
  | O => true
  | S k =>
      forallb (fun o =>
                 let '(d', rd) := step_disk v P o d in
                 let '(a', ra) := step_spec o (r_first rd) a in
                 result_eqb rd ra && agree v P d' a' && explore v P k d' a') (ops_for a)
  end.

(* number of histories visited, for the evidence *)
Fixpoint count_hist (v : variant) (P : params) (fuel : nat) (d : disk) (a : alog) : N :=
  match fuel with
  | O => 1
  | S k => fold_left (fun n o => let '(d', rd) := step_disk v P o d in
                                  let '(a', _) := step_spec o (r_first rd) a in n + count_hist v P k d' a') (ops_for a) 0
  end.

(* ---- the same exploration with a failing write inside a Save ---- *)

Definition faults_for (es : list entry) : list fault :=
  FClear 0 :: FClear 1 :: FClear 2 :: FHs :: FSnap :: flat_map (fun j => [FEntry j false; FEntry j true]) (seq 0 (length es)).

(* boolean form of Fault.failed_log *)
Definition failed_ok (ft : fault) (es : list entry) (h : option hardstate) (old new : alog) : bool :=
  match es with
  | [] => true
  | e0 :: _ =>
      let b := e_index e0 in
      let l := a_ents old in
      let keep := firstn (N.to_nat (b - first_of l)) l in
      match ft with
      | FClear _ => ents_eqb (a_ents new) (firstn (length (a_ents new)) l) && (b - first_of l <? N.of_nat (length (a_ents new)))
                  && meta_eqb (a_meta new) (a_meta old)
      | FEntry j _ => ents_eqb (a_ents new) (keep ++ firstn j es) && meta_eqb (a_meta new) (a_meta old)
      | FHs => ents_eqb (a_ents new) (keep ++ es) && meta_eqb (a_meta new) (a_meta old)
      | FSnap => ents_eqb (a_ents new) (keep ++ es) && meta_eqb (a_meta new) (store_hs h (a_meta old))
      end
  end.

(* one Save of state (d, a) with fault ft:
   reported  -> the state left behind reads like the log Fault.failed_log describes (first/last index, full scan, Term
                and Entries at the boundaries), saving the batch again gives the answer and the state of the
                specification's Save, and opening the directory again (the process died instead) reads like that log too;
   unreported-> the Save counts as done: now and after a reopen the store must read like the specification's result. *)
Definition check_fault (v : variant) (P : params) (d : disk) (a : alog) (o : sop) (ft : fault) : bool :=
  match o with
  | Save es h s =>
      let '(rep, d1) := save_fail v P es h s ft d in
      let '(a2, ra) := step_spec o 0 a in
      if rep then
        let '(es1, _) := disk_all P d1 in
        let a1 := mkalog es1 (d_meta d1) in
        failed_ok ft es h a a1 && agree v P d1 a1
        && (disk_first d1 =? a_first a1) && (disk_last P d1 =? a_last a1)
        && (let '(d2, r2) := step_disk v P o d1 in result_eqb r2 ra && agree v P d2 a2)
        (* the process dies instead of returning the error: the directory is opened again *)
        && (let '(d3, r3) := step_disk v P Reopen d1 in
            let '(a3, _) := step_spec Reopen (r_first r3) a1 in agree v P d3 a3)
      else
        agree v P d1 a2
        && (let '(d3, r3) := step_disk v P Reopen d1 in
            let '(a3, _) := step_spec Reopen (r_first r3) a2 in agree v P d3 a3)
  | _ => true
  end.

Definition faults_ok (v : variant) (P : params) (d : disk) (a : alog) : bool :=
  forallb (fun o => match o with
                    | Save es _ _ => forallb (check_fault v P d a o) (faults_for es)
                    | _ => true
                    end) (ops_for a).

Fixpoint explore_f (v : variant) (P : params) (fuel : nat) (d : disk) (a : alog) : bool :=
  faults_ok v P d a &&
  match fuel with
  | O => true
  | S k =>
      forallb (fun o =>
                 let '(d', rd) := step_disk v P o d in
                 let '(a', ra) := step_spec o (r_first rd) a in
                 explore_f v P k d' a') (ops_for a)
  end.

Fixpoint count_faults (v : variant) (P : params) (fuel : nat) (d : disk) (a : alog) : N :=
  fold_left (fun n o => match o with Save es h s =>
                          n + N.of_nat (length (filter (fun ft => fst (save_fail v P es h s ft d)) (faults_for es)))
                        | _ => n end) (ops_for a) 0 +
  match fuel with
  | O => 0
  | S k => fold_left (fun n o => let '(d', rd) := step_disk v P o d in
                                  let '(a', _) := step_spec o (r_first rd) a in n + count_faults v P k d' a') (ops_for a) 0
  end.
