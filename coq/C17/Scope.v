(* C17: bounded exploration of ALL histories up to a depth over a small alphabet and tiny layout parameters, used for
   a finite (vm_compute) check that the repaired disk model and the specification answer alike - rotation by count
   and by size, conflicts into the current and into rotated files, snapshots, prefix deletion and reopen all occur
   within three or four steps when a file holds 3 slots. A finite check, not a substitute for the general lemmas. *)
From Coq Require Import NArith List Bool.
From OG Require Import C17.Model C17.Corr.
Import ListNotations.
Open Scope N_scope.

Definition tiny_params := mkparams 3 128 170.   (* 3 slots per file; data area of 42 bytes: two 10-byte payloads *)

Definition dedup (l : list N) : list N := fold_right (fun x acc => if existsb (N.eqb x) acc then acc else x :: acc) [] l.

(* operations that respect the Raft contract in state [a] *)
Definition ops_for (a : alog) : list sop :=
  let f := a_first a in
  let l := last_of (a_ents a) in
  let si := snap_i (a_meta a) in
  let lowest := N.max f (si + 1) in
  let starts := dedup (filter (fun b => (lowest <=? b) && (b <=? l + 1)) [lowest; l; l + 1]) in
  let t := match lookup l (a_ents a) with Some e => e_term e | None => 1 end in
  flat_map (fun b => [ Save (seg b 1 (t + 1) 0 10 b) None None;
                       Save (seg b 2 t 0 0 b) None None;
                       Save (seg b 2 (t + 1) 1 10 (b + 7)) (Some (mkhs t 1 b)) None;
                       Save (seg b 4 t 0 3 (b + 3)) None None ]) starts
  ++ (if l <? f then [] else
        [ CreateSnap l (Some [1; 2]) 5; CreateSnap f None 6;
          DeleteBefore l; DeleteBefore (l + 1); DeleteBefore (N.max f si) ])
  ++ [ Reopen ].

Definition ents_eqb := list_eqb entry_eqb.

(* after every step: same answer, same first/last, and a full read of the disk gives exactly the specification's log;
   Term agrees at the boundaries *)
Definition agree (v : variant) (P : params) (d : disk) (a : alog) : bool :=
  let '(es, d') := disk_all P d in
  ents_eqb es (a_ents a) && meta_eqb (d_meta d) (a_meta a)
  && forallb (fun i => let '(e1, t1) := disk_term P d' i in let '(e2, t2) := s_term i a in err_eqb e1 e2 && (t1 =? t2))
             [a_first a - 1; a_first a; a_last a; a_last a + 1]
  && (let '(e1, es1, _) := disk_entries P (a_first a) (a_last a + 1) 30 d' in
      let '(e2, es2) := s_entries (a_first a) (a_last a + 1) 30 (a_ents a) in err_eqb e1 e2 && ents_eqb es1 es2).

Fixpoint explore (v : variant) (P : params) (fuel : nat) (d : disk) (a : alog) : bool :=
  match fuel with
  | O => true
  | S k =>
      forallb (fun o =>
                 let '(d', rd) := step_disk v P o d in
                 let '(a', ra) := step_spec o (r_first rd) a in
                 result_eqb rd ra && agree v P d' a' && explore v P k d' a') (ops_for a)
  end.

(* number of histories visited, for the evidence *)
Fixpoint count_hist (v : variant) (P : params) (fuel : nat) (d : disk) (a : alog) : N :=
  match fuel with
  | O => 1
  | S k => fold_left (fun n o => let '(d', rd) := step_disk v P o d in
                                  let '(a', _) := step_spec o (r_first rd) a in n + count_hist v P k d' a') (ops_for a) 0
  end.
