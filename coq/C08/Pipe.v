(* C08 model, part 2: the chunked aggregate pipeline L2 of one tag group (executable definitions only).

     series rows --(store cursor of one series: rows in bucket order, consecutive rows of a bucket folded)-->
     per-series partials --(reader = one partition of the group's series: ordered merge + fold of equal buckets)-->
     per-reader partials --(executor: ordered k-way merge of the readers)-->
     one stream, cut into chunks of ANY sizes --(aggregation with one-chunk look-ahead, Model.agg_chunks)-->
     one partial row per bucket --(finalise: count / sum / mean / selected value)-->
     bucket rows, cut into chunks of ANY sizes --(fill machine Model.fill_step + tail)--> answer rows of the group.

   A partial aggregate of one column is (count, sum, best point); it is what travels between the stages
   (mean is carried as sum and count, a selector as the preferred point).                                      *)
From Coq Require Import ZArith List Bool Lia.
From OG Require Import C08.Model.
Import ListNotations.
Open Scope Z_scope.

(* ------------------------------------------------------------------------------------------------ partials *)
Definition part := (Z * Z * point)%type.
Definition p_cnt (a : part) : Z := fst (fst a).
Definition p_sum (a : part) : Z := snd (fst a).
Definition p_best (a : part) : point := snd a.

Definition pinj (p : point) : part := (1, snd p, p).

(* the preference order used for the `best` component: the column's own order for a selector, min's otherwise
   (then the component is not observed; it only has to be combined in a symmetric way) *)
Definition sel_of (fn : aggfn) : aggfn := if is_selector fn then fn else FMin.

Definition pop (fn : aggfn) (a b : part) : part :=
  (p_cnt a + p_cnt b, p_sum a + p_sum b,
   if better (sel_of fn) (p_best b) (p_best a) then p_best b else p_best a).

Definition pfin (fn : aggfn) (a : part) : cell :=
  match fn with
  | FCount => CVal (p_cnt a)
  | FSum => CVal (p_sum a)
  | FMean => CRat (p_sum a) (p_cnt a)
  | _ => CVal (snd (p_best a))
  end.

(* None = no value yet (unit) *)
Definition lift {A} (op : A -> A -> A) (a b : option A) : option A :=
  match a, b with
  | None, _ => b
  | _, None => a
  | Some x, Some y => Some (op x y)
  end.

(* one partial per aggregate column *)
Definition prow := list (option part).

Fixpoint rowop (aggs : list aggcol) (a b : prow) : prow :=
  match aggs, a, b with
  | (fn, _, _) :: aggs', x :: a', y :: b' => lift (pop fn) x y :: rowop aggs' a' b'
  | _, _, _ => []
  end.

Fixpoint fin_row (aggs : list aggcol) (a : prow) : list cell :=
  match aggs, a with
  | (fn, _, _) :: aggs', x :: a' => match x with Some p => pfin fn p | None => CNull end :: fin_row aggs' a'
  | _, _ => []
  end.

(* ------------------------------------------------------------------------------------------------ keyed streams *)
Section Keyed.
  Context {A : Type}.

  (* ordered merge of two streams sorted by key; on equal keys the left stream goes first *)
  Fixpoint kmerge2 (a : list (Z * A)) : list (Z * A) -> list (Z * A) :=
    fix inner (b : list (Z * A)) : list (Z * A) :=
      match a, b with
      | [], _ => b
      | _, [] => a
      | x :: a', y :: b' => if fst x <=? fst y then x :: kmerge2 a' b else y :: inner b'
      end.
  Definition kmerge_k (ls : list (list (Z * A))) : list (Z * A) := fold_right kmerge2 [] ls.

  (* stable insertion sort by key (the store hands out the rows of a series in time order) *)
  Fixpoint kinsert (x : Z * A) (l : list (Z * A)) : list (Z * A) :=
    match l with
    | [] => [x]
    | y :: r => if fst x <=? fst y then x :: l else y :: kinsert x r
    end.
  Definition ksort (l : list (Z * A)) : list (Z * A) := fold_right kinsert [] l.
End Keyed.

(* ------------------------------------------------------------------------------------------------ stages *)
(* key of a row: its epoch-aligned bucket; without GROUP BY time() every row has the same key *)
Definition bkey (q : query) (t : Z) : Z := if q_interval q =? 0 then 0 else bucket (q_interval q) t.

Definition row_part (aggs : list aggcol) (r : row) : prow :=
  map (fun a : aggcol => match field_of r (snd (fst a)) with Some v => Some (pinj (fst r, v)) | None => None end) aggs.

(* kf : key of a row's time - bkey q for an ascending scan, its mirror image for a descending one *)
Definition raw_item (kf : Z -> Z) (aggs : list aggcol) (r : row) : Z * prow := (kf (fst r), row_part aggs r).

Definition is_some {X} (o : option X) : bool := match o with Some _ => true | None => false end.
Definition has_value (x : Z * prow) : bool := existsb is_some (snd x).

(* a row that has no value in any of the aggregated fields is not read at all *)
Definition raw_items (kf : Z -> Z) (q : query) (aggs : list aggcol) (s : series) : list (Z * prow) :=
  filter has_value (map (raw_item kf aggs) (filter (row_selected q s) (snd s))).

(* fold maximal runs of equal keys (Model.agg_spec with the column-wise combination of partials) *)
Definition kagg (aggs : list aggcol) : list (Z * prow) -> list (Z * prow) :=
  agg_spec Z.eqb (fun v : prow => v) (rowop aggs).

Definition series_partials (kf : Z -> Z) (q : query) (aggs : list aggcol) (s : series) : list (Z * prow) :=
  kagg aggs (ksort (raw_items kf q aggs s)).

Definition reader_partials (kf : Z -> Z) (q : query) (aggs : list aggcol) (rd : list series) : list (Z * prow) :=
  kagg aggs (kmerge_k (map (series_partials kf q aggs) rd)).

Definition merged_partials (kf : Z -> Z) (q : query) (aggs : list aggcol) (parts : list (list series)) : list (Z * prow) :=
  kmerge_k (map (reader_partials kf q aggs) parts).

(* StreamAggregateTransform: any cut of the merged stream, pending group carried, one-chunk look-ahead *)
Definition agg_stage (aggs : list aggcol) (sizes : list nat) (stream : list (Z * prow)) : list (Z * prow) :=
  concat (agg_chunks Z.eqb (fun v : prow => v) (rowop aggs) (same_group Z.eqb) None (cut sizes stream)).

Definition finalize (aggs : list aggcol) (l : list (Z * prow)) : list arow :=
  map (fun x => (fst x, fin_row aggs (snd x))) l.

Definition l2_partials_k (kf : Z -> Z) (q : query) (aggs : list aggcol) (parts : list (list series)) (sizes : list nat) : list (Z * prow) :=
  agg_stage aggs sizes (merged_partials kf q aggs parts).
Definition l2_partials (q : query) : list aggcol -> list (list series) -> list nat -> list (Z * prow) := l2_partials_k (bkey q) q.

(* time column of an aggregate without GROUP BY time(): the selected point's time for a single selector *)
Definition l2_time0 (q : query) (aggs : list aggcol) (pr : prow) : Z :=
  let t0 := match q_tmin q with Some t => t | None => 0 end in
  match aggs, pr with
  | [(fn, _, _)], [Some p] => if is_selector fn then fst (p_best p) else t0
  | _, _ => t0
  end.

(* time runs downwards in a descending query: the pipeline is the same one over mirrored keys *)
Definition neg_keys {X} (l : list (Z * X)) : list (Z * X) := map (fun x => (- fst x, snd x)) l.

(* the L2 pipeline of one group for an ASCENDING query.
   parts : partition of the group's series over readers;  sizes / sizes2 : chunkings before the aggregation / the fill *)
Definition l2_agg_group_asc (q : query) (aggs : list aggcol) (parts : list (list series)) (sizes sizes2 : list nat) : list arow :=
  let ps := l2_partials q aggs parts sizes in
  if q_interval q =? 0 then
    match ps with
    | [] => []
    | (_, pr) :: _ => [(l2_time0 q aggs pr, fin_row aggs pr)]
    end
  else
    let pre := finalize aggs ps in
    match pre with
    | [] => []
    | _ =>
      match q_fill q with
      | FillNone => pre
      | m => let i := q_interval q in
             fill_group_chunks i (bucket i (lo_of q)) (bucket i (hi_of q)) m aggs (cut sizes2 pre)
      end
    end.

(* ------------------------------------------------------------------------------------------------ whole answer *)
(* An execution plan: for every tag group the partition of its series over readers and the chunkings used before
   the aggregation, before the fill and before the limit operator. Nothing else of the execution is observable. *)
Record plan := mkPlan {
  pl_parts : list Z -> list (list series);
  pl_sizes : list Z -> list nat;
  pl_sizes2 : list Z -> list nat;
  pl_sizes3 : list Z -> list nat }.

Definition l2_group_rows_asc (q : query) (pl : plan) (k : list Z) : list arow :=
  match q_sel q with
  | SelPlain cols => merge_k (map (plain_group q cols) (pl_parts pl k))
  | SelAgg aggs => l2_agg_group_asc q aggs (pl_parts pl k) (pl_sizes pl k) (pl_sizes2 pl k)
  end.

(* LimitTransform: rows seen so far carried across chunks (without LIMIT only the offset is applied) *)
Definition l2_limit (q : query) (sizes : list nat) (rows : list arow) : list arow :=
  if 0 <? q_limit q
  then snd (run_chunks (limit_step (Z.to_nat (q_offset q)) (Z.to_nat (q_limit q))) 0%nat (cut sizes rows))
  else skipn (Z.to_nat (q_offset q)) rows.

Definition nonempty_group (g : list Z * list arow) : bool := match snd g with [] => false | _ => true end.

Definition l2_eval_asc (db : database) (q : query) (pl : plan) : answer :=
  let groups := filter nonempty_group (map (fun k => (k, l2_group_rows_asc q pl k)) (keys_of q db)) in
  if has_limit q
  then filter nonempty_group (map (fun g => (fst g, l2_limit q (pl_sizes3 pl (fst g)) (snd g))) groups)
  else groups.

(* ------------------------------------------------------------------------------------------------ descending *)
(* A descending query scans time downwards: the same stages over the mirrored key, then the times are mirrored back;
   the fill operator runs with a negative interval from the highest bucket of the range to the lowest - in ITERATION
   order, as today's code does (fill(previous) therefore takes the value of the LATER bucket: finding
   C08-fill-previous-desc; Model.eval_query_current is the matching reference). *)
Definition dkey (q : query) (t : Z) : Z := - bkey q t.

Definition l2_agg_group_desc (q : query) (aggs : list aggcol) (parts : list (list series)) (sizes sizes2 : list nat) : list arow :=
  let ps := l2_partials_k (dkey q) q aggs parts sizes in
  if q_interval q =? 0 then
    match ps with
    | [] => []
    | (_, pr) :: _ => [(l2_time0 q aggs pr, fin_row aggs pr)]
    end
  else
    let pre := finalize aggs (neg_keys ps) in
    match pre with
    | [] => []
    | _ =>
      match q_fill q with
      | FillNone => pre
      | m => let i := q_interval q in
             fill_group_chunks (- i) (bucket i (hi_of q)) (bucket i (lo_of q)) m aggs (cut sizes2 pre)
      end
    end.

(* the whole answer for both orders. A descending plain selection: every reader hands out its rows newest first and the
   descending ordered merge Model.merge_kd combines them. *)
Definition l2_group_rows (q : query) (pl : plan) (k : list Z) : list arow :=
  match q_sel q with
  | SelPlain cols => if q_desc q then merge_kd (map (fun p => rev (plain_group q cols p)) (pl_parts pl k))
                     else merge_k (map (plain_group q cols) (pl_parts pl k))
  | SelAgg aggs => if q_desc q then l2_agg_group_desc q aggs (pl_parts pl k) (pl_sizes pl k) (pl_sizes2 pl k)
                   else l2_agg_group_asc q aggs (pl_parts pl k) (pl_sizes pl k) (pl_sizes2 pl k)
  end.

Definition l2_eval (db : database) (q : query) (pl : plan) : answer :=
  let groups := filter nonempty_group (map (fun k => (k, l2_group_rows q pl k)) (keys_of q db)) in
  let ordered := if q_desc q then rev groups else groups in
  if has_limit q
  then filter nonempty_group (map (fun g => (fst g, l2_limit q (pl_sizes3 pl (fst g)) (snd g))) ordered)
  else ordered.

Definition is_prev (m : fillmode) : bool := match m with FillPrev => true | _ => false end.
