(* C08: the bucket function of GROUP BY time(d, off): ProcessorOptions.Window of lib/util/lifted/influx/query/select.go,
   UTC (no Location), modelled with Go's arithmetic: % truncates toward zero (Z.rem), negative remainders are corrected,
   the results are clamped at influxql.MinTime / MaxTime. Every store-side and executor stage takes its bucket boundaries
   from this function. Theorem: for every t, negative ones included, start <= t < start + d, start - off is a multiple
   of d (epoch-aligned) and end = start + d - unless the bucket reaches MinTime / MaxTime. *)
From Coq Require Import ZArith Lia.
From OG Require Import C08.Model.
Local Open Scope Z_scope.

Definition min_time : Z := - 2 ^ 63 + 2.
Definition max_time : Z := 2 ^ 63 - 2.

(* the corrected remainder *)
Definition wdt (t d : Z) : Z := let r := Z.rem t d in if r <? 0 then r + d else r.

Definition window (t d off : Z) : Z * Z :=
  let t' := t - off in
  let dt := wdt t' d in
  let start := (if min_time + dt >=? t' then min_time else t' - dt) + off in
  let e := d - dt in
  let end_ := (if max_time - e <=? t' then max_time else t' + e) + off in
  (start, end_).

(* today's seeded variant class: without the correction of the negative remainder *)
Definition window_nocorr (t d off : Z) : Z * Z :=
  let t' := t - off in
  let dt := Z.rem t' d in
  let start := (if min_time + dt >=? t' then min_time else t' - dt) + off in
  let e := d - dt in
  let end_ := (if max_time - e <=? t' then max_time else t' + e) + off in
  (start, end_).

Lemma rem_neg_bound : forall t d, t < 0 -> 0 < d -> - d < Z.rem t d <= 0.
Proof.
  intros t d Ht Hd. pose proof (Z.rem_bound_pos (- t) d ltac:(lia) Hd) as Hb.
  rewrite Z.rem_opp_l in Hb by lia. lia.
Qed.

Lemma wdt_mod : forall t d, 0 < d -> wdt t d = t mod d.
Proof.
  intros t d Hd. unfold wdt. cbv zeta. pose proof (Z.quot_rem' t d) as Hqr.
  destruct (Z_lt_le_dec t 0) as [Ht|Ht].
  - pose proof (rem_neg_bound t d Ht Hd) as Hb.
    destruct (Z.ltb_spec (Z.rem t d) 0) as [Hn|Hn].
    + apply (Z.mod_unique_pos t d (Z.quot t d - 1)); lia.
    + apply (Z.mod_unique_pos t d (Z.quot t d)); lia.
  - pose proof (Z.rem_nonneg t d ltac:(lia) Ht) as Hb.
    destruct (Z.ltb_spec (Z.rem t d) 0) as [Hn|Hn]; [lia|]. apply Z.rem_mod_nonneg; lia.
Qed.

(* the window of t inside the representable range: exactly the epoch-aligned bucket *)
Theorem window_spec : forall t d off, 0 < d ->
  min_time + d < t - off -> t - off < max_time - d ->
  let (s, e) := window t d off in
  s <= t < s + d /\ e = s + d /\ (s - off) mod d = 0 /\ s = off + d * ((t - off) / d).
Proof.
  intros t d off Hd Hlo Hhi. unfold window. cbv zeta. rewrite (wdt_mod _ _ Hd).
  pose proof (Z.mod_pos_bound (t - off) d Hd) as Hb.
  pose proof (Z.div_mod (t - off) d ltac:(lia)) as Hdm.
  destruct (Z.geb_spec (min_time + (t - off) mod d) (t - off)); [lia|].
  destruct (Z.leb_spec (max_time - (d - (t - off) mod d)) (t - off)); [lia|].
  repeat split; try lia.
  replace ((t - off) - (t - off) mod d + off - off) with (d * ((t - off) / d)) by lia.
  rewrite Z.mul_comm. apply Z_mod_mult.
Qed.

(* with offset 0 the start is the bucket of the reference semantics (Model.bucket_start) *)
Theorem window_start_is_model_bucket : forall t d, 0 < d -> min_time + d < t -> t < max_time - d ->
  fst (window t d 0) = bucket d t.
Proof.
  intros t d Hd Hlo Hhi. unfold bucket. rewrite (Z.mul_comm (t / d) d). pose proof (window_spec t d 0 Hd) as H. rewrite !Z.sub_0_r in H. specialize (H Hlo Hhi).
  destruct (window t d 0) as [s e]. cbn. rewrite Z.sub_0_r in H. lia.
Qed.

(* clamped ends: the bucket still contains t *)
Theorem window_contains : forall t d off, 0 < d -> min_time <= t - off <= max_time ->
  let (s, e) := window t d off in s <= t /\ (t < e \/ e = max_time + off).
Proof.
  intros t d off Hd Hr. unfold window. cbv zeta. rewrite (wdt_mod _ _ Hd).
  pose proof (Z.mod_pos_bound (t - off) d Hd) as Hb.
  destruct (Z.geb_spec (min_time + (t - off) mod d) (t - off));
  destruct (Z.leb_spec (max_time - (d - (t - off) mod d)) (t - off)); lia.
Qed.

(* without the correction a negative time that is not a multiple of the interval leaves its bucket *)
Theorem window_nocorr_refuted : exists t d, 0 < d /\ ~ (fst (window_nocorr t d 0) <= t).
Proof. exists (-7), 10. split; [lia|]. vm_compute. intros H. apply H. reflexivity. Qed.

Example window_examples :
  window (-17) 10 0 = (-20, -10) /\ window (-7) 10 0 = (-10, 0) /\ window (-10) 10 0 = (-10, 0) /\
  window 3 10 0 = (0, 10) /\ window (-7) 10 3 = (-7, 3) /\ window (-8) 10 3 = (-17, -7).
Proof. vm_compute. repeat split. Qed.
