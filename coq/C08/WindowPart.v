(* C08: the buckets of GROUP BY time(d, off) PARTITION the time line. Window.v proves that the window of t contains t; a
   grouped aggregate is well defined only if, beyond that, every time of a window has that same window (no time belongs to
   two buckets, no bucket is cut in two), the bucket function is monotone (rows ordered by time meet their buckets in
   order, which the store-side and executor stages rely on when they close a bucket at the first row of the next one) and
   adjacent buckets tile the line (the fill path walks from one window's end to the next window's start). All theorems
   are about `window`, the model of ProcessorOptions.Window that the correspondence check of run.py (`op-window`) runs
   against the real function. *)
From Coq Require Import ZArith Lia.
From OG Require Import C08.Model C08.Window.
Local Open Scope Z_scope.

Definition in_range (t d off : Z) : Prop := min_time + d < t - off /\ t - off < max_time - d.

Lemma window_closed_form : forall t d off, 0 < d -> in_range t d off ->
  window t d off = (off + d * ((t - off) / d), off + d * ((t - off) / d) + d).
Proof.
  intros t d off Hd [Hlo Hhi]. pose proof (window_spec t d off Hd Hlo Hhi) as H.
  destruct (window t d off) as [s e]. destruct H as (_ & He & _ & Hs). subst e. subst s. reflexivity.
Qed.

(* every time of the window of t has the window of t *)
Theorem window_constant_on_bucket : forall t t' d off, 0 < d -> in_range t d off -> in_range t' d off ->
  fst (window t d off) <= t' < snd (window t d off) -> window t' d off = window t d off.
Proof.
  intros t t' d off Hd Ht Ht' Hin. rewrite (window_closed_form t d off Hd Ht) in *.
  rewrite (window_closed_form t' d off Hd Ht'). cbn [fst snd] in Hin.
  assert (Hq : (t' - off) / d = (t - off) / d).
  { symmetry. apply (Z.div_unique_pos (t' - off) d ((t - off) / d) (t' - off - d * ((t - off) / d))); lia. }
  rewrite Hq. reflexivity.
Qed.

(* two times with different windows: the windows are disjoint *)
Theorem window_disjoint : forall t1 t2 d off, 0 < d -> in_range t1 d off -> in_range t2 d off ->
  window t1 d off <> window t2 d off ->
  snd (window t1 d off) <= fst (window t2 d off) \/ snd (window t2 d off) <= fst (window t1 d off).
Proof.
  intros t1 t2 d off Hd H1 H2 Hne.
  rewrite (window_closed_form t1 d off Hd H1) in *. rewrite (window_closed_form t2 d off Hd H2) in *. cbn [fst snd].
  destruct (Z.lt_trichotomy ((t1 - off) / d) ((t2 - off) / d)) as [Hlt|[Heq|Hgt]].
  - left. nia.
  - exfalso. apply Hne. rewrite Heq. reflexivity.
  - right. nia.
Qed.

(* monotone: rows in time order meet their buckets in order *)
Theorem window_monotone : forall t1 t2 d off, 0 < d -> in_range t1 d off -> in_range t2 d off -> t1 <= t2 ->
  fst (window t1 d off) <= fst (window t2 d off).
Proof.
  intros t1 t2 d off Hd H1 H2 Hle.
  rewrite (window_closed_form t1 d off Hd H1), (window_closed_form t2 d off Hd H2). cbn [fst].
  pose proof (Z.div_le_mono (t1 - off) (t2 - off) d Hd ltac:(lia)). nia.
Qed.

(* the start of a window is its own window's start; the end of a window starts the next window: the buckets tile the line *)
Theorem window_start_fixed : forall t d off, 0 < d -> in_range t d off ->
  window (fst (window t d off)) d off = window t d off.
Proof.
  intros t d off Hd Ht. pose proof Ht as [Hlo Hhi]. pose proof (window_spec t d off Hd Hlo Hhi) as H.
  rewrite (window_closed_form t d off Hd Ht) in *. cbn [fst]. destruct H as (Hc & _).
  unfold window. cbv zeta. rewrite (wdt_mod _ _ Hd).
  replace (off + d * ((t - off) / d) - off) with (((t - off) / d) * d) by lia.
  rewrite Z_mod_mult.
  pose proof (Z.mod_pos_bound (t - off) d Hd) as Hb. pose proof (Z.div_mod (t - off) d ltac:(lia)) as Hdm.
  destruct (Z.geb_spec (min_time + 0) ((t - off) / d * d)); [lia|].
  destruct (Z.leb_spec (max_time - (d - 0)) ((t - off) / d * d)); [lia|].
  f_equal; lia.
Qed.

Theorem window_next : forall t d off, 0 < d -> in_range t d off -> in_range (snd (window t d off)) d off ->
  window (snd (window t d off)) d off = (snd (window t d off), snd (window t d off) + d).
Proof.
  intros t d off Hd Ht Hn. rewrite (window_closed_form t d off Hd Ht) in *. cbn [snd] in *.
  rewrite (window_closed_form _ d off Hd Hn).
  replace (off + d * ((t - off) / d) + d - off) with (((t - off) / d + 1) * d) by lia.
  rewrite Z_div_mult by lia. f_equal; lia.
Qed.

(* the seeded variant class of Window.v (no correction of the negative remainder) cuts a bucket in two *)
Theorem window_nocorr_not_constant : exists t t' d,
  0 < d /\ fst (window t d 0) <= t' < snd (window t d 0) /\ window_nocorr t' d 0 <> window_nocorr t d 0.
Proof. exists (-10), (-7), 10. split; [lia|]. split; [vm_compute; split; [intros H; discriminate H | reflexivity]|]. vm_compute. intros H. discriminate H. Qed.

Example window_partition_examples :
  in_range (-7) 10 3 /\ in_range (-17) 10 0 /\
  window (-7) 10 3 = (-7, 3) /\ window 2 10 3 = (-7, 3) /\ window 3 10 3 = (3, 13) /\
  window (-11) 10 0 = (-20, -10) /\ window (-20) 10 0 = (-20, -10) /\ window (-10) 10 0 = (-10, 0).
Proof. unfold in_range. vm_compute. repeat split; intros H; discriminate H. Qed.

(* translation invariance: moving t by k whole intervals moves the window by k whole intervals (k of either sign): the
   windows met by the fill path between two times are exactly start + k * d *)
Theorem window_shift : forall t k d off, 0 < d -> in_range t d off -> in_range (t + k * d) d off ->
  window (t + k * d) d off = (fst (window t d off) + k * d, snd (window t d off) + k * d).
Proof.
  intros t k d off Hd Ht Hk. rewrite (window_closed_form t d off Hd Ht), (window_closed_form _ d off Hd Hk). cbn [fst snd].
  replace (t + k * d - off) with (t - off + k * d) by lia. rewrite Z.div_add by lia. f_equal; lia.
Qed.

(* only the offset modulo the interval matters *)
Theorem window_offset_mod : forall t k d off, 0 < d -> in_range t d off -> in_range t d (off + k * d) ->
  window t d (off + k * d) = window t d off.
Proof.
  intros t k d off Hd Ht Hk. rewrite (window_closed_form t d off Hd Ht), (window_closed_form _ d _ Hd Hk).
  replace (t - (off + k * d)) with (t - off + (- k) * d) by lia. rewrite Z.div_add by lia. f_equal; lia.
Qed.

Example window_shift_examples :
  window (-7 + (-3) * 10) 10 3 = (-7 + (-3) * 10, 3 + (-3) * 10) /\ window (-7) 10 (3 + 2 * 10) = window (-7) 10 3 /\
  window (-7) 10 (3 - 10) = (-7, 3).
Proof. vm_compute. repeat split. Qed.
