(* C08: evaluation of a condition tree in reverse Polish notation (the column-store row filter, lib/binaryfilterfunc
   ConditionImpl.filterCompoundExpr). With ONE operand stack the evaluation is the evaluation of the tree (the repaired
   discipline: an operator takes its two most recent operands, whatever they are). Today's code keeps pending comparisons
   and results of evaluated sub-expressions on TWO stacks and lets an operator take the two most recent pending
   comparisons whenever there are two: refuted below. *)
From Coq Require Import List Bool.
Import ListNotations.

Section Rpn.
  Context {Atom : Type}.
  Variable holds : Atom -> bool.   (* the comparison on the row at hand *)

  Inductive ctree := Leaf (a : Atom) | And (l r : ctree) | Or (l r : ctree).
  Fixpoint teval (t : ctree) : bool :=
    match t with
    | Leaf a => holds a
    | And l r => teval l && teval r
    | Or l r => teval l || teval r
    end.

  Inductive tok := TAtom (a : Atom) | TAnd | TOr.
  Fixpoint rpn (t : ctree) : list tok :=
    match t with
    | Leaf a => [TAtom a]
    | And l r => rpn l ++ rpn r ++ [TAnd]
    | Or l r => rpn l ++ rpn r ++ [TOr]
    end.

  (* one operand stack of results *)
  Definition step1 (st : option (list bool)) (k : tok) : option (list bool) :=
    match k, st with
    | TAtom a, Some s => Some (holds a :: s)
    | TAnd, Some (y :: x :: s) => Some ((x && y) :: s)
    | TOr, Some (y :: x :: s) => Some ((x || y) :: s)
    | _, _ => None
    end.
  Definition run1 (ks : list tok) (st : option (list bool)) : option (list bool) := fold_left step1 ks st.

  Lemma run1_app : forall a b st, run1 (a ++ b) st = run1 b (run1 a st).
  Proof. intros. unfold run1. apply fold_left_app. Qed.

  Lemma run1_tree : forall t s, run1 (rpn t) (Some s) = Some (teval t :: s).
  Proof.
    induction t as [a|l IHl r IHr|l IHl r IHr]; intros s; cbn [rpn teval].
    - reflexivity.
    - rewrite !run1_app, IHl, IHr. reflexivity.
    - rewrite !run1_app, IHl, IHr. reflexivity.
  Qed.

  Theorem rpn_single_stack_eq_tree : forall t, run1 (rpn t) (Some []) = Some [teval t].
  Proof. intros. apply run1_tree. Qed.

  (* two stacks: pending comparisons (most recent first) and results (most recent first), dispatch on the number of pending
     comparisons as filterForAnd / filterForOr do *)
  Definition bop (k : tok) (x y : bool) : bool := match k with TAnd => x && y | _ => x || y end.
  Definition step2 (st : option (list Atom * list bool)) (k : tok) : option (list Atom * list bool) :=
    match k, st with
    | TAtom a, Some (p, rs) => Some (a :: p, rs)
    | TAtom _, None => None
    | _, Some (e1 :: e2 :: p, rs) => Some (p, bop k (holds e2) (holds e1) :: rs)
    | _, Some ([e1], r :: rs) => Some ([], bop k r (holds e1) :: rs)
    | _, Some ([], y :: x :: rs) => Some ([], bop k x y :: rs)
    | _, _ => None
    end.
  Definition run2 (ks : list tok) : option (list Atom * list bool) := fold_left step2 ks (Some ([], [])).
End Rpn.

(* the two-stack discipline computes another function: A AND (B OR (C OR D)) with A false, B true comes out true *)
Theorem rpn_two_stack_refuted : exists (holds : nat -> bool) (t : @ctree nat),
  run2 holds (rpn t) <> Some ([], [teval holds t]).
Proof.
  exists (fun n => Nat.eqb n 1 || Nat.eqb n 2).
  exists (And (Leaf 0) (Or (Leaf 1) (Or (Leaf 2) (Leaf 3)))).
  vm_compute. discriminate.
Qed.

(* conditions whose compound operands are all on the LEFT are evaluated correctly by the two-stack discipline too
   (one instance; the harness checks the real code on generated shapes) *)
Example rpn_two_stack_left_nested_ok : forall holds : nat -> bool,
  let t := And (Or (Or (Leaf 0) (Leaf 1)) (Leaf 2)) (Leaf 3) in
  run2 holds (rpn t) = Some ([], [teval holds t]).
Proof. intros. reflexivity. Qed.
