(* C08: today's behaviour that violates the property, on the `_current` variant of the model.
   eval_query_current mirrors FillTransform: fill(previous) of a descending query is computed in iteration order. *)
From Coq Require Import ZArith List Bool.
From OG Require Import C08.Model C08.Proofs C08.Rpn C08.Prune C08.Window.
Import ListNotations.
Open Scope Z_scope.

Theorem C08_fill_previous_desc_refuted : exists db q,
  has_limit q = false /\
  eval_query_current db (set_desc q true) <> rev_answer (eval_query_current db (set_desc q false)).
Proof.
  exists [([3], [(2, [Some 72]); (6, [Some 8])])].
  exists (mkQ (SelAgg [(FMax, 0%nat, 8)]) (Some 0) (Some 14) PTrue [] 5 FillPrev 0 0 false).
  split; [reflexivity|]. vm_compute. discriminate.
Qed.
Print Assumptions C08_fill_previous_desc_refuted.

(* FillTransform split path, descending (computeGroup): with today's windows the last window of a group of 4
   windows re-cut with ChunkSize 2 lies in no sub-chunk - its row is lost (finding C08-fill-split-path) *)
Theorem C08_desc_subchunks_current_refuted : exists size cs k,
  (0 < cs)%nat /\ (k < size)%nat /\ covered in_subchunk_current size cs k = false.
Proof. exists 4%nat, 2%nat, 3%nat. repeat split; try (cbv; auto with arith). Qed.
Print Assumptions C08_desc_subchunks_current_refuted.

(* fast path of FillTransform.fill (finding C08-fill-null-count-fastpath): with the fast path the output depends on
   the chunking - one chunk holding all 2 windows is forwarded with its null count(), two chunks are filled *)
Theorem C08_fill_fast_path_current_refuted : exists i first last aggs c1 c2,
  concat c1 = concat c2 /\
  fill_group_chunks_fast_current i first last FillNull aggs c1 <> fill_group_chunks_fast_current i first last FillNull aggs c2.
Proof.
  exists 10, 0, 10, [(FCount, 0%nat, 1); (FSum, 1%nat, 1)].
  exists [[(0, [CNull; CVal 5]); (10, [CVal 2; CVal 7])]].
  exists [[(0, [CNull; CVal 5])]; [(10, [CVal 2; CVal 7])]].
  split; [reflexivity|]. vm_compute. discriminate.
Qed.
Print Assumptions C08_fill_fast_path_current_refuted.

(* fill(previous) bookkeeping by "row before the gap" (finding C08-fill-previous-multicolumn): differs from the
   per-column previous value as soon as that row is null in the column *)
Theorem C08_fill_previous_lastrow_current_refuted : exists aggs rows,
  fill_rows_lastrow aggs (null_cells aggs) rows <> fill_rows FillPrev aggs (null_cells aggs) rows.
Proof.
  exists [(FSum, 0%nat, 1); (FMax, 1%nat, 1)].
  exists [(0, [CVal 7; CNull]); (10, [CNull; CVal 36]); (20, [CNull; CNull])].
  vm_compute. discriminate.
Qed.
Print Assumptions C08_fill_previous_lastrow_current_refuted.

(* column-store row filter (finding C08-columnstore-rowfilter-operand-order): with pending comparisons and results on two
   stacks and the dispatch on the number of pending comparisons, A AND (B OR (C OR D)) is not the value of the tree *)
Theorem C08_rpn_two_stack_refuted : exists (holds : nat -> bool) (t : @ctree nat),
  run2 holds (rpn t) <> Some ([], [teval holds t]).
Proof. exact rpn_two_stack_refuted. Qed.
Print Assumptions C08_rpn_two_stack_refuted.

(* series pruning under LIMIT today (finding C08-limit-prune-time-range): the key of a series is the bound of its first
   chunk overlapping the range, not clipped to the range; a series with an older point displaces the series that holds the
   first row *)
Theorem C08_limit_prune_current_refuted :
  limit_answer 1 (prune_current 1 [wA; wB]) <> limit_answer 1 (map snd [wA; wB]).
Proof. exact prune_current_refuted. Qed.
Print Assumptions C08_limit_prune_current_refuted.

(* the bucket function without the correction of Go's negative remainder: a time before the epoch leaves its bucket *)
Theorem C08_window_nocorr_refuted : exists t d, (0 < d)%Z /\ ~ (fst (window_nocorr t d 0) <= t)%Z.
Proof. exact window_nocorr_refuted. Qed.
Print Assumptions C08_window_nocorr_refuted.
