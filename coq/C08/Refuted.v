(* C08: today's behaviour that violates the property, on the `_current` variant of the model.
   eval_query_current mirrors FillTransform: fill(previous) of a descending query is computed in iteration order. *)
From Coq Require Import ZArith List Bool.
From OG Require Import C08.Model C08.Proofs.
Import ListNotations.
Open Scope Z_scope.

Theorem C08_fill_previous_desc_refuted : exists db q,
  has_limit q = false /\
  eval_query_current db (set_desc q true) <> rev_answer (eval_query_current db (set_desc q false)).
Proof.
  exists [([3], [(2, [Some 72]); (6, [Some 8])])].
  exists (mkQ (SelAgg [(FMax, 0%nat, 8)]) (Some 0) (Some 14) PTrue [] 5 FillPrev 0 0 false).
  split; [reflexivity|]. vm_compute. discriminate.
Qed.
Print Assumptions C08_fill_previous_desc_refuted.
