From Coq Require Import ZArith List Bool.
From OG Require Import C08.Model.
