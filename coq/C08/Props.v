(* C08 property theorems. Nothing but statements closed by `exact lemma` and Print Assumptions.
   PARTIAL: the theorems are about the model (reference semantics L1 and chunk-stream operators L2 of Model.v);
   the repository's operators are tied to it by the black-box correspondence only (props/C08/NOTES.md). *)
From Coq Require Import ZArith List Bool Permutation Sorted.
From OG Require Import C08.Model C08.Proofs C08.Pipe C08.DescMerge C08.PipeProofs C08.Rpn C08.Prune C08.Window C08.WindowPart.
Import ListNotations.

(* Every operator that is a state machine over rows gives the same output and final state for every cut of its
   input stream into chunks (chunk sizes arbitrary, cuts may fall inside a group or a time bucket). *)
Theorem C08_machine_chunking_invariant : forall {X Y St} (step : St -> X -> St * list Y) sizes st xs,
  run_chunks step st (cut sizes xs) = run step st xs.
Proof. exact @machine_chunking_invariant. Qed.
Print Assumptions C08_machine_chunking_invariant.

(* Aggregation with the one-chunk look-ahead of StreamAggregateTransform (the pending group / time window is
   emitted with its chunk unless the next chunk continues it): flatten (agg (cut c rows)) = agg_spec rows. *)
Theorem C08_agg_chunking_invariant : forall {K V A} (keq : K -> K -> bool) (inj : V -> A) (op : A -> A -> A) sizes rows,
  concat (agg_chunks keq inj op (same_group keq) None (cut sizes rows)) = agg_spec keq inj op rows.
Proof. exact @agg_chunking_invariant_lemma. Qed.
Print Assumptions C08_agg_chunking_invariant.

Theorem C08_limit_chunking_invariant : forall {X} (off lim : nat) sizes (xs : list X),
  snd (run_chunks (limit_step off lim) 0%nat (cut sizes xs)) = firstn lim (skipn off xs).
Proof. exact @limit_chunking_invariant_lemma. Qed.
Print Assumptions C08_limit_chunking_invariant.

Theorem C08_fill_chunking_invariant : forall i m aggs sizes st rows,
  run_chunks (fill_step i m aggs) st (cut sizes rows) = run (fill_step i m aggs) st rows.
Proof. exact fill_chunking_invariant_lemma. Qed.
Print Assumptions C08_fill_chunking_invariant.

(* k-way merge of the per-reader streams: sorted, and exactly the rows of the inputs *)
Theorem C08_merge_k_sorted_perm : forall ls,
  Forall (Sorted row_le) ls -> Sorted row_le (merge_k ls) /\ Permutation (merge_k ls) (concat ls).
Proof. intros ls H. split; [exact (merge_k_sorted ls H) | exact (merge_k_perm ls)]. Qed.
Print Assumptions C08_merge_k_sorted_perm.

(* partial aggregates: for a commutative monoid the answer does not depend on how the rows are partitioned over
   parallel readers, nor on the order inside or between the parts *)
Theorem C08_split_invariant : forall {A} (op : A -> A -> A) (e : A),
  (forall a b c, op a (op b c) = op (op a b) c) -> (forall a b, op a b = op b a) -> (forall a, op e a = a) ->
  forall parts all, Permutation (concat parts) all -> mfold op e (map (mfold op e) parts) = mfold op e all.
Proof. exact @split_invariant_monoid. Qed.
Print Assumptions C08_split_invariant.

(* instances: count and sum (Z,+,0); mean carried as (sum,count) *)
Theorem C08_split_invariant_sum : forall parts all,
  Permutation (concat parts) all -> mfold Z.add 0%Z (map (mfold Z.add 0%Z) parts) = mfold Z.add 0%Z all.
Proof. exact (split_invariant_monoid Z.add 0%Z Z.add_assoc Z.add_comm Z.add_0_l). Qed.
Theorem C08_split_invariant_mean : forall parts all,
  Permutation (concat parts) all ->
  mfold pair_add (0, 0)%Z (map (mfold pair_add (0, 0)%Z) parts) = mfold pair_add (0, 0)%Z all.
Proof. exact (split_invariant_monoid pair_add (0, 0)%Z pair_add_assoc pair_add_comm pair_add_unit). Qed.
Print Assumptions C08_split_invariant_mean.

(* a descending scan aggregates to the same value *)
Theorem C08_agg_desc_scan : forall {A} (op : A -> A -> A) (e : A),
  (forall a b c, op a (op b c) = op (op a b) c) -> (forall a b, op a b = op b a) ->
  forall l, mfold op e (rev l) = mfold op e l.
Proof. exact @mfold_rev. Qed.

(* the reference semantics: a descending query (without limit/offset) is the ascending answer reversed -
   groups in reverse order, rows of each group in reverse order - for every fill mode *)
Theorem C08_desc_is_rev_asc : forall db q,
  has_limit q = false -> eval_query db (set_desc q true) = rev_answer (eval_query db (set_desc q false)).
Proof. exact desc_is_rev_asc_lemma. Qed.
Print Assumptions C08_desc_is_rev_asc.

(* merging the readers' sorted streams = sorting all rows: the k-way merge is fully determined by its inputs' rows *)
Theorem C08_merge_k_eq_sort_rows : forall ls, Forall (Sorted row_le) ls -> merge_k ls = sort_rows (concat ls).
Proof. exact merge_k_eq_sort_rows. Qed.
Print Assumptions C08_merge_k_eq_sort_rows.

(* L2 = L1 for plain selections (split invariance): for every partition of the member series over parallel readers,
   in any order, sorting per reader and merging gives L1's plain_group *)
Theorem C08_plain_pipeline_refines_eval : forall q cols (parts : list (list series)) ms,
  Permutation (concat parts) ms -> merge_k (map (plain_group q cols) parts) = plain_group q cols ms.
Proof. exact plain_pipeline_refines_eval_lemma. Qed.
Print Assumptions C08_plain_pipeline_refines_eval.

(* ---- L2 = L1 for aggregate queries (Pipe.v): the chunked pipeline
        series cursors -> readers (any partition of the group's series) -> ordered merge -> aggregation with one-chunk
        look-ahead over ANY cut -> finalise -> fill machine over ANY cut
   computes the reference semantics. *)

(* aggregation stage: for every partition of the member series over readers (in any order) and every chunking of the
   merged stream, the finalised partial rows are exactly L1's pre-fill bucket rows: one row per non-empty
   epoch-aligned bucket, each cell the documented aggregate of the selected points of that bucket *)
Theorem C08_agg_stage_refines_eval : forall q aggs (parts : list (list series)) ms sizes,
  (q_interval q =? 0)%Z = false -> Permutation (concat parts) ms ->
  finalize aggs (l2_partials q aggs parts sizes) = prefill_rows (q_interval q) (agg_cols_of q aggs ms).
Proof.
  intros q aggs parts ms sizes E P. unfold l2_partials. rewrite (l2_partials_canon (bkey q) q aggs parts ms sizes P). exact (finalize_canonp q aggs ms E).
Qed.
Print Assumptions C08_agg_stage_refines_eval.

(* fill stage: the fill operator (gaps synthesised before a row, the tail at the end of the group, previous values
   carried) over every chunking of the bucket rows = enumerate every bucket of the range and fill cell-wise *)
Theorem C08_fill_stage_refines_eval : forall i m aggs sizes (rows : list arow) first last n,
  (0 < i)%Z -> Sorted key_lt rows ->
  Forall (fun r : arow => (exists g : nat, fst r = first + i * Z.of_nat g)%Z /\ (fst r <= last)%Z /\
                          length (snd r) = length aggs) rows ->
  (last = first + i * Z.of_nat n - i)%Z ->
  fill_group_chunks i first last m aggs (cut sizes rows) =
  fill_rows m aggs (null_cells aggs) (enumerate_buckets n first i aggs rows).
Proof. intros i m aggs sizes rows first last n Hi. exact (fill_stage_lemma i Hi m aggs sizes rows first last n). Qed.
Print Assumptions C08_fill_stage_refines_eval.

(* one tag group of an ascending aggregate query: pipeline = L1 (count sum mean min max first last; overall or per
   epoch-aligned bucket; fill none/null/number/previous), for every partition and every two chunkings *)
Theorem C08_agg_pipeline_refines_eval : forall q aggs ms cur (parts : list (list series)) sizes sizes2,
  q_desc q = false -> (0 <= q_interval q)%Z -> Permutation (concat parts) ms ->
  l2_agg_group_asc q aggs parts sizes sizes2 = agg_group cur q aggs ms.
Proof. exact l2_agg_group_asc_lemma. Qed.
Print Assumptions C08_agg_pipeline_refines_eval.

(* the whole answer of an ascending query of the core language (plain selections with limit/offset, aggregates per
   tag group and bucket with fill): for EVERY execution plan - partition of each group's series over readers,
   chunking before the aggregation, before the fill and before the limit operator - the pipeline's answer is the
   reference answer. (Descending queries: C08_pipeline_refines_eval_current / _both_orders below.) *)
Theorem C08_pipeline_refines_eval : forall db q pl,
  q_desc q = false -> (0 <= q_interval q)%Z ->
  (forall k, In k (keys_of q db) -> Permutation (concat (pl_parts pl k)) (members q db k)) ->
  l2_eval_asc db q pl = eval_query db q.
Proof. exact (l2_eval_asc_lemma false). Qed.
Print Assumptions C08_pipeline_refines_eval.

(* hence two plans give the same answer: parallelism and chunk sizes are unobservable *)
Theorem C08_pipeline_plan_invariant : forall db q pl1 pl2,
  q_desc q = false -> (0 <= q_interval q)%Z ->
  (forall k, In k (keys_of q db) -> Permutation (concat (pl_parts pl1 k)) (members q db k)) ->
  (forall k, In k (keys_of q db) -> Permutation (concat (pl_parts pl2 k)) (members q db k)) ->
  l2_eval_asc db q pl1 = l2_eval_asc db q pl2.
Proof.
  intros db q pl1 pl2 Hd Hi H1 H2.
  rewrite (l2_eval_asc_lemma false db q pl1 Hd Hi H1), (l2_eval_asc_lemma false db q pl2 Hd Hi H2). reflexivity.
Qed.
Print Assumptions C08_pipeline_plan_invariant.

(* ---- descending queries. The pipeline scans time downwards (the same stages over the mirrored key) and the fill operator
   runs in iteration order from the highest bucket to the lowest, as today's code does. *)

(* one tag group of a descending aggregate query: pipeline = today's reference agg_group true (fill(previous) in
   iteration order), for every partition and every two chunkings *)
Theorem C08_agg_pipeline_desc_refines_current : forall q aggs ms (parts : list (list series)) sizes sizes2,
  q_desc q = true -> (0 <= q_interval q)%Z -> Permutation (concat parts) ms ->
  l2_agg_group_desc q aggs parts sizes sizes2 = agg_group true q aggs ms.
Proof. exact l2_agg_group_desc_lemma. Qed.
Print Assumptions C08_agg_pipeline_desc_refines_current.

(* descending plain selections: the descending ordered merge of the readers' descending streams (SortedMergeTransform with
   opt.Ascending = false) is the whole sorted row set, newest first - L1's descending rows, for every partition *)
Theorem C08_merge_kd_eq_rev_sort : forall ls, Forall (Sorted row_ge) ls -> merge_kd ls = rev (sort_rows (concat ls)).
Proof. exact merge_kd_eq_rev_sort. Qed.
Print Assumptions C08_merge_kd_eq_rev_sort.

Theorem C08_plain_pipeline_desc_refines_eval : forall q cols (parts : list (list series)) ms,
  Permutation (concat parts) ms ->
  merge_kd (map (fun p => rev (plain_group q cols p)) parts) = rev (plain_group q cols ms).
Proof. exact plain_pipeline_desc_lemma. Qed.
Print Assumptions C08_plain_pipeline_desc_refines_eval.

(* the whole answer, ascending or descending: the pipeline computes eval_query_current for EVERY plan ... *)
Theorem C08_pipeline_refines_eval_current : forall db q pl,
  (0 <= q_interval q)%Z ->
  (forall k, In k (keys_of q db) -> Permutation (concat (pl_parts pl k)) (members q db k)) ->
  l2_eval db q pl = eval_query_current db q.
Proof. exact l2_eval_lemma. Qed.
Print Assumptions C08_pipeline_refines_eval_current.

(* ... which is the documented semantics eval_query unless the query is descending AND uses fill(previous)
   (finding C08-fill-previous-desc, refuted in Refuted.v) *)
Theorem C08_pipeline_refines_eval_both_orders : forall db q pl,
  (0 <= q_interval q)%Z -> (q_desc q && is_prev (q_fill q))%bool = false ->
  (forall k, In k (keys_of q db) -> Permutation (concat (pl_parts pl k)) (members q db k)) ->
  l2_eval db q pl = eval_query db q.
Proof.
  intros db q pl Hi Hp HP. rewrite (l2_eval_lemma db q pl Hi HP). exact (eval_gen_cur_irrelevant db q Hp).
Qed.
Print Assumptions C08_pipeline_refines_eval_both_orders.

(* hence, at L2: the descending pipeline answer is the ascending pipeline answer reversed (no limit/offset, no
   descending fill(previous)), whatever the two plans *)
Theorem C08_pipeline_desc_is_rev_asc : forall db q pl1 pl2,
  (0 <= q_interval q)%Z -> has_limit q = false -> is_prev (q_fill q) = false ->
  (forall k, In k (keys_of q db) -> Permutation (concat (pl_parts pl1 k)) (members q db k)) ->
  (forall k, In k (keys_of q db) -> Permutation (concat (pl_parts pl2 k)) (members q db k)) ->
  l2_eval db (set_desc q true) pl1 = rev_answer (l2_eval db (set_desc q false) pl2).
Proof.
  intros db q pl1 pl2 Hi HL Hp H1 H2.
  rewrite (C08_pipeline_refines_eval_both_orders db (set_desc q true) pl1 Hi); [| cbn [set_desc q_desc q_fill andb]; exact Hp | exact H1].
  rewrite (C08_pipeline_refines_eval_both_orders db (set_desc q false) pl2 Hi); [| reflexivity | exact H2].
  exact (desc_is_rev_asc_lemma db q HL).
Qed.
Print Assumptions C08_pipeline_desc_is_rev_asc.

(* the two facts the first version of this file proved in isolation (kept: the limit stage is used above) *)
Theorem C08_pipeline_refines_eval_partial :
  (forall q sizes rows, (0 <? q_limit q)%Z = true ->
     limit_rows q rows = snd (run_chunks (limit_step (Z.to_nat (q_offset q)) (Z.to_nat (q_limit q))) 0%nat (cut sizes rows)))
  /\
  (forall m aggs a b prev,
     fill_rows m aggs prev (a ++ b) =
     fill_rows m aggs prev a ++ fill_rows m aggs (fold_left (fun p r => snd (fill_cells m aggs p (snd r))) a prev) b).
Proof.
  split.
  - intros q sizes rows H. unfold limit_rows. rewrite H. symmetry. apply limit_chunking_invariant_lemma.
  - exact fill_rows_app.
Qed.
Print Assumptions C08_pipeline_refines_eval_partial.

(* operator level (one group): the fill operator - machine over the chunks, then the tail - gives the same rows for
   every chunking of the group's bucket rows; this is the operator the real FillTransform is compared with *)
Theorem C08_fill_operator_chunking_invariant : forall i first last m aggs chunks,
  fill_group_chunks i first last m aggs chunks = fill_group_chunks i first last m aggs [concat chunks].
Proof. exact fill_group_chunks_invariant_lemma. Qed.
Print Assumptions C08_fill_operator_chunking_invariant.

(* split path, repaired sub-chunk windows of a descending group: every window of the group lies in some sub-chunk *)
Theorem C08_desc_subchunks_repaired_cover : forall size cs k,
  (0 < cs)%nat -> (k < size)%nat -> covered in_subchunk_repaired size cs k = true.
Proof. exact subchunks_repaired_cover. Qed.
Print Assumptions C08_desc_subchunks_repaired_cover.

(* non-vacuity: a concrete data base and queries *)
Example C08_example :
  let db : database := [([1%Z], [(1, [Some 12]); (2, [Some 20]); (7, [Some 32])]%Z);
                        ([2%Z], [(2, [Some 72]); (6, [Some 8])]%Z)] in
  let q := mkQ (SelAgg [(FSum, 0%nat, 8%Z)]) (Some 0%Z) (Some 14%Z) PTrue [] 5%Z FillPrev 0%Z 0%Z false in
  eval_query db q = [([], [(0, [CVal 104]); (5, [CVal 40]); (10, [CVal 40])]%Z)] /\
  eval_query db (set_desc q true) = [([], [(10, [CVal 40]); (5, [CVal 40]); (0, [CVal 104])]%Z)].
Proof. vm_compute. split; reflexivity. Qed.

(* non-vacuity of the pipeline theorem: a plan with two readers (series split 1 + 2, listed in another order than the
   data base), chunks of 1, 2, 1.. rows before the aggregation and of 2 rows before the fill *)
Example C08_pipeline_example :
  let s1 : series := ([1%Z], [(1, [Some 12]); (2, [Some 20]); (7, [Some 32])]%Z) in
  let s2 : series := ([2%Z], [(2, [Some 72]); (6, [Some 8])]%Z) in
  let s3 : series := ([1%Z], [(3, [None]); (12, [Some 5])]%Z) in
  let db : database := [s1; s2; s3] in
  let q := mkQ (SelAgg [(FSum, 0%nat, 8%Z); (FLast, 0%nat, 8%Z)]) (Some 0%Z) (Some 24%Z) PTrue [] 5%Z FillPrev 0%Z 0%Z false in
  let pl := mkPlan (fun _ => [[s3]; [s2; s1]]) (fun _ => [0; 1; 0]%nat) (fun _ => [1]%nat) (fun _ => []) in
  (forall k, In k (keys_of q db) -> Permutation (concat (pl_parts pl k)) (members q db k)) /\
  l2_eval_asc db q pl = eval_query db q /\
  eval_query db q = [([], [(0, [CVal 104; CVal 72]); (5, [CVal 40; CVal 32]); (10, [CVal 5; CVal 5]);
                           (15, [CVal 5; CVal 5]); (20, [CVal 5; CVal 5])]%Z)].
Proof.
  cbv zeta. split; [|split; vm_compute; reflexivity].
  intros k Hk. vm_compute in Hk. destruct Hk as [<-|[]]. vm_compute.
  apply Permutation_sym. apply (Permutation_cons_app [_; _] []). cbn [app]. apply perm_swap.
Qed.

(* non-vacuity of the descending pipeline theorems: the same data, descending, fill(0): *)
Example C08_pipeline_desc_example :
  let s1 : series := ([1%Z], [(1, [Some 12]); (2, [Some 20]); (7, [Some 32])]%Z) in
  let s2 : series := ([2%Z], [(2, [Some 72]); (6, [Some 8])]%Z) in
  let s3 : series := ([1%Z], [(3, [None]); (12, [Some 5])]%Z) in
  let db : database := [s1; s2; s3] in
  let q := mkQ (SelAgg [(FSum, 0%nat, 8%Z); (FLast, 0%nat, 8%Z)]) (Some 0%Z) (Some 24%Z) PTrue [] 5%Z (FillNum 0) 0%Z 0%Z true in
  let pl := mkPlan (fun _ => [[s3]; [s2; s1]]) (fun _ => [0; 1; 0]%nat) (fun _ => [1]%nat) (fun _ => []) in
  l2_eval db q pl = eval_query db q /\
  eval_query db q = [([], [(20, [CVal 0; CVal 0]); (15, [CVal 0; CVal 0]); (10, [CVal 5; CVal 5]);
                           (5, [CVal 40; CVal 32]); (0, [CVal 104; CVal 72])]%Z)].
Proof. cbv zeta. split; vm_compute; reflexivity. Qed.

(* conditions in reverse Polish notation (column-store row filter): evaluating the RPN of a condition tree with ONE operand
   stack - an operator takes its two most recent operands, whatever they are - gives the value of the tree, for every tree
   and every row. (Today's two-stack dispatch is refuted in Refuted.v: C08_rpn_two_stack_refuted.) *)
Theorem C08_rpn_single_stack_eq_tree : forall {Atom} (holds : Atom -> bool) (t : ctree),
  run1 holds (rpn t) (Some []) = Some [teval holds t].
Proof. exact @rpn_single_stack_eq_tree. Qed.
Print Assumptions C08_rpn_single_stack_eq_tree.

(* series pruning under LIMIT (engine/iterators.go itrsInitWithLimit + topNLinkedList; finding C08-limit-prune-time-range).
   General criterion: leaving series out does not change the first m rows of the ordered merge when every row of a series
   left out has at least m kept rows strictly before it. *)
Theorem C08_limit_prune_unobservable : forall m kept dropped,
  (forall d, In d (concat dropped) -> (m <= nlt d (concat kept))%nat) ->
  limit_answer m (kept ++ dropped) = limit_answer m kept.
Proof. exact prune_unobservable. Qed.
Print Assumptions C08_limit_prune_unobservable.

(* the repaired rule (props/C08/fix5.patch): series whose key lies before the range are never left out, the others are
   ranked by their key and the m smallest are kept; a key inside the range is the time of the series' first row. Then the
   LIMIT answer over the pruned set is the answer over all series (no two series with a row at the same instant: the order
   of such rows is finding C08-tie-order). *)
Theorem C08_limit_prune_repaired_sound : forall lo m ks,
  Forall (fun k => Sorted row_le (snd k) /\ snd k <> []) ks ->
  (forall k, In k ks -> (lo <= fst k)%Z -> fst k = first_time (snd k)) ->
  NoDup (map fst (concat (map snd ks))) ->
  limit_answer m (prune_repaired lo m ks) = limit_answer m (map snd ks).
Proof. exact prune_repaired_alg_sound. Qed.
Print Assumptions C08_limit_prune_repaired_sound.

(* characterisation of today's rule (every series ranked): right whenever every key is a first time, i.e. no series holds
   a stored point outside the range on the side the scan starts from - the signature of C08-limit-prune-time-range *)
Theorem C08_limit_prune_current_sound_exact_keys : forall m ks,
  Forall (fun k => Sorted row_le (snd k) /\ snd k <> []) ks ->
  (forall k, In k ks -> fst k = first_time (snd k)) ->
  NoDup (map fst (concat (map snd ks))) ->
  limit_answer m (prune_current m ks) = limit_answer m (map snd ks).
Proof. exact prune_current_sound_exact_keys. Qed.
Print Assumptions C08_limit_prune_current_sound_exact_keys.

(* non-vacuity: range [10, ..), LIMIT 1, series A = {0 (outside), 100}, series B = {50}: the repaired rule keeps A unranked *)
Example C08_limit_prune_example :
  limit_answer 1 (prune_repaired 10 1 [wA; wB]) = limit_answer 1 (map snd [wA; wB]) /\
  limit_answer 1 (map snd [wA; wB]) = [(50, [CVal 2])]%Z.
Proof. split; vm_compute; reflexivity. Qed.

(* the bucket function of GROUP BY time(d, off) (ProcessorOptions.Window, Go arithmetic: truncating %, corrected negative
   remainder, clamps at MinTime / MaxTime): for EVERY t - before the epoch too - the window contains t, is d long, starts at
   off + a multiple of d, and with off = 0 its start is the bucket of the reference semantics *)
Theorem C08_window_spec : forall t d off, (0 < d)%Z ->
  (min_time + d < t - off)%Z -> (t - off < max_time - d)%Z ->
  let (s, e) := window t d off in
  (s <= t < s + d)%Z /\ e = (s + d)%Z /\ ((s - off) mod d = 0)%Z /\ s = (off + d * ((t - off) / d))%Z.
Proof. exact window_spec. Qed.
Print Assumptions C08_window_spec.
Theorem C08_window_start_is_model_bucket : forall t d, (0 < d)%Z -> (min_time + d < t)%Z -> (t < max_time - d)%Z ->
  fst (window t d 0) = bucket d t.
Proof. exact window_start_is_model_bucket. Qed.
Print Assumptions C08_window_start_is_model_bucket.
Theorem C08_window_contains : forall t d off, (0 < d)%Z -> (min_time <= t - off <= max_time)%Z ->
  let (s, e) := window t d off in (s <= t)%Z /\ ((t < e)%Z \/ e = (max_time + off)%Z).
Proof. exact window_contains. Qed.
Print Assumptions C08_window_contains.

(* the buckets PARTITION the time line (WindowPart.v): every time of a window has that window, different windows are
   disjoint, the bucket function is monotone in t, a window's start is its own window and its end starts the next one *)
Theorem C08_window_constant_on_bucket : forall t t' d off, (0 < d)%Z -> in_range t d off -> in_range t' d off ->
  (fst (window t d off) <= t' < snd (window t d off))%Z -> window t' d off = window t d off.
Proof. exact window_constant_on_bucket. Qed.
Print Assumptions C08_window_constant_on_bucket.
Theorem C08_window_disjoint : forall t1 t2 d off, (0 < d)%Z -> in_range t1 d off -> in_range t2 d off ->
  window t1 d off <> window t2 d off ->
  (snd (window t1 d off) <= fst (window t2 d off))%Z \/ (snd (window t2 d off) <= fst (window t1 d off))%Z.
Proof. exact window_disjoint. Qed.
Print Assumptions C08_window_disjoint.
Theorem C08_window_monotone : forall t1 t2 d off, (0 < d)%Z -> in_range t1 d off -> in_range t2 d off -> (t1 <= t2)%Z ->
  (fst (window t1 d off) <= fst (window t2 d off))%Z.
Proof. exact window_monotone. Qed.
Print Assumptions C08_window_monotone.
Theorem C08_window_start_fixed : forall t d off, (0 < d)%Z -> in_range t d off ->
  window (fst (window t d off)) d off = window t d off.
Proof. exact window_start_fixed. Qed.
Print Assumptions C08_window_start_fixed.
Theorem C08_window_next : forall t d off, (0 < d)%Z -> in_range t d off -> in_range (snd (window t d off)) d off ->
  window (snd (window t d off)) d off = (snd (window t d off), (snd (window t d off) + d)%Z).
Proof. exact window_next. Qed.
Print Assumptions C08_window_next.
(* translation invariance (the windows met by the fill path are start + k * d, k of either sign); only the offset modulo
   the interval matters *)
Theorem C08_window_shift : forall t k d off, (0 < d)%Z -> in_range t d off -> in_range (t + k * d)%Z d off ->
  window (t + k * d)%Z d off = ((fst (window t d off) + k * d)%Z, (snd (window t d off) + k * d)%Z).
Proof. exact window_shift. Qed.
Print Assumptions C08_window_shift.
Theorem C08_window_offset_mod : forall t k d off, (0 < d)%Z -> in_range t d off -> in_range t d (off + k * d)%Z ->
  window t d (off + k * d)%Z = window t d off.
Proof. exact window_offset_mod. Qed.
Print Assumptions C08_window_offset_mod.
