(* C08 model, executable definitions only.

   L1  eval_query : database -> query -> answer
       reference semantics of the core of InfluxQL over the logical contents (one measurement; a series is a tag
       vector plus rows (time, value per field, None = null); values are integers in "model units": floats are
       dyadic k/8 carried as k, booleans 0/1, strings by rank).
   L2  operators as state machines over a row stream cut into chunks, with explicit carried state:
       agg (one-chunk look-ahead as in StreamAggregateTransform), fill, limit/offset, k-way merge.               *)
From Coq Require Import ZArith List Bool Lia.
Import ListNotations.
Open Scope Z_scope.

(* ------------------------------------------------------------------------------------------------ data *)
Definition row := (Z * list (option Z))%type.
Definition series := (list Z * list row)%type.
Definition database := list series.

Inductive cmp := CLt | CLe | CGt | CGe | CEq | CNe.
Inductive pred :=
| PTrue | PAnd (a b : pred) | POr (a b : pred)
| PTagEq (k : nat) (v : Z) | PTagNe (k : nat) (v : Z) | PField (f : nat) (c : cmp) (v : Z).
Inductive aggfn := FCount | FSum | FMean | FMin | FMax | FFirst | FLast.
Inductive fillmode := FillNone | FillNull | FillNum (n : Z) | FillPrev.
Inductive cell := CNull | CVal (z : Z) | CRat (n d : Z).
Definition aggcol := (aggfn * nat * Z)%type.   (* function, field, unit scale of the column (for fill(number)) *)
Inductive sel := SelPlain (cols : list nat) | SelAgg (aggs : list aggcol).

Record query := mkQ {
  q_sel : sel; q_tmin : option Z; q_tmax : option Z; q_pred : pred; q_group : list nat;
  q_interval : Z; q_fill : fillmode; q_limit : Z; q_offset : Z; q_desc : bool }.

Definition arow := (Z * list cell)%type.
Definition answer := list (list Z * list arow).

(* ------------------------------------------------------------------------------------------------ helpers *)
Definition tag_of (s : series) (k : nat) : Z := nth k (fst s) 0.
Definition field_of (r : row) (f : nat) : option Z := nth f (snd r) None.

Definition cmp_holds (c : cmp) (a b : Z) : bool :=
  match c with
  | CLt => a <? b | CLe => a <=? b | CGt => b <? a | CGe => b <=? a | CEq => a =? b | CNe => negb (a =? b)
  end.

Fixpoint eval_pred (p : pred) (s : series) (r : row) : bool :=
  match p with
  | PTrue => true
  | PAnd a b => eval_pred a s r && eval_pred b s r
  | POr a b => eval_pred a s r || eval_pred b s r
  | PTagEq k v => tag_of s k =? v
  | PTagNe k v => negb (tag_of s k =? v)
  | PField f c v => match field_of r f with Some x => cmp_holds c x v | None => false end
  end.

Definition min_time : Z := - 2 ^ 62.
Definition max_time : Z := 2 ^ 62.
Definition lo_of (q : query) : Z := match q_tmin q with Some t => t | None => min_time end.
Definition hi_of (q : query) : Z := match q_tmax q with Some t => t | None => max_time end.
Definition in_range (q : query) (t : Z) : bool := (lo_of q <=? t) && (t <=? hi_of q).
Definition row_selected (q : query) (s : series) (r : row) : bool := in_range q (fst r) && eval_pred (q_pred q) s r.

(* lexicographic comparison of integer lists *)
Fixpoint zlist_compare (a b : list Z) : comparison :=
  match a, b with
  | [], [] => Eq
  | [], _ => Lt
  | _, [] => Gt
  | x :: a', y :: b' => match x ?= y with Eq => zlist_compare a' b' | c => c end
  end.
Definition zlist_eqb (a b : list Z) : bool := match zlist_compare a b with Eq => true | _ => false end.

Definition key_of (q : query) (s : series) : list Z := map (tag_of s) (q_group q).

Fixpoint insert_key (k : list Z) (l : list (list Z)) : list (list Z) :=
  match l with
  | [] => [k]
  | x :: r => match zlist_compare k x with
              | Lt => k :: l
              | Eq => l
              | Gt => x :: insert_key k r
              end
  end.
Definition keys_of (q : query) (db : database) : list (list Z) :=
  fold_right insert_key [] (map (key_of q) db).

Definition members (q : query) (db : database) (k : list Z) : list series :=
  filter (fun s => zlist_eqb (key_of q s) k) db.

(* ------------------------------------------------------------------------------------------------ plain selection *)
Definition cell_compare (a b : cell) : comparison :=
  match a, b with
  | CNull, CNull => Eq
  | CNull, _ => Lt
  | _, CNull => Gt
  | CVal x, CVal y => x ?= y
  | CVal _, CRat _ _ => Lt
  | CRat _ _, CVal _ => Gt
  | CRat n d, CRat n' d' => match n ?= n' with Eq => d ?= d' | c => c end
  end.
Fixpoint cells_compare (a b : list cell) : comparison :=
  match a, b with
  | [], [] => Eq
  | [], _ => Lt
  | _, [] => Gt
  | x :: a', y :: b' => match cell_compare x y with Eq => cells_compare a' b' | c => c end
  end.
Definition arow_compare (a b : arow) : comparison :=
  match fst a ?= fst b with Eq => cells_compare (snd a) (snd b) | c => c end.
Definition arow_leb (a b : arow) : bool := match arow_compare a b with Gt => false | _ => true end.

Fixpoint insert_row (x : arow) (l : list arow) : list arow :=
  match l with
  | [] => [x]
  | y :: r => if arow_leb x y then x :: l else y :: insert_row x r
  end.
Definition sort_rows (l : list arow) : list arow := fold_right insert_row [] l.

Definition cell_of (v : option Z) : cell := match v with Some z => CVal z | None => CNull end.
Definition is_null (c : cell) : bool := match c with CNull => true | _ => false end.

Definition project (cols : list nat) (r : row) : arow := (fst r, map (fun f => cell_of (field_of r f)) cols).

Definition plain_rows_of_series (q : query) (cols : list nat) (s : series) : list arow :=
  filter (fun ar => negb (forallb is_null (snd ar)))
         (map (project cols) (filter (row_selected q s) (snd s))).

Definition plain_group (q : query) (cols : list nat) (ms : list series) : list arow :=
  sort_rows (flat_map (plain_rows_of_series q cols) ms).

(* ------------------------------------------------------------------------------------------------ aggregates *)
Definition point := (Z * Z)%type.   (* time, value *)

Definition points_of (q : query) (f : nat) (ms : list series) : list point :=
  flat_map (fun s => flat_map (fun r => match field_of r f with Some v => [(fst r, v)] | None => [] end)
                              (filter (row_selected q s) (snd s))) ms.

(* selector preference: does p beat the incumbent b? *)
Definition better (fn : aggfn) (p b : point) : bool :=
  match fn with
  | FMin => (snd p <? snd b) || ((snd p =? snd b) && (fst p <? fst b))
  | FMax => (snd b <? snd p) || ((snd p =? snd b) && (fst p <? fst b))
  | FFirst => (fst p <? fst b) || ((fst p =? fst b) && (snd b <? snd p))
  | FLast => (fst b <? fst p) || ((fst p =? fst b) && (snd b <? snd p))
  | _ => false
  end.
Definition pick (fn : aggfn) (pts : list point) : option point :=
  match pts with
  | [] => None
  | p :: r => Some (fold_left (fun b x => if better fn x b then x else b) r p)
  end.

Definition sum_points (pts : list point) : Z := fold_left (fun a p => a + snd p) pts 0.

Definition agg_cell (fn : aggfn) (pts : list point) : cell :=
  match pts with
  | [] => CNull
  | _ =>
    match fn with
    | FCount => CVal (Z.of_nat (length pts))
    | FSum => CVal (sum_points pts)
    | FMean => CRat (sum_points pts) (Z.of_nat (length pts))
    | _ => match pick fn pts with Some p => CVal (snd p) | None => CNull end
    end
  end.

Definition is_selector (fn : aggfn) : bool :=
  match fn with FMin | FMax | FFirst | FLast => true | _ => false end.

Definition bucket (i t : Z) : Z := (t / i) * i.

Fixpoint insert_z (k : Z) (l : list Z) : list Z :=
  match l with
  | [] => [k]
  | x :: r => if k <? x then k :: l else if k =? x then l else x :: insert_z k r
  end.

Definition fill_number (c : aggcol) (n : Z) : cell :=
  match c with
  | (FMean, _, sc) => CRat (n * sc) 1
  | (_, _, sc) => CVal (n * sc)
  end.

(* one step of the fill machine on one row (cells of one bucket); prev = last non-null value per column *)
Fixpoint fill_cells (m : fillmode) (aggs : list aggcol) (prev cells : list cell) : list cell * list cell :=
  match aggs, prev, cells with
  | a :: aggs', p :: prev', c :: cells' =>
      let '(out, prev2) := fill_cells m aggs' prev' cells' in
      if is_null c then
        let v := match m with
                 | FillNone => CNull
                 | FillNull => match a with (FCount, _, _) => CVal 0 | _ => CNull end
                 | FillNum n => fill_number a n
                 | FillPrev => p
                 end in
        (v :: out, p :: prev2)
      else (c :: out, c :: prev2)
  | _, _, _ => ([], [])
  end.

Fixpoint fill_rows (m : fillmode) (aggs : list aggcol) (prev : list cell) (rows : list arow) : list arow :=
  match rows with
  | [] => []
  | (t, cs) :: r => let '(out, prev2) := fill_cells m aggs prev cs in (t, out) :: fill_rows m aggs prev2 r
  end.

Definition null_cells (aggs : list aggcol) : list cell := map (fun _ => CNull) aggs.

Fixpoint lookup_bucket (t : Z) (rows : list arow) : option (list cell) :=
  match rows with
  | [] => None
  | (t', cs) :: r => if t =? t' then Some cs else lookup_bucket t r
  end.

(* all buckets first, first+i, ... (n of them), each with its pre-fill cells or nulls *)
Fixpoint enumerate_buckets (n : nat) (t i : Z) (aggs : list aggcol) (pre : list arow) : list arow :=
  match n with
  | O => []
  | S n' => (t, match lookup_bucket t pre with Some cs => cs | None => null_cells aggs end)
            :: enumerate_buckets n' (t + i) i aggs pre
  end.

Definition agg_cols_of (q : query) (aggs : list aggcol) (ms : list series) : list (aggcol * list point) :=
  map (fun a => (a, points_of q (snd (fst a)) ms)) aggs.

Definition prefill_rows (i : Z) (cols : list (aggcol * list point)) : list arow :=
  let bs := fold_right insert_z [] (flat_map (fun c => map (fun p => bucket i (fst p)) (snd c)) cols) in
  map (fun b => (b, map (fun c => agg_cell (fst (fst (fst c))) (filter (fun p => bucket i (fst p) =? b) (snd c))) cols)) bs.

(* fill_desc_iter = true models today's code: fill(previous) of a descending query runs in iteration order *)
Definition agg_group (fill_desc_iter : bool) (q : query) (aggs : list aggcol) (ms : list series) : list arow :=
  let cols := agg_cols_of q aggs ms in
  if q_interval q =? 0 then
    let cells := map (fun c => agg_cell (fst (fst (fst c))) (snd c)) cols in
    if forallb is_null cells then []
    else
      let t0 := match q_tmin q with Some t => t | None => 0 end in
      let t := match cols with
               | [((fn, _, _), pts)] => if is_selector fn then match pick fn pts with Some p => fst p | None => t0 end else t0
               | _ => t0
               end in
      [(t, cells)]
  else
    let i := q_interval q in
    let pre := prefill_rows i cols in
    match pre with
    | [] => []
    | _ =>
      match q_fill q with
      | FillNone => if q_desc q then rev pre else pre
      | m =>
        let first := bucket i (lo_of q) in
        let last := bucket i (hi_of q) in
        let all := enumerate_buckets (Z.to_nat ((last - first) / i + 1)) first i aggs pre in
        let iter := fill_desc_iter && q_desc q && match m with FillPrev => true | _ => false end in
        if iter then fill_rows m aggs (null_cells aggs) (rev all)
        else let filled := fill_rows m aggs (null_cells aggs) all in
             if q_desc q then rev filled else filled
      end
    end.

(* ------------------------------------------------------------------------------------------------ L1 *)
Definition group_rows (cur : bool) (q : query) (ms : list series) : list arow :=
  match q_sel q with
  | SelPlain cols => let r := plain_group q cols ms in if q_desc q then rev r else r
  | SelAgg aggs => agg_group cur q aggs ms
  end.

Definition limit_rows (q : query) (rows : list arow) : list arow :=
  let r := skipn (Z.to_nat (q_offset q)) rows in
  if 0 <? q_limit q then firstn (Z.to_nat (q_limit q)) r else r.

Definition has_limit (q : query) : bool :=
  match q_sel q, q_group q with
  | SelPlain _, [] => (0 <? q_limit q) || (0 <? q_offset q)
  | _, _ => false
  end.

Definition eval_gen (cur : bool) (db : database) (q : query) : answer :=
  let groups := filter (fun g => match snd g with [] => false | _ => true end)
                       (map (fun k => (k, group_rows cur q (members q db k))) (keys_of q db)) in
  let ordered := if q_desc q then rev groups else groups in
  if has_limit q then
    filter (fun g => match snd g with [] => false | _ => true end)
           (map (fun g => (fst g, limit_rows q (snd g))) ordered)
  else ordered.

Definition eval_query : database -> query -> answer := eval_gen false.          (* documented semantics (repaired) *)
Definition eval_query_current : database -> query -> answer := eval_gen true.   (* today's fill(previous) desc *)

(* ------------------------------------------------------------------------------------------------ L2 *)
(* a chunking: positive sizes; a stream is cut accordingly, the rest goes into a last chunk *)
Fixpoint cut {X} (sizes : list nat) (l : list X) : list (list X) :=
  match l with
  | [] => []
  | _ =>
    match sizes with
    | [] => [l]
    | n :: sizes' => firstn (S n) l :: cut sizes' (skipn (S n) l)
    end
  end.

Section Machines.
  Context {X Y S : Type}.
  Variable step : S -> X -> S * list Y.

  (* run a state machine over a stream, collecting outputs *)
  Fixpoint run (st : S) (xs : list X) : S * list Y :=
    match xs with
    | [] => (st, [])
    | x :: r => let '(st1, o1) := step st x in let '(st2, o2) := run st1 r in (st2, o1 ++ o2)
    end.

  (* the same machine fed chunk by chunk, state carried across chunk boundaries *)
  Fixpoint run_chunks (st : S) (cs : list (list X)) : S * list Y :=
    match cs with
    | [] => (st, [])
    | c :: r => let '(st1, o1) := run st c in let '(st2, o2) := run_chunks st1 r in (st2, o1 ++ o2)
    end.
End Machines.

(* -- aggregation over a keyed stream; A = partial aggregate *)
Section Agg.
  Context {K V A : Type}.
  Variable keq : K -> K -> bool.
  Variable inj : V -> A.
  Variable op : A -> A -> A.

  (* specification: maximal runs of equal keys are folded *)
  Fixpoint agg_go (pending : option (K * A)) (rows : list (K * V)) : list (K * A) :=
    match rows with
    | [] => match pending with Some p => [p] | None => [] end
    | (k, v) :: r =>
      match pending with
      | None => agg_go (Some (k, inj v)) r
      | Some (k0, a) => if keq k k0 then agg_go (Some (k0, op a (inj v))) r
                        else (k0, a) :: agg_go (Some (k, inj v)) r
      end
    end.
  Definition agg_spec (rows : list (K * V)) : list (K * A) := agg_go None rows.

  (* operator: per row step with carried pending group *)
  Definition agg_step (pending : option (K * A)) (x : K * V) : option (K * A) * list (K * A) :=
    let '(k, v) := x in
    match pending with
    | None => (Some (k, inj v), [])
    | Some (k0, a) => if keq k k0 then (Some (k0, op a (inj v)), []) else (Some (k, inj v), [(k0, a)])
    end.

  (* does the pending group continue in the next chunk? (isSameGroup of StreamAggregateTransform) *)
  Definition same_group (pending : option (K * A)) (next : list (K * V)) : bool :=
    match pending, next with
    | Some (k0, _), (k, _) :: _ => keq k k0
    | _, _ => false
    end.

  (* chunk-at-a-time operator with one-chunk look-ahead: after a chunk, the pending group is emitted at once
     unless the look-ahead says it continues. [la] is the look-ahead predicate (the code's is same_group). *)
  Fixpoint agg_chunks (la : option (K * A) -> list (K * V) -> bool)
           (pending : option (K * A)) (cs : list (list (K * V))) : list (list (K * A)) :=
    match cs with
    | [] => []
    | c :: r =>
      let '(p1, out) := run agg_step pending c in
      let next := match r with n :: _ => n | [] => [] end in
      if la p1 next then out :: agg_chunks la p1 r
      else (out ++ match p1 with Some p => [p] | None => [] end) :: agg_chunks la None r
    end.
End Agg.

(* -- limit / offset over a stream: state = rows seen so far *)
Definition limit_step {X} (offset limit : nat) (seen : nat) (x : X) : nat * list X :=
  (Datatypes.S seen, if (Nat.leb offset seen && Nat.ltb seen (offset + limit))%bool then [x] else []).

(* -- fill over the bucket rows of one group: state = (next expected bucket, prev cells).
      rows arrive in bucket order; gaps are synthesised before a row, the tail when the group ends *)
Definition fill_state := (Z * list cell)%type.

Fixpoint gap_rows (n : nat) (t i : Z) (m : fillmode) (aggs : list aggcol) (prev : list cell) : list arow :=
  match n with
  | O => []
  | Datatypes.S n' => (t, fst (fill_cells m aggs prev (null_cells aggs))) :: gap_rows n' (t + i) i m aggs prev
  end.

Definition fill_step (i : Z) (m : fillmode) (aggs : list aggcol) (st : fill_state) (r : arow) : fill_state * list arow :=
  let '(next, prev) := st in
  let '(t, cs) := r in
  let gaps := gap_rows (Z.to_nat ((t - next) / i)) next i m aggs prev in
  let '(out, prev2) := fill_cells m aggs prev cs in
  ((t + i, prev2), gaps ++ [(t, out)]).

Definition fill_finish (i last : Z) (m : fillmode) (aggs : list aggcol) (st : fill_state) : list arow :=
  let '(next, prev) := st in gap_rows (Z.to_nat ((last - next) / i + 1)) next i m aggs prev.

(* -- k-way merge of sorted row lists *)
Fixpoint merge2 (a : list arow) : list arow -> list arow :=
  fix inner (b : list arow) : list arow :=
    match a, b with
    | [], _ => b
    | _, [] => a
    | x :: a', y :: b' => if arow_leb x y then x :: merge2 a' b else y :: inner b'
    end.
Definition merge_k (ls : list (list arow)) : list arow := fold_right merge2 [] ls.

(* ------------------------------------------------------------------------------------------------ *)
(* Operator-level view of one group: the fill machine over the chunks of the group's bucket rows, then the tail.
   Descending streams use a negative interval: first is the highest bucket, last the lowest. *)
Definition fill_group_chunks (i first last : Z) (m : fillmode) (aggs : list aggcol) (chunks : list (list arow)) : list arow :=
  let '(st, out) := run_chunks (fill_step i m aggs) (first, null_cells aggs) chunks in
  out ++ fill_finish i last m aggs st.

(* -- `_current` variants: today's FillTransform where it departs from the machine above (see NOTES, findings) *)

(* (1) fast path of FillTransform.fill: fill(null), no dimensions, the FIRST chunk holds as many rows as the range has
   windows -> the chunk is forwarded untouched (the 0 for a null count() cell is not substituted). *)
Definition fill_group_chunks_fast_current (i first last : Z) (m : fillmode) (aggs : list aggcol)
           (chunks : list (list arow)) : list arow :=
  match m, chunks with
  | FillNull, c :: rest =>
      if (Z.of_nat (length c) =? (last - first) / i + 1) then c ++ concat rest
      else fill_group_chunks i first last m aggs chunks
  | _, _ => fill_group_chunks i first last m aggs chunks
  end.

(* (2) fill(previous) bookkeeping: the value filled into a gap is the cell of the ROW just before the gap
   (prevReadAts = intervalIndex-1), null if that row is null in the column, instead of the last value seen *)
Fixpoint fill_cells_lastrow (aggs : list aggcol) (prev cells : list cell) : list cell * list cell :=
  match aggs, prev, cells with
  | _ :: aggs', p :: prev', c :: cells' =>
      let '(out, prev2) := fill_cells_lastrow aggs' prev' cells' in
      if is_null c then (p :: out, c :: prev2) else (c :: out, c :: prev2)
  | _, _, _ => ([], [])
  end.
Fixpoint fill_rows_lastrow (aggs : list aggcol) (prev : list cell) (rows : list arow) : list arow :=
  match rows with
  | [] => []
  | (t, cs) :: r => let '(out, prev2) := fill_cells_lastrow aggs prev cs in (t, out) :: fill_rows_lastrow aggs prev2 r
  end.

(* (3) split path of a descending query (computeGroup): a group of [size] windows is re-cut into
   n = ceil(size/cs) sub-chunks; window offsets count from the first (highest) window of the group.
   current:  sub-chunk j holds the offsets of [st - j*cs, st - (j-1)*cs), i.e. 0 for j = 0 and (j-1)*cs+1 .. j*cs;
   repaired: sub-chunk j holds j*cs .. (j+1)*cs-1. *)
Definition subchunks (size cs : nat) : nat := (size + cs - 1) / cs.
Definition in_subchunk_current (cs j k : nat) : bool :=
  match j with
  | O => Nat.eqb k 0
  | Datatypes.S j' => Nat.ltb (j' * cs) k && Nat.leb k (j * cs)
  end.
Definition in_subchunk_repaired (cs j k : nat) : bool := Nat.leb (j * cs) k && Nat.ltb k ((j + 1) * cs).
Definition covered (inw : nat -> nat -> nat -> bool) (size cs k : nat) : bool :=
  existsb (fun j => inw cs j k) (seq 0 (subchunks size cs)).

(* -- descending ordered merge (SortedMergeTransform with opt.Ascending = false): the readers deliver their rows newest
      first and the merge compares with the reversed order *)
Definition arow_geb (a b : arow) : bool := arow_leb b a.
Fixpoint merge2d (a : list arow) : list arow -> list arow :=
  fix inner (b : list arow) : list arow :=
    match a, b with
    | [], _ => b
    | _, [] => a
    | x :: a', y :: b' => if arow_geb x y then x :: merge2d a' b else y :: inner b'
    end.
Definition merge_kd (ls : list (list arow)) : list arow := fold_right merge2d [] ls.
