(* C08 correspondence evaluator: recomputes with the L1 model the reference answers the harness accepted for the
   implementation, and reports the indices of the cases on which they differ. *)
From Coq Require Import ZArith List Bool.
From OG Require Import C08.Model.
Import ListNotations.
Open Scope Z_scope.

Fixpoint list_eqb {A} (eqb : A -> A -> bool) (a b : list A) : bool :=
  match a, b with
  | [], [] => true
  | x :: a', y :: b' => eqb x y && list_eqb eqb a' b'
  | _, _ => false
  end.

Definition cell_eqb (a b : cell) : bool :=
  match a, b with
  | CNull, CNull => true
  | CVal x, CVal y => x =? y
  | CRat n d, CRat n' d' => (n =? n') && (d =? d')
  | _, _ => false
  end.
Definition arow_eqb (a b : arow) : bool := (fst a =? fst b) && list_eqb cell_eqb (snd a) (snd b).
Definition group_eqb (a b : list Z * list arow) : bool :=
  list_eqb Z.eqb (fst a) (fst b) && list_eqb arow_eqb (snd a) (snd b).
Definition answer_eqb (a b : answer) : bool := list_eqb group_eqb a b.

Fixpoint mismatches_from (k : nat) (db : database) (cs : list (query * answer)) : list nat :=
  match cs with
  | [] => []
  | (q, a) :: r =>
      if answer_eqb (eval_query db q) a then mismatches_from (S k) db r
      else k :: mismatches_from (S k) db r
  end.
Definition mismatches := mismatches_from 0.

(* operator-level cases: (interval, first, last, fill mode, columns, chunks of one group's rows, output of the real
   FillTransform's specification twin). Returns the indices on which the L2 machine differs. *)
Definition opcase := (Z * Z * Z * fillmode * list aggcol * list (list arow) * list arow)%type.
Fixpoint op_mismatches_from (k : nat) (cs : list opcase) : list nat :=
  match cs with
  | [] => []
  | (i, first, last, m, aggs, chunks, want) :: r =>
      if list_eqb arow_eqb (fill_group_chunks i first last m aggs chunks) want then op_mismatches_from (S k) r
      else k :: op_mismatches_from (S k) r
  end.
Definition op_mismatches := op_mismatches_from 0.

(* ------------------------------------------------------------------------------------------------ *)
(* operator-level cases of the aggregation, limit and merge operators (harness cmd/c08op)             *)
From OG Require Import C08.Pipe C08.Window.

(* aggregation: the columns, the input chunks (key of the (group, window), raw row) and the expected output
   (key, reported time when it is defined by the language - single selector -, cells) *)
Definition aggop_out := (Z * option Z * list cell)%type.
Definition aggop_case := (list aggcol * list (list (Z * row)) * list aggop_out)%type.

Definition aggop_time (aggs : list aggcol) (pr : prow) : option Z :=
  match aggs, pr with
  | [(fn, _, _)], [Some p] => if is_selector fn then Some (fst (p_best p)) else None
  | _, _ => None
  end.

Definition aggop_eval (aggs : list aggcol) (chunks : list (list (Z * row))) : list aggop_out :=
  map (fun x : Z * prow => (fst x, aggop_time aggs (snd x), fin_row aggs (snd x)))
      (concat (agg_chunks Z.eqb (fun v : prow => v) (rowop aggs) (same_group Z.eqb) None
                 (map (map (fun kr : Z * row => (fst kr, row_part aggs (snd kr)))) chunks))).

Definition aggop_out_eqb (model want : aggop_out) : bool :=
  let '(k, t, cs) := model in
  let '(k', t', cs') := want in
  (k =? k') && list_eqb cell_eqb cs cs' &&
  match t' with
  | None => true
  | Some x => match t with Some y => x =? y | None => false end
  end.

Fixpoint aggop_mismatches_from (k : nat) (cs : list aggop_case) : list nat :=
  match cs with
  | [] => []
  | (aggs, chunks, want) :: r =>
      if list_eqb aggop_out_eqb (aggop_eval aggs chunks) want then aggop_mismatches_from (S k) r
      else k :: aggop_mismatches_from (S k) r
  end.
Definition aggop_mismatches := aggop_mismatches_from 0.

(* limit: offset, limit, chunks of row ids, expected ids *)
Definition limitop_case := (nat * nat * list (list Z) * list Z)%type.
Fixpoint limitop_mismatches_from (k : nat) (cs : list limitop_case) : list nat :=
  match cs with
  | [] => []
  | (off, lim, chunks, want) :: r =>
      if list_eqb Z.eqb (snd (run_chunks (limit_step off lim) 0%nat chunks)) want then limitop_mismatches_from (S k) r
      else k :: limitop_mismatches_from (S k) r
  end.
Definition limitop_mismatches := limitop_mismatches_from 0.

(* sorted merge (plain selections): the readers' sorted streams and the operator's output, exactly merge_k *)
Definition sortmerge_case := (list (list arow) * list arow)%type.
Fixpoint sortmerge_mismatches_from (k : nat) (cs : list sortmerge_case) : list nat :=
  match cs with
  | [] => []
  | (inputs, got) :: r =>
      if list_eqb arow_eqb (merge_k inputs) got then sortmerge_mismatches_from (S k) r
      else k :: sortmerge_mismatches_from (S k) r
  end.
Definition sortmerge_mismatches := sortmerge_mismatches_from 0.

(* ordered merge below the aggregation: the output must be ordered by key and carry the same rows under every key as
   kmerge_k of the inputs (the order inside one key is free: the proofs use only sortedness and the permutation) *)
Definition kmerge_case := (list (list (Z * arow)) * list (Z * arow))%type.
Definition enc_keyed (x : Z * arow) : arow := (fst x, CVal (fst (snd x)) :: snd (snd x)).
Fixpoint keys_sorted (l : list Z) : bool :=
  match l with
  | x :: ((y :: _) as r) => (x <=? y) && keys_sorted r
  | _ => true
  end.
Definition kmerge_ok (c : kmerge_case) : bool :=
  let '(inputs, got) := c in
  keys_sorted (map fst got) &&
  list_eqb arow_eqb (sort_rows (map enc_keyed got)) (sort_rows (map enc_keyed (kmerge_k inputs))).
Fixpoint kmerge_mismatches_from (k : nat) (cs : list kmerge_case) : list nat :=
  match cs with
  | [] => []
  | c :: r => if kmerge_ok c then kmerge_mismatches_from (S k) r else k :: kmerge_mismatches_from (S k) r
  end.
Definition kmerge_mismatches := kmerge_mismatches_from 0.

(* ------------------------------------------------------------------------------------------------ *)
(* store-side cases (harness cmd/c08s): the partial rows the REAL store-side reader emitted for one statement, folded by
   the model's own combination of partial aggregates, against the reference semantics over the logical contents *)
Definition store_cell := option (Z * Z).          (* value, time the cell is stamped with *)
Definition store_row := (Z * list store_cell)%type. (* row time, cells *)
Definition store_case := (database * query * list (list Z * list store_row))%type.

Definition store_part (fn : aggfn) (c : store_cell) : option part :=
  match c with
  | None => None
  | Some (v, t) => Some match fn with
                        | FCount => (v, 0, (0, 0))
                        | FSum => (0, v, (0, 0))
                        | _ => (1, v, (t, v))
                        end
  end.
Fixpoint store_prow (aggs : list aggcol) (cells : list store_cell) : prow :=
  match aggs, cells with
  | (fn, _, _) :: aggs', c :: cells' => store_part fn c :: store_prow aggs' cells'
  | _, _ => []
  end.
Definition store_fold (q : query) (aggs : list aggcol) (rows : list store_row) : list arow :=
  finalize aggs (kagg aggs (ksort (filter has_value (map (fun r : store_row => (bkey q (fst r), store_prow aggs (snd r))) rows)))).
Definition store_expect (q : query) (aggs : list aggcol) (ms : list series) : list arow :=
  let a := agg_group false q aggs ms in
  if q_interval q =? 0 then match a with [(_, cs)] => [(0, cs)] | x => x end else a.

Fixpoint rows_of_key (k : list Z) (parts : list (list Z * list store_row)) : list store_row :=
  match parts with
  | [] => []
  | (k', rows) :: r => if zlist_eqb k k' then rows ++ rows_of_key k r else rows_of_key k r
  end.

Definition store_ok (c : store_case) : bool :=
  let '(db, q, parts) := c in
  match q_sel q with
  | SelAgg aggs =>
      let ks := keys_of q db in
      forallb (fun k => list_eqb arow_eqb (store_fold q aggs (rows_of_key k parts)) (store_expect q aggs (members q db k))) ks
      && forallb (fun p : list Z * list store_row => existsb (zlist_eqb (fst p)) ks || match snd p with [] => true | _ => false end) parts
  | _ => false
  end.
Fixpoint store_mismatches_from (k : nat) (cs : list store_case) : list nat :=
  match cs with
  | [] => []
  | c :: r => if store_ok c then store_mismatches_from (S k) r else k :: store_mismatches_from (S k) r
  end.
Definition store_mismatches := store_mismatches_from 0.

(* descending sorted merge: the operator's output is exactly merge_kd of the readers' descending streams *)
Fixpoint sortmerge_desc_mismatches_from (k : nat) (cs : list sortmerge_case) : list nat :=
  match cs with
  | [] => []
  | (inputs, got) :: r =>
      if list_eqb arow_eqb (merge_kd inputs) got then sortmerge_desc_mismatches_from (S k) r
      else k :: sortmerge_desc_mismatches_from (S k) r
  end.
Definition sortmerge_desc_mismatches := sortmerge_desc_mismatches_from 0.

(* ProcessorOptions.Window on generated (t, interval, offset) triples, negatives and the MinTime / MaxTime neighbourhood
   included: the real function's (start, end) against the model function Window.window *)
Definition window_case := (Z * Z * Z * Z * Z)%type.   (* t, d, off, start, end *)
Fixpoint window_mismatches_from (k : nat) (cs : list window_case) : list nat :=
  match cs with
  | [] => []
  | (t, d, off, s, e) :: r =>
      if (let (ms, me) := window t d off in (ms =? s)%Z && (me =? e)%Z) then window_mismatches_from (S k) r
      else k :: window_mismatches_from (S k) r
  end.
Definition window_mismatches := window_mismatches_from 0.
