(* C08 correspondence evaluator: recomputes with the L1 model the reference answers the harness accepted for the
   implementation, and reports the indices of the cases on which they differ. *)
From Coq Require Import ZArith List Bool.
From OG Require Import C08.Model.
Import ListNotations.
Open Scope Z_scope.

Fixpoint list_eqb {A} (eqb : A -> A -> bool) (a b : list A) : bool :=
  match a, b with
  | [], [] => true
  | x :: a', y :: b' => eqb x y && list_eqb eqb a' b'
  | _, _ => false
  end.

Definition cell_eqb (a b : cell) : bool :=
  match a, b with
  | CNull, CNull => true
  | CVal x, CVal y => x =? y
  | CRat n d, CRat n' d' => (n =? n') && (d =? d')
  | _, _ => false
  end.
Definition arow_eqb (a b : arow) : bool := (fst a =? fst b) && list_eqb cell_eqb (snd a) (snd b).
Definition group_eqb (a b : list Z * list arow) : bool :=
  list_eqb Z.eqb (fst a) (fst b) && list_eqb arow_eqb (snd a) (snd b).
Definition answer_eqb (a b : answer) : bool := list_eqb group_eqb a b.

Fixpoint mismatches_from (k : nat) (db : database) (cs : list (query * answer)) : list nat :=
  match cs with
  | [] => []
  | (q, a) :: r =>
      if answer_eqb (eval_query db q) a then mismatches_from (S k) db r
      else k :: mismatches_from (S k) db r
  end.
Definition mismatches := mismatches_from 0.

(* operator-level cases: (interval, first, last, fill mode, columns, chunks of one group's rows, output of the real
   FillTransform's specification twin). Returns the indices on which the L2 machine differs. *)
Definition opcase := (Z * Z * Z * fillmode * list aggcol * list (list arow) * list arow)%type.
Fixpoint op_mismatches_from (k : nat) (cs : list opcase) : list nat :=
  match cs with
  | [] => []
  | (i, first, last, m, aggs, chunks, want) :: r =>
      if list_eqb arow_eqb (fill_group_chunks i first last m aggs chunks) want then op_mismatches_from (S k) r
      else k :: op_mismatches_from (S k) r
  end.
Definition op_mismatches := op_mismatches_from 0.
