(* C08: the chunked aggregate pipeline L2 (Pipe.v) computes the reference semantics L1 (Model.agg_group). *)
From Coq Require Import ZArith List Bool Lia Permutation Sorted.
From OG Require Import C08.Model C08.Proofs C08.Pipe C08.DescMerge.
Import ListNotations.
Open Scope Z_scope.

(* ------------------------------------------------------------------------------------------------ *)
(* 1. keyed streams over a commutative semigroup of partial aggregates                                 *)
Definition key_le {A} (x y : Z * A) : Prop := fst x <= fst y.
Definition key_lt {A} (x y : Z * A) : Prop := fst x < fst y.

Section KeyedFacts.
  Context {A : Type}.
  Variable op : A -> A -> A.
  Hypothesis op_assoc : forall a b c, op a (op b c) = op (op a b) c.
  Hypothesis op_comm : forall a b, op a b = op b a.
  Notation lop := (lift op).

  Lemma lop_assoc : forall a b c, lop a (lop b c) = lop (lop a b) c.
  Proof. intros [a|] [b|] [c|]; cbn; try reflexivity. now rewrite op_assoc. Qed.
  Lemma lop_comm : forall a b, lop a b = lop b a.
  Proof. intros [a|] [b|]; cbn; try reflexivity. now rewrite op_comm. Qed.
  Lemma lop_unit : forall a, lop None a = a.
  Proof. reflexivity. Qed.
  Lemma lop_unit_r : forall a, lop a None = a.
  Proof. intros [a|]; reflexivity. Qed.

  (* the total of the values carried under key k *)
  Definition at_key (k : Z) (x : Z * A) : option A := if fst x =? k then Some (snd x) else None.
  Definition vfold (k : Z) (l : list (Z * A)) : option A := mfold lop None (map (at_key k) l).

  Lemma vfold_cons : forall k x l, vfold k (x :: l) = lop (at_key k x) (vfold k l).
  Proof. reflexivity. Qed.

  Lemma vfold_app : forall k a b, vfold k (a ++ b) = lop (vfold k a) (vfold k b).
  Proof. intros. unfold vfold. rewrite map_app. apply mfold_app; [exact lop_assoc | exact lop_unit]. Qed.

  Lemma vfold_perm : forall k a b, Permutation a b -> vfold k a = vfold k b.
  Proof.
    intros k a b P. unfold vfold. apply mfold_perm; [exact lop_assoc | exact lop_comm |].
    now apply Permutation_map.
  Qed.

  Lemma vfold_concat : forall k ls, vfold k (concat ls) = mfold lop None (map (vfold k) ls).
  Proof.
    induction ls as [|l ls IH]; cbn [concat map]; [reflexivity|].
    rewrite vfold_app, IH. reflexivity.
  Qed.

  Lemma vfold_none : forall k l, Forall (fun x => fst x <> k) l -> vfold k l = None.
  Proof.
    induction l as [|x l IH]; intros H; [reflexivity|]. inversion H; subst.
    rewrite vfold_cons, IH by assumption. unfold at_key.
    destruct (fst x =? k) eqn:E; [apply Z.eqb_eq in E; contradiction | reflexivity].
  Qed.

  (* -- folding runs of equal keys keeps every total *)
  Notation agg_go := (agg_go Z.eqb (fun v : A => v) op).
  Definition olist (p : option (Z * A)) : list (Z * A) := match p with Some x => [x] | None => [] end.

  Lemma vfold_single : forall k x, vfold k [x] = at_key k x.
  Proof. intros. unfold vfold. cbn [map mfold fold_right]. apply lop_unit_r. Qed.

  Lemma vfold_agg_go : forall k l p, vfold k (agg_go p l) = lop (vfold k (olist p)) (vfold k l).
  Proof.
    intros k. induction l as [|[k1 v] l IH]; intros p.
    - destruct p as [[k0 a]|]; cbn [Model.agg_go olist]; [|reflexivity].
      change (vfold k []) with (@None A). now rewrite lop_unit_r.
    - destruct p as [[k0 a]|]; cbn [Model.agg_go olist].
      + destruct (k1 =? k0) eqn:E.
        * apply Z.eqb_eq in E. subst k1. rewrite IH. cbn [olist].
          rewrite !vfold_single, (vfold_cons k (k0, v) l), lop_assoc. f_equal.
          unfold at_key. cbn [fst snd]. destruct (k0 =? k); reflexivity.
        * rewrite vfold_cons, IH. cbn [olist]. rewrite !vfold_single, (vfold_cons k (k1, v) l). reflexivity.
      + rewrite IH. cbn [olist]. rewrite vfold_single, vfold_cons. reflexivity.
  Qed.

  Lemma vfold_agg_spec : forall k l, vfold k (agg_spec Z.eqb (fun v : A => v) op l) = vfold k l.
  Proof. intros. unfold agg_spec. now rewrite vfold_agg_go. Qed.

  (* -- on a stream sorted by key the fold leaves strictly increasing keys *)
  Lemma agg_go_head : forall l k0 a, exists a' rest, agg_go (Some (k0, a)) l = (k0, a') :: rest.
  Proof.
    induction l as [|[k v] l IH]; intros k0 a; cbn [Model.agg_go]; [eauto|].
    destruct (k =? k0); [apply IH | eauto].
  Qed.

  Lemma agg_go_ssorted : forall l k0 a,
    Sorted key_le ((k0, a) :: l) -> Sorted key_lt (agg_go (Some (k0, a)) l).
  Proof.
    induction l as [|[k v] l IH]; intros k0 a S; cbn [Model.agg_go]; [repeat constructor|].
    inversion S as [|? ? S1 H1]; subst. inversion H1 as [|? ? Hle]; subst. unfold key_le in Hle. cbn [fst] in Hle.
    destruct (k =? k0) eqn:E.
    - apply Z.eqb_eq in E. subst k. apply IH.
      inversion S1 as [|? ? S2 H2]; subst. constructor; [assumption|].
      destruct l as [|y l]; constructor. inversion H2; subst. exact H0.
    - apply Z.eqb_neq in E. constructor; [now apply IH|].
      destruct (agg_go_head l k v) as [a' [rest ->]]. constructor. unfold key_lt. cbn [fst]. lia.
  Qed.

  Lemma agg_spec_ssorted : forall l, Sorted key_le l -> Sorted key_lt (agg_spec Z.eqb (fun v : A => v) op l).
  Proof.
    intros [|[k v] l] S; unfold agg_spec; cbn [Model.agg_go]; [constructor | now apply agg_go_ssorted].
  Qed.

  (* -- ordered merge: sorted, and a permutation of its inputs *)
  Lemma kmerge2_cons : forall (x : Z * A) a y b,
    kmerge2 (x :: a) (y :: b) = if fst x <=? fst y then x :: kmerge2 a (y :: b) else y :: kmerge2 (x :: a) b.
  Proof. reflexivity. Qed.
  Lemma kmerge2_nil_r : forall a : list (Z * A), kmerge2 a [] = a.
  Proof. destruct a; reflexivity. Qed.
  Lemma kmerge2_nil_l : forall b : list (Z * A), kmerge2 [] b = b.
  Proof. destruct b; reflexivity. Qed.

  Lemma kmerge2_perm : forall a b : list (Z * A), Permutation (kmerge2 a b) (a ++ b).
  Proof.
    induction a as [|x a IHa]; intros b; [rewrite kmerge2_nil_l; apply Permutation_refl|].
    induction b as [|y b IHb]; [rewrite kmerge2_nil_r, app_nil_r; apply Permutation_refl|].
    rewrite kmerge2_cons. destruct (fst x <=? fst y).
    - cbn [app]. constructor. apply IHa.
    - eapply Permutation_trans; [constructor; apply IHb|]. apply Permutation_middle.
  Qed.

  Lemma kmerge_k_perm : forall ls : list (list (Z * A)), Permutation (kmerge_k ls) (concat ls).
  Proof.
    induction ls as [|l ls IH]; cbn [kmerge_k fold_right concat]; [constructor|].
    eapply Permutation_trans; [apply kmerge2_perm|]. now apply Permutation_app_head.
  Qed.

  Lemma kmerge2_hdrel : forall (z : Z * A) a b, HdRel key_le z a -> HdRel key_le z b -> HdRel key_le z (kmerge2 a b).
  Proof.
    intros z a b Ha Hb. destruct a as [|x a]; [rewrite kmerge2_nil_l; exact Hb|].
    destruct b as [|y b]; [rewrite kmerge2_nil_r; exact Ha|].
    rewrite kmerge2_cons. destruct (fst x <=? fst y); constructor; [now inversion Ha | now inversion Hb].
  Qed.

  Lemma kmerge2_sorted : forall a b : list (Z * A), Sorted key_le a -> Sorted key_le b -> Sorted key_le (kmerge2 a b).
  Proof.
    induction a as [|x a IHa]; intros b Sa Sb; [rewrite kmerge2_nil_l; exact Sb|].
    induction b as [|y b IHb]; [rewrite kmerge2_nil_r; exact Sa|].
    rewrite kmerge2_cons. destruct (fst x <=? fst y) eqn:E.
    - inversion Sa; subst. constructor; [apply IHa; assumption|].
      apply kmerge2_hdrel; [assumption | constructor; unfold key_le; lia].
    - inversion Sb; subst. constructor; [apply IHb; assumption|].
      apply kmerge2_hdrel; [constructor; unfold key_le; lia | assumption].
  Qed.

  Lemma kmerge_k_sorted : forall ls : list (list (Z * A)), Forall (Sorted key_le) ls -> Sorted key_le (kmerge_k ls).
  Proof.
    induction ls as [|l ls IH]; intros H; cbn [kmerge_k fold_right]; [constructor|].
    inversion H; subst. apply kmerge2_sorted; auto.
  Qed.

  (* -- insertion sort by key *)
  Lemma kinsert_perm : forall (x : Z * A) l, Permutation (kinsert x l) (x :: l).
  Proof.
    intros x. induction l as [|y l IH]; cbn [kinsert]; [apply Permutation_refl|].
    destruct (fst x <=? fst y); [apply Permutation_refl|].
    eapply Permutation_trans; [constructor; exact IH | apply perm_swap].
  Qed.
  Lemma ksort_perm : forall l : list (Z * A), Permutation (ksort l) l.
  Proof.
    induction l as [|x l IH]; cbn [ksort fold_right]; [constructor|].
    eapply Permutation_trans; [apply kinsert_perm | now constructor].
  Qed.
  Lemma kinsert_sorted : forall (x : Z * A) l, Sorted key_le l -> Sorted key_le (kinsert x l).
  Proof.
    intros x. induction l as [|y l IH]; intros S; cbn [kinsert]; [repeat constructor|].
    destruct (fst x <=? fst y) eqn:E.
    - constructor; [exact S | constructor; unfold key_le; lia].
    - inversion S as [|? ? S1 H1]; subst. constructor; [now apply IH|].
      destruct l as [|z l]; cbn [kinsert]; [constructor; unfold key_le; lia|].
      destruct (fst x <=? fst z); constructor; [unfold key_le; lia | now inversion H1].
  Qed.
  Lemma ksort_sorted : forall l : list (Z * A), Sorted key_le (ksort l).
  Proof. induction l as [|x l IH]; cbn [ksort fold_right]; [constructor | now apply kinsert_sorted]. Qed.

  (* -- a stream with strictly increasing keys is determined by its totals *)
  Lemma key_lt_trans : Relations_1.Transitive (@key_lt A).
  Proof. intros a b c. unfold key_lt. lia. Qed.

  Lemma vfold_above : forall k l, Forall (fun x : Z * A => k < fst x) l -> vfold k l = None.
  Proof.
    intros k l H. apply vfold_none. eapply Forall_impl; [|exact H]. cbn. intros; lia.
  Qed.

  Lemma ssorted_unique : forall l1 l2 : list (Z * A),
    Sorted key_lt l1 -> Sorted key_lt l2 -> (forall k, vfold k l1 = vfold k l2) -> l1 = l2.
  Proof.
    induction l1 as [|[k1 a1] l1 IH]; intros l2 S1 S2 H.
    - destruct l2 as [|[k2 a2] l2]; [reflexivity|].
      apply Sorted_StronglySorted in S2; [|exact key_lt_trans]. inversion S2 as [|? ? SS2 F2]; subst.
      specialize (H k2). rewrite vfold_cons, (vfold_above k2 l2 F2) in H. unfold at_key in H. cbn [fst] in H.
      rewrite Z.eqb_refl in H. discriminate.
    - apply Sorted_StronglySorted in S1; [|exact key_lt_trans]. inversion S1 as [|? ? SS1 F1]; subst.
      destruct l2 as [|[k2 a2] l2].
      + specialize (H k1). rewrite vfold_cons, (vfold_above k1 l1 F1) in H. unfold at_key in H. cbn [fst] in H.
        rewrite Z.eqb_refl in H. discriminate.
      + apply Sorted_StronglySorted in S2; [|exact key_lt_trans]. inversion S2 as [|? ? SS2 F2]; subst.
        unfold key_lt in F1, F2. cbn [fst] in F1, F2.
        assert (K : k1 = k2).
        { destruct (Z.lt_trichotomy k1 k2) as [L|[E|G]]; [|exact E|].
          - pose proof (H k1) as Hk. rewrite vfold_cons, (vfold_above k1 l1 F1) in Hk.
            rewrite (vfold_above k1 ((k2, a2) :: l2)) in Hk.
            + unfold at_key in Hk. cbn [fst] in Hk. rewrite Z.eqb_refl in Hk. discriminate.
            + constructor; [cbn; lia|]. eapply Forall_impl; [|exact F2]. cbn. intros; lia.
          - pose proof (H k2) as Hk. rewrite (vfold_cons k2 (k2, a2)), (vfold_above k2 l2 F2) in Hk.
            rewrite (vfold_above k2 ((k1, a1) :: l1)) in Hk.
            + unfold at_key in Hk. cbn [fst] in Hk. rewrite Z.eqb_refl in Hk. discriminate.
            + constructor; [cbn; lia|]. eapply Forall_impl; [|exact F1]. cbn. intros; lia. }
        subst k2.
        assert (a1 = a2).
        { pose proof (H k1) as Hk. rewrite !vfold_cons, (vfold_above k1 l1 F1), (vfold_above k1 l2 F2) in Hk.
          unfold at_key in Hk. cbn [fst snd] in Hk. rewrite Z.eqb_refl in Hk. cbn in Hk. congruence. }
        subst a2. f_equal. apply IH.
        * now apply StronglySorted_Sorted.
        * now apply StronglySorted_Sorted.
        * intros k. destruct (Z.eq_dec k k1) as [->|N].
          -- now rewrite (vfold_above k1 l1 F1), (vfold_above k1 l2 F2).
          -- pose proof (H k) as Hk. rewrite !vfold_cons in Hk. unfold at_key in Hk. cbn [fst] in Hk.
             destruct (k1 =? k) eqn:E; [apply Z.eqb_eq in E; congruence|]. exact Hk.
  Qed.
End KeyedFacts.

(* ------------------------------------------------------------------------------------------------ *)
(* 2. the algebra of partial aggregates: a commutative semigroup per column, hence per row            *)
Section MinSel.
  Context {X : Type}.
  Variable lt : X -> X -> bool.
  Hypothesis lt_asym : forall x y, lt x y = true -> lt y x = false.
  Hypothesis lt_trans : forall x y z, lt x y = true -> lt y z = true -> lt x z = true.
  Hypothesis lt_total : forall x y, lt x y = false -> x = y \/ lt y x = true.
  Definition bmin (x y : X) : X := if lt y x then y else x.

  Lemma bmin_comm : forall x y, bmin x y = bmin y x.
  Proof.
    intros x y. unfold bmin. destruct (lt y x) eqn:E1; destruct (lt x y) eqn:E2; try reflexivity.
    - apply lt_asym in E1. congruence.
    - destruct (lt_total _ _ E1) as [->|H]; [reflexivity | congruence].
  Qed.

  Lemma bmin_assoc : forall x y z, bmin x (bmin y z) = bmin (bmin x y) z.
  Proof.
    intros x y z. unfold bmin. destruct (lt z y) eqn:Ezy; destruct (lt y x) eqn:Eyx; rewrite ?Ezy; try reflexivity.
    - now rewrite (lt_trans _ _ _ Ezy Eyx).
    - destruct (lt z x) eqn:Ezx; [|reflexivity]. exfalso.
      destruct (lt_total _ _ Ezy) as [->|H]; [congruence|].
      rewrite (lt_trans _ _ _ H Ezx) in Eyx. discriminate.
  Qed.

  Lemma fold_left_bmin : forall r p x, fold_left bmin r (bmin p x) = bmin p (fold_left bmin r x).
  Proof.
    induction r as [|y r IH]; intros p x; cbn [fold_left]; [reflexivity|].
    rewrite <- bmin_assoc. apply IH.
  Qed.
End MinSel.

Ltac zprop :=
  repeat match goal with
         | H : _ = true |- _ => first [rewrite orb_true_iff in H | rewrite andb_true_iff in H | rewrite Z.ltb_lt in H | rewrite Z.eqb_eq in H]
         | H : _ = false |- _ => first [rewrite orb_false_iff in H | rewrite andb_false_iff in H | rewrite Z.ltb_ge in H | rewrite Z.eqb_neq in H]
         | |- _ = true => first [rewrite orb_true_iff | rewrite andb_true_iff | rewrite Z.ltb_lt | rewrite Z.eqb_eq]
         | |- _ = false => first [rewrite orb_false_iff | rewrite andb_false_iff | rewrite Z.ltb_ge | rewrite Z.eqb_neq]
         end.

(* the preference of a selector is a strict total order on points *)
Lemma better_asym : forall s x y, better s x y = true -> better s y x = false.
Proof. intros s [t v] [t' v'] H. destruct s; cbn [better fst snd] in *; try reflexivity; zprop; lia. Qed.
Lemma better_trans : forall s x y z, better s x y = true -> better s y z = true -> better s x z = true.
Proof. intros s [t v] [t' v'] [t'' v''] H1 H2. destruct s; cbn [better fst snd] in *; try discriminate; zprop; lia. Qed.
Lemma better_total : forall s x y, is_selector s = true -> better s x y = false -> x = y \/ better s y x = true.
Proof.
  intros s [t v] [t' v'] Hs H. destruct s; try discriminate; cbn [better fst snd] in *; zprop;
  (destruct (Z.eq_dec t t'); [destruct (Z.eq_dec v v'); [left; congruence|]|]); right; zprop; lia.
Qed.

Lemma sel_of_selector : forall fn, is_selector (sel_of fn) = true.
Proof. intros []; reflexivity. Qed.
Lemma sel_of_id : forall fn, is_selector fn = true -> sel_of fn = fn.
Proof. intros [] H; try discriminate; reflexivity. Qed.

Definition bsel (fn : aggfn) : point -> point -> point := bmin (fun p b => better (sel_of fn) p b).

Lemma bsel_comm : forall fn x y, bsel fn x y = bsel fn y x.
Proof.
  intros fn. apply bmin_comm.
  - intros x y. apply better_asym.
  - intros x y. apply better_total, sel_of_selector.
Qed.
Lemma bsel_assoc : forall fn x y z, bsel fn x (bsel fn y z) = bsel fn (bsel fn x y) z.
Proof.
  intros fn. apply bmin_assoc.
  - intros x y z. apply better_trans.
  - intros x y. apply better_total, sel_of_selector.
Qed.

Lemma pop_bsel : forall fn a b, pop fn a b = (p_cnt a + p_cnt b, p_sum a + p_sum b, bsel fn (p_best a) (p_best b)).
Proof. reflexivity. Qed.

Lemma pop_comm : forall fn a b, pop fn a b = pop fn b a.
Proof. intros. rewrite !pop_bsel, bsel_comm. f_equal. f_equal; lia. Qed.
Lemma pop_assoc : forall fn a b c, pop fn a (pop fn b c) = pop fn (pop fn a b) c.
Proof.
  intros. rewrite !pop_bsel. unfold p_cnt, p_sum, p_best. cbn [fst snd]. rewrite bsel_assoc.
  f_equal. f_equal; lia.
Qed.

Lemma lift_assoc : forall {A} (op : A -> A -> A), (forall a b c, op a (op b c) = op (op a b) c) ->
  forall a b c, lift op a (lift op b c) = lift op (lift op a b) c.
Proof. intros A op H [a|] [b|] [c|]; cbn; try reflexivity. now rewrite H. Qed.
Lemma lift_comm : forall {A} (op : A -> A -> A), (forall a b, op a b = op b a) -> forall a b, lift op a b = lift op b a.
Proof. intros A op H [a|] [b|]; cbn; try reflexivity. now rewrite H. Qed.

Lemma rowop_assoc : forall aggs a b c, rowop aggs a (rowop aggs b c) = rowop aggs (rowop aggs a b) c.
Proof.
  induction aggs as [|[[fn f] sc] aggs IH]; intros a b c; [reflexivity|].
  destruct a as [|x a]; [reflexivity|]. destruct b as [|y b]; [reflexivity|]. destruct c as [|z c]; [reflexivity|].
  cbn [rowop]. rewrite IH. f_equal. apply lift_assoc, pop_assoc.
Qed.
Lemma rowop_comm : forall aggs a b, rowop aggs a b = rowop aggs b a.
Proof.
  induction aggs as [|[[fn f] sc] aggs IH]; intros a b; [destruct a, b; reflexivity|].
  destruct a as [|x a]; destruct b as [|y b]; try reflexivity.
  cbn [rowop]. rewrite IH. f_equal. apply lift_comm, pop_comm.
Qed.

(* the partial of a list of points, and what it finalises to *)
Definition pfold (fn : aggfn) (pts : list point) : option part :=
  mfold (lift (pop fn)) None (map (fun p => Some (pinj p)) pts).

Lemma pfold_cons : forall fn p r, pfold fn (p :: r) = lift (pop fn) (Some (pinj p)) (pfold fn r).
Proof. reflexivity. Qed.

Lemma sum_points_shift : forall (r : list (Z * Z)) x, fold_left (fun a (p : Z * Z) => a + snd p) r x = x + sum_points r.
Proof.
  unfold sum_points. induction r as [|p r IH]; intros x; cbn [fold_left]; [lia|].
  rewrite (IH (x + snd p)), (IH (0 + snd p)). lia.
Qed.

Lemma pfold_explicit : forall fn r p,
  pfold fn (p :: r) = Some (Z.of_nat (length (p :: r)), sum_points (p :: r), fold_left (bsel fn) r p).
Proof.
  intros fn. induction r as [|x r IH]; intros p.
  - cbn. unfold pinj. repeat f_equal.
  - rewrite pfold_cons, IH. cbn [lift]. rewrite pop_bsel. unfold p_cnt, p_sum, p_best, pinj. cbn [fst snd].
    f_equal. f_equal; [f_equal|].
    + cbn [length]. lia.
    + unfold sum_points. cbn [fold_left]. rewrite !sum_points_shift. lia.
    + cbn [fold_left]. symmetry. apply fold_left_bmin.
      * intros a b c. apply better_trans.
      * intros a b. apply better_total, sel_of_selector.
Qed.

Definition pfin_opt (fn : aggfn) (o : option part) : cell := match o with Some p => pfin fn p | None => CNull end.

Lemma pfold_fin : forall fn pts, pfin_opt fn (pfold fn pts) = agg_cell fn pts.
Proof.
  intros fn [|p r]; [reflexivity|]. rewrite pfold_explicit. cbn [pfin_opt]. unfold agg_cell, pfin, p_cnt, p_sum, p_best.
  cbn [fst snd]. destruct fn; try reflexivity; cbn [pick]; unfold bsel, bmin; cbn [sel_of is_selector]; reflexivity.
Qed.

Lemma pfold_best : forall fn p r a, is_selector fn = true -> pfold fn (p :: r) = Some a -> pick fn (p :: r) = Some (p_best a).
Proof.
  intros fn p r a Hs H. rewrite pfold_explicit in H. injection H as <-. unfold p_best. cbn [snd pick].
  unfold bsel, bmin. rewrite (sel_of_id fn Hs). reflexivity.
Qed.

(* ------------------------------------------------------------------------------------------------ *)
(* 3. the total of the raw rows under one key, column by column                                        *)
Definition fn_of (a : aggcol) : aggfn := fst (fst a).
Definition fld_of (a : aggcol) : nat := snd (fst a).

Definition pt_of (f : nat) (r : row) : list point := match field_of r f with Some v => [(fst r, v)] | None => [] end.
Definition pts_of_rows (f : nat) (rs : list row) : list point := flat_map (pt_of f) rs.
Definition colfold (aggs : list aggcol) (rs : list row) : prow :=
  map (fun a => pfold (fn_of a) (pts_of_rows (fld_of a) rs)) aggs.
Definition hvr (aggs : list aggcol) (r : row) : bool := existsb is_some (row_part aggs r).
Definition row_opt (aggs : list aggcol) (r : row) : option prow := if hvr aggs r then Some (row_part aggs r) else None.

Lemma rowop_map : forall aggs (f g : aggcol -> option part),
  rowop aggs (map f aggs) (map g aggs) = map (fun a => lift (pop (fn_of a)) (f a) (g a)) aggs.
Proof.
  induction aggs as [|[[fn fl] sc] aggs IH]; intros f g; [reflexivity|].
  cbn [map rowop]. now rewrite IH.
Qed.

Lemma colfold_cons : forall aggs r rs, rowop aggs (row_part aggs r) (colfold aggs rs) = colfold aggs (r :: rs).
Proof.
  intros. unfold row_part, colfold. rewrite rowop_map. apply map_ext. intros [[fn fl] sc].
  unfold fn_of, fld_of, pts_of_rows. cbn [fst snd flat_map]. unfold pt_of at 2.
  destruct (field_of r fl); reflexivity.
Qed.

Lemma hvr_false : forall aggs r, hvr aggs r = false -> forall a, In a aggs -> field_of r (fld_of a) = None.
Proof.
  unfold hvr, row_part. intros aggs r H a Ha.
  destruct (field_of r (fld_of a)) eqn:E; [|reflexivity]. exfalso.
  assert (T : existsb is_some (map (fun a : aggcol => match field_of r (snd (fst a)) with Some v => Some (pinj (fst r, v)) | None => None end) aggs) = true).
  { apply existsb_exists. eexists. split; [apply in_map; exact Ha|]. unfold fld_of in E. now rewrite E. }
  congruence.
Qed.

Lemma hvr_true : forall aggs r, hvr aggs r = true -> exists a v, In a aggs /\ field_of r (fld_of a) = Some v.
Proof.
  unfold hvr, row_part. intros aggs r H. apply existsb_exists in H. destruct H as [o [Hin Ho]].
  apply in_map_iff in Hin. destruct Hin as [a [<- Ha]]. exists a. unfold fld_of.
  destruct (field_of r (snd (fst a))) as [v|]; [exists v; auto | discriminate].
Qed.

Lemma colfold_skip : forall aggs r rs, hvr aggs r = false -> colfold aggs (r :: rs) = colfold aggs rs.
Proof.
  intros aggs r rs H. unfold colfold. apply map_ext_in. intros a Ha.
  unfold pts_of_rows. cbn [flat_map]. unfold pt_of at 1. now rewrite (hvr_false aggs r H a Ha).
Qed.

Lemma colfold_none : forall aggs rs, existsb (hvr aggs) rs = false -> colfold aggs rs = map (fun _ => None) aggs.
Proof.
  induction rs as [|r rs IH]; intros H; [reflexivity|].
  cbn [existsb] in H. apply orb_false_iff in H as [H1 H2]. rewrite colfold_skip by assumption. now apply IH.
Qed.

Lemma rowop_none_r : forall aggs (f : aggcol -> option part),
  rowop aggs (map f aggs) (map (fun _ => None) aggs) = map f aggs.
Proof.
  intros. rewrite rowop_map. apply map_ext. intros a. destruct (f a); reflexivity.
Qed.

Lemma rows_total : forall aggs rs,
  mfold (lift (rowop aggs)) None (map (row_opt aggs) rs) =
  if existsb (hvr aggs) rs then Some (colfold aggs rs) else None.
Proof.
  intros aggs. induction rs as [|r rs IH]; [reflexivity|].
  cbn [map mfold fold_right existsb]. fold (mfold (lift (rowop aggs)) None (map (row_opt aggs) rs)). rewrite IH.
  unfold row_opt at 1. destruct (hvr aggs r) eqn:E; cbn [orb].
  - destruct (existsb (hvr aggs) rs) eqn:E2; cbn [lift].
    + now rewrite colfold_cons.
    + rewrite <- colfold_cons, (colfold_none aggs rs E2). unfold row_part. now rewrite rowop_none_r.
  - rewrite colfold_skip by assumption. reflexivity.
Qed.

Lemma fin_row_colfold : forall aggs rs,
  fin_row aggs (colfold aggs rs) = map (fun a => agg_cell (fn_of a) (pts_of_rows (fld_of a) rs)) aggs.
Proof.
  intros aggs rs. unfold colfold. induction aggs as [|[[fn fl] sc] aggs IH]; [reflexivity|].
  cbn [map fin_row]. rewrite IH. f_equal. unfold fn_of, fld_of. cbn [fst snd].
  apply (pfold_fin fn).
Qed.

(* -- all selected rows of a set of series *)
Definition allrows (q : query) (ms : list series) : list row := flat_map (fun s => filter (row_selected q s) (snd s)) ms.

Lemma raw_items_flat : forall kf q aggs ms,
  flat_map (raw_items kf q aggs) ms = filter has_value (map (raw_item kf aggs) (allrows q ms)).
Proof.
  intros. unfold allrows, raw_items. induction ms as [|s ms IH]; [reflexivity|].
  cbn [flat_map]. rewrite map_app, filter_app, IH. reflexivity.
Qed.

Lemma points_of_rows : forall q f ms, points_of q f ms = pts_of_rows f (allrows q ms).
Proof.
  intros. unfold points_of, pts_of_rows, allrows. induction ms as [|s ms IH]; [reflexivity|].
  cbn [flat_map]. rewrite flat_map_app, IH. reflexivity.
Qed.

Lemma pts_filter_key : forall (key : Z -> Z) k f rs,
  filter (fun p : point => key (fst p) =? k) (pts_of_rows f rs) = pts_of_rows f (filter (fun r : row => key (fst r) =? k) rs).
Proof.
  intros key k f. unfold pts_of_rows. induction rs as [|r rs IH]; [reflexivity|].
  cbn [flat_map filter]. rewrite filter_app, IH.
  assert (P : filter (fun p : point => key (fst p) =? k) (pt_of f r) = if key (fst r) =? k then pt_of f r else []).
  { unfold pt_of. destruct (field_of r f); cbn [filter fst]; destruct (key (fst r) =? k); reflexivity. }
  rewrite P. destruct (key (fst r) =? k); reflexivity.
Qed.

Lemma vfold_raw : forall (kf : Z -> Z) aggs k rows,
  vfold (rowop aggs) k (filter has_value (map (raw_item kf aggs) rows)) =
  mfold (lift (rowop aggs)) None (map (row_opt aggs) (filter (fun r : row => kf (fst r) =? k) rows)).
Proof.
  intros kf aggs k. induction rows as [|r rows IH]; [reflexivity|].
  cbn [map filter]. change (has_value (raw_item kf aggs r)) with (hvr aggs r).
  destruct (hvr aggs r) eqn:E.
  - rewrite vfold_cons, IH. unfold at_key, raw_item. cbn [fst snd].
    destruct (kf (fst r) =? k); [|reflexivity].
    cbn [map mfold fold_right]. unfold row_opt at 2. now rewrite E.
  - rewrite IH. destruct (kf (fst r) =? k); [|reflexivity].
    cbn [map mfold fold_right]. unfold row_opt at 2. now rewrite E.
Qed.

Definition rows_at_k (kf : Z -> Z) (q : query) (ms : list series) (k : Z) : list row :=
  filter (fun r : row => kf (fst r) =? k) (allrows q ms).
Definition rows_at (q : query) : list series -> Z -> list row := rows_at_k (bkey q) q.

Lemma vfold_group : forall kf q aggs ms k,
  vfold (rowop aggs) k (flat_map (raw_items kf q aggs) ms) =
  if existsb (hvr aggs) (rows_at_k kf q ms k) then Some (colfold aggs (rows_at_k kf q ms k)) else None.
Proof. intros. rewrite raw_items_flat, vfold_raw. apply rows_total. Qed.

(* ------------------------------------------------------------------------------------------------ *)
(* 4. the aggregation stage: for every partition of the series over readers and every chunking, the
      pipeline delivers exactly one partial row per non-empty key, holding the column totals            *)
Lemma insert_z_in : forall k x l, In k (insert_z x l) <-> k = x \/ In k l.
Proof.
  intros k x. induction l as [|y l IH]; cbn [insert_z In]; [intuition|].
  destruct (x <? y) eqn:E1; [cbn [In]; intuition|].
  destruct (x =? y) eqn:E2.
  - apply Z.eqb_eq in E2. subst y. cbn [In]. intuition.
  - cbn [In]. rewrite IH. intuition.
Qed.

Lemma insert_z_sorted : forall x l, Sorted Z.lt l -> Sorted Z.lt (insert_z x l).
Proof.
  intros x. induction l as [|y l IH]; intros S; cbn [insert_z]; [repeat constructor|].
  destruct (x <? y) eqn:E1.
  - apply Z.ltb_lt in E1. constructor; [exact S | now constructor].
  - destruct (x =? y) eqn:E2; [exact S|].
    apply Z.ltb_ge in E1. apply Z.eqb_neq in E2.
    inversion S as [|? ? S1 H1]; subst. constructor; [now apply IH|].
    destruct l as [|z l]; cbn [insert_z]; [constructor; lia|].
    destruct (x <? z); [constructor; lia|]. destruct (x =? z); [exact H1|]. constructor. now inversion H1.
Qed.

Definition zkeys (l : list Z) : list Z := fold_right insert_z [] l.

Lemma zkeys_in : forall k l, In k (zkeys l) <-> In k l.
Proof.
  intros k. induction l as [|x l IH]; cbn [zkeys fold_right In]; [reflexivity|].
  fold (zkeys l). rewrite insert_z_in, IH. intuition.
Qed.
Lemma zkeys_sorted : forall l, Sorted Z.lt (zkeys l).
Proof. induction l as [|x l IH]; cbn [zkeys fold_right]; [constructor | now apply insert_z_sorted]. Qed.

Lemma zlt_trans : Relations_1.Transitive Z.lt.
Proof. intros a b c. apply Z.lt_trans. Qed.

Lemma zsorted_unique : forall l1 l2, Sorted Z.lt l1 -> Sorted Z.lt l2 -> (forall k, In k l1 <-> In k l2) -> l1 = l2.
Proof.
  induction l1 as [|x l1 IH]; intros l2 S1 S2 H.
  - destruct l2 as [|y l2]; [reflexivity|]. exfalso. apply (proj2 (H y)). now left.
  - destruct l2 as [|y l2]; [exfalso; apply (proj1 (H x)); now left|].
    apply Sorted_StronglySorted in S1; [|exact zlt_trans]. apply Sorted_StronglySorted in S2; [|exact zlt_trans].
    inversion S1 as [|? ? SS1 F1]; subst. inversion S2 as [|? ? SS2 F2]; subst.
    rewrite Forall_forall in F1, F2.
    assert (x = y).
    { destruct (proj1 (H x) (or_introl eq_refl)) as [E|I1]; [congruence|].
      destruct (proj2 (H y) (or_introl eq_refl)) as [E|I2]; [congruence|].
      specialize (F1 _ I2). specialize (F2 _ I1). lia. }
    subst y. f_equal. apply IH; try (now apply StronglySorted_Sorted).
    intros k. split; intros I.
    + destruct (proj1 (H k) (or_intror I)) as [E|I2]; [|exact I2]. subst k. specialize (F1 _ I). lia.
    + destruct (proj2 (H k) (or_intror I)) as [E|I2]; [|exact I2]. subst k. specialize (F2 _ I). lia.
Qed.

Lemma zkeys_ext : forall l1 l2, (forall k, In k l1 <-> In k l2) -> zkeys l1 = zkeys l2.
Proof.
  intros l1 l2 H. apply zsorted_unique; try apply zkeys_sorted.
  intros k. rewrite !zkeys_in. apply H.
Qed.

Lemma vfold_map_keys : forall {A} (op : A -> A -> A) (G : Z -> A) k bs,
  Sorted Z.lt bs -> vfold op k (map (fun b => (b, G b)) bs) = if existsb (Z.eqb k) bs then Some (G k) else None.
Proof.
  intros A op G k. induction bs as [|b bs IH]; intros S; [reflexivity|].
  apply Sorted_StronglySorted in S; [|exact zlt_trans]. inversion S as [|? ? SS F]; subst.
  cbn [map existsb]. rewrite vfold_cons. unfold at_key. cbn [fst snd]. rewrite (Z.eqb_sym k b).
  destruct (b =? k) eqn:E; cbn [orb].
  - apply Z.eqb_eq in E. subst b. rewrite vfold_none; [reflexivity|].
    apply Forall_forall. intros x Hx. apply in_map_iff in Hx. destruct Hx as [b [<- Hb]]. cbn [fst].
    rewrite Forall_forall in F. specialize (F _ Hb). lia.
  - cbn [lift]. apply IH. now apply StronglySorted_Sorted.
Qed.

Lemma map_keys_ssorted : forall {A} (G : Z -> A) bs, Sorted Z.lt bs -> Sorted key_lt (map (fun b => (b, G b)) bs).
Proof.
  intros A G. induction bs as [|b bs IH]; intros S; cbn [map]; [constructor|].
  inversion S as [|? ? S1 H1]; subst. constructor; [now apply IH|].
  destruct bs as [|c bs]; cbn [map]; constructor. unfold key_lt. cbn [fst]. now inversion H1.
Qed.

Definition gkeys_k (kf : Z -> Z) (q : query) (aggs : list aggcol) (ms : list series) : list Z :=
  zkeys (map (fun r : row => kf (fst r)) (filter (hvr aggs) (allrows q ms))).
Definition gkeys (q : query) : list aggcol -> list series -> list Z := gkeys_k (bkey q) q.

Definition canonp_k (kf : Z -> Z) (q : query) (aggs : list aggcol) (ms : list series) : list (Z * prow) :=
  map (fun b => (b, colfold aggs (rows_at_k kf q ms b))) (gkeys_k kf q aggs ms).
Definition canonp (q : query) : list aggcol -> list series -> list (Z * prow) := canonp_k (bkey q) q.

Lemma gkeys_mem : forall kf q aggs ms k, existsb (Z.eqb k) (gkeys_k kf q aggs ms) = existsb (hvr aggs) (rows_at_k kf q ms k).
Proof.
  intros. apply eq_iff_eq_true. rewrite !existsb_exists. unfold gkeys_k, rows_at_k. split.
  - intros [x [Hin Hx]]. apply Z.eqb_eq in Hx. subst x. apply zkeys_in, in_map_iff in Hin.
    destruct Hin as [r [Hk Hr]]. apply filter_In in Hr. destruct Hr as [Hr Hv].
    exists r. split; [|exact Hv]. apply filter_In. split; [exact Hr | now apply Z.eqb_eq].
  - intros [r [Hr Hv]]. apply filter_In in Hr. destruct Hr as [Hr Hk]. apply Z.eqb_eq in Hk.
    exists k. split; [|apply Z.eqb_refl]. apply zkeys_in, in_map_iff. exists r. split; [exact Hk|].
    apply filter_In. now split.
Qed.

Lemma vfold_canonp : forall kf q aggs ms k,
  vfold (rowop aggs) k (canonp_k kf q aggs ms) = vfold (rowop aggs) k (flat_map (raw_items kf q aggs) ms).
Proof.
  intros. unfold canonp_k. rewrite (vfold_map_keys (rowop aggs) (fun b => colfold aggs (rows_at_k kf q ms b))) by apply zkeys_sorted.
  rewrite gkeys_mem, vfold_group. reflexivity.
Qed.

Lemma ssorted_sorted : forall {A} (l : list (Z * A)), Sorted key_lt l -> Sorted key_le l.
Proof.
  intros A. induction l as [|x l IH]; intros S; [constructor|].
  inversion S as [|? ? S1 H1]; subst. constructor; [now apply IH|].
  destruct l; constructor. inversion H1; subst. unfold key_lt, key_le in *. lia.
Qed.

Lemma vfold_flat_map : forall {A X} (op : A -> A -> A), (forall a b c, op a (op b c) = op (op a b) c) ->
  forall k (f : X -> list (Z * A)) (g : X -> list (Z * A)) l,
  (forall x, vfold op k (f x) = vfold op k (g x)) -> vfold op k (flat_map f l) = vfold op k (flat_map g l).
Proof.
  intros A X op Ha k f g l H. induction l as [|x l IH]; [reflexivity|].
  cbn [flat_map]. rewrite !vfold_app by exact Ha. now rewrite H, IH.
Qed.

Lemma kmerge_k_flat : forall {A X} (f : X -> list (Z * A)) l, Permutation (kmerge_k (map f l)) (flat_map f l).
Proof. intros. rewrite flat_map_concat_map. apply kmerge_k_perm. Qed.

Section AggStage.
  Variable kf : Z -> Z.
  Variable q : query.
  Variable aggs : list aggcol.
  Notation rop := (rowop aggs).
  Let ra := rowop_assoc aggs.
  Let rc := rowop_comm aggs.

  Lemma kagg_vfold : forall k l, vfold rop k (kagg aggs l) = vfold rop k l.
  Proof. intros. apply vfold_agg_spec. exact ra. Qed.

  Lemma series_partials_vfold : forall k s, vfold rop k (series_partials kf q aggs s) = vfold rop k (raw_items kf q aggs s).
  Proof. intros. unfold series_partials. rewrite kagg_vfold. apply vfold_perm; [exact ra | exact rc | apply ksort_perm]. Qed.

  Lemma series_partials_ssorted : forall s, Sorted key_lt (series_partials kf q aggs s).
  Proof. intros. apply agg_spec_ssorted, ksort_sorted. Qed.

  Lemma reader_partials_vfold : forall k rd,
    vfold rop k (reader_partials kf q aggs rd) = vfold rop k (flat_map (raw_items kf q aggs) rd).
  Proof.
    intros. unfold reader_partials. rewrite kagg_vfold.
    rewrite (vfold_perm rop ra rc k _ _ (kmerge_k_flat (series_partials kf q aggs) rd)).
    apply vfold_flat_map; [exact ra|]. intros s. apply series_partials_vfold.
  Qed.

  Lemma reader_partials_ssorted : forall rd, Sorted key_lt (reader_partials kf q aggs rd).
  Proof.
    intros. apply agg_spec_ssorted, kmerge_k_sorted. apply Forall_forall. intros l Hl.
    apply in_map_iff in Hl. destruct Hl as [s [<- _]]. apply ssorted_sorted, series_partials_ssorted.
  Qed.

  Lemma merged_partials_sorted : forall parts, Sorted key_le (merged_partials kf q aggs parts).
  Proof.
    intros. apply kmerge_k_sorted. apply Forall_forall. intros l Hl.
    apply in_map_iff in Hl. destruct Hl as [rd [<- _]]. apply ssorted_sorted, reader_partials_ssorted.
  Qed.

  Lemma flat_map_concat : forall {Y W} (f : Y -> list W) (ls : list (list Y)),
    flat_map f (concat ls) = flat_map (fun l => flat_map f l) ls.
  Proof.
    intros. induction ls as [|l ls IH]; [reflexivity|]. cbn [concat flat_map]. now rewrite flat_map_app, IH.
  Qed.

  Lemma merged_partials_vfold : forall k parts,
    vfold rop k (merged_partials kf q aggs parts) = vfold rop k (flat_map (raw_items kf q aggs) (concat parts)).
  Proof.
    intros. unfold merged_partials.
    rewrite (vfold_perm rop ra rc k _ _ (kmerge_k_flat (reader_partials kf q aggs) parts)).
    rewrite flat_map_concat.
    apply vfold_flat_map; [exact ra|]. intros rd. apply reader_partials_vfold.
  Qed.

  Theorem l2_partials_canon : forall parts ms sizes,
    Permutation (concat parts) ms -> l2_partials_k kf q aggs parts sizes = canonp_k kf q aggs ms.
  Proof.
    intros parts ms sizes P. unfold l2_partials_k, agg_stage. rewrite agg_chunking_invariant_lemma.
    apply (ssorted_unique rop).
    - apply agg_spec_ssorted, merged_partials_sorted.
    - apply map_keys_ssorted, zkeys_sorted.
    - intros k. rewrite vfold_canonp. fold (kagg aggs (merged_partials kf q aggs parts)).
      rewrite kagg_vfold, merged_partials_vfold.
      apply vfold_perm; [exact ra | exact rc |]. now apply Permutation_flat_map.
  Qed.
End AggStage.

(* ------------------------------------------------------------------------------------------------ *)
(* 5. finalised partial rows = the per-bucket aggregate cells of the reference semantics               *)
Lemma hvr_intro : forall aggs r a v, In a aggs -> field_of r (fld_of a) = Some v -> hvr aggs r = true.
Proof.
  intros aggs r a v Ha Hf. unfold hvr, row_part. apply existsb_exists.
  exists (Some (pinj (fst r, v))). split; [|reflexivity].
  apply in_map_iff. exists a. split; [|exact Ha]. unfold fld_of in Hf. now rewrite Hf.
Qed.

Lemma in_pts_of_rows : forall f rs p, In p (pts_of_rows f rs) <-> exists r, In r rs /\ field_of r f = Some (snd p) /\ fst p = fst r.
Proof.
  intros f rs p. unfold pts_of_rows. rewrite in_flat_map. split.
  - intros [r [Hr Hp]]. exists r. unfold pt_of in Hp. destruct (field_of r f) as [v|]; [|contradiction].
    destruct Hp as [<-|[]]. auto.
  - intros [r [Hr [Hf Ht]]]. exists r. split; [exact Hr|]. unfold pt_of. rewrite Hf. left. destruct p; cbn in *. congruence.
Qed.

Section Prefill.
  Variable q : query.
  Variable aggs : list aggcol.
  Variable ms : list series.
  Hypothesis Hiv : (q_interval q =? 0) = false.
  Notation i := (q_interval q).

  Lemma bkey_bucket : forall t, bkey q t = bucket i t.
  Proof. intros. unfold bkey. now rewrite Hiv. Qed.

  Lemma rows_at_bucket : forall b, rows_at q ms b = filter (fun r : row => bucket i (fst r) =? b) (allrows q ms).
  Proof. intros. unfold rows_at, rows_at_k. apply filter_ext. intros r. now rewrite bkey_bucket. Qed.

  Lemma gkeys_prefill :
    gkeys q aggs ms = zkeys (flat_map (fun c : aggcol * list point => map (fun p => bucket i (fst p)) (snd c)) (agg_cols_of q aggs ms)).
  Proof.
    unfold gkeys, gkeys_k. apply zkeys_ext. intros k. rewrite in_map_iff, in_flat_map. split.
    - intros [r [Hk Hr]]. apply filter_In in Hr. destruct Hr as [Hr Hv].
      destruct (hvr_true aggs r Hv) as [a [v [Ha Hf]]].
      exists (a, points_of q (fld_of a) ms). split.
      + unfold agg_cols_of. apply in_map_iff. exists a. split; [reflexivity | exact Ha].
      + cbn [snd]. apply in_map_iff. exists (fst r, v). cbn [fst]. split; [now rewrite <- bkey_bucket|].
        rewrite points_of_rows. apply in_pts_of_rows. exists r. auto.
    - intros [c [Hc Hk]]. unfold agg_cols_of in Hc. apply in_map_iff in Hc. destruct Hc as [a [<- Ha]].
      cbn [snd] in Hk. apply in_map_iff in Hk. destruct Hk as [p [Hk Hp]].
      rewrite points_of_rows in Hp. apply in_pts_of_rows in Hp. destruct Hp as [r [Hr [Hf Ht]]].
      exists r. split; [rewrite bkey_bucket; congruence|].
      apply filter_In. split; [exact Hr|]. eapply hvr_intro; eauto.
  Qed.

  Theorem finalize_canonp : finalize aggs (canonp q aggs ms) = prefill_rows i (agg_cols_of q aggs ms).
  Proof.
    unfold finalize, canonp, canonp_k, prefill_rows. rewrite map_map. fold (gkeys q aggs ms). rewrite gkeys_prefill.
    apply map_ext. intros b.
    cbn [fst snd]. f_equal. rewrite fin_row_colfold. unfold agg_cols_of. rewrite map_map. apply map_ext. intros a.
    cbn [fst snd]. fold (fn_of a). f_equal. change (rows_at_k (bkey q) q ms b) with (rows_at q ms b).
    rewrite rows_at_bucket, points_of_rows. symmetry. apply (pts_filter_key (bucket i)).
  Qed.
End Prefill.

(* -- without GROUP BY time(): a single key *)
Lemma agg_cell_nonempty : forall fn p r, is_null (agg_cell fn (p :: r)) = false.
Proof. intros fn p r. destruct fn; reflexivity. Qed.

Lemma pts_none : forall aggs rs a, existsb (hvr aggs) rs = false -> In a aggs -> pts_of_rows (fld_of a) rs = [].
Proof.
  intros aggs rs a H Ha. unfold pts_of_rows. induction rs as [|r rs IH]; [reflexivity|].
  cbn [existsb] in H. apply orb_false_iff in H as [H1 H2]. cbn [flat_map]. rewrite (IH H2), app_nil_r.
  unfold pt_of. now rewrite (hvr_false aggs r H1 a Ha).
Qed.

Section NoInterval.
  Variable q : query.
  Variable aggs : list aggcol.
  Variable ms : list series.
  Hypothesis Hiv : (q_interval q =? 0) = true.

  Lemma rows_at_0 : rows_at q ms 0 = allrows q ms.
  Proof.
    unfold rows_at, rows_at_k, bkey. rewrite Hiv. cbn. induction (allrows q ms) as [|r l IH]; [reflexivity|]. cbn. now rewrite IH.
  Qed.

  Lemma gkeys_0 : gkeys q aggs ms = if existsb (hvr aggs) (allrows q ms) then [0] else [].
  Proof.
    unfold gkeys, gkeys_k, bkey. rewrite Hiv. induction (allrows q ms) as [|r l IH]; [reflexivity|].
    cbn [filter existsb]. destruct (hvr aggs r); cbn [orb map zkeys fold_right]; [|exact IH].
    fold (zkeys (map (fun _ : row => 0) (filter (hvr aggs) l))). rewrite IH.
    destruct (existsb (hvr aggs) l); reflexivity.
  Qed.

  Definition cells0 : list cell := map (fun a => agg_cell (fn_of a) (points_of q (fld_of a) ms)) aggs.

  Lemma cells0_null : forallb is_null cells0 = negb (existsb (hvr aggs) (allrows q ms)).
  Proof.
    unfold cells0. destruct (existsb (hvr aggs) (allrows q ms)) eqn:E; cbn [negb].
    - apply existsb_exists in E. destruct E as [r [Hr Hv]]. destruct (hvr_true aggs r Hv) as [a [v [Ha Hf]]].
      apply not_true_is_false. intros F. rewrite forallb_forall in F.
      assert (Hin : In (agg_cell (fn_of a) (points_of q (fld_of a) ms))
                       (map (fun a => agg_cell (fn_of a) (points_of q (fld_of a) ms)) aggs)).
      { apply in_map_iff. exists a. auto. }
      specialize (F _ Hin). clear Hin.
      assert (I : In (fst r, v) (points_of q (fld_of a) ms)).
      { rewrite points_of_rows. apply in_pts_of_rows. exists r. auto. }
      revert F I. destruct (points_of q (fld_of a) ms) as [|p l]; intros F I; [contradiction|].
      rewrite agg_cell_nonempty in F. discriminate F.
    - apply forallb_forall. intros c Hc. apply in_map_iff in Hc. destruct Hc as [a [<- Ha]].
      now rewrite points_of_rows, (pts_none aggs _ a E Ha).
  Qed.

  Lemma fin_row_cells0 : fin_row aggs (colfold aggs (allrows q ms)) = cells0.
  Proof.
    rewrite fin_row_colfold. unfold cells0. apply map_ext. intros a. now rewrite points_of_rows.
  Qed.
End NoInterval.

(* ------------------------------------------------------------------------------------------------ *)
(* 6. the fill stage: the machine over the existing bucket rows (gaps synthesised before a row, the
      tail at the end) = enumerate every bucket of the range, then fill cell-wise                      *)
Section FillStage.
  Variable i : Z.
  Hypothesis Hi : 0 < i.
  Variable m : fillmode.
  Variable aggs : list aggcol.

  Lemma fill_cells_len : forall (al : list aggcol) prev cs, length prev = length al -> length cs = length al ->
    length (snd (fill_cells m al prev cs)) = length al.
  Proof.
    induction al as [|a al IH]; intros prev cs Hp Hc; [reflexivity|].
    destruct prev as [|p prev]; [discriminate|]. destruct cs as [|c cs]; [discriminate|].
    cbn [fill_cells]. specialize (IH prev cs). destruct (fill_cells m al prev cs) as [out prev2].
    cbn [snd] in IH. destruct (is_null c); cbn [snd length]; f_equal; apply IH; cbn in *; lia.
  Qed.

  Lemma fill_cells_null_prev : forall (al : list aggcol) prev, length prev = length al ->
    snd (fill_cells m al prev (null_cells al)) = prev.
  Proof.
    induction al as [|a al IH]; intros prev Hp; [destruct prev; [reflexivity | discriminate]|].
    destruct prev as [|p prev]; [discriminate|]. cbn [null_cells map fill_cells].
    specialize (IH prev). fold (null_cells al). destruct (fill_cells m al prev (null_cells al)) as [out prev2].
    cbn [is_null snd] in *. f_equal. apply IH. cbn in Hp. lia.
  Qed.

  Lemma fill_nullrows : forall n t prev, length prev = length aggs ->
    fill_rows m aggs prev (enumerate_buckets n t i aggs []) = gap_rows n t i m aggs prev.
  Proof.
    induction n as [|n IH]; intros t prev Hp; [reflexivity|].
    cbn [enumerate_buckets lookup_bucket fill_rows gap_rows].
    pose proof (fill_cells_null_prev aggs prev Hp) as E.
    destruct (fill_cells m aggs prev (null_cells aggs)) as [out prev2]. cbn [fst snd] in *. subst prev2.
    f_equal. now apply IH.
  Qed.

  Lemma fold_prev_nullrows : forall n t prev, length prev = length aggs ->
    fold_left (fun p (r : arow) => snd (fill_cells m aggs p (snd r))) (enumerate_buckets n t i aggs []) prev = prev.
  Proof.
    induction n as [|n IH]; intros t prev Hp; [reflexivity|].
    cbn [enumerate_buckets lookup_bucket fold_left snd]. rewrite (fill_cells_null_prev aggs prev Hp). now apply IH.
  Qed.

  Lemma lookup_none : forall t (rows : list arow), (forall r, In r rows -> fst r <> t) -> lookup_bucket t rows = None.
  Proof.
    intros t. induction rows as [|[t' cs] rows IH]; intros H; [reflexivity|].
    cbn [lookup_bucket]. destruct (t =? t') eqn:E.
    - apply Z.eqb_eq in E. exfalso. apply (H (t', cs)); [now left | cbn; congruence].
    - apply IH. intros r Hr. apply H. now right.
  Qed.

  Lemma enum_gap : forall g n' next (rows : list arow),
    (forall r, In r rows -> next + i * Z.of_nat g <= fst r) ->
    enumerate_buckets (g + n') next i aggs rows =
    enumerate_buckets g next i aggs [] ++ enumerate_buckets n' (next + i * Z.of_nat g) i aggs rows.
  Proof.
    induction g as [|g IH]; intros n' next rows H.
    - cbn [plus enumerate_buckets app]. f_equal. cbn. lia.
    - cbn [plus enumerate_buckets lookup_bucket app]. rewrite lookup_none.
      + f_equal. rewrite IH.
        * f_equal. f_equal. lia.
        * intros r Hr. specialize (H r Hr). lia.
      + intros r Hr. specialize (H r Hr). lia.
  Qed.

  Lemma enum_skip_head : forall n t0 cs (rest : list arow) start, t0 < start ->
    enumerate_buckets n start i aggs ((t0, cs) :: rest) = enumerate_buckets n start i aggs rest.
  Proof.
    induction n as [|n IH]; intros t0 cs rest start H; [reflexivity|].
    cbn [enumerate_buckets lookup_bucket]. destruct (start =? t0) eqn:E; [apply Z.eqb_eq in E; lia|].
    f_equal. apply IH. lia.
  Qed.

  Lemma run_fill_cons : forall next prev t cs rest,
    run (fill_step i m aggs) (next, prev) ((t, cs) :: rest) =
    let r := run (fill_step i m aggs) (t + i, snd (fill_cells m aggs prev cs)) rest in
    (fst r, (gap_rows (Z.to_nat ((t - next) / i)) next i m aggs prev ++ [(t, fst (fill_cells m aggs prev cs))]) ++ snd r).
  Proof.
    intros. cbn [run fill_step]. destruct (fill_cells m aggs prev cs) as [out prev2]. cbn [fst snd].
    destruct (run (fill_step i m aggs) (t + i, prev2) rest). reflexivity.
  Qed.

  Definition fill_run (next last : Z) (prev : list cell) (rows : list arow) : list arow :=
    snd (run (fill_step i m aggs) (next, prev) rows) ++ fill_finish i last m aggs (fst (run (fill_step i m aggs) (next, prev) rows)).

  Lemma fill_machine_enum : forall rows next prev n last,
    Sorted key_lt rows ->
    Forall (fun r : arow => (exists g : nat, fst r = next + i * Z.of_nat g) /\ fst r <= last /\ length (snd r) = length aggs) rows ->
    last = next + i * Z.of_nat n - i ->
    length prev = length aggs ->
    fill_run next last prev rows = fill_rows m aggs prev (enumerate_buckets n next i aggs rows).
  Proof.
    induction rows as [|[t cs] rest IH]; intros next prev n last Srt F Hl Hp.
    - unfold fill_run. cbn [run fst snd app fill_finish].
      replace (last - next) with ((Z.of_nat n - 1) * i) by (subst last; ring).
      rewrite Z.div_mul by lia. replace (Z.of_nat n - 1 + 1) with (Z.of_nat n) by lia. rewrite Nat2Z.id.
      symmetry. now apply fill_nullrows.
    - inversion F as [|? ? [[g Hg] [Hle Hlen]] F']; subst. cbn [fst snd] in Hg, Hle, Hlen.
      apply Sorted_StronglySorted in Srt; [|exact key_lt_trans]. inversion Srt as [|? ? SS FS]; subst.
      assert (Hgn : (g < n)%nat) by nia.
      destruct (Nat.lt_exists_pred 0 (n - g)) as [n' [Hn' _]]; [lia|].
      assert (En : n = (g + S n')%nat) by lia. clear Hn' Hgn. subst n.
      unfold fill_run. rewrite run_fill_cons. cbn zeta. cbn [fst snd].
      replace (next + i * Z.of_nat g - next) with (Z.of_nat g * i) by ring.
      rewrite Z.div_mul by lia. rewrite Nat2Z.id.
      (* right-hand side *)
      rewrite enum_gap.
      2:{ intros r [<-|Hr]; [cbn; lia|]. rewrite Forall_forall in FS. specialize (FS r Hr). unfold key_lt in FS. cbn [fst] in FS. lia. }
      rewrite fill_rows_app, fold_prev_nullrows by assumption. rewrite fill_nullrows by assumption.
      cbn [enumerate_buckets lookup_bucket]. rewrite Z.eqb_refl. cbn [fill_rows].
      rewrite <- !app_assoc. f_equal. cbn [app].
      pose proof (fill_cells_len aggs prev cs Hp Hlen) as Hp2.
      destruct (fill_cells m aggs prev cs) as [out prev2]. cbn [fst snd] in *. f_equal.
      rewrite enum_skip_head by lia.
      specialize (IH (next + i * Z.of_nat g + i) prev2 n' (next + i * Z.of_nat (g + S n') - i)).
      unfold fill_run in IH. apply IH.
      + now apply StronglySorted_Sorted.
      + rewrite Forall_forall in *. intros r Hr. destruct (F' r Hr) as [[g' Hg'] [Hle' Hlen']].
        specialize (FS r Hr). unfold key_lt in FS. cbn [fst] in FS.
        split; [|split; assumption].
        exists (g' - g - 1)%nat. assert (g < g')%nat by nia. rewrite Hg'. rewrite Nat2Z.inj_sub by lia. rewrite Nat2Z.inj_sub by lia. ring.
      + rewrite Nat2Z.inj_add, Nat2Z.inj_succ. ring.
      + exact Hp2.
  Qed.

  (* the operator of one group over any chunking = L1's enumeration and cell-wise fill *)
  Theorem fill_stage_lemma : forall sizes rows first last n,
    Sorted key_lt rows ->
    Forall (fun r : arow => (exists g : nat, fst r = first + i * Z.of_nat g) /\ fst r <= last /\ length (snd r) = length aggs) rows ->
    last = first + i * Z.of_nat n - i ->
    fill_group_chunks i first last m aggs (cut sizes rows) =
    fill_rows m aggs (null_cells aggs) (enumerate_buckets n first i aggs rows).
  Proof.
    intros sizes rows first last n S F Hl. unfold fill_group_chunks. rewrite machine_chunking_invariant.
    pose proof (fill_machine_enum rows first (null_cells aggs) n last S F Hl) as H. unfold fill_run in H.
    destruct (run (fill_step i m aggs) (first, null_cells aggs) rows) as [st out]. cbn [fst snd] in H.
    apply H. unfold null_cells. now rewrite map_length.
  Qed.
End FillStage.

(* ------------------------------------------------------------------------------------------------ *)
(* 7. composition: the pipeline of one group = L1's agg_group (ascending queries)                      *)
Lemma allrows_in_range : forall q ms r, In r (allrows q ms) -> in_range q (fst r) = true.
Proof.
  intros q ms r H. unfold allrows in H. apply in_flat_map in H. destruct H as [s [_ Hr]].
  apply filter_In in Hr. destruct Hr as [_ Hs]. unfold row_selected in Hs. now apply andb_true_iff in Hs.
Qed.

Lemma bucket_mono : forall i a b, 0 < i -> a <= b -> bucket i a <= bucket i b.
Proof. intros i a b Hi H. unfold bucket. apply Z.mul_le_mono_nonneg_r; [lia|]. now apply Z.div_le_mono. Qed.

Lemma fin_row_colfold_len : forall aggs rs, length (fin_row aggs (colfold aggs rs)) = length aggs.
Proof. intros. now rewrite fin_row_colfold, map_length. Qed.

Lemma finalize_ssorted : forall aggs l, Sorted key_lt l -> Sorted key_lt (finalize aggs l).
Proof.
  intros aggs. induction l as [|x l IH]; intros S; cbn [finalize map]; [constructor|].
  inversion S as [|? ? S1 H1]; subst. constructor; [now apply IH|].
  destruct l as [|y l]; cbn [map]; constructor. inversion H1; subst. exact H0.
Qed.

Section Compose.
  Variable q : query.
  Variable aggs : list aggcol.
  Variable ms : list series.
  Notation i := (q_interval q).

  Lemma pre_rows_ok : 0 < i ->
    Forall (fun r : arow => (exists g : nat, fst r = bucket i (lo_of q) + i * Z.of_nat g) /\ fst r <= bucket i (hi_of q) /\
                            length (snd r) = length aggs) (finalize aggs (canonp q aggs ms)).
  Proof.
    intros Hi. assert (Hiv : (i =? 0) = false) by (apply Z.eqb_neq; lia).
    apply Forall_forall. intros x Hx. unfold finalize, canonp, canonp_k in Hx. rewrite map_map in Hx.
    apply in_map_iff in Hx. destruct Hx as [b [<- Hb]]. cbn [fst snd].
    unfold gkeys_k in Hb. apply zkeys_in, in_map_iff in Hb. destruct Hb as [r [Hk Hr]].
    apply filter_In in Hr. destruct Hr as [Hr _]. apply allrows_in_range in Hr.
    unfold in_range in Hr. apply andb_true_iff in Hr. destruct Hr as [H1 H2]. apply Z.leb_le in H1, H2.
    rewrite (bkey_bucket q Hiv) in Hk. subst b. split; [|split].
    - exists (Z.to_nat (fst r / i - lo_of q / i)). unfold bucket.
      assert (lo_of q / i <= fst r / i) by (apply Z.div_le_mono; lia).
      rewrite Z2Nat.id by lia. ring.
    - now apply bucket_mono.
    - apply fin_row_colfold_len.
  Qed.

  Lemma pre_count : 0 < i -> finalize aggs (canonp q aggs ms) <> [] ->
    bucket i (hi_of q) =
    bucket i (lo_of q) + i * Z.of_nat (Z.to_nat ((bucket i (hi_of q) - bucket i (lo_of q)) / i + 1)) - i.
  Proof.
    intros Hi Hne. pose proof (pre_rows_ok Hi) as F.
    destruct (finalize aggs (canonp q aggs ms)) as [|x l]; [congruence|].
    inversion F as [|? ? [[g Hg] [Hle _]] _]; subst.
    assert (bucket i (lo_of q) <= bucket i (hi_of q)) by nia.
    unfold bucket in *. replace (hi_of q / i * i - lo_of q / i * i) with ((hi_of q / i - lo_of q / i) * i) by ring.
    rewrite Z.div_mul by lia. assert (lo_of q / i <= hi_of q / i) by nia.
    rewrite Z2Nat.id by lia. ring.
  Qed.

  Theorem l2_agg_group_asc_lemma : forall cur parts sizes sizes2,
    q_desc q = false -> 0 <= i -> Permutation (concat parts) ms ->
    l2_agg_group_asc q aggs parts sizes sizes2 = agg_group cur q aggs ms.
  Proof.
    intros cur parts sizes sizes2 Hd Hi P. unfold l2_agg_group_asc, l2_partials. rewrite (l2_partials_canon (bkey q) q aggs parts ms sizes P). fold (canonp q aggs ms).
    unfold agg_group. cbv zeta. destruct (i =? 0) eqn:E.
    - (* no GROUP BY time() *)
      assert (C : map (fun c : aggfn * nat * Z * list point => agg_cell (fst (fst (fst c))) (snd c)) (agg_cols_of q aggs ms) = cells0 q aggs ms).
      { unfold agg_cols_of, cells0. rewrite map_map. reflexivity. }
      rewrite C, (cells0_null q aggs ms). unfold canonp, canonp_k. fold (gkeys q aggs ms). rewrite (gkeys_0 q aggs ms E).
      destruct (existsb (hvr aggs) (allrows q ms)) eqn:Ex; cbn [negb map]; [|reflexivity].
      change (rows_at_k (bkey q) q ms 0) with (rows_at q ms 0).
      rewrite (rows_at_0 q ms E), (fin_row_cells0 q aggs ms). f_equal. f_equal.
      (* the time column *)
      unfold l2_time0, agg_cols_of, colfold.
      destruct aggs as [|[[fn f] sc] [|b al]]; cbn [map]; try reflexivity.
      unfold fn_of, fld_of. cbn [fst snd]. rewrite <- points_of_rows.
      destruct (points_of q f ms) as [|p l] eqn:Ep; [destruct (is_selector fn); reflexivity|].
      destruct (is_selector fn) eqn:Es; [|rewrite pfold_explicit; reflexivity].
      destruct (pfold fn (p :: l)) as [a|] eqn:Ef; [|rewrite pfold_explicit in Ef; discriminate].
      now rewrite (pfold_best fn p l a Es Ef).
    - (* GROUP BY time(i) *)
      assert (Hpos : 0 < i) by (apply Z.eqb_neq in E; lia).
      rewrite (finalize_canonp q aggs ms E).
      pose proof (pre_rows_ok Hpos) as F. pose proof (pre_count Hpos) as Hc.
      assert (Srt : Sorted key_lt (finalize aggs (canonp q aggs ms))).
      { apply finalize_ssorted, map_keys_ssorted, zkeys_sorted. }
      rewrite (finalize_canonp q aggs ms E) in F, Hc, Srt.
      destruct (prefill_rows i (agg_cols_of q aggs ms)) as [|x pre] eqn:Epre; [reflexivity|].
      specialize (Hc ltac:(discriminate)).
      rewrite Hd, !andb_false_r. cbn [andb].
      assert (G : forall m, fill_group_chunks i (bucket i (lo_of q)) (bucket i (hi_of q)) m aggs (cut sizes2 (x :: pre)) =
                       fill_rows m aggs (null_cells aggs)
                         (enumerate_buckets (Z.to_nat ((bucket i (hi_of q) - bucket i (lo_of q)) / i + 1)) (bucket i (lo_of q)) i aggs (x :: pre))).
      { intros m. apply fill_stage_lemma; assumption. }
      destruct (q_fill q); try reflexivity; apply G.
  Qed.
End Compose.

(* ------------------------------------------------------------------------------------------------ *)
(* 8. the whole answer of an ascending query                                                           *)
Lemma l2_limit_rows : forall q sizes rows, l2_limit q sizes rows = limit_rows q rows.
Proof.
  intros. unfold l2_limit, limit_rows. destruct (0 <? q_limit q); [|reflexivity].
  apply limit_chunking_invariant_lemma.
Qed.

Theorem l2_eval_asc_lemma : forall cur db q pl,
  q_desc q = false -> 0 <= q_interval q ->
  (forall k, In k (keys_of q db) -> Permutation (concat (pl_parts pl k)) (members q db k)) ->
  l2_eval_asc db q pl = eval_gen cur db q.
Proof.
  intros cur db q pl Hd Hi HP. unfold l2_eval_asc, eval_gen. rewrite Hd.
  assert (G : map (fun k => (k, l2_group_rows_asc q pl k)) (keys_of q db) =
              map (fun k => (k, group_rows cur q (members q db k))) (keys_of q db)).
  { apply map_ext_in. intros k Hk. f_equal. unfold l2_group_rows_asc, group_rows. destruct (q_sel q) as [cols|aggs].
    - rewrite Hd. apply plain_pipeline_refines_eval_lemma. now apply HP.
    - apply l2_agg_group_asc_lemma; auto. }
  rewrite G. destruct (has_limit q); [|reflexivity].
  f_equal. apply map_ext. intros g. now rewrite l2_limit_rows.
Qed.

(* ------------------------------------------------------------------------------------------------ *)
(* 9. the descending pipeline = today's reference (Model.agg_group true): mirror symmetry             *)
Lemma neg_keys_invol : forall {X} (l : list (Z * X)), neg_keys (neg_keys l) = l.
Proof.
  intros X l. unfold neg_keys. rewrite map_map. rewrite <- (map_id l) at 2. apply map_ext.
  intros [k x]. cbn [fst snd]. now rewrite Z.opp_involutive.
Qed.

Lemma neg_keys_rev : forall {X} (l : list (Z * X)), neg_keys (rev l) = rev (neg_keys l).
Proof. intros. unfold neg_keys. apply map_rev. Qed.

Lemma sorted_lt_app : forall l x, Sorted Z.lt l -> Forall (fun y => y < x) l -> Sorted Z.lt (l ++ [x]).
Proof.
  induction l as [|y l IH]; intros x S F; cbn [app]; [repeat constructor|].
  inversion S as [|? ? S1 H1]; subst. inversion F as [|? ? Hy F1]; subst.
  constructor; [now apply IH|]. destruct l as [|z l]; cbn [app]; constructor; [exact Hy | now inversion H1].
Qed.

Lemma sorted_opp_rev : forall l, Sorted Z.lt l -> Sorted Z.lt (map Z.opp (rev l)).
Proof.
  induction l as [|x l IH]; intros S; [constructor|].
  apply Sorted_StronglySorted in S; [|exact zlt_trans]. inversion S as [|? ? SS F]; subst.
  cbn [rev]. rewrite map_app. cbn [map]. apply sorted_lt_app.
  - apply IH. now apply StronglySorted_Sorted.
  - apply Forall_forall. intros y Hy. apply in_map_iff in Hy. destruct Hy as [z [<- Hz]].
    apply in_rev in Hz. rewrite Forall_forall in F. specialize (F _ Hz). cbn beta in *. lia.
Qed.

Lemma zkeys_opp : forall l, zkeys (map Z.opp l) = map Z.opp (rev (zkeys l)).
Proof.
  intros l. apply zsorted_unique.
  - apply zkeys_sorted.
  - apply sorted_opp_rev, zkeys_sorted.
  - intros k. rewrite zkeys_in, !in_map_iff. split.
    + intros [x [<- Hx]]. exists x. split; [reflexivity|]. rewrite <- in_rev. exact (proj2 (zkeys_in x l) Hx).
    + intros [x [<- Hx]]. exists x. split; [reflexivity|]. rewrite <- in_rev in Hx. exact (proj1 (zkeys_in x l) Hx).
Qed.

Lemma rows_at_dkey : forall q ms b, rows_at_k (dkey q) q ms (- b) = rows_at q ms b.
Proof.
  intros. unfold rows_at, rows_at_k, dkey. apply filter_ext. intros r.
  destruct (Z.eqb_spec (- bkey q (fst r)) (- b)); destruct (Z.eqb_spec (bkey q (fst r)) b); try reflexivity; lia.
Qed.

Lemma canonp_dkey : forall q aggs ms, canonp_k (dkey q) q aggs ms = neg_keys (rev (canonp q aggs ms)).
Proof.
  intros. unfold canonp, canonp_k, gkeys_k, dkey.
  rewrite <- (map_map (fun r : row => bkey q (fst r)) Z.opp), zkeys_opp, map_map.
  fold (gkeys_k (bkey q) q aggs ms). unfold neg_keys. rewrite <- map_rev, map_map. apply map_ext.
  intros b. cbn [fst snd]. f_equal. f_equal. apply rows_at_dkey.
Qed.

Lemma finalize_rev : forall aggs l, finalize aggs (rev l) = rev (finalize aggs l).
Proof. intros. unfold finalize. apply map_rev. Qed.

(* -- the fill operator under the mirror t -> -t *)
Definition mir (l : list arow) : list arow := map (fun r : arow => (- fst r, snd r)) l.

Lemma mir_invol : forall l, mir (mir l) = l.
Proof.
  intros l. unfold mir. rewrite map_map. rewrite <- (map_id l) at 2. apply map_ext.
  intros [t cs]. cbn [fst snd]. now rewrite Z.opp_involutive.
Qed.

Lemma mir_app : forall a b, mir (a ++ b) = mir a ++ mir b.
Proof. intros. unfold mir. apply map_app. Qed.

Lemma mir_rev : forall l, mir (rev l) = rev (mir l).
Proof. intros. unfold mir. apply map_rev. Qed.

Lemma gap_rows_mir : forall n t i m aggs prev, gap_rows n t (- i) m aggs prev = mir (gap_rows n (- t) i m aggs prev).
Proof.
  induction n as [|n IH]; intros t i m aggs prev; [reflexivity|].
  cbn [gap_rows mir map fst snd]. rewrite Z.opp_involutive. f_equal.
  rewrite IH. unfold mir. do 2 f_equal. lia.
Qed.

Lemma run_fill_mir : forall i m aggs rows next prev,
  run (fill_step (- i) m aggs) (next, prev) rows =
  let r := run (fill_step i m aggs) (- next, prev) (mir rows) in ((- fst (fst r), snd (fst r)), mir (snd r)).
Proof.
  intros i m aggs. induction rows as [|[t cs] rows IH]; intros next prev.
  - cbn [run mir map fst snd]. now rewrite Z.opp_involutive.
  - cbn [mir map fst snd]. fold (mir rows). cbn [run fill_step].
    destruct (fill_cells m aggs prev cs) as [out prev2].
    rewrite IH. cbn zeta. replace (- (t + - i)) with (- t + i) by lia.
    destruct (run (fill_step i m aggs) (- t + i, prev2) (mir rows)) as [[n2 p2] o2]. cbn [fst snd].
    f_equal. rewrite !mir_app. f_equal. cbn [mir map fst snd]. rewrite Z.opp_involutive.
    f_equal. rewrite gap_rows_mir. unfold mir. do 3 f_equal.
    destruct (Z.eq_dec i 0) as [->|Hi]; [change (- 0) with 0; now rewrite !Zdiv_0_r|].
    replace (t - next) with (- (- t - - next)) by lia. now rewrite Z.div_opp_opp.
Qed.

Lemma concat_map_mir : forall chunks, concat (map mir chunks) = mir (concat chunks).
Proof. induction chunks as [|c cs IH]; [reflexivity|]. cbn [map concat]. now rewrite IH, mir_app. Qed.

Lemma fill_group_chunks_mir : forall i f l m aggs chunks,
  fill_group_chunks (- i) f l m aggs chunks = mir (fill_group_chunks i (- f) (- l) m aggs (map mir chunks)).
Proof.
  intros. unfold fill_group_chunks. rewrite !run_chunks_concat, concat_map_mir, run_fill_mir. cbn zeta.
  destruct (run (fill_step i m aggs) (- f, null_cells aggs) (mir (concat chunks))) as [[n2 p2] o2]. cbn [fst snd].
  rewrite mir_app. f_equal. unfold fill_finish. rewrite gap_rows_mir, Z.opp_involutive.
  assert (E : (l - - n2) / - i = (- l - n2) / i).
  { destruct (Z.eq_dec i 0) as [->|Hi]; [change (- 0) with 0; now rewrite !Zdiv_0_r|].
    replace (l - - n2) with (- (- l - n2)) by lia. now rewrite Z.div_opp_opp. }
  now rewrite E.
Qed.

Lemma cut_map : forall {X Y} (f : X -> Y) sizes (l : list X), cut sizes (map f l) = map (map f) (cut sizes l).
Proof.
  intros X Y f. induction sizes as [|n sizes IH]; intros l.
  - destruct l; reflexivity.
  - destruct l as [|x l]; [reflexivity|].
    change (cut (n :: sizes) (map f (x :: l))) with (firstn (S n) (map f (x :: l)) :: cut sizes (skipn (S n) (map f (x :: l)))).
    change (cut (n :: sizes) (x :: l)) with (firstn (S n) (x :: l) :: cut sizes (skipn (S n) (x :: l))).
    cbn [map]. rewrite <- IH. f_equal; [apply (firstn_map f (S n) (x :: l)) | now rewrite <- (skipn_map f (S n) (x :: l))].
Qed.

(* -- enumeration of the buckets, mirrored *)
Lemma lookup_app : forall t (a b : list arow),
  lookup_bucket t (a ++ b) = match lookup_bucket t a with Some c => Some c | None => lookup_bucket t b end.
Proof.
  intros t. induction a as [|[t' cs] a IH]; intros b; [reflexivity|].
  cbn [app lookup_bucket]. destruct (t =? t'); [reflexivity | apply IH].
Qed.

Lemma lookup_mir : forall t l, lookup_bucket (- t) (mir l) = lookup_bucket t l.
Proof.
  intros t. induction l as [|[t' cs] l IH]; [reflexivity|].
  cbn [mir map lookup_bucket fst snd]. fold (mir l). rewrite IH.
  destruct (Z.eqb_spec (- t) (- t')); destruct (Z.eqb_spec t t'); try reflexivity; lia.
Qed.

Lemma lookup_rev : forall t (l : list arow), Sorted key_lt l -> lookup_bucket t (rev l) = lookup_bucket t l.
Proof.
  intros t. induction l as [|[t' cs] l IH]; intros S; [reflexivity|].
  apply Sorted_StronglySorted in S; [|exact key_lt_trans]. inversion S as [|? ? SS F]; subst.
  cbn [rev lookup_bucket]. rewrite lookup_app, IH by now apply StronglySorted_Sorted.
  cbn [lookup_bucket]. destruct (t =? t') eqn:E; [|destruct (lookup_bucket t l); reflexivity].
  apply Z.eqb_eq in E. subst t'. rewrite (lookup_none t l); [reflexivity|].
  intros r Hr. rewrite Forall_forall in F. specialize (F r Hr). unfold key_lt in F. cbn [fst] in F. lia.
Qed.

Definition bucket_row (aggs : list aggcol) (pre : list arow) (t : Z) : arow :=
  (t, match lookup_bucket t pre with Some cs => cs | None => null_cells aggs end).

Lemma enum_snoc : forall n s i aggs pre,
  enumerate_buckets (S n) s i aggs pre = enumerate_buckets n s i aggs pre ++ [bucket_row aggs pre (s + i * Z.of_nat n)].
Proof.
  induction n as [|n IH]; intros s i aggs pre.
  - cbn [enumerate_buckets app]. unfold bucket_row. replace (s + i * Z.of_nat 0) with s by (cbn [Z.of_nat]; lia). reflexivity.
  - change (enumerate_buckets (S (S n)) s i aggs pre) with (bucket_row aggs pre s :: enumerate_buckets (S n) (s + i) i aggs pre).
    rewrite IH. change (enumerate_buckets (S n) s i aggs pre) with (bucket_row aggs pre s :: enumerate_buckets n (s + i) i aggs pre).
    cbn [app]. f_equal. f_equal. f_equal. unfold bucket_row. replace (s + i + i * Z.of_nat n) with (s + i * Z.of_nat (S n)) by lia. reflexivity.
Qed.

Lemma enum_mir_rev : forall n first i aggs pre, Sorted key_lt pre ->
  mir (rev (enumerate_buckets n first i aggs pre)) =
  enumerate_buckets n (- (first + i * Z.of_nat n - i)) i aggs (mir (rev pre)).
Proof.
  induction n as [|n IH]; intros first i aggs pre S; [reflexivity|].
  change (enumerate_buckets (Datatypes.S n) first i aggs pre) with (bucket_row aggs pre first :: enumerate_buckets n (first + i) i aggs pre).
  rewrite (enum_snoc n (- (first + i * Z.of_nat (Datatypes.S n) - i)) i aggs (mir (rev pre))).
  cbn [rev]. rewrite mir_app, (IH (first + i) i aggs pre S).
  replace (first + i + i * Z.of_nat n - i) with (first + i * Z.of_nat (Datatypes.S n) - i) by lia.
  f_equal. unfold bucket_row. cbn [mir map fst snd].
  replace (- (first + i * Z.of_nat (Datatypes.S n) - i) + i * Z.of_nat n) with (- first) by lia.
  now rewrite lookup_mir, lookup_rev.
Qed.

(* -- cell-wise fill commutes with the mirror; without fill(previous) also with the reversal *)
Lemma fill_rows_mir : forall m aggs l prev, fill_rows m aggs prev (mir l) = mir (fill_rows m aggs prev l).
Proof.
  intros m aggs. induction l as [|[t cs] l IH]; intros prev; [reflexivity|].
  cbn [mir map fill_rows fst snd]. fold (mir l). destruct (fill_cells m aggs prev cs) as [out prev2].
  cbn [mir map fst snd]. fold (mir (fill_rows m aggs prev2 l)). now rewrite IH.
Qed.

Definition not_prev (m : fillmode) : bool := match m with FillPrev => false | _ => true end.

Lemma fill_cells_indep : forall m (al : list aggcol) p p' cs, not_prev m = true ->
  length p = length al -> length p' = length al ->
  fst (fill_cells m al p cs) = fst (fill_cells m al p' cs).
Proof.
  intros m. induction al as [|a al IH]; intros p p' cs Hm Hp Hp'; [reflexivity|].
  destruct p as [|x p]; [discriminate|]. destruct p' as [|x' p']; [discriminate|].
  destruct cs as [|c cs]; [reflexivity|]. cbn [fill_cells].
  specialize (IH p p' cs Hm). destruct (fill_cells m al p cs) as [o1 q1]. destruct (fill_cells m al p' cs) as [o2 q2].
  cbn [fst] in IH. rewrite IH by (cbn in *; lia).
  destruct (is_null c); [|reflexivity]. destruct m; try reflexivity. discriminate.
Qed.

Lemma fill_rows_map : forall m aggs l prev, not_prev m = true -> length prev = length aggs ->
  Forall (fun r : arow => length (snd r) = length aggs) l ->
  fill_rows m aggs prev l = map (fun r : arow => (fst r, fst (fill_cells m aggs (null_cells aggs) (snd r)))) l.
Proof.
  intros m aggs. induction l as [|[t cs] l IH]; intros prev Hm Hp F; [reflexivity|].
  inversion F as [|? ? Hc F']; subst. cbn [fill_rows map fst snd] in *.
  pose proof (fill_cells_len m aggs prev cs Hp Hc) as L.
  assert (N : length (null_cells aggs) = length aggs) by (unfold null_cells; now rewrite map_length).
  rewrite <- (fill_cells_indep m aggs prev (null_cells aggs) cs Hm Hp N).
  destruct (fill_cells m aggs prev cs) as [out prev2]. cbn [fst snd] in *. f_equal. now apply IH.
Qed.

Lemma fill_rows_rev : forall m aggs l, not_prev m = true ->
  Forall (fun r : arow => length (snd r) = length aggs) l ->
  fill_rows m aggs (null_cells aggs) (rev l) = rev (fill_rows m aggs (null_cells aggs) l).
Proof.
  intros m aggs l Hm F.
  assert (N : length (null_cells aggs) = length aggs) by (unfold null_cells; now rewrite map_length).
  rewrite !fill_rows_map; try assumption; [now rewrite map_rev|].
  apply Forall_forall. intros r Hr. apply in_rev in Hr. rewrite Forall_forall in F. now apply F.
Qed.

Lemma enum_lengths : forall n t i aggs pre, Forall (fun r : arow => length (snd r) = length aggs) pre ->
  Forall (fun r : arow => length (snd r) = length aggs) (enumerate_buckets n t i aggs pre).
Proof.
  induction n as [|n IH]; intros t i aggs pre F; [constructor|].
  cbn [enumerate_buckets]. constructor; [|now apply IH].
  cbn [snd]. destruct (lookup_bucket t pre) as [cs|] eqn:E; [|unfold null_cells; now rewrite map_length].
  clear IH. induction pre as [|[t' c'] pre IHp]; [discriminate|].
  inversion F; subst. cbn [lookup_bucket] in E. destruct (t =? t'); [injection E as <-; assumption | now apply IHp].
Qed.

Lemma sorted_key_lt_snoc : forall (l : list arow) x, Sorted key_lt l -> Forall (fun r : arow => fst r < fst x) l ->
  Sorted key_lt (l ++ [x]).
Proof.
  induction l as [|y l IHl]; intros x S G; cbn [app]; [repeat constructor|].
  inversion S as [|? ? S1 H1]; subst. inversion G as [|? ? Gy G1]; subst.
  constructor; [now apply IHl|]. destruct l as [|z l]; cbn [app]; constructor; [exact Gy | now inversion H1].
Qed.

Lemma sorted_mir_rev : forall l : list arow, Sorted key_lt l -> Sorted key_lt (mir (rev l)).
Proof.
  induction l as [|[t cs] l IH]; intros S; [constructor|].
  apply Sorted_StronglySorted in S; [|exact key_lt_trans]. inversion S as [|? ? SS F]; subst.
  cbn [rev]. rewrite mir_app. cbn [mir map fst snd]. fold (mir (rev l)).
  apply sorted_key_lt_snoc; [apply IH; now apply StronglySorted_Sorted|].
  apply Forall_forall. intros r Hr. unfold mir in Hr. apply in_map_iff in Hr. destruct Hr as [r0 [<- H0]].
  apply in_rev in H0. rewrite Forall_forall in F. specialize (F _ H0). unfold key_lt in F. cbn [fst] in *. lia.
Qed.

Lemma cut_mir : forall sizes l, map mir (cut sizes l) = cut sizes (mir l).
Proof. intros. unfold mir. symmetry. apply cut_map. Qed.

Lemma agg_group_noiv : forall cur q aggs ms, (q_interval q =? 0) = true ->
  agg_group cur q aggs ms =
  match canonp q aggs ms with
  | [] => []
  | (_, pr) :: _ => [(l2_time0 q aggs pr, fin_row aggs pr)]
  end.
Proof.
  intros cur q aggs ms E. unfold agg_group. cbv zeta. rewrite E.
  assert (C : map (fun c : aggfn * nat * Z * list point => agg_cell (fst (fst (fst c))) (snd c)) (agg_cols_of q aggs ms) = cells0 q aggs ms).
  { unfold agg_cols_of, cells0. rewrite map_map. reflexivity. }
  rewrite C, (cells0_null q aggs ms). unfold canonp, canonp_k. fold (gkeys q aggs ms). rewrite (gkeys_0 q aggs ms E).
  destruct (existsb (hvr aggs) (allrows q ms)) eqn:Ex; cbn [negb map]; [|reflexivity].
  change (rows_at_k (bkey q) q ms 0) with (rows_at q ms 0).
  rewrite (rows_at_0 q ms E), (fin_row_cells0 q aggs ms). f_equal. f_equal.
  unfold l2_time0, agg_cols_of, colfold.
  destruct aggs as [|[[fn f] sc] [|b al]]; cbn [map]; try reflexivity.
  unfold fn_of, fld_of. cbn [fst snd]. rewrite <- points_of_rows.
  destruct (points_of q f ms) as [|p l] eqn:Ep; [destruct (is_selector fn); reflexivity|].
  destruct (is_selector fn) eqn:Es; [|rewrite pfold_explicit; reflexivity].
  destruct (pfold fn (p :: l)) as [a|] eqn:Ef; [|rewrite pfold_explicit in Ef; discriminate].
  now rewrite (pfold_best fn p l a Es Ef).
Qed.

Lemma canonp_noiv_short : forall q aggs ms, (q_interval q =? 0) = true ->
  canonp q aggs ms = [] \/ exists pr, canonp q aggs ms = [(0, pr)].
Proof.
  intros q aggs ms E. unfold canonp, canonp_k. fold (gkeys q aggs ms). rewrite (gkeys_0 q aggs ms E).
  destruct (existsb (hvr aggs) (allrows q ms)); cbn [map]; [right; eauto | now left].
Qed.

Section ComposeDesc.
  Variable q : query.
  Variable aggs : list aggcol.
  Variable ms : list series.
  Notation i := (q_interval q).

  Theorem l2_agg_group_desc_lemma : forall parts sizes sizes2,
    q_desc q = true -> 0 <= i -> Permutation (concat parts) ms ->
    l2_agg_group_desc q aggs parts sizes sizes2 = agg_group true q aggs ms.
  Proof.
    intros parts sizes sizes2 Hd Hi P. unfold l2_agg_group_desc.
    rewrite (l2_partials_canon (dkey q) q aggs parts ms sizes P), canonp_dkey.
    destruct (i =? 0) eqn:E.
    - rewrite (agg_group_noiv true q aggs ms E).
      destruct (canonp_noiv_short q aggs ms E) as [->|[pr ->]]; reflexivity.
    - assert (Hpos : 0 < i) by (apply Z.eqb_neq in E; lia).
      rewrite neg_keys_invol, finalize_rev.
      pose proof (pre_rows_ok q aggs ms Hpos) as F. pose proof (pre_count q aggs ms Hpos) as Hc.
      assert (Srt : Sorted key_lt (finalize aggs (canonp q aggs ms))).
      { apply finalize_ssorted, map_keys_ssorted, zkeys_sorted. }
      rewrite (finalize_canonp q aggs ms E) in *.
      unfold agg_group. cbv zeta. rewrite E.
      destruct (prefill_rows i (agg_cols_of q aggs ms)) as [|x pre] eqn:Epre; [reflexivity|].
      specialize (Hc ltac:(discriminate)).
      set (blo := bucket i (lo_of q)) in *. set (bhi := bucket i (hi_of q)) in *.
      set (n := Z.to_nat ((bhi - blo) / i + 1)) in *.
      set (all := enumerate_buckets n blo i aggs (x :: pre)).
      assert (NE : rev (x :: pre) <> []).
      { cbn [rev]. intros H. apply app_eq_nil in H. destruct H; discriminate. }
      destruct (rev (x :: pre)) as [|y rp] eqn:Er; [congruence|]. rewrite <- Er. clear NE.
      rewrite Hd. cbn [andb].
      (* the operator over the mirrored rows *)
      assert (G : forall m, fill_group_chunks (- i) bhi blo m aggs (cut sizes2 (rev (x :: pre))) =
                       fill_rows m aggs (null_cells aggs) (rev all)).
      { intros m. rewrite fill_group_chunks_mir, cut_mir.
        assert (H1 : fill_group_chunks i (- bhi) (- blo) m aggs (cut sizes2 (mir (rev (x :: pre)))) =
                     fill_rows m aggs (null_cells aggs) (enumerate_buckets n (- bhi) i aggs (mir (rev (x :: pre))))).
        { apply (fill_stage_lemma i Hpos).
          - now apply sorted_mir_rev.
          - apply Forall_forall. intros r Hr. unfold mir in Hr. apply in_map_iff in Hr. destruct Hr as [r0 [<- H0]].
            apply in_rev in H0. rewrite Forall_forall in F. destruct (F _ H0) as [[g Hg] [Hle Hlen]].
            cbn [fst snd]. split; [|split; [|exact Hlen]].
            + assert (g < n)%nat by nia. exists (n - 1 - g)%nat. rewrite Hg.
              rewrite !Nat2Z.inj_sub by lia. change (Z.of_nat 1) with 1. nia.
            + nia.
          - lia. }
        assert (H2 : enumerate_buckets n (- bhi) i aggs (mir (rev (x :: pre))) = mir (rev all)).
        { unfold all. etransitivity; [|symmetry; apply (enum_mir_rev n blo i aggs (x :: pre) Srt)]. f_equal. lia. }
        rewrite H1, H2. now rewrite fill_rows_mir, mir_invol. }
      assert (L : Forall (fun r : arow => length (snd r) = length aggs) all).
      { apply enum_lengths. eapply Forall_impl; [|exact F]. cbn. intros r [_ [_ H]]. exact H. }
      destruct (q_fill q) eqn:Ef; cbn [andb].
      + reflexivity.
      + rewrite G. fold blo bhi n all. now apply fill_rows_rev.
      + rewrite G. fold blo bhi n all. now apply fill_rows_rev.
      + rewrite G. reflexivity.
  Qed.
End ComposeDesc.

(* ------------------------------------------------------------------------------------------------ *)
(* 10. the whole answer, both orders                                                                   *)
Theorem l2_eval_lemma : forall db q pl,
  0 <= q_interval q ->
  (forall k, In k (keys_of q db) -> Permutation (concat (pl_parts pl k)) (members q db k)) ->
  l2_eval db q pl = eval_gen true db q.
Proof.
  intros db q pl Hi HP. unfold l2_eval, eval_gen.
  assert (G : map (fun k => (k, l2_group_rows q pl k)) (keys_of q db) =
              map (fun k => (k, group_rows true q (members q db k))) (keys_of q db)).
  { apply map_ext_in. intros k Hk. f_equal. unfold l2_group_rows, group_rows. destruct (q_sel q) as [cols|aggs].
    - destruct (q_desc q).
      + apply plain_pipeline_desc_lemma. now apply HP.
      + apply plain_pipeline_refines_eval_lemma. now apply HP.
    - destruct (q_desc q) eqn:Hd.
      + apply l2_agg_group_desc_lemma; auto.
      + apply l2_agg_group_asc_lemma; auto. }
  rewrite G. destruct (has_limit q); [|reflexivity].
  f_equal. apply map_ext. intros g. now rewrite l2_limit_rows.
Qed.

Lemma agg_group_cur_irrelevant : forall q aggs ms,
  (q_desc q && is_prev (q_fill q)) = false -> agg_group true q aggs ms = agg_group false q aggs ms.
Proof.
  intros q aggs ms H. unfold agg_group. cbv zeta.
  destruct (q_interval q =? 0); [reflexivity|].
  destruct (prefill_rows (q_interval q) (agg_cols_of q aggs ms)); [reflexivity|].
  destruct (q_desc q); destruct (q_fill q); cbn [andb is_prev] in *; try reflexivity; discriminate.
Qed.

Lemma eval_gen_cur_irrelevant : forall db q,
  (q_desc q && is_prev (q_fill q)) = false -> eval_gen true db q = eval_gen false db q.
Proof.
  intros db q H. unfold eval_gen.
  assert (G : map (fun k => (k, group_rows true q (members q db k))) (keys_of q db) =
              map (fun k => (k, group_rows false q (members q db k))) (keys_of q db)).
  { apply map_ext. intros k. f_equal. unfold group_rows. destruct (q_sel q); [reflexivity|].
    now apply agg_group_cur_irrelevant. }
  now rewrite G.
Qed.
