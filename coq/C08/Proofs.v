(* C08 lemmas. *)
From Coq Require Import ZArith List Bool Lia Permutation Sorted Arith.
From OG Require Import C08.Model.
Import ListNotations.

(* ------------------------------------------------------------------------------------------------ *)
(* 1. Any state machine fed chunk by chunk (state carried over) = the machine fed the whole stream.    *)
Section MachineFacts.
  Context {X Y St : Type}.
  Variable step : St -> X -> St * list Y.

  Lemma run_app : forall a b st,
    run step st (a ++ b) =
    let '(st1, o1) := run step st a in let '(st2, o2) := run step st1 b in (st2, o1 ++ o2).
  Proof.
    induction a as [|x a IH]; intros b st; cbn [run app].
    - destruct (run step st b); reflexivity.
    - destruct (step st x) as [s1 o1]. rewrite IH.
      destruct (run step s1 a) as [s2 o2]. destruct (run step s2 b) as [s3 o3].
      now rewrite app_assoc.
  Qed.

  Lemma run_chunks_concat : forall cs st, run_chunks step st cs = run step st (concat cs).
  Proof.
    induction cs as [|c cs IH]; intros st; cbn [run_chunks concat run]; [reflexivity|].
    rewrite run_app. destruct (run step st c) as [s1 o1]. rewrite IH. reflexivity.
  Qed.
End MachineFacts.

Lemma cut_concat : forall {X} (sizes : list nat) (l : list X), concat (cut sizes l) = l.
Proof.
  intros X sizes. induction sizes as [|n sizes IH]; intros l.
  - destruct l; cbn; [reflexivity | now rewrite app_nil_r].
  - destruct l as [|x l]; [reflexivity|].
    change (cut (n :: sizes) (x :: l)) with (firstn (S n) (x :: l) :: cut sizes (skipn (S n) (x :: l))).
    cbn [concat]. rewrite IH. apply firstn_skipn.
Qed.

Lemma cut_nonempty : forall {X} (sizes : list nat) (l : list X), Forall (fun c => c <> []) (cut sizes l).
Proof.
  intros X sizes. induction sizes as [|n sizes IH]; intros l.
  - destruct l; cbn; constructor; [discriminate | constructor].
  - destruct l as [|x l]; [constructor|].
    change (cut (n :: sizes) (x :: l)) with (firstn (S n) (x :: l) :: cut sizes (skipn (S n) (x :: l))).
    constructor; [cbn; discriminate | apply IH].
Qed.

Theorem machine_chunking_invariant : forall {X Y St} (step : St -> X -> St * list Y) sizes st xs,
  run_chunks step st (cut sizes xs) = run step st xs.
Proof. intros. rewrite run_chunks_concat, cut_concat. reflexivity. Qed.

(* ------------------------------------------------------------------------------------------------ *)
(* 2. Aggregation with one-chunk look-ahead.                                                           *)
Section AggFacts.
  Context {K V A : Type}.
  Variable keq : K -> K -> bool.
  Variable inj : V -> A.
  Variable op : A -> A -> A.
  Notation agg_go := (agg_go keq inj op).
  Notation agg_step := (agg_step keq inj op).

  Lemma agg_go_run : forall c rest p,
    agg_go p (c ++ rest) = snd (run agg_step p c) ++ agg_go (fst (run agg_step p c)) rest.
  Proof.
    induction c as [|[k v] c IH]; intros rest p; cbn [app run]; [reflexivity|].
    destruct p as [[k0 a]|]; cbn [agg_step Model.agg_step Model.agg_go].
    - destruct (keq k k0).
      + specialize (IH rest (Some (k0, op a (inj v)))).
        destruct (run agg_step (Some (k0, op a (inj v))) c) as [s o]. cbn in *. exact IH.
      + specialize (IH rest (Some (k, inj v))).
        destruct (run agg_step (Some (k, inj v)) c) as [s o]. cbn in *. now rewrite IH.
    - specialize (IH rest (Some (k, inj v))).
      destruct (run agg_step (Some (k, inj v)) c) as [s o]. cbn in *. exact IH.
  Qed.

  (* a pending group can be emitted at once when the rest of the stream does not continue it *)
  Lemma agg_go_flush : forall p rest,
    same_group keq p rest = false ->
    agg_go p rest = match p with Some x => [x] | None => [] end ++ agg_go None rest.
  Proof.
    intros [[k0 a]|] rest H; [|reflexivity].
    destruct rest as [|[k v] rest]; [reflexivity|].
    cbn in H. cbn [Model.agg_go]. rewrite H. reflexivity.
  Qed.

  Lemma same_group_concat : forall (p : option (K * A)) c (r : list (list (K * V))),
    c <> [] -> same_group keq p (concat (c :: r)) = same_group keq p c.
  Proof.
    intros p c r Hc. destruct c as [|[k v] c]; [congruence|]. destruct p as [[k0 a]|]; reflexivity.
  Qed.

  Lemma agg_chunks_go : forall cs p,
    Forall (fun c => c <> []) cs -> (cs = [] -> p = None) ->
    concat (agg_chunks keq inj op (same_group keq) p cs) = agg_go p (concat cs).
  Proof.
    induction cs as [|c cs IH]; intros p Hne Hp.
    - rewrite (Hp eq_refl). reflexivity.
    - inversion Hne as [|c' cs' Hc Hcs]; subst.
      cbn [agg_chunks Model.agg_chunks concat].
      rewrite agg_go_run.
      destruct (run agg_step p c) as [p1 out]. cbn [fst snd].
      destruct (same_group keq p1 match cs with n :: _ => n | [] => [] end) eqn:E.
      + cbn [concat]. rewrite IH; [reflexivity | assumption |].
        intros ->. destruct p1 as [[k0 a]|]; cbn in E; discriminate.
      + assert (F : same_group keq p1 (concat cs) = false).
        { destruct cs as [|n cs']; [destruct p1 as [[? ?]|]; reflexivity|].
          inversion Hcs; subst. rewrite same_group_concat; assumption. }
        rewrite (agg_go_flush p1 (concat cs) F).
        cbn [concat]. rewrite IH; [| assumption | reflexivity].
        now rewrite app_assoc.
  Qed.

  Theorem agg_chunking_invariant_lemma : forall sizes rows,
    concat (agg_chunks keq inj op (same_group keq) None (cut sizes rows)) = agg_spec keq inj op rows.
  Proof.
    intros. rewrite agg_chunks_go; [now rewrite cut_concat | apply cut_nonempty | reflexivity].
  Qed.
End AggFacts.

(* the look-ahead is needed: a look-ahead that never reports a continuation splits a group at a chunk boundary *)
Example agg_lookahead_needed :
  concat (agg_chunks Z.eqb (fun v : Z => v) Z.add (fun _ _ => false) None [[(1%Z, 2%Z)]; [(1%Z, 3%Z)]])
  <> agg_spec Z.eqb (fun v : Z => v) Z.add [(1%Z, 2%Z); (1%Z, 3%Z)].
Proof. vm_compute. discriminate. Qed.

(* ------------------------------------------------------------------------------------------------ *)
(* 3. limit / offset over a chunked stream                                                             *)
Local Open Scope nat_scope.
Lemma limit_run : forall {X} (off lim : nat) (xs : list X) seen,
  snd (run (limit_step off lim) seen xs) = firstn (lim - (seen - off)) (skipn (off - seen) xs).
Proof.
  intros X off lim xs. induction xs as [|x xs IH]; intros seen.
  - cbn. now rewrite skipn_nil, firstn_nil.
  - cbn [run limit_step]. specialize (IH (S seen)).
    destruct (run (limit_step off lim) (S seen) xs) as [s o]. cbn [snd] in *. rewrite IH.
    destruct (Nat.leb off seen) eqn:E1; cbn [andb].
    + apply Nat.leb_le in E1.
      replace (off - seen) with 0 by lia. replace (off - S seen) with 0 by lia. cbn [skipn].
      destruct (Nat.ltb seen (off + lim)) eqn:E2.
      * apply Nat.ltb_lt in E2. replace (lim - (seen - off)) with (S (lim - (S seen - off))) by lia. reflexivity.
      * apply Nat.ltb_ge in E2. replace (lim - (seen - off)) with 0 by lia.
        replace (lim - (S seen - off)) with 0 by lia. reflexivity.
    + apply Nat.leb_gt in E1.
      replace (off - seen) with (S (off - S seen)) by lia. cbn [skipn app].
      replace (S seen - off) with 0 by lia. replace (seen - off) with 0 by lia. reflexivity.
Qed.

Theorem limit_chunking_invariant_lemma : forall {X} (off lim : nat) sizes (xs : list X),
  snd (run_chunks (limit_step off lim) 0 (cut sizes xs)) = firstn lim (skipn off xs).
Proof.
  intros. rewrite machine_chunking_invariant, limit_run.
  cbn. now rewrite !Nat.sub_0_r.
Qed.

(* ------------------------------------------------------------------------------------------------ *)
(* 4. fill: the machine over the existing bucket rows of one group, then the tail, equals the L1
      definition (enumerate every bucket of the range, then fill cell-wise)                           *)
Lemma fill_rows_app : forall m aggs a b prev,
  fill_rows m aggs prev (a ++ b) =
  fill_rows m aggs prev a ++
  fill_rows m aggs (fold_left (fun p r => snd (fill_cells m aggs p (snd r))) a prev) b.
Proof.
  induction a as [|[t cs] a IH]; intros b prev; cbn [app fill_rows fold_left snd]; [reflexivity|].
  destruct (fill_cells m aggs prev cs) as [out p2] eqn:E. cbn [snd]. rewrite IH. reflexivity.
Qed.

Theorem fill_chunking_invariant_lemma : forall i m aggs sizes st rows,
  run_chunks (fill_step i m aggs) st (cut sizes rows) = run (fill_step i m aggs) st rows.
Proof. intros. apply machine_chunking_invariant. Qed.

(* ------------------------------------------------------------------------------------------------ *)
(* 5. partial aggregates: independence of the partition of the input over parallel readers            *)
Section Monoid.
  Context {A : Type}.
  Variable op : A -> A -> A.
  Variable e : A.
  Hypothesis op_assoc : forall a b c, op a (op b c) = op (op a b) c.
  Hypothesis op_comm : forall a b, op a b = op b a.
  Hypothesis op_unit : forall a, op e a = a.

  Definition mfold (l : list A) : A := fold_right op e l.

  Lemma mfold_app : forall a b, mfold (a ++ b) = op (mfold a) (mfold b).
  Proof.
    unfold mfold. induction a as [|x a IH]; intros b; cbn [app fold_right].
    - symmetry. apply op_unit.
    - rewrite IH. apply op_assoc.
  Qed.

  Lemma mfold_perm : forall a b, Permutation a b -> mfold a = mfold b.
  Proof.
    unfold mfold. induction 1; cbn [fold_right].
    - reflexivity.
    - now f_equal.
    - rewrite !op_assoc. f_equal. apply op_comm.
    - etransitivity; eassumption.
  Qed.

  Lemma mfold_concat : forall parts, mfold (map mfold parts) = mfold (concat parts).
  Proof.
    induction parts as [|p parts IH]; cbn [map concat]; [reflexivity|].
    rewrite mfold_app. rewrite <- IH. reflexivity.
  Qed.

  (* any partition (and any order inside and between the parts) of the same multiset gives the same aggregate *)
  Theorem split_invariant_monoid : forall parts all,
    Permutation (concat parts) all -> mfold (map mfold parts) = mfold all.
  Proof. intros. rewrite mfold_concat. now apply mfold_perm. Qed.

  (* reading the stream backwards (descending scan) gives the same aggregate *)
  Lemma mfold_rev : forall l, mfold (rev l) = mfold l.
  Proof. intros. apply mfold_perm. apply Permutation_sym, Permutation_rev. Qed.
End Monoid.

(* the partial-aggregate monoids of the core functions *)
(* count, sum: (Z, +, 0); mean: pairs (sum, count) *)
Definition pair_add (a b : Z * Z) : Z * Z := (fst a + fst b, snd a + snd b)%Z.
Lemma pair_add_assoc : forall a b c, pair_add a (pair_add b c) = pair_add (pair_add a b) c.
Proof. intros [] [] []; unfold pair_add; cbn; f_equal; lia. Qed.
Lemma pair_add_comm : forall a b, pair_add a b = pair_add b a.
Proof. intros [] []; unfold pair_add; cbn; f_equal; lia. Qed.
Lemma pair_add_unit : forall a, pair_add (0, 0)%Z a = a.
Proof. intros []; unfold pair_add; cbn; f_equal; lia. Qed.

(* selectors: option point with the preference relation of Model.better; None is the unit *)
Definition sel_op (fn : aggfn) (a b : option point) : option point :=
  match a, b with
  | None, _ => b
  | _, None => a
  | Some x, Some y => if better fn y x then Some y else if better fn x y then Some x
                      else Some x
  end.

Lemma better_total_min : forall x y : point, better FMin x y = false -> better FMin y x = false -> x = y.
Proof.
  intros [t v] [t' v']; unfold better; cbn [fst snd]; intros H1 H2.
  apply orb_false_iff in H1 as [A1 B1]. apply orb_false_iff in H2 as [A2 B2].
  apply Z.ltb_ge in A1, A2. assert (v = v') by lia. subst.
  rewrite Z.eqb_refl in B1, B2. cbn in B1, B2. apply Z.ltb_ge in B1, B2. f_equal; lia.
Qed.

(* ------------------------------------------------------------------------------------------------ *)
(* 6. k-way merge: sorted, and a permutation of the inputs                                             *)
Lemma merge2_perm : forall a b, Permutation (merge2 a b) (a ++ b).
Proof.
  induction a as [|x a IHa]; intros b.
  - destruct b; cbn; apply Permutation_refl.
  - induction b as [|y b IHb].
    + cbn. rewrite app_nil_r. apply Permutation_refl.
    + cbn [merge2]. destruct (arow_leb x y).
      * cbn [app]. constructor. apply IHa.
      * change (Permutation (y :: merge2 (x :: a) b) ((x :: a) ++ y :: b)).
        eapply Permutation_trans; [constructor; apply IHb|].
        apply Permutation_middle.
Qed.

Theorem merge_k_perm : forall ls, Permutation (merge_k ls) (concat ls).
Proof.
  induction ls as [|l ls IH]; cbn; [constructor|].
  eapply Permutation_trans; [apply merge2_perm|]. now apply Permutation_app_head.
Qed.

(* -- sortedness of the merge *)
Local Open Scope Z_scope.
Lemma cell_compare_antisym : forall a b, cell_compare b a = CompOpp (cell_compare a b).
Proof.
  intros [|x|n d] [|y|n' d']; cbn; try reflexivity.
  - apply Z.compare_antisym.
  - rewrite (Z.compare_antisym n n'). destruct (n ?= n'); cbn; try reflexivity. apply Z.compare_antisym.
Qed.

Lemma cells_compare_antisym : forall a b, cells_compare b a = CompOpp (cells_compare a b).
Proof.
  induction a as [|x a IH]; intros [|y b]; cbn; try reflexivity.
  rewrite (cell_compare_antisym x y). destruct (cell_compare x y); cbn; auto.
Qed.

Lemma arow_compare_antisym : forall a b, arow_compare b a = CompOpp (arow_compare a b).
Proof.
  intros [t c] [t' c']; unfold arow_compare; cbn [fst snd].
  rewrite (Z.compare_antisym t t'). destruct (t ?= t'); cbn; try reflexivity. apply cells_compare_antisym.
Qed.

Lemma arow_leb_total : forall a b, arow_leb a b = false -> arow_leb b a = true.
Proof.
  intros a b. unfold arow_leb. rewrite (arow_compare_antisym a b).
  destruct (arow_compare a b); cbn; congruence.
Qed.

Definition row_le (a b : arow) : Prop := arow_leb a b = true.

Lemma merge2_cons : forall x a y b,
  merge2 (x :: a) (y :: b) = if arow_leb x y then x :: merge2 a (y :: b) else y :: merge2 (x :: a) b.
Proof. reflexivity. Qed.
Lemma merge2_nil_r : forall a, merge2 a [] = a.
Proof. destruct a; reflexivity. Qed.

Lemma merge2_hdrel : forall z a b, HdRel row_le z a -> HdRel row_le z b -> HdRel row_le z (merge2 a b).
Proof.
  intros z a b Ha Hb. destruct a as [|x a]; [destruct b; exact Hb|].
  destruct b as [|y b]; [rewrite merge2_nil_r; exact Ha|].
  rewrite merge2_cons. destruct (arow_leb x y); constructor.
  - now inversion Ha.
  - now inversion Hb.
Qed.

Lemma merge2_sorted : forall a b, Sorted row_le a -> Sorted row_le b -> Sorted row_le (merge2 a b).
Proof.
  induction a as [|x a IHa]; intros b Sa Sb; [destruct b; exact Sb|].
  induction b as [|y b IHb]; [rewrite merge2_nil_r; exact Sa|].
  rewrite merge2_cons. destruct (arow_leb x y) eqn:E.
  - inversion Sa; subst. constructor; [apply IHa; assumption|].
    apply merge2_hdrel; [assumption | constructor; exact E].
  - inversion Sb; subst. constructor; [apply IHb; assumption|].
    apply merge2_hdrel; [constructor; apply arow_leb_total; exact E | assumption].
Qed.

Theorem merge_k_sorted : forall ls, Forall (Sorted row_le) ls -> Sorted row_le (merge_k ls).
Proof.
  induction ls as [|l ls IH]; intros H; cbn; [constructor|].
  inversion H; subst. apply merge2_sorted; auto.
Qed.

(* ------------------------------------------------------------------------------------------------ *)
(* 7. descending = ascending reversed, for the reference semantics (queries without limit/offset)     *)
Definition set_desc (q : query) (d : bool) : query :=
  mkQ (q_sel q) (q_tmin q) (q_tmax q) (q_pred q) (q_group q) (q_interval q) (q_fill q) (q_limit q) (q_offset q) d.

Definition rev_answer (a : answer) : answer := rev (map (fun g => (fst g, rev (snd g))) a).

Lemma group_rows_desc : forall q ms,
  group_rows false (set_desc q true) ms = rev (group_rows false (set_desc q false) ms).
Proof.
  intros q ms. unfold group_rows. cbn [q_sel set_desc q_desc].
  destruct (q_sel q) as [cols|aggs]; [reflexivity|].
  unfold agg_group. cbn [q_interval q_tmin q_desc q_fill set_desc andb].
  change (agg_cols_of (set_desc q true) aggs ms) with (agg_cols_of (set_desc q false) aggs ms).
  change (lo_of (set_desc q true)) with (lo_of (set_desc q false)).
  change (hi_of (set_desc q true)) with (hi_of (set_desc q false)).
  destruct (q_interval q =? 0).
  - destruct (forallb is_null _); reflexivity.
  - destruct (prefill_rows _ _); [reflexivity|].
    destruct (q_fill q); reflexivity.
Qed.

Definition nonempty {X Y} (g : X * list Y) : bool := match snd g with [] => false | _ => true end.

Lemma nonempty_rev : forall {X} (k : X) (l : list arow), nonempty (k, rev l) = nonempty (k, l).
Proof.
  intros X k [|a l]; [reflexivity|]. unfold nonempty. cbn [snd rev].
  destruct (rev l ++ [a]) eqn:E; [|reflexivity].
  apply app_eq_nil in E. destruct E; discriminate.
Qed.

Lemma filter_map_rev_rows : forall {X} (f : X -> list arow) (ks : list X),
  filter nonempty (map (fun k => (k, rev (f k))) ks) =
  map (fun g => (fst g, rev (snd g))) (filter nonempty (map (fun k => (k, f k)) ks)).
Proof.
  intros X f. induction ks as [|k ks IH]; [reflexivity|].
  cbn [map filter]. rewrite nonempty_rev.
  destruct (nonempty (k, f k)); cbn [map fst snd]; rewrite IH; reflexivity.
Qed.

Theorem desc_is_rev_asc_lemma : forall db q,
  has_limit q = false ->
  eval_query db (set_desc q true) = rev_answer (eval_query db (set_desc q false)).
Proof.
  intros db q HL. unfold eval_query, eval_gen.
  change (has_limit (set_desc q true)) with (has_limit q).
  change (has_limit (set_desc q false)) with (has_limit q). rewrite HL.
  cbn [q_desc set_desc].
  change (keys_of (set_desc q true) db) with (keys_of (set_desc q false) db).
  unfold rev_answer. f_equal.
  rewrite (map_ext (fun k => (k, group_rows false (set_desc q true) (members (set_desc q true) db k)))
                   (fun k => (k, rev (group_rows false (set_desc q false) (members (set_desc q false) db k))))).
  - apply (filter_map_rev_rows (fun k => group_rows false (set_desc q false) (members (set_desc q false) db k))).
  - intros k. rewrite group_rows_desc. reflexivity.
Qed.

(* ------------------------------------------------------------------------------------------------ *)
(* 8. operator-level fill of one group: independent of the chunking                                    *)
Lemma fill_group_chunks_invariant_lemma : forall i first last m aggs chunks,
  fill_group_chunks i first last m aggs chunks = fill_group_chunks i first last m aggs [concat chunks].
Proof.
  intros. unfold fill_group_chunks. rewrite !run_chunks_concat. cbn [concat]. now rewrite app_nil_r.
Qed.

(* 9. split path of a descending query: the repaired sub-chunk windows cover every window of the group *)
Local Open Scope nat_scope.
Lemma subchunks_repaired_cover : forall size cs k,
  0 < cs -> k < size -> covered in_subchunk_repaired size cs k = true.
Proof.
  intros size cs k Hcs Hk. unfold covered. apply existsb_exists. exists (k / cs). split.
  - apply in_seq. split; [lia|]. cbn [plus]. unfold subchunks.
    assert (k / cs <= (size - 1) / cs) by (apply Nat.div_le_mono; lia).
    replace (size + cs - 1) with ((size - 1) + 1 * cs) by lia.
    rewrite Nat.div_add by lia. lia.
  - unfold in_subchunk_repaired. apply andb_true_iff. split.
    + apply Nat.leb_le. rewrite Nat.mul_comm. apply Nat.mul_div_le. lia.
    + apply Nat.ltb_lt. replace (k / cs + 1) with (S (k / cs)) by lia.
      rewrite Nat.mul_comm. apply Nat.mul_succ_div_gt. lia.
Qed.

(* ------------------------------------------------------------------------------------------------ *)
(* 10. the row order is a total order: sorted permutations are unique, hence merge_k = sort_rows        *)
Local Open Scope Z_scope.
Lemma cell_compare_eq : forall a b, cell_compare a b = Eq -> a = b.
Proof.
  intros [|x|n d] [|y|n' d']; cbn; try discriminate; try reflexivity.
  - intros H. apply Z.compare_eq in H. now subst.
  - destruct (n ?= n') eqn:E; try discriminate. intros H.
    apply Z.compare_eq in E. apply Z.compare_eq in H. now subst.
Qed.

Lemma cells_compare_eq : forall a b, cells_compare a b = Eq -> a = b.
Proof.
  induction a as [|x a IH]; intros [|y b]; cbn; try discriminate; [reflexivity|].
  destruct (cell_compare x y) eqn:E; try discriminate. intros H.
  apply cell_compare_eq in E. apply IH in H. now subst.
Qed.

Lemma arow_compare_eq : forall a b, arow_compare a b = Eq -> a = b.
Proof.
  intros [t c] [t' c']. unfold arow_compare. cbn [fst snd].
  destruct (t ?= t') eqn:E; try discriminate. intros H.
  apply Z.compare_eq in E. apply cells_compare_eq in H. now subst.
Qed.

Lemma cell_compare_refl : forall a, cell_compare a a = Eq.
Proof. intros [|x|n d]; cbn; rewrite ?Z.compare_refl; reflexivity. Qed.

(* transitivity of the comparisons, outcome by outcome *)
Lemma Zcmp_trans : forall a b c x, (a ?= b) = x -> (b ?= c) = x -> (a ?= c) = x.
Proof.
  intros a b c [] H1 H2.
  - apply Z.compare_eq_iff in H1. apply Z.compare_eq_iff in H2. apply Z.compare_eq_iff. congruence.
  - apply Z.compare_lt_iff in H1. apply Z.compare_lt_iff in H2. apply Z.compare_lt_iff.
    eapply Z.lt_trans; eassumption.
  - apply Z.compare_gt_iff in H1. apply Z.compare_gt_iff in H2. apply Z.compare_gt_iff.
    eapply Z.lt_trans; eassumption.
Qed.

(* one lexicographic step over Z keys *)
Lemma lex_step_trans : forall (a b c : Z) (r1 r2 r3 x : comparison),
  (r1 = x -> r2 = x -> r3 = x) ->
  match a ?= b with Eq => r1 | o => o end = x ->
  match b ?= c with Eq => r2 | o => o end = x ->
  match a ?= c with Eq => r3 | o => o end = x.
Proof.
  intros a b c r1 r2 r3 x IH H1 H2.
  destruct (a ?= b) eqn:E1; destruct (b ?= c) eqn:E2.
  - apply Z.compare_eq_iff in E1. apply Z.compare_eq_iff in E2. rewrite E1, E2, Z.compare_refl. auto.
  - apply Z.compare_eq_iff in E1. rewrite E1, E2. exact H2.
  - apply Z.compare_eq_iff in E1. rewrite E1, E2. exact H2.
  - apply Z.compare_eq_iff in E2. rewrite <- E2, E1. exact H1.
  - rewrite (Zcmp_trans a b c Lt E1 E2). exact H1.
  - congruence.
  - apply Z.compare_eq_iff in E2. rewrite <- E2, E1. exact H1.
  - congruence.
  - rewrite (Zcmp_trans a b c Gt E1 E2). exact H1.
Qed.

Lemma cell_compare_trans : forall a b c x,
  cell_compare a b = x -> cell_compare b c = x -> cell_compare a c = x.
Proof.
  intros [|p|n d] [|q|n' d'] [|r|n'' d''] x; cbn; intros H1 H2; subst; try congruence; try reflexivity.
  - eapply Zcmp_trans; [reflexivity|]. now symmetry.
  - eapply (lex_step_trans n n' n'' (d ?= d') (d' ?= d'') (d ?= d'')); [| reflexivity | now symmetry].
    intros A B. eapply Zcmp_trans; eassumption.
Qed.

Lemma cell_compare_eq_l : forall a b c, cell_compare a b = Eq -> cell_compare a c = cell_compare b c.
Proof. intros a b c H. apply cell_compare_eq in H. now subst. Qed.

Lemma cells_compare_trans : forall a b c x,
  cells_compare a b = x -> cells_compare b c = x -> cells_compare a c = x.
Proof.
  induction a as [|p a IH]; intros [|q b] [|r c] x; cbn; intros H1 H2; subst; try congruence; try reflexivity.
  destruct (cell_compare p q) eqn:E1; destruct (cell_compare q r) eqn:E2.
  - rewrite (cell_compare_trans p q r Eq E1 E2). eapply IH; [reflexivity | now symmetry].
  - apply cell_compare_eq in E1. subst. rewrite E2. now symmetry.
  - apply cell_compare_eq in E1. subst. rewrite E2. now symmetry.
  - apply cell_compare_eq in E2. subst. rewrite E1. reflexivity.
  - rewrite (cell_compare_trans p q r Lt E1 E2). reflexivity.
  - congruence.
  - apply cell_compare_eq in E2. subst. rewrite E1. reflexivity.
  - congruence.
  - rewrite (cell_compare_trans p q r Gt E1 E2). reflexivity.
Qed.

Lemma arow_compare_trans : forall a b c x,
  arow_compare a b = x -> arow_compare b c = x -> arow_compare a c = x.
Proof.
  intros [t1 c1] [t2 c2] [t3 c3] x. unfold arow_compare. cbn [fst snd]. intros H1 H2.
  eapply (lex_step_trans t1 t2 t3); [| exact H1 | exact H2].
  intros A B. eapply cells_compare_trans; eassumption.
Qed.

Lemma arow_leb_trans : forall a b c, row_le a b -> row_le b c -> row_le a c.
Proof.
  unfold row_le, arow_leb. intros a b c H1 H2.
  destruct (arow_compare a b) eqn:E1; try discriminate; destruct (arow_compare b c) eqn:E2; try discriminate.
  - now rewrite (arow_compare_trans a b c Eq E1 E2).
  - apply arow_compare_eq in E1. subst. now rewrite E2.
  - apply arow_compare_eq in E2. subst. now rewrite E1.
  - now rewrite (arow_compare_trans a b c Lt E1 E2).
Qed.

Lemma arow_leb_antisym : forall a b, row_le a b -> row_le b a -> a = b.
Proof.
  unfold row_le, arow_leb. intros a b H1 H2. rewrite (arow_compare_antisym a b) in H2.
  destruct (arow_compare a b) eqn:E; cbn in *; try discriminate.
  now apply arow_compare_eq.
Qed.

Lemma row_le_transitive : Relations_1.Transitive row_le.
Proof. intros a b c. apply arow_leb_trans. Qed.

Lemma sorted_perm_unique : forall l1 l2,
  Sorted row_le l1 -> Sorted row_le l2 -> Permutation l1 l2 -> l1 = l2.
Proof.
  induction l1 as [|x l1 IH]; intros l2 S1 S2 P.
  - apply Permutation_nil in P. now subst.
  - destruct l2 as [|y l2]; [apply Permutation_sym, Permutation_nil in P; discriminate|].
    apply Sorted_StronglySorted in S1; [|exact row_le_transitive].
    apply Sorted_StronglySorted in S2; [|exact row_le_transitive].
    inversion S1 as [|? ? SS1 F1]; subst. inversion S2 as [|? ? SS2 F2]; subst.
    assert (x = y).
    { assert (Ix : In x (y :: l2)) by (eapply Permutation_in; [exact P | now left]).
      assert (Iy : In y (x :: l1)) by (eapply Permutation_in; [apply Permutation_sym; exact P | now left]).
      destruct Ix as [->|Ix]; [reflexivity|]. destruct Iy as [<-|Iy]; [reflexivity|].
      apply arow_leb_antisym.
      - rewrite Forall_forall in F1. now apply F1.
      - rewrite Forall_forall in F2. now apply F2. }
    subst y. f_equal. apply IH.
    + now apply StronglySorted_Sorted.
    + now apply StronglySorted_Sorted.
    + eapply Permutation_cons_inv; exact P.
Qed.

Lemma insert_row_perm : forall x l, Permutation (insert_row x l) (x :: l).
Proof.
  intros x. induction l as [|y l IH]; cbn; [apply Permutation_refl|].
  destruct (arow_leb x y); [apply Permutation_refl|].
  eapply Permutation_trans; [constructor; exact IH | apply perm_swap].
Qed.

Lemma insert_row_hdrel : forall z x l, row_le z x -> HdRel row_le z l -> HdRel row_le z (insert_row x l).
Proof.
  intros z x [|y l] Hx Hl; cbn; [now constructor|].
  destruct (arow_leb x y); constructor; [assumption | now inversion Hl].
Qed.

Lemma insert_row_sorted : forall x l, Sorted row_le l -> Sorted row_le (insert_row x l).
Proof.
  intros x. induction l as [|y l IH]; intros S; cbn; [repeat constructor|].
  destruct (arow_leb x y) eqn:E.
  - constructor; [exact S | constructor; exact E].
  - inversion S; subst. constructor; [now apply IH|].
    apply insert_row_hdrel; [now apply arow_leb_total | assumption].
Qed.

Lemma sort_rows_perm : forall l, Permutation (sort_rows l) l.
Proof.
  induction l as [|x l IH]; cbn; [constructor|].
  eapply Permutation_trans; [apply insert_row_perm | now constructor].
Qed.

Lemma sort_rows_sorted : forall l, Sorted row_le (sort_rows l).
Proof. induction l as [|x l IH]; cbn; [constructor | now apply insert_row_sorted]. Qed.

(* whatever the partition of the series over readers and whatever the order of the readers: merging the readers'
   sorted streams gives exactly L1's sorted rows *)
Theorem merge_k_eq_sort_rows : forall ls, Forall (Sorted row_le) ls -> merge_k ls = sort_rows (concat ls).
Proof.
  intros ls H. apply sorted_perm_unique.
  - now apply merge_k_sorted.
  - apply sort_rows_sorted.
  - eapply Permutation_trans; [apply merge_k_perm | apply Permutation_sym, sort_rows_perm].
Qed.

Theorem plain_split_invariant_lemma : forall parts all,
  Permutation (concat parts) all ->
  merge_k (map sort_rows parts) = sort_rows all.
Proof.
  intros parts all P. rewrite merge_k_eq_sort_rows.
  - apply sorted_perm_unique; try apply sort_rows_sorted.
    eapply Permutation_trans; [apply sort_rows_perm|].
    eapply Permutation_trans; [| apply Permutation_sym, sort_rows_perm].
    eapply Permutation_trans; [| exact P].
    clear P. induction parts as [|p parts IH]; cbn; [constructor|].
    apply Permutation_app; [apply sort_rows_perm | exact IH].
  - apply Forall_forall. intros l Hin. apply in_map_iff in Hin. destruct Hin as [p [<- _]]. apply sort_rows_sorted.
Qed.

Lemma flat_map_concat_parts : forall {X Y} (f : X -> list Y) (parts : list (list X)),
  concat (map (flat_map f) parts) = flat_map f (concat parts).
Proof.
  intros X Y f. induction parts as [|p parts IH]; cbn; [reflexivity|].
  now rewrite IH, flat_map_app.
Qed.

(* L2 = L1 for plain selections: each reader sorts the rows of its share of the series, the readers' streams are
   merged; the result is L1's plain_group of all member series, for every partition and every order *)
Theorem plain_pipeline_refines_eval_lemma : forall q cols (parts : list (list series)) ms,
  Permutation (concat parts) ms ->
  merge_k (map (plain_group q cols) parts) = plain_group q cols ms.
Proof.
  intros q cols parts ms P. unfold plain_group.
  rewrite <- (map_map (flat_map (plain_rows_of_series q cols)) sort_rows).
  apply plain_split_invariant_lemma.
  rewrite flat_map_concat_parts. now apply Permutation_flat_map.
Qed.
