From Coq Require Import ZArith List Bool Lia.
From OG Require Import C08.Model.
Import ListNotations.
