(* C08: a genuine descending ordered merge for plain selections.
   Pipe.l2_group_rows modelled a descending plain selection as the ascending merge reversed. Here the readers deliver
   DESCENDING streams (each reader's sorted rows, newest first) and the merge compares with the reversed order, as
   SortedMergeTransform does with opt.Ascending = false; the result is L1's descending answer. *)
From Coq Require Import ZArith List Bool Lia Permutation Sorted.
From OG Require Import C08.Model C08.Proofs.
Import ListNotations.

Definition row_ge (a b : arow) : Prop := row_le b a.

Lemma merge2d_cons : forall x a y b,
  merge2d (x :: a) (y :: b) = if arow_geb x y then x :: merge2d a (y :: b) else y :: merge2d (x :: a) b.
Proof. reflexivity. Qed.
Lemma merge2d_nil_r : forall a, merge2d a [] = a.
Proof. destruct a; reflexivity. Qed.
Lemma merge2d_nil_l : forall b, merge2d [] b = b.
Proof. destruct b; reflexivity. Qed.

Lemma merge2d_perm : forall a b, Permutation (merge2d a b) (a ++ b).
Proof.
  induction a as [|x a IHa]; intros b; [rewrite merge2d_nil_l; apply Permutation_refl|].
  induction b as [|y b IHb]; [rewrite merge2d_nil_r, app_nil_r; apply Permutation_refl|].
  rewrite merge2d_cons. destruct (arow_geb x y).
  - cbn [app]. constructor. apply IHa.
  - eapply Permutation_trans; [constructor; apply IHb|]. apply Permutation_middle.
Qed.

Lemma merge_kd_perm : forall ls, Permutation (merge_kd ls) (concat ls).
Proof.
  induction ls as [|l ls IH]; cbn [merge_kd fold_right concat]; [constructor|].
  eapply Permutation_trans; [apply merge2d_perm|]. now apply Permutation_app_head.
Qed.

Lemma arow_geb_total : forall a b, arow_geb a b = false -> arow_geb b a = true.
Proof. intros a b. unfold arow_geb. apply arow_leb_total. Qed.

Lemma merge2d_hdrel : forall z a b, HdRel row_ge z a -> HdRel row_ge z b -> HdRel row_ge z (merge2d a b).
Proof.
  intros z a b Ha Hb. destruct a as [|x a]; [rewrite merge2d_nil_l; exact Hb|].
  destruct b as [|y b]; [rewrite merge2d_nil_r; exact Ha|].
  rewrite merge2d_cons. destruct (arow_geb x y); constructor; [now inversion Ha | now inversion Hb].
Qed.

Lemma merge2d_sorted : forall a b, Sorted row_ge a -> Sorted row_ge b -> Sorted row_ge (merge2d a b).
Proof.
  induction a as [|x a IHa]; intros b Sa Sb; [rewrite merge2d_nil_l; exact Sb|].
  induction b as [|y b IHb]; [rewrite merge2d_nil_r; exact Sa|].
  rewrite merge2d_cons. destruct (arow_geb x y) eqn:E.
  - inversion Sa; subst. constructor; [apply IHa; assumption|].
    apply merge2d_hdrel; [assumption | constructor; exact E].
  - inversion Sb; subst. constructor; [apply IHb; assumption|].
    apply merge2d_hdrel; [constructor; unfold row_ge, row_le; apply arow_geb_total; exact E | assumption].
Qed.

Lemma merge_kd_sorted : forall ls, Forall (Sorted row_ge) ls -> Sorted row_ge (merge_kd ls).
Proof.
  induction ls as [|l ls IH]; intros H; cbn [merge_kd fold_right]; [constructor|].
  inversion H; subst. apply merge2d_sorted; auto.
Qed.

(* descending sorted = ascending sorted, reversed *)
Lemma row_ge_trans : Relations_1.Transitive row_ge.
Proof. intros a b c H1 H2. unfold row_ge in *. eapply arow_leb_trans; eassumption. Qed.

Lemma sorted_le_snoc : forall l x, Sorted row_le l -> Forall (fun y => row_le y x) l -> Sorted row_le (l ++ [x]).
Proof.
  induction l as [|y l IH]; intros x S F; cbn [app]; [repeat constructor|].
  inversion S as [|? ? S1 H1]; subst. inversion F as [|? ? Hy F1]; subst.
  constructor; [now apply IH|]. destruct l as [|z l]; cbn [app]; constructor; [exact Hy | now inversion H1].
Qed.

Lemma sorted_ge_rev : forall l, Sorted row_ge l -> Sorted row_le (rev l).
Proof.
  induction l as [|x l IH]; intros S; [constructor|].
  apply Sorted_StronglySorted in S; [|exact row_ge_trans]. inversion S as [|? ? SS F]; subst.
  cbn [rev]. apply sorted_le_snoc; [apply IH; now apply StronglySorted_Sorted|].
  apply Forall_forall. intros y Hy. apply in_rev in Hy. rewrite Forall_forall in F. exact (F y Hy).
Qed.

Lemma sorted_ge_snoc : forall l x, Sorted row_ge l -> Forall (fun y => row_ge y x) l -> Sorted row_ge (l ++ [x]).
Proof.
  induction l as [|y l IH]; intros x S F; cbn [app]; [repeat constructor|].
  inversion S as [|? ? S1 H1]; subst. inversion F as [|? ? Hy F1]; subst.
  constructor; [now apply IH|]. destruct l as [|z l]; cbn [app]; constructor; [exact Hy | now inversion H1].
Qed.

Lemma sorted_le_rev : forall l, Sorted row_le l -> Sorted row_ge (rev l).
Proof.
  induction l as [|x l IH]; intros S; [constructor|].
  apply Sorted_StronglySorted in S; [|exact row_le_transitive]. inversion S as [|? ? SS F]; subst.
  cbn [rev]. apply sorted_ge_snoc; [apply IH; now apply StronglySorted_Sorted|].
  apply Forall_forall. intros y Hy. apply in_rev in Hy. rewrite Forall_forall in F. exact (F y Hy).
Qed.

Lemma sorted_ge_perm_unique : forall l1 l2, Sorted row_ge l1 -> Sorted row_ge l2 -> Permutation l1 l2 -> l1 = l2.
Proof.
  intros l1 l2 S1 S2 P. rewrite <- (rev_involutive l1), <- (rev_involutive l2). f_equal.
  apply sorted_perm_unique; try (now apply sorted_ge_rev).
  eapply Permutation_trans; [apply Permutation_sym, Permutation_rev|].
  eapply Permutation_trans; [exact P | apply Permutation_rev].
Qed.

(* the descending merge of the readers' descending streams is the whole sorted row set, newest first *)
Theorem merge_kd_eq_rev_sort : forall ls, Forall (Sorted row_ge) ls -> merge_kd ls = rev (sort_rows (concat ls)).
Proof.
  intros ls H. apply sorted_ge_perm_unique.
  - now apply merge_kd_sorted.
  - apply sorted_le_rev, sort_rows_sorted.
  - eapply Permutation_trans; [apply merge_kd_perm|].
    eapply Permutation_trans; [apply Permutation_sym, sort_rows_perm | apply Permutation_rev].
Qed.

(* L2 = L1 for descending plain selections: every reader hands out its share newest first, the descending merge gives
   L1's descending rows, for every partition of the member series over readers *)
Theorem plain_pipeline_desc_lemma : forall q cols (parts : list (list series)) ms,
  Permutation (concat parts) ms ->
  merge_kd (map (fun p => rev (plain_group q cols p)) parts) = rev (plain_group q cols ms).
Proof.
  intros q cols parts ms P. rewrite merge_kd_eq_rev_sort.
  - f_equal. unfold plain_group. apply sorted_perm_unique; try apply sort_rows_sorted.
    eapply Permutation_trans; [apply sort_rows_perm|].
    eapply Permutation_trans; [|apply Permutation_sym, sort_rows_perm].
    assert (Q : Permutation (concat (map (fun p => rev (sort_rows (flat_map (plain_rows_of_series q cols) p))) parts))
                            (flat_map (plain_rows_of_series q cols) (concat parts))).
    { clear P. induction parts as [|p parts IH]; cbn [map concat]; [constructor|].
      rewrite flat_map_app. apply Permutation_app; [|exact IH].
      eapply Permutation_trans; [apply Permutation_sym, Permutation_rev | apply sort_rows_perm]. }
    eapply Permutation_trans; [exact Q|]. now apply Permutation_flat_map.
  - apply Forall_forall. intros l Hl. apply in_map_iff in Hl. destruct Hl as [p [<- _]].
    apply sorted_le_rev, sort_rows_sorted.
Qed.
