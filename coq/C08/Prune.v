(* C08: series pruning under LIMIT (engine/iterators.go itrsInitWithLimit + topNLinkedList).
   For `SELECT * .. LIMIT n OFFSET o` without GROUP BY the store keeps only m = n + o series per reader, ranked by a key
   (seriesCursor.limitFirstTime) that is meant to be the time of the series' first returned row. The answer is the first m
   rows of the ordered merge. This file states when dropping series is unobservable, proves it for the repaired rule
   (a series whose key lies outside the query's time range is never dropped, the others are ranked by their exact first
   time) and refutes today's rule (key = bound of the first overlapping chunk, not clipped to the range). *)
From Coq Require Import ZArith List Bool Lia Permutation Sorted.
From OG Require Import C08.Model C08.Proofs.
Import ListNotations.
Local Open Scope Z_scope.

(* number of rows of l strictly before d in the row order *)
Definition nlt (d : arow) (l : list arow) : nat := length (filter (fun k => negb (arow_leb d k)) l).

Lemma nlt_app : forall d a b, nlt d (a ++ b) = (nlt d a + nlt d b)%nat.
Proof. intros. unfold nlt. now rewrite filter_app, app_length. Qed.

Lemma nlt_perm : forall d a b, Permutation a b -> nlt d a = nlt d b.
Proof.
  intros d a b P. unfold nlt. induction P; cbn.
  - reflexivity.
  - destruct (negb (arow_leb d x)); cbn; now rewrite IHP.
  - destruct (negb (arow_leb d x)), (negb (arow_leb d y)); reflexivity.
  - congruence.
Qed.

Lemma nlt_all_ge : forall d S, (forall z, In z S -> arow_leb d z = true) -> nlt d S = 0%nat.
Proof.
  intros d. unfold nlt. induction S as [|y S IH]; intros F; [reflexivity|]. cbn.
  rewrite (F y (or_introl eq_refl)). cbn. apply IH. intros z Hz. apply F. now right.
Qed.

Lemma nlt_sorted_head : forall d s S, Sorted row_le (s :: S) -> arow_leb d s = true -> nlt d (s :: S) = 0%nat.
Proof.
  intros d s S HS Hd. apply Sorted_StronglySorted in HS; [|exact row_le_transitive].
  inversion HS as [|? ? SS0 F]; subst. rewrite Forall_forall in F.
  apply nlt_all_ge. intros z [<-|Hz]; [exact Hd|]. eapply arow_leb_trans; [exact Hd | now apply F].
Qed.

(* inserting a row that has at least n rows strictly before it does not change the first n rows *)
Lemma firstn_insert_row : forall d S n, Sorted row_le S -> (n <= nlt d S)%nat -> firstn n (insert_row d S) = firstn n S.
Proof.
  intros d. induction S as [|s S IH]; intros n HS Hn.
  - unfold nlt in Hn. cbn in Hn. assert (n = 0%nat) by lia. subst. reflexivity.
  - cbn [insert_row]. destruct (arow_leb d s) eqn:E.
    + rewrite (nlt_sorted_head d s S HS E) in Hn. assert (n = 0%nat) by lia. subst. reflexivity.
    + destruct n as [|n]; [reflexivity|]. cbn [firstn]. f_equal. apply IH.
      * now inversion HS.
      * unfold nlt in *. cbn in Hn. rewrite E in Hn. cbn in Hn. lia.
Qed.

Lemma firstn_sort_app : forall n D K,
  (forall d, In d D -> (n <= nlt d K)%nat) -> firstn n (sort_rows (D ++ K)) = firstn n (sort_rows K).
Proof.
  intros n. induction D as [|d D IH]; intros K H; [reflexivity|].
  cbn [app sort_rows fold_right]. fold (sort_rows (D ++ K)).
  rewrite firstn_insert_row.
  - apply IH. intros x Hx. apply H. now right.
  - apply sort_rows_sorted.
  - rewrite (nlt_perm d _ _ (sort_rows_perm (D ++ K))), nlt_app. specialize (H d (or_introl eq_refl)). lia.
Qed.

Lemma sort_rows_perm_eq : forall a b, Permutation a b -> sort_rows a = sort_rows b.
Proof.
  intros a b P. apply sorted_perm_unique; try apply sort_rows_sorted.
  eapply Permutation_trans; [apply sort_rows_perm|]. eapply Permutation_trans; [exact P|]. apply Permutation_sym, sort_rows_perm.
Qed.

(* the answer of `LIMIT m` (m = limit + offset rows are needed) over a set of series *)
Definition limit_answer (m : nat) (ss : list (list arow)) : list arow := firstn m (sort_rows (concat ss)).

(* GENERAL CRITERION: dropping series is unobservable when every dropped row has at least m kept rows strictly before it *)
Theorem prune_unobservable : forall m kept dropped,
  (forall d, In d (concat dropped) -> (m <= nlt d (concat kept))%nat) ->
  limit_answer m (kept ++ dropped) = limit_answer m kept.
Proof.
  intros m kept dropped H. unfold limit_answer.
  rewrite (sort_rows_perm_eq (concat (kept ++ dropped)) (concat dropped ++ concat kept)).
  - now apply firstn_sort_app.
  - rewrite concat_app. apply Permutation_app_comm.
Qed.

(* exact key of a series: the time of its first returned row *)
Definition first_time (s : list arow) : Z := match s with [] => 0 | r :: _ => fst r end.

Lemma sorted_first_time_le : forall s x, Sorted row_le s -> In x s -> first_time s <= fst x.
Proof.
  intros [|r s] x HS Hx; [destruct Hx|]. cbn.
  apply Sorted_StronglySorted in HS; [|exact row_le_transitive]. inversion HS as [|? ? SS0 F]; subst.
  destruct Hx as [->|Hx]; [lia|]. rewrite Forall_forall in F. specialize (F x Hx).
  unfold row_le, arow_leb, arow_compare in F.
  destruct (Z.compare_spec (fst r) (fst x)); [lia | lia | cbn in F; discriminate].
Qed.

Lemma lt_time_nleb : forall a b : arow, fst a < fst b -> arow_leb b a = false.
Proof.
  intros a b H. unfold arow_leb, arow_compare. apply Z.compare_gt_iff in H. now rewrite H.
Qed.

(* every ranked series contributes its first row *)
Lemma nlt_ranked : forall x ranked,
  Forall (fun s => s <> [] /\ first_time s < fst x) ranked -> (length ranked <= nlt x (concat ranked))%nat.
Proof.
  intros x. induction ranked as [|s ranked IH]; intros F; [cbn; lia|].
  inversion F as [|? ? [Hne Hlt] F']; subst. cbn [concat length]. rewrite nlt_app. specialize (IH F').
  destruct s as [|r s]; [congruence|]. unfold nlt at 1. cbn [filter]. cbn in Hlt. rewrite (lt_time_nleb r x Hlt). cbn. lia.
Qed.

(* REPAIRED RULE, relational form: the kept series are `ranked` (key = exact first time, at least m of them unless nothing
   is dropped) and `unranked` (key outside the range: first time unknown, never dropped); only series with an exact key
   that is not smaller than the key of any kept ranked series are dropped. Rows of different series at the same instant
   are excluded (their order is finding C08-tie-order). *)
Theorem prune_repaired_sound : forall m ranked unranked dropped,
  Forall (Sorted row_le) dropped ->
  Forall (fun s => s <> []) ranked ->
  NoDup (map fst (concat (ranked ++ unranked ++ dropped))) ->
  (m <= length ranked)%nat ->
  (forall k d, In k ranked -> In d dropped -> first_time k <= first_time d) ->
  limit_answer m (ranked ++ unranked ++ dropped) = limit_answer m (ranked ++ unranked).
Proof.
  intros m ranked unranked dropped HS Hne ND Hm Hkey.
  rewrite app_assoc. apply prune_unobservable. intros x Hx.
  apply in_concat in Hx. destruct Hx as [d [Hd Hxd]].
  rewrite concat_app, nlt_app.
  assert (length ranked <= nlt x (concat ranked))%nat; [|lia].
  apply nlt_ranked. rewrite Forall_forall in *. intros k Hk. split; [now apply Hne|].
  assert (Hle : first_time k <= fst x).
  { specialize (Hkey k d Hk Hd). pose proof (sorted_first_time_le d x (HS d Hd) Hxd). lia. }
  destruct (Z.eq_dec (first_time k) (fst x)) as [E|]; [|lia]. exfalso.
  (* the first row of k and x are two different positions of the NoDup list with the same time *)
  specialize (Hne k Hk). destruct k as [|r k]; [congruence|]. cbn in E.
  apply in_split in Hk. destruct Hk as [r1 [r2 ->]]. apply in_split in Hd. destruct Hd as [d1 [d2 ->]].
  apply in_split in Hxd. destruct Hxd as [x1 [x2 ->]].
  revert ND. repeat (rewrite ?concat_app, ?map_app; cbn [concat map]). rewrite <- !app_assoc. cbn [app].
  intros ND. apply NoDup_remove_2 in ND. apply ND. rewrite E.
  do 6 (apply in_or_app; right). now left.
Qed.

(* ---------------------------------------------------------------------------------------------------------------- *)
(* algorithmic form: series with keys; keep the m smallest keys (topNLinkedList) *)

Definition kseries := (Z * list arow)%type.
Fixpoint ins_key (x : kseries) (l : list kseries) : list kseries :=
  match l with
  | [] => [x]
  | y :: r => if fst x <? fst y then x :: l else y :: ins_key x r
  end.
Definition by_key (ks : list kseries) : list kseries := fold_right ins_key [] ks.

(* today: every series is ranked by the bound of its first overlapping chunk *)
Definition prune_current (m : nat) (ks : list kseries) : list (list arow) := map snd (firstn m (by_key ks)).
(* repaired: a key below the range's lower bound `lo` is not a first time; such a series is kept *)
Definition prune_ranked (p : kseries -> bool) (m : nat) (ks : list kseries) : list (list arow) :=
  map snd (firstn m (by_key (filter p ks))) ++ map snd (filter (fun k => negb (p k)) ks).
Definition prune_repaired (lo : Z) : nat -> list kseries -> list (list arow) := prune_ranked (fun k => lo <=? fst k).

Lemma ins_key_perm : forall x l, Permutation (ins_key x l) (x :: l).
Proof.
  intros x. induction l as [|y l IH]; cbn; [apply Permutation_refl|].
  destruct (fst x <? fst y); [apply Permutation_refl|].
  eapply Permutation_trans; [constructor; exact IH | apply perm_swap].
Qed.
Lemma by_key_perm : forall l, Permutation (by_key l) l.
Proof.
  induction l as [|x l IH]; cbn; [constructor|].
  eapply Permutation_trans; [apply ins_key_perm | now constructor].
Qed.
Definition key_le (a b : kseries) : Prop := fst a <= fst b.
Lemma ins_key_sorted : forall x l, StronglySorted key_le l -> StronglySorted key_le (ins_key x l).
Proof.
  intros x. induction l as [|y l IH]; intros S; cbn; [repeat constructor|].
  inversion S as [|? ? S' F]; subst. destruct (fst x <? fst y) eqn:E.
  - apply Z.ltb_lt in E. constructor; [exact S|]. constructor; [unfold key_le; lia|].
    rewrite Forall_forall in *. intros z Hz. specialize (F z Hz). unfold key_le in *. lia.
  - apply Z.ltb_ge in E. constructor; [now apply IH|].
    rewrite Forall_forall in *. intros z Hz.
    apply (Permutation_in _ (ins_key_perm x l)) in Hz. destruct Hz as [<-|Hz]; [exact E | now apply F].
Qed.
Lemma by_key_sorted : forall l, StronglySorted key_le (by_key l).
Proof. induction l as [|x l IH]; cbn; [constructor | now apply ins_key_sorted]. Qed.

Lemma in_firstn_ : forall A n (l : list A) x, In x (firstn n l) -> In x l.
Proof. intros A n l x H. rewrite <- (firstn_skipn n l). apply in_or_app. now left. Qed.
Lemma in_skipn_ : forall A n (l : list A) x, In x (skipn n l) -> In x l.
Proof. intros A n l x H. rewrite <- (firstn_skipn n l). apply in_or_app. now right. Qed.

Lemma sorted_firstn_skipn : forall m (l : list kseries) a b,
  StronglySorted key_le l -> In a (firstn m l) -> In b (skipn m l) -> key_le a b.
Proof.
  induction m as [|m IH]; intros l a b S Ha Hb; [destruct Ha|].
  destruct l as [|y l]; [destruct Ha|]. inversion S as [|? ? S' F]; subst. cbn in Ha, Hb.
  destruct Ha as [<-|Ha].
  - rewrite Forall_forall in F. apply F. eapply in_skipn_. exact Hb.
  - now apply (IH l).
Qed.

Lemma concat_perm : forall (l l' : list (list arow)), Permutation l l' -> Permutation (concat l) (concat l').
Proof.
  intros l l' P. induction P; cbn.
  - constructor.
  - now apply Permutation_app_head.
  - rewrite !app_assoc. apply Permutation_app_tail, Permutation_app_comm.
  - eapply Permutation_trans; eassumption.
Qed.

Lemma filter_split_perm : forall (p : kseries -> bool) (ks : list kseries),
  Permutation ks (filter p ks ++ filter (fun k => negb (p k)) ks).
Proof.
  intros p. induction ks as [|k ks IH]; cbn; [constructor|].
  destruct (p k); cbn.
  - now constructor.
  - eapply Permutation_trans; [constructor; exact IH|]. apply Permutation_middle.
Qed.

(* algorithmic form: series accepted by `p` are ranked by their key, the others are always kept; the pruned set of series
   gives the same LIMIT answer as all the series provided the key of every RANKED series is its first time *)
Theorem prune_ranked_sound : forall p m ks,
  Forall (fun k => Sorted row_le (snd k) /\ snd k <> []) ks ->
  (forall k, In k ks -> p k = true -> fst k = first_time (snd k)) ->
  NoDup (map fst (concat (map snd ks))) ->
  limit_answer m (prune_ranked p m ks) = limit_answer m (map snd ks).
Proof.
  intros p m ks Hs Hkey ND. unfold prune_ranked.
  set (R := filter p ks). set (U := filter (fun k => negb (p k)) ks).
  assert (PB : Permutation (by_key R) R) by apply by_key_perm.
  assert (Pall : Permutation (map snd ks) (map snd (firstn m (by_key R)) ++ map snd U ++ map snd (skipn m (by_key R)))).
  { eapply Permutation_trans; [apply Permutation_map, (filter_split_perm p)|]. fold R U.
    rewrite map_app. eapply Permutation_trans; [apply Permutation_app_tail, Permutation_map, Permutation_sym, PB|].
    rewrite <- (firstn_skipn m (by_key R)) at 1. rewrite map_app, <- app_assoc.
    apply Permutation_app_head, Permutation_app_comm. }
  assert (HinR : forall k, In k (by_key R) -> In k ks /\ p k = true).
  { intros k Hk. apply (Permutation_in _ PB) in Hk. unfold R in Hk. now apply filter_In in Hk. }
  rewrite Forall_forall in Hs.
  unfold limit_answer at 2. rewrite (sort_rows_perm_eq _ _ (concat_perm _ _ Pall)). fold (limit_answer m (map snd (firstn m (by_key R)) ++ map snd U ++ map snd (skipn m (by_key R)))).
  destruct (Nat.le_gt_cases (length (by_key R)) m) as [Hlen|Hlen].
  { rewrite (skipn_all2 (by_key R) Hlen). cbn [map]. now rewrite app_nil_r. }
  symmetry. apply prune_repaired_sound.
  - rewrite Forall_forall. intros s Hsx. apply in_map_iff in Hsx. destruct Hsx as [k [<- Hk]].
    apply in_skipn_, HinR in Hk. now apply Hs.
  - rewrite Forall_forall. intros s Hsx. apply in_map_iff in Hsx. destruct Hsx as [k [<- Hk]].
    apply in_firstn_, HinR in Hk. now apply Hs.
  - eapply Permutation_NoDup; [|exact ND]. apply Permutation_map, concat_perm. exact Pall.
  - rewrite map_length, firstn_length. apply Nat.min_glb; [apply Nat.le_refl|]. apply Nat.lt_le_incl. exact Hlen.
  - intros s d Hsx Hdx. apply in_map_iff in Hsx. destruct Hsx as [k [<- Hk]]. apply in_map_iff in Hdx. destruct Hdx as [d' [<- Hd]].
    pose proof (sorted_firstn_skipn m (by_key R) k d' (by_key_sorted R) Hk Hd) as Hle. unfold key_le in Hle.
    apply in_firstn_, HinR in Hk. apply in_skipn_, HinR in Hd. destruct Hk as [Hk1 Hk2], Hd as [Hd1 Hd2].
    rewrite <- (Hkey k Hk1 Hk2), <- (Hkey d' Hd1 Hd2). exact Hle.
Qed.

(* REPAIRED RULE: a key inside the range [lo, ..) is the first time of the series (the chunk bound is a stored point) *)
Theorem prune_repaired_alg_sound : forall lo m ks,
  Forall (fun k => Sorted row_le (snd k) /\ snd k <> []) ks ->
  (forall k, In k ks -> lo <= fst k -> fst k = first_time (snd k)) ->
  NoDup (map fst (concat (map snd ks))) ->
  limit_answer m (prune_repaired lo m ks) = limit_answer m (map snd ks).
Proof.
  intros lo m ks Hs Hkey ND. apply prune_ranked_sound; try assumption.
  intros k Hk Hp. apply Hkey; [exact Hk | now apply Z.leb_le].
Qed.

(* CHARACTERISATION of today's rule: it is right whenever every key is a first time - i.e. when no series holds a stored
   point outside the range on the side the scan starts from (sharper signature of C08-limit-prune-time-range) *)
Lemma filter_true : forall (l : list kseries), filter (fun _ => true) l = l.
Proof. induction l as [|x l IH]; cbn; [reflexivity | now rewrite IH]. Qed.
Lemma filter_false : forall (l : list kseries), filter (fun _ => negb true) l = [].
Proof. induction l as [|x l IH]; cbn; [reflexivity | exact IH]. Qed.
Theorem prune_current_sound_exact_keys : forall m ks,
  Forall (fun k => Sorted row_le (snd k) /\ snd k <> []) ks ->
  (forall k, In k ks -> fst k = first_time (snd k)) ->
  NoDup (map fst (concat (map snd ks))) ->
  limit_answer m (prune_current m ks) = limit_answer m (map snd ks).
Proof.
  intros m ks Hs Hkey ND.
  rewrite <- (prune_ranked_sound (fun _ => true) m ks Hs (fun k Hk _ => Hkey k Hk) ND).
  unfold prune_ranked, prune_current. now rewrite filter_true, filter_false, app_nil_r.
Qed.

(* witness: range [10, ..), LIMIT 1. Series A has a point at 0 (outside) in the chunk that also holds its point at 100;
   series B starts at 50. Today A's key is 0, B is dropped and the answer is the row at 100. *)
Definition wA : kseries := (0, [(100, [CVal 1])]).
Definition wB : kseries := (50, [(50, [CVal 2])]).

Theorem prune_current_refuted :
  limit_answer 1 (prune_current 1 [wA; wB]) <> limit_answer 1 (map snd [wA; wB]).
Proof. vm_compute. discriminate. Qed.

Example prune_repaired_witness :
  limit_answer 1 (prune_repaired 10 1 [wA; wB]) = limit_answer 1 (map snd [wA; wB]).
Proof. vm_compute. reflexivity. Qed.
