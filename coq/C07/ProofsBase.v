(* C07 base lemmas: fixed-width integers, zig-zag, uvarint, delta coding. *)
From Coq Require Import ZArith List Bool Lia ZifyBool ZifyNat.
From OG Require Import C07.Model.
Import ListNotations.
Open Scope Z_scope.

(* evaluate every CLOSED comparison in the goal (mode tags against the generated constants) *)
Ltac tagsimp :=
  repeat match goal with
  | |- context [?a =? ?b] =>
      let r := eval vm_compute in (a =? b) in
      match r with true => change (a =? b) with true | false => change (a =? b) with false end
  | |- context [?a <? ?b] =>
      let r := eval vm_compute in (a <? b) in
      match r with true => change (a <? b) with true | false => change (a <? b) with false end
  | |- context [?a <=? ?b] =>
      let r := eval vm_compute in (a <=? b) in
      match r with true => change (a <=? b) with true | false => change (a <=? b) with false end
  end; cbn [negb orb andb]; cbv iota.

Lemma len_nonneg {A} (l : list A) : 0 <= len l.
Proof. unfold len. lia. Qed.
Lemma len_app {A} (a b : list A) : len (a ++ b) = len a + len b.
Proof. unfold len. rewrite app_length. lia. Qed.
Lemma len_cons {A} (x : A) (l : list A) : len (x :: l) = 1 + len l.
Proof. unfold len. simpl length. lia. Qed.

Lemma list_eqb_refl : forall l, list_eqb l l = true.
Proof. induction l; simpl; auto. rewrite Z.eqb_refl. auto. Qed.
Lemma list_eqb_eq : forall a b, list_eqb a b = true -> a = b.
Proof.
  induction a; destruct b; simpl; intros; try discriminate; auto.
  apply andb_true_iff in H. destruct H. apply Z.eqb_eq in H. f_equal; auto.
Qed.

(* ---------- big endian ---------- *)
Lemma be_length : forall n v, length (be n v) = n.
Proof. induction n; simpl; intros; auto. Qed.

Lemma be_bytes_ok : forall n v, bytes_ok (be n v) = true.
Proof.
  induction n; simpl; intros; auto. rewrite IHn. unfold byte_ok.
  pose proof (Z.mod_pos_bound (v / 256 ^ Z.of_nat n) 256). lia.
Qed.

Lemma unbe_be : forall n v acc, 0 <= v -> unbe (be n v) acc = acc * 256 ^ Z.of_nat n + v mod 256 ^ Z.of_nat n.
Proof.
  induction n; intros v acc Hv.
  - simpl. rewrite Z.mod_1_r. lia.
  - cbn [be unbe]. rewrite IHn by assumption.
    replace (Z.of_nat (S n)) with (Z.of_nat n + 1) by lia.
    rewrite Z.pow_add_r by lia. rewrite Z.pow_1_r.
    assert (Hp : 0 < 256 ^ Z.of_nat n) by (apply Z.pow_pos_nonneg; lia).
    rewrite (Z.rem_mul_r v (256 ^ Z.of_nat n) 256) by lia. ring.
Qed.

Lemma unbe_be0 : forall n v, 0 <= v < 256 ^ Z.of_nat n -> unbe (be n v) 0 = v.
Proof. intros. rewrite unbe_be by lia. rewrite Z.mod_small by lia. lia. Qed.

Lemma get_be_app : forall n v rest, 0 <= v < 256 ^ Z.of_nat n -> get_be n (be n v ++ rest) = Some (v, rest).
Proof.
  intros. unfold get_be.
  assert (L : length (be n v) = n) by apply be_length.
  destruct (Nat.ltb_spec (length (be n v ++ rest)) n) as [Hlt|Hge].
  - rewrite app_length in Hlt. lia.
  - rewrite <- L at 1. rewrite firstn_app, Nat.sub_diag, firstn_all. simpl firstn. rewrite app_nil_r.
    rewrite unbe_be0 by assumption.
    rewrite <- L at 1. rewrite skipn_app, Nat.sub_diag, skipn_all. simpl. reflexivity.
Qed.

Lemma get_be_short : forall n l, (length l < n)%nat -> get_be n l = None.
Proof. intros. unfold get_be. destruct (Nat.ltb_spec (length l) n); auto. lia. Qed.

Lemma pow256_4 : 256 ^ Z.of_nat 4 = M32. Proof. reflexivity. Qed.
Lemma pow256_8 : 256 ^ Z.of_nat 8 = M64. Proof. reflexivity. Qed.
Lemma be_len4' : forall v, len (be 4 v) = 4.
Proof. intros. unfold len. rewrite be_length. reflexivity. Qed.
Lemma pow256_2 : 256 ^ Z.of_nat 2 = 65536. Proof. reflexivity. Qed.

(* ---------- little endian ---------- *)
Lemma le_length : forall n v, length (le n v) = n.
Proof. induction n; simpl; intros; auto. Qed.
Lemma le_bytes_ok : forall n v, bytes_ok (le n v) = true.
Proof.
  induction n; simpl; intros; auto. rewrite IHn. unfold byte_ok.
  pose proof (Z.mod_pos_bound v 256). lia.
Qed.
Lemma unle_le : forall n v, 0 <= v < 256 ^ Z.of_nat n -> unle (le n v) = v.
Proof.
  induction n; intros v Hv.
  - simpl in *. lia.
  - cbn [le unle]. replace (Z.of_nat (S n)) with (Z.of_nat n + 1) in Hv by lia.
    rewrite Z.pow_add_r, Z.pow_1_r in Hv by lia.
    rewrite IHn.
    + pose proof (Z.div_mod v 256). lia.
    + split. apply Z.div_pos; lia. apply Z.div_lt_upper_bound; lia.
Qed.

Lemma bytes_ok_app : forall a b, bytes_ok (a ++ b) = bytes_ok a && bytes_ok b.
Proof. intros. unfold bytes_ok. apply forallb_app. Qed.

Lemma le_bytes_ok_all : forall vs, bytes_ok (le_bytes vs) = true.
Proof.
  induction vs; [reflexivity|]. unfold le_bytes in *. cbn [flat_map]. rewrite bytes_ok_app, IHvs, le_bytes_ok. reflexivity.
Qed.

Lemma le8_shape : forall v, exists b0 b1 b2 b3 b4 b5 b6 b7, le 8 v = [b0; b1; b2; b3; b4; b5; b6; b7].
Proof. intros. cbn [le]. repeat eexists. Qed.

Lemma unle_all_le_bytes : forall vs, words_ok vs = true -> unle_all (le_bytes vs) = Some vs.
Proof.
  induction vs as [|v vs IH]; intros H; [reflexivity|].
  simpl in H. apply andb_true_iff in H. destruct H as [Hv Hvs].
  unfold le_bytes in *. cbn [flat_map].
  destruct (le8_shape v) as (b0&b1&b2&b3&b4&b5&b6&b7&E). rewrite E.
  cbn [app unle_all]. rewrite IH by assumption. rewrite <- E.
  rewrite unle_le. reflexivity. rewrite pow256_8. unfold word_ok in Hv. lia.
Qed.

Lemma le_bytes_length : forall vs, len (le_bytes vs) = 8 * len vs.
Proof.
  induction vs; [reflexivity|]. unfold le_bytes in *. cbn [flat_map]. rewrite len_app, IHvs, len_cons.
  unfold len at 1. rewrite le_length. lia.
Qed.

(* ---------- 8-byte big-endian word lists ---------- *)
Lemma be8_shape : forall v, exists b0 b1 b2 b3 b4 b5 b6 b7, be 8 v = [b0; b1; b2; b3; b4; b5; b6; b7].
Proof. intros. cbn [be]. repeat eexists. Qed.

Lemma be8_all_flat : forall (f : Z -> Z) vs, (forall v, In v vs -> 0 <= f v < M64) ->
  be8_all (flat_map (fun v => be 8 (f v)) vs) = Some (map f vs).
Proof.
  induction vs as [|v vs IH]; intros H; [reflexivity|].
  cbn [flat_map map]. destruct (be8_shape (f v)) as (b0&b1&b2&b3&b4&b5&b6&b7&E). rewrite E.
  cbn [app be8_all]. rewrite IH by (intros; apply H; right; assumption). rewrite <- E.
  rewrite unbe_be0. reflexivity. rewrite pow256_8. apply H. left. reflexivity.
Qed.

Lemma flat_be8_length : forall (f : Z -> Z) vs, len (flat_map (fun v => be 8 (f v)) vs) = 8 * len vs.
Proof.
  induction vs; [reflexivity|]. cbn [flat_map]. rewrite len_app, IHvs, len_cons. unfold len at 1. rewrite be_length. lia.
Qed.

(* ---------- zig-zag ---------- *)
Lemma zz_range : forall u, 0 <= u < M64 -> 0 <= zz u < M64.
Proof. intros u H. unfold zz, M64, M63 in *. destruct (Z.ltb_spec u 9223372036854775808); lia. Qed.

Lemma unzz_zz : forall u, 0 <= u < M64 -> unzz (zz u) = u.
Proof.
  intros u H. unfold zz, unzz, M64, M63 in *.
  destruct (Z.ltb_spec u 9223372036854775808).
  - assert (E : Z.even (2 * u) = true) by (rewrite Z.even_mul; reflexivity). rewrite E.
    rewrite (Z.mul_comm 2 u), Z.div_mul by lia. reflexivity.
  - set (k := 18446744073709551616 - u) in *.
    assert (E : Z.even (2 * k - 1) = false).
    { replace (2 * k - 1) with (1 + 2 * (k - 1)) by lia. rewrite Z.even_add_mul_2. reflexivity. }
    rewrite E. replace (2 * k - 1 + 1) with (k * 2) by lia. rewrite Z.div_mul by lia.
    unfold k. replace (18446744073709551616 - (18446744073709551616 - u)) with u by lia.
    apply Z.mod_small. lia.
Qed.

Lemma zz_unzz : forall w, 0 <= w < M64 -> zz (unzz w) = w /\ 0 <= unzz w < M64.
Proof.
  intros w H. unfold zz, unzz, M64, M63 in *.
  destruct (Z.even w) eqn:E.
  - apply Z.even_spec in E. destruct E as [k E]. subst w. rewrite Z.mul_comm, Z.div_mul by lia.
    destruct (Z.ltb_spec k 9223372036854775808); lia.
  - assert (O : Z.odd w = true) by (rewrite <- Z.negb_even, E; reflexivity).
    apply Z.odd_spec in O. destruct O as [k O]. subst w.
    replace (2 * k + 1 + 1) with ((k + 1) * 2) by lia. rewrite Z.div_mul by lia.
    rewrite Z.mod_small by lia.
    destruct (Z.ltb_spec (18446744073709551616 - (k + 1)) 9223372036854775808); lia.
Qed.

(* ---------- uvarint ---------- *)
Lemma uvarint_f_roundtrip : forall f i v mul acc rest,
  (i + f = 9)%nat -> 0 <= v < 2 * 128 ^ Z.of_nat f ->
  get_uvarint_f (put_uvarint_f f v ++ rest) i mul acc = Some (acc + v * mul, rest).
Proof.
  induction f; intros i v mul acc rest Hi Hv.
  - assert (i = 9%nat) by lia. subst i. simpl in Hv. cbn [put_uvarint_f app get_uvarint_f].
    replace (10 <=? 9)%nat with false by reflexivity.
    destruct (Z.ltb_spec v 128); [|lia].
    replace ((9 =? 9)%nat) with true by reflexivity. destruct (Z.ltb_spec 1 v); [lia|]. reflexivity.
  - cbn [put_uvarint_f]. destruct (Z.ltb_spec v 128).
    + cbn [app get_uvarint_f]. destruct (Nat.leb_spec 10 i); [lia|].
      destruct (Z.ltb_spec v 128); [|lia]. destruct (Nat.eqb_spec i 9); [lia|]. reflexivity.
    + cbn [app get_uvarint_f]. destruct (Nat.leb_spec 10 i); [lia|].
      pose proof (Z.mod_pos_bound v 128).
      destruct (Z.ltb_spec (v mod 128 + 128) 128); [lia|].
      rewrite IHf.
      * f_equal. f_equal. pose proof (Z.div_mod v 128). nia.
      * lia.
      * replace (Z.of_nat (S f)) with (Z.of_nat f + 1) in Hv by lia.
        rewrite Z.pow_add_r, Z.pow_1_r in Hv by lia.
        split. apply Z.div_pos; lia. apply Z.div_lt_upper_bound; lia.
Qed.

Lemma uvarint_roundtrip : forall v rest, 0 <= v < M64 -> get_uvarint (put_uvarint v ++ rest) = Some (v, rest).
Proof.
  intros. unfold get_uvarint, put_uvarint. rewrite uvarint_f_roundtrip.
  - f_equal. f_equal. lia.
  - reflexivity.
  - unfold M64 in H. change (2 * 128 ^ Z.of_nat 9) with 18446744073709551616. lia.
Qed.

Lemma put_uvarint_f_bytes_ok : forall f v, 0 <= v < 2 * 128 ^ Z.of_nat f -> bytes_ok (put_uvarint_f f v) = true.
Proof.
  induction f; intros v Hv.
  - simpl in *. unfold byte_ok. lia.
  - cbn [put_uvarint_f]. destruct (Z.ltb_spec v 128).
    + simpl. unfold byte_ok. lia.
    + cbn [bytes_ok forallb]. fold (bytes_ok (put_uvarint_f f (v / 128))). rewrite IHf.
      * pose proof (Z.mod_pos_bound v 128). unfold byte_ok. lia.
      * replace (Z.of_nat (S f)) with (Z.of_nat f + 1) in Hv by lia.
        rewrite Z.pow_add_r, Z.pow_1_r in Hv by lia.
        split. apply Z.div_pos; lia. apply Z.div_lt_upper_bound; lia.
Qed.

(* ---------- deltas ---------- *)
Lemma undeltas_deltas : forall vs prev, words_ok vs = true -> undeltas prev (deltas prev vs) = vs.
Proof.
  induction vs as [|v vs IH]; intros prev H; [reflexivity|].
  simpl in H. apply andb_true_iff in H. destruct H as [Hv Hvs].
  cbn [deltas undeltas]. unfold word_ok in Hv.
  assert (E : (prev + (v - prev) mod M64) mod M64 = v).
  { rewrite Zplus_mod_idemp_r. replace (prev + (v - prev)) with v by lia. apply Z.mod_small. lia. }
  rewrite E. f_equal. apply IH. assumption.
Qed.

Lemma deltas_range : forall vs prev d, In d (deltas prev vs) -> 0 <= d < M64.
Proof.
  induction vs; simpl; intros prev d H; [contradiction|]. destruct H as [H|H].
  - subst d. apply Z.mod_pos_bound. reflexivity.
  - eapply IHvs; eauto.
Qed.

Lemma deltas_length : forall vs prev, length (deltas prev vs) = length vs.
Proof. induction vs; simpl; intros; auto. Qed.

Lemma all_eq_repeat : forall d l, all_eq d l = true -> l = repeat d (length l).
Proof.
  induction l; simpl; intros; auto. apply andb_true_iff in H. destruct H as [H1 H2].
  apply Z.eqb_eq in H1. subst a. f_equal. auto.
Qed.

Lemma words_ok_In : forall vs v, words_ok vs = true -> In v vs -> 0 <= v < M64.
Proof.
  intros vs v H I. unfold words_ok in H. rewrite forallb_forall in H. apply H in I. unfold word_ok in I. lia.
Qed.

Lemma firstn_len_app {A} : forall (a b : list A) n, n = len a -> firstn (Z.to_nat n) (a ++ b) = a.
Proof.
  intros. subst n. unfold len. rewrite Nat2Z.id. rewrite firstn_app, Nat.sub_diag, firstn_all. simpl. apply app_nil_r.
Qed.
Lemma skipn_len_app {A} : forall (a b : list A) n, n = len a -> skipn (Z.to_nat n) (a ++ b) = b.
Proof.
  intros. subst n. unfold len. rewrite Nat2Z.id. rewrite skipn_app, Nat.sub_diag, skipn_all. reflexivity.
Qed.
