(* C07 - the stored per-column statistics ("pre-aggregation" blocks of the column meta, engine/immutable/pre_aggregation.go):
   marshal / unmarshal of the Integer, Float, Boolean, String and Time blocks in EVERY layout.

   A block is stored length-prefixed in the column meta, so the reader is handed exactly the block and tells the layouts apart
   by the LENGTH ALONE:  length = one_row (16) -> a single (value, time) pair;  length < fixed size (48) -> the
   variable-length layout (written under chunk-meta-compress-mode = self);  otherwise the fixed six-word layout.
   The writer's freedom (which layout, which scale index for the scaled times, which flag byte for float zeros) is
   carried by `layout`; `*_applicable` says when a layout may be used for a statistics value, i.e. when the
   length-dispatching reader will take the bytes for what they are.  `*_marshal` mirrors today's writer. *)
From Coq Require Import ZArith List Bool.
From OG Require Import C07.Gen_Consts C07.Model C07.ModelRows.
Import ListNotations.
Open Scope Z_scope.

(* statistics of one column of one series, every field a 64-bit pattern (float64 bits for float min/max/sum; 0/1, or the
   start values 2 / 255, in the low byte for booleans) *)
Record stat := mkStat { s_min : Z; s_max : Z; s_minT : Z; s_maxT : Z; s_sum : Z; s_cnt : Z }.
Definition stat_ok (s : stat) : bool :=
  word_ok (s_min s) && word_ok (s_max s) && word_ok (s_minT s) && word_ok (s_maxT s) && word_ok (s_sum s) && word_ok (s_cnt s).

Definition size_int : Z := g_preagg_int_size.
Definition size_float : Z := g_preagg_float_size.
Definition size_bool : Z := g_preagg_bool_size.
Definition size_string : Z := g_preagg_string_size.
Definition size_time : Z := g_preagg_time_size.
Definition size_one : Z := g_preagg_one_row.

(* ---- signed varint (binary.AppendVarint / Varint): zig-zag, then uvarint ---- *)
Definition e_varint (v : Z) : list Z := put_uvarint (zz v).
Definition d_varint : dec_t Z := fun bs => omap unzz (get_uvarint bs).

(* ---- scaled int64 (codec.AppendInt64WithScale / DecodeInt64WithScale): index into the scale table, then
        uvarint(uint64(v / scale)) with Go's truncating signed division; the reader multiplies back (wrapping) ---- *)
Definition sgn64 (u : Z) : Z := if u <? M63 then u else u - M64.
Definition n_scales : Z := len g_scales.
Definition scale_at (k : Z) : Z := nth (Z.to_nat k) g_scales 0.
Definition e_scaled (k : Z) (v : Z) : list Z := k :: put_uvarint (Z.quot (sgn64 v) (scale_at k) mod M64).
Definition d_scaled : dec_t Z := fun bs =>
  match bs with
  | [] => None
  | k :: r =>
      if (k <? 0) || (n_scales <=? k) then None      (* index > table length: error; = table length: index out of range *)
      else match get_uvarint r with
           | Some (u, r2) => Some ((u * scale_at k) mod M64, r2)
           | None => None
           end
  end.
(* a scale index may be used for v when the scale divides v exactly (Go: v % scale == 0) *)
Definition scale_ok (k v : Z) : bool :=
  (0 <=? k) && (k <? n_scales) && (0 <? scale_at k) && (Z.rem (sgn64 v) (scale_at k) =? 0).
(* today's choice (codec.scale): the largest index whose scale divides v, index 0 otherwise *)
Fixpoint scale_from (i : nat) (v : Z) : Z :=
  match i with
  | O => 0
  | S j => if Z.rem (sgn64 v) (scale_at (Z.of_nat i)) =? 0 then Z.of_nat i else scale_from j v
  end.
Definition scale_greedy (v : Z) : Z := scale_from (Z.to_nat (n_scales - 1)) v.

Definition dur (s : stat) : Z := (s_maxT s - s_minT s) mod M64.

(* ---- layouts ---- *)
Inductive layout :=
| LOne                               (* 16 bytes: value, time *)
| LFixed                             (* the fixed layout *)
| LVlc (flag : bool) (k1 k2 : Z)     (* variable-length; flag (floats only): true = values present, false = all zero; scale indices *)
| LPad (flag : bool) (k1 k2 : Z).    (* variable-length layout of exactly one_row bytes, followed by a 0 byte *)

Definition times_vlc (k1 k2 : Z) (s : stat) : list Z :=
  put_uvarint (s_cnt s) ++ e_scaled k1 (s_minT s) ++ e_scaled k2 (dur s).
Definition d_times : dec_t (Z * (Z * Z)) := d_pair get_uvarint (d_pair d_scaled d_scaled).

(* ================= IntegerPreAgg ================= *)
Definition int_fixed (s : stat) : list Z :=
  e_zint (s_min s) ++ e_zint (s_max s) ++ e_zint (s_minT s) ++ e_zint (s_maxT s) ++ e_zint (s_sum s) ++ e_zint (s_cnt s).
Definition int_one (s : stat) : list Z := e_zint (s_min s) ++ e_zint (s_minT s).
Definition int_vlc (k1 k2 : Z) (s : stat) : list Z :=
  e_varint (s_min s) ++ e_varint (s_max s) ++ e_varint (s_sum s) ++ times_vlc k1 k2 s.

(* a statistics value of a single row: what the one-row layout can express *)
Definition one_row_stat (s : stat) : bool :=
  (s_cnt s =? 1) && (s_max s =? s_min s) && (s_maxT s =? s_minT s) && (s_sum s =? s_min s).

Definition pai_enc_with (l : layout) (s : stat) : list Z :=
  match l with
  | LOne => int_one s
  | LFixed => int_fixed s
  | LVlc _ k1 k2 => int_vlc k1 k2 s
  | LPad _ k1 k2 => int_vlc k1 k2 s ++ [0]
  end.
Definition pai_applicable (l : layout) (s : stat) : bool :=
  match l with
  | LOne => one_row_stat s
  | LFixed => true
  | LVlc _ k1 k2 => scale_ok k1 (s_minT s) && scale_ok k2 (dur s) &&
                    negb (len (int_vlc k1 k2 s) =? size_one) && (len (int_vlc k1 k2 s) <? size_int)
  | LPad _ k1 k2 => scale_ok k1 (s_minT s) && scale_ok k2 (dur s) && (len (int_vlc k1 k2 s) =? size_one)
  end.

Definition one_stat (v t : Z) : stat := mkStat v v t t v 1.

Definition int_vlc_dec : dec_t stat := fun bs =>
  match d_pair d_varint (d_pair d_varint (d_pair d_varint d_times)) bs with
  | Some ((mn, (mx, (sm, (c, (t0, d))))), r) => Some (mkStat mn mx t0 ((t0 + d) mod M64) sm c, r)
  | None => None
  end.
Definition int_fixed_dec : dec_t stat := fun bs =>
  match d_pair d_zint (d_pair d_zint (d_pair d_zint (d_pair d_zint (d_pair d_zint d_zint)))) bs with
  | Some ((mn, (mx, (t0, (t1, (sm, c))))), r) => Some (mkStat mn mx t0 t1 sm c, r)
  | None => None
  end.
(* IntegerPreAgg.unmarshal: dispatch on the length of the block alone *)
Definition pai_dec : dec_t stat := fun bs =>
  if len bs =? size_one then
    match d_pair d_zint d_zint bs with Some ((v, t), r) => Some (one_stat v t, r) | None => None end
  else if len bs <? size_int then int_vlc_dec bs
  else int_fixed_dec bs.

(* today's writer. `self` = chunk-meta-compress-mode is "self"; `keep n` = the guard that keeps the variable-length form of
   n bytes (today: n < fixed size) *)
Definition int_layout_g (keep : Z -> bool) (self : bool) (s : stat) : layout :=
  let k1 := scale_greedy (s_minT s) in
  let k2 := scale_greedy (dur s) in
  if s_cnt s =? 1 then LOne
  else if self then
    let v := int_vlc k1 k2 s in
    if len v =? size_one then LPad true k1 k2 else if keep (len v) then LVlc true k1 k2 else LFixed
  else LFixed.

Definition int_marshal_g (keep : Z -> bool) (self : bool) (s : stat) : list Z :=
  pai_enc_with (int_layout_g keep self s) s.
Definition int_marshal : bool -> stat -> list Z := int_marshal_g (fun n => n <? size_int).

(* ================= FloatPreAgg ================= *)
Definition fl_fixed (s : stat) : list Z :=
  be 8 (s_min s) ++ be 8 (s_max s) ++ e_zint (s_minT s) ++ e_zint (s_maxT s) ++ be 8 (s_sum s) ++ e_zint (s_cnt s).
Definition fl_one (s : stat) : list Z := be 8 (s_min s) ++ e_zint (s_minT s).
Definition fl_vlc (flag : bool) (k1 k2 : Z) (s : stat) : list Z :=
  (if flag then [1] ++ be 8 (s_min s) ++ be 8 (s_max s) ++ be 8 (s_sum s) else [0]) ++ times_vlc k1 k2 s.

(* when the writer may drop min, max and sum (flag byte 0): the reader restores +0.0 for all three.
   repaired: all three are +0.0 bit for bit;  current: `m.maxV == 0 && m.minV == 0` on float64, true also for -0.0 and
   whatever the sum is *)
Definition fl_zero_repaired (s : stat) : bool := (s_min s =? 0) && (s_max s =? 0) && (s_sum s =? 0).
Definition fl_zero_current (s : stat) : bool := f_is_zero (s_max s) && f_is_zero (s_min s).

Definition fl_enc_with (l : layout) (s : stat) : list Z :=
  match l with
  | LOne => fl_one s
  | LFixed => fl_fixed s
  | LVlc f k1 k2 => fl_vlc f k1 k2 s
  | LPad f k1 k2 => fl_vlc f k1 k2 s ++ [0]
  end.
Definition fl_applicable_g (zero : stat -> bool) (l : layout) (s : stat) : bool :=
  match l with
  | LOne => one_row_stat s
  | LFixed => true
  | LVlc f k1 k2 => (f || zero s) && scale_ok k1 (s_minT s) && scale_ok k2 (dur s) &&
                    negb (len (fl_vlc f k1 k2 s) =? size_one) && (len (fl_vlc f k1 k2 s) <? size_float)
  | LPad f k1 k2 => (f || zero s) && scale_ok k1 (s_minT s) && scale_ok k2 (dur s) && (len (fl_vlc f k1 k2 s) =? size_one)
  end.
Definition fl_applicable : layout -> stat -> bool := fl_applicable_g fl_zero_repaired.
Definition fl_applicable_current : layout -> stat -> bool := fl_applicable_g fl_zero_current.

Definition fl_vlc_dec : dec_t stat := fun bs =>
  match bs with
  | [] => None
  | flag :: r =>
      if flag =? 0 then
        match d_times r with
        | Some ((c, (t0, d)), r2) => Some (mkStat 0 0 t0 ((t0 + d) mod M64) 0 c, r2)
        | None => None
        end
      else
        match d_pair (get_be 8) (d_pair (get_be 8) (d_pair (get_be 8) d_times)) r with
        | Some ((mn, (mx, (sm, (c, (t0, d))))), r2) => Some (mkStat mn mx t0 ((t0 + d) mod M64) sm c, r2)
        | None => None
        end
  end.
Definition fl_fixed_dec : dec_t stat := fun bs =>
  match d_pair (get_be 8) (d_pair (get_be 8) (d_pair d_zint (d_pair d_zint (d_pair (get_be 8) d_zint)))) bs with
  | Some ((mn, (mx, (t0, (t1, (sm, c))))), r) => Some (mkStat mn mx t0 t1 sm c, r)
  | None => None
  end.
Definition fl_dec : dec_t stat := fun bs =>
  if len bs =? size_one then
    match d_pair (get_be 8) d_zint bs with Some ((v, t), r) => Some (one_stat v t, r) | None => None end
  else if len bs <? size_float then fl_vlc_dec bs
  else fl_fixed_dec bs.

Definition fl_layout_g (zero : stat -> bool) (keep : Z -> bool) (self : bool) (s : stat) : layout :=
  let k1 := scale_greedy (s_minT s) in
  let k2 := scale_greedy (dur s) in
  let f := negb (zero s) in
  if s_cnt s =? 1 then LOne
  else if self then
    let v := fl_vlc f k1 k2 s in
    if len v =? size_one then LPad f k1 k2 else if keep (len v) then LVlc f k1 k2 else LFixed
  else LFixed.
Definition fl_marshal_g (zero : stat -> bool) (keep : Z -> bool) (self : bool) (s : stat) : list Z :=
  fl_enc_with (fl_layout_g zero keep self s) s.
Definition fl_marshal : bool -> stat -> list Z := fl_marshal_g fl_zero_repaired (fun n => n <? size_float).
Definition fl_marshal_current : bool -> stat -> list Z := fl_marshal_g fl_zero_current (fun n => n <? size_float).

(* ================= BooleanPreAgg / StringPreAgg / TimePreAgg: one fixed layout each ================= *)
(* boolean: count, minTime, maxTime, min byte, max byte *)
Definition bool_stat_ok (s : stat) : bool :=
  word_ok (s_cnt s) && word_ok (s_minT s) && word_ok (s_maxT s) && byte_ok (s_min s) && byte_ok (s_max s) && (s_sum s =? 0).
Definition bool_marshal (s : stat) : list Z := e_zint (s_cnt s) ++ e_zint (s_minT s) ++ e_zint (s_maxT s) ++ [s_min s] ++ [s_max s].
Definition bool_pa_dec : dec_t stat := fun bs =>
  if len bs <? size_bool then None
  else match d_pair d_zint (d_pair d_zint (d_pair d_zint (d_pair (get_be 1) (get_be 1)))) bs with
       | Some ((c, (t0, (t1, (mn, mx)))), r) => Some (mkStat mn mx t0 t1 0 c, r)
       | None => None
       end.
Definition cnt_stat (c : Z) : stat := mkStat 0 0 0 0 0 c.
Definition str_marshal (s : stat) : list Z := e_zint (s_cnt s).
Definition str_pa_dec : dec_t stat := fun bs =>
  if len bs <? size_string then None else omap cnt_stat (d_zint bs).
Definition time_marshal (s : stat) : list Z := be 4 (s_cnt s).
Definition time_pa_dec : dec_t stat := fun bs =>
  if len bs <? size_time then None else omap cnt_stat (get_be 4 bs).
