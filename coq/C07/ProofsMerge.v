(* C07: merging the stored statistics of two row sets gives the statistics of their union (integers; the float64 round trip
   of IntegerPreAgg.merge is exact on the values a float64 represents). *)
From Coq Require Import ZArith List Bool Lia ZifyBool ZifyNat Sorted.
From OG Require Import C07.Model C07.ModelRows C07.ModelPreAgg C07.ModelStats C07.ModelMerge C07.ProofsBase C07.ProofsPreAgg C07.ProofsStats.
Import ListNotations.
Open Scope Z_scope.

Lemma sgn64_inj : forall a b, W a -> W b -> sgn64 a = sgn64 b -> a = b.
Proof. intros a b Ha Hb H. rewrite <- (sgn64_mod a Ha), <- (sgn64_mod b Hb), H. reflexivity. Qed.

Lemma sgn64_range : forall a, W a -> - M63 <= sgn64 a < M63.
Proof. intros a H. unfold sgn64, W, M63, M64 in *. destruct (Z.ltb_spec a 9223372036854775808); lia. Qed.

(* ---- the float64 round trip ---- *)
Lemma round53_small : forall a, 0 <= a <= P53 -> round53 a = a.
Proof.
  intros a H. unfold round53. destruct (Z.ltb_spec a P53); [reflexivity|].
  assert (a = P53) by lia. subst a. vm_compute. reflexivity.
Qed.

Theorem via_f64_exact : forall u, W u -> exact53 u = true -> via_f64 u = u.
Proof.
  intros u Hu E. unfold exact53 in E. apply Z.leb_le in E. unfold via_f64.
  rewrite round53_small by (split; [apply Z.abs_nonneg|exact E]).
  assert (P : P53 < M63) by reflexivity.
  destruct (Z.ltb_spec (sgn64 u) 0).
  - rewrite Z.abs_neq by lia. rewrite Z.opp_involutive.
    destruct (Z.leb_spec M63 (sgn64 u)); [lia|]. apply sgn64_mod. exact Hu.
  - rewrite Z.abs_eq by lia.
    destruct (Z.leb_spec M63 (sgn64 u)); [rewrite Z.abs_eq in E by lia; lia|]. apply sgn64_mod. exact Hu.
Qed.

(* ---- lexicographic extremes ---- *)
Definition Wp (p : Z * Z) : Prop := W (fst p) /\ W (snd p).

Lemma lex_le_trans : forall p q r, lex_le p q -> lex_le q r -> lex_le p r.
Proof. unfold lex_le. intros [a b] [c d] [e f]; cbn [fst snd]. intros [H|[H H']] [G|[G G']]; subst; try (left; lia). right. split; [reflexivity|lia]. Qed.
Lemma lex_ge_trans : forall p q r, lex_ge p q -> lex_ge q r -> lex_ge p r.
Proof. unfold lex_ge. intros [a b] [c d] [e f]; cbn [fst snd]. intros [H|[H H']] [G|[G G']]; subst; try (left; lia). right. split; [reflexivity|lia]. Qed.

Lemma add_min_int_spec : forall s v t A B,
  Forall Wp A -> Forall Wp B ->
  In (s_min s, s_minT s) A -> (forall p, In p A -> lex_le (s_min s, s_minT s) p) ->
  In (v, t) B -> (forall p, In p B -> lex_le (v, t) p) ->
  let s' := add_min_int s v t in
  In (s_min s', s_minT s') (A ++ B) /\ (forall p, In p (A ++ B) -> lex_le (s_min s', s_minT s') p) /\
  s_max s' = s_max s /\ s_maxT s' = s_maxT s.
Proof.
  intros s v t A B WA WB IA LA IB LB. cbv zeta.
  rewrite Forall_forall in WA, WB.
  destruct (WA _ IA) as [Wm Wmt]. destruct (WB _ IB) as [Wv Wt]. cbn [fst snd] in *.
  assert (pick_new : lex_le (v, t) (s_min s, s_minT s) ->
            In (v, t) (A ++ B) /\ (forall p, In p (A ++ B) -> lex_le (v, t) p)).
  { intros L. split; [apply in_or_app; right; exact IB|].
    intros p Hp. apply in_app_or in Hp. destruct Hp as [Hp|Hp]; [eapply lex_le_trans; [exact L|apply LA; exact Hp]|apply LB; exact Hp]. }
  assert (keep_old : lex_le (s_min s, s_minT s) (v, t) ->
            In (s_min s, s_minT s) (A ++ B) /\ (forall p, In p (A ++ B) -> lex_le (s_min s, s_minT s) p)).
  { intros L. split; [apply in_or_app; left; exact IA|].
    intros p Hp. apply in_app_or in Hp. destruct Hp as [Hp|Hp]; [apply LA; exact Hp|eapply lex_le_trans; [exact L|apply LB; exact Hp]]. }
  unfold add_min_int, ilt.
  destruct (Z.ltb_spec (sgn64 v) (sgn64 (s_min s))) as [L1|L1].
  - cbn [s_min s_minT s_max s_maxT set_min]. destruct pick_new as [P1 P2]; [left; cbn; lia|]. repeat split; assumption.
  - destruct (Z.eqb_spec (s_min s) v) as [E|E].
    + destruct (Z.ltb_spec (sgn64 t) (sgn64 (s_minT s))) as [L2|L2].
      * cbn [s_min s_minT s_max s_maxT set_min]. destruct pick_new as [P1 P2]; [right; cbn; split; [congruence|lia]|]. repeat split; assumption.
      * destruct keep_old as [P1 P2]; [right; cbn; split; [exact E|lia]|]. repeat split; assumption.
    + destruct keep_old as [P1 P2]; [|repeat split; assumption].
      left. cbn. assert (sgn64 (s_min s) <> sgn64 v) by (intros Q; apply E; apply sgn64_inj; assumption). lia.
Qed.

Lemma add_max_int_spec : forall s v t A B,
  Forall Wp A -> Forall Wp B ->
  In (s_max s, s_maxT s) A -> (forall p, In p A -> lex_ge (s_max s, s_maxT s) p) ->
  In (v, t) B -> (forall p, In p B -> lex_ge (v, t) p) ->
  let s' := add_max_int s v t in
  In (s_max s', s_maxT s') (A ++ B) /\ (forall p, In p (A ++ B) -> lex_ge (s_max s', s_maxT s') p) /\
  s_min s' = s_min s /\ s_minT s' = s_minT s.
Proof.
  intros s v t A B WA WB IA LA IB LB. cbv zeta.
  rewrite Forall_forall in WA, WB.
  destruct (WA _ IA) as [Wm Wmt]. destruct (WB _ IB) as [Wv Wt]. cbn [fst snd] in *.
  assert (pick_new : lex_ge (v, t) (s_max s, s_maxT s) ->
            In (v, t) (A ++ B) /\ (forall p, In p (A ++ B) -> lex_ge (v, t) p)).
  { intros L. split; [apply in_or_app; right; exact IB|].
    intros p Hp. apply in_app_or in Hp. destruct Hp as [Hp|Hp]; [eapply lex_ge_trans; [exact L|apply LA; exact Hp]|apply LB; exact Hp]. }
  assert (keep_old : lex_ge (s_max s, s_maxT s) (v, t) ->
            In (s_max s, s_maxT s) (A ++ B) /\ (forall p, In p (A ++ B) -> lex_ge (s_max s, s_maxT s) p)).
  { intros L. split; [apply in_or_app; left; exact IA|].
    intros p Hp. apply in_app_or in Hp. destruct Hp as [Hp|Hp]; [apply LA; exact Hp|eapply lex_ge_trans; [exact L|apply LB; exact Hp]]. }
  unfold add_max_int, ilt.
  destruct (Z.ltb_spec (sgn64 (s_max s)) (sgn64 v)) as [L1|L1].
  - cbn [s_min s_minT s_max s_maxT set_max]. destruct pick_new as [P1 P2]; [left; cbn; lia|]. repeat split; assumption.
  - destruct (Z.eqb_spec (s_max s) v) as [E|E].
    + destruct (Z.ltb_spec (sgn64 t) (sgn64 (s_maxT s))) as [L2|L2].
      * cbn [s_min s_minT s_max s_maxT set_max]. destruct pick_new as [P1 P2]; [right; cbn; split; [congruence|lia]|]. repeat split; assumption.
      * destruct keep_old as [P1 P2]; [right; cbn; split; [exact E|lia]|]. repeat split; assumption.
    + destruct keep_old as [P1 P2]; [|repeat split; assumption].
      left. cbn. assert (sgn64 (s_max s) <> sgn64 v) by (intros Q; apply E; apply sgn64_inj; assumption). lia.
Qed.

Lemma sum64_app : forall a b, sum64 (a ++ b) = (sum64 a + sum64 b) mod M64.
Proof.
  induction a as [|[v t] a IH]; intros b; cbn [app sum64].
  - assert (0 <= sum64 b < M64).
    { destruct b as [|[x y] b]; cbn [sum64]; [unfold M64; lia|apply Z.mod_pos_bound; reflexivity]. }
    rewrite Z.mod_small; lia.
  - rewrite IH. rewrite Z.add_mod_idemp_r by (unfold M64; lia). rewrite Z.add_mod_idemp_l by (unfold M64; lia).
    f_equal. lia.
Qed.

(* merging the statistics of A and of B - with the other block's min / max passed through float64, as IntegerPreAgg.merge
   does - gives the statistics of A ++ B, provided those two values are integers a float64 represents exactly *)
Theorem int_merge_is_stat_of_union : forall a b A B,
  Forall Wp A -> Forall Wp B -> is_stat_of a A -> is_stat_of b B ->
  exact53 (s_min b) = true -> exact53 (s_max b) = true ->
  is_stat_of (int_merge via_f64 a b) (A ++ B).
Proof.
  intros a b A B WA WB (Ia & La & Ja & Ga & Sa & Ca) (Ib & Lb & Jb & Gb & Sb & Cb) E1 E2.
  assert (WFB := WB). rewrite Forall_forall in WFB.
  destruct (WFB _ Ib) as [Wbm _]. destruct (WFB _ Jb) as [Wbx _]. cbn [fst] in *.
  unfold int_merge. rewrite !via_f64_exact by assumption.
  destruct (add_min_int_spec a (s_min b) (s_minT b) A B WA WB Ia La Ib Lb) as (M1 & M2 & M3 & M4).
  set (m1 := add_min_int a (s_min b) (s_minT b)) in *.
  assert (Jm : In (s_max m1, s_maxT m1) A) by (rewrite M3, M4; exact Ja).
  assert (Gm : forall p, In p A -> lex_ge (s_max m1, s_maxT m1) p) by (rewrite M3, M4; exact Ga).
  destruct (add_max_int_spec m1 (s_max b) (s_maxT b) A B WA WB Jm Gm Jb Gb) as (X1 & X2 & X3 & X4).
  unfold is_stat_of. cbn [s_min s_minT s_max s_maxT s_sum s_cnt].
  rewrite X3, X4. repeat split; try assumption.
  - rewrite sum64_app, Sa, Sb. reflexivity.
  - rewrite len_app, Ca, Cb. rewrite <- Z.add_mod by (unfold M64; lia). reflexivity.
Qed.

(* ---- the statistics the (repaired) builder stores for a time-sorted chunk are statistics of its rows in this sense:
        the first occurrence of an extreme is its earliest one ---- *)
Fixpoint ref_max (acc : option (Z * Z)) (l : list (Z * Z)) : option (Z * Z) :=
  match l with
  | [] => acc
  | (v, t) :: r => ref_max (match acc with None => Some (v, t) | Some (m, tm) => if ilt m v then Some (v, t) else Some (m, tm) end) r
  end.
Lemma int_reference_max : forall rows mn mx sm n,
  snd (fst (fst (ref_loop ilt (fun _ => true) iadd mn mx sm n rows))) = ref_max mx (values_of rows).
Proof.
  induction rows as [|[[v|] t] r IH]; intros; cbn [ref_loop values_of ref_max]; [reflexivity| |apply IH].
  rewrite IH. unfold ref_step. destruct mx as [[m tm]|]; reflexivity.
Qed.
Lemma int_reference_sum : forall rows mn mx sm n, 0 <= sm < M64 ->
  snd (fst (ref_loop ilt (fun _ => true) iadd mn mx sm n rows)) = (sm + sum64 (values_of rows)) mod M64 /\
  snd (ref_loop ilt (fun _ => true) iadd mn mx sm n rows) = n + len (values_of rows).
Proof.
  induction rows as [|[[v|] t] r IH]; intros mn mx sm n Hs; cbn [ref_loop values_of sum64].
  - cbn [snd fst]. rewrite Z.add_0_r, Z.mod_small by exact Hs. split; [reflexivity|unfold len; cbn; lia].
  - destruct (IH (ref_step (fun _ => true) mn ilt v t) (ref_step (fun _ => true) mx (fun a b => ilt b a) v t) (iadd sm v) (n + 1)) as [I1 I2].
    { unfold iadd. apply Z.mod_pos_bound. reflexivity. }
    rewrite I1, I2. split.
    + unfold iadd. rewrite Z.add_mod_idemp_l by (unfold M64; lia). rewrite Z.add_mod_idemp_r by (unfold M64; lia). f_equal. lia.
    + rewrite len_cons. lia.
  - apply IH. exact Hs.
Qed.

Definition time_sorted (l : list (Z * Z)) : Prop := Sorted.StronglySorted (fun p q => sgn64 (snd p) <= sgn64 (snd q)) l.

Lemma ref_min_lex : forall l acc m tm, Forall Wp l -> time_sorted l ->
  (forall a ta, acc = Some (a, ta) -> W a /\ forall p, In p l -> sgn64 ta <= sgn64 (snd p)) ->
  ref_min acc l = Some (m, tm) ->
  (forall a ta, acc = Some (a, ta) -> lex_le (m, tm) (a, ta)) /\ (forall p, In p l -> lex_le (m, tm) p).
Proof.
  induction l as [|[v t] r IH]; intros acc m tm WL S Inv H; cbn [ref_min] in H.
  - subst acc. split; [intros a ta E; inversion E; subst; right; cbn; split; [reflexivity|lia]|intros p []].
  - inversion WL as [|? ? [Wv Wt] WR]; subst. inversion S as [|? ? SR SF]; subst. cbn [fst snd] in *.
    rewrite Forall_forall in SF.
    assert (InvNew : forall a ta, Some (v, t) = Some (a, ta) -> W a /\ forall p, In p r -> sgn64 ta <= sgn64 (snd p)).
    { intros a ta E. inversion E; subst. split; [exact Wv|]. intros p Hp. apply (SF p Hp). }
    destruct acc as [[a ta]|].
    + destruct (Inv a ta eq_refl) as [Wa Ita]. unfold ilt in H.
      destruct (Z.ltb_spec (sgn64 v) (sgn64 a)) as [L|L].
      * destruct (IH _ _ _ WR SR InvNew H) as [A B]. specialize (A v t eq_refl).
        split.
        -- intros a' ta' E. inversion E; subst. unfold lex_le in *. cbn [fst snd] in *. left. destruct A as [A|[A _]]; [lia|subst; lia].
        -- intros p [<-|Hp]; [exact A|apply B; exact Hp].
      * assert (InvOld : forall a0 ta0, Some (a, ta) = Some (a0, ta0) -> W a0 /\ forall p, In p r -> sgn64 ta0 <= sgn64 (snd p)).
        { intros a0 ta0 E. inversion E; subst. split; [exact Wa|]. intros p Hp. apply Ita. right. exact Hp. }
        destruct (IH _ _ _ WR SR InvOld H) as [A B]. specialize (A a ta eq_refl).
        split.
        -- intros a' ta' E. inversion E; subst. exact A.
        -- intros p [<-|Hp]; [|apply B; exact Hp].
           unfold lex_le in *. cbn [fst snd] in *. specialize (Ita (v, t) (or_introl eq_refl)). cbn [snd] in Ita.
           destruct A as [A|[A A']]; [left; lia|]. subst m.
           destruct (Z.eq_dec (sgn64 a) (sgn64 v)) as [Q|Q]; [right; split; [apply sgn64_inj; assumption|lia]|left; lia].
    + destruct (IH _ _ _ WR SR InvNew H) as [A B]. specialize (A v t eq_refl).
      split; [intros a' ta' E; discriminate|]. intros p [<-|Hp]; [exact A|apply B; exact Hp].
Qed.

Lemma ref_max_lex : forall l acc m tm, Forall Wp l -> time_sorted l ->
  (forall a ta, acc = Some (a, ta) -> W a /\ forall p, In p l -> sgn64 ta <= sgn64 (snd p)) ->
  ref_max acc l = Some (m, tm) ->
  (forall a ta, acc = Some (a, ta) -> lex_ge (m, tm) (a, ta)) /\ (forall p, In p l -> lex_ge (m, tm) p).
Proof.
  induction l as [|[v t] r IH]; intros acc m tm WL S Inv H; cbn [ref_max] in H.
  - subst acc. split; [intros a ta E; inversion E; subst; right; cbn; split; [reflexivity|lia]|intros p []].
  - inversion WL as [|? ? [Wv Wt] WR]; subst. inversion S as [|? ? SR SF]; subst. cbn [fst snd] in *.
    rewrite Forall_forall in SF.
    assert (InvNew : forall a ta, Some (v, t) = Some (a, ta) -> W a /\ forall p, In p r -> sgn64 ta <= sgn64 (snd p)).
    { intros a ta E. inversion E; subst. split; [exact Wv|]. intros p Hp. apply (SF p Hp). }
    destruct acc as [[a ta]|].
    + destruct (Inv a ta eq_refl) as [Wa Ita]. unfold ilt in H.
      destruct (Z.ltb_spec (sgn64 a) (sgn64 v)) as [L|L].
      * destruct (IH _ _ _ WR SR InvNew H) as [A B]. specialize (A v t eq_refl).
        split.
        -- intros a' ta' E. inversion E; subst. unfold lex_ge in *. cbn [fst snd] in *. left. destruct A as [A|[A _]]; [lia|subst; lia].
        -- intros p [<-|Hp]; [exact A|apply B; exact Hp].
      * assert (InvOld : forall a0 ta0, Some (a, ta) = Some (a0, ta0) -> W a0 /\ forall p, In p r -> sgn64 ta0 <= sgn64 (snd p)).
        { intros a0 ta0 E. inversion E; subst. split; [exact Wa|]. intros p Hp. apply Ita. right. exact Hp. }
        destruct (IH _ _ _ WR SR InvOld H) as [A B]. specialize (A a ta eq_refl).
        split.
        -- intros a' ta' E. inversion E; subst. exact A.
        -- intros p [<-|Hp]; [|apply B; exact Hp].
           unfold lex_ge in *. cbn [fst snd] in *. specialize (Ita (v, t) (or_introl eq_refl)). cbn [snd] in Ita.
           destruct A as [A|[A A']]; [left; lia|]. subst m.
           destruct (Z.eq_dec (sgn64 a) (sgn64 v)) as [Q|Q]; [right; split; [apply sgn64_inj; assumption|lia]|left; lia].
    + destruct (IH _ _ _ WR SR InvNew H) as [A B]. specialize (A v t eq_refl).
      split; [intros a' ta' E; discriminate|]. intros p [<-|Hp]; [exact A|apply B; exact Hp].
Qed.

Lemma ref_max_in : forall l acc m tm, ref_max acc l = Some (m, tm) -> acc = Some (m, tm) \/ In (m, tm) l.
Proof.
  induction l as [|[v t] r IH]; intros acc m tm H; cbn [ref_max] in H; [left; exact H|].
  destruct (IH _ _ _ H) as [E|I]; [|right; right; exact I].
  destruct acc as [[a ta]|].
  - destruct (ilt a v); [inversion E; subst; right; left; reflexivity|left; exact E].
  - inversion E; subst. right. left. reflexivity.
Qed.
Lemma ref_min_some : forall l acc, (acc <> None \/ l <> []) -> exists p, ref_min acc l = Some p.
Proof.
  induction l as [|[v t] r IH]; intros acc H; cbn [ref_min].
  - destruct acc as [p|]; [exists p; reflexivity|destruct H as [H|H]; contradiction].
  - apply IH. left. destruct acc as [[a ta]|]; [destruct (ilt v a)|]; discriminate.
Qed.
Lemma ref_max_some : forall l acc, (acc <> None \/ l <> []) -> exists p, ref_max acc l = Some p.
Proof.
  induction l as [|[v t] r IH]; intros acc H; cbn [ref_max].
  - destruct acc as [p|]; [exists p; reflexivity|destruct H as [H|H]; contradiction].
  - apply IH. left. destruct acc as [[a ta]|]; [destruct (ilt a v)|]; discriminate.
Qed.

(* the repaired integer builder's result for a time-sorted, non-empty chunk is "statistics of its rows" *)
Theorem builder_stat_of_rows : forall segs,
  let l := values_of (concat segs) in
  l <> [] -> Forall Wp l -> time_sorted l -> len l < M64 ->
  is_stat_of (int_build true segs) l.
Proof.
  intros segs l Hne WL S HL. rewrite stats_int_repaired.
  unfold int_reference, reference.
  pose proof (int_reference_min (concat segs) None None 0 0) as Emin.
  pose proof (int_reference_max (concat segs) None None 0 0) as Emax.
  destruct (int_reference_sum (concat segs) None None 0 0) as [Esum Ecnt]; [unfold M64; lia|].
  destruct (ref_loop ilt (fun _ => true) iadd None None 0 0 (concat segs)) as [[[mn mx] sm] n].
  cbn [fst snd] in *. fold l in Emin, Emax, Esum, Ecnt.
  destruct (ref_min_some l None (or_intror Hne)) as [[m tm] Hm]. destruct (ref_max_some l None (or_intror Hne)) as [[x tx] Hx].
  rewrite Hm in Emin. rewrite Hx in Emax. subst mn mx.
  unfold int_ref_stat, ref_stat, is_stat_of. cbn [s_min s_minT s_max s_maxT s_sum s_cnt].
  destruct (ref_min_lower _ _ _ _ Hm) as (_ & _ & [Q|Imin]); [discriminate|].
  destruct (ref_max_in _ _ _ _ Hx) as [Q|Imax]; [discriminate|].
  destruct (ref_min_lex l None m tm WL S) as [_ Lmin]; [intros a ta E; discriminate|exact Hm|].
  destruct (ref_max_lex l None x tx WL S) as [_ Lmax]; [intros a ta E; discriminate|exact Hx|].
  repeat split; try assumption.
  - rewrite Esum. rewrite Z.add_0_l. 
    destruct l as [|[v t] r]; [contradiction|]. cbn [sum64]. rewrite Z.mod_mod by (unfold M64; lia). reflexivity.
  - rewrite Ecnt. rewrite Z.add_0_l. pose proof (len_nonneg l). rewrite Z.mod_small by lia. reflexivity.
Qed.

(* compaction of two chunks of one series: merging the two stored statistics blocks (the second one's min / max through
   float64) gives statistics of all rows of both chunks, provided those two values are at most 2^53 in magnitude - which
   holds for every integer the write path stores today (line protocol integers are parsed through float64; property C06) *)
Theorem compaction_merge_is_stat_of_rows : forall segsA segsB,
  let A := values_of (concat segsA) in
  let B := values_of (concat segsB) in
  A <> [] -> B <> [] -> Forall Wp A -> Forall Wp B -> time_sorted A -> time_sorted B -> len A < M64 -> len B < M64 ->
  exact53 (s_min (int_build true segsB)) = true -> exact53 (s_max (int_build true segsB)) = true ->
  is_stat_of (int_merge via_f64 (int_build true segsA) (int_build true segsB)) (A ++ B).
Proof.
  intros. apply int_merge_is_stat_of_union; try assumption; apply builder_stat_of_rows; assumption.
Qed.
