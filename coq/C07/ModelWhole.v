(* C07 - a whole data file as BYTES (engine/immutable: tssp_file.go NewTSSPFileReader / loadMetaIndex / ReadMetaBlock /
   unmarshalChunkMetas, trailer.go, table_stat.go, tssp_file_meta.go MetaIndex, msbuilder.go SwitchChunkMeta):

     header | data (column segments) | chunk-meta blocks | meta-index entries | bloom filter | id-time section | trailer | footer

   footer   = the trailer's offset (zig-zag int64, 8 bytes);
   trailer  = 14 fixed fields, u16 8, extra data (8-byte little-endian flag word: time-store flag, chunk-meta-compress
              mode, total length of the extra data in the upper 32 bits; u16 dictionary size; the dictionary strings of
              chunk-meta-compress-mode self), u16-length measurement name;
   meta-index entry = id, minTime, maxTime, offset, count, size (40 bytes) locating one chunk-meta block;
   chunk-meta block = (compressed under modes snappy / lz4) the chunk metas back to back, then one u32 start offset each.
   `read_file` is the reader: it finds every layer from the footer backwards, exactly as the real reader does. *)
From Coq Require Import ZArith List Bool.
From OG Require Import C07.Gen_Consts C07.Model C07.ModelRows C07.ModelFile C07.ModelPreAgg C07.ModelCMSelf.
Import ListNotations.
Open Scope Z_scope.

(* ---- meta-index entry ---- *)
Definition mindex := (Z * (Z * (Z * (Z * (Z * Z)))))%type.       (* id, minTime, maxTime, offset, count, size *)
Definition e_mindex : mindex -> list Z := e_pair (be 8) (e_pair e_zint (e_pair e_zint (e_pair e_zint (e_pair (be 4) (be 4))))).
Definition d_mindex : dec_t mindex := d_pair (get_be 8) (d_pair d_zint (d_pair d_zint (d_pair d_zint (d_pair (get_be 4) (get_be 4))))).
Definition mindex_ok (m : mindex) : bool :=
  let '(id, (t0, (t1, (off, (cnt, size))))) := m in
  w64 id && w64 t0 && w64 t1 && w64 off && (0 <=? cnt) && (cnt <? M32) && (0 <=? size) && (size <? M32).

(* ---- trailer ---- *)
(* the dictionary: u16-length strings, parsed until the slice is used up *)
Fixpoint d_strings (fuel : nat) (bs : list Z) : option (list (list Z)) :=
  match bs with
  | [] => Some []
  | _ =>
      match fuel with
      | O => None
      | S k => match get_bytes 2 bs with
               | Some (s, r) => match d_strings k r with Some l => Some (s :: l) | None => None end
               | None => None
               end
      end
  end.
Definition e_strings (l : list (list Z)) : list Z := flat_map (put_bytes 2) l.

(* time-store flag, chunk-meta-compress mode, dictionary, measurement name *)
Definition textra := (Z * (Z * (list (list Z) * list Z)))%type.
Definition extra_body (x : textra) : list Z :=        (* the part after the flag word *)
  let '(_, (_, (dict, _))) := x in be 2 (len dict) ++ e_strings dict.
Definition e_extra (x : textra) : list Z :=
  let '(ts, (cm, (dict, name))) := x in
  let body := extra_body x in
  be 2 8 ++ le 8 (ts + 256 * cm + M32 * (8 + len body)) ++ body ++ put_bytes 2 name.
Definition d_extra : dec_t textra := fun bs =>
  match get_be 2 bs with
  | Some (dl, r) =>
      if len r <? dl then None else
      (* 0, 1, 2 bytes: formats of earlier versions; 8 and more: the flag word *)
      if dl =? 0 then omap (fun name => (0, (0, ([], name)))) (get_bytes 2 r)
      else if dl =? 1 then match r with ts :: r1 => omap (fun name => (ts, (0, ([], name)))) (get_bytes 2 r1) | [] => None end
      else if dl =? 2 then match r with ts :: cm :: r1 => omap (fun name => (ts, (cm, ([], name)))) (get_bytes 2 r1) | _ => None end
      else if dl <? 8 then omap (fun name => (0, (0, ([], name)))) (get_bytes 2 (skipn (Z.to_nat dl) r))
      else
        let flags := unle (firstn 8 r) in
        let ts := flags mod 256 in
        let cm := (flags / 256) mod 256 in
        let size := flags / M32 in
        let dl2 := if 0 <? size then size else dl in
        if len r <? dl2 then None else
        if dl2 <? 10 then None else                                (* "too small data for unmarshal chunk meta header" *)
        match d_strings (length r) (firstn (Z.to_nat (dl2 - 10)) (skipn 10 r)) with
        | Some dict => omap (fun name => (ts, (cm, (dict, name)))) (get_bytes 2 (skipn (Z.to_nat dl2) r))
        | None => None
        end
  | None => None
  end.
Definition extra_ok (x : textra) : bool :=
  let '(ts, (cm, (dict, name))) := x in
  byte_ok ts && byte_ok cm && (len dict <? 65536) && forallb (fun s => len s <? 65536) dict &&
  (8 + len (extra_body x) <? M32) && (len name <? 65536).

Definition trailer := (list Z * textra)%type.        (* the 14 fixed fields, the rest *)
Definition e_trailer (t : trailer) : list Z := e_fields trailer_pattern (fst t) ++ e_extra (snd t).
Definition d_trailer : dec_t trailer := fun bs =>
  match d_fields trailer_pattern bs with
  | Some (vs, r) => match d_extra r with Some (x, r2) => Some ((vs, x), r2) | None => None end
  | None => None
  end.
Definition trailer_ok (t : trailer) : bool :=
  (length (fst t) =? length trailer_pattern)%nat && words_ok (fst t) && extra_ok (snd t).
(* field positions *)
Definition tf (t : trailer) (i : nat) : Z := nth i (fst t) 0.
Definition t_data_off t := tf t 0.   Definition t_data_size t := tf t 1.   Definition t_index_size t := tf t 2.
Definition t_mindex_size t := tf t 3.   Definition t_bloom_size t := tf t 4.   Definition t_idtime_size t := tf t 5.
Definition t_mindex_num t := tf t 11.
Definition t_cmode (t : trailer) : Z := fst (snd (snd t)).
Definition t_dict (t : trailer) : list (list Z) := fst (snd (snd (snd t))).

(* ---- chunk-meta block ---- *)
Section Blocks.
  Variable bcomp : Z -> list Z -> list Z.             (* compressor of the mode (snappy / lz4) *)
  Variable bdec : Z -> list Z -> option (list Z).

  (* what is stored for the plain block `raw` under a mode *)
  Definition block_store (mode : Z) (raw : list Z) : list Z :=
    if mode =? g_cm_mode_snappy then bcomp mode raw
    else if mode =? g_cm_mode_lz4 then be 4 (len raw) ++ bcomp mode raw
    else raw.
  Definition block_load (mode : Z) (bs : list Z) : option (list Z) :=
    if mode =? g_cm_mode_snappy then bdec mode bs
    else if mode =? g_cm_mode_lz4 then
      match get_be 4 bs with
      | Some (n, r) => match bdec mode r with Some d => if len d =? n then Some d else None | None => None end
      | None => None
      end
    else if (mode =? g_cm_mode_none) || (mode =? g_cm_mode_self) then Some bs
    else None.

  (* a plain block: the encoded chunk metas back to back, then the start offset of each *)
  Fixpoint starts_of (o : Z) (items : list (list Z)) : list Z :=
    match items with [] => [] | x :: r => o :: starts_of (o + len x) r end.
  Definition block_plain (items : list (list Z)) : list Z := concat items ++ flat_map (be 4) (starts_of 0 items).
  (* split the data by consecutive start offsets; the last item takes the rest *)
  Fixpoint split_offs (offs : list Z) (data : list Z) : list (list Z) :=
    match offs with
    | [] => []
    | [_] => [data]
    | o :: ((o2 :: _) as r) => firstn (Z.to_nat (o2 - o)) data :: split_offs r (skipn (Z.to_nat (o2 - o)) data)
    end.
  Definition block_items (count : Z) (raw : list Z) : option (list (list Z)) :=
    let off := 4 * count in
    if len raw <=? off then None else
    let n := len raw - off in
    match get_n (get_be 4) (Z.to_nat count) (skipn (Z.to_nat n) raw) with
    | Some (offs, _) => Some (split_offs offs (firstn (Z.to_nat n) raw))
    | None => None
    end.

End Blocks.

(* ---- the reader ---- *)
Definition fst_opt {A} (o : option (A * list Z)) : option A := match o with Some (a, _) => Some a | None => None end.
Fixpoint all_some {A} (l : list (option A)) : option (list A) :=
  match l with
  | [] => Some []
  | Some a :: r => match all_some r with Some x => Some (a :: x) | None => None end
  | None :: _ => None
  end.
Definition d_cm_any (mode : Z) (dict : list (list Z)) (bs : list Z) : option chunk_meta :=
  if mode =? g_cm_mode_self then fst_opt (d_cm_self dict bs) else fst_opt (d_chunk_meta bs).

Section Reader.
  Variable bdec : Z -> list Z -> option (list Z).

  Definition read_block (t : trailer) (F : list Z) (m : mindex) : option (list chunk_meta) :=
    let '(_, (_, (_, (off, (cnt, size))))) := m in
    let moff := t_data_off t + t_data_size t in
    if (off <? moff) || (moff + t_index_size t <? off + size) then None else     (* "invalid read meta offset" *)
    match block_load bdec (t_cmode t) (slice off size F) with
    | Some raw =>
        match block_items cnt raw with
        | Some items => all_some (map (d_cm_any (t_cmode t) (t_dict t)) items)
        | None => None
        end
    | None => None
    end.

  Definition read_file (F : list Z) : option (trailer * list mindex * list (list chunk_meta)) :=
    let n := len F in
    if n <? 8 then None else
    if negb (list_eqb (firstn (length g_table_magic) F) g_table_magic) then None else        (* "invalid file magic" *)
    match d_zint (skipn (Z.to_nat (n - 8)) F) with
    | Some (toffp, _) =>
        let toff := sgn64 toffp in
        if (toff <? 0) || (n - 8 <? toff) then None else                              (* "invalid file footer offset" *)
        match d_trailer (slice toff (n - 8 - toff) F) with
        | Some (t, _) =>
            let mioff := t_data_off t + t_data_size t + t_index_size t in
            match get_n d_mindex (Z.to_nat (t_mindex_num t)) (slice mioff (t_mindex_size t) F) with
            | Some (mis, _) =>
                match all_some (map (read_block t F) mis) with
                | Some blocks => Some (t, mis, blocks)
                | None => None
                end
            | None => None
            end
        | None => None
        end
    | None => None
    end.
End Reader.
