(* C07: the merge theorem for any conversion that leaves the other block's min and max unchanged - in particular the exact
   merge (no detour through float64), for EVERY pair of blocks. *)
From Coq Require Import ZArith List Bool Lia ZifyBool ZifyNat.
From OG Require Import C07.Model C07.ModelRows C07.ModelPreAgg C07.ModelStats C07.ModelMerge C07.ProofsBase C07.ProofsPreAgg C07.ProofsMerge.
Import ListNotations.
Open Scope Z_scope.

Theorem int_merge_conv_is_stat_of_union : forall conv a b A B,
  Forall Wp A -> Forall Wp B -> is_stat_of a A -> is_stat_of b B ->
  conv (s_min b) = s_min b -> conv (s_max b) = s_max b ->
  is_stat_of (int_merge conv a b) (A ++ B).
Proof.
  intros conv a b A B WA WB (Ia & La & Ja & Ga & Sa & Ca) (Ib & Lb & Jb & Gb & Sb & Cb) E1 E2.
  unfold int_merge. rewrite E1, E2.
  destruct (add_min_int_spec a (s_min b) (s_minT b) A B WA WB Ia La Ib Lb) as (M1 & M2 & M3 & M4).
  set (m1 := add_min_int a (s_min b) (s_minT b)) in *.
  assert (Jm : In (s_max m1, s_maxT m1) A) by (rewrite M3, M4; exact Ja).
  assert (Gm : forall p, In p A -> lex_ge (s_max m1, s_maxT m1) p) by (rewrite M3, M4; exact Ga).
  destruct (add_max_int_spec m1 (s_max b) (s_maxT b) A B WA WB Jm Gm Jb Gb) as (X1 & X2 & X3 & X4).
  unfold is_stat_of. cbn [s_min s_minT s_max s_maxT s_sum s_cnt].
  rewrite X3, X4. repeat split; try assumption.
  - rewrite sum64_app, Sa, Sb. reflexivity.
  - rewrite len_app, Ca, Cb. rewrite <- Z.add_mod by (unfold M64; lia). reflexivity.
Qed.

(* the exact merge: no side condition on the magnitudes *)
Theorem int_merge_exact_is_stat_of_union : forall a b A B,
  Forall Wp A -> Forall Wp B -> is_stat_of a A -> is_stat_of b B ->
  is_stat_of (int_merge (fun v => v) a b) (A ++ B).
Proof. intros. apply int_merge_conv_is_stat_of_union; try assumption; reflexivity. Qed.

Lemma is_stat_of_single : forall v t, W v -> is_stat_of (mkStat v v t t v 1) [(v, t)].
Proof.
  intros v t Hv. unfold is_stat_of. cbn [s_min s_minT s_max s_maxT s_sum s_cnt].
  split; [left; reflexivity|]. split; [intros p [<-|[]]; right; split; [reflexivity|lia]|].
  split; [left; reflexivity|]. split; [intros p [<-|[]]; right; split; [reflexivity|lia]|].
  split; [cbn [sum64]; rewrite Z.add_0_r; symmetry; apply Z.mod_small; exact Hv|reflexivity].
Qed.

(* and the float64-routed merge of today is NOT statistics of the union beyond 2^53: 2^53 + 1 comes back as 2^53 *)
Definition mg_a : Z := 9007199254741000.     (* 2^53 + 8 *)
Definition mg_b : Z := 9007199254740993.     (* 2^53 + 1 *)
Theorem int_merge_via_f64_refuted : exists a b A B,
  Forall Wp A /\ Forall Wp B /\ is_stat_of a A /\ is_stat_of b B /\ ~ is_stat_of (int_merge via_f64 a b) (A ++ B).
Proof.
  assert (Wa : W mg_a) by (unfold W, mg_a, M64; lia). assert (Wb : W mg_b) by (unfold W, mg_b, M64; lia).
  assert (W10 : W 10) by (unfold W, M64; lia). assert (W20 : W 20) by (unfold W, M64; lia).
  exists (mkStat mg_a mg_a 10 10 mg_a 1), (mkStat mg_b mg_b 20 20 mg_b 1), [(mg_a, 10)], [(mg_b, 20)].
  split; [constructor; [split; assumption|constructor]|].
  split; [constructor; [split; assumption|constructor]|].
  split; [apply is_stat_of_single; exact Wa|]. split; [apply is_stat_of_single; exact Wb|].
  intros (I & _).
  assert (E : s_min (int_merge via_f64 (mkStat mg_a mg_a 10 10 mg_a 1) (mkStat mg_b mg_b 20 20 mg_b 1)) = 9007199254740992)
    by (vm_compute; reflexivity).
  rewrite E in I. cbn [app] in I. destruct I as [Q|[Q|[]]]; inversion Q.
Qed.
