(* C07 - data file framing: chunk meta (engine/immutable/tssp_file_meta.go ChunkMeta.marshal / unmarshal), the fixed part
   of the trailer (trailer.go, table_stat.go), and the layout of segments inside a file. *)
From Coq Require Import ZArith List Bool.
From OG Require Import C07.Model C07.ModelRows.
Import ListNotations.
Open Scope Z_scope.

(* ---- chunk meta ---- *)
Definition cm_range := (Z * Z)%type.                 (* segment min time, max time (64-bit patterns) *)
Definition cm_seg := (Z * Z)%type.                   (* offset (64-bit pattern), size *)
Definition cm_col := (list Z * (Z * (list Z * list cm_seg)))%type.     (* name, type byte, pre-aggregation bytes, entries *)
(* series id, chunk offset, chunk size, time ranges (one per segment), column metas *)
Definition chunk_meta := (Z * (Z * (Z * (list cm_range * list cm_col))))%type.

Definition e_range : cm_range -> list Z := e_pair e_zint e_zint.
Definition d_range : dec_t cm_range := d_pair d_zint d_zint.
Definition e_cmseg : cm_seg -> list Z := e_pair e_zint (be 4).
Definition d_cmseg : dec_t cm_seg := d_pair d_zint (get_be 4).
(* n items without a count of their own (the count comes from a header field) *)
Definition e_fixed {A} (e : A -> list Z) (l : list A) : list Z := flat_map e l.
Definition d_fixed {A} (d : dec_t A) (n : nat) : dec_t (list A) := get_n d n.
Definition e_cmcol : cm_col -> list Z := e_pair (put_bytes 2) (e_pair (be 1) (e_pair (put_bytes 2) (e_fixed e_cmseg))).
Definition d_cmcol (segs : nat) : dec_t cm_col := d_pair (get_bytes 2) (d_pair (get_be 1) (d_pair (get_bytes 2) (d_fixed d_cmseg segs))).

Definition e_chunk_meta (m : chunk_meta) : list Z :=
  let '(sid, (off, (size, (trs, cols)))) := m in
  be 8 sid ++ e_zint off ++ be 4 size ++ be 4 (len cols) ++ be 4 (len trs) ++ e_fixed e_range trs ++ e_fixed e_cmcol cols.
Definition d_chunk_meta : dec_t chunk_meta := fun bs =>
  match get_be 8 bs with
  | Some (sid, r1) =>
    match d_zint r1 with
    | Some (off, r2) =>
      match get_be 4 r2 with
      | Some (size, r3) =>
        match get_be 4 r3 with
        | Some (cc, r4) =>
          match get_be 4 r4 with
          | Some (sc, r5) =>
            match d_fixed d_range (Z.to_nat sc) r5 with
            | Some (trs, r6) =>
              match d_fixed (d_cmcol (Z.to_nat sc)) (Z.to_nat cc) r6 with
              | Some (cols, r7) => Some ((sid, (off, (size, (trs, cols)))), r7)
              | None => None
              end
            | None => None
            end
          | None => None
          end
        | None => None
        end
      | None => None
      end
    | None => None
    end
  | None => None
  end.

Definition w64 (v : Z) : bool := (0 <=? v) && (v <? M64).
Definition cmcol_ok (segs : nat) (c : cm_col) : bool :=
  let '(name, (ty, (pre, ents))) := c in
  (len name <? 65536) && (0 <=? ty) && (ty <? 256) && (0 <? len pre) && (len pre <? 65536) &&
  (length ents =? segs)%nat && forallb (fun e => w64 (fst e) && (0 <=? snd e) && (snd e <? M32)) ents.
Definition chunk_meta_ok (m : chunk_meta) : bool :=
  let '(sid, (off, (size, (trs, cols)))) := m in
  w64 sid && w64 off && (0 <=? size) && (size <? M32) && (len cols <? M32) && (len trs <? M32) &&
  forallb (fun r => w64 (fst r) && w64 (snd r)) trs && forallb (cmcol_ok (length trs)) cols.

(* the layout the chunk builder produces: per column a 4-byte checksum, then its segments back to back, the chunk
   covering [off, off+size) exactly; offsets strictly follow each other *)
Fixpoint col_layout_ok (e : Z) (ents : list cm_seg) : option Z :=
  match ents with
  | [] => Some e
  | (o, s) :: r => if o =? e then col_layout_ok (e + s) r else None
  end.
Fixpoint cols_layout_ok (e : Z) (cols : list cm_col) : option Z :=
  match cols with
  | [] => Some e
  | (_, (_, (_, ents))) :: r => match col_layout_ok (e + 4) ents with Some e' => cols_layout_ok e' r | None => None end
  end.
Definition chunk_layout_ok (m : chunk_meta) : bool :=
  let '(_, (off, (size, (_, cols)))) := m in
  match cols_layout_ok off cols with Some e => e =? off + size | None => false end.

(* ---- trailer, fixed part: dataOffset dataSize indexSize metaIndexSize bloomSize idTimeSize idCount (zig-zag),
        minId maxId (plain), minTime maxTime metaIndexItemNum (zig-zag), bloomM bloomK (plain) ---- *)
Definition trailer_pattern : list bool := [true;true;true;true;true;true;true;false;false;true;true;true;false;false].
Fixpoint e_fields (pat : list bool) (vs : list Z) : list Z :=
  match pat, vs with
  | zig :: p, v :: r => (if zig then e_zint v else be 8 v) ++ e_fields p r
  | _, _ => []
  end.
Fixpoint d_fields (pat : list bool) (bs : list Z) : option (list Z * list Z) :=
  match pat with
  | [] => Some ([], bs)
  | zig :: p =>
      match (if zig then d_zint bs else get_be 8 bs) with
      | Some (v, r) => match d_fields p r with Some (l, r2) => Some (v :: l, r2) | None => None end
      | None => None
      end
  end.

(* ---- segments inside a file ---- *)
Definition slice (off size : Z) (file : list Z) : list Z := firstn (Z.to_nat size) (skipn (Z.to_nat off) file).
(* pieces written one after the other starting at `off`: (offset, size) of each *)
Fixpoint lay (off : Z) (pieces : list (list Z)) : list (Z * Z) :=
  match pieces with
  | [] => []
  | p :: r => (off, len p) :: lay (off + len p) r
  end.
(* what a piece of a data file is for this property: a column segment, or bytes this model does not interpret
   (magic, checksums, chunk metas, meta index, bloom filter, trailer) *)
Inductive piece := PSeg (t : ctype) (m : hmode) (block : list Z) (rows : list row) | PRaw (bs : list Z).
Definition piece_bytes (p : piece) : list Z :=
  match p with PSeg t m block rows => seg_enc_with t m block rows | PRaw bs => bs end.

(* ---- file-level time ranges (MsBuilder.WriteData / writeToDisk, chunkdata_builder.go getMinMaxTime, trailer.go, tssp_file.go) ----
   Times are signed 64-bit integers here (only compared, never wrapped). A range is (min, max). *)
Definition rng := (Z * Z)%type.
(* one segment of a time-sorted chunk: first and last row time *)
Definition seg_range (ts : list Z) : rng := (hd 0 ts, last ts 0).
(* ChunkMeta.MinMaxTime of a time-sorted chunk: min of the first segment, max of the last *)
Definition chunk_range (segs : list rng) : rng := (fst (hd (0, 0) segs), snd (last segs (0, 0))).
(* the trailer update of MsBuilder.WriteData and the meta-index update of writeToDisk, one step per chunk written:
   state = (number of chunks so far, (minTime, maxTime)); the first chunk initialises the range, every chunk extends it
   on either side *)
Definition tr_step (st : Z * rng) (r : rng) : Z * rng :=
  let '(cnt, (lo, hi)) := st in
  let lo1 := if cnt =? 0 then fst r else lo in
  let hi1 := if cnt =? 0 then snd r else hi in
  (cnt + 1, ((if lo1 >? fst r then fst r else lo1), (if hi1 <? snd r then snd r else hi1))).
Definition tr_fold (chunks : list rng) : Z * rng := fold_left tr_step chunks (0, (0, 0)).
(* util.TimeRange.Overlaps: does the query range q meet [lo, hi]? Used by Trailer.ContainsTime (file.ContainsByTime,
   ContainsValue) and by tsspFileReader.MetaIndex *)
Definition overlaps (q : rng) (lo hi : Z) : bool := (fst q <=? hi) && (lo <=? snd q).
(* a data file for this purpose: series -> segments -> row times *)
Definition file_chunk_ranges (file : list (list (list Z))) : list rng := map (fun segs => chunk_range (map seg_range segs)) file.
