(* C07 column segment layer: one-row mode and column header with null bitmap. *)
From Coq Require Import ZArith List Bool Lia ZifyBool ZifyNat.
From OG Require Import C07.Model C07.ProofsBase.
Import ListNotations.
Open Scope Z_scope.

Lemma bits_byte_roundtrip_lsb : forall b0 b1 b2 b3 b4 b5 b6 b7 : bool,
  bits_of_byte_lsb (bit b0 + 2 * bit b1 + 4 * bit b2 + 8 * bit b3 + 16 * bit b4 + 32 * bit b5 + 64 * bit b6 + 128 * bit b7)
  = [b0; b1; b2; b3; b4; b5; b6; b7].
Proof. destruct b0, b1, b2, b3, b4, b5, b6, b7; reflexivity. Qed.

Lemma nths_firstn_lsb : forall bs : list bool, exists pad,
  [nth 0 bs false; nth 1 bs false; nth 2 bs false; nth 3 bs false; nth 4 bs false; nth 5 bs false; nth 6 bs false; nth 7 bs false]
  = firstn 8 bs ++ pad /\ (pad = [] \/ skipn 8 bs = []).
Proof.
  intros bs.
  destruct bs as [|b0 [|b1 [|b2 [|b3 [|b4 [|b5 [|b6 [|b7 r]]]]]]]];
    cbn [nth firstn skipn]; eexists; (split; [cbn [app]; reflexivity | auto]).
Qed.

Lemma pack_bits_lsb_nil : forall k, pack_bits_lsb k [] = [].
Proof. destruct k; reflexivity. Qed.

Lemma pack_bits_lsb_spec : forall fuel bs, (length bs <= fuel)%nat ->
  exists pad, flat_map bits_of_byte_lsb (pack_bits_lsb fuel bs) = bs ++ pad.
Proof.
  induction fuel; intros bs H.
  - destruct bs; [|simpl in H; lia]. exists []. reflexivity.
  - destruct bs as [|b r] eqn:E; [exists []; reflexivity|]. rewrite <- E in *.
    assert (P : pack_bits_lsb (S fuel) bs = byte_of_bits_lsb bs :: pack_bits_lsb fuel (skipn 8 bs)) by (rewrite E; reflexivity).
    rewrite P. cbn [flat_map]. unfold byte_of_bits_lsb. rewrite bits_byte_roundtrip_lsb.
    destruct (nths_firstn_lsb bs) as [pad [EQ C]]. rewrite EQ.
    destruct C as [C|C].
    + subst pad. rewrite app_nil_r.
      destruct (IHfuel (skipn 8 bs)) as [pad' EP].
      { rewrite skipn_length. rewrite E in *. simpl in H. simpl length. lia. }
      rewrite EP. exists pad'. rewrite app_assoc, firstn_skipn. reflexivity.
    + rewrite C, pack_bits_lsb_nil. cbn [flat_map]. rewrite app_nil_r.
      exists pad. rewrite <- (firstn_skipn 8 bs) at 2. rewrite C, app_nil_r. reflexivity.
Qed.

Lemma pack_bits_lsb_len : forall f bits, len (pack_bits_lsb f bits) <= len bits.
Proof.
  induction f; intros bits; cbn [pack_bits_lsb]; [pose proof (len_nonneg bits); unfold len at 1; simpl; lia|].
  destruct bits as [|b r] eqn:E; [unfold len; simpl; lia|]. rewrite <- E.
  rewrite len_cons. specialize (IHf (skipn 8 bits)).
  assert (len (skipn 8 bits) + 1 <= len bits).
  { unfold len. rewrite skipn_length. rewrite E. simpl length. lia. }
  lia.
Qed.

Lemma nil_count_0_all_some : forall rows, nil_count rows = 0 -> validity rows = repeat true (length rows).
Proof.
  induction rows as [|r rows IH]; intros H; [reflexivity|].
  unfold nil_count in *. cbn [filter validity map length repeat] in *.
  destruct r; cbn [is_some negb] in *.
  - f_equal. apply IH. exact H.
  - rewrite len_cons in H. pose proof (len_nonneg (filter (fun r => negb (is_some r)) rows)). lia.
Qed.

Lemma filter_len_le {A} (f : A -> bool) : forall l, len (filter f l) <= len l.
Proof.
  induction l; cbn [filter]; [lia|]. destruct (f a); rewrite ?len_cons; lia.
Qed.

Lemma nil_count_all_none : forall rows, nil_count rows = len rows -> validity rows = repeat false (length rows).
Proof.
  induction rows as [|r rows IH]; intros H; [reflexivity|].
  unfold nil_count in *. cbn [filter validity map length repeat] in *.
  destruct r; cbn [is_some negb] in *.
  - rewrite len_cons in H. pose proof (filter_len_le (fun r => negb (is_some r)) rows). lia.
  - f_equal. apply IH. rewrite !len_cons in H. lia.
Qed.

Definition seg_payload (m : hmode) (block : list Z) (rows : list row) : list Z :=
  match m with HOne => col_val rows | _ => block end.

Lemma tag_ranges : forall t,
  (g_one_begin <? one_tag t) && (one_tag t <? g_one_end) = true /\
  (g_one_begin <? full_tag t) && (full_tag t <? g_one_end) = false /\ (g_full_begin <? full_tag t) && (full_tag t <? g_full_end) = true /\
  (g_one_begin <? empty_tag t) && (empty_tag t <? g_one_end) = false /\ (g_full_begin <? empty_tag t) && (empty_tag t <? g_full_end) = false /\
  (g_empty_begin <? empty_tag t) && (empty_tag t <? g_empty_end) = true /\
  (g_one_begin <? base_tag t) && (base_tag t <? g_one_end) = false /\ (g_full_begin <? base_tag t) && (base_tag t <? g_full_end) = false /\
  (g_empty_begin <? base_tag t) && (base_tag t <? g_empty_end) = false.
Proof. destruct t; vm_compute; repeat split. Qed.

(* whatever block follows the header, the reader recovers exactly the null pattern of the rows and hands exactly that
   block (one-row mode: the value) to the block decoder *)
Theorem seg_roundtrip : forall t m block rows, seg_applicable m rows = true ->
  seg_dec t (len rows) (seg_enc_with t m block rows) = Some (validity rows, seg_payload m block rows).
Proof.
  intros t m block rows H.
  destruct (tag_ranges t) as (T1 & T2 & T3 & T4 & T5 & T6 & T7 & T8 & T9).
  destruct m as [| | |pre post]; unfold seg_applicable in H.
  - (* one row *)
    destruct rows as [|[v|] [|r2 rest]]; try discriminate.
    unfold seg_enc_with, seg_dec, seg_payload, col_val. cbn [flat_map app]. rewrite app_nil_r. rewrite T1.
    destruct v as [|b v]; [unfold len in H; simpl in H; lia|]. reflexivity.
  - (* full *)
    repeat (apply andb_true_iff in H; destruct H as [H ?]).
    unfold seg_enc_with, seg_dec, seg_payload. cbn [app]. rewrite T2, T3.
    rewrite get_be_app by (rewrite pow256_4; lia).
    unfold len. rewrite Nat2Z.id. rewrite nil_count_0_all_some by lia. reflexivity.
  - (* empty *)
    repeat (apply andb_true_iff in H; destruct H as [H ?]).
    unfold seg_enc_with, seg_dec, seg_payload. cbn [app]. rewrite T4, T5, T6.
    rewrite get_be_app by (rewrite pow256_4; lia).
    unfold len. rewrite Nat2Z.id. rewrite nil_count_all_none by lia. reflexivity.
  - (* bitmap *)
    repeat (apply andb_true_iff in H; destruct H as [H ?]).
    unfold seg_enc_with, seg_dec, seg_payload. cbv zeta. cbn [app].
    set (bits := pre ++ validity rows ++ post).
    set (bm := pack_bits_lsb (length bits) bits).
    rewrite T7, T8, T9, Z.eqb_refl.
    assert (Lbits : len bits = len pre + len rows + len post).
    { unfold bits. rewrite !len_app. unfold validity, len at 2. rewrite map_length. fold (len rows). lia. }
    assert (Lbm : len bm <= len bits) by apply pack_bits_lsb_len.
    pose proof (len_nonneg pre). pose proof (len_nonneg post). pose proof (len_nonneg bm).
    pose proof (filter_len_le (fun r => negb (is_some r)) rows) as NC. fold (nil_count rows) in NC.
    pose proof (len_nonneg (filter (fun r => negb (is_some r)) rows)) as NC0. fold (nil_count rows) in NC0.
    rewrite get_be_app by (rewrite pow256_4; unfold M32 in *; lia).
    rewrite !len_app, !be_len4'.
    destruct (Z.ltb_spec (len bm + (4 + (4 + len block))) (len bm + 8)); [pose proof (len_nonneg block); lia|].
    rewrite firstn_len_app, skipn_len_app by reflexivity.
    rewrite get_be_app by (rewrite pow256_4; lia).
    rewrite get_be_app by (rewrite pow256_4; unfold M32 in *; lia).
    destruct (pack_bits_lsb_spec (length bits) bits (le_n _)) as [pad EP]. fold bm in EP. rewrite EP.
    unfold bits. rewrite <- app_assoc. rewrite skipn_len_app by reflexivity.
    rewrite <- app_assoc. rewrite len_app.
    assert (LV : len (validity rows) = len rows) by (unfold len, validity; rewrite map_length; reflexivity).
    rewrite LV. pose proof (len_nonneg (post ++ pad)).
    destruct (Z.ltb_spec (len rows + len (post ++ pad)) (len rows)); [lia|].
    rewrite firstn_len_app by (symmetry; exact LV). reflexivity.
Qed.

(* some header mode is always applicable to a non-empty segment: the bitmap header with byte-aligned padding *)
Theorem seg_bitmap_always_applicable : forall rows, 0 < len rows < M32 - 16 ->
  seg_applicable (HBitmap [] (repeat false (Z.to_nat ((8 - len rows mod 8) mod 8)))) rows = true.
Proof.
  intros rows H. unfold seg_applicable.
  set (p := (8 - len rows mod 8) mod 8).
  assert (0 <= p < 8) by (apply Z.mod_pos_bound; lia).
  assert (L : len (repeat false (Z.to_nat p)) = p) by (unfold len; rewrite repeat_length; lia).
  rewrite L. change (len (@nil bool)) with 0.
  assert ((0 + len rows + p) mod 8 = 0).
  { unfold p. pose proof (Z.mod_pos_bound (len rows) 8). pose proof (Z.div_mod (len rows) 8).
    destruct (Z.eq_dec (len rows mod 8) 0) as [E|E].
    - rewrite E. change ((8 - 0) mod 8) with 0. lia.
    - rewrite (Z.mod_small (8 - len rows mod 8)) by lia.
      replace (0 + len rows + (8 - len rows mod 8)) with (8 * (len rows / 8 + 1)) by lia.
      rewrite Z.mul_comm. apply Z_mod_mult. }
  lia.
Qed.
