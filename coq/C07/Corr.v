(* C07 correspondence evaluator. For one harness case (input, the mode the implementation chose with the choices read
   from its bytes, the real bytes, what the implementation decoded) it returns a flag word:
     1  the chosen mode is not applicable to the input           (the implementation picked a mode it must not pick)
     2  enc_with of that mode differs from the real bytes         (format drift)
     4  the model's decoder, run on the REAL bytes, does not return what is expected
   Third-party compressors are instantiated by one-entry tables (payload found in the real bytes <-> what the real
   third-party decoder returned for it), so the comparison covers openGemini's own framing and the raw layout fed to
   the compressor. *)
From Coq Require Import ZArith List Bool.
From OG Require Import C07.Gen_Consts C07.Model C07.ModelRows C07.ModelFile C07.ModelPreAgg C07.ModelCMSelf C07.ModelStats.
Import ListNotations.
Open Scope Z_scope.

Definition tbl_c (d c : list Z) : list Z -> list Z := fun x => if list_eqb x d then c else [].
Definition tbl_d (c d : list Z) : list Z -> option (list Z) := fun x => if list_eqb x c then Some d else None.
Definition tbl_co (d c : list Z) : list Z -> option (list Z) := fun x => if list_eqb x d then Some c else None.

Definition flags (app : bool) (enc real : list Z) (dec : option (list Z)) (expect : list Z) : Z :=
  (if app then 0 else 1) + (if list_eqb enc real then 0 else 2) +
  (match dec with Some r => if list_eqb r expect then 0 else 4 | None => 4 end).

Definition check_int (d c : list Z) (m : imode) (vs real : list Z) : Z :=
  flags (int_applicable (tbl_c d c) m vs) (int_enc_with (tbl_c d c) m vs) real (int_dec (tbl_d c d) real) vs.

Definition check_time (d c : list Z) (m : tmode) (vs real : list Z) : Z :=
  flags (time_applicable (tbl_c d c) m vs) (time_enc_with (tbl_c d c) m vs) real (time_dec (tbl_d c d) real) vs.

Definition b2z (l : list bool) : list Z := map bit l.
Definition z2b (l : list Z) : list bool := map (fun v => v =? 1) l.
Definition check_bool (vs real : list Z) : Z :=
  flags (bool_applicable (z2b vs) && forallb (fun v => (v =? 0) || (v =? 1)) vs) (bool_enc (z2b vs)) real
        (match bool_dec real with Some r => Some (b2z r) | None => None end) vs.

(* float: d/c bytes for snappy, dv/c for gorilla; expect = what the implementation decoded.
   returns (flags under the repaired model, flags under the model of today's code) *)
Definition check_float (d c dv : list Z) (m : fmode) (vs real expect : list Z) : Z * Z :=
  let gsc := tbl_c d c in let gsd := tbl_d c d in
  let gc := tbl_co dv c in let gd := tbl_d c dv in
  let nc := fun _ : list Z => @nil Z in let nd := fun _ : list Z => @None (list Z) in
  (flags (float_applicable gc m vs) (float_enc_with gsc gc nc zero_repaired m vs) real (float_dec gsd gd nd real) expect,
   flags (float_applicable_current gc m vs) (float_enc_with gsc gc nc zero_current m vs) real (float_dec gsd gd nd real) expect).

(* the encoder panicked: does the model of today's selection reach the gorilla branch with a failing encoder?
   (gorilla encoder instantiated as "returns an error", sampling oracle as "not snappy") *)
Definition float_panics_current (vs : list Z) : bool :=
  match float_encode (fun _ => []) (fun _ => None) (fun _ => []) zero_current (fun _ => false) f_eq false vs with
  | Panic => true
  | Ok _ => false
  end.

Fixpoint lists_eqb (a b : list (list Z)) : bool :=
  match a, b with
  | [], [] => true
  | x :: a', y :: b' => list_eqb x y && lists_eqb a' b'
  | _, _ => false
  end.
Definition check_string (d c : list Z) (m : smode) (ss : list (list Z)) (real : list Z) : Z :=
  (if string_applicable (fun _ => tbl_c d c) m ss then 0 else 1) +
  (if list_eqb (string_enc_with (fun _ => tbl_c d c) m ss) real then 0 else 2) +
  (match string_dec (fun _ => tbl_d c d) real with Some r => if lists_eqb r ss then 0 else 4 | None => 4 end).

(* version-1 string block built by the real packStringV1: 2 the model block differs; 4 the model reader does not return
   the strings from the real bytes *)
Definition check_string_v1 (ss : list (list Z)) (real : list Z) : Z :=
  (if list_eqb (string_block_v1 ss) real then 0 else 2) +
  (match string_dec (fun _ _ => None) real with Some r => if lists_eqb r ss then 0 else 4 | None => 4 end).

(* WAL frame: real frame bytes, and the model's verdict on every strict prefix (number of prefixes NOT rejected) *)
Fixpoint count_accepted_prefixes (wd : list Z -> option (list Z)) (k : nat) (bs : list Z) : Z :=
  match k with
  | O => 0
  | S j => (match frame_dec wd (firstn j bs) with Some _ => 1 | None => 0 end) + count_accepted_prefixes wd j bs
  end.
Definition check_frame (d c : list Z) (typ : Z) (payload real : list Z) : Z :=
  (if frame_applicable (tbl_c d c) typ payload then 0 else 1) +
  (if list_eqb (frame_enc (tbl_c d c) typ payload) real then 0 else 2) +
  (match frame_dec (tbl_d c d) real with
   | Some (t, p, rest) => if (t =? typ) && list_eqb p payload && list_eqb rest [] then 0 else 4
   | None => 4 end) +
  (if count_accepted_prefixes (tbl_d c d) (length real) real =? 0 then 0 else 8) +
  (* model of today's reader: a header-only tail with the same record's payload still in the pooled buffer is accepted *)
  (match frame_dec_current (tbl_d c d) c (firstn 5 real) with
   | Some (t, p, _) => if (t =? typ) && list_eqb p payload then 0 else 16
   | None => if len c =? 0 then 0 else 16 end).

(* expand 8-byte big-endian words back into bytes (the driver ships long byte strings as 64-bit words) *)
Definition unwords (n : Z) (ws : list Z) : list Z := firstn (Z.to_nat n) (flat_map (be 8) ws).

(* column segment: header mode read from the real bytes, rows of the segment, real segment bytes *)
Fixpoint bools_eqb (a b : list bool) : bool :=
  match a, b with
  | [], [] => true
  | x :: a', y :: b' => Bool.eqb x y && bools_eqb a' b'
  | _, _ => false
  end.
Definition check_seg (t : ctype) (m : hmode) (rows : list row) (real : list Z) : Z :=
  (if seg_applicable m rows then 0 else 1) +
  match seg_dec t (len rows) real with
  | Some (valid, payload) =>
      (if bools_eqb valid (validity rows) then 0 else 4) +
      (if list_eqb (seg_enc_with t m payload rows) real then 0 else 2)
  | None => 6
  end.
Definition le8 (v : Z) : list Z := le 8 v.

(* rows codec: 1 some row breaks a length-field bound; 2 e_batch differs from the real bytes; 4 the model decoder does
   not accept the real bytes or what it returns does not re-encode to them; 8 the model accepts one of the given
   strict prefixes (row boundaries and their neighbours) *)
Definition check_rows (rs : list rrow) (real : list Z) (ks : list Z) : Z :=
  (if forallb row_ok rs && (len rs <? M32) then 0 else 1) +
  (if list_eqb (e_batch rs) real then 0 else 2) +
  (match d_batch real with Some rs' => if list_eqb (e_batch rs') real then 0 else 4 | None => 4 end) +
  (if forallb (fun k => match d_batch (firstn (Z.to_nat k) real) with None => true | Some _ => false end) ks then 0 else 8).

(* record.Marshal: 1 a length-field bound is broken; 2 e_record differs from the real bytes; 4 the model decoder does
   not return the record from the real bytes *)
Definition check_record (r : rrecord) (real : list Z) : Z :=
  (if record_ok r then 0 else 1) +
  (if list_eqb (e_record r) real then 0 else 2) +
  (match d_record real with Some (r', []) => if list_eqb (e_record r') real then 0 else 4 | _ => 4 end).

(* ... 8 the model decoder accepts one of the given strict prefixes *)
Definition check_record_pre (r : rrecord) (real : list Z) (ks : list Z) : Z :=
  check_record r real +
  (if forallb (fun k => match d_record (firstn (Z.to_nat k) real) with None => true | Some _ => false end) ks then 0 else 8).

(* chunk meta: 1 a field is out of range / the entry counts do not match the segment count; 2 e_chunk_meta differs
   from the real bytes; 4 the model decoder does not return it from the real bytes; 8 the recorded offsets are not the
   builder's layout (per column a 4-byte checksum then its segments back to back, covering exactly [offset, offset+size)) *)
Definition check_cm (m : chunk_meta) (real : list Z) : Z :=
  (if chunk_meta_ok m then 0 else 1) +
  (if list_eqb (e_chunk_meta m) real then 0 else 2) +
  (match d_chunk_meta real with Some (m', []) => if list_eqb (e_chunk_meta m') real then 0 else 4 | _ => 4 end) +
  (if chunk_layout_ok m then 0 else 8).

(* trailer: the 14 fixed fields; 2 their encoding is not the head of the real trailer bytes; 4 the model decoder does
   not return them from the real bytes *)
Definition check_trailer (vs : list Z) (real : list Z) : Z :=
  (if (length vs =? length trailer_pattern)%nat && words_ok vs then 0 else 1) +
  (if list_eqb (e_fields trailer_pattern vs) (firstn (length (e_fields trailer_pattern vs)) real) then 0 else 2) +
  (match d_fields trailer_pattern real with Some (vs', _) => if list_eqb vs' vs then 0 else 4 | None => 4 end).

(* ---- stored statistics blocks. One case = one statistics value marshalled by the real writer under each
   chunk-meta-compress-mode; per mode: the real bytes and what the real reader returned for them. Flags per mode:
     1  no applicable layout (one-row, fixed, variable-length / padded with any scale indices and flag byte) reproduces
        the real bytes: the writer used a layout the length-dispatching reader cannot take for what it is
     2  (boolean/string/time) the single layout differs from the real bytes
     4  the model reader, run on the REAL bytes, does not return what the real reader returned
     8  a field is out of range
    32  informational: the bytes differ from the model of today's writer (its choice among applicable layouts)
   floats: flags under the repaired zero test + 64 * flags under today's zero test. The per-mode words are packed
   base 4096 in mode order. *)
Definition stat_eqb (a b : stat) : bool :=
  (s_min a =? s_min b) && (s_max a =? s_max b) && (s_minT a =? s_minT b) && (s_maxT a =? s_maxT b) &&
  (s_sum a =? s_sum b) && (s_cnt a =? s_cnt b).
(* candidate layouts: one-row, fixed, and the variable-length / padded layouts with the flag byte and the scale indices
   read from the real bytes (a wrong guess can only raise flag 1, never hide a difference) *)
Definition head_k (bs : list Z) : Z := match bs with k :: _ => k | [] => 0 end.
Definition ks_after_values (r : list Z) : list (Z * Z) :=      (* r = the bytes from the count on *)
  match get_uvarint r with
  | Some (_, r1) => match d_scaled r1 with Some (_, r2) => [(head_k r1, head_k r2)] | None => [] end
  | None => []
  end.
Definition vl_cands (f : bool) (r : list Z) : list layout :=
  flat_map (fun k => [LVlc f (fst k) (snd k); LPad f (fst k) (snd k)]) (ks_after_values r).
Definition int_cands (real : list Z) : list layout :=
  LOne :: LFixed :: match d_pair d_varint (d_pair d_varint d_varint) real with Some (_, r) => vl_cands true r | None => [] end.
Definition fl_cands (real : list Z) : list layout :=
  LOne :: LFixed :: match real with
                    | [] => []
                    | flag :: r => if flag =? 0 then vl_cands false r else vl_cands true (skipn 24 r)
                    end.
Definition dec_flag (d : option (stat * list Z)) (got : stat) : Z :=
  match d with Some (s', _) => if stat_eqb s' got then 0 else 4 | None => 4 end.
Definition check_pa_int (self : bool) (s : stat) (real : list Z) (got : stat) : Z :=
  (if existsb (fun l => pai_applicable l s && list_eqb (pai_enc_with l s) real) (int_cands real) then 0 else 1) +
  dec_flag (pai_dec real) got + (if stat_ok s then 0 else 8) +
  (if list_eqb (int_marshal self s) real then 0 else 32).
Definition check_pa_float (self : bool) (s : stat) (real : list Z) (got : stat) : Z :=
  let f (zero : stat -> bool) (marshal : bool -> stat -> list Z) :=
    (if existsb (fun l => fl_applicable_g zero l s && list_eqb (fl_enc_with l s) real) (fl_cands real)
     then 0 else 1) +
    dec_flag (fl_dec real) got + (if stat_ok s then 0 else 8) +
    (if list_eqb (marshal self s) real then 0 else 32) in
  f fl_zero_repaired fl_marshal + 64 * f fl_zero_current fl_marshal_current.
Definition check_pa_bool (self : bool) (s : stat) (real : list Z) (got : stat) : Z :=
  (if bool_stat_ok s then 0 else 8) + (if list_eqb (bool_marshal s) real then 0 else 2) + dec_flag (bool_pa_dec real) got.
Definition check_pa_string (self : bool) (s : stat) (real : list Z) (got : stat) : Z :=
  (if word_ok (s_cnt s) && stat_eqb s (cnt_stat (s_cnt s)) then 0 else 8) + (if list_eqb (str_marshal s) real then 0 else 2) +
  dec_flag (str_pa_dec real) got.
Definition check_pa_time (self : bool) (s : stat) (real : list Z) (got : stat) : Z :=
  (if (0 <=? s_cnt s) && (s_cnt s <? M32) && stat_eqb s (cnt_stat (s_cnt s)) then 0 else 8) +
  (if list_eqb (time_marshal s) real then 0 else 2) + dec_flag (time_pa_dec real) got.
Fixpoint pa_modes (f : bool -> stat -> list Z -> stat -> Z) (s : stat) (l : list (Z * (list Z * stat))) : Z :=
  match l with
  | [] => 0
  | (mode, (real, got)) :: r => f (mode =? g_cm_mode_self) s real got + 4096 * pa_modes f s r
  end.

(* file-level time ranges: chunks = (first row time, last row time) of every series in file order (signed), the
   trailer's (minTime, maxTime), and the meta-index entries in file order as (chunk count, (minTime, maxTime)).
   2  the fold over all chunks is not the real trailer range;  4  the fold over the chunks of some meta-index block is
   not that entry's range, or the counts do not add up to the number of chunks *)
Definition rng_eqb (a b : rng) : bool := (fst a =? fst b) && (snd a =? snd b).
Fixpoint blocks_ok (chunks : list rng) (blocks : list (Z * rng)) : bool :=
  match blocks with
  | [] => match chunks with [] => true | _ => false end
  | (cnt, r) :: rest =>
      let n := Z.to_nat cnt in
      let '(c', r') := tr_fold (firstn n chunks) in
      (0 <? cnt) && (c' =? cnt) && rng_eqb r' r && blocks_ok (skipn n chunks) rest
  end.
Definition check_ranges (chunks : list rng) (trailer : rng) (blocks : list (Z * rng)) : Z :=
  (let '(n, r) := tr_fold chunks in if (n =? len chunks) && rng_eqb r trailer then 0 else 2) +
  (if blocks_ok chunks blocks then 0 else 4).

(* chunk meta in the mode-self layout: 1 not well-formed for the scale index / dictionary indices read from the real
   bytes (a scale that does not divide a delta, a column whose index does not name it, segments not contiguous ...);
   2 e_cm_self differs from the real bytes; 4 the model reader with the dictionary does not return it from the real bytes *)
Definition check_cm_self (dict : list (list Z)) (k : Z) (idxs : list Z) (m : chunk_meta) (real : list Z) : Z :=
  (if cm_self_ok dict k idxs m && (0 <=? k) && (k <? n_scales) then 0 else 1) +
  (if list_eqb (e_cm_self k idxs m) real then 0 else 2) +
  (match d_cm_self dict real with Some (m', []) => if list_eqb (e_cm_self k idxs m') real then 0 else 4 | _ => 4 end).

(* stored statistics of one column of a written file (as the real reader decodes them) against the builder models run on
   the rows, segment by segment, seen through the statistics codec of the file's chunk-meta-compress-mode. Four variants of
   the tree: builder repaired / today's (finding C07-preagg-sentinel-init) x float zero test of the variable-length form
   repaired / today's (finding C07-preagg-vlc-zero-flag). Bit set = that variant does NOT give the stored statistics:
     1 (repaired builder, repaired codec) = the reference   2 (today's builder, repaired codec)
     4 (repaired builder, today's codec)                    8 (today's builder, today's codec)
   A single-row block stores only (min, minTime): every variant is viewed through that marshalling. Floats: the sum (IEEE
   addition) is not compared. *)
Definition one_row_view (s : stat) : stat := if s_cnt s =? 1 then one_stat (s_min s) (s_minT s) else s.
Definition check_stats_int (self : bool) (segs : list (list srow)) (stored : stat) : Z :=
  let a := if stat_eqb (one_row_view (int_build true segs)) stored then 0 else 1 in
  let b := if stat_eqb (one_row_view (int_build false segs)) stored then 0 else 1 in
  a + 2 * b + 4 * a + 8 * b.
Definition no_sum (s : stat) : stat := set_sum s 0.
(* what today's float writer + reader make of statistics under mode self: min = max = 0 as floats -> all three +0.0 *)
Definition zero_flag_view (self : bool) (s : stat) : stat :=
  if self && negb (s_cnt s =? 1) && fl_zero_current s then mkStat 0 0 (s_minT s) (s_maxT s) 0 (s_cnt s) else s.
Definition check_stats_float (self : bool) (segs : list (list srow)) (stored : stat) : Z :=
  let add := fun _ _ : Z => 0 in
  let rep := one_row_view (fl_build add true segs) in
  let cur := one_row_view (fl_build add false segs) in
  let ne (x : stat) := if stat_eqb (no_sum x) (no_sum stored) then 0 else 1 in
  ne rep + 2 * ne cur + 4 * ne (zero_flag_view self rep) + 8 * ne (zero_flag_view self cur).
(* bitwise or of the per-column words *)
Fixpoint lor_all (l : list Z) : Z := match l with [] => 0 | x :: r => Z.lor x (lor_all r) end.
