From Coq Require Import ZArith List Bool.
From OG Require Import C07.Model C07.Proofs.
Import ListNotations.
Open Scope Z_scope.

Theorem C07_zigzag_range : forall u, 0 <= u < M64 -> 0 <= zz u < M64.
Proof. exact zz_range. Qed.
Print Assumptions C07_zigzag_range.
