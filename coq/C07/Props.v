(* C07 property theorems. Statements only; proofs are `exact lemma`. Third-party compressors appear as universally
   quantified functions with their round-trip behaviour as premises. All theorems are for every input (no bound). *)
From Coq Require Import ZArith List Bool Lia.
From OG Require Import C07.Model C07.ModelRows C07.ModelFile C07.ModelPreAgg C07.ModelCMSelf C07.ModelStats C07.ModelMerge C07.ModelWhole C07.ProofsPreAgg C07.ProofsCMSelf C07.ProofsStats C07.ProofsMerge C07.ProofsMerge2 C07.ProofsWhole C07.ProofsWhole2 C07.ProofsFile C07.ProofsRows C07.ProofsBase C07.ProofsS8 C07.ProofsInt C07.ProofsBool C07.ProofsFloat C07.ProofsString C07.ProofsSeg.
Import ListNotations.
Open Scope Z_scope.

(* ---- primitives ---- *)
Theorem C07_zigzag_inv : forall u, 0 <= u < M64 -> unzz (zz u) = u.
Proof. exact unzz_zz. Qed.
Print Assumptions C07_zigzag_inv.

Theorem C07_zigzag_onto : forall w, 0 <= w < M64 -> zz (unzz w) = w /\ 0 <= unzz w < M64.
Proof. exact zz_unzz. Qed.

Theorem C07_uvarint_roundtrip : forall v rest, 0 <= v < M64 -> get_uvarint (put_uvarint v ++ rest) = Some (v, rest).
Proof. exact uvarint_roundtrip. Qed.
Print Assumptions C07_uvarint_roundtrip.

Theorem C07_be_roundtrip : forall n v rest, 0 <= v < 256 ^ Z.of_nat n -> get_be n (be n v ++ rest) = Some (v, rest).
Proof. exact get_be_app. Qed.

Theorem C07_le_values_roundtrip : forall vs, words_ok vs = true -> unle_all (le_bytes vs) = Some vs.
Proof. exact unle_all_le_bytes. Qed.

(* ---- simple8b: any selector sequence that fits decodes back; one always exists below 2^60 ---- *)
Theorem C07_simple8b_roundtrip : forall sels vs, s8_applicable sels vs = true -> s8_decode (s8_encode sels vs) = vs.
Proof. exact s8_roundtrip. Qed.
Print Assumptions C07_simple8b_roundtrip.

Theorem C07_simple8b_total : forall vs, forallb (fun v => (0 <=? v) && (v <? M60)) vs = true ->
  s8_applicable (s8_trivial_sels vs) vs = true.
Proof. exact s8_trivial_applicable. Qed.

(* ---- integer block: const-delta / simple8b (any selectors) / zstd / uncompressed ---- *)
Theorem C07_int_block_roundtrip : forall (zc : list Z -> list Z) (zd : list Z -> option (list Z)),
  (forall x, bytes_ok x = true -> zd (zc x) = Some x) ->
  forall m vs, int_applicable zc m vs = true -> int_dec zd (int_enc_with zc m vs) = Some vs.
Proof. exact int_block_roundtrip. Qed.
Print Assumptions C07_int_block_roundtrip.

Theorem C07_int_encode_total : forall zc vs, words_ok vs = true -> 8 * len vs < M32 -> int_applicable zc IRaw vs = true.
Proof. exact int_raw_always_applicable. Qed.

(* ---- timestamp block: const-delta / scaled simple8b (any scale dividing every delta) / snappy / uncompressed ---- *)
Theorem C07_time_block_roundtrip : forall (sc : list Z -> list Z) (sd : list Z -> option (list Z)),
  (forall x, bytes_ok x = true -> sd (sc x) = Some x) ->
  forall m vs, time_applicable sc m vs = true -> time_dec sd (time_enc_with sc m vs) = Some vs.
Proof. exact time_block_roundtrip. Qed.
Print Assumptions C07_time_block_roundtrip.

Theorem C07_time_encode_total : forall sc vs, words_ok vs = true -> 8 * len vs < M32 -> time_applicable sc TRaw vs = true.
Proof. exact time_raw_always_applicable. Qed.

(* ---- boolean block ---- *)
Theorem C07_bool_block_roundtrip : forall bs, bool_applicable bs = true -> bool_dec (bool_enc bs) = Some bs.
Proof. exact bool_block_roundtrip. Qed.
Print Assumptions C07_bool_block_roundtrip.

(* ---- float container (repaired zero test): none / same-value / RLE (any run split) / snappy / gorilla / MLF ---- *)
Theorem C07_float_container_roundtrip :
  forall (gsc : list Z -> list Z) (gsd : list Z -> option (list Z)) (gor_c gor_d : list Z -> option (list Z))
         (mlf_c : list Z -> list Z) (mlf_d : list Z -> option (list Z)),
  (forall x, bytes_ok x = true -> gsd (gsc x) = Some x) ->
  (forall vs g, words_ok vs = true -> gor_c vs = Some g -> gor_d g = Some vs) ->
  (forall vs, words_ok vs = true -> mlf_d (mlf_c vs) = Some vs) ->
  forall m vs, float_applicable gor_c m vs = true ->
  float_dec gsd gor_d mlf_d (float_enc_with gsc gor_c mlf_c zero_repaired m vs) = Some vs.
Proof. exact float_container_roundtrip. Qed.
Print Assumptions C07_float_container_roundtrip.

Theorem C07_rle_roundtrip : forall runs vs, words_ok vs = true -> rle_applicable runs vs = true -> rle_dec (rle_enc runs vs) = vs.
Proof. exact rle_roundtrip. Qed.

(* encode_total for floats, end to end: the REPAIRED adaptive encoder (bit-pattern comparison, gorilla error tested
   before use) returns a block for every column - whatever the sampling heuristic answers, whether or not the gorilla
   encoder errs - and the block decodes to exactly the column *)
Theorem C07_float_encode_total :
  forall (gsc : list Z -> list Z) (gsd : list Z -> option (list Z)) (gor_c gor_d : list Z -> option (list Z))
         (mlf_c : list Z -> list Z) (mlf_d : list Z -> option (list Z)),
  (forall x, bytes_ok x = true -> gsd (gsc x) = Some x) ->
  (forall vs g, words_ok vs = true -> gor_c vs = Some g -> gor_d g = Some vs) ->
  (forall vs, words_ok vs = true -> mlf_d (mlf_c vs) = Some vs) ->
  forall (prefer_snappy : list Z -> bool) vs, words_ok vs = true -> len vs < 65536 ->
  exists bs, float_encode gsc gor_c mlf_c zero_repaired prefer_snappy Z.eqb true vs = Ok bs /\
             float_dec gsd gor_d mlf_d bs = Some vs.
Proof. exact float_encode_repaired_total. Qed.
Print Assumptions C07_float_encode_total.

(* ---- string block: offsets -> lengths packing, any compressor mode ---- *)
Theorem C07_string_block_roundtrip : forall (cc : smode -> list Z -> list Z) (cd : smode -> list Z -> option (list Z)),
  (forall m x, bytes_ok x = true -> cd m (cc m x) = Some x) ->
  forall m ss, ss <> [] -> string_applicable cc m ss = true -> string_dec cd (string_enc_with cc m ss) = Some ss.
Proof. exact string_block_roundtrip. Qed.
Print Assumptions C07_string_block_roundtrip.

(* the deprecated version-1 string packing (decode only; reachable from files written by older versions): the version
   dispatch recognises it (its first word is a data length below the version words) and the block decodes to exactly
   its strings, for any number of strings *)
Theorem C07_string_block_v1_roundtrip : forall (cd : smode -> list Z -> option (list Z)) ss,
  8 + len (concat ss) + 4 * len ss < M32 - 3 -> string_dec cd (string_block_v1 ss) = Some ss.
Proof. exact string_block_v1_roundtrip. Qed.
Print Assumptions C07_string_block_v1_roundtrip.

(* ---- column segment: one-row mode and column header (full / empty / null bitmap with any offset and padding) ---- *)
Theorem C07_segment_roundtrip : forall t m block rows, seg_applicable m rows = true ->
  seg_dec t (len rows) (seg_enc_with t m block rows) = Some (validity rows, seg_payload m block rows).
Proof. exact seg_roundtrip. Qed.
Print Assumptions C07_segment_roundtrip.

Theorem C07_segment_encode_total : forall rows, 0 < len rows < M32 - 16 ->
  seg_applicable (HBitmap [] (repeat false (Z.to_nat ((8 - len rows mod 8) mod 8)))) rows = true.
Proof. exact seg_bitmap_always_applicable. Qed.

(* one-row mode is NOT applicable to a single non-null empty string: its block would read back as a null *)
Example C07_ex_one_row_empty_string :
  seg_applicable HOne [Some []] = false /\
  seg_dec CString 1 (seg_enc_with CString HOne [] [Some []]) = Some ([false], []) /\
  seg_applicable HOne [Some [104; 105]] = true /\ seg_applicable HFull [Some []] = true /\
  seg_applicable (HBitmap [true; false] [false; false; false]) [None; Some [1]; None] = true.
Proof. vm_compute. repeat split. Qed.

(* ---- WAL record frame ---- *)
Theorem C07_frame_roundtrip : forall (wc : list Z -> list Z) (wd : list Z -> option (list Z)),
  (forall x, bytes_ok x = true -> wd (wc x) = Some x) ->
  forall typ p rest, frame_applicable wc typ p = true -> frame_dec wd (frame_enc wc typ p ++ rest) = Some (typ, p, rest).
Proof. exact frame_roundtrip. Qed.
Print Assumptions C07_frame_roundtrip.

(* every strict prefix of a record is recognised as incomplete, whatever the decompressor does with a short input *)
Theorem C07_frame_prefix_rejected : forall (wc : list Z -> list Z) (wd : list Z -> option (list Z)) typ p k,
  len (wc p) < M32 -> (k < length (frame_enc wc typ p))%nat -> frame_dec wd (firstn k (frame_enc wc typ p)) = None.
Proof. exact frame_prefix_rejected. Qed.
Print Assumptions C07_frame_prefix_rejected.

(* a log file whose last record was cut short replays exactly the complete records *)
Theorem C07_replay_torn_tail : forall (wc : list Z -> list Z) (wd : list Z -> option (list Z)),
  (forall x, bytes_ok x = true -> wd (wc x) = Some x) ->
  forall recs typ p k fuel,
  forallb (fun r => frame_applicable wc (fst r) (snd r)) recs = true ->
  len (wc p) < M32 -> (k < length (frame_enc wc typ p))%nat -> (length recs < fuel)%nat ->
  replay wd fuel (file_of wc recs ++ firstn k (frame_enc wc typ p)) = recs.
Proof. exact replay_torn_tail. Qed.
Print Assumptions C07_replay_torn_tail.

(* ---- rows codec (FastMarshalMultiRows / FastUnmarshalMultiRows) ---- *)
Theorem C07_rows_roundtrip : forall rs trailing, Forall (fun r => row_ok r = true) rs -> len rs < M32 ->
  d_batch (e_batch rs ++ trailing) = Some rs.
Proof. exact rows_roundtrip. Qed.
Print Assumptions C07_rows_roundtrip.

(* every strict prefix of a marshalled batch is rejected, in particular one cut exactly at a row boundary *)
Theorem C07_rows_prefix_rejected : forall rs k, Forall (fun r => row_ok r = true) rs -> len rs < M32 ->
  (k < length (e_batch rs))%nat -> d_batch (firstn k (e_batch rs)) = None.
Proof. exact rows_prefix_rejected. Qed.
Print Assumptions C07_rows_prefix_rejected.

Theorem C07_rows_cut_at_row_boundary_rejected : forall rs1 r rs2,
  Forall (fun r => row_ok r = true) (rs1 ++ r :: rs2) -> len (rs1 ++ r :: rs2) < M32 -> e_row r <> [] ->
  d_batch (be 4 (len (rs1 ++ r :: rs2)) ++ [1] ++ flat_map e_row rs1) = None.
Proof. exact rows_cut_at_row_boundary_rejected. Qed.

Example C07_ex_rows :
  let r1 : rrow := ([99;112;117], ([], ([([104], [97])], ([([118], FNum 3 4609434218613702656); ([115], FStr [104;105])], ([], 100))))) in
  let r2 : rrow := ([109], ([1;2], ([], ([([102], FNum 1 0)], ([(7, [0; 7])], M64 - 1))))) in
  row_ok r1 = true /\ row_ok r2 = true /\ d_batch (e_batch [r1; r2]) = Some [r1; r2] /\
  d_batch (firstn (5 + length (e_row r1)) (e_batch [r1; r2])) = None.
Proof. vm_compute. repeat split. Qed.

(* ---- data file framing ---- *)
Theorem C07_chunk_meta_roundtrip : forall m rest, chunk_meta_ok m = true ->
  d_chunk_meta (e_chunk_meta m ++ rest) = Some (m, rest).
Proof. exact chunk_meta_roundtrip. Qed.
Print Assumptions C07_chunk_meta_roundtrip.

Theorem C07_trailer_fixed_roundtrip : forall vs rest, length vs = length trailer_pattern -> Forall (fun v => 0 <= v < M64) vs ->
  d_fields trailer_pattern (e_fields trailer_pattern vs ++ rest) = Some (vs, rest).
Proof. intros. apply trailer_fixed_roundtrip; assumption. Qed.

(* pieces written one after the other never overlap and keep file order (offsets monotone) *)
Theorem C07_layout_monotone : forall pieces off, Sorted.StronglySorted (fun a b => fst a + snd a <= fst b) (lay off pieces).
Proof. exact lay_sorted. Qed.

(* file_roundtrip, composed from the segment round trip: whatever else a file holds (magic, checksums, metas, bloom
   filter, trailer = PRaw), every column segment written into it is found at the (offset, size) recorded for it and
   decodes to the null pattern of its rows and to the block that was stored *)
Theorem C07_file_roundtrip : forall pieces pre post,
  Forall2 (fun p e =>
             match p with
             | PSeg t m block rows =>
                 seg_applicable m rows = true ->
                 seg_dec t (len rows) (slice (fst e) (snd e) (pre ++ concat (map piece_bytes pieces) ++ post))
                 = Some (validity rows, seg_payload m block rows)
             | PRaw _ => True
             end)
          pieces (lay (len pre) (map piece_bytes pieces)).
Proof. exact file_roundtrip. Qed.
Print Assumptions C07_file_roundtrip.

Example C07_ex_chunk_meta :
  let m : chunk_meta := (7, (16, (33, ([(100, 200)], [([102], (1, ([1;2], [(20, 9)]))); ([116;105;109;101], (1, ([3], [(33, 16)])))])))) in
  chunk_meta_ok m = true /\ d_chunk_meta (e_chunk_meta m) = Some (m, []) /\ chunk_layout_ok m = true.
Proof. vm_compute. repeat split. Qed.

(* ---- record.Marshal / record.Unmarshal ---- *)
Theorem C07_record_marshal_roundtrip : forall r rest, record_ok r = true -> d_record (e_record r ++ rest) = Some (r, rest).
Proof. exact record_marshal_roundtrip. Qed.
Print Assumptions C07_record_marshal_roundtrip.

(* every strict prefix of a marshalled record is rejected (the real Record.Unmarshal has no error result: it faults on every
   non-empty strict prefix handed over without spare capacity, and leaves the destination untouched for the empty one);
   bytes after a complete record are left unread (C07_record_marshal_roundtrip with rest) *)
Theorem C07_record_prefix_rejected : forall r k, record_ok r = true -> (k < length (e_record r))%nat ->
  d_record (firstn k (e_record r)) = None.
Proof. exact record_prefix_rejected. Qed.
Print Assumptions C07_record_prefix_rejected.

Example C07_ex_record :
  let r : rrecord := ([([105], 1); ([116;105;109;101], 1)],
                      [(2, (1, (0, ([5;0;0;0;0;0;0;0], ([1], [])))));
                       (2, (0, (0, ([1;0;0;0;0;0;0;0; 2;0;0;0;0;0;0;0], ([3], [0; 7])))))]) in
  record_ok r = true /\ d_record (e_record r) = Some (r, []).
Proof. vm_compute. repeat split. Qed.

(* ---- generated constants (Gen_Consts.v, rewritten from the Go constants on every run): what the model needs of them ---- *)
Example C07_generated_constants :
  NoDup [g_int_const; g_int_s8; g_int_zstd; g_int_raw] /\ NoDup [g_time_const; g_time_s8; g_time_snappy; g_time_raw] /\
  NoDup [g_f_none; g_f_snappy; g_f_gorilla; g_f_same; g_f_rle; g_f_mlf] /\ NoDup [g_str_raw; g_str_snappy; g_str_zstd; g_str_lz4] /\
  forallb (fun t => (0 <=? t) && (t <? 16)) [g_int_const; g_int_s8; g_int_zstd; g_int_raw; g_time_const; g_time_s8; g_time_snappy; g_time_raw;
                                             g_f_none; g_f_snappy; g_f_gorilla; g_f_same; g_f_rle; g_f_mlf; g_str_raw; g_str_snappy; g_str_zstd; g_str_lz4;
                                             g_bool_bitpack] = true /\
  g_s8_max = M60 - 1 /\ length g_s8_table = 16%nat /\ g_wal_head = 1 + 4 /\ g_rle_block_limit < 32768 /\
  g_wal_unknown < g_wal_line < g_wal_end /\ g_wal_unknown < g_wal_arrow < g_wal_end /\ g_str_v2 < M32.
Proof.
  repeat split; try (vm_compute; congruence); try reflexivity;
    repeat (constructor; [vm_compute; intuition congruence|]); constructor.
Qed.

(* ---- non-vacuity: the hypotheses are satisfiable (identity compressors) and every mode has an applicable input ---- *)
Definition idc (x : list Z) := x.
Definition idd (x : list Z) : option (list Z) := Some x.

Example C07_ex_int_modes :
  int_applicable idc IConst [5; 8; 11; 14] = true /\
  int_applicable idc (IS8 [13]) [M64 - 1; 0; 3; 1] = true /\        (* deltas +1, +3, -2 (wrapping start) *)
  int_applicable idc IZstd [0; M63; M64 - 1; 7] = true /\           (* int64 extremes: overflowing deltas *)
  int_enc_with idc IConst [5; 8; 11; 14] = [16; 0;0;0;0;0;0;0;10; 6; 3] /\
  int_dec idd (int_enc_with idc (IS8 [13]) [M64 - 1; 0; 3; 1]) = Some [M64 - 1; 0; 3; 1].
Proof. vm_compute. repeat split. Qed.

Example C07_ex_time_modes :
  time_applicable idc (TS8 1000 [14]) [1000; 3000; 8000] = true /\
  time_dec idd (time_enc_with idc (TS8 1000 [14]) [1000; 3000; 8000]) = Some [1000; 3000; 8000] /\
  time_applicable idc TConst [10; 5; 0; M64 - 5] = true /\          (* descending: the unsigned delta wraps *)
  time_dec idd (time_enc_with idc TConst [10; 5; 0; M64 - 5]) = Some [10; 5; 0; M64 - 5].
Proof. vm_compute. repeat split. Qed.

Example C07_ex_float_modes :
  let nz := M63 in
  float_applicable (fun _ => None) FSame [nz; nz; nz; nz; nz] = true /\
  float_dec idd (fun _ => None) (fun _ => None) (float_enc_with idc (fun _ => None) idc zero_repaired FSame [nz; nz; nz; nz; nz])
    = Some [nz; nz; nz; nz; nz] /\
  float_applicable (fun _ => None) (FRLE [2; 3]) [0; 0; nz; nz; nz] = true /\
  float_applicable (fun _ => None) FGorilla [1; 2] = false.
Proof. vm_compute. repeat split. Qed.

Example C07_ex_frame :
  frame_applicable idc 1 [7; 8; 9] = true /\ frame_enc idc 1 [7; 8; 9] = [1; 0; 0; 0; 3; 7; 8; 9] /\
  frame_dec idd (firstn 7 (frame_enc idc 1 [7; 8; 9])) = None.
Proof. vm_compute. repeat split. Qed.

(* ---- stored statistics blocks (pre-aggregation) ----
   The reader tells the layouts apart by the length of the block alone. Whatever layout a writer uses for a statistics
   value - one-row, fixed, variable-length with any valid scale indices and flag byte, or the padded variable-length form -
   if the layout is `applicable` (variable-length only when its length is neither the one-row length nor >= the fixed
   size) the reader returns exactly the statistics, for every statistics value and every chunk-meta-compress-mode. *)
Theorem C07_preagg_int_roundtrip : forall l s, stat_ok s = true -> pai_applicable l s = true ->
  pai_dec (pai_enc_with l s) = Some (s, pad_of l).
Proof. exact preagg_int_roundtrip. Qed.
Print Assumptions C07_preagg_int_roundtrip.

Theorem C07_preagg_float_roundtrip : forall l s, stat_ok s = true -> fl_applicable l s = true ->
  fl_dec (fl_enc_with l s) = Some (s, pad_of l).
Proof. exact preagg_float_roundtrip. Qed.
Print Assumptions C07_preagg_float_roundtrip.

(* the fixed layout is always applicable: encoding statistics never fails *)
Theorem C07_preagg_encode_total : forall s, pai_applicable LFixed s = true /\ fl_applicable LFixed s = true.
Proof. intros s. split; reflexivity. Qed.

(* today's writers (one-row form for a single row; under mode "self" the variable-length form with the greedy scale,
   padded when it is one-row long, kept only when the guard `keep` accepts its length, else the fixed form) pick an
   applicable layout for EVERY statistics value in every mode, provided the guard keeps the variable-length form only
   when it is STRICTLY shorter than the fixed size - including the boundary where both have the same length *)
Theorem C07_preagg_int_writer : forall keep self s,
  (forall n, keep n = true -> n < size_int) -> (s_cnt s = 1 -> one_row_stat s = true) ->
  pai_applicable (int_layout_g keep self s) s = true.
Proof. exact preagg_int_writer_ok. Qed.
Print Assumptions C07_preagg_int_writer.

Theorem C07_preagg_float_writer : forall zero keep self s,
  (forall n, keep n = true -> n < size_float) -> (s_cnt s = 1 -> one_row_stat s = true) ->
  fl_applicable_g zero (fl_layout_g zero keep self s) s = true.
Proof. exact preagg_float_writer_ok. Qed.

Theorem C07_preagg_int_marshal_roundtrip : forall self s, stat_ok s = true -> (s_cnt s = 1 -> one_row_stat s = true) ->
  exists rest, pai_dec (int_marshal self s) = Some (s, rest).
Proof. exact preagg_int_marshal_roundtrip. Qed.
Print Assumptions C07_preagg_int_marshal_roundtrip.

Theorem C07_preagg_float_marshal_roundtrip : forall self s, stat_ok s = true -> (s_cnt s = 1 -> one_row_stat s = true) ->
  exists rest, fl_dec (fl_marshal self s) = Some (s, rest).
Proof. exact preagg_float_marshal_roundtrip. Qed.
Print Assumptions C07_preagg_float_marshal_roundtrip.

(* the strictness of the guard is necessary: a writer that keeps the variable-length form also when it is exactly as
   long as the fixed form (`<=`) stores, for these statistics, 48 bytes the reader takes for the fixed layout *)
Definition pa_boundary_int : stat :=
  mkStat 4611686018427387904 4611686018427387904 1600000000000000001 1600004398046511106 36028797018963968 2.
Definition pa_boundary_float : stat :=    (* min 1.5, max 2.5 seen 7 ns BEFORE the min, 200 values *)
  mkStat 4609434218613702656 4612811918334230528 1600000000000000001 1599999999999999994 4616189618054758400 200.
Theorem C07_preagg_guard_must_be_strict :
  stat_ok pa_boundary_int = true /\ len (int_vlc 0 0 pa_boundary_int) = size_int /\
  (forall rest, pai_dec (int_marshal_g (fun n => n <=? size_int) true pa_boundary_int) <> Some (pa_boundary_int, rest)) /\
  stat_ok pa_boundary_float = true /\ len (fl_vlc true 0 0 pa_boundary_float) = size_float /\
  (forall rest, fl_dec (fl_marshal_g fl_zero_repaired (fun n => n <=? size_float) true pa_boundary_float) <> Some (pa_boundary_float, rest)).
Proof.
  split; [vm_compute; reflexivity|]. split; [vm_compute; reflexivity|].
  split; [intros rest; vm_compute; intros H; inversion H|].
  split; [vm_compute; reflexivity|]. split; [vm_compute; reflexivity|].
  intros rest; vm_compute; intros H; inversion H.
Qed.
Print Assumptions C07_preagg_guard_must_be_strict.

Theorem C07_preagg_bool_roundtrip : forall s rest, bool_stat_ok s = true -> bool_pa_dec (bool_marshal s ++ rest) = Some (s, rest).
Proof. exact preagg_bool_roundtrip. Qed.
Theorem C07_preagg_string_roundtrip : forall c rest, 0 <= c < M64 -> str_pa_dec (str_marshal (cnt_stat c) ++ rest) = Some (cnt_stat c, rest).
Proof. exact preagg_string_roundtrip. Qed.
Theorem C07_preagg_time_roundtrip : forall c rest, 0 <= c < M32 -> time_pa_dec (time_marshal (cnt_stat c) ++ rest) = Some (cnt_stat c, rest).
Proof. exact preagg_time_roundtrip. Qed.
Print Assumptions C07_preagg_time_roundtrip.

(* every layout has applicable statistics; the boundary statistics take the fixed layout under today's guard and decode *)
Example C07_ex_preagg_layouts :
  pai_applicable LOne (one_stat 7 1000) = true /\
  int_layout_g (fun n => n <? size_int) true (mkStat 1 9 1000 3000 10 2) = LVlc true 1 1 /\
  pai_applicable (LVlc true 1 1) (mkStat 1 9 1000 3000 10 2) = true /\
  int_marshal true (mkStat 1 9 1000 3000 10 2) = [2; 18; 20; 2; 1; 1; 1; 2] /\
  int_layout_g (fun n => n <? size_int) true pa_boundary_int = LFixed /\
  fl_layout_g fl_zero_repaired (fun n => n <? size_float) true pa_boundary_float = LFixed /\
  (exists k1 k2, int_layout_g (fun n => n <? size_int) true (mkStat 1 3 1600000000000000001 1600000000000000003 4 2) = LPad true k1 k2) /\
  fl_layout_g fl_zero_repaired (fun n => n <? size_float) true (mkStat 0 0 1000 2000 0 2) = LVlc false 1 1 /\
  fl_layout_g fl_zero_repaired (fun n => n <? size_float) true (mkStat M63 M63 1000 2000 0 2) = LVlc true 1 1.
Proof. vm_compute. repeat split. eexists; eexists; reflexivity. Qed.

(* ---- file-level time ranges: trailer and meta-index entries ----
   MsBuilder.WriteData folds every chunk's (min, max) time into the trailer, writeToDisk folds the chunks of one
   meta-index block into its entry. For any non-empty chunk sequence the recorded range is the hull: it contains every
   chunk's range, whatever the order in which later chunks extend it on either side, and both ends are attained. *)
Theorem C07_trailer_range_is_hull : forall chunks, chunks <> [] ->
  exists lo hi, tr_fold chunks = (len chunks, (lo, hi)) /\
  (forall c, In c chunks -> lo <= fst c /\ snd c <= hi) /\
  (exists c, In c chunks /\ fst c = lo) /\ (exists c, In c chunks /\ snd c = hi).
Proof. exact tr_fold_hull. Qed.
Print Assumptions C07_trailer_range_is_hull.

(* a file of time-sorted series, each cut into non-empty segments in any way: every query range that holds the time of
   a stored row overlaps the recorded range - file.ContainsByTime / ContainsValue (Trailer.ContainsTime) and
   tsspFileReader.MetaIndex (the same test on a meta-index entry) never deny a stored row; the range is tight *)
Theorem C07_file_range_never_denies : forall (file : list (list (list Z))),
  file <> [] ->
  Forall (fun segs => segs <> [] /\ Forall (fun s => s <> []) segs /\ Sorted.Sorted Z.le (concat segs)) file ->
  exists lo hi, tr_fold (file_chunk_ranges file) = (len file, (lo, hi)) /\
  (forall segs t q, In segs file -> In t (concat segs) -> fst q <= t <= snd q -> overlaps q lo hi = true) /\
  (exists segs, In segs file /\ hd 0 (concat segs) = lo) /\ (exists segs, In segs file /\ last (concat segs) 0 = hi).
Proof. exact file_range_never_denies. Qed.
Print Assumptions C07_file_range_never_denies.

(* three series in id order; the second extends the range to the left, the third to the right *)
Example C07_ex_file_ranges :
  let file := [[[50; 60]; [70]]; [[10; 20]]; [[55]; [90; 95]]] in
  Forall (fun segs => segs <> [] /\ Forall (fun s => s <> []) segs /\ Sorted.Sorted Z.le (concat segs)) file /\
  file_chunk_ranges file = [(50, 70); (10, 20); (55, 95)] /\ tr_fold (file_chunk_ranges file) = (3, (10, 95)).
Proof.
  cbv zeta. split; [|split; reflexivity].
  repeat constructor; try discriminate; cbn; lia.
Qed.

(* ---- the chunk meta as written under chunk-meta-compress-mode = self (MarshalChunkMeta / UnmarshalChunkMeta) ----
   whatever scale index the writer uses for the segment time ranges (it must divide every wrapped delta) and whatever
   dictionary index names each column, the reader - given the file's dictionary - returns exactly the chunk meta:
   ids, offsets, sizes, every segment range, and per column name, type, statistics block and every segment's offset and
   size (offsets are rebuilt by summing sizes: exact because the segments of a column are contiguous) *)
Theorem C07_chunk_meta_self_roundtrip : forall dict k idxs m rest, cm_self_ok dict k idxs m = true ->
  (0 <=? k) && (k <? n_scales) = true ->
  d_cm_self dict (e_cm_self k idxs m ++ rest) = Some (m, rest).
Proof. exact cm_self_roundtrip. Qed.
Print Assumptions C07_chunk_meta_self_roundtrip.

Example C07_ex_chunk_meta_self :
  let dict := [[102]; [116; 105; 109; 101]] in
  let m := (7, (16, (60, ([(1000, 5000); (6000, 9000)],
            [([102], (1, ([1; 2; 3], [(20, 10); (30, 12)]))); ([116; 105; 109; 101], (1, ([0; 0; 0; 2], [(46, 14); (60, 16)])))])))) in
  cm_self_ok dict 1 [0; 1] m = true /\ d_cm_self dict (e_cm_self 1 [0; 1] m) = Some (m, []) /\
  cm_self_ok dict 2 [0; 1] m = false.      (* 1e6 does not divide the times *)
Proof. vm_compute. repeat split. Qed.

(* ---- the VALUES of the stored statistics ----
   the repaired builders (first value initialises min and max when both still hold their start values; props/C07/fix3.patch),
   fed segment by segment, store exactly the reference: first occurrence of the strict minimum / maximum over all rows of
   the column (floats: NaN never compares), wrapping sum, count - for every column, null pattern and cut into segments *)
Theorem C07_stats_int_repaired : forall segs, int_build true segs = int_ref_stat (int_reference segs).
Proof. exact stats_int_repaired. Qed.
Print Assumptions C07_stats_int_repaired.

Theorem C07_stats_float_repaired : forall fadd segs, fl_build fadd true segs = fl_ref_stat (fl_reference fadd segs).
Proof. exact stats_float_repaired. Qed.
Print Assumptions C07_stats_float_repaired.

Theorem C07_stats_int_min_is_min : forall segs m tm,
  fst (fst (fst (int_reference segs))) = Some (m, tm) ->
  (forall v t, In (Some v, t) (concat segs) -> sgn64 m <= sgn64 v) /\ In (Some m, tm) (concat segs).
Proof. exact stats_int_min_is_min. Qed.

Example C07_ex_stats :
  int_build true [[(Some 5, 10); (None, 20)]; [(Some (M64 - 3), 30); (Some 5, 40)]] = mkStat (M64 - 3) 5 30 10 7 3 /\
  int_build true [[(Some max_i64, 10)]] = mkStat max_i64 max_i64 10 10 max_i64 1.
Proof. vm_compute. split; reflexivity. Qed.

(* ---- the MERGE paths of the statistics builders (streaming compaction) ----
   IntegerPreAgg.merge hands the other block's min / max over as float64: `via_f64` (round to nearest even at 53 bits) is
   the identity on |v| <= 2^53 *)
Theorem C07_via_f64_exact : forall u, 0 <= u < M64 -> exact53 u = true -> via_f64 u = u.
Proof. exact via_f64_exact. Qed.
Print Assumptions C07_via_f64_exact.

(* merging statistics of row set A with statistics of row set B gives statistics of A ++ B: least value with the earliest
   time it occurs at, greatest value likewise, wrapping sum, count - provided B's min and max are integers a float64
   represents (EXPLICIT DEPENDENCY: |v| <= 2^53, true for every integer the write path stores: line-protocol integers are
   parsed through float64, property C06; beyond it the real merge rounds, which `via_f64` models and the tie checks) *)
Theorem C07_int_merge_is_stat_of_union : forall a b A B,
  Forall Wp A -> Forall Wp B -> is_stat_of a A -> is_stat_of b B ->
  exact53 (s_min b) = true -> exact53 (s_max b) = true ->
  is_stat_of (int_merge via_f64 a b) (A ++ B).
Proof. exact int_merge_is_stat_of_union. Qed.
Print Assumptions C07_int_merge_is_stat_of_union.

(* what the (repaired) builder stores for a time-sorted chunk IS statistics of its rows in that sense (the first occurrence
   of an extreme is its earliest), so: two chunks of one series compacted by merging their stored statistics *)
Theorem C07_builder_stat_of_rows : forall segs,
  let l := values_of (concat segs) in
  l <> [] -> Forall Wp l -> time_sorted l -> len l < M64 -> is_stat_of (int_build true segs) l.
Proof. exact builder_stat_of_rows. Qed.

Theorem C07_compaction_merge_is_stat_of_rows : forall segsA segsB,
  let A := values_of (concat segsA) in
  let B := values_of (concat segsB) in
  A <> [] -> B <> [] -> Forall Wp A -> Forall Wp B -> time_sorted A -> time_sorted B -> len A < M64 -> len B < M64 ->
  exact53 (s_min (int_build true segsB)) = true -> exact53 (s_max (int_build true segsB)) = true ->
  is_stat_of (int_merge via_f64 (int_build true segsA) (int_build true segsB)) (A ++ B).
Proof. exact compaction_merge_is_stat_of_rows. Qed.
Print Assumptions C07_compaction_merge_is_stat_of_rows.

(* beyond 2^53 the float64 round trip really loses the value: 2^53 + 1 comes back as 2^53 *)
Example C07_ex_via_f64 :
  via_f64 (P53 + 1) = P53 /\ via_f64 (P53 + 3) = P53 + 4 /\ via_f64 (M63 - 1) = M63 /\ via_f64 M63 = M63 /\
  int_merge via_f64 (mkStat 5 5 10 10 5 1) (mkStat 3 9 20 30 12 2) = mkStat 3 9 20 30 17 3 /\
  int_merge via_f64 (mkStat 5 5 10 10 5 1) (mkStat 5 5 7 70 5 1) = mkStat 5 5 7 10 10 2.
Proof. vm_compute. repeat split. Qed.

(* ---- meta-index entries, trailer incl. extra data (dictionary), chunk-meta blocks: bytes ---- *)
Theorem C07_mindex_list_roundtrip : forall mis rest, Forall (fun m => mindex_ok m = true) mis ->
  get_n d_mindex (length mis) (flat_map e_mindex mis ++ rest) = Some (mis, rest).
Proof. exact mindex_list_roundtrip. Qed.

Theorem C07_trailer_roundtrip : forall t rest, trailer_ok t = true -> d_trailer (e_trailer t ++ rest) = Some (t, rest).
Proof. exact trailer_roundtrip. Qed.
Print Assumptions C07_trailer_roundtrip.

Theorem C07_block_items_roundtrip : forall items, items <> [] -> 0 < len (concat items) < M32 ->
  block_items (len items) (block_plain items) = Some items.
Proof. exact block_items_roundtrip. Qed.

(* THE WHOLE-FILE THEOREM, for every chunk-meta-compress-mode (snappy / lz4 as functions with their round trip as premise):
   header with the magic, any data area, blocks of chunk metas stored under the mode and located by their meta-index
   entries, any bloom filter and id-time section, a trailer whose sizes describe the areas (its dictionary names the
   columns under mode self), the footer: the reader returns exactly the trailer, the meta-index entries and every chunk meta.
   Together with C07_file_roundtrip (every segment is found at the offset / size a chunk meta records and decodes to its
   null pattern and block) this composes segment, chunk-meta, meta-index and trailer layers. *)
Theorem C07_whole_file_roundtrip : forall (bcomp : Z -> list Z -> list Z) (bdec : Z -> list Z -> option (list Z)),
  (forall mode x, bdec mode (bcomp mode x) = Some x) ->
  forall mode H D blks B I t,
  mode_ok mode = true -> trailer_ok t = true -> t_cmode t = mode ->
  t_data_off t = len H -> t_data_size t = len D ->
  t_index_size t = len (concat (map (blk_bytes bcomp mode) blks)) ->
  t_mindex_size t = 40 * len blks -> t_mindex_num t = len blks ->
  blks_placed bcomp mode (t_dict t) (len H + len D) blks ->
  len (file_body bcomp mode H D blks B I) < M63 ->
  firstn (length g_table_magic) H = g_table_magic ->
  read_file bdec (file_bytes bcomp mode H D blks B I t) = Some (t, map snd blks, map blk_cms blks).
Proof. exact whole_file_roundtrip. Qed.
Print Assumptions C07_whole_file_roundtrip.

(* the hypotheses of the whole-file theorem are satisfiable: a one-series file under mode none and under mode self *)
Definition ex_cm : chunk_meta :=
  (7, (16, (60, ([(1000, 5000); (6000, 9000)],
   [([102], (1, ([1; 2; 3], [(20, 10); (30, 12)]))); ([116; 105; 109; 101], (1, ([0; 0; 0; 2], [(46, 14); (60, 16)])))])))).
Definition ex_H : list Z := g_table_magic ++ be 8 2.
Definition ex_D : list Z := repeat 0 60.
Definition ex_blk (mode : Z) : blk :=
  let cs := [((1, [0; 1]), ex_cm)] in
  (cs, (7, (1000, (9000, (76, (1, len (cs_bytes (fun _ x => x) mode cs))))))).
Definition ex_trailer (mode : Z) : trailer :=
  ([16; 60; len (cs_bytes (fun _ x => x) mode (fst (ex_blk mode))); 40; 0; 0; 1; 7; 7; 1000; 9000; 1; 0; 0],
   (0, (mode, ((if mode =? g_cm_mode_self then [[102]; [116; 105; 109; 101]] else []), [109; 115; 116])))).

Ltac ex_placed :=
  cbn [blks_placed ex_blk snd fst];
  split; [vm_compute; reflexivity|]; split; [vm_compute; reflexivity|]; split; [reflexivity|]; split; [reflexivity|];
  split; [discriminate|]; split; [vm_compute; reflexivity|]; split; [vm_compute; reflexivity|];
  split; [|exact I]; constructor; [vm_compute; reflexivity|constructor].
Example C07_ex_whole_file :
  forall mode, In mode [g_cm_mode_none; g_cm_mode_snappy; g_cm_mode_lz4; g_cm_mode_self] ->
  trailer_ok (ex_trailer mode) = true /\
  blks_placed (fun _ x => x) mode (t_dict (ex_trailer mode)) (len ex_H + len ex_D) [ex_blk mode] /\
  read_file (fun _ x => Some x) (file_bytes (fun _ x => x) mode ex_H ex_D [ex_blk mode] [] [] (ex_trailer mode))
    = Some (ex_trailer mode, [snd (ex_blk mode)], [[ex_cm]]).
Proof.
  intros mode [<-|[<-|[<-|[<-|[]]]]]; (split; [vm_compute; reflexivity|]); (split; [ex_placed|vm_compute; reflexivity]).
Qed.

(* the segment layer inside the same file: every column segment written into the data area is found at the (offset, size)
   the writer's layout gives it - the values a chunk meta records for it - and decodes to its null pattern and block *)
Theorem C07_whole_file_segments : forall (bcomp : Z -> list Z -> list Z) mode H preD pieces postD blks B I t,
  let D := preD ++ concat (map piece_bytes pieces) ++ postD in
  Forall2 (fun p e =>
             match p with
             | PSeg ty m block rows =>
                 seg_applicable m rows = true ->
                 seg_dec ty (len rows) (slice (fst e) (snd e) (file_bytes bcomp mode H D blks B I t))
                 = Some (validity rows, seg_payload m block rows)
             | PRaw _ => True
             end)
          pieces (lay (len H + len preD) (map piece_bytes pieces)).
Proof. exact whole_file_segments. Qed.
Print Assumptions C07_whole_file_segments.

(* the exact merge (the other block's min / max handed over as int64, props/C07/fix4.patch) needs no side condition *)
Theorem C07_int_merge_exact_is_stat_of_union : forall a b A B,
  Forall Wp A -> Forall Wp B -> is_stat_of a A -> is_stat_of b B ->
  is_stat_of (int_merge (fun v => v) a b) (A ++ B).
Proof. exact int_merge_exact_is_stat_of_union. Qed.
Print Assumptions C07_int_merge_exact_is_stat_of_union.
