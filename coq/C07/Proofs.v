From Coq Require Import ZArith List Bool Lia.
From OG Require Import C07.Model.
Import ListNotations.
Open Scope Z_scope.

Lemma zz_range : forall u, 0 <= u < M64 -> 0 <= zz u < M64.
Proof. intros u H. unfold zz, M64, M63 in *. destruct (Z.ltb_spec u 9223372036854775808); lia. Qed.
