(* C07 boolean block (bit packing, most significant bit first) and WAL record frame. *)
From Coq Require Import ZArith List Bool Lia ZifyBool ZifyNat.
From OG Require Import C07.Model C07.ProofsBase.
Import ListNotations.
Open Scope Z_scope.

Lemma bits_byte_roundtrip : forall b0 b1 b2 b3 b4 b5 b6 b7 : bool,
  bits_of_byte (128 * bit b0 + 64 * bit b1 + 32 * bit b2 + 16 * bit b3 + 8 * bit b4 + 4 * bit b5 + 2 * bit b6 + bit b7)
  = [b0; b1; b2; b3; b4; b5; b6; b7].
Proof. destruct b0, b1, b2, b3, b4, b5, b6, b7; reflexivity. Qed.

Lemma nths_firstn : forall bs : list bool, exists pad,
  [nth 0 bs false; nth 1 bs false; nth 2 bs false; nth 3 bs false; nth 4 bs false; nth 5 bs false; nth 6 bs false; nth 7 bs false]
  = firstn 8 bs ++ pad /\ (pad = [] \/ skipn 8 bs = []).
Proof.
  intros bs.
  destruct bs as [|b0 [|b1 [|b2 [|b3 [|b4 [|b5 [|b6 [|b7 r]]]]]]]];
    cbn [nth firstn skipn]; eexists; (split; [cbn [app]; reflexivity | auto]).
Qed.

Lemma pack_bits_nil : forall k, pack_bits k [] = [].
Proof. destruct k; reflexivity. Qed.

Lemma pack_bits_spec : forall fuel bs, (length bs <= fuel)%nat ->
  exists pad, flat_map bits_of_byte (pack_bits fuel bs) = bs ++ pad.
Proof.
  induction fuel; intros bs H.
  - destruct bs; [|simpl in H; lia]. exists []. reflexivity.
  - destruct bs as [|b r] eqn:E; [exists []; reflexivity|]. rewrite <- E in *.
    assert (P : pack_bits (S fuel) bs = byte_of_bits bs :: pack_bits fuel (skipn 8 bs)) by (rewrite E; reflexivity).
    rewrite P. cbn [flat_map]. unfold byte_of_bits. rewrite bits_byte_roundtrip.
    destruct (nths_firstn bs) as [pad [EQ C]]. rewrite EQ.
    destruct C as [C|C].
    + subst pad. rewrite app_nil_r.
      destruct (IHfuel (skipn 8 bs)) as [pad' EP].
      { rewrite skipn_length. rewrite E in *. simpl in H. simpl length. lia. }
      rewrite EP. exists pad'. rewrite app_assoc, firstn_skipn. reflexivity.
    + rewrite C, pack_bits_nil. cbn [flat_map]. rewrite app_nil_r.
      exists pad. rewrite <- (firstn_skipn 8 bs) at 2. rewrite C, app_nil_r. reflexivity.
Qed.

Theorem bool_block_roundtrip : forall bs, bool_applicable bs = true -> bool_dec (bool_enc bs) = Some bs.
Proof.
  intros bs H. unfold bool_applicable in H.
  destruct bs as [|b r] eqn:E; [reflexivity|]. rewrite <- E in *.
  assert (P : bool_enc bs = 16 :: be 4 (len bs) ++ pack_bits (length bs) bs) by (rewrite E; reflexivity).
  rewrite P. unfold bool_dec.
  rewrite get_be_app by (rewrite pow256_4; pose proof (len_nonneg bs); lia).
  tagsimp. 
  destruct (pack_bits_spec (length bs) bs (le_n _)) as [pad EP]. rewrite EP.
  rewrite len_app. pose proof (len_nonneg pad).
  destruct (Z.ltb_spec (len bs + len pad) (len bs)); [lia|].
  rewrite firstn_len_app by reflexivity. reflexivity.
Qed.

(* ================= WAL record frame ================= *)
Section FrameProof.
  Variable wc : list Z -> list Z.
  Variable wd : list Z -> option (list Z).
  Hypothesis snappy_roundtrip : forall x, bytes_ok x = true -> wd (wc x) = Some x.

  Theorem frame_roundtrip : forall typ p rest, frame_applicable wc typ p = true ->
    frame_dec wd (frame_enc wc typ p ++ rest) = Some (typ, p, rest).
  Proof.
    intros typ p rest H. unfold frame_applicable in H.
    apply andb_true_iff in H. destruct H as [H Hl]. apply andb_true_iff in H. destruct H as [Ht Hp].
    unfold frame_enc. set (c := wc p) in *. cbn [app]. rewrite <- !app_assoc. unfold frame_dec.
    rewrite get_be_app by (rewrite pow256_4; pose proof (len_nonneg c); lia).
    g_unfold. replace ((typ <=? 0) || (3 <=? typ)) with false by lia.
    rewrite len_app. pose proof (len_nonneg rest).
    destruct (Z.ltb_spec (len c + len rest) (len c)); [lia|].
    rewrite firstn_len_app, skipn_len_app by reflexivity.
    unfold c. rewrite snappy_roundtrip by assumption. reflexivity.
  Qed.

  (* every strict prefix of a record is recognised as incomplete - whatever the decompressor would do with it *)
  Theorem frame_prefix_rejected : forall typ p k, len (wc p) < M32 ->
    (k < length (frame_enc wc typ p))%nat -> frame_dec wd (firstn k (frame_enc wc typ p)) = None.
  Proof.
    clear snappy_roundtrip. intros typ p k Hl Hk. unfold frame_enc in *. set (c := wc p) in *. cbn [app] in *.
    destruct k as [|k]; [reflexivity|]. cbn [firstn]. unfold frame_dec.
    cbn [length] in Hk. rewrite app_length, be_length in Hk.
    destruct (Nat.lt_ge_cases k 4) as [Hs|Hg].
    - rewrite get_be_short; [reflexivity|]. rewrite firstn_length. lia.
    - rewrite firstn_app, be_length. rewrite (firstn_all2 (be 4 (len c))) by (rewrite be_length; lia).
      rewrite get_be_app by (rewrite pow256_4; pose proof (len_nonneg c); lia).
      destruct ((typ <=? g_wal_unknown) || (g_wal_end <=? typ)); [reflexivity|].
      assert (L : len (firstn (k - 4) c) < len c).
      { unfold len. rewrite firstn_length. lia. }
      destruct (Z.ltb_spec (len (firstn (k - 4) c)) (len c)); [reflexivity|lia].
  Qed.

  (* replay of a log file = the complete records, in order; a torn tail (strict prefix of one more record) adds nothing *)
  Definition file_of (recs : list (Z * list Z)) : list Z := flat_map (fun r => frame_enc wc (fst r) (snd r)) recs.

  Theorem replay_torn_tail : forall recs typ p k fuel,
    forallb (fun r => frame_applicable wc (fst r) (snd r)) recs = true ->
    len (wc p) < M32 -> (k < length (frame_enc wc typ p))%nat -> (length recs < fuel)%nat ->
    replay wd fuel (file_of recs ++ firstn k (frame_enc wc typ p)) = recs.
  Proof.
    induction recs as [|[t q] recs IH]; intros typ p k fuel Ha Hl Hk Hf.
    - simpl file_of. simpl app. destruct fuel; [simpl in Hf; lia|]. cbn [replay].
      rewrite frame_prefix_rejected by assumption. reflexivity.
    - simpl in Ha. apply andb_true_iff in Ha. destruct Ha as [Ha1 Ha2].
      destruct fuel; [simpl in Hf; lia|]. cbn [replay file_of flat_map fst snd].
      rewrite <- app_assoc. rewrite frame_roundtrip by assumption.
      fold (file_of recs). rewrite IH; auto. simpl in Hf. lia.
  Qed.
End FrameProof.
