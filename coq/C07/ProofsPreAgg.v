(* C07 stored statistics blocks: every layout the length-dispatching reader can be handed decodes to the statistics that
   were marshalled; today's writer only ever picks such a layout (in every chunk-meta-compress-mode). *)
From Coq Require Import ZArith List Bool Lia ZifyBool ZifyNat.
From OG Require Import C07.Gen_Consts C07.Model C07.ModelRows C07.ModelPreAgg C07.ProofsBase C07.ProofsRows.
Import ListNotations.
Open Scope Z_scope.

Definition rt {A} (e : A -> list Z) (d : dec_t A) (P : A -> Prop) : Prop :=
  forall a rest, P a -> d (e a ++ rest) = Some (a, rest).

Definition W (v : Z) : Prop := 0 <= v < M64.

Lemma word_ok_W : forall v, word_ok v = true -> W v.
Proof. unfold word_ok, W. intros. lia. Qed.

Lemma rt_zint : rt e_zint d_zint W.
Proof. destruct good_zint as [R _]. exact R. Qed.

Lemma rt_be8 : rt (be 8) (get_be 8) W.
Proof. intros v rest H. apply get_be_app. rewrite pow256_8. exact H. Qed.

Lemma rt_uvarint : rt put_uvarint get_uvarint W.
Proof. intros v rest H. apply uvarint_roundtrip. exact H. Qed.

Lemma rt_varint : rt e_varint d_varint W.
Proof.
  intros v rest H. unfold e_varint, d_varint. rewrite uvarint_roundtrip by (apply zz_range; exact H).
  cbn [omap]. rewrite unzz_zz by exact H. reflexivity.
Qed.

Lemma rt_pair {A B} (e1 : A -> list Z) (d1 : dec_t A) P1 (e2 : B -> list Z) (d2 : dec_t B) P2 :
  rt e1 d1 P1 -> rt e2 d2 P2 -> rt (e_pair e1 e2) (d_pair d1 d2) (fun p => P1 (fst p) /\ P2 (snd p)).
Proof.
  intros R1 R2 [a b] rest [Ha Hb]. unfold e_pair, d_pair. cbn [fst snd] in *.
  rewrite <- app_assoc, R1, R2 by assumption. reflexivity.
Qed.

(* ---- scaled int64 ---- *)
Lemma sgn64_mod : forall v, W v -> sgn64 v mod M64 = v.
Proof.
  intros v H. unfold sgn64, W, M63, M64 in *. destruct (Z.ltb_spec v 9223372036854775808).
  - apply Z.mod_small. lia.
  - replace (v - 18446744073709551616) with (v + (-1) * 18446744073709551616) by lia.
    rewrite Z.mod_add by lia. apply Z.mod_small. lia.
Qed.

Lemma rt_scaled : forall k v rest, W v -> scale_ok k v = true -> d_scaled (e_scaled k v ++ rest) = Some (v, rest).
Proof.
  intros k v rest Hv Hk. unfold scale_ok in Hk.
  apply andb_true_iff in Hk. destruct Hk as [Hk Hr]. apply andb_true_iff in Hk. destruct Hk as [Hk Hp].
  apply andb_true_iff in Hk. destruct Hk as [Hk0 Hk1].
  unfold e_scaled, d_scaled. cbn [app].
  destruct (Z.ltb_spec k 0); [lia|]. destruct (Z.leb_spec n_scales k); [lia|]. cbn [orb].
  assert (HM : 0 < M64) by (unfold M64; lia).
  rewrite uvarint_roundtrip by (apply Z.mod_pos_bound; exact HM).
  f_equal. f_equal.
  rewrite Z.mul_mod_idemp_l by lia.
  assert (E : sgn64 v = scale_at k * Z.quot (sgn64 v) (scale_at k)).
  { pose proof (Z.quot_rem' (sgn64 v) (scale_at k)) as Q. apply Z.eqb_eq in Hr. rewrite Hr in Q. lia. }
  rewrite Z.mul_comm, <- E. apply sgn64_mod. exact Hv.
Qed.

Lemma scale_greedy_ok : forall v, scale_ok (scale_greedy v) v = true.
Proof.
  intros v. unfold scale_greedy. change (Z.to_nat (n_scales - 1)) with 3%nat. unfold scale_from.
  change (scale_at (Z.of_nat 3)) with 1000000000. change (scale_at (Z.of_nat 2)) with 1000000.
  change (scale_at (Z.of_nat 1)) with 1000.
  destruct (Z.eqb_spec (Z.rem (sgn64 v) 1000000000) 0) as [E3|_].
  { unfold scale_ok. change (scale_at (Z.of_nat 3)) with 1000000000. rewrite E3. reflexivity. }
  destruct (Z.eqb_spec (Z.rem (sgn64 v) 1000000) 0) as [E2|_].
  { unfold scale_ok. change (scale_at (Z.of_nat 2)) with 1000000. rewrite E2. reflexivity. }
  destruct (Z.eqb_spec (Z.rem (sgn64 v) 1000) 0) as [E1|_].
  { unfold scale_ok. change (scale_at (Z.of_nat 1)) with 1000. rewrite E1. reflexivity. }
  unfold scale_ok. change (scale_at 0) with 1. rewrite Z.rem_1_r. reflexivity.
Qed.

Lemma dur_W : forall s, W (dur s).
Proof. intros s. unfold dur, W. apply Z.mod_pos_bound. unfold M64. lia. Qed.

Lemma dur_back : forall s, W (s_minT s) -> W (s_maxT s) -> (s_minT s + dur s) mod M64 = s_maxT s.
Proof.
  intros s H0 H1. unfold dur. rewrite Z.add_mod_idemp_r by (unfold M64; lia).
  replace (s_minT s + (s_maxT s - s_minT s)) with (s_maxT s) by lia. apply Z.mod_small. exact H1.
Qed.

Lemma rt_times : forall k1 k2 s rest, W (s_cnt s) -> W (s_minT s) ->
  scale_ok k1 (s_minT s) = true -> scale_ok k2 (dur s) = true ->
  d_times (times_vlc k1 k2 s ++ rest) = Some ((s_cnt s, (s_minT s, dur s)), rest).
Proof.
  intros k1 k2 s rest Hc Ht K1 K2. unfold d_times, times_vlc, d_pair. rewrite <- !app_assoc.
  rewrite uvarint_roundtrip by exact Hc.
  rewrite rt_scaled by assumption.
  rewrite rt_scaled by (try apply dur_W; assumption). reflexivity.
Qed.

Lemma stat_ok_W : forall s, stat_ok s = true ->
  W (s_min s) /\ W (s_max s) /\ W (s_minT s) /\ W (s_maxT s) /\ W (s_sum s) /\ W (s_cnt s).
Proof.
  intros s H. unfold stat_ok in H. repeat (apply andb_true_iff in H; destruct H as [H ?]).
  unfold W, word_ok in *. lia.
Qed.

(* ---- lengths ---- *)
Lemma len_zint : forall v, len (e_zint v) = 8.
Proof. intros. unfold e_zint, len. rewrite be_length. reflexivity. Qed.
Lemma len_be8 : forall v, len (be 8 v) = 8.
Proof. intros. unfold len. rewrite be_length. reflexivity. Qed.

Lemma len_int_fixed : forall s, len (int_fixed s) = size_int.
Proof. intros. unfold int_fixed. rewrite !len_app, !len_zint. reflexivity. Qed.
Lemma len_int_one : forall s, len (int_one s) = size_one.
Proof. intros. unfold int_one. rewrite !len_app, !len_zint. reflexivity. Qed.
Lemma len_fl_fixed : forall s, len (fl_fixed s) = size_float.
Proof. intros. unfold fl_fixed. rewrite !len_app, !len_zint, !len_be8. reflexivity. Qed.
Lemma len_fl_one : forall s, len (fl_one s) = size_one.
Proof. intros. unfold fl_one. rewrite !len_app, !len_zint, !len_be8. reflexivity. Qed.

Lemma sizes : size_one = 16 /\ size_int = 48 /\ size_float = 48 /\ size_bool = 26 /\ size_string = 8 /\ size_time = 4.
Proof. repeat split; reflexivity. Qed.

Ltac and2 A B := apply andb_true_iff in A; destruct A as [A B].
Ltac and3 A B C := and2 A C; and2 A B.
Ltac and4 A B C D := and2 A D; and3 A B C.
Ltac and5 A B C D E := and2 A E; and4 A B C D.

(* what the reader leaves unread *)
Definition pad_of (l : layout) : list Z := match l with LPad _ _ _ => [0] | _ => [] end.

(* ================= integer ================= *)
Lemma int_vlc_rt : forall k1 k2 s rest, stat_ok s = true ->
  scale_ok k1 (s_minT s) = true -> scale_ok k2 (dur s) = true ->
  int_vlc_dec (int_vlc k1 k2 s ++ rest) = Some (s, rest).
Proof.
  intros k1 k2 s rest H K1 K2. destruct (stat_ok_W s H) as (Hmn & Hmx & Ht0 & Ht1 & Hsm & Hc).
  unfold int_vlc_dec, int_vlc, d_pair. rewrite <- !app_assoc.
  rewrite !rt_varint by assumption.
  rewrite rt_times by assumption.
  rewrite dur_back by assumption. destruct s; reflexivity.
Qed.

Lemma int_fixed_rt : forall s rest, stat_ok s = true -> int_fixed_dec (int_fixed s ++ rest) = Some (s, rest).
Proof.
  intros s rest H. destruct (stat_ok_W s H) as (Hmn & Hmx & Ht0 & Ht1 & Hsm & Hc).
  unfold int_fixed_dec, int_fixed, d_pair. rewrite <- !app_assoc.
  rewrite !rt_zint by assumption. destruct s; reflexivity.
Qed.

Lemma one_row_eq : forall s, one_row_stat s = true -> one_stat (s_min s) (s_minT s) = s.
Proof.
  intros s H. unfold one_row_stat in H. repeat (apply andb_true_iff in H; destruct H as [H ?]).
  destruct s; cbn in *. unfold one_stat. f_equal; lia.
Qed.

Theorem preagg_int_roundtrip : forall l s, stat_ok s = true -> pai_applicable l s = true ->
  pai_dec (pai_enc_with l s) = Some (s, pad_of l).
Proof.
  intros l s H A. destruct (stat_ok_W s H) as (Hmn & Hmx & Ht0 & Ht1 & Hsm & Hc).
  destruct sizes as (S1 & SI & _).
  unfold pai_dec. destruct l as [| |f k1 k2|f k1 k2]; cbn [pai_enc_with pai_applicable pad_of] in *.
  - rewrite len_int_one, Z.eqb_refl.
    rewrite <- (app_nil_r (int_one s)). unfold int_one, d_pair. rewrite <- !app_assoc.
    rewrite !rt_zint by assumption. rewrite one_row_eq by exact A. reflexivity.
  - rewrite len_int_fixed. rewrite S1, SI. cbn [Z.eqb Z.ltb Z.compare Pos.compare Pos.compare_cont Pos.eqb].
    rewrite <- (app_nil_r (int_fixed s)). apply int_fixed_rt. exact H.
  - and4 A A2 A3 A4.
    destruct (Z.eqb_spec (len (int_vlc k1 k2 s)) size_one); [discriminate|].
    destruct (Z.ltb_spec (len (int_vlc k1 k2 s)) size_int); [|discriminate].
    rewrite <- (app_nil_r (int_vlc k1 k2 s)). apply int_vlc_rt; assumption.
  - and3 A A2 A3.
    rewrite len_app. change (len [0]) with 1.
    destruct (Z.eqb_spec (len (int_vlc k1 k2 s) + 1) size_one); [lia|].
    destruct (Z.ltb_spec (len (int_vlc k1 k2 s) + 1) size_int); [|lia].
    apply int_vlc_rt; assumption.
Qed.

(* today's writer picks an applicable layout whenever its guard keeps the variable-length form only below the fixed size *)
Theorem preagg_int_writer_ok : forall keep self s,
  (forall n, keep n = true -> n < size_int) ->
  (s_cnt s = 1 -> one_row_stat s = true) ->
  pai_applicable (int_layout_g keep self s) s = true.
Proof.
  intros keep self s K O. unfold int_layout_g.
  destruct (Z.eqb_spec (s_cnt s) 1) as [E|E]; [exact (O E)|].
  destruct self; [|reflexivity].
  destruct (Z.eqb_spec (len (int_vlc (scale_greedy (s_minT s)) (scale_greedy (dur s)) s)) size_one) as [E1|E1].
  - cbn [pai_applicable]. rewrite !scale_greedy_ok, E1, Z.eqb_refl. reflexivity.
  - destruct (keep (len (int_vlc (scale_greedy (s_minT s)) (scale_greedy (dur s)) s))) eqn:Kp; [|reflexivity].
    cbn [pai_applicable]. rewrite !scale_greedy_ok. apply K in Kp.
    destruct (Z.eqb_spec (len (int_vlc (scale_greedy (s_minT s)) (scale_greedy (dur s)) s)) size_one); [contradiction|].
    destruct (Z.ltb_spec (len (int_vlc (scale_greedy (s_minT s)) (scale_greedy (dur s)) s)) size_int); [reflexivity|lia].
Qed.

Theorem preagg_int_marshal_roundtrip : forall self s, stat_ok s = true -> (s_cnt s = 1 -> one_row_stat s = true) ->
  exists rest, pai_dec (int_marshal self s) = Some (s, rest).
Proof.
  intros self s H O. eexists. unfold int_marshal, int_marshal_g. apply preagg_int_roundtrip; [exact H|].
  apply preagg_int_writer_ok; [|exact O]. intros n Hn. lia.
Qed.

(* ================= float ================= *)
Lemma fl_vlc_rt : forall f k1 k2 s rest, stat_ok s = true -> (f || fl_zero_repaired s) = true ->
  scale_ok k1 (s_minT s) = true -> scale_ok k2 (dur s) = true ->
  fl_vlc_dec (fl_vlc f k1 k2 s ++ rest) = Some (s, rest).
Proof.
  intros f k1 k2 s rest H Z K1 K2. destruct (stat_ok_W s H) as (Hmn & Hmx & Ht0 & Ht1 & Hsm & Hc).
  unfold fl_vlc_dec, fl_vlc. destruct f.
  - cbn [app]. change (1 =? 0) with false. cbv iota. unfold d_pair. rewrite <- !app_assoc.
    rewrite !rt_be8 by assumption. rewrite rt_times by assumption.
    rewrite dur_back by assumption. destruct s; reflexivity.
  - cbn [app orb] in *. rewrite Z.eqb_refl. rewrite rt_times by assumption.
    rewrite dur_back by assumption.
    unfold fl_zero_repaired in Z. repeat (apply andb_true_iff in Z; destruct Z as [Z ?]).
    destruct s; cbn in *. f_equal. f_equal. f_equal; lia.
Qed.

Lemma fl_fixed_rt : forall s rest, stat_ok s = true -> fl_fixed_dec (fl_fixed s ++ rest) = Some (s, rest).
Proof.
  intros s rest H. destruct (stat_ok_W s H) as (Hmn & Hmx & Ht0 & Ht1 & Hsm & Hc).
  unfold fl_fixed_dec, fl_fixed, d_pair. rewrite <- !app_assoc.
  rewrite !rt_be8, !rt_zint by assumption. rewrite !rt_be8, !rt_zint by assumption. destruct s; reflexivity.
Qed.

Theorem preagg_float_roundtrip : forall l s, stat_ok s = true -> fl_applicable l s = true ->
  fl_dec (fl_enc_with l s) = Some (s, pad_of l).
Proof.
  intros l s H A. destruct (stat_ok_W s H) as (Hmn & Hmx & Ht0 & Ht1 & Hsm & Hc).
  destruct sizes as (S1 & _ & SF & _).
  unfold fl_dec. unfold fl_applicable in A.
  destruct l as [| |f k1 k2|f k1 k2]; cbn [fl_enc_with fl_applicable_g pad_of] in *.
  - rewrite len_fl_one, Z.eqb_refl.
    rewrite <- (app_nil_r (fl_one s)). unfold fl_one, d_pair. rewrite <- !app_assoc.
    rewrite rt_be8, rt_zint by assumption. rewrite one_row_eq by exact A. reflexivity.
  - rewrite len_fl_fixed. rewrite S1, SF. cbn [Z.eqb Z.ltb Z.compare Pos.compare Pos.compare_cont Pos.eqb].
    rewrite <- (app_nil_r (fl_fixed s)). apply fl_fixed_rt. exact H.
  - and5 A A2 A3 A4 A5.
    destruct (Z.eqb_spec (len (fl_vlc f k1 k2 s)) size_one); [discriminate|].
    destruct (Z.ltb_spec (len (fl_vlc f k1 k2 s)) size_float); [|discriminate].
    rewrite <- (app_nil_r (fl_vlc f k1 k2 s)). apply fl_vlc_rt; assumption.
  - and4 A A2 A3 A4.
    rewrite len_app. change (len [0]) with 1.
    destruct (Z.eqb_spec (len (fl_vlc f k1 k2 s) + 1) size_one); [lia|].
    destruct (Z.ltb_spec (len (fl_vlc f k1 k2 s) + 1) size_float); [|lia].
    apply fl_vlc_rt; assumption.
Qed.

Theorem preagg_float_writer_ok : forall zero keep self s,
  (forall n, keep n = true -> n < size_float) ->
  (s_cnt s = 1 -> one_row_stat s = true) ->
  fl_applicable_g zero (fl_layout_g zero keep self s) s = true.
Proof.
  intros zero keep self s K O. unfold fl_layout_g.
  destruct (Z.eqb_spec (s_cnt s) 1) as [E|E]; [exact (O E)|].
  destruct self; [|reflexivity].
  set (f := negb (zero s)). set (k1 := scale_greedy (s_minT s)). set (k2 := scale_greedy (dur s)).
  assert (F : (f || zero s) = true) by (unfold f; destruct (zero s); reflexivity).
  destruct (Z.eqb_spec (len (fl_vlc f k1 k2 s)) size_one) as [E1|E1].
  - cbn [fl_applicable_g]. unfold k1, k2. rewrite !scale_greedy_ok. fold k1 k2. rewrite F, E1, Z.eqb_refl. reflexivity.
  - destruct (keep (len (fl_vlc f k1 k2 s))) eqn:Kp; [|reflexivity].
    cbn [fl_applicable_g]. unfold k1, k2. rewrite !scale_greedy_ok. fold k1 k2. rewrite F. apply K in Kp.
    destruct (Z.eqb_spec (len (fl_vlc f k1 k2 s)) size_one); [contradiction|].
    destruct (Z.ltb_spec (len (fl_vlc f k1 k2 s)) size_float); [reflexivity|lia].
Qed.

Theorem preagg_float_marshal_roundtrip : forall self s, stat_ok s = true -> (s_cnt s = 1 -> one_row_stat s = true) ->
  exists rest, fl_dec (fl_marshal self s) = Some (s, rest).
Proof.
  intros self s H O. eexists. unfold fl_marshal, fl_marshal_g. apply preagg_float_roundtrip; [exact H|].
  apply preagg_float_writer_ok; [|exact O]. intros n Hn. lia.
Qed.

(* ================= boolean, string, time ================= *)
Lemma be1 : forall b, 0 <= b < 256 -> be 1 b = [b].
Proof. intros b H. cbn [be]. change (256 ^ Z.of_nat 0) with 1. rewrite Z.div_1_r, Z.mod_small by lia. reflexivity. Qed.

Theorem preagg_bool_roundtrip : forall s rest, bool_stat_ok s = true -> bool_pa_dec (bool_marshal s ++ rest) = Some (s, rest).
Proof.
  intros s rest H.
  assert (F : W (s_cnt s) /\ W (s_minT s) /\ W (s_maxT s) /\ 0 <= s_min s < 256 /\ 0 <= s_max s < 256 /\ s_sum s = 0).
  { unfold bool_stat_ok, word_ok, byte_ok in H. unfold W. lia. }
  destruct F as (Hc & H0 & H1 & Hmn & Hmx & Hs).
  unfold bool_pa_dec, bool_marshal.
  rewrite <- (be1 (s_min s)), <- (be1 (s_max s)) by assumption.
  match goal with |- context [len ?x <? size_bool] => assert (L : size_bool <= len x) end.
  { rewrite !len_app, !len_zint. pose proof (len_nonneg rest). unfold len at 1 2. rewrite !be_length.
    destruct sizes as (_ & _ & _ & SB & _). lia. }
  match goal with |- context [len ?x <? size_bool] => destruct (Z.ltb_spec (len x) size_bool); [lia|] end.
  unfold d_pair. rewrite <- !app_assoc.
  rewrite !rt_zint by assumption.
  rewrite !get_be_app by (change (256 ^ Z.of_nat 1) with 256; lia).
  destruct s; cbn in *. subst. reflexivity.
Qed.

Theorem preagg_string_roundtrip : forall c rest, W c -> str_pa_dec (str_marshal (cnt_stat c) ++ rest) = Some (cnt_stat c, rest).
Proof.
  intros c rest H. unfold str_pa_dec, str_marshal. cbn [s_cnt cnt_stat].
  assert (L : size_string <= len (e_zint c ++ rest)).
  { rewrite len_app, len_zint. pose proof (len_nonneg rest). destruct sizes as (_ & _ & _ & _ & SS & _). lia. }
  destruct (Z.ltb_spec (len (e_zint c ++ rest)) size_string); [lia|].
  rewrite rt_zint by assumption. reflexivity.
Qed.

Theorem preagg_time_roundtrip : forall c rest, 0 <= c < M32 -> time_pa_dec (time_marshal (cnt_stat c) ++ rest) = Some (cnt_stat c, rest).
Proof.
  intros c rest H. unfold time_pa_dec, time_marshal. cbn [s_cnt cnt_stat].
  assert (L : size_time <= len (be 4 c ++ rest)).
  { rewrite len_app, be_len4'. pose proof (len_nonneg rest). destruct sizes as (_ & _ & _ & _ & _ & ST). lia. }
  destruct (Z.ltb_spec (len (be 4 c ++ rest)) size_time); [lia|].
  rewrite get_be_app by (rewrite pow256_4; assumption). reflexivity.
Qed.
