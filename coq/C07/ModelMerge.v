(* C07 - the MERGE paths of the statistics builders, used by streaming compaction to combine the stored statistics of the
   source chunks of one series without reading their rows (engine/immutable/pre_aggregation.go addMin / addMax / merge,
   stream_compact.go mergeIntegerPreAgg / mergeFloatPreAgg / mergeBooleanPreAgg).

   addMin(v, t): a smaller value replaces (value, time); an EQUAL value keeps the earlier time. addMax alike.
   IntegerPreAgg.merge hands the other block's min / max over as float64 and converts back with int64(...):
   `via_f64` is that conversion (round to nearest, ties to even, at 53 bits; amd64 gives MinInt64 when the rounded value is
   2^63). It is the identity exactly on the integers a float64 represents, in particular for |v| <= 2^53. *)
From Coq Require Import ZArith List Bool.
From OG Require Import C07.Model C07.ModelRows C07.ModelPreAgg C07.ModelStats.
Import ListNotations.
Open Scope Z_scope.

Definition P53 : Z := 9007199254740992.        (* 2^53 *)
(* a >= 0 rounded to 53 significant bits, ties to even *)
Definition round53 (a : Z) : Z :=
  if a <? P53 then a else
  let e := Z.log2 a - 52 in
  let q := a / 2 ^ e in
  let r := a mod 2 ^ e in
  let h := 2 ^ (e - 1) in
  (if (h <? r) || ((r =? h) && Z.odd q) then q + 1 else q) * 2 ^ e.
Definition via_f64 (u : Z) : Z :=
  let v := sgn64 u in
  let m := round53 (Z.abs v) in
  let w := if v <? 0 then - m else m in
  if M63 <=? w then M63 else w mod M64.
Definition exact53 (u : Z) : bool := Z.abs (sgn64 u) <=? P53.

(* ---- integer ---- *)
Definition add_min_int (s : stat) (v t : Z) : stat :=
  if ilt v (s_min s) then set_min s v t
  else if s_min s =? v then (if ilt t (s_minT s) then set_min s v t else s)
  else s.
Definition add_max_int (s : stat) (v t : Z) : stat :=
  if ilt (s_max s) v then set_max s v t
  else if s_max s =? v then (if ilt t (s_maxT s) then set_max s v t else s)
  else s.
Definition int_merge (conv : Z -> Z) (m o : stat) : stat :=
  let m1 := add_min_int m (conv (s_min o)) (s_minT o) in
  let m2 := add_max_int m1 (conv (s_max o)) (s_maxT o) in
  mkStat (s_min m2) (s_max m2) (s_minT m2) (s_maxT m2) ((s_sum m + s_sum o) mod M64) ((s_cnt m + s_cnt o) mod M64).

(* ---- float (sum = IEEE addition: a parameter) ---- *)
Definition add_min_fl (s : stat) (v t : Z) : stat :=
  if flt v (s_min s) then set_min s v t
  else if f_eq (s_min s) v then (if ilt t (s_minT s) then set_min s (s_min s) t else s)
  else s.
Definition add_max_fl (s : stat) (v t : Z) : stat :=
  if flt (s_max s) v then set_max s v t
  else if f_eq (s_max s) v then (if ilt t (s_maxT s) then set_max s (s_max s) t else s)
  else s.
Definition fl_merge (fadd : Z -> Z -> Z) (m o : stat) : stat :=
  let m1 := add_min_fl m (s_min o) (s_minT o) in
  let m2 := add_max_fl m1 (s_max o) (s_maxT o) in
  mkStat (s_min m2) (s_max m2) (s_minT m2) (s_maxT m2) (fadd (s_sum m) (s_sum o)) ((s_cnt m + s_cnt o) mod M64).

(* ---- boolean: min / max bytes are int8 (start values 2 and -1 = 255); the merge of streaming compaction hands over
        other.min() / other.max(), which read "byte = 1" (anything else is false) ---- *)
Definition i8 (b : Z) : Z := if b <? 128 then b else b - 256.
Definition bool_of_byte (b : Z) : Z := if b =? 1 then 1 else 0.
Definition add_min_bool (s : stat) (v t : Z) : stat :=
  if i8 v <? i8 (s_min s) then set_min s v t
  else if s_min s =? v then (if ilt t (s_minT s) then set_min s v t else s)
  else s.
Definition add_max_bool (s : stat) (v t : Z) : stat :=
  if i8 (s_max s) <? i8 v then set_max s v t
  else if s_max s =? v then (if ilt t (s_maxT s) then set_max s v t else s)
  else s.
Definition bool_merge (m o : stat) : stat :=
  let m1 := add_min_bool m (bool_of_byte (s_min o)) (s_minT o) in
  let m2 := add_max_bool m1 (bool_of_byte (s_max o)) (s_maxT o) in
  mkStat (s_min m2) (s_max m2) (s_minT m2) (s_maxT m2) 0 ((s_cnt m + s_cnt o) mod M64).
(* the boolean builder (repaired in /repo: times indexed by row): start values 2 / 255, strict int8 comparisons *)
Definition bool_build := build (fun a b => i8 a <? i8 b) (fun _ => true) (fun _ _ => 0) 2 255.

(* ---- what statistics OF A ROW LIST are: the least value with the earliest time it occurs at, the greatest value with the
        earliest time it occurs at, wrapping sum, count. Rows = (value, time) patterns ---- *)
Definition lex_le (p q : Z * Z) : Prop :=          (* value ascending, then time ascending *)
  sgn64 (fst p) < sgn64 (fst q) \/ (fst p = fst q /\ sgn64 (snd p) <= sgn64 (snd q)).
Definition lex_ge (p q : Z * Z) : Prop :=          (* value descending, then time ascending *)
  sgn64 (fst q) < sgn64 (fst p) \/ (fst p = fst q /\ sgn64 (snd p) <= sgn64 (snd q)).
Fixpoint sum64 (l : list (Z * Z)) : Z := match l with [] => 0 | (v, _) :: r => (v + sum64 r) mod M64 end.
Definition is_stat_of (s : stat) (l : list (Z * Z)) : Prop :=
  In (s_min s, s_minT s) l /\ (forall p, In p l -> lex_le (s_min s, s_minT s) p) /\
  In (s_max s, s_maxT s) l /\ (forall p, In p l -> lex_ge (s_max s, s_maxT s) p) /\
  s_sum s = sum64 l /\ s_cnt s = len l mod M64.
