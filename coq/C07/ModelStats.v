(* C07 - the VALUES of the stored statistics: the builders' accumulation over the segments of a column
   (engine/immutable/pre_aggregation.go IntegerPreAgg / FloatPreAgg / BooleanPreAgg .reset and .addValues, called once per
   segment by the chunk builder), against the reference "first occurrence of the strict minimum / maximum".

   A row = (value, time); value None = null. Integers are 64-bit patterns compared as int64; floats are IEEE bit patterns
   compared as float64 (`flt`; a NaN never compares); booleans 0 / 1 compared as int8 with start values 2 / -1 (255).

   `_current` : start values MaxInt64 / MinInt64 (+-MaxFloat64) and strict comparisons only - a value EQUAL to a start value
                never registers (finding C07-preagg-sentinel-init).
   `_repaired`: props/C07/fix3.patch - when min and max still hold their start values (min > max, impossible once a value
                is recorded) the first (non-NaN) value becomes min and max with its time. *)
From Coq Require Import ZArith List Bool.
From OG Require Import C07.Model C07.ModelRows C07.ModelPreAgg.
Import ListNotations.
Open Scope Z_scope.

Definition srow := (option Z * Z)%type.

(* ---- comparisons ---- *)
Definition ilt (a b : Z) : bool := sgn64 a <? sgn64 b.                    (* int64 a < b *)
(* float64 a < b on bit patterns: false when either is NaN; -0.0 = +0.0 *)
Definition fkey (a : Z) : Z := if a <? M63 then a + M63 else M64 - 1 - a.
Definition flt (a b : Z) : bool :=
  negb (f_is_nan a) && negb (f_is_nan b) && negb (f_is_zero a && f_is_zero b) && (fkey a <? fkey b).

Definition max_i64 : Z := M63 - 1.
Definition min_i64 : Z := M63.
Definition max_f64 : Z := 9218868437227405311.         (* 0x7FEFFFFFFFFFFFFF *)
Definition neg_max_f64 : Z := 18442240474082181119.    (* 0xFFEFFFFFFFFFFFFF *)

(* ---- one accumulation step (a non-null value v at time t) ---- *)
Definition set_min (s : stat) (v t : Z) : stat := mkStat v (s_max s) t (s_maxT s) (s_sum s) (s_cnt s).
Definition set_max (s : stat) (v t : Z) : stat := mkStat (s_min s) v (s_minT s) t (s_sum s) (s_cnt s).
Definition set_sum (s : stat) (x : Z) : stat := mkStat (s_min s) (s_max s) (s_minT s) (s_maxT s) x (s_cnt s).
Definition add_cnt (s : stat) (n : Z) : stat := mkStat (s_min s) (s_max s) (s_minT s) (s_maxT s) (s_sum s) (s_cnt s + n).

Section Builder.
  Variable lt : Z -> Z -> bool.            (* the value order *)
  Variable usable : Z -> bool.             (* may a value initialise min/max (floats: not NaN) *)
  Variable add : Z -> Z -> Z.              (* the sum *)
  Variable start_min start_max : Z.

  Definition cmp_step (s : stat) (v t : Z) : stat :=
    let s1 := if lt v (s_min s) then set_min s v t else s in
    let s2 := if lt (s_max s1) v then set_max s1 v t else s1 in
    set_sum s2 (add (s_sum s2) v).

  (* one segment: `fresh` = min and max still hold the start values when the segment begins (repaired only) *)
  Fixpoint seg_loop (fresh : bool) (s : stat) (n : Z) (rows : list srow) : stat * Z :=
    match rows with
    | [] => (s, n)
    | (None, _) :: r => seg_loop fresh s n r
    | (Some v, t) :: r =>
        if fresh && usable v
        then seg_loop false (cmp_step (set_max (set_min s v t) v t) v t) (n + 1) r
        else seg_loop fresh (cmp_step s v t) (n + 1) r
    end.
  Definition add_values (repaired : bool) (s : stat) (rows : list srow) : stat :=
    let fresh := repaired && (s_min s =? start_min) && (s_max s =? start_max) in
    let '(s', n) := seg_loop fresh s 0 rows in add_cnt s' n.
  Definition start_stat : stat := mkStat start_min start_max 0 0 0 0.
  Definition build (repaired : bool) (segs : list (list srow)) : stat := fold_left (add_values repaired) segs start_stat.

  (* ---- reference: first occurrence of the strict extreme over ALL rows, with an explicit "nothing yet" ---- *)
  Definition ref_step (acc : option (Z * Z)) (better : Z -> Z -> bool) (v t : Z) : option (Z * Z) :=
    match acc with
    | None => if usable v then Some (v, t) else None
    | Some (m, tm) => if better v m then Some (v, t) else Some (m, tm)
    end.
  Fixpoint ref_loop (mn mx : option (Z * Z)) (sm n : Z) (rows : list srow) : option (Z * Z) * option (Z * Z) * Z * Z :=
    match rows with
    | [] => (mn, mx, sm, n)
    | (None, _) :: r => ref_loop mn mx sm n r
    | (Some v, t) :: r => ref_loop (ref_step mn lt v t) (ref_step mx (fun a b => lt b a) v t) (add sm v) (n + 1) r
    end.
  Definition reference (segs : list (list srow)) := ref_loop None None 0 0 (concat segs).
  (* how the reference reads as a stat: nothing recorded = the start values with time 0 *)
  Definition ref_stat (r : option (Z * Z) * option (Z * Z) * Z * Z) : stat :=
    let '(mn, mx, sm, n) := r in
    mkStat (match mn with Some (v, _) => v | None => start_min end) (match mx with Some (v, _) => v | None => start_max end)
           (match mn with Some (_, t) => t | None => 0 end) (match mx with Some (_, t) => t | None => 0 end) sm n.
End Builder.

Definition iadd (a b : Z) : Z := (a + b) mod M64.
Definition int_build := build ilt (fun _ => true) iadd max_i64 min_i64.
Definition int_reference := reference ilt (fun _ => true) iadd.
Definition int_ref_stat := ref_stat max_i64 min_i64.
(* floats: the sum is IEEE addition, which the model does not have: it is a parameter *)
Definition fl_build (fadd : Z -> Z -> Z) := build flt (fun v => negb (f_is_nan v)) fadd max_f64 neg_max_f64.
Definition fl_reference (fadd : Z -> Z -> Z) := reference flt (fun v => negb (f_is_nan v)) fadd.
Definition fl_ref_stat := ref_stat max_f64 neg_max_f64.
