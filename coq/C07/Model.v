(* C07 - executable model of the openGemini-owned codec layers.

   Conventions
   * a byte is a Z in [0,256); a 64-bit value (int64, uint64, float64 bit pattern) is a Z in [0,2^64): the unsigned
     bit pattern. All wrap-around arithmetic is written explicitly as `mod M64`.
   * every layer is a pair  enc_with mode x / dec  plus a boolean `applicable mode x`.
   * third-party compressors (snappy, zstd, lz4, tsm1 gorilla, MLF) are arguments `c`/`d` of the block functions
     (Section variables); the theorems carry their round-trip behaviour as hypotheses.
   * where the implementation has freedom (simple8b selector choice, RLE run splitting, time scale, which mode to
     pick) the mode carries the choice; the harness reads the choice from the real bytes. *)
From Coq Require Import ZArith List Bool.
From OG Require Export C07.Gen_Consts.
Import ListNotations.
Open Scope Z_scope.

Definition M64 : Z := 18446744073709551616.      (* 2^64 *)
Definition M63 : Z := 9223372036854775808.       (* 2^63 *)
Definition M60 : Z := 1152921504606846976.       (* 2^60 *)
Definition M32 : Z := 4294967296.

Definition len {A} (l : list A) : Z := Z.of_nat (length l).

Definition byte_ok (b : Z) : bool := (0 <=? b) && (b <? 256).
Definition bytes_ok (l : list Z) : bool := forallb byte_ok l.
Definition word_ok (v : Z) : bool := (0 <=? v) && (v <? M64).
Definition words_ok (l : list Z) : bool := forallb word_ok l.

Fixpoint list_eqb (a b : list Z) : bool :=
  match a, b with
  | [], [] => true
  | x :: a', y :: b' => (x =? y) && list_eqb a' b'
  | _, _ => false
  end.

(* ---------- fixed-width integers ---------- *)
(* big endian, n bytes: numberenc.MarshalUint32Append / MarshalUint64Append / MarshalUint16Append *)
Fixpoint be (n : nat) (v : Z) : list Z :=
  match n with
  | O => []
  | S k => (v / 256 ^ Z.of_nat k) mod 256 :: be k v
  end.
Fixpoint unbe (l : list Z) (acc : Z) : Z :=
  match l with
  | [] => acc
  | b :: r => unbe r (acc * 256 + b)
  end.
(* read n big-endian bytes from the front *)
Definition get_be (n : nat) (l : list Z) : option (Z * list Z) :=
  if (length l <? n)%nat then None else Some (unbe (firstn n l) 0, skipn n l).

(* little endian (the in-memory layout of []int64 / []float64 viewed as []byte on the supported platforms) *)
Fixpoint le (n : nat) (v : Z) : list Z :=
  match n with
  | O => []
  | S k => v mod 256 :: le k (v / 256)
  end.
Fixpoint unle (l : list Z) : Z :=
  match l with
  | [] => 0
  | b :: r => b + 256 * unle r
  end.
Definition le_bytes (vs : list Z) : list Z := flat_map (le 8) vs.
Fixpoint unle_all (l : list Z) : option (list Z) :=
  match l with
  | [] => Some []
  | b0 :: b1 :: b2 :: b3 :: b4 :: b5 :: b6 :: b7 :: r =>
      match unle_all r with
      | Some vs => Some (unle [b0; b1; b2; b3; b4; b5; b6; b7] :: vs)
      | None => None
      end
  | _ => None
  end.

(* ---------- zig-zag on 64-bit patterns ---------- *)
(* Go: uint64(v<<1) ^ uint64(v>>63) for int64 v with pattern u:  u < 2^63 -> 2u ; else 2*(2^64-u)-1 *)
Definition zz (u : Z) : Z := if u <? M63 then 2 * u else 2 * (M64 - u) - 1.
Definition unzz (w : Z) : Z := if Z.even w then w / 2 else (M64 - (w + 1) / 2) mod M64.

(* ---------- Go binary.PutUvarint / Uvarint for uint64 ---------- *)
Fixpoint put_uvarint_f (f : nat) (v : Z) : list Z :=
  match f with
  | O => [v]
  | S k => if v <? 128 then [v] else (v mod 128 + 128) :: put_uvarint_f k (v / 128)
  end.
Definition put_uvarint (v : Z) : list Z := put_uvarint_f 9 v.
Fixpoint get_uvarint_f (l : list Z) (i : nat) (mul acc : Z) : option (Z * list Z) :=
  match l with
  | [] => None
  | b :: r =>
      if (10 <=? i)%nat then None
      else if b <? 128 then
        (if (i =? 9)%nat && (1 <? b) then None else Some (acc + b * mul, r))
      else get_uvarint_f r (S i) (mul * 128) (acc + (b - 128) * mul)
  end.
Definition get_uvarint (l : list Z) : option (Z * list Z) := get_uvarint_f l 0 1 0.

(* ---------- simple8b (lib/util/lifted/encoding/simple8b) ---------- *)
(* selector table: (number of values, bits per value) *)
Definition s8_table : list (Z * Z) := g_s8_table.     (* regenerated from simple8b's selector table on every run *)
Definition s8_n (sel : Z) : nat := Z.to_nat (fst (nth (Z.to_nat sel) s8_table (0, 0))).
Definition s8_bits (sel : Z) : Z := snd (nth (Z.to_nat sel) s8_table (0, 0)).

Fixpoint pack_vals (bits : Z) (vs : list Z) : Z :=
  match vs with
  | [] => 0
  | v :: r => v + 2 ^ bits * pack_vals bits r
  end.
Fixpoint unpack_vals (n : nat) (bits w : Z) : list Z :=
  match n with
  | O => []
  | S k => w mod 2 ^ bits :: unpack_vals k bits (w / 2 ^ bits)
  end.
Definition s8_word (sel : Z) (vs : list Z) : Z :=
  if sel <? 2 then sel * M60 else sel * M60 + pack_vals (s8_bits sel) vs.
Definition s8_unpack (w : Z) : list Z :=
  let sel := w / M60 in
  if sel <? 2 then repeat 1 (s8_n sel) else unpack_vals (s8_n sel) (s8_bits sel) (w mod M60).

(* can the first n values be stored with this selector *)
Definition s8_fits (sel : Z) (vs : list Z) : bool :=
  (0 <=? sel) && (sel <? 16) && (s8_n sel <=? length vs)%nat &&
  (if sel <? 2 then forallb (fun v => v =? 1) (firstn (s8_n sel) vs)
   else forallb (fun v => (0 <=? v) && (v <? 2 ^ s8_bits sel)) (firstn (s8_n sel) vs)).
Fixpoint s8_applicable (sels : list Z) (vs : list Z) : bool :=
  match sels with
  | [] => match vs with [] => true | _ => false end
  | s :: r => s8_fits s vs && s8_applicable r (skipn (s8_n s) vs)
  end.
Fixpoint s8_encode (sels : list Z) (vs : list Z) : list Z :=
  match sels with
  | [] => []
  | s :: r => s8_word s (firstn (s8_n s) vs) :: s8_encode r (skipn (s8_n s) vs)
  end.
Definition s8_decode (ws : list Z) : list Z := flat_map s8_unpack ws.
(* the selector list that is always applicable when every value is below 2^60 *)
Definition s8_trivial_sels (vs : list Z) : list Z := map (fun _ => 15) vs.

(* ---------- delta coding mod 2^64 ---------- *)
Fixpoint deltas (prev : Z) (vs : list Z) : list Z :=
  match vs with
  | [] => []
  | v :: r => (v - prev) mod M64 :: deltas v r
  end.
Fixpoint undeltas (prev : Z) (ds : list Z) : list Z :=
  match ds with
  | [] => []
  | d :: r => let v := (prev + d) mod M64 in v :: undeltas v r
  end.
Definition all_eq (d : Z) (l : list Z) : bool := forallb (fun x => x =? d) l.

(* split a byte list into big-endian 8-byte words *)
Fixpoint be8_all (l : list Z) : option (list Z) :=
  match l with
  | [] => Some []
  | b0 :: b1 :: b2 :: b3 :: b4 :: b5 :: b6 :: b7 :: r =>
      match be8_all r with
      | Some vs => Some (unbe [b0; b1; b2; b3; b4; b5; b6; b7] 0 :: vs)
      | None => None
      end
  | _ => None
  end.

(* ================= integer block (lib/encoding/int.go) ================= *)
Inductive imode := IConst | IS8 (sels : list Z) | IZstd | IRaw.
Definition imode_tag (m : imode) : Z := match m with IConst => g_int_const | IS8 _ => g_int_s8 | IZstd => g_int_zstd | IRaw => g_int_raw end.

Section IntBlock.
  Variable zc : list Z -> list Z.            (* zstd EncodeAll *)
  Variable zd : list Z -> option (list Z).   (* zstd DecodeAll *)

  Definition int_applicable (m : imode) (vs : list Z) : bool :=
    words_ok vs && (8 * len vs <? M32) &&
    match vs with
    | [] => true
    | v0 :: rest =>
        match m with
        | IRaw => true
        | IZstd => len (zc (le_bytes vs)) <? M32
        | IConst => match deltas v0 rest with [] => false | d :: ds => all_eq d ds end
        | IS8 sels => s8_applicable sels (map zz (deltas v0 rest)) && (len sels + 1 <? M32)
        end
    end.

  Definition int_enc_with (m : imode) (vs : list Z) : list Z :=
    match vs with
    | [] => []
    | v0 :: rest =>
        match m with
        | IRaw => [16 * g_int_raw] ++ be 4 (8 * len vs) ++ flat_map (fun v => be 8 (zz v)) vs
        | IZstd => let c := zc (le_bytes vs) in [16 * g_int_zstd] ++ be 4 (8 * len vs) ++ be 4 (len c) ++ c
        | IConst => [16 * g_int_const] ++ be 8 (zz v0) ++ put_uvarint (zz (hd 0 (deltas v0 rest))) ++ put_uvarint (len rest)
        | IS8 sels =>
            let ws := s8_encode sels (map zz (deltas v0 rest)) in
            [16 * g_int_s8] ++ be 4 (len ws + 1) ++ be 4 (len vs) ++ be 8 (zz v0) ++ flat_map (be 8) ws
        end
    end.

  Definition int_dec (bs : list Z) : option (list Z) :=
    match bs with
    | [] => Some []
    | t :: body =>
        if (length bs <? 5)%nat then None else
        let tag := t / 16 in
        if tag =? g_int_raw then
          match get_be 4 body with
          | Some (n, r) => if len r <? n then None else
                           match be8_all r with Some ws => Some (map unzz ws) | None => None end
          | None => None
          end
        else if tag =? g_int_const then
          match get_be 8 body with
          | Some (first, r) =>
              match get_uvarint r with
              | Some (dz, r2) =>
                  match get_uvarint r2 with
                  | Some (cnt, _) => let v0 := unzz first in Some (v0 :: undeltas v0 (repeat (unzz dz) (Z.to_nat cnt)))
                  | None => None
                  end
              | None => None
              end
          | None => None
          end
        else if tag =? g_int_s8 then
          if (length body <? 16)%nat then None else
          match get_be 4 body with
          | Some (encCount, r) =>
              match get_be 4 r with
              | Some (srcCount, r2) =>
                  if len r2 <? encCount * 8 then None else
                  match be8_all (firstn (Z.to_nat (encCount * 8)) r2) with
                  | Some (first :: ws) =>
                      let ds := s8_decode ws in
                      if len ds + 1 =? srcCount then let v0 := unzz first in Some (v0 :: undeltas v0 (map unzz ds)) else None
                  | _ => None
                  end
              | None => None
              end
          | None => None
          end
        else if tag =? g_int_zstd then
          match get_be 4 body with
          | Some (_, r) =>
              match get_be 4 r with
              | Some (compLen, r2) =>
                  if len r2 <? compLen then None else
                  match zd (firstn (Z.to_nat compLen) r2) with
                  | Some raw => unle_all raw
                  | None => None
                  end
              | None => None
              end
          | None => None
          end
        else None
    end.
End IntBlock.

(* ================= timestamp block (lib/encoding/timestamp.go) ================= *)
Inductive tmode := TConst | TS8 (scale : Z) (sels : list Z) | TSnappy | TRaw.
Definition tmode_tag (m : tmode) : Z := match m with TConst => g_time_const | TS8 _ _ => g_time_s8 | TSnappy => g_time_snappy | TRaw => g_time_raw end.

Section TimeBlock.
  Variable sc : list Z -> list Z.            (* klauspost snappy.Encode *)
  Variable sd : list Z -> option (list Z).   (* klauspost snappy.Decode *)

  Definition time_applicable (m : tmode) (vs : list Z) : bool :=
    words_ok vs && (8 * len vs <? M32) &&
    match m with
    | TRaw => true
    | TSnappy => len (sc (le_bytes vs)) <? M32
    | TConst => match vs with
                | v0 :: rest => match deltas v0 rest with [] => false | d :: ds => all_eq d ds end
                | [] => false
                end
    | TS8 scale sels =>
        match vs with
        | v0 :: rest =>
            (1 <=? scale) && (scale <? M64) && forallb (fun d => d mod scale =? 0) (deltas v0 rest) &&
            s8_applicable sels (map (fun d => d / scale) (deltas v0 rest)) && (len sels + 1 <? M32)
        | [] => false
        end
    end.

  Definition time_enc_with (m : tmode) (vs : list Z) : list Z :=
    match m with
    | TRaw => [16 * g_time_raw] ++ be 4 (8 * len vs) ++ flat_map (fun v => be 8 (zz v)) vs
    | TSnappy => let c := sc (le_bytes vs) in [16 * g_time_snappy] ++ be 4 (8 * len vs) ++ be 4 (len c) ++ c
    | TConst => match vs with
                | v0 :: rest => [16 * g_time_const] ++ be 8 v0 ++ put_uvarint (hd 0 (deltas v0 rest)) ++ put_uvarint (len rest)
                | [] => []
                end
    | TS8 scale sels =>
        match vs with
        | v0 :: rest =>
            let ws := s8_encode sels (map (fun d => d / scale) (deltas v0 rest)) in
            [16 * g_time_s8] ++ be 8 scale ++ be 4 (len ws + 1) ++ be 4 (len vs) ++ be 8 v0 ++ flat_map (be 8) ws
        | [] => []
        end
    end.

  Definition time_dec (bs : list Z) : option (list Z) :=
    match bs with
    | [] => None
    | t :: body =>
        if (length bs <? 5)%nat then None else
        let tag := t / 16 in
        if tag =? g_time_raw then
          match get_be 4 body with
          | Some (n, r) => if len r <? n then None else
                           match be8_all r with Some ws => Some (map unzz ws) | None => None end
          | None => None
          end
        else if tag =? g_time_const then
          match get_be 8 body with
          | Some (v0, r) =>
              match get_uvarint r with
              | Some (d, r2) =>
                  match get_uvarint r2 with
                  | Some (cnt, _) => Some (v0 :: undeltas v0 (repeat d (Z.to_nat cnt)))
                  | None => None
                  end
              | None => None
              end
          | None => None
          end
        else if tag =? g_time_s8 then
          if (length body <? 24)%nat then None else
          match get_be 8 body with
          | Some (scale, r0) =>
              match get_be 4 r0 with
              | Some (encCount, r) =>
                  match get_be 4 r with
                  | Some (srcCount, r2) =>
                      if len r2 <? encCount * 8 then None else
                      match be8_all (firstn (Z.to_nat (encCount * 8)) r2) with
                      | Some (v0 :: ws) =>
                          let ds := s8_decode ws in
                          if len ds + 1 =? srcCount then Some (v0 :: undeltas v0 (map (fun q => (q * scale) mod M64) ds)) else None
                      | _ => None
                      end
                  | None => None
                  end
              | None => None
              end
          | None => None
          end
        else if tag =? g_time_snappy then
          match get_be 4 body with
          | Some (srcLen, r) =>
              match get_be 4 r with
              | Some (compLen, r2) =>
                  if len r2 <? compLen then None else
                  match sd (firstn (Z.to_nat compLen) r2) with
                  | Some raw => if len raw =? srcLen then unle_all raw else None
                  | None => None
                  end
              | None => None
              end
          | None => None
          end
        else None
    end.
End TimeBlock.

(* ================= boolean block (lib/encoding/bool.go) ================= *)
Definition bit (b : bool) : Z := if b then 1 else 0.
Definition byte_of_bits (l : list bool) : Z :=
  128 * bit (nth 0 l false) + 64 * bit (nth 1 l false) + 32 * bit (nth 2 l false) + 16 * bit (nth 3 l false) +
  8 * bit (nth 4 l false) + 4 * bit (nth 5 l false) + 2 * bit (nth 6 l false) + bit (nth 7 l false).
Definition bits_of_byte (v : Z) : list bool :=
  [Z.odd (v / 128); Z.odd (v / 64); Z.odd (v / 32); Z.odd (v / 16); Z.odd (v / 8); Z.odd (v / 4); Z.odd (v / 2); Z.odd v].
Fixpoint pack_bits (fuel : nat) (bs : list bool) : list Z :=
  match fuel with
  | O => []
  | S k => match bs with [] => [] | _ => byte_of_bits bs :: pack_bits k (skipn 8 bs) end
  end.
Definition bool_applicable (bs : list bool) : bool := len bs <? M32.
Definition bool_enc (bs : list bool) : list Z :=
  match bs with
  | [] => []
  | _ => [16 * g_bool_bitpack] ++ be 4 (len bs) ++ pack_bits (length bs) bs
  end.
Definition bool_dec (bs : list Z) : option (list bool) :=
  match bs with
  | [] => Some []
  | t :: body =>
      match get_be 4 body with
      | Some (n, r) =>
          if t / 16 =? g_bool_bitpack then
            let bits := flat_map bits_of_byte r in
            if len bits <? n then None else Some (firstn (Z.to_nat n) bits)
          else None
      | None => None
      end
  end.

(* ================= float container (lib/compress/float.go, compress.go) ================= *)
Inductive fmode := FNone | FSame | FRLE (runs : list Z) | FSnappy | FGorilla | FMLF.
Definition fmode_tag (m : fmode) : Z :=
  match m with FNone => g_f_none | FSnappy => g_f_snappy | FGorilla => g_f_gorilla | FSame => g_f_same | FRLE _ => g_f_rle | FMLF => g_f_mlf end.

(* float64 bit-pattern predicates *)
Definition f_is_nan (v : Z) : bool := ((v / 4503599627370496) mod 2048 =? 2047) && negb (v mod 4503599627370496 =? 0).
Definition f_is_zero (v : Z) : bool := v mod M63 =? 0.                    (* +0.0 or -0.0: Go `v == 0` on float64 *)
Definition f_eq (a b : Z) : bool :=                                        (* Go `a == b` on float64 *)
  negb (f_is_nan a) && negb (f_is_nan b) && ((a =? b) || (f_is_zero a && f_is_zero b)).

(* zero test used by same-value encoding: today's code tests the float (`values[0] == 0`, true for -0.0 as well),
   the repaired code tests the bit pattern *)
Definition zero_current (v : Z) : bool := f_is_zero v.
Definition zero_repaired (v : Z) : bool := v =? 0.

Fixpoint rle_applicable (runs : list Z) (vs : list Z) : bool :=
  match runs with
  | [] => match vs with [] => true | _ => false end
  | n :: r =>
      (1 <=? n) && (n <? 32768) && (Z.to_nat n <=? length vs)%nat &&
      all_eq (hd 0 vs) (firstn (Z.to_nat n) vs) && rle_applicable r (skipn (Z.to_nat n) vs)
  end.
Fixpoint rle_enc (runs : list Z) (vs : list Z) : list Z :=
  match runs with
  | [] => []
  | n :: r =>
      let v := hd 0 vs in
      (if v =? 0 then be 2 (n + 32768) else be 2 n ++ le 8 v) ++ rle_enc r (skipn (Z.to_nat n) vs)
  end.
Fixpoint rle_dec (bs : list Z) : list Z :=
  match bs with
  | h :: l :: r2 =>
      let n := h * 256 + l in
      if 32768 <=? n then repeat 0 (Z.to_nat (n - 32768)) ++ rle_dec r2
      else match r2 with
           | b0 :: b1 :: b2 :: b3 :: b4 :: b5 :: b6 :: b7 :: r10 =>
               repeat (unle [b0; b1; b2; b3; b4; b5; b6; b7]) (Z.to_nat n) ++ rle_dec r10
           | _ => []       (* the implementation returns an error here; never produced by a valid encoding *)
           end
  | _ => []
  end.
(* runs as today's encoder splits them: maximal runs of equal bit patterns, cut at `limit` *)
Fixpoint rle_greedy_runs (limit : Z) (prev : Z) (n : Z) (vs : list Z) : list Z :=
  match vs with
  | [] => [n]
  | v :: r => if (v =? prev) && (n <? limit) then rle_greedy_runs limit prev (n + 1) r
              else n :: rle_greedy_runs limit v 1 r
  end.
Definition rle_runs_of (vs : list Z) : list Z :=
  match vs with [] => [] | v :: r => rle_greedy_runs g_rle_block_limit v 1 r end.

Inductive result := Ok (bs : list Z) | Panic.

Section FloatBlock.
  Variable gsc : list Z -> list Z.                    (* golang/snappy Encode *)
  Variable gsd : list Z -> option (list Z).           (* golang/snappy Decode *)
  Variable gor_c : list Z -> option (list Z).         (* tsm1.FloatArrayEncodeAll: may return an error *)
  Variable gor_d : list Z -> option (list Z).         (* tsm1.FloatArrayDecodeAll *)
  Variable mlf_c : list Z -> list Z.                  (* mlf compressor *)
  Variable mlf_d : list Z -> option (list Z).
  Variable is_zero : Z -> bool.                       (* zero_current or zero_repaired *)

  Definition float_applicable (m : fmode) (vs : list Z) : bool :=
    words_ok vs &&
    match vs with
    | [] => true
    | v0 :: rest =>
        match m with
        | FNone => true
        | FSame => all_eq v0 rest && (len vs <? 65536)
        | FRLE runs => rle_applicable runs vs
        | FSnappy => true
        | FGorilla => match gor_c vs with Some _ => true | None => false end
        | FMLF => true
        end
    end.

  Definition float_enc_with (m : fmode) (vs : list Z) : list Z :=
    match vs with
    | [] => []
    | v0 :: _ =>
        match m with
        | FNone => [16 * g_f_none] ++ le_bytes vs
        | FSame => [16 * g_f_same] ++ be 2 (len vs) ++ (if is_zero v0 then [] else le 8 v0)
        | FRLE runs => [16 * g_f_rle] ++ rle_enc runs vs
        | FSnappy => [16 * g_f_snappy] ++ gsc (le_bytes vs)
        | FGorilla => [16 * g_f_gorilla] ++ match gor_c vs with Some g => g | None => [] end
        | FMLF => [16 * g_f_mlf] ++ mlf_c vs
        end
    end.

  Definition float_dec (bs : list Z) : option (list Z) :=
    match bs with
    | [] => Some []
    | t :: body =>
        let tag := t / 16 in
        if tag =? g_f_none then unle_all body
        else if tag =? g_f_gorilla then gor_d body
        else if tag =? g_f_snappy then match gsd body with Some raw => unle_all raw | None => None end
        else if tag =? g_f_same then
          match body with
          | [h; l] => Some (repeat 0 (Z.to_nat (h * 256 + l)))
          | h :: l :: b0 :: b1 :: b2 :: b3 :: b4 :: b5 :: b6 :: b7 :: _ =>
              Some (repeat (unle [b0; b1; b2; b3; b4; b5; b6; b7]) (Z.to_nat (h * 256 + l)))
          | _ => None
          end
        else if tag =? g_f_rle then Some (rle_dec body)
        else if tag =? g_f_mlf then mlf_d body
        else None
    end.

  (* ---- the whole adaptive encoder (selection + fall-backs), with the data-dependent sampling heuristic
          (snappy or gorilla) as a choice oracle ---- *)
  Variable prefer_snappy : list Z -> bool.
  Variable feq : Z -> Z -> bool.             (* equality used to count distinct neighbours: f_eq today, Z.eqb repaired *)
  Variable guard_gorilla_err : bool.         (* repaired: test the gorilla encoder's error before re-slicing *)

  Fixpoint distinct_count (prev : Z) (vs : list Z) : Z :=
    match vs with
    | [] => 1
    | v :: r => (if feq v prev then 0 else 1) + distinct_count v r
    end.

  Definition float_encode (vs : list Z) : result :=
    match vs with
    | [] => Ok []
    | v0 :: rest =>
        if len vs <=? g_f_threshold then Ok (float_enc_with FNone vs)
        else
          let dc := distinct_count v0 rest in
          if dc =? 1 then Ok (float_enc_with FSame vs)
          else if dc <=? g_f_rle_threshold then Ok (float_enc_with (FRLE (rle_runs_of vs)) vs)
          else
            let r :=
              if prefer_snappy vs || existsb f_is_nan vs then Ok (float_enc_with FSnappy vs)
              else match gor_c vs with
                   | Some g => Ok ([16 * g_f_gorilla] ++ g)
                   | None => if guard_gorilla_err then Ok (float_enc_with FNone vs) else Panic
                   end in
            match r with
            | Ok out => if 8 * len vs * 90 / 100 <? len out then Ok (float_enc_with FNone vs) else Ok out
            | Panic => Panic
            end
    end.
End FloatBlock.

(* ================= string block (lib/encoding/encoding.go packStringV2 + string.go) ================= *)
Inductive smode := SRaw | SSnappy | SZstd | SLz4.
Definition smode_tag (m : smode) : Z := match m with SRaw => g_str_raw | SSnappy => g_str_snappy | SZstd => g_str_zstd | SLz4 => g_str_lz4 end.

Definition str_version_v2 : Z := g_str_v2.
Definition pack_strings (ss : list (list Z)) : list Z :=
  let data := concat ss in
  be 4 str_version_v2 ++ be 4 (len data) ++ data ++ be 4 (len ss) ++ flat_map (fun s => be 4 (len s)) ss.
(* split data by the given lengths; the last string takes the rest *)
Fixpoint split_by (lens : list Z) (data : list Z) : list (list Z) :=
  match lens with
  | [] => [data]
  | n :: r => firstn (Z.to_nat n) data :: split_by r (skipn (Z.to_nat n) data)
  end.
Fixpoint be4_all (l : list Z) : option (list Z) :=
  match l with
  | [] => Some []
  | b0 :: b1 :: b2 :: b3 :: r =>
      match be4_all r with
      | Some vs => Some (unbe [b0; b1; b2; b3] 0 :: vs)
      | None => None
      end
  | _ => None
  end.
(* the deprecated version-1 packing (decode only; files written by older versions): no version word,
   | u32 length of data | data | u32 length of the offsets in BYTES | u32 start offset of every string | *)
Fixpoint starts (o : Z) (ss : list (list Z)) : list Z :=
  match ss with [] => [] | s :: r => o :: starts (o + len s) r end.
Definition pack_strings_v1 (ss : list (list Z)) : list Z :=
  let data := concat ss in
  be 4 (len data) ++ data ++ be 4 (4 * len ss) ++ flat_map (fun o => be 4 o) (starts 0 ss).
Fixpoint diffs_from (o : Z) (offs : list Z) : list Z :=
  match offs with
  | [] => []
  | o2 :: r => (o2 - o) :: diffs_from o2 r
  end.
Definition unpack_strings_v1 (bs : list Z) : option (list (list Z)) :=
  match get_be 4 bs with
  | Some (n, r) =>
      if len r <? n + 4 then None else
      let data := firstn (Z.to_nat n) r in
      match get_be 4 (skipn (Z.to_nat n) r) with
      | Some (offLen, r3) =>
          if len r3 <? offLen then None else
          match be4_all (firstn (Z.to_nat (4 * (offLen / 4))) r3) with
          | Some [] => Some []
          | Some (o :: offs) => Some (split_by (diffs_from o offs) (skipn (Z.to_nat o) data))
          | None => None
          end
      | None => None
      end
  | None => None
  end.

Definition unpack_strings (bs : list Z) : option (list (list Z)) :=
  match get_be 4 bs with
  | Some (ver, r) =>
      if ver =? str_version_v2 then
        match get_be 4 r with
        | Some (n, r2) =>
            if len r2 <? n + 4 then None else
            let data := firstn (Z.to_nat n) r2 in
            match get_be 4 (skipn (Z.to_nat n) r2) with
            | Some (cnt, r3) =>
                if (cnt <? 1) || (len r3 <? 4 * cnt) then None else
                match be4_all (firstn (Z.to_nat (4 * (cnt - 1))) r3) with
                | Some lens => Some (split_by lens data)
                | None => None
                end
            | None => None
            end
        | None => None
        end
      else if ver <? g_str_end then unpack_strings_v1 bs      (* a length, not a version word: version 1 *)
      else None
  | None => None
  end.

Section StringBlock.
  Variable cc : smode -> list Z -> list Z.            (* compressor of the mode (SRaw: identity, not used) *)
  Variable cd : smode -> list Z -> option (list Z).

  Definition string_applicable (m : smode) (ss : list (list Z)) : bool :=
    forallb bytes_ok ss && (len (pack_strings ss) <? M32 - 3) &&
    match m with SRaw => true | _ => len (cc m (pack_strings ss)) <? M32 end.

  Definition string_enc_with (m : smode) (ss : list (list Z)) : list Z :=
    match ss with
    | [] => []
    | _ =>
        let src := pack_strings ss in
        match m with
        | SRaw => [16 * g_str_raw] ++ be 4 (len src) ++ be 4 (len src) ++ src
        | _ => let c := cc m src in [16 * smode_tag m] ++ be 4 (len src) ++ be 4 (len c) ++ c
        end
    end.

  Definition string_dec (bs : list Z) : option (list (list Z)) :=
    match bs with
    | [] => Some []
    | t :: body =>
        if (length bs <? 9)%nat then None else
        let tag := t / 16 in
        if negb ((tag =? g_str_raw) || (tag =? g_str_snappy) || (tag =? g_str_zstd) || (tag =? g_str_lz4)) then None else
        match get_be 4 body with
        | Some (srcLen, r) =>
            match get_be 4 r with
            | Some (compLen, r2) =>
                if len r2 <? compLen then None else
                let payload := firstn (Z.to_nat compLen) r2 in
                if tag =? g_str_raw then unpack_strings payload
                else
                  let m := if tag =? g_str_snappy then SSnappy else if tag =? g_str_zstd then SZstd else SLz4 in
                  match cd m payload with
                  | Some raw => if len raw =? srcLen then unpack_strings raw else None
                  | None => None
                  end
            | None => None
            end
        | None => None
        end
    end.
End StringBlock.

(* a version-1 packing in the uncompressed container (what an older writer stored) *)
Definition string_block_v1 (ss : list (list Z)) : list Z :=
  let src := pack_strings_v1 ss in [16 * g_str_raw] ++ be 4 (len src) ++ be 4 (len src) ++ src.

(* ================= WAL record frame (engine/wal.go writeBinary / replayPhysicRecord) ================= *)
Section Frame.
  Variable wc : list Z -> list Z.            (* golang/snappy Encode *)
  Variable wd : list Z -> option (list Z).   (* golang/snappy Decode *)

  Definition frame_applicable (typ : Z) (payload : list Z) : bool :=
    ((typ =? g_wal_line) || (typ =? g_wal_arrow)) && bytes_ok payload && (len (wc payload) <? M32).
  Definition frame_enc (typ : Z) (payload : list Z) : list Z :=
    let c := wc payload in [typ] ++ be 4 (len c) ++ c.
  (* Some (type, payload, rest of the file) or None = "incomplete / unreadable: replay of this file ends here" *)
  Definition frame_dec (bs : list Z) : option (Z * list Z * list Z) :=
    match bs with
    | [] => None
    | t :: body =>
        match get_be 4 body with
        | Some (n, r) =>
            if (t <=? g_wal_unknown) || (g_wal_end <=? t) then None
            else if len r <? n then None
            else match wd (firstn (Z.to_nat n) r) with
                 | Some p => Some (t, p, skipn (Z.to_nat n) r)
                 | None => None
                 end
        | None => None
        end
    end.
  (* replay of a whole log file: records until the first incomplete one *)
  Fixpoint replay (fuel : nat) (bs : list Z) : list (Z * list Z) :=
    match fuel with
    | O => []
    | S k => match frame_dec bs with
             | Some (t, p, rest) => (t, p) :: replay k rest
             | None => []
             end
    end.
End Frame.

(* applicability as today's selection sees it (same-value decided by float equality); used by Refuted.v and by the
   correspondence to recognise which variant the working tree implements *)
Definition float_applicable_current (gor_c : list Z -> option (list Z)) (m : fmode) (vs : list Z) : bool :=
  match m, vs with
  | FSame, v0 :: rest => words_ok vs && forallb (fun v => f_eq v v0) vs && (len vs <? 65536)
  | _, _ => float_applicable gor_c m vs
  end.

(* today's record reader (engine/wal.go replayPhysicRecord): io.ReadFull reporting io.EOF - not a single payload byte
   follows the header - is treated like success, and the pooled buffer, still holding `stale` bytes of an earlier
   record, is decompressed and delivered *)
Definition frame_dec_current (wd : list Z -> option (list Z)) (stale : list Z) (bs : list Z) : option (Z * list Z * list Z) :=
  match bs with
  | [] => None
  | t :: body =>
      match get_be 4 body with
      | Some (n, r) =>
          if (t <=? g_wal_unknown) || (g_wal_end <=? t) then None
          else if (len r =? 0) && (0 <? n) then
            (if len stale <? n then None
             else match wd (firstn (Z.to_nat n) stale) with Some p => Some (t, p, []) | None => None end)
          else frame_dec wd bs
      | None => None
      end
  end.

(* ================= column segment: one-row mode and column header (engine/immutable/column_builder.go) =================
   A segment is a list of rows; a row is null (None) or the raw bytes of its value (int/float: 8 bytes LE, bool: 1 byte,
   string: its bytes - possibly none). col.Val is the concatenation of the non-null values. The block that follows the
   header is produced by the block coders modelled above and is a parameter here. *)
Inductive ctype := CFloat | CInt | CBool | CString.
Definition base_tag (t : ctype) : Z := match t with CInt => g_blk_int | CFloat => g_blk_float | CString => g_blk_string | CBool => g_blk_bool end.
Definition one_tag (t : ctype) : Z := match t with CFloat => g_one_float | CInt => g_one_int | CBool => g_one_bool | CString => g_one_string end.
Definition full_tag (t : ctype) : Z := match t with CFloat => g_full_float | CInt => g_full_int | CBool => g_full_bool | CString => g_full_string end.
Definition empty_tag (t : ctype) : Z := match t with CFloat => g_empty_float | CInt => g_empty_int | CBool => g_empty_bool | CString => g_empty_string end.

Definition row := option (list Z).
Definition is_some (r : row) : bool := match r with Some _ => true | None => false end.
Definition validity (rows : list row) : list bool := map is_some rows.
Definition nil_count (rows : list row) : Z := len (filter (fun r => negb (is_some r)) rows).
Definition col_val (rows : list row) : list Z := flat_map (fun r => match r with Some v => v | None => [] end) rows.

(* null bitmap: least significant bit first, 1 = value present *)
Definition byte_of_bits_lsb (l : list bool) : Z :=
  bit (nth 0 l false) + 2 * bit (nth 1 l false) + 4 * bit (nth 2 l false) + 8 * bit (nth 3 l false) +
  16 * bit (nth 4 l false) + 32 * bit (nth 5 l false) + 64 * bit (nth 6 l false) + 128 * bit (nth 7 l false).
Definition bits_of_byte_lsb (v : Z) : list bool :=
  [Z.odd v; Z.odd (v / 2); Z.odd (v / 4); Z.odd (v / 8); Z.odd (v / 16); Z.odd (v / 32); Z.odd (v / 64); Z.odd (v / 128)].
Fixpoint pack_bits_lsb (fuel : nat) (bs : list bool) : list Z :=
  match fuel with
  | O => []
  | S k => match bs with [] => [] | _ => byte_of_bits_lsb bs :: pack_bits_lsb k (skipn 8 bs) end
  end.

(* header modes; the bitmap mode carries what the real bitmap holds around the segment's own bits: `pre` bits before
   the bitmap offset (a segment split off a longer column starts inside a byte) and `post` padding bits *)
Inductive hmode := HOne | HFull | HEmpty | HBitmap (pre post : list bool).

Definition seg_applicable (m : hmode) (rows : list row) : bool :=
  match m with
  | HOne => match rows with
            | [Some v] => (0 <? len v) && (len v <? 16)       (* CanEncodeOneRowMode: Len = 1, 0 < len(Val) < 16 *)
            | _ => false
            end
  | HFull => (nil_count rows =? 0) && (0 <? len rows) && (len rows <? M32)
  | HEmpty => (nil_count rows =? len rows) && (0 <? len rows) && (len rows <? M32)
  | HBitmap pre post =>
      (0 <? len rows) && (len rows <? M32 - 16) && (len pre <? 8) && (len post <? 8) &&
      ((len pre + len rows + len post) mod 8 =? 0)
  end.

Definition seg_enc_with (t : ctype) (m : hmode) (block : list Z) (rows : list row) : list Z :=
  match m with
  | HOne => [one_tag t] ++ col_val rows
  | HFull => [full_tag t] ++ be 4 (len rows) ++ block
  | HEmpty => [empty_tag t] ++ be 4 (len rows) ++ block
  | HBitmap pre post =>
      let bits := pre ++ validity rows ++ post in
      let bm := pack_bits_lsb (length bits) bits in
      [base_tag t] ++ be 4 (len bm) ++ bm ++ be 4 (len pre) ++ be 4 (nil_count rows) ++ block
  end.

(* the reader (decodeColumnData / DecodeColumnHeader / DecodeColumnOfOneValue): validity of the rows and the payload
   handed to the block decoder (one-row mode: the value itself). `nrows` is the row count the reader derives from the
   decoded block (values + nil count, or number of string offsets). *)
Definition seg_dec (t : ctype) (nrows : Z) (bs : list Z) : option (list bool * list Z) :=
  match bs with
  | [] => None
  | tag :: body =>
      if (g_one_begin <? tag) && (tag <? g_one_end) then
        Some ([match body with [] => false | _ => true end], body)
      else if (g_full_begin <? tag) && (tag <? g_full_end) then
        match get_be 4 body with Some (n, payload) => Some (repeat true (Z.to_nat n), payload) | None => None end
      else if (g_empty_begin <? tag) && (tag <? g_empty_end) then
        match get_be 4 body with Some (n, payload) => Some (repeat false (Z.to_nat n), payload) | None => None end
      else if tag =? base_tag t then
        match get_be 4 body with
        | Some (bmlen, r) =>
            if len r <? bmlen + 8 then None else
            let bm := firstn (Z.to_nat bmlen) r in
            match get_be 4 (skipn (Z.to_nat bmlen) r) with
            | Some (off, r2) =>
                match get_be 4 r2 with
                | Some (_, payload) =>
                    let bits := skipn (Z.to_nat off) (flat_map bits_of_byte_lsb bm) in
                    if len bits <? nrows then None else Some (firstn (Z.to_nat nrows) bits, payload)
                | None => None
                end
            | None => None
            end
        | None => None
        end
      else None
  end.
