(* C07 - executable model of the rows codec (FastMarshalMultiRows / FastUnmarshalMultiRows, the payload of line-protocol
   WAL records and of node-to-node writes), built from small self-delimiting codecs. A decoder returns the value and
   the unread rest, or None ("rejected": the implementation returns an error or faults). *)
From Coq Require Import ZArith List Bool.
From OG Require Import C07.Model.
Import ListNotations.
Open Scope Z_scope.

Definition dec_t (A : Type) := list Z -> option (A * list Z).

Definition omap {A B} (f : A -> B) (o : option (A * list Z)) : option (B * list Z) :=
  match o with Some (a, r) => Some (f a, r) | None => None end.

(* sequencing *)
Definition e_pair {A B} (e1 : A -> list Z) (e2 : B -> list Z) (p : A * B) : list Z := e1 (fst p) ++ e2 (snd p).
Definition d_pair {A B} (d1 : dec_t A) (d2 : dec_t B) : dec_t (A * B) := fun bs =>
  match d1 bs with
  | Some (a, r) => match d2 r with Some (b, r2) => Some ((a, b), r2) | None => None end
  | None => None
  end.

(* w-byte big-endian length, then the bytes *)
Definition put_bytes (w : nat) (s : list Z) : list Z := be w (len s) ++ s.
Definition get_bytes (w : nat) : dec_t (list Z) := fun bs =>
  match get_be w bs with
  | Some (n, r) => if len r <? n then None else Some (firstn (Z.to_nat n) r, skipn (Z.to_nat n) r)
  | None => None
  end.

(* n items in a row *)
Fixpoint get_n {A} (d : dec_t A) (n : nat) (bs : list Z) : option (list A * list Z) :=
  match n with
  | O => Some ([], bs)
  | S k => match d bs with
           | Some (a, r) => match get_n d k r with Some (l, r2) => Some (a :: l, r2) | None => None end
           | None => None
           end
  end.
(* w-byte count, then the items *)
Definition put_list {A} (w : nat) (e : A -> list Z) (l : list A) : list Z := be w (len l) ++ flat_map e l.
Definition get_list {A} (w : nat) (d : dec_t A) : dec_t (list A) := fun bs =>
  match get_be w bs with
  | Some (n, r) => get_n d (Z.to_nat n) r
  | None => None
  end.

(* ---- a row ---- *)
Definition rtag := (list Z * list Z)%type.                   (* key, value *)
Inductive fval := FStr (s : list Z) | FNum (ty : Z) (bits : Z).   (* string field | int/uint/float/bool/tag field as float64 bits *)
Definition rfield := (list Z * fval)%type.
Definition ropt := (Z * list Z)%type.                         (* oid, index list *)
(* name, shard key, tags, fields, index options, time (64-bit pattern) *)
Definition rrow := (list Z * (list Z * (list rtag * (list rfield * (list ropt * Z)))))%type.

Definition e_tag : rtag -> list Z := e_pair (put_bytes 2) (put_bytes 2).
Definition d_tag : dec_t rtag := d_pair (get_bytes 2) (get_bytes 2).

Definition e_fval (v : fval) : list Z :=
  match v with
  | FStr s => [4] ++ put_bytes 8 s
  | FNum ty bits => [ty] ++ be 8 bits
  end.
Definition d_fval : dec_t fval := fun bs =>
  match bs with
  | [] => None
  | ty :: r =>
      if (ty <=? 0) || (7 <=? ty) then None
      else if ty =? 4 then omap FStr (get_bytes 8 r)
      else omap (FNum ty) (get_be 8 r)
  end.
Definition e_field : rfield -> list Z := e_pair (put_bytes 2) e_fval.
Definition d_field : dec_t rfield := d_pair (get_bytes 2) d_fval.

Definition e_opt : ropt -> list Z := e_pair (be 4) (put_list 2 (be 2)).
Definition d_opt : dec_t ropt := d_pair (get_be 4) (get_list 2 (get_be 2)).
Definition e_opts (l : list ropt) : list Z :=
  match l with
  | [] => [110]                         (* 'n' *)
  | _ => [121] ++ put_list 4 e_opt l    (* 'y' *)
  end.
Definition d_opts : dec_t (list ropt) := fun bs =>
  match bs with
  | [] => None
  | f :: r => if f =? 110 then Some ([], r) else get_list 4 d_opt r
  end.

Definition e_time (t : Z) : list Z := be 8 (zz t).
Definition d_time : dec_t Z := fun bs => omap unzz (get_be 8 bs).

Definition e_row : rrow -> list Z :=
  e_pair (put_bytes 1) (e_pair (put_bytes 4) (e_pair (put_list 4 e_tag) (e_pair (put_list 4 e_field) (e_pair e_opts e_time)))).
Definition d_row : dec_t rrow :=
  d_pair (get_bytes 1) (d_pair (get_bytes 4) (d_pair (get_list 4 d_tag) (d_pair (get_list 4 d_field) (d_pair d_opts d_time)))).

(* ---- a batch: count, version byte, rows. The decoder demands exactly `count` rows (fewer = error); bytes after the
        last row are tolerated, as in the implementation ---- *)
Definition e_batch (rs : list rrow) : list Z := be 4 (len rs) ++ [1] ++ flat_map e_row rs.
Definition d_batch (bs : list Z) : option (list rrow) :=
  match get_be 4 bs with
  | Some (n, r) =>
      match r with
      | [] => None
      | _ :: r2 => match get_n d_row (Z.to_nat n) r2 with Some (l, _) => Some l | None => None end
      end
  | None => None
  end.

(* well-formedness: every length fits its length field *)
Definition tag_ok (t : rtag) : bool := (len (fst t) <? 65536) && (len (snd t) <? 65536).
Definition fval_ok (v : fval) : bool :=
  match v with
  | FStr s => len s <? M64
  | FNum ty bits => (1 <=? ty) && (ty <=? 6) && negb (ty =? 4) && (0 <=? bits) && (bits <? M64)
  end.
Definition field_ok (f : rfield) : bool := (len (fst f) <? 65536) && fval_ok (snd f).
Definition opt_ok (o : ropt) : bool :=
  (0 <=? fst o) && (fst o <? M32) && (len (snd o) <? 65536) && forallb (fun x => (0 <=? x) && (x <? 65536)) (snd o).
Definition row_ok (r : rrow) : bool :=
  let '(name, (sk, (tags, (fields, (opts, t))))) := r in
  (len name <? 256) && (len sk <? M32) && (len tags <? M32) && forallb tag_ok tags &&
  (len fields <? M32) && forallb field_ok fields && (len opts <? M32) && forallb opt_ok opts && (0 <=? t) && (t <? M64).

(* ================= record.Marshal / record.Unmarshal (lib/record/record_codec.go, lib/codec) =================
   u32 field count, per field u32 size + (u16-len name, zig-zag i64 type); u32 column count, per column u32 size +
   (zig-zag i64 Len, NilCount, BitMapOffset; u32-len Val; u32-len Bitmap; u32 count + little-endian u32 offsets). *)
Definition get_le (n : nat) : dec_t Z := fun bs =>
  if (length bs <? n)%nat then None else Some (unle (firstn n bs), skipn n bs).

(* a value encoded on its own and wrapped with its u32 size; the wrapped decoder only sees the sized slice *)
Definition put_sized {A} (e : A -> list Z) (a : A) : list Z := put_bytes 4 (e a).
Definition get_sized {A} (d : dec_t A) : dec_t A := fun bs =>
  match get_bytes 4 bs with
  | Some (sub, r) => match d sub with Some (a, _) => Some (a, r) | None => None end
  | None => None
  end.

Definition e_zint (v : Z) : list Z := be 8 (zz v).                 (* codec.AppendInt: zig-zag int64, big endian *)
Definition d_zint : dec_t Z := fun bs => omap unzz (get_be 8 bs).

Definition rec_field := (list Z * Z)%type.                                   (* name, type *)
Definition rec_col := (Z * (Z * (Z * (list Z * (list Z * list Z)))))%type.   (* Len, NilCount, BitMapOffset, Val, Bitmap, Offset *)
Definition e_rec_field : rec_field -> list Z := e_pair (put_bytes 2) e_zint.
Definition d_rec_field : dec_t rec_field := d_pair (get_bytes 2) d_zint.
Definition e_rec_col : rec_col -> list Z :=
  e_pair e_zint (e_pair e_zint (e_pair e_zint (e_pair (put_bytes 4) (e_pair (put_bytes 4) (put_list 4 (le 4)))))).
Definition d_rec_col : dec_t rec_col :=
  d_pair d_zint (d_pair d_zint (d_pair d_zint (d_pair (get_bytes 4) (d_pair (get_bytes 4) (get_list 4 (get_le 4)))))).

Definition rrecord := (list rec_field * list rec_col)%type.
Definition e_record : rrecord -> list Z :=
  e_pair (put_list 4 (put_sized e_rec_field)) (put_list 4 (put_sized e_rec_col)).
Definition d_record : dec_t rrecord :=
  d_pair (get_list 4 (get_sized d_rec_field)) (get_list 4 (get_sized d_rec_col)).

Definition rec_field_ok (f : rec_field) : bool := (len (fst f) <? 65536) && (0 <=? snd f) && (snd f <? M64).
Definition rec_col_ok (c : rec_col) : bool :=
  let '(l, (n, (o, (val, (bm, offs))))) := c in
  (0 <=? l) && (l <? M64) && (0 <=? n) && (n <? M64) && (0 <=? o) && (o <? M64) &&
  (len val <? M32) && (len bm <? M32) && (len offs <? M32) && forallb (fun x => (0 <=? x) && (x <? M32)) offs.
Definition record_ok (r : rrecord) : bool :=
  (len (fst r) <? M32) && forallb rec_field_ok (fst r) && (len (snd r) <? M32) && forallb rec_col_ok (snd r) &&
  forallb (fun c => len (e_rec_col c) <? M32) (snd r).
