(* C07 string block: offsets -> lengths packing (V2) under any compressor mode. *)
From Coq Require Import ZArith List Bool Lia ZifyBool ZifyNat.
From OG Require Import C07.Gen_Consts C07.Model C07.ProofsBase.
Import ListNotations.
Open Scope Z_scope.

Lemma be4_shape : forall v, exists b0 b1 b2 b3, be 4 v = [b0; b1; b2; b3].
Proof. intros. cbn [be]. repeat eexists. Qed.

Lemma be4_all_flat {A} : forall (f : A -> Z) vs, (forall v, In v vs -> 0 <= f v < M32) ->
  be4_all (flat_map (fun v => be 4 (f v)) vs) = Some (map f vs).
Proof.
  induction vs as [|v vs IH]; intros H; [reflexivity|].
  cbn [flat_map map]. destruct (be4_shape (f v)) as (b0&b1&b2&b3&E). rewrite E.
  cbn [app be4_all]. rewrite IH by (intros; apply H; right; assumption). rewrite <- E.
  rewrite unbe_be0. reflexivity. rewrite pow256_4. apply H. left. reflexivity.
Qed.

Lemma flat_be4_length {A} : forall (f : A -> Z) vs, len (flat_map (fun v => be 4 (f v)) vs) = 4 * len vs.
Proof.
  induction vs; [reflexivity|]. cbn [flat_map]. rewrite len_app, IHvs, len_cons. unfold len at 1. rewrite be_length. lia.
Qed.

Lemma flat_be4_ok {A} : forall (f : A -> Z) vs, bytes_ok (flat_map (fun v => be 4 (f v)) vs) = true.
Proof. induction vs; [reflexivity|]. cbn [flat_map]. rewrite bytes_ok_app, be_bytes_ok, IHvs. reflexivity. Qed.

Lemma concat_bytes_ok : forall ss, forallb bytes_ok ss = true -> bytes_ok (concat ss) = true.
Proof.
  induction ss; [reflexivity|]. cbn [forallb concat]. intros H. apply andb_true_iff in H. destruct H.
  rewrite bytes_ok_app, H, IHss; auto.
Qed.

Lemma split_by_concat : forall (init : list (list Z)) lst, split_by (map (@len Z) init) (concat init ++ lst) = init ++ [lst].
Proof.
  induction init as [|s init IH]; intros lst; [reflexivity|].
  cbn [map split_by concat app]. rewrite <- app_assoc.
  rewrite firstn_len_app, skipn_len_app by reflexivity. rewrite IH. reflexivity.
Qed.

Lemma len_concat_ge : forall (ss : list (list Z)) s, In s ss -> len s <= len (concat ss).
Proof.
  induction ss; intros s I; [contradiction|]. cbn [concat]. rewrite len_app.
  pose proof (len_nonneg a). pose proof (len_nonneg (concat ss)).
  destruct I as [I|I]; [subst; lia|]. specialize (IHss s I). lia.
Qed.

Lemma be_len4 : forall v, len (be 4 v) = 4.
Proof. intros. unfold len. rewrite be_length. reflexivity. Qed.

Lemma pack_strings_len : forall ss : list (list Z), len (pack_strings ss) = 12 + len (concat ss) + 4 * len ss.
Proof. intros. unfold pack_strings. rewrite !len_app, !be_len4, flat_be4_length. lia. Qed.

Lemma pack_strings_ok : forall ss, forallb bytes_ok ss = true -> bytes_ok (pack_strings ss) = true.
Proof.
  intros. unfold pack_strings. rewrite !bytes_ok_app, !be_bytes_ok, flat_be4_ok, concat_bytes_ok by assumption. reflexivity.
Qed.

Theorem unpack_pack_strings : forall ss, ss <> [] -> len (pack_strings ss) < M32 - 3 ->
  unpack_strings (pack_strings ss) = Some ss.
Proof.
  intros ss Hne Hl. rewrite pack_strings_len in Hl.
  pose proof (len_nonneg (concat ss)) as Hd. pose proof (len_nonneg ss) as Hs.
  assert (Hs1 : 1 <= len ss) by (destruct ss; [congruence|rewrite len_cons; pose proof (len_nonneg ss); lia]).
  destruct (exists_last Hne) as (init & lst & ES).
  assert (ED : concat ss = concat init ++ lst) by (rewrite ES, concat_app; simpl; rewrite app_nil_r; reflexivity).
  assert (LI : len ss = len init + 1) by (rewrite ES, len_app; reflexivity).
  unfold pack_strings, unpack_strings.
  rewrite get_be_app by (rewrite pow256_4; unfold str_version_v2, g_str_v2, M32; lia).
  rewrite Z.eqb_refl.
  rewrite get_be_app by (rewrite pow256_4; lia).
  rewrite !len_app, be_len4.
  set (LB := flat_map (fun s => be 4 (len s)) ss).
  assert (LLB : len LB = 4 * len ss) by apply flat_be4_length.
  destruct (Z.ltb_spec (len (concat ss) + (4 + len LB)) (len (concat ss) + 4)); [lia|].
  rewrite firstn_len_app, skipn_len_app by reflexivity.
  rewrite get_be_app by (rewrite pow256_4; lia).
  replace ((len ss <? 1) || (len LB <? 4 * len ss)) with false by lia.
  assert (ELB : LB = flat_map (fun s => be 4 (len s)) init ++ be 4 (len lst)).
  { unfold LB. rewrite ES. rewrite flat_map_app. cbn [flat_map]. rewrite app_nil_r. reflexivity. }
  rewrite ELB. rewrite firstn_len_app by (rewrite flat_be4_length; lia).
  rewrite be4_all_flat.
  - rewrite ED, split_by_concat. rewrite <- ES. reflexivity.
  - intros s I. pose proof (len_nonneg s). split; [lia|].
    assert (Iss : In s ss) by (rewrite ES; apply in_or_app; left; exact I).
    pose proof (len_concat_ge ss s Iss). lia.
Qed.

(* ---- version 1 (decode only) ---- *)
Lemma diffs_starts : forall init lst o, diffs_from o (starts (o + len (hd lst init)) (tl (init ++ [lst]))) = map (@len Z) init.
Proof.
  induction init as [|s init IH]; intros lst o; [reflexivity|].
  cbn [app tl hd map]. destruct init as [|s2 init'].
  - cbn. f_equal. lia.
  - cbn [app starts diffs_from]. f_equal; [lia|].
    specialize (IH lst (o + len s)). cbn [app tl hd] in IH. exact IH.
Qed.

Lemma starts_range : forall ss o v, 0 <= o -> In v (starts o ss) -> 0 <= v <= o + len (concat ss).
Proof.
  induction ss as [|s r IH]; intros o v Ho H; [destruct H|].
  cbn [starts concat] in *. rewrite len_app. pose proof (len_nonneg s). pose proof (len_nonneg (concat r)).
  destruct H as [<-|H]; [lia|]. specialize (IH (o + len s) v). lia.
Qed.

Lemma starts_length : forall ss o, length (starts o ss) = length ss.
Proof. induction ss; intros; [reflexivity|]. cbn. rewrite IHss. reflexivity. Qed.

Theorem unpack_pack_strings_v1 : forall ss, 8 + len (concat ss) + 4 * len ss < M32 ->
  unpack_strings_v1 (pack_strings_v1 ss) = Some ss.
Proof.
  intros ss Hl. pose proof (len_nonneg (concat ss)) as Hd. pose proof (len_nonneg ss) as Hs.
  unfold pack_strings_v1, unpack_strings_v1.
  rewrite get_be_app by (rewrite pow256_4; lia).
  rewrite !len_app, be_len4.
  set (OB := flat_map (fun o => be 4 o) (starts 0 ss)).
  assert (LOB : len OB = 4 * len ss).
  { unfold OB. rewrite (flat_be4_length (fun o => o)). unfold len. rewrite starts_length. reflexivity. }
  destruct (Z.ltb_spec (len (concat ss) + (4 + len OB)) (len (concat ss) + 4)); [lia|].
  rewrite firstn_len_app, skipn_len_app by reflexivity.
  rewrite get_be_app by (rewrite pow256_4; lia).
  destruct (Z.ltb_spec (len OB) (4 * len ss)); [lia|].
  replace (4 * len ss / 4) with (len ss) by (rewrite Z.mul_comm, Z.div_mul; lia).
  replace (firstn (Z.to_nat (4 * len ss)) OB) with OB by (rewrite <- LOB; unfold len; rewrite Nat2Z.id; symmetry; apply firstn_all).
  unfold OB. rewrite (be4_all_flat (fun o => o)).
  - rewrite map_id. destruct ss as [|s r]; [reflexivity|].
    destruct (@exists_last _ (s :: r)) as (init & lst & ES); [discriminate|].
    cbn [starts]. cbn [Z.to_nat skipn].
    assert (D : diffs_from 0 (starts (0 + len s) r) = map (@len Z) init).
    { pose proof (diffs_starts init lst 0) as D. rewrite <- ES in D. cbn [tl] in D.
      replace (hd lst init) with s in D; [exact D|]. destruct init; cbn in ES; inversion ES; reflexivity. }
    rewrite D. rewrite ES, concat_app. cbn [concat]. rewrite app_nil_r. f_equal. apply split_by_concat.
  - intros v I. pose proof (starts_range ss 0 v ltac:(lia) I). lia.
Qed.

Lemma pack_strings_v1_len : forall ss : list (list Z), len (pack_strings_v1 ss) = 8 + len (concat ss) + 4 * len ss.
Proof.
  intros. unfold pack_strings_v1. rewrite !len_app, !be_len4, (flat_be4_length (fun o => o)).
  replace (len (starts 0 ss)) with (len ss) by (unfold len; rewrite starts_length; reflexivity). lia.
Qed.

(* the version dispatch takes a version-1 packing (its first word is a data length below the version words) to the
   version-1 reader *)
Theorem unpack_strings_takes_v1 : forall ss, 8 + len (concat ss) + 4 * len ss < M32 - 3 ->
  unpack_strings (pack_strings_v1 ss) = Some ss.
Proof.
  intros ss H. pose proof (len_nonneg (concat ss)) as Hd. pose proof (len_nonneg ss) as Hs.
  unfold unpack_strings. unfold pack_strings_v1 at 1.
  rewrite get_be_app by (rewrite pow256_4; lia).
  assert (V2 : str_version_v2 = M32 - 2) by reflexivity. assert (VE : g_str_end = M32 - 3) by reflexivity.
  destruct (Z.eqb_spec (len (concat ss)) str_version_v2); [lia|].
  destruct (Z.ltb_spec (len (concat ss)) g_str_end); [|lia].
  apply unpack_pack_strings_v1. lia.
Qed.

Section StringProof.
  Variable cc : smode -> list Z -> list Z.
  Variable cd : smode -> list Z -> option (list Z).
  Hypothesis comp_roundtrip : forall m x, bytes_ok x = true -> cd m (cc m x) = Some x.

  Theorem string_block_roundtrip : forall m ss, ss <> [] -> string_applicable cc m ss = true ->
    string_dec cd (string_enc_with cc m ss) = Some ss.
  Proof.
    intros m ss Hne H. unfold string_applicable in H.
    apply andb_true_iff in H. destruct H as [H Hc]. apply andb_true_iff in H. destruct H as [Hok Hl].
    assert (UP : unpack_strings (pack_strings ss) = Some ss) by (apply unpack_pack_strings; [assumption|lia]).
    assert (BO : bytes_ok (pack_strings ss) = true) by (apply pack_strings_ok; assumption).
    set (src := pack_strings ss) in *. pose proof (len_nonneg src) as Hsrc.
    assert (Enc : string_enc_with cc m ss =
      match m with
      | SRaw => [0] ++ be 4 (len src) ++ be 4 (len src) ++ src
      | _ => [16 * smode_tag m] ++ be 4 (len src) ++ be 4 (len (cc m src)) ++ cc m src
      end) by (destruct ss; [congruence|reflexivity]).
    rewrite Enc. clear Enc.
    assert (G : forall tag c, len c < M32 ->
      string_dec cd ([tag] ++ be 4 (len src) ++ be 4 (len c) ++ c) =
      if negb ((tag / 16 =? g_str_raw) || (tag / 16 =? g_str_snappy) || (tag / 16 =? g_str_zstd) || (tag / 16 =? g_str_lz4)) then None else
      if tag / 16 =? g_str_raw then unpack_strings c
      else match cd (if tag / 16 =? g_str_snappy then SSnappy else if tag / 16 =? g_str_zstd then SZstd else SLz4) c with
           | Some raw => if len raw =? len src then unpack_strings raw else None
           | None => None
           end).
    { intros tag c Hc'. cbn [app]. unfold string_dec.
      destruct (Nat.ltb_spec (length (tag :: be 4 (len src) ++ be 4 (len c) ++ c)) 9) as [L|L].
      { cbn [length] in L. rewrite !app_length, !be_length in L. lia. }
      rewrite get_be_app by (rewrite pow256_4; lia).
      rewrite <- (app_nil_r c) at 2.
      rewrite get_be_app by (rewrite pow256_4; pose proof (len_nonneg c); lia).
      rewrite app_nil_r, Z.ltb_irrefl.
      replace (firstn (Z.to_nat (len c)) c) with c by (unfold len; rewrite Nat2Z.id, firstn_all; reflexivity).
      reflexivity. }
    destruct m; rewrite G by lia; unfold smode_tag; tagsimp; try (rewrite comp_roundtrip by assumption; rewrite Z.eqb_refl); exact UP.
  Qed.

End StringProof.

  (* blocks written with the deprecated version-1 packing still decode to exactly their strings (any count, incl. none) *)
Theorem string_block_v1_roundtrip : forall (cd : smode -> list Z -> option (list Z)) ss, 8 + len (concat ss) + 4 * len ss < M32 - 3 ->
    string_dec cd (string_block_v1 ss) = Some ss.
  Proof.
    intros cd ss H. pose proof (len_nonneg (concat ss)) as Hd. pose proof (len_nonneg ss) as Hs.
    assert (UP : unpack_strings (pack_strings_v1 ss) = Some ss) by (apply unpack_strings_takes_v1; exact H).
    unfold string_block_v1. set (src := pack_strings_v1 ss) in *.
    assert (LS : len src = 8 + len (concat ss) + 4 * len ss) by apply pack_strings_v1_len.
    cbn [app]. unfold string_dec.
    destruct (Nat.ltb_spec (length (16 * g_str_raw :: be 4 (len src) ++ be 4 (len src) ++ src)) 9) as [L|L].
    { cbn [length] in L. rewrite !app_length, !be_length in L. lia. }
    rewrite get_be_app by (rewrite pow256_4; lia).
    rewrite <- (app_nil_r src) at 2.
    rewrite get_be_app by (rewrite pow256_4; lia).
    rewrite app_nil_r, Z.ltb_irrefl.
    replace (firstn (Z.to_nat (len src)) src) with src by (unfold len; rewrite Nat2Z.id, firstn_all; reflexivity).
    change (16 * g_str_raw / 16 =? g_str_raw) with true. cbn [orb negb]. exact UP.
  Qed.
