(* C07: the whole-file reader finds every layer of a file laid out by the writer - footer, trailer (incl. the dictionary of
   chunk-meta-compress-mode self), meta-index entries, chunk-meta blocks under every chunk-meta-compress-mode, chunk metas. *)
From Coq Require Import ZArith List Bool Lia ZifyBool ZifyNat.
From OG Require Import C07.Gen_Consts C07.Model C07.ModelRows C07.ModelFile C07.ModelPreAgg C07.ModelCMSelf C07.ModelWhole
  C07.ProofsBase C07.ProofsRows C07.ProofsFile C07.ProofsPreAgg C07.ProofsCMSelf C07.ProofsString.
Import ListNotations.
Open Scope Z_scope.

(* ---- meta-index entries ---- *)
Lemma good_mindex : good e_mindex d_mindex (fun m => mindex_ok m = true).
Proof.
  eapply good_weaken.
  - apply (good_pair _ _ _ _ _ _ (good_be 8) (good_pair _ _ _ _ _ _ good_zint (good_pair _ _ _ _ _ _ good_zint
            (good_pair _ _ _ _ _ _ good_zint (good_pair _ _ _ _ _ _ (good_be 4) (good_be 4)))))).
  - intros [id [t0 [t1 [off [cnt size]]]]] H. unfold mindex_ok, w64 in H. cbn [fst snd].
    rewrite pow256_8, pow256_4. lia.
Qed.

Theorem mindex_list_roundtrip : forall mis rest, Forall (fun m => mindex_ok m = true) mis ->
  get_n d_mindex (length mis) (flat_map e_mindex mis ++ rest) = Some (mis, rest).
Proof. intros. apply (get_n_rt e_mindex d_mindex _ good_mindex). assumption. Qed.

Lemma len_mindex : forall m, len (e_mindex m) = 40.
Proof.
  intros [id [t0 [t1 [off [cnt size]]]]]. unfold e_mindex, e_pair. cbn [fst snd].
  rewrite !len_app, !len_zint. unfold len. rewrite !be_length. reflexivity.
Qed.

(* ---- trailer ---- *)
Lemma d_strings_rt : forall l fuel, Forall (fun s => len s < 65536) l -> (length l <= fuel)%nat ->
  d_strings fuel (e_strings l) = Some l.
Proof.
  induction l as [|s r IH]; intros fuel F Hf.
  - destruct fuel; reflexivity.
  - inversion F; subst. destruct fuel as [|k]; [cbn in Hf; lia|].
    unfold e_strings. cbn [flat_map]. fold (e_strings r).
    assert (NE : put_bytes 2 s ++ e_strings r <> []).
    { unfold put_bytes. cbn [be app]. discriminate. }
    cbn [d_strings]. destruct (put_bytes 2 s ++ e_strings r) eqn:E; [contradiction|]. rewrite <- E.
    destruct (good_bytes 2) as [R _]. rewrite R by (rewrite pow256_2; assumption).
    rewrite IH by (try assumption; cbn in Hf; lia). reflexivity.
Qed.

Lemma len_e_strings_ge : forall l, Z.of_nat (length l) <= len (e_strings l).
Proof.
  induction l as [|s r IH]; [cbn; lia|]. unfold e_strings. cbn [flat_map]. fold (e_strings r).
  rewrite len_app. unfold put_bytes. rewrite len_app. pose proof (len_nonneg s). unfold len at 1. rewrite be_length.
  cbn [length]. lia.
Qed.

Lemma unle_le8 : forall v, 0 <= v < M64 -> unle (le 8 v) = v.
Proof. intros. apply unle_le. rewrite pow256_8. assumption. Qed.

Lemma le8_length : forall v, length (le 8 v) = 8%nat.
Proof. intros. apply le_length. Qed.

Theorem extra_roundtrip : forall x rest, extra_ok x = true -> d_extra (e_extra x ++ rest) = Some (x, rest).
Proof.
  intros [ts [cm [dict name]]] rest H. unfold extra_ok in H.
  apply andb_true_iff in H. destruct H as [H Hname]. apply andb_true_iff in H. destruct H as [H Hsize].
  apply andb_true_iff in H. destruct H as [H Hd]. apply andb_true_iff in H. destruct H as [H Hdl].
  apply andb_true_iff in H. destruct H as [Hts Hcm]. unfold byte_ok in *.
  unfold e_extra, d_extra. set (body := extra_body (ts, (cm, (dict, name)))) in *.
  pose proof (len_nonneg body) as LB.
  assert (EB : body = be 2 (len dict) ++ e_strings dict) by reflexivity.
  assert (LB2 : 2 <= len body) by (rewrite EB, len_app; unfold len at 1; rewrite be_length; pose proof (len_nonneg (e_strings dict)); lia).
  set (flags := ts + 256 * cm + M32 * (8 + len body)).
  assert (HF : 0 <= flags < M64) by (unfold flags, M32, M64 in *; lia).
  rewrite <- !app_assoc.
  rewrite get_be_app by (rewrite pow256_2; lia).
  set (r := le 8 flags ++ body ++ put_bytes 2 name ++ rest).
  assert (LR : len r = 8 + len body + len (put_bytes 2 name ++ rest)).
  { unfold r. rewrite !len_app. unfold len at 1. rewrite le8_length. lia. }
  pose proof (len_nonneg (put_bytes 2 name ++ rest)) as LT.
  destruct (Z.ltb_spec (len r) 8); [lia|].
  change (8 =? 0) with false. change (8 =? 1) with false. change (8 =? 2) with false. change (8 <? 8) with false. cbv iota.
  assert (F8 : firstn 8 r = le 8 flags).
  { unfold r. rewrite firstn_app. pose proof (le_length 8 flags) as L8. rewrite L8. rewrite firstn_all2 by lia. cbn [Nat.sub firstn]. apply app_nil_r. }
  rewrite F8, unle_le8 by exact HF.
  assert (Ets : flags mod 256 = ts).
  { unfold flags, M32. replace (ts + 256 * cm + 4294967296 * (8 + len body)) with (ts + (cm + 16777216 * (8 + len body)) * 256) by lia.
    rewrite Z.mod_add by lia. apply Z.mod_small. lia. }
  assert (Ecm : (flags / 256) mod 256 = cm).
  { unfold flags, M32. replace (ts + 256 * cm + 4294967296 * (8 + len body)) with (ts + (cm + 16777216 * (8 + len body)) * 256) by lia.
    rewrite Z.div_add by lia. rewrite (Z.div_small ts) by lia. rewrite Z.add_0_l.
    replace (cm + 16777216 * (8 + len body)) with (cm + (65536 * (8 + len body)) * 256) by lia.
    rewrite Z.mod_add by lia. apply Z.mod_small. lia. }
  assert (Esz : flags / M32 = 8 + len body).
  { unfold flags. replace (ts + 256 * cm + M32 * (8 + len body)) with ((ts + 256 * cm) + (8 + len body) * M32) by lia.
    rewrite Z.div_add by (unfold M32; lia). rewrite Z.div_small by (unfold M32; lia). lia. }
  rewrite Ets, Ecm, Esz.
  destruct (Z.ltb_spec 0 (8 + len body)); [|lia].
  destruct (Z.ltb_spec (len r) (8 + len body)); [lia|].
  destruct (Z.ltb_spec (8 + len body) 10); [lia|].
  (* the dictionary slice *)
  assert (S10 : skipn 10 r = e_strings dict ++ put_bytes 2 name ++ rest).
  { unfold r. rewrite EB. rewrite <- !app_assoc.
    replace 10%nat with (length (le 8 flags ++ be 2 (len dict))) by (rewrite app_length, le8_length, be_length; reflexivity).
    rewrite !app_assoc. rewrite <- (app_assoc (le 8 flags ++ be 2 (len dict))). rewrite <- (app_assoc (le 8 flags ++ be 2 (len dict))).
    rewrite skipn_app, Nat.sub_diag, skipn_all. reflexivity. }
  rewrite S10.
  assert (LD : 8 + len body - 10 = len (e_strings dict)).
  { rewrite EB, len_app. unfold len at 1. rewrite be_length. lia. }
  rewrite LD, firstn_len_app by reflexivity.
  apply forallb_Forall in Hd.
  rewrite d_strings_rt.
  - cbn [omap].
    assert (SK : skipn (Z.to_nat (8 + len body)) r = put_bytes 2 name ++ rest).
    { unfold r. rewrite app_assoc. apply skipn_len_app. rewrite len_app. replace (len (le 8 flags)) with 8 by (unfold len; rewrite le8_length; reflexivity). lia. }
    rewrite SK. destruct (good_bytes 2) as [R _]. rewrite R by (rewrite pow256_2; lia). reflexivity.
  - eapply Forall_impl; [|exact Hd]. cbv beta. intros. lia.
  - pose proof (len_e_strings_ge dict). assert (Z.of_nat (length r) = len r) by reflexivity.
    assert (len (e_strings dict) <= len r) by lia. lia.
Qed.

Theorem trailer_roundtrip : forall t rest, trailer_ok t = true -> d_trailer (e_trailer t ++ rest) = Some (t, rest).
Proof.
  intros [vs x] rest H. unfold trailer_ok in H. cbn [fst snd] in H.
  apply andb_true_iff in H. destruct H as [H Hx]. apply andb_true_iff in H. destruct H as [Hl Hw].
  unfold e_trailer, d_trailer. cbn [fst snd]. rewrite <- app_assoc.
  rewrite trailer_fixed_roundtrip.
  - rewrite extra_roundtrip by exact Hx. reflexivity.
  - apply Nat.eqb_eq. exact Hl.
  - apply Forall_forall. intros v I. apply words_ok_In with (vs := vs); assumption.
Qed.

(* ---- chunk-meta blocks ---- *)
Lemma split_offs_starts : forall items o, items <> [] -> split_offs (starts_of o items) (concat items) = items.
Proof.
  induction items as [|x r IH]; intros o Hne; [contradiction|].
  destruct r as [|y r'].
  - cbn. rewrite app_nil_r. reflexivity.
  - cbn [starts_of concat split_offs]. replace (o + len x - o) with (len x) by lia.
    rewrite firstn_len_app, skipn_len_app by reflexivity. f_equal.
    specialize (IH (o + len x)). cbn [starts_of concat] in IH. apply IH. discriminate.
Qed.

Lemma starts_of_length : forall items o, length (starts_of o items) = length items.
Proof. induction items; intros; [reflexivity|]. cbn. rewrite IHitems. reflexivity. Qed.

Lemma starts_of_range : forall items o v, 0 <= o -> In v (starts_of o items) -> 0 <= v <= o + len (concat items).
Proof.
  induction items as [|x r IH]; intros o v Ho H; [destruct H|].
  cbn [starts_of concat] in *. rewrite len_app. pose proof (len_nonneg x). pose proof (len_nonneg (concat r)).
  destruct H as [<-|H]; [lia|]. specialize (IH (o + len x) v). lia.
Qed.

Lemma offs_rt : forall (offs : list Z) rest, Forall (fun o => 0 <= o < M32) offs ->
  get_n (get_be 4) (length offs) (flat_map (be 4) offs ++ rest) = Some (offs, rest).
Proof.
  intros. apply (get_n_rt (be 4) (get_be 4) _ (good_be 4)). eapply Forall_impl; [|eassumption]. cbv beta. intros. rewrite pow256_4. assumption.
Qed.

Theorem block_items_roundtrip : forall items, items <> [] -> 0 < len (concat items) < M32 ->
  block_items (len items) (block_plain items) = Some items.
Proof.
  intros items Hne Hl. unfold block_items, block_plain.
  set (offb := flat_map (be 4) (starts_of 0 items)).
  assert (LO : len offb = 4 * len items).
  { unfold offb. rewrite (flat_be4_length (fun o => o)). unfold len. rewrite starts_of_length. reflexivity. }
  rewrite len_app, LO.
  destruct (Z.leb_spec (len (concat items) + 4 * len items) (4 * len items)); [lia|].
  replace (len (concat items) + 4 * len items - 4 * len items) with (len (concat items)) by lia.
  rewrite skipn_len_app, firstn_len_app by reflexivity.
  replace (Z.to_nat (len items)) with (length (starts_of 0 items)) by (rewrite starts_of_length; unfold len; rewrite Nat2Z.id; reflexivity).
  unfold offb. rewrite <- (app_nil_r (flat_map (be 4) (starts_of 0 items))). rewrite offs_rt.
  - rewrite split_offs_starts by exact Hne. reflexivity.
  - apply Forall_forall. intros v I. pose proof (starts_of_range items 0 v ltac:(lia) I). lia.
Qed.

Section BlockProof.
  Variable bcomp : Z -> list Z -> list Z.
  Variable bdec : Z -> list Z -> option (list Z).
  Hypothesis comp_rt : forall mode x, bdec mode (bcomp mode x) = Some x.

  Definition mode_ok (mode : Z) : bool :=
    (mode =? g_cm_mode_none) || (mode =? g_cm_mode_snappy) || (mode =? g_cm_mode_lz4) || (mode =? g_cm_mode_self).

  Theorem block_store_load : forall mode raw, mode_ok mode = true -> len raw < M32 ->
    block_load bdec mode (block_store bcomp mode raw) = Some raw.
  Proof.
    intros mode raw M L. unfold block_load, block_store. pose proof (len_nonneg raw).
    destruct (Z.eqb_spec mode g_cm_mode_snappy); [apply comp_rt|].
    destruct (Z.eqb_spec mode g_cm_mode_lz4).
    - rewrite get_be_app by (rewrite pow256_4; lia). rewrite comp_rt, Z.eqb_refl. reflexivity.
    - unfold mode_ok in M. destruct (Z.eqb_spec mode g_cm_mode_none); [reflexivity|].
      destruct (Z.eqb_spec mode g_cm_mode_self); [reflexivity|]. lia.
  Qed.

  (* ---- the whole file ---- *)
  (* how a chunk meta is written under a mode (scale index and dictionary indices = the writer's choices) *)
  Definition cm_enc (mode : Z) (ch : Z * list Z) (cm : chunk_meta) : list Z :=
    if mode =? g_cm_mode_self then e_cm_self (fst ch) (snd ch) cm else e_chunk_meta cm.
  Definition cm_enc_ok (mode : Z) (dict : list (list Z)) (ch : Z * list Z) (cm : chunk_meta) : bool :=
    if mode =? g_cm_mode_self then cm_self_ok dict (fst ch) (snd ch) cm && (0 <=? fst ch) && (fst ch <? n_scales)
    else chunk_meta_ok cm.

  Lemma cm_any_rt : forall mode dict ch cm, cm_enc_ok mode dict ch cm = true ->
    d_cm_any mode dict (cm_enc mode ch cm) = Some cm.
  Proof.
    intros mode dict [k idxs] cm H. unfold d_cm_any, cm_enc, cm_enc_ok in *. cbn [fst snd] in *.
    destruct (mode =? g_cm_mode_self).
    - apply andb_true_iff in H. destruct H as [H K2]. apply andb_true_iff in H. destruct H as [H K1].
      rewrite <- (app_nil_r (e_cm_self k idxs cm)). rewrite cm_self_roundtrip; [reflexivity|exact H|rewrite K1, K2; reflexivity].
    - rewrite <- (app_nil_r (e_chunk_meta cm)). rewrite chunk_meta_roundtrip by exact H. reflexivity.
  Qed.

  (* one block of the index area: its chunk metas with the writer's choices, the meta-index entry that locates it *)
  Definition blk := (list ((Z * list Z) * chunk_meta) * mindex)%type.
  Definition cs_items (mode : Z) (cs : list ((Z * list Z) * chunk_meta)) : list (list Z) := map (fun p => cm_enc mode (fst p) (snd p)) cs.
  Definition cs_bytes (mode : Z) (cs : list ((Z * list Z) * chunk_meta)) : list Z := block_store bcomp mode (block_plain (cs_items mode cs)).
  Definition blk_items (mode : Z) (b : blk) : list (list Z) := cs_items mode (fst b).
  Definition blk_bytes (mode : Z) (b : blk) : list Z := cs_bytes mode (fst b).
  Definition blk_cms (b : blk) : list chunk_meta := map snd (fst b).

  (* the file: header, data, blocks, meta-index entries, bloom filter, id-time section, trailer, footer *)
  Definition file_body (mode : Z) (H D : list Z) (blks : list blk) (B I : list Z) : list Z :=
    H ++ D ++ concat (map (blk_bytes mode) blks) ++ flat_map e_mindex (map snd blks) ++ B ++ I.
  Definition file_bytes (mode : Z) (H D : list Z) (blks : list blk) (B I : list Z) (t : trailer) : list Z :=
    let body := file_body mode H D blks B I in body ++ e_trailer t ++ e_zint (len body).

  (* block i sits where its meta-index entry says, and the entry is well formed *)
  Fixpoint blks_placed (mode : Z) (dict : list (list Z)) (pos : Z) (blks : list blk) : Prop :=
    match blks with
    | [] => True
    | b :: r =>
        let '(_, (_, (_, (off, (cnt, size))))) := snd b in
        mindex_ok (snd b) = true /\ off = pos /\ size = len (blk_bytes mode b) /\ cnt = len (fst b) /\
        fst b <> [] /\ 0 < len (concat (blk_items mode b)) /\ len (block_plain (blk_items mode b)) < M32 /\
        Forall (fun p => cm_enc_ok mode dict (fst p) (snd p) = true) (fst b) /\
        blks_placed mode dict (pos + len (blk_bytes mode b)) r
    end.

  Lemma all_some_map : forall {A B} (f : A -> option B) (g : A -> B) l, Forall (fun a => f a = Some (g a)) l ->
    all_some (map f l) = Some (map g l).
  Proof.
    induction l as [|a r IH]; intros F; [reflexivity|]. inversion F; subst. cbn [map all_some]. rewrite H1, IH by assumption. reflexivity.
  Qed.

  Lemma read_blocks : forall mode t F blks pre post,
    mode_ok mode = true -> t_cmode t = mode ->
    F = pre ++ concat (map (blk_bytes mode) blks) ++ post ->
    t_data_off t + t_data_size t <= len pre ->
    len pre + len (concat (map (blk_bytes mode) blks)) <= t_data_off t + t_data_size t + t_index_size t ->
    blks_placed mode (t_dict t) (len pre) blks ->
    all_some (map (read_block bdec t F) (map snd blks)) = Some (map blk_cms blks).
  Proof.
    intros mode t F blks. revert F. induction blks as [|b r IH]; intros F pre post M TM EF Lo Hi P; [reflexivity|].
    cbn [map all_some]. cbn [blks_placed] in P.
    destruct b as [cs [id [t0 [t1 [off [cnt size]]]]]]. cbn [snd fst] in P.
    unfold blk_bytes, blk_items in P. cbn [fst] in P.
    destruct P as (MO & Eoff & Esize & Ecnt & Hne & Lpos & Lraw & Fcm & Prest).
    cbn [map concat] in EF, Hi. unfold blk_bytes at 1 in EF. unfold blk_bytes at 1 in Hi. cbn [fst] in EF, Hi. rewrite len_app in Hi.
    pose proof (len_nonneg (cs_bytes mode cs)) as Lb. pose proof (len_nonneg (concat (map (blk_bytes mode) r))) as Lr.
    assert (RB : read_block bdec t F (id, (t0, (t1, (off, (cnt, size))))) = Some (map snd cs)).
    { unfold read_block. subst off size cnt.
      destruct (Z.ltb_spec (len pre) (t_data_off t + t_data_size t)); [lia|].
      destruct (Z.ltb_spec (t_data_off t + t_data_size t + t_index_size t) (len pre + len (cs_bytes mode cs))); [lia|]. cbn [orb].
      rewrite EF. rewrite <- app_assoc. rewrite slice_app. rewrite TM.
      unfold cs_bytes. rewrite block_store_load by assumption.
      replace (len cs) with (len (cs_items mode cs)) by (unfold cs_items, len; rewrite map_length; reflexivity).
      rewrite block_items_roundtrip.
      - unfold cs_items. rewrite map_map. apply all_some_map.
        eapply Forall_impl; [|exact Fcm]. cbv beta. intros p Hp. apply cm_any_rt. exact Hp.
      - unfold cs_items. destruct cs; [contradiction|discriminate].
      - split; [exact Lpos|]. unfold block_plain in Lraw. rewrite len_app in Lraw.
        pose proof (len_nonneg (flat_map (be 4) (starts_of 0 (cs_items mode cs)))). lia. }
    cbn [snd]. rewrite RB. unfold blk_cms at 1. cbn [fst].
    rewrite (IH F (pre ++ cs_bytes mode cs) post); [reflexivity|assumption|assumption| | | |].
    - rewrite EF, <- !app_assoc. reflexivity.
    - rewrite len_app. lia.
    - rewrite len_app. lia.
    - rewrite len_app. exact Prest.
  Qed.

  (* THE WHOLE-FILE THEOREM: for every chunk-meta-compress-mode, a file laid out as the writer lays it out - any header,
     data area, bloom filter and id-time section; blocks of chunk metas stored under the mode with their meta-index entries
     pointing at them; a trailer whose sizes describe the areas; the footer - is read back layer by layer: the reader
     returns exactly the trailer (with the dictionary), the meta-index entries and every chunk meta of every block. *)
  Theorem whole_file_roundtrip : forall mode H D blks B I t,
    mode_ok mode = true -> trailer_ok t = true -> t_cmode t = mode ->
    t_data_off t = len H -> t_data_size t = len D ->
    t_index_size t = len (concat (map (blk_bytes mode) blks)) ->
    t_mindex_size t = 40 * len blks -> t_mindex_num t = len blks ->
    blks_placed mode (t_dict t) (len H + len D) blks ->
    len (file_body mode H D blks B I) < M63 ->
    firstn (length g_table_magic) H = g_table_magic ->
    read_file bdec (file_bytes mode H D blks B I t) = Some (t, map snd blks, map blk_cms blks).
  Proof.
    intros mode H D blks B I t M TO TM EH ED EI EMS EMN P LB MG.
    unfold file_bytes. set (body := file_body mode H D blks B I) in *.
    set (T := e_trailer t). set (Ft := e_zint (len body)).
    pose proof (len_nonneg body) as L0. pose proof (len_nonneg T) as L1.
    assert (LF : len Ft = 8) by apply len_zint.
    unfold read_file. rewrite !len_app, LF.
    destruct (Z.ltb_spec (len body + (len T + 8)) 8); [lia|].
    assert (MF : firstn (length g_table_magic) (body ++ T ++ Ft) = g_table_magic).
    { unfold body, file_body. rewrite <- !app_assoc. rewrite firstn_app.
      assert (length g_table_magic <= length H)%nat.
      { rewrite <- MG at 1. rewrite firstn_length. lia. }
      replace (length g_table_magic - length H)%nat with 0%nat by lia. cbn [firstn]. rewrite app_nil_r. exact MG. }
    rewrite MF, list_eqb_refl. cbn [negb].
    replace (len body + (len T + 8) - 8) with (len (body ++ T)) by (rewrite len_app; lia).
    rewrite app_assoc. rewrite skipn_len_app by reflexivity.
    unfold Ft. rewrite <- (app_nil_r (e_zint (len body))). rewrite rt_zint by (unfold W, M63, M64 in *; lia).
    assert (SG : sgn64 (len body) = len body) by (unfold sgn64; destruct (Z.ltb_spec (len body) M63); lia).
    rewrite SG. rewrite len_app.
    destruct (Z.ltb_spec (len body) 0); [lia|]. destruct (Z.ltb_spec (len body + len T) (len body)); [lia|]. cbn [orb].
    replace (len body + len T - len body) with (len T) by lia.
    rewrite <- app_assoc. rewrite slice_app.
    unfold T. rewrite <- (app_nil_r (e_trailer t)). rewrite trailer_roundtrip by exact TO.
    (* meta index *)
    set (IX := concat (map (blk_bytes mode) blks)) in *.
    set (MI := flat_map e_mindex (map snd blks)).
    assert (LMI : len MI = 40 * len blks).
    { unfold MI. clear. induction blks as [|b r IH]; [reflexivity|]. cbn [map flat_map]. rewrite len_app, len_mindex, IH, len_cons. lia. }
    assert (EB : body = (H ++ D ++ IX) ++ MI ++ (B ++ I)).
    { unfold body, file_body. fold IX. fold MI. rewrite <- !app_assoc. reflexivity. }
    rewrite EH, ED, EI, EMS, EMN. rewrite <- LMI.
    replace (len H + len D + len IX) with (len (H ++ D ++ IX)) by (rewrite !len_app; lia).
    rewrite app_nil_r.
    assert (EF : body ++ e_trailer t ++ e_zint (len body) = (H ++ D ++ IX) ++ MI ++ ((B ++ I) ++ e_trailer t ++ e_zint (len body))).
    { rewrite EB. rewrite <- !app_assoc. reflexivity. }
    rewrite EF at 1. rewrite slice_app.
    replace (Z.to_nat (len blks)) with (length (map snd blks)) by (rewrite map_length; unfold len; rewrite Nat2Z.id; reflexivity).
    unfold MI. rewrite <- (app_nil_r (flat_map e_mindex (map snd blks))). rewrite mindex_list_roundtrip.
    - rewrite (read_blocks mode t _ blks (H ++ D) (MI ++ (B ++ I) ++ e_trailer t ++ e_zint (len body))); try assumption.
      + reflexivity.
      + rewrite EB. fold IX. rewrite <- !app_assoc. reflexivity.
      + rewrite len_app. lia.
      + rewrite len_app. fold IX. lia.
      + rewrite len_app. exact P.
    - clear -P. revert P. generalize (len H + len D). induction blks as [|b r IH]; intros pos P; [constructor|].
      cbn [blks_placed] in P. destruct b as [cs [id [t0 [t1 [off [cnt size]]]]]]. cbn [snd fst] in P.
      destruct P as (MO & _ & _ & _ & _ & _ & _ & _ & Prest). cbn [map]. constructor; [exact MO|]. eapply IH. exact Prest.
  Qed.
End BlockProof.
