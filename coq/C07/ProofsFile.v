(* C07 data file framing: chunk meta and trailer round trips, segment layout, file round trip composed from the
   segment round trip. *)
From Coq Require Import ZArith List Bool Lia ZifyBool ZifyNat Sorted.
From OG Require Import C07.Model C07.ModelRows C07.ModelFile C07.ProofsBase C07.ProofsRows C07.ProofsSeg.
Import ListNotations.
Open Scope Z_scope.

Lemma good_fixed {A} (e : A -> list Z) (d : dec_t A) P (n : nat) : good e d P ->
  good (e_fixed e) (d_fixed d n) (fun l => length l = n /\ Forall P l).
Proof.
  intros G. split.
  - intros l rest [L HP]. unfold e_fixed, d_fixed. subst n. apply (get_n_rt e d P G). assumption.
  - intros l k [L HP] Hk. unfold e_fixed, d_fixed in *. subst n. apply (get_n_pr e d P G); assumption.
Qed.

Lemma good_range : good e_range d_range (fun r => 0 <= fst r < M64 /\ 0 <= snd r < M64).
Proof. apply (good_pair _ _ _ _ _ _ good_zint good_zint). Qed.

Lemma good_cmseg : good e_cmseg d_cmseg (fun s => 0 <= fst s < M64 /\ 0 <= snd s < M32).
Proof. pose proof (good_pair _ _ _ _ _ _ good_zint (good_be 4)) as G. rewrite pow256_4 in G. exact G. Qed.

Lemma good_cmcol : forall n, good e_cmcol (d_cmcol n) (fun c => cmcol_ok n c = true).
Proof.
  intros n. eapply good_weaken.
  - apply (good_pair _ _ _ _ _ _ (good_bytes 2) (good_pair _ _ _ _ _ _ (good_be 1)
            (good_pair _ _ _ _ _ _ (good_bytes 2) (good_fixed _ _ _ n good_cmseg)))).
  - intros [name [ty [pre ents]]] H. unfold cmcol_ok in H. cbn [fst snd].
    repeat (apply andb_true_iff in H; destruct H as [H ?]).
    rewrite pow256_2. change (256 ^ Z.of_nat 1) with 256.
    repeat split; try lia.
    apply forallb_Forall in H0. eapply Forall_impl; [|exact H0]. cbv beta. unfold w64. intros. lia.
Qed.

Theorem chunk_meta_roundtrip : forall m rest, chunk_meta_ok m = true ->
  d_chunk_meta (e_chunk_meta m ++ rest) = Some (m, rest).
Proof.
  intros [sid [off [size [trs cols]]]] rest H. unfold chunk_meta_ok, w64 in H.
  repeat (apply andb_true_iff in H; destruct H as [H ?]).
  unfold e_chunk_meta, d_chunk_meta. rewrite <- !app_assoc.
  rewrite get_be_app by (rewrite pow256_8; lia).
  destruct good_zint as [RZ _]. rewrite RZ by lia.
  rewrite get_be_app by (rewrite pow256_4; lia).
  rewrite get_be_app by (rewrite pow256_4; pose proof (len_nonneg cols); lia).
  rewrite get_be_app by (rewrite pow256_4; pose proof (len_nonneg trs); lia).
  unfold len. rewrite !Nat2Z.id.
  destruct (good_fixed _ _ _ (length trs) good_range) as [RT _]. rewrite RT.
  - destruct (good_fixed _ _ _ (length cols) (good_cmcol (length trs))) as [RC _]. rewrite RC; [reflexivity|].
    split; [reflexivity|]. apply forallb_Forall. assumption.
  - split; [reflexivity|]. apply forallb_Forall in H1. eapply Forall_impl; [|exact H1]. cbv beta. intros. lia.
Qed.

Theorem trailer_fixed_roundtrip : forall pat vs rest, length vs = length pat -> Forall (fun v => 0 <= v < M64) vs ->
  d_fields pat (e_fields pat vs ++ rest) = Some (vs, rest).
Proof.
  induction pat as [|zig pat IH]; intros vs rest L HF.
  - destruct vs; [reflexivity|discriminate].
  - destruct vs as [|v vs]; [discriminate|]. inversion HF; subst. cbn [e_fields d_fields]. rewrite <- app_assoc.
    destruct zig.
    + destruct good_zint as [R _]. rewrite R by assumption. rewrite IH by (simpl in L; auto; lia). reflexivity.
    + rewrite get_be_app by (rewrite pow256_8; assumption). rewrite IH by (simpl in L; auto; lia). reflexivity.
Qed.

(* ---- layout ---- *)
Lemma slice_app : forall pre s post, slice (len pre) (len s) (pre ++ s ++ post) = s.
Proof. intros. unfold slice. rewrite skipn_len_app by reflexivity. apply firstn_len_app. reflexivity. Qed.

Lemma lay_slices : forall pieces pre post,
  Forall2 (fun p e => slice (fst e) (snd e) (pre ++ concat pieces ++ post) = p) pieces (lay (len pre) pieces).
Proof.
  induction pieces as [|p r IH]; intros pre post; [constructor|].
  cbn [lay concat]. constructor.
  - cbn [fst snd]. rewrite <- app_assoc. apply slice_app.
  - specialize (IH (pre ++ p) post). rewrite len_app in IH. rewrite <- !app_assoc in *. exact IH.
Qed.

(* pieces never overlap and follow each other in file order *)
Lemma lay_sorted : forall pieces off, StronglySorted (fun a b => fst a + snd a <= fst b) (lay off pieces).
Proof.
  induction pieces as [|p r IH]; intros off; cbn [lay]; constructor; [apply IH|].
  assert (G : forall r o, off + len p <= o -> Forall (fun b => fst (off, len p) + snd (off, len p) <= fst b) (lay o r)).
  { clear. induction r as [|q r IH]; intros o H; cbn [lay]; constructor; cbn [fst snd] in *; [lia|].
    apply IH. pose proof (len_nonneg q). lia. }
  apply G. lia.
Qed.

(* file_roundtrip: whatever else a file holds, every column segment written into it is found again at the (offset,
   size) the writer recorded for it and decodes to the null pattern of its rows and the block that was stored *)
Theorem file_roundtrip : forall pieces pre post,
  Forall2 (fun p e =>
             match p with
             | PSeg t m block rows =>
                 seg_applicable m rows = true ->
                 seg_dec t (len rows) (slice (fst e) (snd e) (pre ++ concat (map piece_bytes pieces) ++ post))
                 = Some (validity rows, seg_payload m block rows)
             | PRaw _ => True
             end)
          pieces (lay (len pre) (map piece_bytes pieces)).
Proof.
  intros pieces pre post.
  pose proof (lay_slices (map piece_bytes pieces) pre post) as H.
  remember (pre ++ concat (map piece_bytes pieces) ++ post) as file. clear Heqfile.
  remember (lay (len pre) (map piece_bytes pieces)) as ents. clear Heqents.
  revert ents H. induction pieces as [|p r IH]; intros ents H; cbn [map] in H;
    inversion H as [|x e l ents' Hhead Htail]; subst; constructor.
  - destruct p as [t m block rows|bs]; [|exact I]. intros Ha. cbn [piece_bytes] in *.
    rewrite Hhead. apply seg_roundtrip. exact Ha.
  - apply IH. assumption.
Qed.

(* ---- file-level time ranges ---- *)
Lemma tr_fold_from : forall chunks n lo hi, 0 < n ->
  exists n' lo' hi', fold_left tr_step chunks (n, (lo, hi)) = (n', (lo', hi')) /\
  n' = n + len chunks /\ lo' <= lo /\ hi <= hi' /\
  (forall c, In c chunks -> lo' <= fst c /\ snd c <= hi') /\
  (lo' = lo \/ exists c, In c chunks /\ fst c = lo') /\ (hi' = hi \/ exists c, In c chunks /\ snd c = hi').
Proof.
  induction chunks as [|c r IH]; intros n lo hi Hn.
  - exists n, lo, hi. cbn. repeat split; try lia; try (left; reflexivity); intros c [].
  - cbn [fold_left]. unfold tr_step at 2. destruct (Z.eqb_spec n 0); [lia|].
    set (lo1 := if lo >? fst c then fst c else lo). set (hi1 := if hi <? snd c then snd c else hi).
    destruct (IH (n + 1) lo1 hi1) as (n' & lo' & hi' & EF & E & L & H & A & ML & MH); [lia|].
    exists n', lo', hi'. split; [exact EF|].
    assert (L1 : lo1 <= lo /\ lo1 <= fst c) by (unfold lo1; destruct (Z.gtb_spec lo (fst c)); lia).
    assert (H1 : hi <= hi1 /\ snd c <= hi1) by (unfold hi1; destruct (Z.ltb_spec hi (snd c)); lia).
    rewrite len_cons. split; [lia|]. split; [lia|]. split; [lia|]. split; [|split].
    + intros d [<-|Hd]; [lia|apply A; assumption].
    + destruct ML as [ML|(d & Hd & Ed)].
      * unfold lo1 in ML. destruct (Z.gtb_spec lo (fst c)).
        -- right. exists c. split; [left; reflexivity|lia].
        -- left. lia.
      * right. exists d. split; [right; assumption|assumption].
    + destruct MH as [MH|(d & Hd & Ed)].
      * unfold hi1 in MH. destruct (Z.ltb_spec hi (snd c)).
        -- right. exists c. split; [left; reflexivity|lia].
        -- left. lia.
      * right. exists d. split; [right; assumption|assumption].
Qed.

(* the range recorded for a non-empty sequence of chunks is the hull of the chunk ranges: it contains every chunk range
   and both ends are attained *)
Theorem tr_fold_hull : forall chunks, chunks <> [] ->
  exists lo hi, tr_fold chunks = (len chunks, (lo, hi)) /\
  (forall c, In c chunks -> lo <= fst c /\ snd c <= hi) /\
  (exists c, In c chunks /\ fst c = lo) /\ (exists c, In c chunks /\ snd c = hi).
Proof.
  intros [|c r] Hne; [contradiction|]. unfold tr_fold. cbn [fold_left]. unfold tr_step at 2. cbn [Z.eqb fst snd].
  replace (if fst c >? fst c then fst c else fst c) with (fst c) by (destruct (fst c >? fst c); reflexivity).
  replace (if snd c <? snd c then snd c else snd c) with (snd c) by (destruct (snd c <? snd c); reflexivity).
  destruct (tr_fold_from r (0 + 1) (fst c) (snd c)) as (n & lo & hi & EF & E & L & H & A & ML & MH); [lia|].
  exists lo, hi. rewrite EF, len_cons. split; [f_equal; lia|]. split; [|split].
  - intros d [<-|Hd]; [lia|apply A; assumption].
  - destruct ML as [->|(d & Hd & Ed)]; [exists c; split; [left; reflexivity|reflexivity]|exists d; split; [right; assumption|assumption]].
  - destruct MH as [->|(d & Hd & Ed)]; [exists c; split; [left; reflexivity|reflexivity]|exists d; split; [right; assumption|assumption]].
Qed.

(* sorted row times: the first is the least, the last the greatest *)
Lemma last_in : forall (l : list Z) b, In (last (b :: l) 0) (b :: l).
Proof.
  induction l as [|x l IH]; intros b; [left; reflexivity|].
  change (last (b :: x :: l) 0) with (last (x :: l) 0). right. apply IH.
Qed.

Lemma sorted_hd_last : forall ts t, Sorted Z.le ts -> In t ts -> hd 0 ts <= t <= last ts 0.
Proof.
  intros ts t S. apply Sorted_StronglySorted in S; [|intros x y z; lia].
  induction S as [|a l S IH F]; intros Hin; [destruct Hin|].
  rewrite Forall_forall in F.
  destruct l as [|b l'].
  - destruct Hin as [<-|[]]. cbn. lia.
  - change (last (a :: b :: l') 0) with (last (b :: l') 0). cbn [hd].
    pose proof (F _ (last_in l' b)) as HL. pose proof (F b (or_introl eq_refl)) as HB.
    destruct Hin as [<-|Hin]; [lia|]. specialize (IH Hin). cbn [hd] in IH. lia.
Qed.

Lemma hd_concat : forall (segs : list (list Z)), Forall (fun s => s <> []) segs -> hd 0 (concat segs) = hd 0 (hd [] segs).
Proof. intros [|s r] F; [reflexivity|]. inversion F; subst. destruct s; [contradiction|reflexivity]. Qed.

Lemma last_app_ne : forall (a b : list Z), b <> [] -> last (a ++ b) 0 = last b 0.
Proof.
  induction a as [|x a IH]; intros b Hb; [reflexivity|].
  cbn [app]. destruct (a ++ b) eqn:E; [destruct a; [cbn in E; contradiction|discriminate]|]. rewrite <- E. cbn [last]. rewrite E. rewrite <- E. apply IH. exact Hb.
Qed.

Lemma last_concat : forall (segs : list (list Z)), segs <> [] -> Forall (fun s => s <> []) segs ->
  last (concat segs) 0 = last (last segs []) 0.
Proof.
  induction segs as [|s r IH]; intros Hne F; [contradiction|]. inversion F; subst.
  destruct r as [|s2 r'].
  - cbn. rewrite app_nil_r. reflexivity.
  - cbn [concat]. rewrite last_app_ne.
    + change (last (s :: s2 :: r') []) with (last (s2 :: r') []). apply IH; [discriminate|assumption].
    + inversion H2; subst. cbn [concat]. destruct s2; [contradiction|discriminate].
Qed.

(* the chunk range of a time-sorted chunk split into non-empty segments (any split) is (first row time, last row time) *)
Lemma chunk_range_concat : forall segs, segs <> [] -> Forall (fun s => s <> []) segs ->
  chunk_range (map seg_range segs) = (hd 0 (concat segs), last (concat segs) 0).
Proof.
  intros segs Hne F. unfold chunk_range. rewrite hd_concat, last_concat by assumption.
  destruct segs as [|s r]; [contradiction|]. cbn [map hd fst seg_range]. f_equal.
  clear Hne F. revert s. induction r as [|s2 r IH]; intros s; [reflexivity|].
  change (last (map seg_range (s :: s2 :: r)) (0, 0)) with (last (map seg_range (s2 :: r)) (0, 0)).
  change (last (s :: s2 :: r) []) with (last (s2 :: r) []). apply IH.
Qed.

(* a data file of time-sorted series, each split into non-empty segments in any way: the recorded range (the trailer's
   over all chunks, a meta-index entry's over its block of chunks) is met by every query range that holds the time of a
   stored row - file.ContainsByTime / ContainsValue / MetaIndex never deny a stored row - and the range is tight *)
Theorem file_range_never_denies : forall (file : list (list (list Z))),
  file <> [] ->
  Forall (fun segs => segs <> [] /\ Forall (fun s => s <> []) segs /\ Sorted Z.le (concat segs)) file ->
  exists lo hi, tr_fold (file_chunk_ranges file) = (len file, (lo, hi)) /\
  (forall segs t q, In segs file -> In t (concat segs) -> fst q <= t <= snd q -> overlaps q lo hi = true) /\
  (exists segs, In segs file /\ hd 0 (concat segs) = lo) /\ (exists segs, In segs file /\ last (concat segs) 0 = hi).
Proof.
  intros file Hne F.
  assert (Hne' : file_chunk_ranges file <> []) by (destruct file; [contradiction|discriminate]).
  destruct (tr_fold_hull (file_chunk_ranges file) Hne') as (lo & hi & E & A & (cl & Hcl & Ecl) & (ch & Hch & Ech)).
  exists lo, hi. rewrite Forall_forall in F.
  split; [rewrite E; unfold file_chunk_ranges, len; rewrite map_length; reflexivity|]. split; [|split].
  - intros segs t q Hs Ht Hq. destruct (F segs Hs) as (N1 & N2 & S).
    assert (I : In (chunk_range (map seg_range segs)) (file_chunk_ranges file)).
    { unfold file_chunk_ranges. apply in_map_iff. exists segs. split; [reflexivity|assumption]. }
    specialize (A _ I). rewrite chunk_range_concat in A by assumption. cbn [fst snd] in A.
    pose proof (sorted_hd_last _ t S Ht). unfold overlaps. lia.
  - unfold file_chunk_ranges in Hcl. apply in_map_iff in Hcl. destruct Hcl as (segs & <- & Hs).
    destruct (F segs Hs) as (N1 & N2 & S). rewrite chunk_range_concat in Ecl by assumption. exists segs. split; assumption.
  - unfold file_chunk_ranges in Hch. apply in_map_iff in Hch. destruct Hch as (segs & <- & Hs).
    destruct (F segs Hs) as (N1 & N2 & S). rewrite chunk_range_concat in Ech by assumption. exists segs. split; assumption.
Qed.
