(* C07 data file framing: chunk meta and trailer round trips, segment layout, file round trip composed from the
   segment round trip. *)
From Coq Require Import ZArith List Bool Lia ZifyBool ZifyNat Sorted.
From OG Require Import C07.Model C07.ModelRows C07.ModelFile C07.ProofsBase C07.ProofsRows C07.ProofsSeg.
Import ListNotations.
Open Scope Z_scope.

Lemma good_fixed {A} (e : A -> list Z) (d : dec_t A) P (n : nat) : good e d P ->
  good (e_fixed e) (d_fixed d n) (fun l => length l = n /\ Forall P l).
Proof.
  intros G. split.
  - intros l rest [L HP]. unfold e_fixed, d_fixed. subst n. apply (get_n_rt e d P G). assumption.
  - intros l k [L HP] Hk. unfold e_fixed, d_fixed in *. subst n. apply (get_n_pr e d P G); assumption.
Qed.

Lemma good_range : good e_range d_range (fun r => 0 <= fst r < M64 /\ 0 <= snd r < M64).
Proof. apply (good_pair _ _ _ _ _ _ good_zint good_zint). Qed.

Lemma good_cmseg : good e_cmseg d_cmseg (fun s => 0 <= fst s < M64 /\ 0 <= snd s < M32).
Proof. pose proof (good_pair _ _ _ _ _ _ good_zint (good_be 4)) as G. rewrite pow256_4 in G. exact G. Qed.

Lemma good_cmcol : forall n, good e_cmcol (d_cmcol n) (fun c => cmcol_ok n c = true).
Proof.
  intros n. eapply good_weaken.
  - apply (good_pair _ _ _ _ _ _ (good_bytes 2) (good_pair _ _ _ _ _ _ (good_be 1)
            (good_pair _ _ _ _ _ _ (good_bytes 2) (good_fixed _ _ _ n good_cmseg)))).
  - intros [name [ty [pre ents]]] H. unfold cmcol_ok in H. cbn [fst snd].
    repeat (apply andb_true_iff in H; destruct H as [H ?]).
    rewrite pow256_2. change (256 ^ Z.of_nat 1) with 256.
    repeat split; try lia.
    apply forallb_Forall in H0. eapply Forall_impl; [|exact H0]. cbv beta. unfold w64. intros. lia.
Qed.

Theorem chunk_meta_roundtrip : forall m rest, chunk_meta_ok m = true ->
  d_chunk_meta (e_chunk_meta m ++ rest) = Some (m, rest).
Proof.
  intros [sid [off [size [trs cols]]]] rest H. unfold chunk_meta_ok, w64 in H.
  repeat (apply andb_true_iff in H; destruct H as [H ?]).
  unfold e_chunk_meta, d_chunk_meta. rewrite <- !app_assoc.
  rewrite get_be_app by (rewrite pow256_8; lia).
  destruct good_zint as [RZ _]. rewrite RZ by lia.
  rewrite get_be_app by (rewrite pow256_4; lia).
  rewrite get_be_app by (rewrite pow256_4; pose proof (len_nonneg cols); lia).
  rewrite get_be_app by (rewrite pow256_4; pose proof (len_nonneg trs); lia).
  unfold len. rewrite !Nat2Z.id.
  destruct (good_fixed _ _ _ (length trs) good_range) as [RT _]. rewrite RT.
  - destruct (good_fixed _ _ _ (length cols) (good_cmcol (length trs))) as [RC _]. rewrite RC; [reflexivity|].
    split; [reflexivity|]. apply forallb_Forall. assumption.
  - split; [reflexivity|]. apply forallb_Forall in H1. eapply Forall_impl; [|exact H1]. cbv beta. intros. lia.
Qed.

Theorem trailer_fixed_roundtrip : forall pat vs rest, length vs = length pat -> Forall (fun v => 0 <= v < M64) vs ->
  d_fields pat (e_fields pat vs ++ rest) = Some (vs, rest).
Proof.
  induction pat as [|zig pat IH]; intros vs rest L HF.
  - destruct vs; [reflexivity|discriminate].
  - destruct vs as [|v vs]; [discriminate|]. inversion HF; subst. cbn [e_fields d_fields]. rewrite <- app_assoc.
    destruct zig.
    + destruct good_zint as [R _]. rewrite R by assumption. rewrite IH by (simpl in L; auto; lia). reflexivity.
    + rewrite get_be_app by (rewrite pow256_8; assumption). rewrite IH by (simpl in L; auto; lia). reflexivity.
Qed.

(* ---- layout ---- *)
Lemma slice_app : forall pre s post, slice (len pre) (len s) (pre ++ s ++ post) = s.
Proof. intros. unfold slice. rewrite skipn_len_app by reflexivity. apply firstn_len_app. reflexivity. Qed.

Lemma lay_slices : forall pieces pre post,
  Forall2 (fun p e => slice (fst e) (snd e) (pre ++ concat pieces ++ post) = p) pieces (lay (len pre) pieces).
Proof.
  induction pieces as [|p r IH]; intros pre post; [constructor|].
  cbn [lay concat]. constructor.
  - cbn [fst snd]. rewrite <- app_assoc. apply slice_app.
  - specialize (IH (pre ++ p) post). rewrite len_app in IH. rewrite <- !app_assoc in *. exact IH.
Qed.

(* pieces never overlap and follow each other in file order *)
Lemma lay_sorted : forall pieces off, StronglySorted (fun a b => fst a + snd a <= fst b) (lay off pieces).
Proof.
  induction pieces as [|p r IH]; intros off; cbn [lay]; constructor; [apply IH|].
  assert (G : forall r o, off + len p <= o -> Forall (fun b => fst (off, len p) + snd (off, len p) <= fst b) (lay o r)).
  { clear. induction r as [|q r IH]; intros o H; cbn [lay]; constructor; cbn [fst snd] in *; [lia|].
    apply IH. pose proof (len_nonneg q). lia. }
  apply G. lia.
Qed.

(* file_roundtrip: whatever else a file holds, every column segment written into it is found again at the (offset,
   size) the writer recorded for it and decodes to the null pattern of its rows and the block that was stored *)
Theorem file_roundtrip : forall pieces pre post,
  Forall2 (fun p e =>
             match p with
             | PSeg t m block rows =>
                 seg_applicable m rows = true ->
                 seg_dec t (len rows) (slice (fst e) (snd e) (pre ++ concat (map piece_bytes pieces) ++ post))
                 = Some (validity rows, seg_payload m block rows)
             | PRaw _ => True
             end)
          pieces (lay (len pre) (map piece_bytes pieces)).
Proof.
  intros pieces pre post.
  pose proof (lay_slices (map piece_bytes pieces) pre post) as H.
  remember (pre ++ concat (map piece_bytes pieces) ++ post) as file. clear Heqfile.
  remember (lay (len pre) (map piece_bytes pieces)) as ents. clear Heqents.
  revert ents H. induction pieces as [|p r IH]; intros ents H; cbn [map] in H;
    inversion H as [|x e l ents' Hhead Htail]; subst; constructor.
  - destruct p as [t m block rows|bs]; [|exact I]. intros Ha. cbn [piece_bytes] in *.
    rewrite Hhead. apply seg_roundtrip. exact Ha.
  - apply IH. assumption.
Qed.
