(* C07 integer and timestamp blocks: round trip for every mode. *)
From Coq Require Import ZArith List Bool Lia ZifyBool ZifyNat.
From OG Require Import C07.Model C07.ProofsBase C07.ProofsS8.
Import ListNotations.
Open Scope Z_scope.

Lemma map_unzz_zz : forall l, (forall v, In v l -> 0 <= v < M64) -> map unzz (map zz l) = l.
Proof.
  intros. rewrite map_map. rewrite <- (map_id l) at 2. apply map_ext_in. intros. apply unzz_zz. auto.
Qed.

Lemma be8_all_words : forall ws, (forall w, In w ws -> 0 <= w < M64) -> be8_all (flat_map (be 8) ws) = Some ws.
Proof.
  intros. change (flat_map (be 8) ws) with (flat_map (fun v => be 8 ((fun x => x) v)) ws).
  rewrite be8_all_flat by assumption. rewrite map_id. reflexivity.
Qed.

Lemma flat_words_length : forall ws, len (flat_map (be 8) ws) = 8 * len ws.
Proof. intros. apply (flat_be8_length (fun x => x)). Qed.

Lemma firstn_exact {A} : forall (l : list A) n, n = len l -> firstn (Z.to_nat n) l = l.
Proof. intros. subst. unfold len. rewrite Nat2Z.id. apply firstn_all. Qed.

Lemma len_map {A B} (f : A -> B) l : len (map f l) = len l.
Proof. unfold len. rewrite map_length. reflexivity. Qed.
Lemma len_deltas : forall vs p, len (deltas p vs) = len vs.
Proof. intros. unfold len. rewrite deltas_length. reflexivity. Qed.

Lemma ltb_false_ge : forall a b, b <= a -> (a <? b) = false.
Proof. intros. lia. Qed.
Lemma nat_ltb_false : forall a b, (b <= a)%nat -> (a <? b)%nat = false.
Proof. intros. destruct (Nat.ltb_spec a b); auto; lia. Qed.

Ltac len_norm := repeat (rewrite ?len_app, ?len_cons, ?flat_be8_length, ?flat_words_length, ?le_bytes_length, ?len_map, ?len_deltas).

Section IntProof.
  Variable zc : list Z -> list Z.
  Variable zd : list Z -> option (list Z).
  Hypothesis zstd_roundtrip : forall x, bytes_ok x = true -> zd (zc x) = Some x.

  Lemma be_len : forall n v, len (be n v) = Z.of_nat n.
  Proof. intros. unfold len. rewrite be_length. reflexivity. Qed.

  Theorem int_block_roundtrip : forall m vs, int_applicable zc m vs = true -> int_dec zd (int_enc_with zc m vs) = Some vs.
  Proof.
    intros m vs H. unfold int_applicable in H.
    apply andb_true_iff in H. destruct H as [H Hm]. apply andb_true_iff in H. destruct H as [Hw Hl].
    destruct vs as [|v0 rest]; [reflexivity|].
    assert (Hv0 : 0 <= v0 < M64) by (eapply words_ok_In; [exact Hw|left; reflexivity]).
    assert (Hrest : words_ok rest = true) by (simpl in Hw; apply andb_true_iff in Hw; tauto).
    assert (Hlen : 8 * len (v0 :: rest) < M32) by lia.
    pose proof (len_nonneg rest) as Hnn.
    rewrite len_cons in Hlen.
    destruct m as [|sels| |].
    - (* const delta *)
      destruct (deltas v0 rest) as [|d ds] eqn:ED; [discriminate|].
      assert (Hd : 0 <= d < M64) by (apply (deltas_range rest v0); rewrite ED; left; reflexivity).
      assert (EQ : deltas v0 rest = repeat d (length rest)).
      { rewrite <- (deltas_length rest v0), ED. apply (all_eq_repeat d (d :: ds)). simpl. rewrite Z.eqb_refl. exact Hm. }
      unfold int_enc_with. rewrite ED. cbn [hd app].
      unfold int_dec. rewrite nat_ltb_false by (cbn [length]; rewrite app_length, be_length; lia).
      tagsimp. 
      rewrite get_be_app by (rewrite pow256_8; apply zz_range; assumption).
      rewrite uvarint_roundtrip by (apply zz_range; assumption).
      rewrite <- (app_nil_r (put_uvarint (len rest))).
      rewrite uvarint_roundtrip by (unfold M32, M64 in *; lia).
      rewrite !unzz_zz by assumption. unfold len. rewrite Nat2Z.id. rewrite <- EQ.
      rewrite undeltas_deltas by assumption. reflexivity.
    - (* simple8b *)
      apply andb_true_iff in Hm. destruct Hm as [Hs Hn].
      set (ds := map zz (deltas v0 rest)) in *.
      set (ws := s8_encode sels ds).
      assert (Hws : forall w, In w ws -> 0 <= w < M64) by (intros; eapply s8_words_range; eauto).
      assert (Lws : len ws = len sels) by (unfold len, ws; rewrite s8_encode_length; reflexivity).
      unfold int_enc_with. fold ds. fold ws. cbn [app].
      unfold int_dec. rewrite nat_ltb_false by (cbn [length]; rewrite app_length, be_length; lia).
      tagsimp. 
      rewrite nat_ltb_false by (rewrite !app_length, !be_length; lia).
      rewrite get_be_app by (rewrite pow256_4; pose proof (len_nonneg ws); lia).
      rewrite get_be_app by (rewrite pow256_4, len_cons; lia).
      change (be 8 (zz v0) ++ flat_map (be 8) ws) with (flat_map (be 8) (zz v0 :: ws)).
      rewrite ltb_false_ge by (len_norm; lia).
      rewrite firstn_exact by (len_norm; lia).
      rewrite be8_all_words by (intros w [E|I]; [subst; apply zz_range; assumption | auto]).
      unfold ws. rewrite s8_roundtrip by assumption.
      unfold ds at 1. len_norm. rewrite Z.add_comm, Z.eqb_refl.
      rewrite unzz_zz by assumption. unfold ds. rewrite map_unzz_zz by (intros; eapply deltas_range; eauto).
      rewrite undeltas_deltas by assumption. reflexivity.
    - (* zstd *)
      unfold int_enc_with. cbv beta iota. set (vs := v0 :: rest) in *. set (c := zc (le_bytes vs)) in *. cbn [app].
      unfold int_dec. rewrite nat_ltb_false by (cbn [length]; rewrite app_length, be_length; lia).
      tagsimp. 
      rewrite get_be_app by (rewrite pow256_4; unfold vs; rewrite len_cons; lia).
      rewrite <- (app_nil_r c) at 2.
      rewrite get_be_app by (rewrite pow256_4; pose proof (len_nonneg c); lia).
      rewrite app_nil_r. rewrite Z.ltb_irrefl. rewrite firstn_exact by reflexivity.
      unfold c. rewrite zstd_roundtrip by apply le_bytes_ok_all.
      apply unle_all_le_bytes. exact Hw.
    - (* uncompressed *)
      unfold int_enc_with. cbv beta iota. set (vs := v0 :: rest) in *. cbn [app].
      unfold int_dec. rewrite nat_ltb_false by (cbn [length]; rewrite app_length, be_length; lia).
      tagsimp. 
      rewrite get_be_app by (rewrite pow256_4; unfold vs; rewrite len_cons; lia).
      rewrite ltb_false_ge by (len_norm; lia).
      rewrite be8_all_flat by (intros; apply zz_range; eapply words_ok_In; [exact Hw|assumption]).
      rewrite map_unzz_zz by (intros; eapply words_ok_In; [exact Hw|assumption]). reflexivity.
  Qed.

End IntProof.

(* the uncompressed mode is always applicable: the encoder never has to fail *)
Theorem int_raw_always_applicable : forall zc vs, words_ok vs = true -> 8 * len vs < M32 -> int_applicable zc IRaw vs = true.
Proof. intros. unfold int_applicable. rewrite H. destruct vs; lia. Qed.

Section TimeProof.
  Variable sc : list Z -> list Z.
  Variable sd : list Z -> option (list Z).
  Hypothesis snappy_roundtrip : forall x, bytes_ok x = true -> sd (sc x) = Some x.

  Lemma scaled_back : forall scale l, 1 <= scale -> forallb (fun d => d mod scale =? 0) l = true ->
    (forall d, In d l -> 0 <= d < M64) ->
    map (fun q => (q * scale) mod M64) (map (fun d => d / scale) l) = l.
  Proof.
    intros scale l Hs Hd Hr. rewrite map_map. rewrite <- (map_id l) at 2. apply map_ext_in. intros d I.
    rewrite forallb_forall in Hd. specialize (Hd d I). specialize (Hr d I).
    assert (E : d / scale * scale = d).
    { pose proof (Z.div_mod d scale). assert (d mod scale = 0) by lia. nia. }
    rewrite E. apply Z.mod_small. assumption.
  Qed.

  Theorem time_block_roundtrip : forall m vs, time_applicable sc m vs = true -> time_dec sd (time_enc_with sc m vs) = Some vs.
  Proof.
    intros m vs H. unfold time_applicable in H.
    apply andb_true_iff in H. destruct H as [H Hm]. apply andb_true_iff in H. destruct H as [Hw Hl].
    pose proof (len_nonneg vs) as Hnn.
    destruct m as [|scale sels| |].
    - (* const delta *)
      destruct vs as [|v0 rest]; [discriminate|].
      assert (Hv0 : 0 <= v0 < M64) by (eapply words_ok_In; [exact Hw|left; reflexivity]).
      assert (Hrest : words_ok rest = true) by (simpl in Hw; apply andb_true_iff in Hw; tauto).
      rewrite len_cons in Hl. pose proof (len_nonneg rest).
      destruct (deltas v0 rest) as [|d ds] eqn:ED; [discriminate|].
      assert (Hd : 0 <= d < M64) by (apply (deltas_range rest v0); rewrite ED; left; reflexivity).
      assert (EQ : deltas v0 rest = repeat d (length rest)).
      { rewrite <- (deltas_length rest v0), ED. apply (all_eq_repeat d (d :: ds)). simpl. rewrite Z.eqb_refl. exact Hm. }
      unfold time_enc_with. rewrite ED. cbn [hd app].
      unfold time_dec. rewrite nat_ltb_false by (cbn [length]; rewrite app_length, be_length; lia).
      tagsimp. 
      rewrite get_be_app by (rewrite pow256_8; assumption).
      rewrite uvarint_roundtrip by assumption.
      rewrite <- (app_nil_r (put_uvarint (len rest))).
      rewrite uvarint_roundtrip by (unfold M32, M64 in *; lia).
      unfold len. rewrite Nat2Z.id. rewrite <- EQ.
      rewrite undeltas_deltas by assumption. reflexivity.
    - (* scaled simple8b *)
      destruct vs as [|v0 rest]; [discriminate|].
      assert (Hv0 : 0 <= v0 < M64) by (eapply words_ok_In; [exact Hw|left; reflexivity]).
      assert (Hrest : words_ok rest = true) by (simpl in Hw; apply andb_true_iff in Hw; tauto).
      rewrite len_cons in Hl. pose proof (len_nonneg rest).
      repeat (apply andb_true_iff in Hm; destruct Hm as [Hm ?]).
      set (ds := map (fun d => d / scale) (deltas v0 rest)) in *.
      set (ws := s8_encode sels ds).
      assert (Hws : forall w, In w ws -> 0 <= w < M64) by (intros; eapply s8_words_range; eauto).
      assert (Lws : len ws = len sels) by (unfold len, ws; rewrite s8_encode_length; reflexivity).
      unfold time_enc_with. fold ds. fold ws. cbn [app].
      unfold time_dec. rewrite nat_ltb_false by (cbn [length]; rewrite app_length, be_length; lia).
      tagsimp. 
      rewrite nat_ltb_false by (rewrite !app_length, !be_length; lia).
      rewrite get_be_app by (rewrite pow256_8; lia).
      rewrite get_be_app by (rewrite pow256_4; pose proof (len_nonneg ws); lia).
      rewrite get_be_app by (rewrite pow256_4, len_cons; lia).
      change (be 8 v0 ++ flat_map (be 8) ws) with (flat_map (be 8) (v0 :: ws)).
      rewrite ltb_false_ge by (len_norm; lia).
      rewrite firstn_exact by (len_norm; lia).
      rewrite be8_all_words by (intros w [E|I]; [subst; assumption | auto]).
      unfold ws. rewrite s8_roundtrip by assumption.
      unfold ds at 1. len_norm. rewrite Z.add_comm, Z.eqb_refl.
      unfold ds. rewrite scaled_back; [|lia|assumption|intros; eapply deltas_range; eauto].
      rewrite undeltas_deltas by assumption. reflexivity.
    - (* snappy *)
      unfold time_enc_with. set (c := sc (le_bytes vs)) in *. cbn [app].
      unfold time_dec. rewrite nat_ltb_false by (cbn [length]; rewrite app_length, be_length; lia).
      tagsimp. 
      rewrite get_be_app by (rewrite pow256_4; lia).
      rewrite <- (app_nil_r c) at 2.
      rewrite get_be_app by (rewrite pow256_4; pose proof (len_nonneg c); lia).
      rewrite app_nil_r. rewrite Z.ltb_irrefl. rewrite firstn_exact by reflexivity.
      unfold c. rewrite snappy_roundtrip by apply le_bytes_ok_all.
      rewrite le_bytes_length, Z.eqb_refl.
      apply unle_all_le_bytes. exact Hw.
    - (* uncompressed *)
      unfold time_enc_with. cbn [app].
      unfold time_dec. rewrite nat_ltb_false by (cbn [length]; rewrite app_length, be_length; lia).
      tagsimp. 
      rewrite get_be_app by (rewrite pow256_4; lia).
      rewrite ltb_false_ge by (len_norm; lia).
      rewrite be8_all_flat by (intros; apply zz_range; eapply words_ok_In; [exact Hw|assumption]).
      rewrite map_unzz_zz by (intros; eapply words_ok_In; [exact Hw|assumption]). reflexivity.
  Qed.

End TimeProof.

Theorem time_raw_always_applicable : forall sc vs, words_ok vs = true -> 8 * len vs < M32 -> time_applicable sc TRaw vs = true.
Proof. intros. unfold time_applicable. rewrite H. lia. Qed.
