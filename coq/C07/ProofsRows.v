(* C07 rows codec: round trip and rejection of every strict prefix, built compositionally. *)
From Coq Require Import ZArith List Bool Lia ZifyBool ZifyNat.
From OG Require Import C07.Model C07.ModelRows C07.ProofsBase.
Import ListNotations.
Open Scope Z_scope.

(* a codec is good on P when (rt) decoding an encoding followed by anything returns the value and exactly the rest,
   and (pr) every strict prefix of an encoding is rejected *)
Definition good {A} (e : A -> list Z) (d : dec_t A) (P : A -> Prop) : Prop :=
  (forall a rest, P a -> d (e a ++ rest) = Some (a, rest)) /\
  (forall a k, P a -> (k < length (e a))%nat -> d (firstn k (e a)) = None).

Lemma good_pair {A B} (e1 : A -> list Z) (d1 : dec_t A) P1 (e2 : B -> list Z) (d2 : dec_t B) P2 :
  good e1 d1 P1 -> good e2 d2 P2 -> good (e_pair e1 e2) (d_pair d1 d2) (fun p => P1 (fst p) /\ P2 (snd p)).
Proof.
  intros [R1 Q1] [R2 Q2]. split.
  - intros [a b] rest [Ha Hb]. unfold e_pair, d_pair. cbn [fst snd] in *.
    rewrite <- app_assoc, R1, R2 by assumption. reflexivity.
  - intros [a b] k [Ha Hb] Hk. unfold e_pair, d_pair in *. cbn [fst snd] in *.
    rewrite app_length in Hk. rewrite firstn_app.
    destruct (Nat.lt_ge_cases k (length (e1 a))) as [L|G].
    + replace (k - length (e1 a))%nat with 0%nat by lia. cbn [firstn]. rewrite app_nil_r, Q1 by assumption. reflexivity.
    + rewrite firstn_all2 by lia. rewrite R1 by assumption. rewrite Q2 by (assumption || lia). reflexivity.
Qed.

Lemma good_be : forall n, good (be n) (get_be n) (fun v => 0 <= v < 256 ^ Z.of_nat n).
Proof.
  intros n. split.
  - intros. apply get_be_app. assumption.
  - intros v k _ Hk. rewrite be_length in Hk. apply get_be_short. rewrite firstn_length, be_length. lia.
Qed.

Lemma good_bytes : forall w, good (put_bytes w) (get_bytes w) (fun s => len s < 256 ^ Z.of_nat w).
Proof.
  intros w. split.
  - intros s rest H. unfold put_bytes, get_bytes. rewrite <- app_assoc.
    rewrite get_be_app by (pose proof (len_nonneg s); lia).
    rewrite len_app. pose proof (len_nonneg rest).
    destruct (Z.ltb_spec (len s + len rest) (len s)); [lia|].
    rewrite firstn_len_app, skipn_len_app by reflexivity. reflexivity.
  - intros s k H Hk. unfold put_bytes, get_bytes in *. rewrite app_length, be_length in Hk.
    rewrite firstn_app, be_length.
    destruct (Nat.lt_ge_cases k w) as [L|G].
    + replace (k - w)%nat with 0%nat by lia. cbn [firstn]. rewrite app_nil_r.
      rewrite get_be_short; [reflexivity|]. rewrite firstn_length, be_length. lia.
    + rewrite (firstn_all2 (be w (len s))) by (rewrite be_length; lia).
      rewrite get_be_app by (pose proof (len_nonneg s); lia).
      assert (len (firstn (k - w) s) < len s) by (unfold len; rewrite firstn_length; lia).
      destruct (Z.ltb_spec (len (firstn (k - w) s)) (len s)); [reflexivity|lia].
Qed.

Lemma get_n_rt {A} (e : A -> list Z) (d : dec_t A) P : good e d P ->
  forall l rest, Forall P l -> get_n d (length l) (flat_map e l ++ rest) = Some (l, rest).
Proof.
  intros [R Q]. induction l as [|a l IH]; intros rest H; [reflexivity|].
  inversion H; subst. cbn [length get_n flat_map]. rewrite <- app_assoc, R, IH by assumption. reflexivity.
Qed.

Lemma get_n_pr {A} (e : A -> list Z) (d : dec_t A) P : good e d P ->
  forall l k, Forall P l -> (k < length (flat_map e l))%nat -> get_n d (length l) (firstn k (flat_map e l)) = None.
Proof.
  intros [R Q]. induction l as [|a l IH]; intros k H Hk; [simpl in Hk; lia|].
  inversion H; subst. cbn [length get_n flat_map] in *. rewrite app_length in Hk. rewrite firstn_app.
  destruct (Nat.lt_ge_cases k (length (e a))) as [L|G].
  - replace (k - length (e a))%nat with 0%nat by lia. cbn [firstn]. rewrite app_nil_r, Q by assumption. reflexivity.
  - rewrite firstn_all2 by lia. rewrite R by assumption. rewrite IH by (assumption || lia). reflexivity.
Qed.

Lemma good_list {A} (w : nat) (e : A -> list Z) (d : dec_t A) P : good e d P ->
  good (put_list w e) (get_list w d) (fun l => len l < 256 ^ Z.of_nat w /\ Forall P l).
Proof.
  intros G. split.
  - intros l rest [Hl HP]. unfold put_list, get_list. rewrite <- app_assoc.
    rewrite get_be_app by (pose proof (len_nonneg l); lia).
    unfold len. rewrite Nat2Z.id. apply (get_n_rt e d P G). assumption.
  - intros l k [Hl HP] Hk. unfold put_list, get_list in *. rewrite app_length, be_length in Hk.
    rewrite firstn_app, be_length.
    destruct (Nat.lt_ge_cases k w) as [L|Ge].
    + replace (k - w)%nat with 0%nat by lia. cbn [firstn]. rewrite app_nil_r.
      rewrite get_be_short; [reflexivity|]. rewrite firstn_length, be_length. lia.
    + rewrite (firstn_all2 (be w (len l))) by (rewrite be_length; lia).
      rewrite get_be_app by (pose proof (len_nonneg l); lia).
      unfold len. rewrite Nat2Z.id. apply (get_n_pr e d P G); [assumption|lia].
Qed.

Lemma good_weaken {A} (e : A -> list Z) (d : dec_t A) (P Q : A -> Prop) :
  good e d P -> (forall a, Q a -> P a) -> good e d Q.
Proof. intros [R S] H. split; intros; [apply R|apply S]; auto. Qed.

(* ---- the pieces of a row ---- *)
Definition Ptag (t : rtag) : Prop := tag_ok t = true.
Definition Pfval (v : fval) : Prop := fval_ok v = true.
Definition Pfield (f : rfield) : Prop := field_ok f = true.
Definition Popt (o : ropt) : Prop := opt_ok o = true.
Definition Prow (r : rrow) : Prop := row_ok r = true.

Lemma forallb_Forall {A} (f : A -> bool) l : forallb f l = true -> Forall (fun x => f x = true) l.
Proof. intros H. apply Forall_forall. apply forallb_forall. exact H. Qed.

Lemma good_tag : good e_tag d_tag Ptag.
Proof.
  eapply good_weaken. apply (good_pair _ _ _ _ _ _ (good_bytes 2) (good_bytes 2)).
  intros [k v] H. unfold Ptag, tag_ok in H. cbn [fst snd] in *. rewrite pow256_2. lia.
Qed.

Lemma good_fval : good e_fval d_fval Pfval.
Proof.
  destruct (good_bytes 8) as [RB QB]. destruct (good_be 8) as [RN QN]. rewrite pow256_8 in *.
  split.
  - intros [s|ty bits] rest H; unfold Pfval, fval_ok in H; unfold e_fval, d_fval; cbn [app].
    + change ((4 <=? 0) || (7 <=? 4)) with false. change (4 =? 4) with true. cbv iota.
      rewrite RB by lia. reflexivity.
    + replace ((ty <=? 0) || (7 <=? ty)) with false by lia. replace (ty =? 4) with false by lia.
      rewrite RN by lia. reflexivity.
  - intros [s|ty bits] k H Hk; unfold Pfval, fval_ok in H; unfold e_fval, d_fval in *; cbn [app length] in *;
      (destruct k as [|k]; [reflexivity|]); cbn [firstn].
    + change ((4 <=? 0) || (7 <=? 4)) with false. change (4 =? 4) with true. cbv iota.
      rewrite QB by lia. reflexivity.
    + replace ((ty <=? 0) || (7 <=? ty)) with false by lia. replace (ty =? 4) with false by lia.
      rewrite QN by lia. reflexivity.
Qed.

Lemma good_field : good e_field d_field Pfield.
Proof.
  eapply good_weaken. apply (good_pair _ _ _ _ _ _ (good_bytes 2) good_fval).
  intros [k v] H. unfold Pfield, field_ok in H. cbn [fst snd] in *. rewrite pow256_2. unfold Pfval. lia.
Qed.

Lemma good_opt : good e_opt d_opt Popt.
Proof.
  eapply good_weaken. apply (good_pair _ _ _ _ _ _ (good_be 4) (good_list 2 _ _ _ (good_be 2))).
  intros [oid l] H. unfold Popt, opt_ok in H. cbn [fst snd] in *. rewrite pow256_4, pow256_2.
  repeat (apply andb_true_iff in H; destruct H as [H ?]).
  split; [lia|]. split; [lia|]. apply forallb_Forall in H0. eapply Forall_impl; [|exact H0]. cbv beta. intros. lia.
Qed.

Definition Popts (l : list ropt) : Prop := len l < M32 /\ Forall Popt l.

Lemma good_opts : good e_opts d_opts Popts.
Proof.
  destruct (good_list 4 _ _ _ good_opt) as [RL QL]. rewrite pow256_4 in *.
  split.
  - intros l rest H. destruct l as [|o l]; [reflexivity|].
    unfold e_opts, d_opts. cbn [app]. change (121 =? 110) with false. cbv iota. apply RL. exact H.
  - intros l k H Hk. destruct l as [|o l].
    + simpl in Hk. assert (k = 0)%nat by lia. subst. reflexivity.
    + unfold e_opts, d_opts in *. cbn [app length] in *. destruct k as [|k]; [reflexivity|]. cbn [firstn].
      change (121 =? 110) with false. cbv iota. apply QL; [exact H|lia].
Qed.

Lemma good_time : good e_time d_time (fun t => 0 <= t < M64).
Proof.
  destruct (good_be 8) as [R Q]. rewrite pow256_8 in *. split.
  - intros t rest H. unfold e_time, d_time. rewrite R by (apply zz_range; assumption).
    cbn [omap]. rewrite unzz_zz by assumption. reflexivity.
  - intros t k H Hk. unfold e_time, d_time in *. rewrite Q by (try apply zz_range; assumption). reflexivity.
Qed.

Lemma good_row : good e_row d_row Prow.
Proof.
  eapply good_weaken.
  - apply (good_pair _ _ _ _ _ _ (good_bytes 1)
          (good_pair _ _ _ _ _ _ (good_bytes 4)
            (good_pair _ _ _ _ _ _ (good_list 4 _ _ _ good_tag)
              (good_pair _ _ _ _ _ _ (good_list 4 _ _ _ good_field)
                (good_pair _ _ _ _ _ _ good_opts good_time))))).
  - intros [name [sk [tags [fields [opts t]]]]] H. unfold Prow, row_ok in H. cbn [fst snd].
    repeat (apply andb_true_iff in H; destruct H as [H ?]).
    rewrite pow256_4. change (256 ^ Z.of_nat 1) with 256.
    repeat split; try lia; try (apply forallb_Forall; assumption).
Qed.

(* ---- the batch ---- *)
Theorem rows_roundtrip : forall rs trailing, Forall Prow rs -> len rs < M32 ->
  d_batch (e_batch rs ++ trailing) = Some rs.
Proof.
  intros rs trailing HP Hl. unfold e_batch, d_batch. rewrite <- app_assoc.
  rewrite get_be_app by (rewrite pow256_4; pose proof (len_nonneg rs); lia).
  cbn [app]. unfold len. rewrite Nat2Z.id.
  rewrite (get_n_rt e_row d_row Prow good_row) by assumption. reflexivity.
Qed.

(* every strict prefix of a marshalled batch is rejected - in particular one that ends exactly on a row boundary *)
Theorem rows_prefix_rejected : forall rs k, Forall Prow rs -> len rs < M32 ->
  (k < length (e_batch rs))%nat -> d_batch (firstn k (e_batch rs)) = None.
Proof.
  intros rs k HP Hl Hk. unfold e_batch, d_batch in *.
  rewrite app_length, be_length in Hk. cbn [app length] in Hk.
  rewrite firstn_app, be_length.
  destruct (Nat.lt_ge_cases k 4) as [L|G].
  - replace (k - 4)%nat with 0%nat by lia. cbn [firstn]. rewrite app_nil_r.
    rewrite get_be_short; [reflexivity|]. rewrite firstn_length, be_length. lia.
  - rewrite (firstn_all2 (be 4 (len rs))) by (rewrite be_length; lia).
    rewrite get_be_app by (rewrite pow256_4; pose proof (len_nonneg rs); lia).
    cbn [app]. destruct (k - 4)%nat as [|j] eqn:E; [reflexivity|]. cbn [firstn].
    unfold len. rewrite Nat2Z.id.
    rewrite (get_n_pr e_row d_row Prow good_row) by (assumption || lia). reflexivity.
Qed.

(* a row boundary is a strict prefix: the batch cut after its first j rows (j < N) is rejected *)
Corollary rows_cut_at_row_boundary_rejected : forall rs1 r rs2, Forall Prow (rs1 ++ r :: rs2) -> len (rs1 ++ r :: rs2) < M32 ->
  e_row r <> [] ->
  d_batch (be 4 (len (rs1 ++ r :: rs2)) ++ [1] ++ flat_map e_row rs1) = None.
Proof.
  intros rs1 r rs2 HP Hl Hne.
  set (rs := rs1 ++ r :: rs2) in *.
  set (p := be 4 (len rs) ++ [1] ++ flat_map e_row rs1).
  assert (EB : e_batch rs = p ++ (e_row r ++ flat_map e_row rs2)).
  { unfold e_batch, p, rs. rewrite flat_map_app. cbn [flat_map]. rewrite <- !app_assoc. reflexivity. }
  assert (EP : firstn (length p) (e_batch rs) = p).
  { rewrite EB, firstn_app, Nat.sub_diag, firstn_all. cbn [firstn]. apply app_nil_r. }
  rewrite <- EP. apply rows_prefix_rejected; try assumption.
  rewrite EB, !app_length. destruct (e_row r); [congruence|]. cbn [length]. lia.
Qed.

(* ================= record.Marshal / Unmarshal ================= *)
Lemma good_le : forall n, good (le n) (get_le n) (fun v => 0 <= v < 256 ^ Z.of_nat n).
Proof.
  intros n. split.
  - intros v rest H. unfold get_le.
    assert (L : length (le n v) = n) by apply le_length.
    destruct (Nat.ltb_spec (length (le n v ++ rest)) n) as [Hlt|Hge]; [rewrite app_length in Hlt; lia|].
    rewrite <- L at 1. rewrite firstn_app, Nat.sub_diag, firstn_all. cbn [firstn]. rewrite app_nil_r.
    rewrite unle_le by assumption.
    rewrite <- L at 1. rewrite skipn_app, Nat.sub_diag, skipn_all. reflexivity.
  - intros v k _ Hk. rewrite le_length in Hk. unfold get_le.
    destruct (Nat.ltb_spec (length (firstn k (le n v))) n); [reflexivity|].
    rewrite firstn_length, le_length in *. lia.
Qed.

Lemma good_zint : good e_zint d_zint (fun v => 0 <= v < M64).
Proof.
  destruct (good_be 8) as [R Q]. rewrite pow256_8 in *. split.
  - intros t rest H. unfold e_zint, d_zint. rewrite R by (apply zz_range; assumption).
    cbn [omap]. rewrite unzz_zz by assumption. reflexivity.
  - intros t k H Hk. unfold e_zint, d_zint in *. rewrite Q by (try apply zz_range; assumption). reflexivity.
Qed.

Lemma good_sized {A} (e : A -> list Z) (d : dec_t A) P : good e d P ->
  good (put_sized e) (get_sized d) (fun a => P a /\ len (e a) < M32).
Proof.
  intros [R Q]. destruct (good_bytes 4) as [RB QB]. rewrite pow256_4 in *. split.
  - intros a rest [Ha Hl]. unfold put_sized, get_sized. rewrite RB by assumption.
    rewrite <- (app_nil_r (e a)). rewrite R by assumption. reflexivity.
  - intros a k [Ha Hl] Hk. unfold put_sized, get_sized in *. rewrite QB by assumption. reflexivity.
Qed.

Definition Prec_field (f : rec_field) : Prop := rec_field_ok f = true.
Definition Prec_col (c : rec_col) : Prop := rec_col_ok c = true.

Lemma good_rec_field : good e_rec_field d_rec_field Prec_field.
Proof.
  eapply good_weaken. apply (good_pair _ _ _ _ _ _ (good_bytes 2) good_zint).
  intros [n t] H. unfold Prec_field, rec_field_ok in H. cbn [fst snd] in *. rewrite pow256_2. lia.
Qed.

Lemma good_rec_col : good e_rec_col d_rec_col Prec_col.
Proof.
  eapply good_weaken.
  - apply (good_pair _ _ _ _ _ _ good_zint (good_pair _ _ _ _ _ _ good_zint (good_pair _ _ _ _ _ _ good_zint
            (good_pair _ _ _ _ _ _ (good_bytes 4) (good_pair _ _ _ _ _ _ (good_bytes 4) (good_list 4 _ _ _ (good_le 4))))))).
  - intros [l [n [o [val [bm offs]]]]] H. unfold Prec_col, rec_col_ok in H. cbn [fst snd].
    repeat (apply andb_true_iff in H; destruct H as [H ?]).
    rewrite pow256_4.
    repeat split; try lia. apply forallb_Forall in H0. eapply Forall_impl; [|exact H0]. cbv beta. intros. lia.
Qed.

Definition Precord (r : rrecord) : Prop :=
  (len (fst r) < M32 /\ Forall (fun f => Prec_field f /\ len (e_rec_field f) < M32) (fst r)) /\
  (len (snd r) < M32 /\ Forall (fun c => Prec_col c /\ len (e_rec_col c) < M32) (snd r)).

Lemma good_record : good e_record d_record Precord.
Proof.
  pose proof (good_pair _ _ _ _ _ _ (good_list 4 _ _ _ (good_sized _ _ _ good_rec_field))
                                      (good_list 4 _ _ _ (good_sized _ _ _ good_rec_col))) as G.
  rewrite pow256_4 in G. exact G.
Qed.

Lemma record_ok_P : forall r, record_ok r = true -> Precord r.
Proof.
  intros [fs cs] H. unfold record_ok in H. cbn [fst snd] in H.
  apply andb_true_iff in H. destruct H as [H H0]. apply andb_true_iff in H. destruct H as [H H1].
  apply andb_true_iff in H. destruct H as [H HC]. apply andb_true_iff in H. destruct H as [HA H2].
  unfold Precord. cbn [fst snd].
  apply forallb_Forall in H2. apply forallb_Forall in H0. apply forallb_Forall in H1.
  repeat split; try lia.
  - eapply Forall_impl; [|exact H2]. cbv beta. intros [n t] Hf. split; [exact Hf|].
    unfold e_rec_field, e_pair, put_bytes, e_zint. cbn [fst snd]. rewrite !len_app. unfold len. rewrite !be_length.
    unfold Prec_field, rec_field_ok, len in Hf. cbn [fst snd] in Hf. unfold M32. lia.
  - rewrite Forall_forall in *. intros c Hc. split; [apply H1; exact Hc|]. specialize (H0 c Hc). cbv beta in H0. lia.
Qed.

Theorem record_marshal_roundtrip : forall r rest, record_ok r = true -> d_record (e_record r ++ rest) = Some (r, rest).
Proof. intros r rest H. destruct good_record as [R _]. apply R. apply record_ok_P. exact H. Qed.

(* every strict prefix of a marshalled record is rejected by the model decoder *)
Theorem record_prefix_rejected : forall r k, record_ok r = true -> (k < length (e_record r))%nat ->
  d_record (firstn k (e_record r)) = None.
Proof. intros r k H Hk. destruct good_record as [_ Q]. apply Q; [apply record_ok_P; exact H|exact Hk]. Qed.
