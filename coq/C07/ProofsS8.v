(* C07 simple8b: packing round trip for every selector, any applicable selector sequence. *)
From Coq Require Import ZArith List Bool Lia ZifyBool ZifyNat.
From OG Require Import C07.Model C07.ProofsBase.
Import ListNotations.
Open Scope Z_scope.

Definition in_bits (bits : Z) (vs : list Z) : bool := forallb (fun v => (0 <=? v) && (v <? 2 ^ bits)) vs.

Lemma pack_bound : forall bits vs, 0 <= bits -> in_bits bits vs = true ->
  0 <= pack_vals bits vs < 2 ^ (bits * len vs).
Proof.
  intros bits vs Hb. induction vs as [|v vs IH]; intros H.
  - simpl. unfold len. simpl. rewrite Z.mul_0_r. simpl. lia.
  - simpl in H. apply andb_true_iff in H. destruct H as [Hv Hvs]. specialize (IH Hvs).
    cbn [pack_vals]. rewrite len_cons. replace (bits * (1 + len vs)) with (bits + bits * len vs) by lia.
    pose proof (len_nonneg vs).
    rewrite Z.pow_add_r by nia.
    assert (0 < 2 ^ bits) by (apply Z.pow_pos_nonneg; lia).
    nia.
Qed.

Lemma unpack_pack : forall bits vs, 0 <= bits -> in_bits bits vs = true ->
  unpack_vals (length vs) bits (pack_vals bits vs) = vs.
Proof.
  intros bits vs Hb. induction vs as [|v vs IH]; intros H; [reflexivity|].
  simpl in H. apply andb_true_iff in H. destruct H as [Hv Hvs].
  cbn [length unpack_vals pack_vals].
  assert (P : 0 < 2 ^ bits) by (apply Z.pow_pos_nonneg; lia).
  assert (E1 : (v + 2 ^ bits * pack_vals bits vs) mod 2 ^ bits = v).
  { rewrite Z.mul_comm, Z_mod_plus_full. apply Z.mod_small. lia. }
  assert (E2 : (v + 2 ^ bits * pack_vals bits vs) / 2 ^ bits = pack_vals bits vs).
  { rewrite Z.mul_comm, Z_div_plus_full by lia. rewrite Z.div_small by lia. lia. }
  rewrite E1, E2, IH by assumption. reflexivity.
Qed.

Lemma sel_cases : forall s, 0 <= s < 16 ->
  s = 0 \/ s = 1 \/ s = 2 \/ s = 3 \/ s = 4 \/ s = 5 \/ s = 6 \/ s = 7 \/ s = 8 \/ s = 9 \/ s = 10 \/ s = 11 \/
  s = 12 \/ s = 13 \/ s = 14 \/ s = 15.
Proof. intros. lia. Qed.

(* the table is well-formed: n values of `bits` bits fit below the selector nibble *)
Lemma table_fits : forall s, 2 <= s < 16 -> 0 < s8_bits s /\ s8_bits s * Z.of_nat (s8_n s) <= 60.
Proof.
  intros s H. destruct (sel_cases s ltac:(lia)) as [C|[C|C]]; [lia|lia|].
  repeat (destruct C as [C|C]; [subst s; vm_compute; split; [reflexivity | discriminate]|]).
  subst s; vm_compute; split; [reflexivity | discriminate].
Qed.

Lemma forallb_firstn {A} (f : A -> bool) : forall n l, forallb f l = true -> forallb f (firstn n l) = true.
Proof. induction n; destruct l; simpl; intros; auto. apply andb_true_iff in H. destruct H. rewrite H, IHn; auto. Qed.

Lemma s8_word_unpack : forall s vs, s8_fits s vs = true ->
  s8_unpack (s8_word s (firstn (s8_n s) vs)) = firstn (s8_n s) vs /\
  0 <= s8_word s (firstn (s8_n s) vs) < M64.
Proof.
  intros s vs H. unfold s8_fits in H.
  repeat (apply andb_true_iff in H; destruct H as [H ?]).
  assert (Hs : 0 <= s < 16) by lia.
  assert (L : length (firstn (s8_n s) vs) = s8_n s) by (apply firstn_length_le; lia).
  unfold s8_word, s8_unpack.
  destruct (Z.ltb_spec s 2) as [Hlt|Hge].
  - assert (E : s * M60 / M60 = s) by (apply Z.div_mul; unfold M60; lia).
    rewrite E. destruct (Z.ltb_spec s 2); [|lia]. split.
    + apply all_eq_repeat in H0. rewrite L in H0. symmetry. exact H0.
    + unfold M60, M64. lia.
  - destruct (table_fits s) as [Hb Hn]; [lia|].
    set (fv := firstn (s8_n s) vs) in *.
    assert (IB : in_bits (s8_bits s) fv = true) by exact H0.
    pose proof (pack_bound (s8_bits s) fv ltac:(lia) IB) as PB.
    assert (PB2 : 0 <= pack_vals (s8_bits s) fv < M60).
    { split; [lia|]. eapply Z.lt_le_trans. apply PB. unfold len. rewrite L.
      change M60 with (2 ^ 60). apply Z.pow_le_mono_r; lia. }
    assert (E1 : (s * M60 + pack_vals (s8_bits s) fv) / M60 = s).
    { rewrite Z.add_comm, Z_div_plus_full by (unfold M60; lia). rewrite Z.div_small by lia. lia. }
    assert (E2 : (s * M60 + pack_vals (s8_bits s) fv) mod M60 = pack_vals (s8_bits s) fv).
    { rewrite Z.add_comm, Z_mod_plus_full. apply Z.mod_small. lia. }
    rewrite E1, E2. destruct (Z.ltb_spec s 2); [lia|]. split.
    + rewrite <- L. apply unpack_pack; [lia|assumption].
    + unfold M60, M64 in *. lia.
Qed.

Theorem s8_roundtrip : forall sels vs, s8_applicable sels vs = true -> s8_decode (s8_encode sels vs) = vs.
Proof.
  induction sels as [|s sels IH]; intros vs H.
  - simpl in H. destruct vs; [reflexivity|discriminate].
  - cbn [s8_applicable] in H. apply andb_true_iff in H. destruct H as [Hf Hr].
    cbn [s8_encode]. unfold s8_decode in *. cbn [flat_map].
    destruct (s8_word_unpack s vs Hf) as [E _]. rewrite E, IH by assumption.
    apply firstn_skipn.
Qed.

Lemma s8_words_range : forall sels vs w, s8_applicable sels vs = true -> In w (s8_encode sels vs) -> 0 <= w < M64.
Proof.
  induction sels as [|s sels IH]; intros vs w H I; [contradiction|].
  cbn [s8_applicable] in H. apply andb_true_iff in H. destruct H as [Hf Hr].
  cbn [s8_encode] in I. destruct I as [I|I].
  - subst w. apply (s8_word_unpack s vs Hf).
  - eapply IH; eauto.
Qed.

Lemma s8_encode_length : forall sels vs, length (s8_encode sels vs) = length sels.
Proof. induction sels; simpl; intros; auto. Qed.

(* some selector sequence always exists when every value is below 2^60 (the fall-back selector 15) *)
Theorem s8_trivial_applicable : forall vs, forallb (fun v => (0 <=? v) && (v <? M60)) vs = true ->
  s8_applicable (s8_trivial_sels vs) vs = true.
Proof.
  induction vs as [|v vs IH]; intros H; [reflexivity|].
  simpl in H. apply andb_true_iff in H. destruct H as [Hv Hvs].
  unfold s8_trivial_sels in *. cbn [map s8_applicable].
  replace (s8_n 15) with 1%nat by reflexivity. cbn [skipn]. rewrite IH by assumption.
  unfold s8_fits. replace (s8_n 15) with 1%nat by reflexivity. replace (s8_bits 15) with 60 by reflexivity.
  cbn [firstn forallb length]. change (2 ^ 60) with M60. rewrite Hv. reflexivity.
Qed.
