(* C07 - the chunk meta as written under chunk-meta-compress-mode = self (engine/immutable/chunk_meta_codec.go
   MarshalChunkMeta / UnmarshalChunkMeta, lib/codec EncodeInt64sWithScale / DecodeInt64sWithScale):
     sid (8 bytes BE), uvarint offset, size, column count, segment count;
     the segment time ranges as ONE scaled delta list [min0; max0; min1; max1; ...]: scale index byte, then per value
       uvarint(uint64((v_i - v_(i-1)) / scale)) (wrapping int64 subtraction, truncating division; v_(-1) = 0);
     per column: uvarint index of the name in the file's dictionary (kept in the trailer), type byte, u8 length of the
       statistics block + the block, the offset of the FIRST segment (8 bytes BE) and the size of every segment (4 bytes BE
       each) - the reader rebuilds the other offsets by summing sizes.
   Writer's choices carried by the arguments: the scale index `k` and the dictionary index of every column. *)
From Coq Require Import ZArith List Bool.
From OG Require Import C07.Gen_Consts C07.Model C07.ModelRows C07.ModelFile C07.ModelPreAgg.
Import ListNotations.
Open Scope Z_scope.

(* ---- scaled delta list ---- *)
Definition delta64 (prev v : Z) : Z := (v - prev) mod M64.
Fixpoint scaled_deltas (k prev : Z) (vs : list Z) : list Z :=
  match vs with
  | [] => []
  | v :: r => put_uvarint (Z.quot (sgn64 (delta64 prev v)) (scale_at k) mod M64) ++ scaled_deltas k v r
  end.
Definition e_scaled_list (k : Z) (vs : list Z) : list Z := k :: scaled_deltas k 0 vs.
Fixpoint d_scaled_n (k : Z) (n : nat) (prev : Z) (bs : list Z) : option (list Z * list Z) :=
  match n with
  | O => Some ([], bs)
  | S m =>
      match get_uvarint bs with
      | Some (u, r) =>
          let v := (u * scale_at k + prev) mod M64 in
          match d_scaled_n k m v r with Some (l, r2) => Some (v :: l, r2) | None => None end
      | None => None
      end
  end.
Definition d_scaled_list (n : nat) : dec_t (list Z) := fun bs =>
  match bs with
  | [] => None
  | k :: r => if (k <? 0) || (n_scales <=? k) then None else d_scaled_n k n 0 r
  end.
(* the scale index may be used when the scale divides every (wrapped) delta exactly *)
Fixpoint deltas_ok (k prev : Z) (vs : list Z) : bool :=
  match vs with
  | [] => true
  | v :: r => word_ok v && scale_ok k (delta64 prev v) && deltas_ok k v r
  end.

Definition flat_ranges (trs : list cm_range) : list Z := flat_map (fun r => [fst r; snd r]) trs.
Fixpoint pair_up (vs : list Z) : list cm_range :=
  match vs with
  | a :: b :: r => (a, b) :: pair_up r
  | _ => []
  end.

(* ---- one column ---- *)
Definition zero_preagg : list Z := repeat 0 48.
Definition first_off (ents : list cm_seg) : Z := fst (hd (0, 0) ents).
Definition e_cmcol_self (idx : Z) (c : cm_col) : list Z :=
  let '(name, (ty, (pre, ents))) := c in
  put_uvarint idx ++ [ty] ++ [len pre] ++ pre ++ be 8 (first_off ents) ++ flat_map (fun e => be 4 (snd e)) ents.
Fixpoint sum_offsets (o : Z) (sizes : list Z) : list cm_seg :=
  match sizes with
  | [] => []
  | s :: r => (o, s) :: sum_offsets ((o + s) mod M64) r
  end.
Definition d_cmcol_self (dict : list (list Z)) (segs : nat) : dec_t cm_col := fun bs =>
  match get_uvarint bs with
  | Some (idx, r0) =>
      let name := nth (Z.to_nat idx) dict [] in
      match name with
      | [] => None                                            (* "invalid column name" *)
      | _ =>
        if len r0 <? 1 + 1 + 8 + 4 * Z.of_nat segs then None   (* "too smaller data" *)
        else
        match r0 with
        | ty :: n :: r1 =>
            if len r1 <? n then None else
            let pre := if n =? 0 then zero_preagg else firstn (Z.to_nat n) r1 in
            let r2 := skipn (Z.to_nat n) r1 in
            match get_be 8 r2 with
            | Some (o, r3) =>
                match get_n (get_be 4) segs r3 with
                | Some (sizes, r4) => Some ((name, (ty, (pre, sum_offsets o sizes))), r4)
                | None => None
                end
            | None => None
            end
        | _ => None
        end
      end
  | None => None
  end.
Fixpoint contiguous (o : Z) (ents : list cm_seg) : bool :=
  match ents with
  | [] => true
  | (o', s) :: r => (o' =? o) && contiguous ((o + s) mod M64) r
  end.
Definition cmcol_self_ok (dict : list (list Z)) (segs : nat) (idx : Z) (c : cm_col) : bool :=
  let '(name, (ty, (pre, ents))) := c in
  word_ok idx && list_eqb (nth (Z.to_nat idx) dict []) name && (0 <? len name) &&
  byte_ok ty && (0 <? len pre) && (len pre <? 256) && bytes_ok pre &&
  (length ents =? segs)%nat && (0 <? len ents) &&
  forallb (fun e => word_ok (fst e) && (0 <=? snd e) && (snd e <? M32)) ents && contiguous (first_off ents) ents.

(* ---- the chunk meta ---- *)
Fixpoint e_cols_self (idxs : list Z) (cols : list cm_col) : list Z :=
  match idxs, cols with
  | i :: ir, c :: cr => e_cmcol_self i c ++ e_cols_self ir cr
  | _, _ => []
  end.
Definition e_cm_self (k : Z) (idxs : list Z) (m : chunk_meta) : list Z :=
  let '(sid, (off, (size, (trs, cols)))) := m in
  be 8 sid ++ put_uvarint off ++ put_uvarint size ++ put_uvarint (len cols) ++ put_uvarint (len trs) ++
  e_scaled_list k (flat_ranges trs) ++ e_cols_self idxs cols.
Definition d_cm_self (dict : list (list Z)) : dec_t chunk_meta := fun bs =>
  match get_be 8 bs with
  | Some (sid, r1) =>
    match get_uvarint r1 with
    | Some (off, r2) =>
      match get_uvarint r2 with
      | Some (size, r3) =>
        match get_uvarint r3 with
        | Some (cc, r4) =>
          match get_uvarint r4 with
          | Some (sc, r5) =>
            let segs := Z.to_nat (sc mod M32) in
            match d_scaled_list (2 * segs) r5 with
            | Some (vs, r6) =>
              match get_n (d_cmcol_self dict segs) (Z.to_nat (cc mod M32)) r6 with
              | Some (cols, r7) => Some ((sid, (off, (size mod M32, (pair_up vs, cols)))), r7)
              | None => None
              end
            | None => None
            end
          | None => None
          end
        | None => None
        end
      | None => None
      end
    | None => None
    end
  | None => None
  end.
Fixpoint cols_self_ok (dict : list (list Z)) (segs : nat) (idxs : list Z) (cols : list cm_col) : bool :=
  match idxs, cols with
  | [], [] => true
  | i :: ir, c :: cr => cmcol_self_ok dict segs i c && cols_self_ok dict segs ir cr
  | _, _ => false
  end.
Definition cm_self_ok (dict : list (list Z)) (k : Z) (idxs : list Z) (m : chunk_meta) : bool :=
  let '(sid, (off, (size, (trs, cols)))) := m in
  w64 sid && w64 off && (0 <=? size) && (size <? M32) && (len cols <? M32) && (len trs <? M32) &&
  deltas_ok k 0 (flat_ranges trs) && cols_self_ok dict (length trs) idxs cols.
