(* C07 float container: round trip for every mode; the repaired adaptive encoder is total and exact. *)
From Coq Require Import ZArith List Bool Lia ZifyBool ZifyNat.
From OG Require Import C07.Model C07.ProofsBase.
Import ListNotations.
Open Scope Z_scope.

Lemma be2_shape : forall n, 0 <= n < 65536 -> exists h l, be 2 n = [h; l] /\ h * 256 + l = n /\ 0 <= h < 256 /\ 0 <= l < 256.
Proof.
  intros n H. exists (n / 256), (n mod 256). cbn [be]. tagsimp. rewrite Z.div_1_r.
  assert (0 <= n / 256 < 256) by (split; [apply Z.div_pos; lia | apply Z.div_lt_upper_bound; lia]).
  rewrite (Z.mod_small (n / 256)) by lia. pose proof (Z.div_mod n 256). pose proof (Z.mod_pos_bound n 256). repeat split; lia.
Qed.

Lemma all_eq_cons_repeat : forall v l, all_eq v l = true -> v :: l = repeat v (S (length l)).
Proof. intros. simpl. f_equal. apply all_eq_repeat. assumption. Qed.

Lemma repeat_snoc {A} : forall (x : A) n r, repeat x n ++ x :: r = repeat x (S n) ++ r.
Proof. induction n; simpl; intros; auto. f_equal. apply IHn. Qed.

Lemma firstn_repeat_app {A} : forall (x : A) n r, firstn n (repeat x n ++ r) = repeat x n.
Proof. intros. rewrite <- (repeat_length x n) at 1. rewrite firstn_app, Nat.sub_diag, firstn_all. simpl. apply app_nil_r. Qed.
Lemma skipn_repeat_app {A} : forall (x : A) n r, skipn n (repeat x n ++ r) = r.
Proof. intros. rewrite <- (repeat_length x n) at 1. rewrite skipn_app, Nat.sub_diag, skipn_all. reflexivity. Qed.

Lemma all_eq_repeat_true : forall v n, all_eq v (repeat v n) = true.
Proof. induction n; simpl; auto. rewrite Z.eqb_refl. auto. Qed.

(* ---------- RLE ---------- *)
Lemma rle_roundtrip : forall runs vs, words_ok vs = true -> rle_applicable runs vs = true -> rle_dec (rle_enc runs vs) = vs.
Proof.
  induction runs as [|n runs IH]; intros vs Hw H.
  - simpl in H. destruct vs; [reflexivity|discriminate].
  - cbn [rle_applicable] in H.
    repeat (apply andb_true_iff in H; destruct H as [H ?]).
    rename H0 into Hrest, H1 into Heq, H2 into Hlen, H3 into Hn.
    set (k := Z.to_nat n) in *.
    assert (Hk : (1 <= k)%nat) by lia.
    assert (E : firstn k vs = repeat (hd 0 vs) k).
    { apply all_eq_repeat in Heq. rewrite firstn_length_le in Heq by lia. exact Heq. }
    assert (Hw2 : words_ok (skipn k vs) = true).
    { unfold words_ok in *. rewrite <- (firstn_skipn k vs), forallb_app in Hw. apply andb_true_iff in Hw. tauto. }
    assert (Hv : 0 <= hd 0 vs < M64).
    { destruct vs as [|v r]; [simpl in Hlen; lia|]. eapply words_ok_In; [exact Hw|left; reflexivity]. }
    cbn [rle_enc]. fold k. set (v := hd 0 vs) in *.
    destruct (Z.eqb_spec v 0) as [Ez|Enz].
    + destruct (be2_shape (n + 32768)) as (h & l & EB & EV & _); [lia|]. rewrite EB. cbn [app rle_dec].
      rewrite EV. destruct (Z.leb_spec 32768 (n + 32768)); [|lia].
      replace (n + 32768 - 32768) with n by lia. fold k. rewrite IH by assumption.
      rewrite <- Ez, <- E. apply firstn_skipn.
    + destruct (be2_shape n) as (h & l & EB & EV & _); [lia|]. rewrite EB.
      destruct (le8_shape v) as (b0&b1&b2&b3&b4&b5&b6&b7&EL). rewrite EL. cbn [app rle_dec].
      rewrite EV. destruct (Z.leb_spec 32768 n); [lia|].
      rewrite <- EL. rewrite unle_le by (rewrite pow256_8; assumption). fold k.
      rewrite IH by assumption. rewrite <- E. apply firstn_skipn.
Qed.

(* the runs today's encoder produces (maximal runs, cut at 16384) are applicable *)
Lemma rle_greedy_applicable : forall vs prev k,
  (1 <= k)%nat -> Z.of_nat k <= 16384 ->
  rle_applicable (rle_greedy_runs 16384 prev (Z.of_nat k) vs) (repeat prev k ++ vs) = true.
Proof.
  induction vs as [|v r IH]; intros prev k Hk Hl.
  - cbn [rle_greedy_runs rle_applicable]. rewrite app_nil_r, Nat2Z.id.
    rewrite repeat_length, firstn_all2 by (rewrite repeat_length; lia).
    rewrite skipn_all2 by (rewrite repeat_length; lia).
    assert (hd 0 (repeat prev k) = prev) by (destruct k; [lia|reflexivity]). rewrite H.
    rewrite all_eq_repeat_true. lia.
  - cbn [rle_greedy_runs].
    destruct ((v =? prev) && (Z.of_nat k <? 16384)) eqn:C.
    + apply andb_true_iff in C. destruct C as [C1 C2]. apply Z.eqb_eq in C1. subst v.
      rewrite repeat_snoc. replace (Z.of_nat k + 1) with (Z.of_nat (S k)) by lia. apply IH; lia.
    + cbn [rle_applicable]. rewrite Nat2Z.id.
      rewrite firstn_repeat_app, skipn_repeat_app.
      assert (hd 0 (repeat prev k ++ v :: r) = prev) by (destruct k; [lia|reflexivity]). rewrite H.
      rewrite all_eq_repeat_true. rewrite app_length, repeat_length.
      change (v :: r) with (repeat v 1 ++ r). change 1 with (Z.of_nat 1). rewrite IH by lia. simpl length. lia.
Qed.

Lemma rle_runs_applicable : forall vs, rle_applicable (rle_runs_of vs) vs = true.
Proof.
  destruct vs as [|v r]; [reflexivity|]. unfold rle_runs_of.
  change (v :: r) with (repeat v 1 ++ r). change 1 with (Z.of_nat 1). apply rle_greedy_applicable; lia.
Qed.

Theorem float_none_always_applicable : forall gor_c vs, words_ok vs = true -> float_applicable gor_c FNone vs = true.
Proof. intros. unfold float_applicable. rewrite H. destruct vs; reflexivity. Qed.

Section FloatProof.
  Variable gsc : list Z -> list Z.
  Variable gsd : list Z -> option (list Z).
  Variable gor_c : list Z -> option (list Z).
  Variable gor_d : list Z -> option (list Z).
  Variable mlf_c : list Z -> list Z.
  Variable mlf_d : list Z -> option (list Z).
  Hypothesis snappy_roundtrip : forall x, bytes_ok x = true -> gsd (gsc x) = Some x.
  Hypothesis gorilla_roundtrip : forall vs g, words_ok vs = true -> gor_c vs = Some g -> gor_d g = Some vs.
  Hypothesis mlf_roundtrip : forall vs, words_ok vs = true -> mlf_d (mlf_c vs) = Some vs.

  Notation enc := (float_enc_with gsc gor_c mlf_c zero_repaired).
  Notation dec := (float_dec gsd gor_d mlf_d).

  Theorem float_container_roundtrip : forall m vs, float_applicable gor_c m vs = true -> dec (enc m vs) = Some vs.
  Proof.
    intros m vs H. unfold float_applicable in H. apply andb_true_iff in H. destruct H as [Hw Hm].
    destruct vs as [|v0 rest]; [reflexivity|].
    assert (Hv0 : 0 <= v0 < M64) by (eapply words_ok_In; [exact Hw|left; reflexivity]).
    destruct m as [| |runs| | |].
    - (* none *) unfold float_enc_with, float_dec. cbn [app]. tagsimp. 
      apply unle_all_le_bytes. exact Hw.
    - (* same value *)
      apply andb_true_iff in Hm. destruct Hm as [He Hl].
      pose proof (len_nonneg (v0 :: rest)).
      destruct (be2_shape (len (v0 :: rest))) as (h & l & EB & EV & _); [lia|].
      unfold float_enc_with, float_dec. rewrite EB. cbn [app].
      tagsimp. 
      rewrite (all_eq_cons_repeat v0 rest He).
      assert (EN : Z.to_nat (h * 256 + l) = S (length rest)) by (rewrite EV; unfold len; simpl length; lia).
      unfold zero_repaired. destruct (Z.eqb_spec v0 0) as [Ez|Enz].
      + cbn [app]. rewrite EN, Ez. reflexivity.
      + destruct (le8_shape v0) as (b0&b1&b2&b3&b4&b5&b6&b7&EL). rewrite EL. cbn [app].
        rewrite <- EL. rewrite unle_le by (rewrite pow256_8; assumption). rewrite EN. reflexivity.
    - (* RLE *) unfold float_enc_with, float_dec. cbn [app].
      tagsimp. 
      rewrite rle_roundtrip by assumption. reflexivity.
    - (* snappy *) unfold float_enc_with, float_dec. cbn [app].
      tagsimp. 
      rewrite snappy_roundtrip by apply le_bytes_ok_all. apply unle_all_le_bytes. exact Hw.
    - (* gorilla *) unfold float_enc_with, float_dec.
      destruct (gor_c (v0 :: rest)) as [g|] eqn:EG; [|discriminate]. cbn [app].
      tagsimp. 
      eapply gorilla_roundtrip; eauto.
    - (* MLF *) unfold float_enc_with, float_dec. cbn [app].
      tagsimp. 
      apply mlf_roundtrip. exact Hw.
  Qed.

  (* ---- the repaired adaptive encoder: total and exact for every column, whatever the sampling heuristic says and
          whether or not the gorilla encoder reports an error ---- *)
  Lemma distinct_ge_1 : forall vs prev, 1 <= distinct_count Z.eqb prev vs.
  Proof. induction vs; simpl; intros; [lia|]. specialize (IHvs a). destruct (a =? prev); lia. Qed.

  Lemma distinct_1_all_eq : forall vs prev, distinct_count Z.eqb prev vs = 1 -> all_eq prev vs = true.
  Proof.
    induction vs as [|v r IH]; simpl; intros prev H; [reflexivity|].
    pose proof (distinct_ge_1 r v). destruct (Z.eqb_spec v prev); [|lia].
    subst v. rewrite IH by lia. reflexivity.
  Qed.

  Variable prefer_snappy : list Z -> bool.
  Notation encode_repaired := (float_encode gsc gor_c mlf_c zero_repaired prefer_snappy Z.eqb true).

  Theorem float_encode_repaired_total : forall vs, words_ok vs = true -> len vs < 65536 ->
    exists bs, encode_repaired vs = Ok bs /\ dec bs = Some vs.
  Proof.
    intros vs Hw Hl.
    assert (RT : forall m, float_applicable gor_c m vs = true -> exists bs, Ok (enc m vs) = Ok bs /\ dec bs = Some vs).
    { intros m Hm. eexists. split; [reflexivity|]. apply float_container_roundtrip. exact Hm. }
    assert (HN : float_applicable gor_c FNone vs = true) by (apply float_none_always_applicable; exact Hw).
    destruct vs as [|v0 rest]; [exists []; split; reflexivity|].
    set (vs := v0 :: rest) in *.
    assert (EF : encode_repaired vs =
      if len vs <=? 4 then Ok (enc FNone vs)
      else let dc := distinct_count Z.eqb v0 rest in
           if dc =? 1 then Ok (enc FSame vs)
           else if dc <=? 8 then Ok (enc (FRLE (rle_runs_of vs)) vs)
           else let r := if prefer_snappy vs || existsb f_is_nan vs then Ok (enc FSnappy vs)
                         else match gor_c vs with Some g => Ok ([48] ++ g) | None => Ok (enc FNone vs) end in
                match r with
                | Ok out => if 8 * len vs * 90 / 100 <? len out then Ok (enc FNone vs) else Ok out
                | Panic => Panic
                end) by reflexivity.
    rewrite EF. clear EF. cbv zeta.
    destruct (len vs <=? 4); [apply RT; exact HN|].
    destruct (Z.eqb_spec (distinct_count Z.eqb v0 rest) 1) as [D1|D1].
    { apply RT. unfold float_applicable, vs. fold vs. rewrite Hw. rewrite distinct_1_all_eq by assumption. lia. }
    destruct (distinct_count Z.eqb v0 rest <=? 8).
    { apply RT. unfold float_applicable, vs. fold vs. rewrite Hw. apply rle_runs_applicable. }
    assert (FB : forall out, (exists bs, Ok out = Ok bs /\ dec bs = Some vs) ->
      exists bs, (if 8 * len vs * 90 / 100 <? len out then Ok (enc FNone vs) else Ok out) = Ok bs /\ dec bs = Some vs).
    { intros out Ho. destruct (8 * len vs * 90 / 100 <? len out); [apply RT; exact HN|exact Ho]. }
    destruct (prefer_snappy vs || existsb f_is_nan vs).
    { apply FB. apply RT. unfold float_applicable, vs. fold vs. rewrite Hw. reflexivity. }
    destruct (gor_c vs) as [g|] eqn:EG.
    - apply FB. eexists. split; [reflexivity|].
      assert (E : [48] ++ g = enc FGorilla vs) by (unfold float_enc_with, vs; fold vs; rewrite EG; reflexivity).
      rewrite E. apply float_container_roundtrip. unfold float_applicable, vs. fold vs. rewrite Hw, EG. reflexivity.
    - apply FB. apply RT. exact HN.
  Qed.
End FloatProof.
