(* C07: what today's code (the `_current` parameters of the model) violates. Witnesses closed by vm_compute. *)
From Coq Require Import ZArith List Bool.
From OG Require Import C07.Model C07.ModelRows C07.ModelPreAgg C07.ModelStats C07.ModelMerge C07.ProofsMerge C07.ProofsMerge2.
Import ListNotations.
Open Scope Z_scope.

Definition nz : Z := M63.                       (* the bit pattern of -0.0 *)
Definition no_c (x : list Z) : list Z := x.
Definition no_d (x : list Z) : option (list Z) := Some x.
Definition gor_fail (x : list Z) : option (list Z) := None.   (* a gorilla encoder that reports an error; it satisfies the
                                                                  round-trip hypothesis (which only speaks about successes) *)

(* C07-negzero-same: today's selection (float equality) puts a column of -0.0 in same-value mode and the zero test on
   the float drops the value: the block decodes to +0.0 *)
Theorem C07_negzero_same_refuted : exists vs bs,
  words_ok vs = true /\
  float_encode no_c gor_fail no_c zero_current (fun _ => false) f_eq false vs = Ok bs /\
  float_dec no_d no_d no_d bs <> Some vs /\ float_dec no_d no_d no_d bs = Some [0; 0; 0; 0; 0].
Proof.
  exists [nz; nz; nz; nz; nz], [64; 0; 5]. vm_compute. repeat split; congruence.
Qed.
Print Assumptions C07_negzero_same_refuted.

(* the same for the mode-level statement: same-value mode is "applicable" in today's sense but does not round-trip *)
Theorem C07_same_mode_current_refuted : exists vs,
  float_applicable_current gor_fail FSame vs = true /\
  float_dec no_d no_d no_d (float_enc_with no_c gor_fail no_c zero_current FSame vs) <> Some vs.
Proof. exists [0; nz; 0; nz; 0; 0]. vm_compute. split; congruence. Qed.

(* C07-gorilla-error-path: when the gorilla encoder reports an error (tsm1 does for a column whose sum is NaN, e.g.
   +Inf and -Inf present) today's encoder panics instead of falling back; encode_total fails for `_current` *)
Theorem C07_gorilla_error_refuted : exists vs,
  words_ok vs = true /\ (forall g, gor_fail vs = Some g -> no_d g = Some vs) /\
  float_encode no_c gor_fail no_c zero_current (fun _ => false) f_eq false vs = Panic.
Proof.
  exists [4562254508917369340; 4612811918334230528; 9218868437227405312; 18442240474082181120; 4562254508917369340;
          13837309855095848960; 9094988921128908188; 13837309855095848960; 4607182418800017408].
  split; [vm_compute; reflexivity|]. split; [intros g H; discriminate|]. vm_compute. reflexivity.
Qed.
Print Assumptions C07_gorilla_error_refuted.

(* C07-wal-header-only-tail: a record cut exactly after its 5-byte header is NOT recognised as incomplete by today's
   reader when the pooled buffer still holds a decodable payload of that length: the earlier record is delivered again *)
Theorem C07_wal_header_only_tail_refuted : exists typ p stale,
  frame_applicable no_c typ p = true /\
  frame_dec no_d (firstn 5 (frame_enc no_c typ p)) = None /\                       (* repaired reader: incomplete *)
  frame_dec_current no_d stale (firstn 5 (frame_enc no_c typ p)) = Some (typ, stale, []).   (* today: fabricated *)
Proof. exists 1, [7; 8; 9], [1; 2; 3]. vm_compute. repeat split. Qed.
Print Assumptions C07_wal_header_only_tail_refuted.

(* C07-preagg-vlc-zero-flag: under chunk-meta-compress-mode "self" today's float statistics writer drops min, max and sum
   (flag byte 0) when `maxV == 0 && minV == 0` on float64 - true for -0.0 as well, and whatever the sum is (NaN when the
   column also holds a NaN): the reader restores +0.0 for all three. Statistics of a column of -0.0 do not read back. *)
Theorem C07_preagg_vlc_zero_flag_refuted : exists s,
  stat_ok s = true /\ s_cnt s <> 1 /\
  fl_applicable_current (fl_layout_g fl_zero_current (fun n => n <? size_float) true s) s = true /\
  fl_dec (fl_marshal_current true s) = Some (mkStat 0 0 (s_minT s) (s_maxT s) 0 (s_cnt s), []) /\
  forall rest, fl_dec (fl_marshal_current true s) <> Some (s, rest).
Proof.
  exists (mkStat nz nz 1000 2000 0 2). vm_compute. repeat split; try congruence.
Qed.
Print Assumptions C07_preagg_vlc_zero_flag_refuted.

(* C07-preagg-sentinel-init: today's builders start from MaxInt64 / MinInt64 (+-MaxFloat64) with strict comparisons only:
   a column whose minimum IS MaxInt64 never records the time of that minimum; an all-+Inf float column keeps MaxFloat64
   as its minimum *)
Theorem C07_stats_sentinel_current_refuted :
  (exists segs, int_build false segs <> int_ref_stat (int_reference segs) /\
                s_minT (int_build false segs) = 0 /\ s_minT (int_ref_stat (int_reference segs)) = 10) /\
  (exists segs, let add := fun _ _ : Z => 0 in
                s_min (fl_build add false segs) = max_f64 /\ s_min (fl_ref_stat (fl_reference add segs)) = 9218868437227405312).
Proof.
  split.
  - exists [[(Some max_i64, 10); (Some max_i64, 20)]]. vm_compute. repeat split; congruence.
  - exists [[(Some 9218868437227405312, 10); (Some 9218868437227405312, 20)]]. vm_compute. split; reflexivity.
Qed.
Print Assumptions C07_stats_sentinel_current_refuted.

(* today's IntegerPreAgg.merge (min / max through float64) is not statistics of the union beyond 2^53: merging a block whose
   minimum is 2^53 + 1 stores 2^53, a value no row has. Not reachable through today's write path (integers are parsed
   through float64), therefore an observation and not a finding; props/C07/fix4.patch removes the detour. *)
Theorem C07_int_merge_via_f64_refuted : exists a b A B,
  Forall Wp A /\ Forall Wp B /\ is_stat_of a A /\ is_stat_of b B /\ ~ is_stat_of (int_merge via_f64 a b) (A ++ B).
Proof. exact int_merge_via_f64_refuted. Qed.
Print Assumptions C07_int_merge_via_f64_refuted.
