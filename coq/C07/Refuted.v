From Coq Require Import ZArith List Bool.
From OG Require Import C07.Model.
Import ListNotations.
Open Scope Z_scope.
