(* C07 correspondence evaluators, part 2 (statistics merges, meta-index entries, trailer extra data, whole-file framing). *)
From Coq Require Import ZArith List Bool.
From OG Require Import C07.Gen_Consts C07.Model C07.ModelRows C07.ModelFile C07.ModelPreAgg C07.ModelStats C07.ModelMerge C07.ModelCMSelf C07.ModelWhole C07.Corr.
Import ListNotations.
Open Scope Z_scope.

(* the real merge of two statistics blocks (hook VerifPreAggMerge) against the model, for ANY two blocks - also values
   beyond 2^53, where the float64 round trip of IntegerPreAgg.merge rounds: 2 the model's result differs *)
(* integers: 2 = differs from today's merge (min / max through float64), 4 = differs from a merge that hands the int64
   over as it is (what a repair of the float64 routing would do; the two agree whenever |min|, |max| <= 2^53) *)
Definition check_merge_int (a b got : stat) : Z :=
  (if stat_eqb (int_merge via_f64 a b) got then 0 else 2) + (if stat_eqb (int_merge (fun v => v) a b) got then 0 else 4).
Definition check_merge_float (a b got : stat) : Z :=
  if stat_eqb (no_sum (fl_merge (fun _ _ => 0) a b)) (no_sum got) then 0 else 2.

(* ---- the model READER run on the bytes of a real data file ----
   F = the whole file; tbl = (compressed chunk-meta block, what the third-party decoder returns for it) under the compressing
   modes; fixed = the 14 fixed trailer fields the real reader holds; expected series in file order:
   (sid, segment time ranges, columns in file order (data columns by name, time last): (kind, null pattern per segment
   (true = value present), statistics the real reader decoded)). kinds: 0 int, 1 float, 2 bool, 3 string, 4 time.
     1  read_file rejects the file                        2  trailer fields differ
     4  series ids / segment ranges / column count differ  8  a segment found through the chunk meta does not decode to the
    16  a statistics block does not decode to what the        expected null pattern
        real reader decoded                               32  a meta-index entry is not (first sid, count, hull) of its block *)
Definition tbl_dec (tbl : list (list Z * list Z)) (mode : Z) (x : list Z) : option (list Z) :=
  match find (fun p => list_eqb (fst p) x) tbl with Some p => Some (snd p) | None => None end.
Definition exp_col := (Z * (list (list bool) * stat))%type.
Definition exp_series := (Z * (list cm_range * list exp_col))%type.
Definition kind_ctype (k : Z) : ctype := if k =? 1 then CFloat else if k =? 2 then CBool else if k =? 3 then CString else CInt.
Fixpoint ranges_eqb (a b : list cm_range) : bool :=
  match a, b with
  | [], [] => true
  | x :: a', y :: b' => (fst x =? fst y) && (snd x =? snd y) && ranges_eqb a' b'
  | _, _ => false
  end.
Fixpoint segs_ok (F : list Z) (t : ctype) (ents : list cm_seg) (vs : list (list bool)) : bool :=
  match ents, vs with
  | [], [] => true
  | (o, sz) :: er, v :: vr =>
      match seg_dec t (len v) (slice o sz F) with
      | Some (v', _) => bools_eqb v' v && segs_ok F t er vr
      | None => false
      end
  | _, _ => false
  end.
Definition stats_ok (k : Z) (pre : list Z) (st : stat) : bool :=
  if k =? 0 then match pai_dec pre with Some (s, _) => stat_eqb s st | None => false end
  else if k =? 1 then match fl_dec pre with Some (s, _) => stat_eqb s st | None => false end
  else if k =? 2 then
    match bool_pa_dec pre with
    | Some (s, _) => stat_eqb (mkStat (bool_of_byte (s_min s)) (bool_of_byte (s_max s)) (s_minT s) (s_maxT s) 0 (s_cnt s)) st
    | None => false
    end
  else if k =? 3 then match str_pa_dec pre with Some (s, _) => s_cnt s =? s_cnt st | None => false end
  else match time_pa_dec pre with Some (s, _) => s_cnt s =? s_cnt st | None => false end.
Fixpoint cols_flags (F : list Z) (cols : list cm_col) (ecols : list exp_col) : Z :=
  match cols, ecols with
  | [], [] => 0
  | (_, (_, (pre, ents))) :: cr, (k, (vs, st)) :: er =>
      Z.lor (Z.lor (if segs_ok F (kind_ctype k) ents vs then 0 else 8) (if stats_ok k pre st then 0 else 16)) (cols_flags F cr er)
  | _, _ => 4
  end.
Fixpoint series_flags (F : list Z) (cms : list chunk_meta) (es : list exp_series) : Z :=
  match cms, es with
  | [], [] => 0
  | (sid, (_, (_, (trs, cols)))) :: cr, (esid, (etrs, ecols)) :: er =>
      Z.lor (Z.lor (if (sid =? esid) && ranges_eqb trs etrs then 0 else 4) (cols_flags F cols ecols)) (series_flags F cr er)
  | _, _ => 4
  end.
Definition cm_chunk_range (cm : chunk_meta) : rng :=
  let '(_, (_, (_, (trs, _)))) := cm in (sgn64 (fst (hd (0, 0) trs)), sgn64 (snd (last trs (0, 0)))).
Fixpoint mindex_flags (mis : list mindex) (blocks : list (list chunk_meta)) : Z :=
  match mis, blocks with
  | [], [] => 0
  | (id, (t0, (t1, (_, (cnt, _))))) :: mr, b :: br =>
      let '(n, (lo, hi)) := tr_fold (map cm_chunk_range b) in
      Z.lor (if (match b with (sid, _) :: _ => sid =? id | [] => false end) && (cnt =? len b) && (n =? len b) &&
                (sgn64 t0 =? lo) && (sgn64 t1 =? hi) then 0 else 32) (mindex_flags mr br)
  | _, _ => 32
  end.
Definition check_whole (F : list Z) (tbl : list (list Z * list Z)) (fixed : list Z) (es : list exp_series) : Z :=
  match read_file (tbl_dec tbl) F with
  | Some (t, mis, blocks) =>
      Z.lor (Z.lor (if list_eqb (fst t) fixed then 0 else 2) (series_flags F (concat blocks) es)) (mindex_flags mis blocks)
  | None => 1
  end.

(* stored statistics of a boolean column against the boolean builder model (start values 2 / -1, strict int8 comparisons,
   times by row) as the real reader reports them (min() / max() read "byte = 1"); 1 = differs *)
Definition check_stats_bool (self : bool) (segs : list (list srow)) (stored : stat) : Z :=
  let s := bool_build true segs in
  if stat_eqb (mkStat (bool_of_byte (s_min s)) (bool_of_byte (s_max s)) (s_minT s) (s_maxT s) 0 (s_cnt s)) stored then 0 else 15.

(* STREAMING compaction: the stored block of a column = the first source chunk's block with every further source chunk's
   block merged into it, each source block as its own file stores it (a single-row block keeps only (min, minTime): a
   single NaN leaves the start value there, which then takes part in the merge). Integers: today's float64-routed merge or
   the exact one. 15 = explained by neither / differs. *)
Definition fold_chunks (merge : stat -> stat -> stat) (blocks : list stat) (dflt : stat) : stat :=
  match blocks with [] => dflt | s :: r => fold_left merge r s end.
Definition check_stats_int_stream (self : bool) (chunks : list (list (list srow))) (stored : stat) : Z :=
  let blocks := map (fun segs => one_row_view (int_build true segs)) chunks in
  let ok (conv : Z -> Z) := stat_eqb (one_row_view (fold_chunks (int_merge conv) blocks (int_build true []))) stored in
  if ok via_f64 || ok (fun v => v) then 0 else 15.
Definition check_stats_float_stream (self : bool) (chunks : list (list (list srow))) (stored : stat) : Z :=
  let add := fun _ _ : Z => 0 in
  let blocks := map (fun segs => one_row_view (fl_build add true segs)) chunks in
  if stat_eqb (no_sum (one_row_view (fold_chunks (fl_merge add) blocks (fl_build add true [])))) (no_sum stored) then 0 else 15.
Definition check_stats_bool_stream (self : bool) (chunks : list (list (list srow))) (stored : stat) : Z :=
  let s := fold_chunks bool_merge (map (bool_build true) chunks) (bool_build true []) in
  if stat_eqb (mkStat (bool_of_byte (s_min s)) (bool_of_byte (s_max s)) (s_minT s) (s_maxT s) 0 (s_cnt s)) stored then 0 else 15.
