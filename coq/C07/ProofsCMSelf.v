(* C07: round trip of the chunk meta layout written under chunk-meta-compress-mode = self. *)
From Coq Require Import ZArith List Bool Lia ZifyBool ZifyNat.
From OG Require Import C07.Gen_Consts C07.Model C07.ModelRows C07.ModelFile C07.ModelPreAgg C07.ModelCMSelf
  C07.ProofsBase C07.ProofsRows C07.ProofsPreAgg.
Import ListNotations.
Open Scope Z_scope.

Lemma M64_pos : 0 < M64. Proof. reflexivity. Qed.

Lemma delta64_W : forall p v, W (delta64 p v).
Proof. intros. unfold delta64, W. apply Z.mod_pos_bound. exact M64_pos. Qed.

Lemma scaled_deltas_rt : forall k vs prev rest, deltas_ok k prev vs = true ->
  d_scaled_n k (length vs) prev (scaled_deltas k prev vs ++ rest) = Some (vs, rest).
Proof.
  induction vs as [|v r IH]; intros prev rest H; [reflexivity|].
  cbn [deltas_ok] in H. and3 H Hk Hr. rename H into Hv.
  cbn [length d_scaled_n scaled_deltas]. rewrite <- app_assoc.
  rewrite uvarint_roundtrip by (apply Z.mod_pos_bound; exact M64_pos).
  assert (E : (Z.quot (sgn64 (delta64 prev v)) (scale_at k) mod M64 * scale_at k + prev) mod M64 = v).
  { unfold scale_ok in Hk. and4 Hk K1 K2 K3.
    rewrite <- Z.add_mod_idemp_l by (unfold M64; lia).
    rewrite Z.mul_mod_idemp_l by (unfold M64; lia).
    assert (Q : sgn64 (delta64 prev v) = scale_at k * Z.quot (sgn64 (delta64 prev v)) (scale_at k)).
    { pose proof (Z.quot_rem' (sgn64 (delta64 prev v)) (scale_at k)) as Q. apply Z.eqb_eq in K3. rewrite K3 in Q. lia. }
    rewrite Z.mul_comm, <- Q. rewrite sgn64_mod by apply delta64_W.
    unfold delta64. rewrite Z.add_mod_idemp_l by (unfold M64; lia).
    replace (v - prev + prev) with v by lia. apply Z.mod_small. apply word_ok_W. exact Hv. }
  rewrite E. rewrite IH by exact Hr. reflexivity.
Qed.

Lemma scaled_list_rt : forall k vs rest, deltas_ok k 0 vs = true -> (0 <=? k) && (k <? n_scales) = true ->
  d_scaled_list (length vs) (e_scaled_list k vs ++ rest) = Some (vs, rest).
Proof.
  intros k vs rest H K. unfold d_scaled_list, e_scaled_list. cbn [app].
  destruct (Z.ltb_spec k 0); [lia|]. destruct (Z.leb_spec n_scales k); [lia|]. cbn [orb].
  apply scaled_deltas_rt. exact H.
Qed.

Lemma pair_up_flat : forall trs, pair_up (flat_ranges trs) = trs.
Proof. induction trs as [|[a b] r IH]; [reflexivity|]. cbn. f_equal. exact IH. Qed.
Lemma flat_ranges_length : forall trs, length (flat_ranges trs) = (2 * length trs)%nat.
Proof. induction trs as [|[a b] r IH]; [reflexivity|]. cbn [flat_ranges flat_map app length] in *. unfold flat_ranges in IH. lia. Qed.

Lemma sum_offsets_contig : forall ents o, contiguous o ents = true -> sum_offsets o (map snd ents) = ents.
Proof.
  induction ents as [|[o' s] r IH]; intros o H; [reflexivity|].
  cbn [contiguous] in H. and2 H Hr. apply Z.eqb_eq in H. subst o'.
  cbn [map snd sum_offsets]. f_equal. apply IH. exact Hr.
Qed.

Lemma sizes_rt : forall (ents : list cm_seg) rest, Forall (fun e => 0 <= snd e < M32) ents ->
  get_n (get_be 4) (length ents) (flat_map (fun e => be 4 (snd e)) ents ++ rest) = Some (map snd ents, rest).
Proof.
  induction ents as [|e r IH]; intros rest F; [reflexivity|]. inversion F; subst.
  cbn [length get_n flat_map map]. rewrite <- app_assoc.
  rewrite get_be_app by (rewrite pow256_4; assumption). rewrite IH by assumption. reflexivity.
Qed.

Lemma len_sizes : forall (ents : list cm_seg), len (flat_map (fun e => be 4 (snd e)) ents) = 4 * len ents.
Proof.
  induction ents as [|e r IH]; [reflexivity|]. cbn [flat_map]. rewrite len_app, IH, len_cons. unfold len. rewrite be_length. lia.
Qed.

Lemma cmcol_self_rt : forall dict segs idx c rest, cmcol_self_ok dict segs idx c = true ->
  d_cmcol_self dict segs (e_cmcol_self idx c ++ rest) = Some (c, rest).
Proof.
  intros dict segs idx [name [ty [pre ents]]] rest H. unfold cmcol_self_ok in H.
  apply andb_true_iff in H. destruct H as [H Hcontig].
  apply andb_true_iff in H. destruct H as [H Hents].
  apply andb_true_iff in H. destruct H as [H Hne].
  apply andb_true_iff in H. destruct H as [H Hlen].
  apply andb_true_iff in H. destruct H as [H Hpb].
  apply andb_true_iff in H. destruct H as [H Hp2].
  apply andb_true_iff in H. destruct H as [H Hp1].
  apply andb_true_iff in H. destruct H as [H Hty].
  apply andb_true_iff in H. destruct H as [H Hn0].
  apply andb_true_iff in H. destruct H as [Hidx Hname].
  apply list_eqb_eq in Hname. apply Nat.eqb_eq in Hlen.
  unfold d_cmcol_self, e_cmcol_self. rewrite <- !app_assoc.
  rewrite uvarint_roundtrip by (apply word_ok_W; exact Hidx).
  rewrite Hname. destruct name as [|n0 nm]; [cbn in Hn0; lia|].
  cbn [app].
  match goal with |- context [len ?x <? _] => assert (L : 1 + 1 + 8 + 4 * Z.of_nat segs <= len x) end.
  { rewrite !len_cons, !len_app, len_sizes. unfold len at 2. rewrite be_length. pose proof (len_nonneg rest). pose proof (len_nonneg pre).
    unfold len at 2. rewrite Hlen. lia. }
  match goal with |- context [len ?x <? ?y] => destruct (Z.ltb_spec (len x) y); [lia|] end.
  match goal with |- context [len ?x <? len pre] => assert (L2 : len pre <= len x) end.
  { rewrite len_app. pose proof (len_nonneg (be 8 (first_off ents) ++ flat_map (fun e : Z * Z => be 4 (snd e)) ents ++ rest)). lia. }
  match goal with |- context [len ?x <? len pre] => destruct (Z.ltb_spec (len x) (len pre)); [lia|] end.
  destruct (Z.eqb_spec (len pre) 0); [lia|].
  rewrite firstn_len_app, skipn_len_app by reflexivity.
  rewrite get_be_app by (rewrite pow256_8; destruct ents as [|[o s] r]; [cbn in Hne; lia|];
                         cbn [forallb first_off hd fst] in *; unfold word_ok in Hents; lia).
  rewrite <- Hlen. rewrite sizes_rt.
  - rewrite sum_offsets_contig by exact Hcontig. reflexivity.
  - apply forallb_Forall in Hents. eapply Forall_impl; [|exact Hents]. cbv beta. intros. lia.
Qed.

Lemma cols_self_rt : forall dict segs idxs cols rest, cols_self_ok dict segs idxs cols = true ->
  get_n (d_cmcol_self dict segs) (length cols) (e_cols_self idxs cols ++ rest) = Some (cols, rest).
Proof.
  induction idxs as [|i ir IH]; intros [|c cr] rest H; try discriminate; [reflexivity|].
  cbn [cols_self_ok] in H. and2 H Hr. cbn [length get_n e_cols_self]. rewrite <- app_assoc.
  rewrite cmcol_self_rt by exact H. rewrite IH by exact Hr. reflexivity.
Qed.

Theorem cm_self_roundtrip : forall dict k idxs m rest, cm_self_ok dict k idxs m = true ->
  (0 <=? k) && (k <? n_scales) = true ->
  d_cm_self dict (e_cm_self k idxs m ++ rest) = Some (m, rest).
Proof.
  intros dict k idxs [sid [off [size [trs cols]]]] rest H K. unfold cm_self_ok in H.
  apply andb_true_iff in H. destruct H as [H Hcols].
  apply andb_true_iff in H. destruct H as [H Hd].
  unfold w64 in H.
  unfold e_cm_self, d_cm_self. rewrite <- !app_assoc.
  pose proof (len_nonneg cols) as LC. pose proof (len_nonneg trs) as LT.
  assert (M : M32 < M64) by reflexivity.
  rewrite get_be_app by (rewrite pow256_8; lia).
  rewrite !uvarint_roundtrip by lia.
  rewrite (Z.mod_small (len trs)) by lia. rewrite (Z.mod_small (len cols)) by lia. rewrite (Z.mod_small size) by lia.
  replace (Z.to_nat (len trs)) with (length trs) by (unfold len; rewrite Nat2Z.id; reflexivity).
  replace (Z.to_nat (len cols)) with (length cols) by (unfold len; rewrite Nat2Z.id; reflexivity).
  rewrite <- flat_ranges_length. rewrite scaled_list_rt by assumption.
  rewrite cols_self_rt by exact Hcols. rewrite pair_up_flat. reflexivity.
Qed.
