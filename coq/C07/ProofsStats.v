(* C07: the repaired statistics builders compute exactly the reference (first occurrence of the strict minimum / maximum,
   sum, count) for every column, every null pattern and every cut into segments. *)
From Coq Require Import ZArith List Bool Lia ZifyBool ZifyNat.
From OG Require Import C07.Model C07.ModelRows C07.ModelPreAgg C07.ModelStats C07.ProofsBase.
Import ListNotations.
Open Scope Z_scope.

Section BuilderProof.
  Variable lt : Z -> Z -> bool.
  Variable usable : Z -> bool.
  Variable add : Z -> Z -> Z.
  Variable start_min start_max : Z.
  Hypothesis lt_irrefl : forall x, lt x x = false.
  Hypothesis start_order : lt start_max start_min = true.
  Hypothesis unusable_l : forall v x, usable v = false -> lt v x = false.
  Hypothesis unusable_r : forall v x, usable v = false -> lt x v = false.

  Notation refst := (option (Z * Z) * option (Z * Z) * Z * Z)%type.

  (* both extremes unset, or both set with max not below min *)
  Definition consistent (mn mx : option (Z * Z)) : Prop :=
    (mn = None /\ mx = None) \/ (exists a ta b tb, mn = Some (a, ta) /\ mx = Some (b, tb) /\ lt b a = false).

  (* builder state (count field c0 not yet updated, n values seen in this segment) vs reference state *)
  Definition rel (fresh : bool) (s : stat) (n : Z) (c0 : Z) (r : refst) : Prop :=
    let '(mn, mx, sm, k) := r in
    consistent mn mx /\ s_cnt s = c0 /\ k = c0 + n /\ s_sum s = sm /\
    s_min s = (match mn with Some (v, _) => v | None => start_min end) /\
    s_max s = (match mx with Some (v, _) => v | None => start_max end) /\
    s_minT s = (match mn with Some (_, t) => t | None => 0 end) /\
    s_maxT s = (match mx with Some (_, t) => t | None => 0 end) /\
    (fresh = true -> mn = None) /\ (mn = None -> fresh = true).

  Lemma loop_rel : forall rows fresh s n c0 mn mx sm k,
    rel fresh s n c0 (mn, mx, sm, k) ->
    exists fresh', let '(s', n') := seg_loop lt usable add fresh s n rows in
                   rel fresh' s' n' c0 (ref_loop lt usable add mn mx sm k rows).
  Proof.
    induction rows as [|[[v|] t] rows IH]; intros fresh s n c0 mn mx sm k R.
    - exists fresh. exact R.
    - cbn [seg_loop ref_loop].
      destruct R as (C & Hc & Hk & Hs & Hmn & Hmx & Htn & Htx & F1 & F2).
      destruct (usable v) eqn:U.
      + (* a value that may initialise *)
        destruct fresh.
        * cbn [andb]. specialize (F1 eq_refl). subst mn.
          assert (mx = None) by (destruct C as [[_ E]|(a & ta & b & tb & E & _)]; [exact E|discriminate]). subst mx.
          apply IH. cbn [ref_step]. rewrite U. unfold rel.
          unfold cmp_step. cbn [s_min s_max set_min set_max s_minT s_maxT s_sum s_cnt set_sum].
          rewrite lt_irrefl. cbn [s_min s_max set_min set_max s_minT s_maxT s_sum s_cnt set_sum]. rewrite lt_irrefl.
          cbn [s_min s_max set_min set_max s_minT s_maxT s_sum s_cnt set_sum].
          repeat split; try assumption; try lia; try congruence.
          right. exists v, t, v, t. repeat split. apply lt_irrefl.
        * cbn [andb].
          assert (NN : mn <> None) by (intros E; specialize (F2 E); discriminate).
          destruct C as [[E _]|(a & ta & b & tb & -> & -> & Hba)]; [contradiction|].
          apply IH. cbn [ref_step]. unfold rel. unfold cmp_step.
          cbn [s_min s_max s_minT s_maxT] in *.
          destruct (lt v (s_min s)) eqn:L1; rewrite Hmn in L1; rewrite L1.
          -- cbn [s_min s_max set_min set_max s_minT s_maxT s_sum s_cnt set_sum]. rewrite Hmx.
             destruct (lt b v) eqn:L2; cbn [s_min s_max set_min set_max s_minT s_maxT s_sum s_cnt set_sum];
               (split; [right; do 4 eexists; repeat split; first [apply lt_irrefl | assumption]|]);
               repeat split; try assumption; try lia; try congruence; try (rewrite Hs; reflexivity); try discriminate.
          -- rewrite Hmx.
             destruct (lt b v) eqn:L2; cbn [s_min s_max set_min set_max s_minT s_maxT s_sum s_cnt set_sum];
               (split; [right; do 4 eexists; repeat split; first [apply lt_irrefl | assumption]|]);
               repeat split; try assumption; try lia; try congruence; try (rewrite Hs; reflexivity); try discriminate.
      + (* a value that never compares (NaN): only the sum and the count move *)
        rewrite andb_false_r.
        apply IH. unfold rel, cmp_step.
        rewrite (unusable_l v _ U). rewrite (unusable_r v _ U).
        cbn [s_min s_max set_min set_max s_minT s_maxT s_sum s_cnt set_sum].
        assert (E1 : ref_step usable mn lt v t = mn).
        { unfold ref_step. destruct mn as [[m tm]|]; [rewrite (unusable_l v m U)|rewrite U]; reflexivity. }
        assert (E2 : ref_step usable mx (fun a b => lt b a) v t = mx).
        { unfold ref_step. destruct mx as [[m tm]|]; [rewrite (unusable_r v m U)|rewrite U]; reflexivity. }
        rewrite E1, E2. repeat split; try assumption; try lia. rewrite Hs. reflexivity.
    - cbn [seg_loop ref_loop]. apply IH. exact R.
  Qed.

  (* between segments: the count field is up to date and the state says whether anything has been recorded *)
  Definition rel_seg (s : stat) (r : refst) : Prop := s = ref_stat start_min start_max r /\ consistent (fst (fst (fst r))) (snd (fst (fst r))).

  Lemma fresh_iff : forall mn mx sm k, consistent mn mx ->
    ((s_min (ref_stat start_min start_max (mn, mx, sm, k)) =? start_min) &&
     (s_max (ref_stat start_min start_max (mn, mx, sm, k)) =? start_max) = true) <-> mn = None.
  Proof.
    intros mn mx sm k C. cbn [ref_stat s_min s_max]. split.
    - intros H. destruct C as [[E _]|(a & ta & b & tb & -> & -> & Hba)]; [exact E|].
      apply andb_true_iff in H. destruct H as [H1 H2]. apply Z.eqb_eq in H1. apply Z.eqb_eq in H2. subst a b.
      rewrite start_order in Hba. discriminate.
    - intros ->. destruct C as [[_ ->]|(a & ta & b & tb & E & _)]; [|discriminate]. rewrite !Z.eqb_refl. reflexivity.
  Qed.

  Lemma add_values_rel : forall rows s mn mx sm k, rel_seg s (mn, mx, sm, k) ->
    rel_seg (add_values lt usable add start_min start_max true s rows) (ref_loop lt usable add mn mx sm k rows).
  Proof.
    intros rows s mn mx sm k [E C]. cbn [fst snd] in C. unfold add_values. cbn [andb].
    set (fresh := (s_min s =? start_min) && (s_max s =? start_max)).
    assert (FI : fresh = true <-> mn = None) by (unfold fresh; rewrite E; apply fresh_iff; exact C).
    assert (R : rel fresh s 0 k (mn, mx, sm, k)).
    { unfold rel. rewrite E. cbn [ref_stat s_min s_max s_minT s_maxT s_sum s_cnt].
      repeat split; try reflexivity; try lia; try exact C; try apply FI.
    }
    destruct (loop_rel rows fresh s 0 k mn mx sm k R) as [fresh' L].
    destruct (seg_loop lt usable add fresh s 0 rows) as [s' n'].
    destruct (ref_loop lt usable add mn mx sm k rows) as [[[mn' mx'] sm'] k'].
    destruct L as (C' & Hc & Hk & Hs & Hmn & Hmx & Htn & Htx & _).
    split; [|exact C'].
    unfold add_cnt, ref_stat. destruct s'; cbn in *. subst. f_equal. 
  Qed.

  Theorem build_repaired_is_reference : forall segs,
    build lt usable add start_min start_max true segs = ref_stat start_min start_max (reference lt usable add segs).
  Proof.
    intros segs. unfold build, reference.
    assert (G : forall segs s mn mx sm k, rel_seg s (mn, mx, sm, k) ->
              rel_seg (fold_left (add_values lt usable add start_min start_max true) segs s)
                      (ref_loop lt usable add mn mx sm k (concat segs))).
    { induction segs0 as [|rows r IH]; intros s mn mx sm k R; [exact R|].
      cbn [fold_left concat].
      assert (RL : forall a b mn mx sm k, ref_loop lt usable add mn mx sm k (a ++ b) =
                    let '(mn', mx', sm', k') := ref_loop lt usable add mn mx sm k a in ref_loop lt usable add mn' mx' sm' k' b).
      { clear. induction a as [|[[v|] t] a IHa]; intros; cbn [app ref_loop].
        - destruct (ref_loop lt usable add mn mx sm k []) as [[[? ?] ?] ?] eqn:E. cbn in E. inversion E; subst. reflexivity.
        - apply IHa.
        - apply IHa. }
      rewrite RL. pose proof (add_values_rel rows s mn mx sm k R) as A.
      destruct (ref_loop lt usable add mn mx sm k rows) as [[[mn' mx'] sm'] k']. apply IH. exact A. }
    specialize (G segs (start_stat start_min start_max) None None 0 0).
    destruct G as [E _]; [|exact E].
    split; [reflexivity|]. left. split; reflexivity.
  Qed.
End BuilderProof.

(* ---- instances ---- *)
Lemma ilt_irrefl : forall x, ilt x x = false.
Proof. intros. unfold ilt. apply Z.ltb_irrefl. Qed.

Theorem stats_int_repaired : forall segs, int_build true segs = int_ref_stat (int_reference segs).
Proof.
  intros. unfold int_build, int_ref_stat, int_reference. apply build_repaired_is_reference.
  - exact ilt_irrefl.
  - reflexivity.
  - intros v x H. discriminate.
  - intros v x H. discriminate.
Qed.

Lemma flt_irrefl : forall x, flt x x = false.
Proof. intros. unfold flt. rewrite Z.ltb_irrefl, !andb_false_r. reflexivity. Qed.

Theorem stats_float_repaired : forall fadd segs, fl_build fadd true segs = fl_ref_stat (fl_reference fadd segs).
Proof.
  intros. unfold fl_build, fl_ref_stat, fl_reference. apply build_repaired_is_reference.
  - exact flt_irrefl.
  - reflexivity.
  - intros v x H. unfold flt. apply negb_false_iff in H. rewrite H. reflexivity.
  - intros v x H. unfold flt. apply negb_false_iff in H. rewrite H. cbn [negb]. rewrite andb_false_r. reflexivity.
Qed.

(* the integer reference really is "the minimum and the time of its first occurrence": the recorded minimum is a lower
   bound of every non-null value, it is the value of some row carrying the recorded time, and no EARLIER row has it *)
Fixpoint values_of (rows : list srow) : list (Z * Z) :=
  match rows with
  | [] => []
  | (None, _) :: r => values_of r
  | (Some v, t) :: r => (v, t) :: values_of r
  end.
Fixpoint ref_min (acc : option (Z * Z)) (l : list (Z * Z)) : option (Z * Z) :=
  match l with
  | [] => acc
  | (v, t) :: r => ref_min (match acc with None => Some (v, t) | Some (m, tm) => if ilt v m then Some (v, t) else Some (m, tm) end) r
  end.
Lemma int_reference_min : forall rows mn mx sm n,
  fst (fst (fst (ref_loop ilt (fun _ => true) iadd mn mx sm n rows))) = ref_min mn (values_of rows).
Proof.
  induction rows as [|[[v|] t] r IH]; intros; cbn [ref_loop values_of ref_min]; [reflexivity| |apply IH].
  rewrite IH. unfold ref_step. destruct mn as [[m tm]|]; reflexivity.
Qed.

Lemma ref_min_lower : forall l acc m tm, ref_min acc l = Some (m, tm) ->
  (forall a ta, acc = Some (a, ta) -> sgn64 m <= sgn64 a) /\
  (forall v t, In (v, t) l -> sgn64 m <= sgn64 v) /\
  (acc = Some (m, tm) \/ In (m, tm) l).
Proof.
  induction l as [|[v t] r IH]; intros acc m tm H; cbn [ref_min] in H.
  - subst acc. split; [intros a ta E; inversion E; lia|]. split; [intros v t []|left; reflexivity].
  - destruct (IH _ _ _ H) as (A & B & C). clear IH H.
    destruct acc as [[a ta]|].
    + unfold ilt in *. destruct (Z.ltb_spec (sgn64 v) (sgn64 a)) as [L|L].
      * specialize (A v t eq_refl).
        split; [intros a' ta' E; inversion E; subst; lia|].
        split; [intros v' t' [E|I]; [inversion E; subst; lia|apply (B v' t' I)]|].
        right. destruct C as [E|I]; [inversion E; subst; left; reflexivity|right; exact I].
      * specialize (A a ta eq_refl).
        split; [intros a' ta' E; inversion E; subst; lia|].
        split; [intros v' t' [E|I]; [inversion E; subst; lia|apply (B v' t' I)]|].
        destruct C as [E|I]; [left; exact E|right; right; exact I].
    + specialize (A v t eq_refl).
      split; [intros a' ta' E; discriminate|].
      split; [intros v' t' [E|I]; [inversion E; subst; lia|apply (B v' t' I)]|].
      right. destruct C as [E|I]; [inversion E; subst; left; reflexivity|right; exact I].
Qed.

(* the minimum the repaired integer builder stores is a lower bound (as int64) of every non-null value of the column and is
   the value of one of its rows, stored with that row's time *)
Theorem stats_int_min_is_min : forall segs m tm,
  fst (fst (fst (int_reference segs))) = Some (m, tm) ->
  (forall v t, In (Some v, t) (concat segs) -> sgn64 m <= sgn64 v) /\ In (Some m, tm) (concat segs).
Proof.
  intros segs m tm H. unfold int_reference, reference in H. rewrite int_reference_min in H.
  destruct (ref_min_lower _ _ _ _ H) as (_ & B & C).
  assert (V : forall rows v t, In (v, t) (values_of rows) <-> In (Some v, t) rows).
  { induction rows as [|[[x|] tx] r IH]; intros v t; cbn [values_of].
    - split; intros [].
    - split; intros [E|I]; [inversion E; left; reflexivity|right; apply IH; exact I|inversion E; left; reflexivity|right; apply IH; exact I].
    - split; [intros I; right; apply IH; exact I|intros [E|I]; [discriminate|apply IH; exact I]]. }
  split.
  - intros v t I. apply (B v t). apply V. exact I.
  - destruct C as [E|I]; [discriminate|]. apply V. exact I.
Qed.
