(* C07: the segment layer inside the whole file - every column segment written into the data area of a file laid out by
   `file_bytes` is found at the (offset, size) the writer's layout gives it and decodes to its null pattern and block. *)
From Coq Require Import ZArith List Bool Lia ZifyBool ZifyNat.
From OG Require Import C07.Gen_Consts C07.Model C07.ModelRows C07.ModelFile C07.ModelPreAgg C07.ModelCMSelf C07.ModelWhole
  C07.ProofsBase C07.ProofsRows C07.ProofsFile C07.ProofsSeg C07.ProofsWhole.
Import ListNotations.
Open Scope Z_scope.

Theorem whole_file_segments : forall (bcomp : Z -> list Z -> list Z) mode H preD pieces postD blks B I t,
  let D := preD ++ concat (map piece_bytes pieces) ++ postD in
  Forall2 (fun p e =>
             match p with
             | PSeg ty m block rows =>
                 seg_applicable m rows = true ->
                 seg_dec ty (len rows) (slice (fst e) (snd e) (file_bytes bcomp mode H D blks B I t))
                 = Some (validity rows, seg_payload m block rows)
             | PRaw _ => True
             end)
          pieces (lay (len H + len preD) (map piece_bytes pieces)).
Proof.
  intros bcomp mode H preD pieces postD blks B I t D.
  set (rest := concat (map (blk_bytes bcomp mode) blks) ++ flat_map e_mindex (map snd blks) ++ B ++ I).
  assert (E : file_bytes bcomp mode H D blks B I t =
              (H ++ preD) ++ concat (map piece_bytes pieces) ++
              (postD ++ rest ++ e_trailer t ++ e_zint (len (file_body bcomp mode H D blks B I)))).
  { unfold file_bytes, file_body, D. fold rest. rewrite <- !app_assoc. reflexivity. }
  rewrite E. replace (len H + len preD) with (len (H ++ preD)) by (rewrite len_app; reflexivity).
  apply file_roundtrip.
Qed.
