(* C01 proofs, file level: the epoch-tagged log layout with marker-first removal (ModelF.v) refines the history machine; at
   every reachable state - any interleaving of marker creations, file creations, appends, size rotations, switches, commits,
   marker removals, orphan removals, upgrade steps and crashes - a restart that lists the directory in any order recovers
   exactly the last-write-wins state of the acknowledged writes. *)
From Coq Require Import NArith ZArith List Bool Arith Lia Permutation Sorted.
From OG Require Import C01.Model C01.Proofs C01.Proofs2 C01.Proofs4 C01.ModelF.
Import ListNotations.

Definition idlt (a b : lentry) : Prop := le_id a < le_id b.
Definition lay (e : lentry) (ep : list batch) : Prop := le_live e = true /\ replay_entry e = ep.
Definition lay_open (n : nat) (e : lentry) (ep : list batch) : Prop :=
  le_marker e = true /\ length (le_parts e) = n /\ pconcat e = distribute n 0 ep (repeat [] n).
Definition cure_list (st : fstate) : list lentry := match f_cure st with Some e => [e] | None => [] end.

Record finv (n : nat) (st : fstate) : Prop := mkfinv {
  fi_w : winv (f_g st);
  fi_closed : Forall2 lay (f_closed st) (skipn (nj (f_g st)) (closed (f_g st)));
  fi_cure : match f_cure st with
            | Some e => lay_open n e (opn (f_g st)) /\ le_id e = f_cur st /\ f_ctr st = length (opn (f_g st))
            | None => opn (f_g st) = [] /\ f_ctr st = 0
            end;
  fi_orph : Forall (fun e => le_live e = false) (f_orph st);
  fi_sorted : StronglySorted idlt (f_closed st);
  fi_ids : Forall (fun i => i < f_cur st) (map le_id (f_orph st ++ f_closed st));
  fi_nodup : NoDup (map le_id (f_orph st ++ f_closed st))
}.

(* ---------- small list facts ---------- *)
Lemma map_rep {A B} (f : A -> B) x n : map f (repeat x n) = repeat (f x) n.
Proof. induction n; cbn; [reflexivity | rewrite IHn; reflexivity]. Qed.

Lemma upd_length {A} i (f : A -> A) l : length (upd i f l) = length l.
Proof. revert i. induction l as [|x r IH]; intro i; destruct i; cbn; auto. Qed.

Lemma map_upd_same {A B} (g : A -> B) i (f : A -> A) l : (forall x, g (f x) = g x) -> map g (upd i f l) = map g l.
Proof. intro H. revert i. induction l as [|x r IH]; intro i; destruct i; cbn; try reflexivity; [rewrite H | rewrite IH]; reflexivity. Qed.

Lemma map_upd_app_at (b : batch) i (f : list (list batch) -> list (list batch)) l :
  (forall c, concat (f c) = concat c ++ [b]) -> map (@concat batch) (upd i f l) = app_at i b (map (@concat batch) l).
Proof. intro H. revert i. induction l as [|x r IH]; intro i; destruct i; cbn; try reflexivity; [rewrite H | rewrite IH]; reflexivity. Qed.

Lemma app_chunk_concat c (b : batch) chunks : concat (app_chunk c b chunks) = concat chunks ++ [b].
Proof.
  unfold app_chunk. destruct (rev chunks) as [|x r] eqn:E.
  - assert (chunks = []) by (destruct chunks as [|y ys]; [reflexivity | cbn in E; destruct (rev ys); discriminate]). subst. reflexivity.
  - assert (Ec : chunks = rev r ++ [x]) by (rewrite <- (rev_involutive chunks), E; reflexivity).
    destruct c; [rewrite concat_app; cbn [concat]; rewrite app_nil_r; reflexivity|].
    rewrite Ec, !concat_app. cbn [concat]. rewrite !app_nil_r, app_assoc. reflexivity.
Qed.

Lemma lay_open_lay n e ep : 0 < n -> lay_open n e ep -> lay e ep.
Proof.
  intros Hn (Hm & Hl & Hp). split; [unfold le_live; rewrite Hm; reflexivity|].
  unfold replay_entry. rewrite Hp. rewrite (total_distribute n ep Hn 0 (repeat [] n) (repeat_length _ _)), total_repeat_nil, Nat.add_0_r.
  apply replay_phase0. exact Hn.
Qed.

Lemma skipn_app_le {A} k (l r : list A) : k <= length l -> skipn k (l ++ r) = skipn k l ++ r.
Proof. intro H. rewrite skipn_app. replace (k - length l) with 0 by lia. reflexivity. Qed.

Lemma skipn_S_tl {A} k : forall l : list A, skipn (S k) l = tl (skipn k l).
Proof.
  induction k as [|k IH]; intro l; [destruct l; reflexivity|]. destruct l as [|x l]; [reflexivity|].
  change (skipn (S (S k)) (x :: l)) with (skipn (S k) l). change (skipn (S k) (x :: l)) with (skipn k l). apply IH.
Qed.

Lemma max_id_ge l e : In e l -> le_id e <= max_id l.
Proof. unfold max_id. induction l as [|x r IH]; intro H; [destruct H|]. destruct H as [E|H]; cbn [fold_right]; [subst; lia | specialize (IH H); lia]. Qed.

Lemma sorted_snoc l e : StronglySorted idlt l -> Forall (fun x => le_id x < le_id e) l -> StronglySorted idlt (l ++ [e]).
Proof.
  induction 1 as [|a r Hs IH Hf]; intro H; cbn; [constructor; constructor|]. inversion H; subst.
  constructor; [apply IH; assumption|]. apply Forall_app. split; [exact Hf | constructor; [assumption | constructor]].
Qed.

Lemma nodup_snoc (l : list nat) x : NoDup l -> ~ In x l -> NoDup (l ++ [x]).
Proof.
  induction 1 as [|a r Hn Hd IH]; intro Hx; cbn; [constructor; [intros [] | constructor]|].
  constructor.
  - intro Hi. apply in_app_or in Hi. destruct Hi as [Hi|[E|[]]]; [contradiction | subst; apply Hx; left; reflexivity].
  - apply IH. intro Hi. apply Hx. right. exact Hi.
Qed.

Lemma Forall_upd {A} (P : A -> Prop) k (g : A -> A) l : (forall x, P x -> P (g x)) -> Forall P l -> Forall P (upd k g l).
Proof. intros Hg H. revert k. induction H as [|x r Hx Hr IH]; intro k; destruct k; cbn; constructor; auto. Qed.

(* closing the current epoch's entry (switch, crash): it joins the closed live entries *)
Lemma close_cur st e b : le_id e = f_cur st -> f_cur st < b ->
  StronglySorted idlt (f_closed st) -> Forall (fun i => i < f_cur st) (map le_id (f_orph st ++ f_closed st)) -> NoDup (map le_id (f_orph st ++ f_closed st)) ->
  StronglySorted idlt (f_closed st ++ [e]) /\ Forall (fun i => i < b) (map le_id (f_orph st ++ f_closed st ++ [e])) /\
  NoDup (map le_id (f_orph st ++ f_closed st ++ [e])).
Proof.
  intros Hid Hb I5 I6 I7. split; [|split].
  - apply sorted_snoc; [exact I5|]. rewrite map_app in I6. apply Forall_app in I6. destruct I6 as [_ I6]. rewrite Hid.
    rewrite Forall_forall in *. intros x Hx. apply I6. apply in_map. exact Hx.
  - rewrite app_assoc, map_app. apply Forall_app. split; [|constructor; [cbn; lia | constructor]].
    eapply Forall_impl; [|exact I6]. intros x Hx. cbn in Hx. lia.
  - rewrite app_assoc, map_app. cbn [map]. apply nodup_snoc; [exact I7|]. intro Hi.
    rewrite Forall_forall in I6. specialize (I6 _ Hi). lia.
Qed.

Lemma wcommit_same st : closed (wstep st WCommit) = closed st /\ opn (wstep st WCommit) = opn st /\ nj (wstep st WCommit) = nj st.
Proof. unfold wstep. destruct (Nat.ltb (nf st) (length (closed st))); auto. Qed.

(* ---------- every step keeps the invariant ---------- *)
Ltac fs := cbn [f_g f_closed f_cure f_orph f_cur f_ctr f_rot le_id le_marker le_legacy le_parts].

Lemma fstep_inv n st o : 0 < n -> finv n st -> finv n (fstep n st o).
Proof.
  intros Hn I. destruct I as [I1 I2 I3 I4 I5 I6 I7]. destruct o; unfold fstep.
  - (* FOpen *)
    destruct (f_cure st) as [e|] eqn:Ec; [apply mkfinv; auto; rewrite Ec; exact I3|].
    destruct I3 as [I3 I3c]. apply mkfinv; fs; auto.
    rewrite I3. split; [|split; [reflexivity | exact I3c]].
    split; [reflexivity|]. split; [cbn; rewrite repeat_length; lia|].
    unfold pconcat. fs. cbn [map distribute]. rewrite map_rep. cbn [concat]. destruct n; [lia | reflexivity].
  - (* FCreate *)
    destruct (f_cure st) as [e|] eqn:Ec; [|apply mkfinv; auto; rewrite Ec; exact I3].
    destruct I3 as ((Hm & Hl & Hp) & Hid & Hc). apply mkfinv; fs; auto.
    unfold lay_open; fs. split; [|split; assumption]. split; [exact Hm|]. split; [rewrite upd_length; exact Hl|].
    unfold pconcat in *. fs. rewrite map_upd_same; [exact Hp|]. intro c. rewrite concat_app. cbn. rewrite app_nil_r. reflexivity.
  - (* FAppend *)
    destruct (f_cure st) as [e|] eqn:Ec; [|apply mkfinv; auto; rewrite Ec; exact I3].
    destruct I3 as ((Hm & Hl & Hp) & Hid & Hc). apply mkfinv; fs.
    + apply wstep_inv. exact I1.
    + exact I2.
    + unfold lay_open; fs. split; [|split; [exact Hid | cbn; rewrite app_length; cbn; lia]].
      split; [exact Hm|]. split; [rewrite upd_length; exact Hl|].
      unfold pconcat in *. fs. rewrite (map_upd_app_at b); [|intro c; apply app_chunk_concat].
      rewrite Hp, Hc. cbn [wstep opn]. rewrite distribute_snoc. reflexivity.
    + exact I4.
    + exact I5.
    + exact I6.
    + exact I7.
  - (* FRotate *)
    apply mkfinv; fs; auto.
  - (* FSwitch *)
    destruct (f_cure st) as [e|] eqn:Ec; [|apply mkfinv; auto; rewrite Ec; exact I3].
    destruct I3 as (Ho & Hid & Hc).
    destruct (close_cur st e (S (f_cur st)) Hid ltac:(lia) I5 I6 I7) as (C1 & C2 & C3).
    pose proof I1 as [W1 W2]. apply mkfinv; fs.
    + apply wstep_inv. exact I1.
    + cbn [wstep closed nj]. rewrite skipn_app_le by lia. apply Forall2_app; [exact I2|]. constructor; [|constructor].
      apply (lay_open_lay n e _ Hn Ho).
    + split; reflexivity.
    + exact I4.
    + exact C1.
    + exact C2.
    + exact C3.
  - (* FCommit *)
    destruct (wcommit_same (f_g st)) as (E1 & E2 & E3). apply mkfinv; fs; auto.
    + apply wstep_inv. exact I1.
    + rewrite E1, E3. exact I2.
    + rewrite E2. exact I3.
  - (* FRemoveMarker *)
    destruct (f_closed st) as [|e r] eqn:Ecl; [apply mkfinv; auto; rewrite ?Ecl; auto|].
    destruct (Nat.ltb (nj (f_g st)) (nf (f_g st)) && Nat.eqb (le_legacy e) 0) eqn:G; [|apply mkfinv; auto; rewrite ?Ecl; auto].
    apply andb_prop in G. destruct G as [G1 G2].
    assert (Pm : Permutation (map le_id (f_orph st ++ e :: r)) (map le_id ((mkle (le_id e) false 0 (le_parts e) :: f_orph st) ++ r))).
    { rewrite !map_app. cbn [map app le_id]. apply Permutation_sym. apply Permutation_middle. }
    apply mkfinv; fs.
    + apply wstep_inv. exact I1.
    + unfold wstep. rewrite G1. cbn [closed nj]. rewrite skipn_S_tl.
      remember (skipn (nj (f_g st)) (closed (f_g st))) as sk eqn:Es. clear Es. inversion I2 as [|? x ? xs Hl Hr]; subst. exact Hr.
    + unfold wstep. rewrite G1. cbn [opn]. exact I3.
    + constructor; [reflexivity | exact I4].
    + inversion I5; assumption.
    + apply (Permutation_Forall Pm). exact I6.
    + apply (Permutation_NoDup Pm). exact I7.
  - (* FRemoveOrphan *)
    set (g := fun e : lentry => mkle (le_id e) (le_marker e) (le_legacy e) (upd p (@tl _) (le_parts e))).
    assert (Em : map le_id (upd k g (f_orph st) ++ f_closed st) = map le_id (f_orph st ++ f_closed st)).
    { rewrite !map_app. f_equal. apply map_upd_same. reflexivity. }
    apply mkfinv; fs; auto.
    + apply Forall_upd; [|exact I4]. intros x Hx. exact Hx.
    + rewrite Em. exact I6.
    + rewrite Em. exact I7.
  - (* FUpMarker *)
    destruct (f_closed st) as [|e r] eqn:Ecl; [apply mkfinv; auto; rewrite ?Ecl; auto|].
    destruct (Nat.eqb (le_id e) 0 && negb (le_marker e) && Nat.ltb 0 (le_legacy e)) eqn:G; [|apply mkfinv; auto; rewrite ?Ecl; auto].
    apply andb_prop in G. destruct G as [G G3]. apply andb_prop in G. destruct G as [G1 G2]. apply Nat.eqb_eq in G1.
    assert (Em : map le_id (f_orph st ++ mkle 0 true (le_legacy e) (upd 0 (fun c => [] :: c) (le_parts e)) :: r) = map le_id (f_orph st ++ e :: r)).
    { rewrite !map_app. cbn [map le_id]. rewrite G1. reflexivity. }
    apply mkfinv; fs; auto.
    + remember (skipn (nj (f_g st)) (closed (f_g st))) as sk eqn:Es. clear Es. inversion I2 as [|? x ? xs Hl Hr]; subst.
      constructor; [|exact Hr]. destruct Hl as [_ Hl]. split; [reflexivity|].
      rewrite <- Hl. unfold replay_entry, pconcat. fs. rewrite map_upd_same; [reflexivity|]. intro c. reflexivity.
    + inversion I5 as [|? ? Hs Hf]; subst. constructor; [exact Hs|]. eapply Forall_impl; [|exact Hf]. intros a Ha. unfold idlt in *. cbn [le_id]. lia.
    + rewrite Em. exact I6.
    + rewrite Em. exact I7.
  - (* FUpRename *)
    destruct (f_closed st) as [|e r] eqn:Ecl; [apply mkfinv; auto; rewrite ?Ecl; auto|].
    destruct (Nat.eqb (le_id e) 0 && le_marker e && Nat.ltb 0 (le_legacy e)) eqn:G; [|apply mkfinv; auto; rewrite ?Ecl; auto].
    apply andb_prop in G. destruct G as [G G3]. apply andb_prop in G. destruct G as [G1 G2]. apply Nat.eqb_eq in G1.
    assert (Em : map le_id (f_orph st ++ mkle 0 true (pred (le_legacy e)) (le_parts e) :: r) = map le_id (f_orph st ++ e :: r)).
    { rewrite !map_app. cbn [map le_id]. rewrite G1. reflexivity. }
    apply mkfinv; fs; auto.
    + remember (skipn (nj (f_g st)) (closed (f_g st))) as sk eqn:Es. clear Es. inversion I2 as [|? x ? xs Hl Hr]; subst.
      constructor; [|exact Hr]. destruct Hl as [_ Hl]. split; [reflexivity | exact Hl].
    + inversion I5 as [|? ? Hs Hf]; subst. constructor; [exact Hs|]. eapply Forall_impl; [|exact Hf]. intros a Ha. unfold idlt in *. cbn [le_id]. lia.
    + rewrite Em. exact I6.
    + rewrite Em. exact I7.
  - (* FCrash *)
    assert (Hb : forall l, (forall x, In x l -> In x (on_disk st)) -> Forall (fun i => i < S (max_id (on_disk st))) (map le_id l)).
    { intros l Hl. rewrite Forall_forall. intros i Hi. apply in_map_iff in Hi. destruct Hi as (x & Ex & Hx). subst i.
      pose proof (max_id_ge (on_disk st) x (Hl x Hx)). lia. }
    destruct (f_cure st) as [e|] eqn:Ec.
    + destruct I3 as (Ho & Hid & Hc).
      destruct (close_cur st e (S (f_cur st)) Hid ltac:(lia) I5 I6 I7) as (C1 & _ & C3).
      pose proof I1 as [W1 W2]. apply mkfinv; fs.
      * apply wstep_inv. exact I1.
      * cbn [wstep closed nj]. rewrite skipn_app_le by lia. apply Forall2_app; [exact I2|]. constructor; [|constructor].
        apply (lay_open_lay n e _ Hn Ho).
      * split; reflexivity.
      * exact I4.
      * exact C1.
      * apply Hb. intros x Hx. unfold on_disk. rewrite Ec. exact Hx.
      * exact C3.
    + apply mkfinv; fs; auto.
      * destruct I3 as [I3 _]. split; [exact I3 | reflexivity].
      * apply Hb. intros x Hx. unfold on_disk. rewrite Ec, app_nil_r. exact Hx.
Qed.

Lemma finit_inv n legacy : 0 < n -> finv n (finit legacy).
Proof.
  intro Hn. destruct legacy as [[parts k]|]; unfold finit.
  - apply mkfinv; fs; cbn [winit f_g closed opn nf nj skipn app map le_id].
    + unfold winv. cbn. lia.
    + constructor; [|constructor]. split; reflexivity.
    + split; reflexivity.
    + constructor.
    + constructor; constructor.
    + constructor; [lia | constructor].
    + constructor; [intros [] | constructor].
  - apply mkfinv; fs; cbn [winit closed opn nf nj skipn app map].
    + unfold winv. cbn. lia.
    + constructor.
    + split; reflexivity.
    + constructor.
    + constructor.
    + constructor.
    + constructor.
Qed.

Lemma frun_inv n legacy ops : 0 < n -> finv n (frun n legacy ops).
Proof.
  intro Hn. unfold frun. pose proof (finit_inv n legacy Hn) as H. revert H. generalize (finit legacy).
  induction ops as [|o ops IH]; intros st H; [exact H|]. cbn. apply IH. apply fstep_inv; assumption.
Qed.

(* ---------- restart: any directory listing ---------- *)
Lemma perm_filter {A} (f : A -> bool) (l l' : list A) : Permutation l l' -> Permutation (filter f l) (filter f l').
Proof.
  induction 1 as [|x l l' Hp IH|x y l|l l' l'' H1 IH1 H2 IH2]; cbn.
  - constructor.
  - destruct (f x); [constructor; exact IH | exact IH].
  - destruct (f x), (f y); try apply Permutation_refl. apply perm_swap.
  - eapply Permutation_trans; eassumption.
Qed.

Lemma sorted_filter (f : lentry -> bool) l : StronglySorted idlt l -> StronglySorted idlt (filter f l).
Proof.
  induction 1 as [|a r Hs IH Hf]; cbn; [constructor|]. destruct (f a); [|exact IH]. constructor; [exact IH|].
  rewrite Forall_forall in *. intros x Hx. apply filter_In in Hx. apply Hf. tauto.
Qed.

Lemma sorted_unique (l1 : list lentry) : forall l2, StronglySorted idlt l1 -> StronglySorted idlt l2 -> Permutation l1 l2 -> l1 = l2.
Proof.
  induction l1 as [|a l1 IH]; intros l2 H1 H2 Hp.
  - apply Permutation_nil in Hp. subst. reflexivity.
  - destruct l2 as [|b l2]; [apply Permutation_sym, Permutation_nil in Hp; discriminate|].
    inversion H1 as [|? ? H1' F1]; subst. inversion H2 as [|? ? H2' F2]; subst.
    assert (Ea : a = b).
    { assert (Ia : In a (b :: l2)) by (eapply Permutation_in; [exact Hp | left; reflexivity]).
      assert (Ib : In b (a :: l1)) by (eapply Permutation_in; [apply Permutation_sym; exact Hp | left; reflexivity]).
      destruct Ia as [E|Ia]; [symmetry; exact E|]. destruct Ib as [E|Ib]; [exact E|].
      rewrite Forall_forall in F1, F2. pose proof (F1 b Ib). pose proof (F2 a Ia). unfold idlt in *. lia. }
    subst b. f_equal. apply IH; auto. eapply Permutation_cons_inv. exact Hp.
Qed.

Lemma as_files_concat E : concat (map snd (as_files E)) = E.
Proof. unfold as_files. induction E as [|e E IH]; cbn; [reflexivity | rewrite IH; reflexivity]. Qed.

Lemma sorted_as_files E : StronglySorted klt (as_files E) -> StronglySorted idlt E.
Proof.
  unfold as_files. induction E as [|e E IH]; cbn; intro H; [constructor|]. inversion H as [|? ? Hs Hf]; subst. constructor; [apply IH; exact Hs|].
  rewrite Forall_forall in *. intros x Hx. specialize (Hf (le_id x, [x])). apply Hf. apply in_map_iff. exists x. split; [reflexivity | exact Hx].
Qed.

Lemma filter_none {A} (f : A -> bool) l : Forall (fun x => f x = false) l -> filter f l = [].
Proof. induction 1 as [|x r Hx Hr IH]; cbn; [reflexivity | rewrite Hx; exact IH]. Qed.
Lemma filter_all {A} (f : A -> bool) l : Forall (fun x => f x = true) l -> filter f l = l.
Proof. induction 1 as [|x r Hx Hr IH]; cbn; [reflexivity | rewrite Hx, IH; reflexivity]. Qed.

Lemma lay_forall l eps : Forall2 lay l eps -> Forall (fun x => le_live x = true) l /\ map replay_entry l = eps.
Proof. induction 1 as [|e ep l eps [H1 H2] Hr [IH1 IH2]]; cbn; [split; [constructor | reflexivity]|]. split; [constructor; assumption | rewrite H2, IH2; reflexivity]. Qed.

Lemma recovery_exact_inv n st : 0 < n -> winv st -> store_eq (recovered_repaired n st) (lww (acked st)).
Proof.
  intros Hn [H1 H2].
  unfold recovered_repaired. rewrite (replay_repaired_is_live n st Hn).
  unfold flushed, live_epochs, acked. rewrite concat_app. cbn [concat]. rewrite app_nil_r.
  destruct (concat_split_3 (closed st) (nj st) (nf st) H1 H2) as [E1 E2].
  rewrite E1, E2. intro k.
  rewrite <- app_assoc.
  rewrite (over_overlap (concat (firstn (nj st) (closed st))) (concat (firstn (nf st - nj st) (skipn (nj st) (closed st))))
             (concat (skipn (nf st) (closed st)) ++ opn st) k).
  assert (Ec : concat (closed st) = concat (firstn (nj st) (closed st)) ++
            concat (firstn (nf st - nj st) (skipn (nj st) (closed st))) ++ concat (skipn (nf st) (closed st))).
  { rewrite <- (firstn_skipn (nj st) (closed st)) at 1. rewrite concat_app. rewrite E2. reflexivity. }
  rewrite Ec. rewrite <- !app_assoc. reflexivity.
Qed.

Theorem recover_log_exact n st listing : 0 < n -> finv n st -> Permutation listing (on_disk st) ->
  recover_log listing = concat (live_epochs (f_g st)).
Proof.
  intros Hn I Hp. destruct I as [I1 I2 I3 I4 I5 I6 I7].
  set (lives := f_closed st ++ cure_list st).
  (* the ids on disk are pairwise different, the live entries are in id order *)
  assert (Hcur : StronglySorted idlt lives /\ NoDup (map le_id (on_disk st)) /\
                 Forall (fun x => le_live x = true) (cure_list st) /\ concat (map replay_entry (cure_list st)) = opn (f_g st)).
  { unfold lives, on_disk, cure_list. destruct (f_cure st) as [e|] eqn:Ec.
    - destruct I3 as (Ho & Hid & Hc). destruct (close_cur st e (S (f_cur st)) Hid ltac:(lia) I5 I6 I7) as (C1 & _ & C3).
      destruct (lay_open_lay n e _ Hn Ho) as [L1 L2]. split; [exact C1|]. split; [exact C3|]. split; [constructor; [exact L1 | constructor]|].
      cbn. rewrite app_nil_r. exact L2.
    - destruct I3 as [I3 _]. rewrite !app_nil_r. split; [exact I5|]. split; [exact I7|]. split; [constructor | rewrite I3; reflexivity]. }
  destruct Hcur as (Hs & Hnd & Hcl & Hco).
  destruct (lay_forall _ _ I2) as [Hlive Hmap].
  (* the sorted listing *)
  unfold recover_log.
  pose proof (sort_perm Nat.ltb (as_files listing)) as Hsp.
  destruct (Permutation_map_inv _ _ Hsp) as (E & EE & HpE).
  assert (HEd : Permutation E (on_disk st)) by (eapply Permutation_trans; [apply Permutation_sym; exact HpE | exact Hp]).
  assert (Hss : StronglySorted klt (sort_files Nat.ltb (as_files listing))).
  { apply sort_sorted. unfold as_files. rewrite map_map. cbn [fst].
    apply (Permutation_NoDup (l := map le_id (on_disk st))); [apply Permutation_map, Permutation_sym; exact Hp | exact Hnd]. }
  rewrite EE in Hss |- *. change (map (fun e : lentry => (le_id e, [e])) E) with (as_files E) in *. rewrite as_files_concat.
  assert (Hf : filter le_live E = lives).
  { apply sorted_unique.
    - apply sorted_filter. apply sorted_as_files. exact Hss.
    - exact Hs.
    - eapply Permutation_trans; [apply perm_filter; exact HEd|]. unfold on_disk. fold (cure_list st).
      rewrite !filter_app, (filter_none _ _ I4), (filter_all _ _ Hlive), (filter_all _ _ Hcl). apply Permutation_refl. }
  rewrite Hf. unfold lives, live_epochs. rewrite map_app, !concat_app, Hmap, Hco. cbn [concat]. rewrite app_nil_r. reflexivity.
Qed.

(* what the acknowledged history is: every append that took effect adds its batch, nothing else changes it *)
Lemma acked_step n st o : acked (f_g (fstep n st o)) =
  acked (f_g st) ++ match o, f_cure st with FAppend b, Some _ => [b] | _, _ => [] end.
Proof.
  assert (Hsw : forall g, acked (wstep g WSwitch) = acked g).
  { intro g. unfold acked. cbn [wstep closed opn]. rewrite concat_app. cbn [concat]. rewrite !app_nil_r. reflexivity. }
  assert (Hco : forall g, acked (wstep g WCommit) = acked g).
  { intro g. unfold wstep, acked. destruct (Nat.ltb (nf g) (length (closed g))); reflexivity. }
  assert (Hre : forall g, acked (wstep g WRemove) = acked g).
  { intro g. unfold wstep, acked. destruct (Nat.ltb (nj g) (nf g)); reflexivity. }
  destruct o; unfold fstep; lazy iota beta; rewrite ?app_nil_r.
  - destruct (f_cure st); reflexivity.
  - destruct (f_cure st); reflexivity.
  - destruct (f_cure st); cbn [f_g]; [|rewrite app_nil_r; reflexivity].
    unfold acked. cbn [wstep closed opn]. rewrite app_assoc. reflexivity.
  - reflexivity.
  - destruct (f_cure st); cbn [f_g]; [apply Hsw | reflexivity].
  - cbn [f_g]. apply Hco.
  - destruct (f_closed st) as [|e r]; [reflexivity|].
    destruct (Nat.ltb (nj (f_g st)) (nf (f_g st)) && Nat.eqb (le_legacy e) 0); cbn [f_g]; [apply Hre | reflexivity].
  - reflexivity.
  - destruct (f_closed st) as [|e r]; [reflexivity|].
    destruct (Nat.eqb (le_id e) 0 && negb (le_marker e) && Nat.ltb 0 (le_legacy e)); reflexivity.
  - destruct (f_closed st) as [|e r]; [reflexivity|].
    destruct (Nat.eqb (le_id e) 0 && le_marker e && Nat.ltb 0 (le_legacy e)); reflexivity.
  - destruct (f_cure st); cbn [f_g]; [apply Hsw | reflexivity].
Qed.

Theorem file_level_recovery_exact n legacy ops listing k : 0 < n -> Permutation listing (on_disk (frun n legacy ops)) ->
  recovered_f (frun n legacy ops) listing k = lww (acked (f_g (frun n legacy ops))) k.
Proof.
  intros Hn Hp. pose proof (frun_inv n legacy ops Hn) as I. unfold recovered_f.
  rewrite (recover_log_exact n _ listing Hn I Hp). rewrite <- (replay_repaired_is_live n _ Hn).
  apply (recovery_exact_inv n _ Hn (fi_w _ _ I) k).
Qed.
