(* C01 proofs, part 5: record framing for ALL records - a framed record is read back, every strict byte prefix of it is refused. *)
From Coq Require Import NArith ZArith List Bool Arith Lia ZifyN ZifyNat ZifyBool.
From OG Require Import C01.Model.
Import ListNotations.
Ltac Zify.zify_post_hook ::= Z.to_euclidean_division_equations.

Lemma unbe32_be32 (n : N) : (n < 4294967296)%N -> unbe32 (be32 n) = n.
Proof. intro H. unfold unbe32, be32. lia. Qed.

Lemma frame_split typ payload : frame typ payload = typ :: be32 (N.of_nat (length payload)) ++ payload.
Proof. reflexivity. Qed.

Theorem frame_read_back typ payload rest : (0 < typ)%N -> (typ < 3)%N -> (N.of_nat (length payload) < 4294967296)%N ->
  read_frame (frame typ payload ++ rest) = Record typ payload rest.
Proof.
  intros H0 H3 Hl. unfold frame. set (n := N.of_nat (length payload)) in *.
  change (be32 n) with [N.modulo (N.div n 16777216) 256; N.modulo (N.div n 65536) 256; N.modulo (N.div n 256) 256; N.modulo n 256].
  cbn [app]. unfold read_frame.
  change [N.modulo (N.div n 16777216) 256; N.modulo (N.div n 65536) 256; N.modulo (N.div n 256) 256; N.modulo n 256] with (be32 n).
  rewrite (unbe32_be32 n Hl). unfold n. rewrite Nat2N.id.
  assert (E1 : (N.ltb 0 typ && N.ltb typ 3)%bool = true) by lia. rewrite E1. cbn [andb].
  assert (E2 : Nat.leb (length payload) (length (payload ++ rest)) = true) by (apply Nat.leb_le; rewrite app_length; lia). rewrite E2.
  rewrite firstn_app, Nat.sub_diag, firstn_all. cbn [firstn]. rewrite app_nil_r.
  rewrite skipn_app, Nat.sub_diag, skipn_all. reflexivity.
Qed.

Theorem torn_frame_rejected typ payload k : (N.of_nat (length payload) < 4294967296)%N ->
  k < length (frame typ payload) -> read_frame (firstn k (frame typ payload)) = Incomplete.
Proof.
  intros Hl Hk. unfold frame in *. set (n := N.of_nat (length payload)) in *.
  change (be32 n) with [N.modulo (N.div n 16777216) 256; N.modulo (N.div n 65536) 256; N.modulo (N.div n 256) 256; N.modulo n 256] in *.
  cbn [app] in *. cbn [length] in Hk.
  do 5 (destruct k as [|k]; [reflexivity|]). cbn [firstn]. unfold read_frame.
  change [N.modulo (N.div n 16777216) 256; N.modulo (N.div n 65536) 256; N.modulo (N.div n 256) 256; N.modulo n 256] with (be32 n).
  rewrite (unbe32_be32 n Hl). unfold n. rewrite Nat2N.id.
  assert (E : Nat.leb (length payload) (length (firstn k payload)) = false).
  { apply Nat.leb_gt. rewrite firstn_length. lia. }
  rewrite E. rewrite andb_false_r. reflexivity.
Qed.
