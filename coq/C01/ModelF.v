(* C01 model, file level: the log layout of the PROVED DESIGN for a repair of C01-walphase (not a patch; NOTES.md).
   File name <epoch>_<rot>.wal inside the partition directory: one epoch number per log switch, shared by all partitions; rot
   counts the size rotations of that partition inside the epoch. Old-layout files (<seq>.wal, no epoch tag) are era 0.
   Algorithm:
   * first write of an epoch (under the WAL's exclusive lock): create partition 0's file <epoch>_0.wal - the epoch's MARKER;
   * write: record k of the epoch (counter re-phased to 0 at every switch) is appended to partition k mod n, to that
     partition's current file, which is created on demand; a file above the size limit is closed (rotation);
   * switch: the next epoch number; flush: commit, then remove the epoch's files MARKER FIRST;
   * restart: list the files in any order, group by epoch, sort by epoch number; an epoch is live iff its marker exists (era 0
     also while old-layout names are left); live epochs are replayed one after the other, round-robin from partition 0 over
     each partition's files in rot order; the next epoch number is one above every number on disk, orphans included;
   * upgrade of an old-layout log: create the era-0 marker 0/0_0.wal, then rename <seq>.wal to 0_<seq>.wal one by one; its
     removal (marker first) may start only when no old-layout name is left.
   Executable definitions only. *)
From Coq Require Import NArith ZArith List Bool Arith.
From OG Require Import C01.Model.
Import ListNotations.

(* the files of one epoch: per partition the chunks (one per file, rot order), whether the marker exists, how many of its
   files still carry an old-layout name *)
Record lentry := mkle { le_id : nat; le_marker : bool; le_legacy : nat; le_parts : list (list (list batch)) }.
Definition le_live (e : lentry) : bool := le_marker e || Nat.ltb 0 (le_legacy e).
Definition pconcat (e : lentry) : list (list batch) := map (@concat batch) (le_parts e).
Definition replay_entry (e : lentry) : list batch := replay (total (pconcat e)) (pconcat e).

Fixpoint upd {A} (i : nat) (f : A -> A) (l : list A) : list A :=
  match l, i with
  | [], _ => []
  | x :: r, 0 => f x :: r
  | x :: r, S j => x :: upd j f r
  end.
(* append a record to a partition's files: to the last file, or to a new one when there is none or the last one is closed *)
Definition app_chunk (closed : bool) (b : batch) (chunks : list (list batch)) : list (list batch) :=
  match rev chunks with
  | [] => [[b]]
  | c :: r => if closed then chunks ++ [[b]] else rev r ++ [c ++ [b]]
  end.

Record fstate := mkf {
  f_g : wstate;                 (* ghost: the history machine (epochs' records, nf = committed, nj = removed) *)
  f_closed : list lentry;       (* disk: the live closed epochs, oldest first *)
  f_cure : option lentry;       (* disk: the current epoch's files (Some as soon as its marker exists) *)
  f_orph : list lentry;         (* disk: files of epochs whose marker is gone *)
  f_cur : nat; f_ctr : nat; f_rot : list nat   (* volatile: epoch number, records in the epoch (writeReq), partitions whose file is closed *)
}.
Inductive fop := FOpen | FCreate (p : nat) | FAppend (b : batch) | FRotate (p : nat) | FSwitch | FCommit
               | FRemoveMarker | FRemoveOrphan (k p : nat) | FUpMarker | FUpRename | FCrash.

Definition max_id (l : list lentry) : nat := fold_right (fun e m => Nat.max (le_id e) m) 0 l.
Definition on_disk (st : fstate) : list lentry :=
  f_orph st ++ f_closed st ++ match f_cure st with Some e => [e] | None => [] end.

Definition fstep (n : nat) (st : fstate) (o : fop) : fstate :=
  match o with
  | FOpen =>
      match f_cure st with
      | None => mkf (f_g st) (f_closed st) (Some (mkle (f_cur st) true 0 ([[]] :: repeat [] (pred n)))) (f_orph st) (f_cur st) (f_ctr st) (f_rot st)
      | Some _ => st
      end
  | FCreate p =>
      match f_cure st with
      | Some e => mkf (f_g st) (f_closed st) (Some (mkle (le_id e) (le_marker e) (le_legacy e) (upd p (fun c => c ++ [[]]) (le_parts e))))
                      (f_orph st) (f_cur st) (f_ctr st) (remove Nat.eq_dec p (f_rot st))
      | None => st
      end
  | FAppend b =>
      match f_cure st with
      | Some e => let p := f_ctr st mod n in
                  mkf (wstep (f_g st) (WWrite b)) (f_closed st)
                      (Some (mkle (le_id e) (le_marker e) (le_legacy e) (upd p (app_chunk (existsb (Nat.eqb p) (f_rot st)) b) (le_parts e))))
                      (f_orph st) (f_cur st) (S (f_ctr st)) (remove Nat.eq_dec p (f_rot st))
      | None => st
      end
  | FRotate p => mkf (f_g st) (f_closed st) (f_cure st) (f_orph st) (f_cur st) (f_ctr st) (p :: f_rot st)
  | FSwitch =>
      match f_cure st with
      | Some e => mkf (wstep (f_g st) WSwitch) (f_closed st ++ [e]) None (f_orph st) (S (f_cur st)) 0 []
      | None => st
      end
  | FCommit => mkf (wstep (f_g st) WCommit) (f_closed st) (f_cure st) (f_orph st) (f_cur st) (f_ctr st) (f_rot st)
  | FRemoveMarker =>
      match f_closed st with
      | e :: r => if Nat.ltb (nj (f_g st)) (nf (f_g st)) && Nat.eqb (le_legacy e) 0
                  then mkf (wstep (f_g st) WRemove) r (f_cure st) (mkle (le_id e) false 0 (le_parts e) :: f_orph st) (f_cur st) (f_ctr st) (f_rot st)
                  else st
      | [] => st
      end
  | FRemoveOrphan k p =>
      mkf (f_g st) (f_closed st) (f_cure st)
          (upd k (fun e => mkle (le_id e) (le_marker e) (le_legacy e) (upd p (@tl _) (le_parts e))) (f_orph st)) (f_cur st) (f_ctr st) (f_rot st)
  | FUpMarker =>
      match f_closed st with
      | e :: r => if Nat.eqb (le_id e) 0 && negb (le_marker e) && Nat.ltb 0 (le_legacy e)
                  then mkf (f_g st) (mkle 0 true (le_legacy e) (upd 0 (fun c => [] :: c) (le_parts e)) :: r) (f_cure st) (f_orph st) (f_cur st) (f_ctr st) (f_rot st)
                  else st
      | [] => st
      end
  | FUpRename =>
      match f_closed st with
      | e :: r => if Nat.eqb (le_id e) 0 && le_marker e && Nat.ltb 0 (le_legacy e)
                  then mkf (f_g st) (mkle 0 true (pred (le_legacy e)) (le_parts e) :: r) (f_cure st) (f_orph st) (f_cur st) (f_ctr st) (f_rot st)
                  else st
      | [] => st
      end
  | FCrash =>
      match f_cure st with
      | Some e => mkf (wstep (f_g st) WSwitch) (f_closed st ++ [e]) None (f_orph st) (S (max_id (on_disk st))) 0 []
      | None => mkf (f_g st) (f_closed st) None (f_orph st) (S (max_id (on_disk st))) 0 []
      end
  end.

(* start: an empty log, or an old-layout log (era 0: its files per partition in sequence order, k > 0 of them) *)
Definition finit (legacy : option (list (list (list batch)) * nat)) : fstate :=
  match legacy with
  | None => mkf winit [] None [] 1 0 []
  | Some (parts, k) => let e := mkle 0 false (S k) parts in mkf (mkw [replay_entry e] [] 0 0) [e] None [] 1 0 []
  end.
Definition frun (n : nat) (legacy : option (list (list (list batch)) * nat)) (ops : list fop) : fstate :=
  fold_left (fstep n) ops (finit legacy).

(* ---- restart ---- *)
Definition as_files (l : list lentry) : list (@wfile lentry) := map (fun e => (le_id e, [e])) l.
Definition recover_log (listing : list lentry) : list batch :=
  concat (map replay_entry (filter le_live (concat (map snd (sort_files Nat.ltb (as_files listing)))))).
Definition recovered_f (st : fstate) (listing : list lentry) : store :=
  over (lww (flushed (f_g st))) (lww (recover_log listing)).
